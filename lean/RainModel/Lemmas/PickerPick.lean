import RainModel.Lemmas.PickerGaps
/-! The pick ladder for peers (`findPiece`, `PickFor`) of M-PICK. -/
namespace Rain.Picker

theorem pickable_iff (pc : Piece) (p : Nat) :
    pc.pickable p = true ↔ pc.done = false ∧ pc.writing = false ∧ pc.requested = [] ∧ p ∈ pc.having := by
  unfold Piece.pickable
  cases pc.done <;> cases pc.writing <;> simp [List.isEmpty_iff]

theorem pickAllowedFastLoop_spec (s : State) (p : Nat) (Q : Nat → Prop) :
    ∀ (l : List Nat) (acc : Option Nat), (∀ k, acc = some k → Q k) →
    (∀ x ∈ l, x < s.n → (s.pieces x).pickable p = true → Q x) →
    ∀ i, pickAllowedFastLoop s p l acc = some i → Q i
  | [], acc, hacc, _, i, hi => hacc i hi
  | x :: rest, acc, hacc, hl, i, hi => by
    simp only [pickAllowedFastLoop] at hi
    split at hi
    · rename_i hc
      simp only [Bool.and_eq_true, decide_eq_true_eq] at hc
      have hQx := hl x (by simp) hc.1 hc.2
      split at hi
      · simp at hi; subst hi; exact hQx
      · refine pickAllowedFastLoop_spec s p Q rest _ ?_ (fun y hy => hl y (by simp [hy])) i hi
        intro k hk
        cases hacc' : acc with
        | none => simp [hacc'] at hk; subst hk; exact hQx
        | some k' =>
          simp only [hacc'] at hk
          split at hk
          · simp at hk; subst hk; exact hQx
          · simp at hk; subst hk; exact hacc k' hacc'
    · exact pickAllowedFastLoop_spec s p Q rest acc hacc (fun y hy => hl y (by simp [hy])) i hi

theorem gapScan_spec (s : State) (p b : Nat) : ∀ (f i : Nat), gapScan s p b f = some i →
    b ≤ i ∧ i < b + f ∧ (s.pieces i).requested = [] ∧ p ∈ (s.pieces i).having ∧
      ((s.peers p).choking = false ∨ i ∈ (s.peers p).af)
  | 0, i, h => by simp [gapScan] at h
  | f + 1, i, h => by
    simp only [gapScan] at h
    split at h
    · rename_i hc
      simp at h; subst h
      simp only [Bool.and_eq_true, Bool.or_eq_true, Bool.not_eq_true', List.isEmpty_iff, List.contains_iff_mem] at hc
      exact ⟨by omega, by omega, hc.1.1, hc.1.2, hc.2⟩
    · have := gapScan_spec s p b f i h
      exact ⟨this.1, by omega, this.2.2⟩

theorem stealScan_spec (s : State) (p c : Nat) : ∀ (f i : Nat), stealScan s p c f = some i →
    c < i ∧ i ≤ c + f ∧ (s.pieces i).pickable p = true
  | 0, i, h => by simp [stealScan] at h
  | f + 1, i, h => by
    simp only [stealScan] at h
    split at h
    · rename_i hc; simp at h; subst h; exact ⟨by omega, by omega, hc⟩
    · have := stealScan_spec s p c f i h
      exact ⟨this.1, by omega, this.2.2⟩

theorem mem_downloadingSources (s : State) (k : Nat) (d : Dl) :
    (k, d) ∈ downloadingSources s ↔ k < s.ns ∧ s.srcs k = some d := by
  unfold downloadingSources
  simp only [List.mem_filterMap, List.mem_range]
  constructor
  · rintro ⟨k', hk', h⟩
    cases hd : s.srcs k' with
    | none => simp [hd] at h
    | some d' => simp [hd] at h; obtain ⟨rfl, rfl⟩ := h; exact ⟨hk', hd⟩
  · rintro ⟨hk, hd⟩; exact ⟨k, hk, by simp [hd]⟩

/-- Outcome of `peerStealsFromWebseed`. -/
theorem peerSteals_spec (s : State) (p : Nat) (h : PickInv s) : ∀ (l : List (Nat × Dl)),
    (∀ x ∈ l, x ∈ downloadingSources s) →
    ∃ s1 res, peerSteals s p l = .ok (s1, res) ∧
      ((s1 = s ∧ res = none) ∨ ∃ k d i, k < s.ns ∧ s.srcs k = some d ∧ s1 = stopSt s k d i ∧ res = some i ∧
        d.b ≤ i ∧ i ≤ d.e ∧ i < s.n ∧ (s.pieces i).pickable p = true)
  | [], _ => ⟨s, none, rfl, Or.inl ⟨rfl, rfl⟩⟩
  | (k, d) :: rest, hl => by
    simp only [peerSteals]
    have ih := peerSteals_spec s p h rest (fun x hx => hl x (by simp [hx]))
    split
    · exact ih
    · split
      · rename_i i hscan
        have hkd := (mem_downloadingSources s k d).mp (hl (k, d) (by simp))
        obtain ⟨hbc, hce, hen, hown⟩ := srcOk_own h.srcOk hkd.1 hkd.2
        have hsp := stealScan_spec s p d.c _ i hscan
        have hbi : d.b ≤ i := by omega
        have hie : i ≤ d.e := by omega
        rw [webseedStopAt_eq s k d i h.srcOk hkd.1 hkd.2 hbi hie]
        simp only [bind, Except.bind, pure, Except.pure]
        exact ⟨_, _, rfl, Or.inr ⟨k, d, i, hkd.1, hkd.2, rfl, rfl, hbi, hie, by omega, hsp.2.2⟩⟩
      · exact ih

end Rain.Picker
namespace Rain.Picker

/-- What makes a pick for peer `p` acceptable in state `s`. -/
def GoodPick (s : State) (p i : Nat) : Prop :=
  i < s.n ∧ (s.pieces i).done = false ∧ (s.pieces i).writing = false ∧ p ∈ (s.pieces i).having ∧
  (s.pieces i).requested.length < max 1 s.maxDup ∧ ((s.peers p).choking = false ∨ i ∈ (s.peers p).af)

/-- `s1` differs from `s` at most in the end-game flag and the web-seed bookkeeping. -/
def SamePeers (s s1 : State) : Prop :=
  s1.n = s.n ∧ s1.np = s.np ∧ s1.peers = s.peers ∧ s1.maxDup = s.maxDup ∧ s1.sequential = s.sequential ∧
  ∀ j, (s1.pieces j).having = (s.pieces j).having ∧ (s1.pieces j).requested = (s.pieces j).requested ∧
    (s1.pieces j).done = (s.pieces j).done ∧ (s1.pieces j).writing = (s.pieces j).writing

theorem SamePeers.refl (s : State) : SamePeers s s := ⟨rfl, rfl, rfl, rfl, rfl, fun _ => ⟨rfl, rfl, rfl, rfl⟩⟩

theorem endgame_inv (s : State) (h : PickInv s) : PickInv { s with endgame := true } :=
  ⟨h.nodup, h.reqSubHaving, h.stalled, h.dupLimit, h.doneIdle, h.reqDl, h.chokedOk, h.havingOpen, h.webOwner,
   h.dlReq, h.closedIdle, h.afRange, h.srcOk, h.avail, h.maxWeb⟩

theorem goodPick_of_pickable {s : State} {p i : Nat} (hi : i < s.n) (hp : (s.pieces i).pickable p = true)
    (hc : (s.peers p).choking = false ∨ i ∈ (s.peers p).af) : GoodPick s p i := by
  obtain ⟨h1, h2, h3, h4⟩ := (pickable_iff _ _).mp hp
  refine ⟨hi, h1, h2, h4, ?_, hc⟩
  rw [h3]; simp; omega

theorem mem_argmins {key : Nat → Int} {c : List Nat} {i : Nat} (h : i ∈ argmins key c) : i ∈ c := by
  unfold argmins at h; exact (List.mem_filter.mp h).1

theorem pickEndgame_spec (s : State) (p : Nat) (hc : (s.peers p).choking = false) :
    ∀ r ∈ pickEndgame s p, ∀ i, r = some i → GoodPick s p i := by
  intro r hr i hi
  unfold pickEndgame at hr
  simp only [] at hr
  split at hr
  · simp at hr; subst hr; cases hi
  · simp only [List.mem_map] at hr
    obtain ⟨i', hm, rfl⟩ := hr
    simp at hi; subst hi
    have := List.mem_filter.mp (mem_argmins hm)
    simp only [List.mem_range, Bool.and_eq_true, Bool.not_eq_true', Bool.or_eq_false_iff, decide_eq_true_eq,
      List.contains_iff_mem] at this
    exact ⟨this.1, this.2.1.1.1, this.2.1.1.2, this.2.2, by omega, Or.inl hc⟩

theorem pickStalled_spec (s : State) (p : Nat) (hc : (s.peers p).choking = false) :
    ∀ r ∈ pickStalled s p, ∀ i, r = some i → GoodPick s p i := by
  intro r hr i hi
  unfold pickStalled at hr
  simp only [] at hr
  split at hr
  · simp at hr; subst hr; cases hi
  · simp only [List.mem_map] at hr
    obtain ⟨i', hm, rfl⟩ := hr
    simp at hi; subst hi
    have := List.mem_filter.mp (mem_argmins hm)
    simp only [List.mem_range, Bool.and_eq_true, Bool.not_eq_true', Bool.or_eq_false_iff, decide_eq_true_eq,
      List.contains_iff_mem] at this
    exact ⟨this.1, this.2.1.1.1.1, this.2.1.1.1.2, this.2.2, by omega, Or.inl hc⟩

theorem GoodPick.transfer {s s1 : State} {p i : Nat} (hs : SamePeers s s1) (h : GoodPick s1 p i) : GoodPick s p i := by
  obtain ⟨hn, hnp, hpe, hmd, _, hpc⟩ := hs
  obtain ⟨h1, h2, h3, h4, h5, h6⟩ := h
  have := hpc i
  exact ⟨by omega, by rw [← this.2.2.1]; exact h2, by rw [← this.2.2.2]; exact h3, by rw [← this.1]; exact h4,
    by rw [← this.2.1, ← hmd]; exact h5, by rw [← hpe]; exact h6⟩


/-- After the first rungs: end game or stalled re-requests on a state that is `s` up to the flag. -/
theorem tail_spec (s s1 : State) (p : Nat) (hs : SamePeers s s1) (hI : PickInv s1)
    (hc : (s.peers p).choking = false) (hdl : (s.peers p).dl = none) :
    ∀ r ∈ (if s1.endgame then (pickEndgame s1 p).map fun r => (.ok (s1, r.map (·, false)) : R (State × Option (Nat × Bool)))
           else (pickStalled s1 p).map fun r => .ok (s1, r.map (·, false))),
    ∃ s2 res, r = .ok (s2, res) ∧ PickInv s2 ∧ SamePeers s s2 ∧
      ∀ i af, res = some (i, af) → (s.peers p).dl = none ∧ GoodPick s p i := by
  intro r hr
  have hc1 : (s1.peers p).choking = false := by rw [hs.2.2.1]; exact hc
  split at hr
  · simp only [List.mem_map] at hr
    obtain ⟨r0, hr0, rfl⟩ := hr
    refine ⟨s1, _, rfl, hI, hs, ?_⟩
    intro i af hres
    cases r0 with
    | none => simp at hres
    | some i' =>
      simp at hres
      rw [← hres.1]
      exact ⟨hdl, (pickEndgame_spec s1 p hc1 _ hr0 _ rfl).transfer hs⟩
  · simp only [List.mem_map] at hr
    obtain ⟨r0, hr0, rfl⟩ := hr
    refine ⟨s1, _, rfl, hI, hs, ?_⟩
    intro i af hres
    cases r0 with
    | none => simp at hres
    | some i' =>
      simp at hres
      rw [← hres.1]
      exact ⟨hdl, (pickStalled_spec s1 p hc1 _ hr0 _ rfl).transfer hs⟩

theorem findPiece_spec (legacy : Bool) (s : State) (p : Nat) (h : PickInv s) :
    ∀ r ∈ findPiece legacy s p, ∃ s1 res, r = .ok (s1, res) ∧ PickInv s1 ∧ SamePeers s s1 ∧
      ∀ i af, res = some (i, af) → (s.peers p).dl = none ∧ GoodPick s p i := by
  intro r hr
  unfold findPiece at hr
  simp only [] at hr
  split at hr
  · simp at hr; subst hr; exact ⟨s, none, rfl, h, SamePeers.refl s, by intro i af e; cases e⟩
  · rename_i hdl0
    have hdl : (s.peers p).dl = none := by
      cases hd : (s.peers p).dl with
      | none => rfl
      | some x => simp [hd] at hdl0
    split at hr
    · -- a web seed is downloading
      split at hr
      · simp at hr; subst hr; exact ⟨s, none, rfl, h, SamePeers.refl s, by intro i af e; cases e⟩
      · rename_i hch
        have hc : (s.peers p).choking = false := by simpa using hch
        split at hr
        · -- last piece of a smallest gap
          simp only [List.mem_map] at hr
          obtain ⟨i, hi, rfl⟩ := hr
          refine ⟨s, _, rfl, h, SamePeers.refl s, ?_⟩
          intro i' af hres
          simp at hres
          rw [← hres.1]
          unfold pickLastPieceOfSmallestGap at hi
          simp only [List.mem_map, List.mem_filter, List.mem_filterMap] at hi
          obtain ⟨x, ⟨⟨g, hg, hx⟩, _⟩, rfl⟩ := hi
          cases hscan : gapScan s p g.1 (g.2 - g.1) with
          | none => simp [hscan] at hx
          | some i0 =>
            simp [hscan] at hx; subst hx
            simp only
            have hgood := findGaps_good s g hg
            have hsp := gapScan_spec s p g.1 _ i0 hscan
            have hav := (availWeb_iff _).mp (hgood.2.2 i0 hsp.1 (by omega))
            have := hsp.2.1; have := hgood.1; have := hgood.2.1
            refine ⟨hdl, by omega, hav.1, hav.2.1, hsp.2.2.2.1, ?_, Or.inl hc⟩
            rw [hsp.2.2.1]; simp; omega
        · -- steal from a web seed
          simp only [List.mem_singleton] at hr
          obtain ⟨s1, res, he, hcase⟩ := peerSteals_spec s p h (downloadingSources s) (fun x hx => hx)
          rw [he] at hr
          simp [Except.map] at hr; subst hr
          rcases hcase with ⟨rfl, rfl⟩ | ⟨k, d, i, hk, hd, rfl, rfl, hbi, hie, hin, hpk⟩
          · exact ⟨s1, none, rfl, h, SamePeers.refl s1, by intro i af e; cases e⟩
          · have hf := stopSt_frame s k d i
            refine ⟨_, _, rfl, (stopSt_core s k d i h.core hk hd hbi hie).inv (stopSt_doneIdle s k d i h.doneIdle),
              ⟨hf.1, hf.2.1, hf.2.2.2.1, hf.2.2.2.2.1, hf.2.2.2.2.2.1, hf.2.2.2.2.2.2.2⟩, ?_⟩
            intro i' af hres
            simp at hres
            rw [← hres.1]
            exact ⟨hdl, goodPick_of_pickable hin hpk (Or.inl hc)⟩
    · -- no web seed
      split at hr
      · -- file edge
        rename_i i hedge
        simp at hr; subst hr
        refine ⟨s, _, rfl, h, SamePeers.refl s, ?_⟩
        intro i' af hres
        simp at hres
        rw [← hres.1]
        split at hedge
        · rename_i hcond
          simp only [Bool.and_eq_true, Bool.not_eq_true'] at hcond
          unfold pickFileEdge at hedge
          have hp := List.find?_some hedge
          have hm := List.mem_of_find?_eq_some hedge
          simp only [List.mem_range] at hm
          simp only [Bool.and_eq_true] at hp
          exact ⟨hdl, goodPick_of_pickable hm hp.2 (Or.inl hcond.2)⟩
        · cases hedge
      · split at hr
        · -- allowed fast
          rename_i i haf
          simp at hr; subst hr
          refine ⟨s, _, rfl, h, SamePeers.refl s, ?_⟩
          intro i' af hres
          simp at hres
          rw [← hres.1]
          split at haf
          · unfold pickAllowedFast at haf
            have := pickAllowedFastLoop_spec s p (fun x => x < s.n ∧ (s.pieces x).pickable p = true ∧ x ∈ (s.peers p).af)
              (s.peers p).af none (by intro k hk; cases hk) (by intro x hx h1 h2; exact ⟨h1, h2, hx⟩) i haf
            exact ⟨hdl, goodPick_of_pickable this.1 this.2.1 (Or.inr this.2.2)⟩
          · cases haf
        · split at hr
          · simp at hr; subst hr; exact ⟨s, none, rfl, h, SamePeers.refl s, by intro i af e; cases e⟩
          · rename_i hch
            have hc : (s.peers p).choking = false := by simpa using hch
            split at hr
            · -- end-game short path
              have := tail_spec s s p (SamePeers.refl s) h hc hdl r
              rename_i heg
              simp only [Bool.and_eq_true] at heg
              simp only [heg.1, if_true] at this
              exact this hr
            · simp only [List.mem_flatMap] at hr
              obtain ⟨⟨s1, r1⟩, hfirst, hr⟩ := hr
              -- the first rung gives a pickable piece or a state that is `s` up to the end-game flag
              have hfirst' : (∃ i, r1 = some i ∧ s1 = s ∧ i < s.n ∧ (s.pieces i).pickable p = true) ∨
                  (r1 = none ∧ (s1 = s ∨ s1 = { s with endgame := true })) := by
                split at hfirst
                · simp only [List.mem_singleton] at hfirst
                  unfold pickSequential at hfirst
                  split at hfirst
                  · rename_i i hfind
                    simp only [Prod.mk.injEq] at hfirst
                    obtain ⟨rfl, rfl⟩ := hfirst
                    have hp := List.find?_some hfind
                    have hm := List.mem_of_find?_eq_some hfind
                    simp only [List.mem_range] at hm
                    exact Or.inl ⟨i, rfl, rfl, hm, hp⟩
                  · simp only [Prod.mk.injEq] at hfirst
                    obtain ⟨rfl, rfl⟩ := hfirst
                    refine Or.inr ⟨rfl, ?_⟩
                    split
                    · exact Or.inl rfl
                    · exact Or.inr rfl
                · unfold pickRarest at hfirst
                  simp only [] at hfirst
                  split at hfirst
                  · simp only [List.mem_singleton, Prod.mk.injEq] at hfirst
                    obtain ⟨rfl, rfl⟩ := hfirst
                    refine Or.inr ⟨rfl, ?_⟩
                    split
                    · exact Or.inl rfl
                    · exact Or.inr rfl
                  · simp only [List.mem_map, Prod.mk.injEq] at hfirst
                    obtain ⟨i, hi, rfl, rfl⟩ := hfirst
                    have := List.mem_filter.mp (mem_argmins hi)
                    simp only [List.mem_range] at this
                    exact Or.inl ⟨i, rfl, rfl, this.1, this.2⟩
              rcases hfirst' with ⟨i, rfl, rfl, hin, hpk⟩ | ⟨rfl, hs1⟩
              · simp at hr; subst hr
                refine ⟨s1, _, rfl, h, SamePeers.refl s1, ?_⟩
                intro i' af hres
                simp at hres
                rw [← hres.1]
                exact ⟨hdl, goodPick_of_pickable hin hpk (Or.inl hc)⟩
              · simp only at hr
                have hsame : SamePeers s s1 ∧ PickInv s1 := by
                  rcases hs1 with rfl | rfl
                  · exact ⟨SamePeers.refl _, h⟩
                  · exact ⟨⟨rfl, rfl, rfl, rfl, rfl, fun _ => ⟨rfl, rfl, rfl, rfl⟩⟩, endgame_inv s h⟩
                exact tail_spec s s1 p hsame.1 hsame.2 hc hdl r hr


theorem addPick_inv (s : State) (p i : Nat) (af : Bool) (h : PickInv s) (hp : p < s.np)
    (hc : (s.peers p).closed = false) (hdl : (s.peers p).dl = none) (hg : GoodPick s p i) :
    PickInv (setPeer (setPiece s i { s.pieces i with requested := sadd (s.pieces i).requested p }) p
      { s.peers p with dl := some (i, af) }) := by
  obtain ⟨hi, hdone, hwr, hhav, hlen, _⟩ := hg
  obtain ⟨h1, h2, h3, h4, h5, h6, h7, h8, h9, h10, h11, h12, h13, h14, h15⟩ := h
  have hnr : ∀ j, j < s.n → p ∉ (s.pieces j).requested := by
    intro j hj hm
    have := h6 j hj p hm
    rw [hdl] at this; simp at this
  constructor
  case avail => avail_same h14
  all_goals clause_auto

/-- Every outcome of `pick p` (`PickFor` + `startSinglePieceDownloader`). -/
theorem pickFor_spec (legacy : Bool) (s : State) (p : Nat) (h : PickInv s) (hp : p < s.np)
    (hc : (s.peers p).closed = false) :
    ∀ r ∈ pickFor legacy s p, ∃ s' res, r = .ok (s', res) ∧ PickInv s' ∧
      ∀ i af, res = some (i, af) → (s.peers p).dl = none ∧ GoodPick s p i := by
  intro r hr
  unfold pickFor at hr
  simp only [List.mem_map] at hr
  obtain ⟨r0, hr0, rfl⟩ := hr
  obtain ⟨s1, res, rfl, hI, hs, hres⟩ := findPiece_spec legacy s p h r0 hr0
  cases res with
  | none => exact ⟨s1, none, rfl, hI, by intro i af e; cases e⟩
  | some x =>
    obtain ⟨i, af⟩ := x
    obtain ⟨hdl, hg⟩ := hres i af rfl
    refine ⟨_, some (i, af), rfl, ?_, ?_⟩
    · obtain ⟨hn, hnp, hpe, hmd, hsq, hpc⟩ := hs
      have hg1 : GoodPick s1 p i := by
        obtain ⟨g1, g2, g3, g4, g5, g6⟩ := hg
        have := hpc i
        exact ⟨by omega, by rw [this.2.2.1]; exact g2, by rw [this.2.2.2]; exact g3, by rw [this.1]; exact g4,
          by rw [this.2.1, hmd]; exact g5, by rw [hpe]; exact g6⟩
      have := addPick_inv s1 p i af hI (by omega) (by rw [hpe]; exact hc) (by rw [hpe]; exact hdl) hg1
      simpa using this
    · intro i' af' e
      simp only [Option.some.injEq, Prod.mk.injEq] at e
      rw [← e.1]; exact ⟨hdl, hg⟩

theorem step_pick_inv (legacy : Bool) (s : State) (p : Nat) (h : PickInv s) :
    ∀ r ∈ step legacy s (.pick p), ∃ s' o, r = .ok (s', o) ∧ PickInv s' := by
  intro r hr
  simp only [step] at hr
  split at hr
  · rename_i hpre
    simp only [List.mem_map] at hr
    obtain ⟨r0, hr0, rfl⟩ := hr
    obtain ⟨s', res, rfl, hI, _⟩ := pickFor_spec legacy s p h hpre.1 hpre.2 r0 hr0
    exact ⟨s', _, rfl, hI⟩
  · simp at hr; subst hr; exact ⟨_, _, rfl, h⟩

theorem goodPick_safe {s : State} {p i : Nat} (hdl : (s.peers p).dl = none) (hg : GoodPick s p i) : PickSafe s p i :=
  ⟨hg.1, hg.2.1, hg.2.2.1, hg.2.2.2.1, hg.2.2.2.2.2, hdl⟩

/-- Every returned pick is safe. -/
theorem step_pick_safe (legacy : Bool) (s : State) (p : Nat) (h : PickInv s) (s' : State) (i : Nat) (af : Bool)
    (hr : .ok (s', .pick (some (i, af))) ∈ step legacy s (.pick p)) : PickSafe s p i := by
  simp only [step] at hr
  split at hr
  · rename_i hpre
    simp only [List.mem_map] at hr
    obtain ⟨r0, hr0, he⟩ := hr
    obtain ⟨s1, res, rfl, _, hres⟩ := pickFor_spec legacy s p h hpre.1 hpre.2 r0 hr0
    simp [Except.map] at he
    obtain ⟨_, rfl⟩ := he
    obtain ⟨hdl, hg⟩ := hres i af rfl
    exact goodPick_safe hdl hg
  · simp at hr

/-- `sequential_lowest` on the ladder as it is now. -/
theorem findPiece_seqLowest (s : State) (p : Nat) :
    ∀ r ∈ findPiece false s p, ∀ s1 res, r = .ok (s1, res) → SeqLowest s p (res.map (·.1)) := by
  intro r hr s1 res he
  intro hyp j hj
  obtain ⟨hseq, hch, hdl, hweb, hedge⟩ := hyp
  unfold lowestPickable at hj
  simp only [Option.mem_def] at hj
  unfold findPiece at hr
  simp only [hdl, hweb, hseq, hch, hedge, Option.isSome_none, Bool.false_eq_true, if_false, Bool.not_false,
    Bool.and_true, Bool.not_true, Bool.or_false, Bool.and_false, if_true, Bool.true_and, Bool.false_or] at hr
  simp only [pickSequential, hj, List.flatMap_cons, List.flatMap_nil, List.append_nil, List.mem_singleton] at hr
  subst hr
  simp only [Except.ok.injEq, Prod.mk.injEq] at he
  rw [← he.2]; rfl

/-! ### progress: outcome lists are never empty -/

theorem exists_min_key (key : Nat → Int) : ∀ (c : List Nat), c ≠ [] → ∃ i ∈ c, ∀ j ∈ c, key i ≤ key j
  | [], h => absurd rfl h
  | [x], _ => ⟨x, by simp, by intro j hj; simp at hj; subst hj; exact Int.le_refl _⟩
  | x :: y :: rest, _ => by
    obtain ⟨m, hm, hmin⟩ := exists_min_key key (y :: rest) (by simp)
    by_cases hx : key x ≤ key m
    · refine ⟨x, by simp, ?_⟩
      intro j hj
      simp only [List.mem_cons] at hj
      rcases hj with rfl | hj
      · exact Int.le_refl _
      · exact Int.le_trans hx (hmin j (by simpa using hj))
    · refine ⟨m, by simp only [List.mem_cons] at hm ⊢; exact Or.inr hm, ?_⟩
      intro j hj
      simp only [List.mem_cons] at hj
      rcases hj with rfl | hj
      · omega
      · exact hmin j (by simpa using hj)

theorem argmins_ne_nil (key : Nat → Int) (c : List Nat) (h : c ≠ []) : argmins key c ≠ [] := by
  obtain ⟨i, hi, hmin⟩ := exists_min_key key c h
  intro he
  have : i ∈ argmins key c := by
    unfold argmins
    rw [List.mem_filter]
    exact ⟨hi, by simpa [List.all_eq_true] using hmin⟩
  rw [he] at this; cases this

/-- A list has an element maximal for a `Nat`-valued measure. -/
theorem exists_max_measure {α : Type} (f : α → Nat) : ∀ (c : List α), c ≠ [] → ∃ x ∈ c, ∀ y ∈ c, f y ≤ f x
  | [], h => absurd rfl h
  | [x], _ => ⟨x, by simp, by intro j hj; simp at hj; subst hj; exact Nat.le_refl _⟩
  | x :: y :: rest, _ => by
    obtain ⟨m, hm, hmax⟩ := exists_max_measure f (y :: rest) (by simp)
    by_cases hx : f m ≤ f x
    · refine ⟨x, by simp, ?_⟩
      intro j hj
      simp only [List.mem_cons] at hj
      rcases hj with rfl | hj
      · exact Nat.le_refl _
      · exact Nat.le_trans (hmax j (by simpa using hj)) hx
    · refine ⟨m, by simp only [List.mem_cons] at hm ⊢; exact Or.inr hm, ?_⟩
      intro j hj
      simp only [List.mem_cons] at hj
      rcases hj with rfl | hj
      · omega
      · exact hmax j (by simpa using hj)

theorem isEmpty_false_ne_nil {α : Type} {l : List α} (h : ¬ l.isEmpty = true) : l ≠ [] := by
  intro e; subst e; simp at h

theorem pickEndgame_ne_nil (s : State) (p : Nat) : pickEndgame s p ≠ [] := by
  unfold pickEndgame
  simp only []
  split
  · simp
  · rename_i h
    intro e
    exact argmins_ne_nil _ _ (isEmpty_false_ne_nil h) (List.map_eq_nil_iff.mp e)

theorem pickStalled_ne_nil (s : State) (p : Nat) : pickStalled s p ≠ [] := by
  unfold pickStalled
  simp only []
  split
  · simp
  · rename_i h
    intro e
    exact argmins_ne_nil _ _ (isEmpty_false_ne_nil h) (List.map_eq_nil_iff.mp e)

theorem pickRarest_ne_nil (s : State) (p : Nat) : pickRarest s p ≠ [] := by
  unfold pickRarest
  simp only []
  split
  · simp
  · rename_i h
    intro e
    exact argmins_ne_nil _ _ (isEmpty_false_ne_nil h) (List.map_eq_nil_iff.mp e)

theorem findPiece_ne_nil (legacy : Bool) (s : State) (p : Nat) : findPiece legacy s p ≠ [] := by
  unfold findPiece
  simp only []
  split
  · simp
  · split
    · split
      · simp
      · split
        · rename_i h
          intro e
          have := List.map_eq_nil_iff.mp e
          rw [this] at h; simp at h
        · simp
    · split
      · simp
      · split
        · simp
        · split
          · simp
          · split
            · intro e
              exact pickEndgame_ne_nil s p (List.map_eq_nil_iff.mp e)
            · intro e
              rw [List.flatMap_eq_nil_iff] at e
              have hfirst : (if s.sequential = true then [pickSequential s p] else pickRarest s p) ≠ [] := by
                split
                · simp
                · exact pickRarest_ne_nil s p
              obtain ⟨x, hx⟩ := List.exists_mem_of_ne_nil _ hfirst
              have := e x hx
              obtain ⟨s1, r⟩ := x
              cases r with
              | some i => simp at this
              | none =>
                simp only at this
                split at this
                · exact pickEndgame_ne_nil s1 p (List.map_eq_nil_iff.mp this)
                · exact pickStalled_ne_nil s1 p (List.map_eq_nil_iff.mp this)

theorem findRange_ne_nil (s : State) : findRange s ≠ [] := by
  unfold findRange
  simp only []
  split
  · unfold webseedSteals
    simp only []
    split
    · simp
    · rename_i h
      intro e
      have hnil := List.map_eq_nil_iff.mp e
      obtain ⟨x, hx, hmax⟩ := exists_max_measure (fun x : Nat × Dl => x.2.remaining) (downloadingSources s) (isEmpty_false_ne_nil h)
      have : x ∈ (downloadingSources s).filter fun x => (downloadingSources s).all fun y => decide (y.2.remaining ≤ x.2.remaining) := by
        rw [List.mem_filter]
        exact ⟨hx, by simpa [List.all_eq_true] using hmax⟩
      rw [hnil] at this; cases this
  · rename_i h
    split
    · split <;> simp
    · intro e
      have hnil := List.map_eq_nil_iff.mp e
      obtain ⟨x, hx, hmax⟩ := exists_max_measure (fun g : Nat × Nat => g.2 - g.1) (findGaps s) (isEmpty_false_ne_nil h)
      have : x ∈ (findGaps s).filter fun g => (findGaps s).all fun h => decide (h.2 - h.1 ≤ g.2 - g.1) := by
        rw [List.mem_filter]
        exact ⟨hx, by simpa [List.all_eq_true] using hmax⟩
      rw [hnil] at this; cases this

/-- **Progress**: every operation has at least one admissible outcome in every state (the model
never blocks; the "for every outcome" theorems are not vacuous for any operation). -/
theorem step_ne_nil (legacy : Bool) (s : State) (op : Op) : step legacy s op ≠ [] := by
  cases op <;> simp only [step]
  case pick p =>
    split
    · intro e
      have := List.map_eq_nil_iff.mp e
      unfold pickFor at this
      exact findPiece_ne_nil legacy s p (List.map_eq_nil_iff.mp this)
    · simp
  case pickweb k =>
    split
    · intro e
      have := List.map_eq_nil_iff.mp e
      unfold pickWebseed at this
      exact findRange_ne_nil s (List.map_eq_nil_iff.mp this)
    · simp
  all_goals (repeat' split) <;> simp

end Rain.Picker
