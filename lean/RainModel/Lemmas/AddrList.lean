import RainModel.Model.AddrList
/-!
Helper lemmas for `Model/AddrList`: the representation invariant and its preservation by
`pushOne`, the post-sort part of `Push`, `Pop` and `Reset`.
-/
namespace Rain.AddrList

def keys (l : List PA) : List Nat := l.map (·.prio)

/-- Number of entries from source `x`. -/
def cnt (l : List PA) (x : Nat) : Int := ((l.filter (fun p => p.src = x)).length : Int)

/-- Representation invariant: the btree holds exactly the priorities of the non-nil slots, each
once, and every object's `index` is its position in `peerByTime`. -/
structure Inv (s : St) : Prop where
  sorted : s.tree.Pairwise (· < ·)
  mem : ∀ k, k ∈ s.tree ↔ k ∈ keys s.entries
  nodup : (keys s.entries).Nodup
  idx : ∀ (i : Nat) (p : PA), s.byTime[i]? = some (some p) → p.index = i

/-- `countBySource` is exact, up to the additions of the running `Push` (`off`). -/
def Counts (s : St) (off : Nat → Int) : Prop := ∀ x, s.counts x + off x = cnt s.entries x

/-! ### generic list facts -/

theorem pairwise_lt_nodup {l : List Nat} (h : l.Pairwise (· < ·)) : l.Nodup :=
  h.imp (fun hab => Nat.ne_of_lt hab)

theorem len_eq_of {t : List Nat} {l : List PA} (hs : t.Pairwise (· < ·))
    (hm : ∀ k, k ∈ t ↔ k ∈ keys l) (hn : (keys l).Nodup) : t.length = l.length := by
  have hp : t.Perm (keys l) := (List.perm_ext_iff_of_nodup (pairwise_lt_nodup hs) hn).2 hm
  rw [hp.length_eq]; simp [keys]

theorem set_of_getElem? {α : Type} {l : List α} {i : Nat} {a : α} (h : l[i]? = some a) (b : α) :
    ∃ l1 l2, l = l1 ++ a :: l2 ∧ l.set i b = l1 ++ b :: l2 ∧ l1.length = i := by
  induction l generalizing i with
  | nil => simp at h
  | cons x xs ih =>
    cases i with
    | zero =>
      simp at h; subst h
      exact ⟨[], xs, rfl, rfl, rfl⟩
    | succ j =>
      simp at h
      obtain ⟨l1, l2, h1, h2, h3⟩ := ih h
      exact ⟨x :: l1, l2, by simp [h1], by simp [h2], by simp [h3]⟩

theorem find_prio {l : List PA} {k : Nat} (h : k ∈ keys l) :
    ∃ p, l.find? (·.prio == k) = some p ∧ p.prio = k ∧ p ∈ l := by
  induction l with
  | nil => simp [keys] at h
  | cons a t ih =>
    by_cases ha : a.prio = k
    · exact ⟨a, by simp [List.find?, ha], ha, by simp⟩
    · have : k ∈ keys t := by
        simp [keys] at h ⊢
        rcases h with h | h
        · exact absurd h.symm ha
        · exact h
      obtain ⟨p, h1, h2, h3⟩ := ih this
      refine ⟨p, ?_, h2, List.mem_cons_of_mem _ h3⟩
      have hb : (a.prio == k) = false := by simp [ha]
      simp [List.find?, hb, h1]

theorem mem_entries_idx {bt : List (Option PA)} {p : PA} (h : p ∈ bt.filterMap id) :
    ∃ i : Nat, bt[i]? = some (some p) := by
  obtain ⟨a, ha, hp⟩ := List.mem_filterMap.1 h
  simp at hp; subst hp
  exact List.mem_iff_getElem?.1 ha

/-! ### the key list (btree) -/

theorem insertKey_spec (k : Nat) : ∀ (t : List Nat), t.Pairwise (· < ·) →
    ((insertKey k t).2 = true ↔ k ∈ t) ∧ (insertKey k t).1.Pairwise (· < ·) ∧
    (∀ x, x ∈ (insertKey k t).1 ↔ x = k ∨ x ∈ t) ∧
    ((insertKey k t).2 = true → (insertKey k t).1 = t) := by
  intro t
  induction t with
  | nil => intro _; simp [insertKey]
  | cons a t ih =>
    intro ht
    rw [List.pairwise_cons] at ht
    obtain ⟨i1, i2, i3, i4⟩ := ih ht.2
    unfold insertKey
    by_cases h1 : k < a
    · simp only [h1, if_true]
      refine ⟨?_, ?_, ?_, ?_⟩
      · constructor
        · intro h; cases h
        · intro h
          rcases List.mem_cons.1 h with rfl | h
          · omega
          · have := ht.1 k h; omega
      · refine List.pairwise_cons.2 ⟨?_, List.pairwise_cons.2 ht⟩
        intro b hb
        rcases List.mem_cons.1 hb with rfl | hb
        · exact h1
        · exact Nat.lt_trans h1 (ht.1 b hb)
      · intro x; simp
      · intro h; cases h
    · by_cases h2 : k = a
      · subst h2
        simp only [Nat.lt_irrefl, if_false, if_true]
        refine ⟨by simp, List.pairwise_cons.2 ht, ?_, fun _ => trivial⟩
        intro x; simp
      · simp only [h1, h2, if_false]
        refine ⟨?_, ?_, ?_, ?_⟩
        · rw [show (insertKey k t).2 = true ↔ k ∈ t from i1]
          simp [h2]
        · refine List.pairwise_cons.2 ⟨?_, i2⟩
          intro b hb
          rcases (i3 b).1 hb with rfl | hb
          · omega
          · exact ht.1 b hb
        · intro x
          rw [List.mem_cons, i3 x, List.mem_cons]
          constructor
          · rintro (h | h | h) <;> simp [h]
          · rintro (h | h | h) <;> simp [h]
        · intro h
          show a :: (insertKey k t).1 = a :: t
          rw [i4 h]

theorem dropLast_spec {t : List Nat} {k : Nat} (hs : t.Pairwise (· < ·)) (hl : t.getLast? = some k) :
    k ∈ t ∧ (∀ x ∈ t, x ≤ k) ∧ t.dropLast.Pairwise (· < ·) ∧
    (∀ x, x ∈ t.dropLast ↔ x ∈ t ∧ x ≠ k) ∧ t.dropLast.length = t.length - 1 := by
  obtain ⟨ys, rfl⟩ := List.getLast?_eq_some_iff.1 hl
  rw [List.pairwise_append] at hs
  obtain ⟨h1, _, h3⟩ := hs
  simp only [List.dropLast_concat]
  refine ⟨by simp, ?_, h1, ?_, by simp⟩
  · intro x hx
    rcases List.mem_append.1 hx with hx | hx
    · exact Nat.le_of_lt (h3 x hx k (by simp))
    · simp at hx; omega
  · intro x
    constructor
    · intro hx
      exact ⟨List.mem_append_left _ hx, Nat.ne_of_lt (h3 x hx k (by simp))⟩
    · rintro ⟨hx, hne⟩
      rcases List.mem_append.1 hx with hx | hx
      · exact hx
      · simp at hx; exact absurd hx hne

/-! ### reindexing -/

theorem reindexFrom_length (i : Nat) (l : List PA) : (reindexFrom i l).length = l.length := by
  induction l generalizing i with
  | nil => rfl
  | cons a t ih => simp [reindexFrom, ih]

theorem keys_reindexFrom (i : Nat) (l : List PA) : keys (reindexFrom i l) = keys l := by
  induction l generalizing i with
  | nil => rfl
  | cons a t ih =>
    have := ih (i + 1)
    simp only [keys] at this ⊢
    simp [reindexFrom, this]

theorem cnt_reindexFrom (i : Nat) (l : List PA) (x : Nat) : cnt (reindexFrom i l) x = cnt l x := by
  induction l generalizing i with
  | nil => rfl
  | cons a t ih =>
    have := ih (i + 1)
    simp only [cnt] at this ⊢
    simp only [reindexFrom, List.filter_cons]
    by_cases h : a.src = x
    · simp only [h, decide_true, if_true, List.length_cons]; omega
    · simp only [h, decide_false]; exact this

theorem reindexFrom_idx (n : Nat) (l : List PA) : ∀ i p, (reindexFrom n l)[i]? = some p → p.index = n + i := by
  induction l generalizing n with
  | nil => intro i p h; simp [reindexFrom] at h
  | cons a t ih =>
    intro i p h
    cases i with
    | zero => simp [reindexFrom] at h; subst h; rfl
    | succ j =>
      simp [reindexFrom] at h
      have := ih (n + 1) j p h
      omega

theorem stamps_reindexFrom (i : Nat) (l : List PA) :
    (reindexFrom i l).map (·.stamp) = l.map (·.stamp) := by
  induction l generalizing i with
  | nil => rfl
  | cons a t ih => simp [reindexFrom, ih]

theorem entries_map_some (l : List PA) : (l.map some).filterMap id = l := by
  induction l with
  | nil => rfl
  | cons a t ih => simp [ih]

theorem entries_replicate_none (m : Nat) (l : List PA) :
    (List.replicate m (none : Option PA) ++ l.map some).filterMap id = l := by
  induction m with
  | zero => simp [entries_map_some l]
  | succ j ih => simp [List.replicate_succ, ih]

theorem cnt_perm {l1 l2 : List PA} (h : l1.Perm l2) (x : Nat) : cnt l1 x = cnt l2 x := by
  simp only [cnt]
  rw [(h.filter _).length_eq]

/-- Invariant of a state whose `peerByTime` is a nil-free re-indexed list. -/
theorem inv_of_list {t : List Nat} {l : List PA} {c : Nat → Int} (hs : t.Pairwise (· < ·))
    (hm : ∀ k, k ∈ t ↔ k ∈ keys l) (hn : (keys l).Nodup) :
    Inv ({ byTime := (reindexFrom 0 l).map some, tree := t, counts := c } : St) := by
  refine ⟨hs, ?_, ?_, ?_⟩
  · intro k
    simp only [St.entries, entries_map_some, keys_reindexFrom]
    exact hm k
  · simp only [St.entries, entries_map_some, keys_reindexFrom]
    exact hn
  · intro i p h
    simp only [List.getElem?_map, Option.map_eq_some_iff] at h
    obtain ⟨q, hq, hqp⟩ := h
    have e : q = p := by simpa using hqp
    rw [← e]
    have := reindexFrom_idx 0 l i q hq
    omega

/-! ### counting -/

theorem cnt_append (l1 l2 : List PA) (x : Nat) : cnt (l1 ++ l2) x = cnt l1 x + cnt l2 x := by
  simp [cnt, List.filter_append]

theorem cnt_cons (p : PA) (l : List PA) (x : Nat) :
    cnt (p :: l) x = (if p.src = x then 1 else 0) + cnt l x := by
  simp only [cnt, List.filter_cons]
  by_cases h : p.src = x
  · simp only [h, decide_true, if_true, List.length_cons]; omega
  · simp only [h, decide_false, if_false]; simp

theorem cnt_nil (x : Nat) : cnt [] x = 0 := rfl

/-- Additions of the running `Push` not yet written to `countBySource`. -/
def off (src added : Nat) : Nat → Int := fun x => if src = x then (added : Int) else 0

theorem bump_apply (c : Nat → Int) (s : Nat) (d : Int) (x : Nat) :
    bump c s d x = if s = x then c x + d else c x := by
  unfold bump
  by_cases h : x = s
  · subst h; simp
  · have : ¬ s = x := fun e => h e.symm
    simp [h, this]

/-! ### `pushOne` -/

theorem pushOne_inv (env : Env) (src now : Nat) (s : St) (added : Nat) (a : Cand)
    (hI : Inv s) (hC : Counts s (off src added)) :
    ∃ s' added', pushOne env src now (s, added) a = .ok (s', added') ∧ Inv s' ∧
      Counts s' (off src added') ∧
      (∀ q ∈ s'.entries, q ∈ s.entries ∨
        (filtered env a = false ∧ q.ip = a.ip ∧ q.port = a.port ∧ q.prio = a.prio ∧ q.src = src ∧
          q.stamp = now)) := by
  by_cases hf : filtered env a = true
  · exact ⟨s, added, by simp [pushOne, hf], hI, hC, fun q hq => Or.inl hq⟩
  · have hf' : filtered env a = false := by simpa using hf
    obtain ⟨i1, i2, i3, i4⟩ := insertKey_spec a.prio s.tree hI.sorted
    rcases hik : insertKey a.prio s.tree with ⟨t', b⟩
    rw [hik] at i1 i2 i3 i4
    simp only at i1 i2 i3 i4
    cases b with
    | false =>
      have hk : a.prio ∉ s.tree := by
        intro h; have := i1.2 h; cases this
      have hk' : a.prio ∉ keys s.entries := fun h => hk ((hI.mem _).2 h)
      let p : PA := ⟨a.ip, a.port, src, a.prio, now, s.byTime.length⟩
      have hent : ({ s with byTime := s.byTime ++ [some p], tree := t' } : St).entries = s.entries ++ [p] := by
        simp [St.entries, List.filterMap_append]
      refine ⟨{ s with byTime := s.byTime ++ [some p], tree := t' }, added + 1, ?_, ?_, ?_, ?_⟩
      · simp [pushOne, hf', hik, p]
      · refine ⟨i2, ?_, ?_, ?_⟩
        · intro k
          rw [hent]
          simp only [keys, List.map_append, List.mem_append, List.map_cons, List.map_nil,
            List.mem_singleton]
          rw [i3 k, hI.mem k]
          simp only [keys]
          constructor
          · rintro (h | h)
            · right; exact h
            · left; exact h
          · rintro (h | h)
            · right; exact h
            · left; exact h
        · rw [hent]
          simp only [keys, List.map_append, List.map_cons, List.map_nil]
          refine List.nodup_append.2 ⟨hI.nodup, by simp, ?_⟩
          intro x hx y hy
          simp at hy; subst hy
          intro hxy; subst hxy
          exact hk' hx
        · intro i q h
          simp only [List.getElem?_append] at h
          split at h
          · exact hI.idx i q h
          · rename_i hlt
            have : i - s.byTime.length = 0 := by
              cases hh : i - s.byTime.length with
              | zero => rfl
              | succ j => rw [hh] at h; simp at h
            rw [this] at h
            simp at h
            rw [← h]
            show s.byTime.length = i
            omega
      · intro x
        rw [hent, cnt_append, cnt_cons, cnt_nil]
        have := hC x
        simp only [off] at this ⊢
        show s.counts x + _ = _
        have hp : p.src = src := rfl
        rw [hp]
        by_cases hx : src = x
        · simp only [hx, if_true] at this ⊢; omega
        · simp only [hx, if_false] at this ⊢; omega
      · intro q hq
        rw [hent] at hq
        rcases List.mem_append.1 hq with hq | hq
        · exact Or.inl hq
        · simp at hq; subst hq
          exact Or.inr ⟨hf', rfl, rfl, rfl, rfl, rfl⟩
    | true =>
      have hk : a.prio ∈ s.tree := i1.1 rfl
      have ht' : t' = s.tree := i4 rfl
      obtain ⟨prev, hd, hpk, hpm⟩ := find_prio ((hI.mem _).1 hk)
      obtain ⟨i, hi⟩ := mem_entries_idx hpm
      have hidx : prev.index = i := hI.idx i prev hi
      have hlt : i < s.byTime.length := by
        rcases List.getElem?_eq_some_iff.1 hi with ⟨h, _⟩; exact h
      let p : PA := ⟨a.ip, a.port, src, a.prio, now, prev.index⟩
      obtain ⟨l1, l2, hl, hset, hlen⟩ := set_of_getElem? hi (some p)
      have hent0 : s.entries = l1.filterMap id ++ prev :: l2.filterMap id := by
        simp [St.entries, hl, List.filterMap_append]
      have hent : St.entries ⟨s.byTime.set prev.index (some p), t', bump s.counts prev.src (-1)⟩ =
          l1.filterMap id ++ p :: l2.filterMap id := by
        simp [St.entries, hidx, hset, List.filterMap_append]
      have hkeys : keys (l1.filterMap id ++ p :: l2.filterMap id) = keys s.entries := by
        rw [hent0]; simp [keys, p, hpk]
      refine ⟨⟨s.byTime.set prev.index (some p), t', bump s.counts prev.src (-1)⟩, added + 1,
        ?_, ?_, ?_, ?_⟩
      · have hd' : deref s.byTime a.prio = some prev := hd
        have hlt' : prev.index < s.byTime.length := by omega
        simp [pushOne, hf', hik, hd', hlt', p]
      · refine ⟨by rw [ht']; exact hI.sorted, ?_, ?_, ?_⟩
        · intro k; rw [hent, hkeys, ht']; exact hI.mem k
        · rw [hent, hkeys]; exact hI.nodup
        · intro j q h
          simp only [List.getElem?_set] at h
          split at h
          · rename_i hij
            rw [if_pos (by omega)] at h
            simp at h
            rw [← h]
            show prev.index = j
            omega
          · exact hI.idx j q h
      · intro x
        rw [hent, cnt_append, cnt_cons]
        have := hC x
        rw [hent0, cnt_append, cnt_cons] at this
        show bump s.counts prev.src (-1) x + _ = _
        rw [bump_apply]
        simp only [off] at this ⊢
        have hp : p.src = src := rfl
        rw [hp]
        by_cases h1 : src = x <;> by_cases h2 : prev.src = x <;>
          simp only [h1, h2, if_true, if_false] at this ⊢ <;> omega
      · intro q hq
        rw [hent] at hq
        rcases List.mem_append.1 hq with hq | hq
        · left; rw [hent0]; exact List.mem_append_left _ hq
        · rcases List.mem_cons.1 hq with hq | hq
          · subst hq
            exact Or.inr ⟨hf', rfl, rfl, rfl, rfl, rfl⟩
          · left; rw [hent0]; exact List.mem_append_right _ (List.mem_cons_of_mem _ hq)

/-- `q` was created by this `Push` from an address that passed the filters. -/
def FromCand (env : Env) (src now : Nat) (addrs : List Cand) (q : PA) : Prop :=
  ∃ a ∈ addrs, filtered env a = false ∧ q.ip = a.ip ∧ q.port = a.port ∧ q.prio = a.prio ∧
    q.src = src ∧ q.stamp = now

theorem pushLoop_inv (env : Env) (src now : Nat) : ∀ (addrs : List Cand) (s : St) (added : Nat),
    Inv s → Counts s (off src added) →
    ∃ s' added', pushLoop env src now addrs (s, added) = .ok (s', added') ∧ Inv s' ∧
      Counts s' (off src added') ∧
      (∀ q ∈ s'.entries, q ∈ s.entries ∨ FromCand env src now addrs q) := by
  intro addrs
  induction addrs with
  | nil =>
    intro s added hI hC
    exact ⟨s, added, rfl, hI, hC, fun q hq => Or.inl hq⟩
  | cons a as ih =>
    intro s added hI hC
    obtain ⟨s1, a1, h1, hI1, hC1, ho1⟩ := pushOne_inv env src now s added a hI hC
    obtain ⟨s2, a2, h2, hI2, hC2, ho2⟩ := ih s1 a1 hI1 hC1
    refine ⟨s2, a2, ?_, hI2, hC2, ?_⟩
    · simp only [pushLoop, h1, h2]
    · intro q hq
      rcases ho2 q hq with h | ⟨c, hc, hrest⟩
      · rcases ho1 q h with h | h
        · exact Or.inl h
        · exact Or.inr ⟨a, by simp, h⟩
      · exact Or.inr ⟨c, List.mem_cons_of_mem _ hc, hrest⟩

/-! ### eviction -/

theorem removeExcess_spec : ∀ (n i : Nat) (rest : List PA) (t : List Nat) (c : Nat → Int),
    t.Pairwise (· < ·) → (∀ k, k ∈ t ↔ k ∈ keys rest) → (keys rest).Nodup → n ≤ rest.length →
    ∃ t' c', removeExcess n i ⟨List.replicate i none ++ rest.map some, t, c⟩ =
        .ok ⟨List.replicate (i + n) none ++ (rest.drop n).map some, t', c'⟩ ∧
      t'.Pairwise (· < ·) ∧ (∀ k, k ∈ t' ↔ k ∈ keys (rest.drop n)) ∧ t'.length = t.length - n ∧
      (∀ x (o : Int), c x + o = cnt rest x → c' x + o = cnt (rest.drop n) x) := by
  intro n
  induction n with
  | zero =>
    intro i rest t c hs hm hn hle
    exact ⟨t, c, by simp [removeExcess], hs, by simpa using hm, by simp, fun x o h => by simpa using h⟩
  | succ n ih =>
    intro i rest t c hs hm hn hle
    cases rest with
    | nil => simp at hle
    | cons x rest' =>
      have hxk : x.prio ∈ t := (hm _).2 (by simp [keys])
      have hn' : x.prio ∉ keys rest' ∧ (keys rest').Nodup := by
        simpa [keys] using hn
      have hget : (List.replicate i (none : Option PA) ++ (x :: rest').map some)[i]? = some (some x) := by
        simp [List.getElem?_append]
      have hset : (List.replicate i (none : Option PA) ++ (x :: rest').map some).set i none =
          List.replicate (i + 1) none ++ rest'.map some := by
        rw [List.set_append]
        simp [List.replicate_succ']
      have hs' : (t.erase x.prio).Pairwise (· < ·) := hs.sublist (List.erase_sublist)
      have hm' : ∀ k, k ∈ t.erase x.prio ↔ k ∈ keys rest' := by
        intro k
        rw [(pairwise_lt_nodup hs).mem_erase_iff, hm k]
        simp only [keys, List.map_cons, List.mem_cons]
        constructor
        · rintro ⟨hne, h | h⟩
          · exact absurd h hne
          · exact h
        · intro h
          refine ⟨?_, Or.inr h⟩
          intro e; subst e; exact hn'.1 h
      obtain ⟨t', c', h1, h2, h3, h4, h5⟩ := ih (i + 1) rest' (t.erase x.prio) (bump c x.src (-1))
        hs' hm' hn'.2 (by simpa using hle)
      refine ⟨t', c', ?_, h2, ?_, ?_, ?_⟩
      · simp only [removeExcess, hget, hset]
        have e : i + 1 + n = i + (n + 1) := by omega
        rw [e] at h1
        simpa using h1
      · simpa using h3
      · rw [h4, List.length_erase_of_mem hxk]; omega
      · intro y o h
        have := h5 y o (by
          rw [bump_apply]
          rw [cnt_cons] at h
          by_cases hy : x.src = y
          · simp only [hy, if_true] at h ⊢; omega
          · simp only [hy, if_false] at h ⊢; omega)
        simpa using this

/-- Same address, source, priority and time stamp (only `index` may differ). -/
def SameCore (q q0 : PA) : Prop :=
  q.ip = q0.ip ∧ q.port = q0.port ∧ q.src = q0.src ∧ q.prio = q0.prio ∧ q.stamp = q0.stamp

theorem mem_reindexFrom {i : Nat} {l : List PA} {q : PA} (h : q ∈ reindexFrom i l) :
    ∃ q0 ∈ l, SameCore q q0 := by
  induction l generalizing i with
  | nil => simp [reindexFrom] at h
  | cons a t ih =>
    simp only [reindexFrom, List.mem_cons] at h
    rcases h with h | h
    · subst h
      exact ⟨a, by simp, rfl, rfl, rfl, rfl, rfl⟩
    · obtain ⟨q0, h0, hc⟩ := ih h
      exact ⟨q0, List.mem_cons_of_mem _ h0, hc⟩

theorem SameCore.trans {a b c : PA} (h1 : SameCore a b) (h2 : SameCore b c) : SameCore a c := by
  obtain ⟨a1, a2, a3, a4, a5⟩ := h1
  obtain ⟨b1, b2, b3, b4, b5⟩ := h2
  exact ⟨a1.trans b1, a2.trans b2, a3.trans b3, a4.trans b4, a5.trans b5⟩

/-! ### the part of `Push` after the sort -/

theorem pushFinish_spec (env : Env) (src : Nat) (s1 : St) (added : Nat) (sorted : List PA)
    (hI : Inv s1) (hC : Counts s1 (off src added)) (hA : Admissible (filterNils s1.byTime) sorted) :
    ∃ s3, pushFinish env src s1 sorted added = .ok s3 ∧ Inv s3 ∧ Counts s3 (fun _ => 0) ∧
      s3.tree.length ≤ env.maxItems ∧ s3.byTime.length = s3.tree.length ∧
      (∀ q ∈ s3.entries, ∃ q0 ∈ s1.entries, SameCore q q0) := by
  obtain ⟨hperm, _⟩ := hA
  have hfn : filterNils s1.byTime = reindexFrom 0 s1.entries := rfl
  rw [hfn] at hperm
  -- facts about `sorted`
  have hkeys : (keys sorted).Perm (keys s1.entries) := by
    have h := hperm.map (·.prio)
    have e := keys_reindexFrom 0 s1.entries
    simp only [keys] at e ⊢
    rw [e] at h
    exact h
  have hm : ∀ k, k ∈ s1.tree ↔ k ∈ keys sorted := fun k => (hI.mem k).trans (hkeys.mem_iff).symm
  have hn : (keys sorted).Nodup := (hkeys.nodup_iff).2 hI.nodup
  have hcnt : ∀ x, cnt sorted x = cnt s1.entries x := fun x => by
    rw [cnt_perm hperm x, cnt_reindexFrom]
  have horig : ∀ q ∈ sorted, ∃ q0 ∈ s1.entries, SameCore q q0 := fun q hq =>
    mem_reindexFrom (hperm.mem_iff.1 hq)
  -- the re-indexed list
  have hkeysR : keys (reindexFrom 0 sorted) = keys sorted := keys_reindexFrom 0 sorted
  have hmR : ∀ k, k ∈ s1.tree ↔ k ∈ keys (reindexFrom 0 sorted) := by rw [hkeysR]; exact hm
  have hnR : (keys (reindexFrom 0 sorted)).Nodup := by rw [hkeysR]; exact hn
  have hlen : s1.tree.length = (reindexFrom 0 sorted).length := len_eq_of hI.sorted hmR hnR
  have hcR : ∀ x, bump s1.counts src added x + 0 = cnt (reindexFrom 0 sorted) x := by
    intro x
    rw [cnt_reindexFrom, hcnt, ← hC x, bump_apply]
    simp only [off]
    by_cases h : src = x
    · simp only [h, if_true]; omega
    · simp only [h, if_false]
  unfold pushFinish
  simp only
  by_cases hd : s1.tree.length - env.maxItems > 0
  · rw [if_pos hd]
    obtain ⟨t', c', h1, h2, h3, h4, h5⟩ := removeExcess_spec (s1.tree.length - env.maxItems) 0
      (reindexFrom 0 sorted) s1.tree (bump s1.counts src added) hI.sorted hmR hnR (by omega)
    simp only [List.replicate_zero, List.nil_append, Nat.zero_add] at h1
    rw [h1]
    simp only
    have hent : filterNils (List.replicate (s1.tree.length - env.maxItems) none ++
        List.map some (List.drop (s1.tree.length - env.maxItems) (reindexFrom 0 sorted))) =
        reindexFrom 0 (List.drop (s1.tree.length - env.maxItems) (reindexFrom 0 sorted)) := by
      unfold filterNils; rw [entries_replicate_none]
    rw [hent]
    have hnD : (keys (List.drop (s1.tree.length - env.maxItems) (reindexFrom 0 sorted))).Nodup := by
      have : (keys (List.drop (s1.tree.length - env.maxItems) (reindexFrom 0 sorted))).Sublist
          (keys (reindexFrom 0 sorted)) := by
        simp only [keys]; exact (List.drop_sublist _ _).map _
      exact this.nodup hnR
    have hlenD := len_eq_of h2 h3 hnD
    have hinv := inv_of_list (c := c') h2 h3 hnD
    rw [if_neg (by simp [reindexFrom_length, hlenD])]
    refine ⟨_, rfl, hinv, ?_, by show t'.length ≤ _; omega, by simp [reindexFrom_length, hlenD], ?_⟩
    · intro x
      simp only [St.entries, entries_map_some, cnt_reindexFrom]
      exact h5 x 0 (hcR x)
    · intro q hq
      simp only [St.entries, entries_map_some] at hq
      obtain ⟨q1, hq1, hc1⟩ := mem_reindexFrom hq
      obtain ⟨q2, hq2, hc2⟩ := mem_reindexFrom (List.mem_of_mem_drop hq1)
      obtain ⟨q3, hq3, hc3⟩ := horig q2 hq2
      exact ⟨q3, hq3, (hc1.trans hc2).trans hc3⟩
  · rw [if_neg hd]
    simp only
    have hinv := inv_of_list (c := bump s1.counts src added) hI.sorted hm hn
    rw [if_neg (by simp [hlen])]
    refine ⟨_, rfl, hinv, ?_, by show s1.tree.length ≤ _; omega, by simp [hlen], ?_⟩
    · intro x
      simp only [St.entries, entries_map_some]
      exact hcR x
    · intro q hq
      simp only [St.entries, entries_map_some] at hq
      obtain ⟨q1, hq1, hc1⟩ := mem_reindexFrom hq
      obtain ⟨q3, hq3, hc3⟩ := horig q1 hq1
      exact ⟨q3, hq3, hc1.trans hc3⟩

/-! ### `Pop` -/

theorem pop_spec (s : St) (hI : Inv s) (hC : Counts s (fun _ => 0)) :
    ∃ r s', pop s = .ok (r, s') ∧ Inv s' ∧ Counts s' (fun _ => 0) ∧
      (r = none → s.tree = [] ∧ s' = s) ∧
      (∀ p, r = some p → p ∈ s.entries ∧ (∀ q ∈ s.entries, q.prio ≤ p.prio) ∧
        (∀ q, q ∈ s'.entries ↔ q ∈ s.entries ∧ q ≠ p) ∧ s'.tree.length + 1 = s.tree.length) := by
  unfold pop
  cases hl : s.tree.getLast? with
  | none =>
    refine ⟨none, s, rfl, hI, hC, fun _ => ⟨?_, rfl⟩, fun p h => by cases h⟩
    simpa using hl
  | some k =>
    obtain ⟨hk, hmax, hdl, hdm, hdlen⟩ := dropLast_spec hI.sorted hl
    obtain ⟨p, hd, hpk, hpm⟩ := find_prio ((hI.mem _).1 hk)
    obtain ⟨i, hi⟩ := mem_entries_idx hpm
    have hidx : p.index = i := hI.idx i p hi
    have hlt : i < s.byTime.length := by
      rcases List.getElem?_eq_some_iff.1 hi with ⟨h, _⟩; exact h
    obtain ⟨l1, l2, hlsplit, hset, hlen⟩ := set_of_getElem? hi (none : Option PA)
    have hent0 : s.entries = l1.filterMap id ++ p :: l2.filterMap id := by
      simp [St.entries, hlsplit, List.filterMap_append]
    have hent : St.entries ⟨s.byTime.set p.index none, s.tree.dropLast, bump s.counts p.src (-1)⟩ =
        l1.filterMap id ++ l2.filterMap id := by
      simp [St.entries, hidx, hset, List.filterMap_append]
    have hnd := hI.nodup
    rw [hent0] at hnd
    simp only [keys, List.map_append, List.map_cons] at hnd
    obtain ⟨hn1, hn2, hn3⟩ := List.nodup_append.1 hnd
    have hn2' := List.nodup_cons.1 hn2
    have hp1 : p.prio ∉ (l1.filterMap id).map (·.prio) := fun h => hn3 _ h _ (by simp) rfl
    have hd' : deref s.byTime k = some p := hd
    have hlt' : p.index < s.byTime.length := by omega
    refine ⟨some p, ⟨s.byTime.set p.index none, s.tree.dropLast, bump s.counts p.src (-1)⟩, ?_, ?_, ?_,
      (fun h => absurd h (by simp)), ?_⟩
    · simp [hd', hlt']
    · refine ⟨hdl, ?_, ?_, ?_⟩
      · intro x
        rw [hent, hdm x, hI.mem x, hent0]
        simp only [keys, List.map_append, List.map_cons, List.mem_append, List.mem_cons]
        constructor
        · rintro ⟨h | h | h, hne⟩
          · exact Or.inl h
          · exact absurd (h.trans hpk) hne
          · exact Or.inr h
        · rintro (h | h)
          · refine ⟨Or.inl h, ?_⟩
            intro e; rw [e, ← hpk] at h; exact hp1 h
          · refine ⟨Or.inr (Or.inr h), ?_⟩
            intro e; rw [e, ← hpk] at h; exact hn2'.1 h
      · rw [hent]
        simp only [keys, List.map_append]
        refine List.nodup_append.2 ⟨hn1, hn2'.2, ?_⟩
        intro a ha b hb
        exact hn3 a ha b (List.mem_cons_of_mem _ hb)
      · intro j q h
        simp only [List.getElem?_set] at h
        split at h
        · simp at h
        · exact hI.idx j q h
    · intro x
      rw [hent, cnt_append]
      have := hC x
      rw [hent0, cnt_append, cnt_cons] at this
      show bump s.counts p.src (-1) x + 0 = _
      rw [bump_apply]
      by_cases h : p.src = x
      · simp only [h, if_true] at this ⊢; omega
      · simp only [h, if_false] at this ⊢; omega
    · intro p' hp'
      have e : p' = p := by simpa using hp'.symm
      subst e
      refine ⟨hpm, ?_, ?_, ?_⟩
      · intro q hq
        have : q.prio ∈ s.tree := (hI.mem _).2 (by simp only [keys]; exact List.mem_map.2 ⟨q, hq, rfl⟩)
        have := hmax _ this
        omega
      · intro q
        rw [hent, hent0]
        simp only [List.mem_append, List.mem_cons]
        constructor
        · rintro (h | h)
          · refine ⟨Or.inl h, ?_⟩
            intro e; subst e
            exact hp1 (List.mem_map.2 ⟨q, h, rfl⟩)
          · refine ⟨Or.inr (Or.inr h), ?_⟩
            intro e; subst e
            exact hn2'.1 (List.mem_map.2 ⟨q, h, rfl⟩)
        · rintro ⟨h | h | h, hne⟩
          · exact Or.inl h
          · exact absurd h hne
          · exact Or.inr h
      · show s.tree.dropLast.length + 1 = s.tree.length
        have : 0 < s.tree.length := List.length_pos_of_mem hk
        omega

theorem inv_empty : Inv ({} : St) := by
  refine ⟨by simp, by simp [St.entries, keys], by simp [St.entries, keys], ?_⟩
  intro i p h; simp at h

theorem counts_empty : Counts ({} : St) (fun _ => 0) := by
  intro x; simp [St.entries, cnt]

/-! ### the default sort is admissible -/

theorem insertByStamp_perm (p : PA) (l : List PA) : (insertByStamp p l).Perm (p :: l) := by
  induction l with
  | nil => exact List.Perm.refl _
  | cons q qs ih =>
    unfold insertByStamp
    split
    · exact List.Perm.refl _
    · exact (List.Perm.cons q ih).trans (List.Perm.swap p q qs)

theorem insertByStamp_sorted (p : PA) (l : List PA) (h : l.Pairwise (fun a b => a.stamp ≤ b.stamp)) :
    (insertByStamp p l).Pairwise (fun a b => a.stamp ≤ b.stamp) := by
  induction l with
  | nil => simp [insertByStamp]
  | cons q qs ih =>
    unfold insertByStamp
    rw [List.pairwise_cons] at h
    split
    · rename_i hlt
      refine List.pairwise_cons.2 ⟨?_, List.pairwise_cons.2 h⟩
      intro b hb
      rcases List.mem_cons.1 hb with rfl | hb
      · omega
      · have := h.1 b hb; omega
    · rename_i hge
      refine List.pairwise_cons.2 ⟨?_, ih h.2⟩
      intro b hb
      rcases List.mem_cons.1 ((insertByStamp_perm p qs).mem_iff.1 hb) with rfl | hb
      · omega
      · exact h.1 b hb

theorem foldl_insert_admissible : ∀ (l acc : List PA), acc.Pairwise (fun a b => a.stamp ≤ b.stamp) →
    (l.foldl (fun acc p => insertByStamp p acc) acc).Perm (l ++ acc) ∧
    (l.foldl (fun acc p => insertByStamp p acc) acc).Pairwise (fun a b => a.stamp ≤ b.stamp) := by
  intro l
  induction l with
  | nil => intro acc h; exact ⟨List.Perm.refl _, h⟩
  | cons p ps ih =>
    intro acc h
    obtain ⟨h1, h2⟩ := ih (insertByStamp p acc) (insertByStamp_sorted p acc h)
    refine ⟨h1.trans ?_, h2⟩
    have := (insertByStamp_perm p acc).append_left ps
    exact this.trans (List.perm_middle)

theorem stableSort_admissible (l : List PA) : Admissible l (stableSort l) := by
  obtain ⟨h1, h2⟩ := foldl_insert_admissible l [] (by simp)
  exact ⟨by simpa [stableSort] using h1, h2⟩

end Rain.AddrList
