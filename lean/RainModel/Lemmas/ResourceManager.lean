import RainModel.Model.ResourceManager
/-! Helper lemmas for C17 (`rm_balance`, `rm_no_double_grant`) and C08 (`request_returns`). -/
namespace Rain.RM
open List

/-! ### swap-remove and the association list -/

theorem swapRemove_perm {α : Type} : ∀ (rs : List α) (i : Nat) (h : i < rs.length),
    rs.Perm (rs[i] :: swapRemove rs i) := by
  intro rs
  induction rs with
  | nil => intro i h; simp at h
  | cons x rs ih =>
    intro i h
    cases rs with
    | nil =>
      have : i = 0 := by simp at h; omega
      subst this
      simp [swapRemove]
    | cons y ys =>
      cases i with
      | zero =>
        -- (last :: y :: ys).dropLast = last :: (y :: ys).dropLast
        simp only [swapRemove, List.getLast?_cons_cons, List.set_cons_zero, List.getElem_cons_zero]
        have hl : (y :: ys).getLast? = some ((y :: ys).getLast (by simp)) := List.getLast?_eq_some_getLast (by simp)
        rw [hl]
        simp only [List.dropLast_cons_cons]
        refine List.Perm.cons x ?_
        have := List.dropLast_concat_getLast (l := y :: ys) (by simp)
        conv => lhs; rw [← this]
        exact List.perm_append_singleton _ _
      | succ j =>
        have hj : j < (y :: ys).length := by simp at h ⊢; omega
        have ih' := ih j hj
        simp only [swapRemove, List.getLast?_cons_cons, List.set_cons_succ, List.getElem_cons_succ] at ih' ⊢
        have hl : (y :: ys).getLast? = some ((y :: ys).getLast (by simp)) := List.getLast?_eq_some_getLast (by simp)
        rw [hl] at ih' ⊢
        simp only at ih' ⊢
        have hne : (y :: ys).set j ((y :: ys).getLast (by simp)) ≠ [] := by
          intro e; have := congrArg List.length e; simp at this
        rw [List.dropLast_cons_of_ne_nil hne]
        exact (List.Perm.cons x ih').trans (List.Perm.swap _ _ _)

theorem allReqs_split (m : ReqMap) (k : Nat) :
    (allReqs m).Perm (getK m k ++ allReqs (delK m k)) := by
  induction m with
  | nil => simp [allReqs, getK, delK]
  | cons p m ih =>
    obtain ⟨k', rs⟩ := p
    by_cases hk : k' = k
    · simp [allReqs, getK, delK, hk]
    · simp only [allReqs, getK, delK, hk, if_false]
      -- rs ++ allReqs m ~ getK m k ++ (rs ++ allReqs (delK m k))
      refine (List.Perm.append_left rs ih).trans ?_
      rw [← List.append_assoc, ← List.append_assoc]
      exact List.Perm.append_right _ List.perm_append_comm

theorem allReqs_putK (m : ReqMap) (k : Nat) (rs : List Req) :
    (allReqs (putK m k rs)).Perm (rs ++ allReqs (delK m k)) := by
  induction m with
  | nil => simp [allReqs, putK, delK]
  | cons p m ih =>
    obtain ⟨k', rs'⟩ := p
    by_cases hk : k' = k
    · simp [allReqs, putK, delK, hk]
    · simp only [allReqs, putK, delK, hk, if_false]
      refine (List.Perm.append_left rs' ih).trans ?_
      rw [← List.append_assoc, ← List.append_assoc]
      exact List.Perm.append_right _ List.perm_append_comm

theorem allReqs_append (m : ReqMap) (r : Req) :
    (allReqs (putK m r.key (getK m r.key ++ [r]))).Perm (r :: allReqs m) := by
  refine (allReqs_putK m r.key _).trans ?_
  have h1 := allReqs_split m r.key
  rw [List.append_assoc]
  refine List.Perm.trans ?_ (List.Perm.cons r h1.symm)
  -- getK ++ ([r] ++ rest) ~ r :: (getK ++ rest)
  exact (List.perm_middle (a := r) (l₁ := getK m r.key) (l₂ := allReqs (delK m r.key)))

theorem allReqs_delete (m : ReqMap) (k i : Nat) (r : Req) (h : (getK m k)[i]? = some r) :
    (allReqs m).Perm (r :: allReqs (deleteRequest m k i)) := by
  obtain ⟨hi, hr⟩ := List.getElem?_eq_some_iff.mp h
  have hp := swapRemove_perm (getK m k) i hi
  rw [hr] at hp
  have hdel : (allReqs (deleteRequest m k i)).Perm (swapRemove (getK m k) i ++ allReqs (delK m k)) := by
    unfold deleteRequest
    by_cases hl : (swapRemove (getK m k) i).length > 0
    · simp only [hl, if_true]; exact allReqs_putK _ _ _
    · simp only [hl, if_false]
      have : swapRemove (getK m k) i = [] := by
        cases hs : swapRemove (getK m k) i with
        | nil => rfl
        | cons a b => rw [hs] at hl; simp at hl
      rw [this]; simp
  refine (allReqs_split m k).trans ?_
  refine (List.Perm.append_right _ hp).trans ?_
  exact List.Perm.cons r hdel.symm

theorem pickable_spec {s : State} {k i : Nat} {r : Req} (h : pickable s k i = some r) :
    (getK s.requests k)[i]? = some r ∧ r.n ≤ s.available := by
  unfold pickable at h
  split at h
  · split at h
    · rename_i r' hr
      split at h
      · cases h
      · cases h; exact ⟨hr, by omega⟩
    · cases h
  · cases h

/-! ### sums -/

theorem sumInt_erase {n : Int} : ∀ {l : List Int}, n ∈ l → sumInt (l.erase n) = sumInt l - n := by
  intro l
  induction l with
  | nil => intro h; cases h
  | cons x xs ih =>
    intro h
    by_cases hx : x = n
    · subst hx; simp [sumInt]; omega
    · have : n ∈ xs := by
        cases h with
        | head => exact absurd rfl hx
        | tail _ h => exact h
      have he : (x :: xs).erase n = x :: xs.erase n := by simp [hx]
      rw [he]
      simp only [sumInt, ih this]
      omega

theorem sumInt_nonneg : ∀ {l : List Int}, (∀ x ∈ l, 0 ≤ x) → 0 ≤ sumInt l := by
  intro l
  induction l with
  | nil => intro _; simp [sumInt]
  | cons x xs ih =>
    intro h
    have h1 := h x (by simp)
    have h2 := ih (fun y hy => h y (by simp [hy]))
    simp [sumInt]; omega

/-! ### the balance invariant -/

structure BalInv (limit : Int) (g : G) : Prop where
  lim : g.s.limit = limit
  nonneg : 0 ≤ g.s.available
  eq : g.s.available = limit - sumInt g.out
  objs : g.s.objects = g.out.length
  outPos : ∀ x ∈ g.out, 0 ≤ x
  pendPos : ∀ r ∈ allReqs g.s.requests, 0 ≤ r.n

theorem BalInv.init {limit : Int} (h : 0 ≤ limit) : BalInv limit (ginit limit) := by
  refine ⟨rfl, h, ?_, rfl, ?_, ?_⟩ <;> simp [ginit, RM.init, sumInt, allReqs]

theorem BalInv.le_limit {limit : Int} {g : G} (h : BalInv limit g) : g.s.available ≤ limit := by
  have := sumInt_nonneg h.outPos
  have := h.eq
  omega

/-- One admissible, disciplined event preserves the invariant and does not panic. -/
theorem gstep_bal {limit : Int} {g : G} (h : BalInv limit g) (e : Event) :
    (∀ m, gstep g e ≠ .panic m) ∧ (∀ g', gstep g e = .ok g' → BalInv limit g') := by
  cases e with
  | request r answered =>
    simp only [gstep]
    by_cases hn : r.n < 0
    · simp [hn]
    simp only [hn, if_false]
    by_cases hs : r.id ∈ g.seen
    · simp [hs]
    simp only [hs, if_false]
    cases answered with
    | false =>
      simp only [handleRequest, Bool.not_false, if_true, Bool.false_and]
      refine ⟨by intro m hm; simp at hm, ?_⟩
      intro g' hg
      simp at hg
      subst hg
      exact ⟨h.lim, h.nonneg, h.eq, h.objs, h.outPos, h.pendPos⟩
    | true =>
      simp only [handleRequest, Bool.not_true, Bool.true_and]
      by_cases ha : acquiredNow g.s r = true
      · have ha' : g.s.available ≥ r.n := by simpa [acquiredNow] using ha
        have hnp : ¬ (g.s.available - r.n < 0) := by omega
        simp only [ha, if_true, hnp, if_false, Bool.false_eq_true]
        refine ⟨by intro m hm; simp at hm, ?_⟩
        intro g' hg
        simp at hg
        subst hg
        refine ⟨h.lim, by simp; omega, ?_, ?_, ?_, h.pendPos⟩
        · simp [sumInt]; have := h.eq; omega
        · simp; have := h.objs; omega
        · intro x hx
          simp at hx
          rcases hx with hx | hx
          · omega
          · exact h.outPos x hx
      · simp only [ha, if_false, Bool.false_eq_true]
        refine ⟨by intro m hm; simp at hm, ?_⟩
        intro g' hg
        simp at hg
        subst hg
        refine ⟨h.lim, h.nonneg, h.eq, h.objs, h.outPos, ?_⟩
        intro q hq
        have := (allReqs_append g.s.requests r).mem_iff.mp hq
        simp at this
        rcases this with hq | hq
        · subst hq; omega
        · exact h.pendPos q hq
  | release n =>
    simp only [gstep]
    by_cases hm : n ∈ g.out
    · simp only [hm, if_true, step]
      have hle := h.le_limit
      have hs := sumInt_erase hm
      have hnn := h.outPos n hm
      have hsum : 0 ≤ sumInt (g.out.erase n) := sumInt_nonneg (fun x hx => h.outPos x (List.mem_of_mem_erase hx))
      have heq := h.eq
      have hav := h.nonneg
      have hnp : ¬ (g.s.available + n > g.s.limit) := by rw [h.lim]; omega
      simp only [hnp, if_false]
      refine ⟨by intro m hm; simp at hm, ?_⟩
      intro g' hg
      simp at hg
      subst hg
      refine ⟨h.lim, by simp; omega, by simp; omega, ?_, ?_, h.pendPos⟩
      · have hlen := List.length_erase_of_mem hm
        have hpos : 0 < g.out.length := List.length_pos_of_mem hm
        simp [hlen]; have := h.objs; omega
      · intro x hx; exact h.outPos x (List.mem_of_mem_erase hx)
    · simp [hm]
  | notify key i =>
    simp only [gstep]
    cases hp : pickable g.s key i with
    | none => simp
    | some r =>
      obtain ⟨hget, hle⟩ := pickable_spec hp
      have hperm := allReqs_delete g.s.requests key i r hget
      have hrn : 0 ≤ r.n := h.pendPos r (hperm.mem_iff.mpr (by simp))
      have hnp : ¬ (g.s.available - r.n < 0) := by omega
      simp only [step, hp, hnp, if_false]
      refine ⟨by intro m hm; simp at hm, ?_⟩
      intro g' hg
      simp at hg
      subst hg
      refine ⟨h.lim, by simp; omega, ?_, ?_, ?_, ?_⟩
      · simp [sumInt]; have := h.eq; omega
      · simp; have := h.objs; omega
      · intro x hx
        simp at hx
        rcases hx with hx | hx
        · omega
        · exact h.outPos x hx
      · intro q hq
        exact h.pendPos q (hperm.mem_iff.mpr (by simp [hq]))
  | cancel key i =>
    simp only [gstep, step]
    cases hp : pickable g.s key i with
    | none => simp
    | some r =>
      obtain ⟨hget, _⟩ := pickable_spec hp
      have hperm := allReqs_delete g.s.requests key i r hget
      simp only
      refine ⟨by intro m hm; simp at hm, ?_⟩
      intro g' hg
      simp at hg
      subst hg
      refine ⟨h.lim, h.nonneg, h.eq, h.objs, h.outPos, ?_⟩
      intro q hq
      exact h.pendPos q (hperm.mem_iff.mpr (by simp [hq]))
  | stats =>
    simp only [gstep]
    refine ⟨by intro m hm; simp at hm, ?_⟩
    intro g' hg
    simp at hg
    subst hg
    exact h

theorem grun_bal {limit : Int} : ∀ (es : List Event) {g : G}, BalInv limit g →
    (∀ m, grun g es ≠ .panic m) ∧ (∀ g', grun g es = .ok g' → BalInv limit g') := by
  intro es
  induction es with
  | nil =>
    intro g h
    refine ⟨by intro m hm; simp [grun] at hm, ?_⟩
    intro g' hg
    simp [grun] at hg
    subst hg
    exact h
  | cons e es ih =>
    intro g h
    have hs := gstep_bal h e
    simp only [grun]
    cases hg : gstep g e with
    | ok g1 => simp only; exact ih (hs.2 g1 hg)
    | panic m => exact absurd hg (hs.1 m)
    | inadmissible w => simp

end Rain.RM

namespace Rain.RM
open List

/-! ### the grant-once invariant -/

def pendingIds (g : G) : List Nat := (allReqs g.s.requests).map (·.id)

structure OnceInv (g : G) : Prop where
  once : ∀ x, count x (pendingIds g) + count x g.granted ≤ 1
  pendSeen : ∀ x ∈ pendingIds g, x ∈ g.seen
  grantSeen : ∀ x ∈ g.granted, x ∈ g.seen

theorem OnceInv.init (limit : Int) : OnceInv (ginit limit) := by
  refine ⟨?_, ?_, ?_⟩ <;> simp [ginit, RM.init, pendingIds, allReqs]

theorem count_of_not_seen {g : G} (h : OnceInv g) {x : Nat} (hx : x ∉ g.seen) :
    count x (pendingIds g) = 0 ∧ count x g.granted = 0 := by
  constructor
  · exact List.count_eq_zero.mpr (fun hm => hx (h.pendSeen x hm))
  · exact List.count_eq_zero.mpr (fun hm => hx (h.grantSeen x hm))

theorem gstep_once {g : G} (h : OnceInv g) (e : Event) (g' : G) (hs : gstep g e = .ok g') : OnceInv g' := by
  cases e with
  | request r answered =>
    simp only [gstep] at hs
    by_cases hn : r.n < 0
    · simp [hn] at hs
    simp only [hn, if_false] at hs
    by_cases hseen : r.id ∈ g.seen
    · simp [hseen] at hs
    simp only [hseen, if_false] at hs
    obtain ⟨hc1, hc2⟩ := count_of_not_seen h hseen
    cases answered with
    | false =>
      simp only [handleRequest, Bool.not_false, if_true, Bool.false_and] at hs
      simp at hs
      subst hs
      refine ⟨h.once, ?_, ?_⟩
      · intro x hx; exact List.mem_cons_of_mem _ (h.pendSeen x hx)
      · intro x hx; exact List.mem_cons_of_mem _ (h.grantSeen x hx)
    | true =>
      simp only [handleRequest, Bool.not_true, Bool.true_and] at hs
      by_cases ha : acquiredNow g.s r = true
      · have ha' : g.s.available ≥ r.n := by simpa [acquiredNow] using ha
        have hnp : ¬ (g.s.available - r.n < 0) := by omega
        simp only [ha, if_true, hnp, if_false, Bool.false_eq_true] at hs
        simp at hs
        subst hs
        refine ⟨?_, ?_, ?_⟩
        · intro x
          show count x (pendingIds g) + count x (r.id :: g.granted) ≤ 1
          rw [List.count_cons]
          by_cases hx : r.id = x
          · subst hx; simp [hc1, hc2]
          · have hb : (r.id == x) = false := by simp [hx]
            simp only [hb]; have := h.once x; simpa using this
        · intro x hx; exact List.mem_cons_of_mem _ (h.pendSeen x hx)
        · intro x hx
          show x ∈ r.id :: g.seen
          rcases List.mem_cons.mp hx with hx | hx
          · subst hx; exact List.mem_cons_self
          · exact List.mem_cons_of_mem _ (h.grantSeen x hx)
      · simp only [ha, if_false, Bool.false_eq_true] at hs
        simp at hs
        subst hs
        have hperm : (pendingIds { g with s := { g.s with requests := putK g.s.requests r.key (getK g.s.requests r.key ++ [r]) }, seen := r.id :: g.seen }).Perm
            (r.id :: pendingIds g) := by
          unfold pendingIds
          exact (allReqs_append g.s.requests r).map (·.id)
        refine ⟨?_, ?_, ?_⟩
        · intro x
          rw [hperm.count_eq, List.count_cons]
          by_cases hx : r.id = x
          · subst hx; simp [hc1, hc2]
          · have hb : (r.id == x) = false := by simp [hx]
            simp only [hb]; have := h.once x; simpa using this
        · intro x hx
          have := hperm.mem_iff.mp hx
          show x ∈ r.id :: g.seen
          rcases List.mem_cons.mp this with hx | hx
          · subst hx; exact List.mem_cons_self
          · exact List.mem_cons_of_mem _ (h.pendSeen x hx)
        · intro x hx; exact List.mem_cons_of_mem _ (h.grantSeen x hx)
  | release n =>
    simp only [gstep] at hs
    by_cases hm : n ∈ g.out
    · simp only [hm, if_true, step] at hs
      by_cases hpn : g.s.available + n > g.s.limit
      · simp [hpn] at hs
      · simp [hpn] at hs; subst hs; exact ⟨h.once, h.pendSeen, h.grantSeen⟩
    · simp [hm] at hs
  | notify key i =>
    simp only [gstep] at hs
    cases hp : pickable g.s key i with
    | none => simp [hp] at hs
    | some r =>
      obtain ⟨hget, hle⟩ := pickable_spec hp
      simp only [hp, step] at hs
      by_cases hpn : g.s.available - r.n < 0
      · simp [hpn] at hs
      · simp [hpn] at hs
        subst hs
        have hperm : (pendingIds g).Perm (r.id :: (allReqs (deleteRequest g.s.requests key i)).map (·.id)) := by
          have := (allReqs_delete g.s.requests key i r hget).map (fun q : Req => q.id)
          simpa [pendingIds] using this
        refine ⟨?_, ?_, ?_⟩
        · intro x
          have h1 := h.once x
          rw [hperm.count_eq, List.count_cons] at h1
          show count x ((allReqs (deleteRequest g.s.requests key i)).map (·.id)) + count x (r.id :: g.granted) ≤ 1
          rw [List.count_cons]
          omega
        · intro x hx
          exact h.pendSeen x (hperm.mem_iff.mpr (List.mem_cons_of_mem _ hx))
        · intro x hx
          rcases List.mem_cons.mp hx with hx | hx
          · subst hx; exact h.pendSeen _ (hperm.mem_iff.mpr List.mem_cons_self)
          · exact h.grantSeen x hx
  | cancel key i =>
    simp only [gstep, step] at hs
    cases hp : pickable g.s key i with
    | none => simp [hp] at hs
    | some r =>
      obtain ⟨hget, _⟩ := pickable_spec hp
      simp only [hp] at hs
      simp at hs
      subst hs
      have hperm : (pendingIds g).Perm (r.id :: (allReqs (deleteRequest g.s.requests key i)).map (·.id)) := by
        have := (allReqs_delete g.s.requests key i r hget).map (fun q : Req => q.id)
        simpa [pendingIds] using this
      refine ⟨?_, ?_, h.grantSeen⟩
      · intro x
        have h1 := h.once x
        rw [hperm.count_eq, List.count_cons] at h1
        show count x ((allReqs (deleteRequest g.s.requests key i)).map (·.id)) + count x g.granted ≤ 1
        omega
      · intro x hx
        exact h.pendSeen x (hperm.mem_iff.mpr (List.mem_cons_of_mem _ hx))
  | stats =>
    simp only [gstep] at hs
    simp at hs; subst hs; exact h

theorem grun_once : ∀ (es : List Event) {g : G}, OnceInv g → ∀ g', grun g es = .ok g' → OnceInv g' := by
  intro es
  induction es with
  | nil => intro g h g' hg; simp [grun] at hg; subst hg; exact h
  | cons e es ih =>
    intro g h g' hg
    simp only [grun] at hg
    cases hs : gstep g e with
    | ok g1 => rw [hs] at hg; exact ih (gstep_once h e g1 hs) g' hg
    | panic m => rw [hs] at hg; cases hg
    | inadmissible w => rw [hs] at hg; cases hg

end Rain.RM
