import RainModel.Model.Geometry
import RainModel.Lemmas.Geometry
import RainModel.Lemmas.SectionIO
/-! Helper lemmas for `create_verify` (C02): creation hashing order vs. the verifier. -/
namespace Rain.Geometry

/-- A list of chunks as the piece table sees it: all of length `pl` except a non-empty, possibly
shorter last one. -/
def ValidChunks (pl : Nat) : List (List Nat) → Prop
  | [] => True
  | [c] => 0 < c.length ∧ c.length ≤ pl
  | c :: d :: r => c.length = pl ∧ ValidChunks pl (d :: r)

theorem chunks_head {pl : Nat} (hpl : 0 < pl) : ∀ (Cs : List (List Nat)) (B Y : List Nat), ValidChunks pl Cs →
    B ++ Y = Cs.flatten → B.length = pl → ∃ Cs', Cs = B :: Cs' ∧ Y = Cs'.flatten ∧ ValidChunks pl Cs'
  | [], B, Y, _, h, hB => by
    have : (B ++ Y).length = 0 := by rw [h]; rfl
    simp only [List.length_append] at this; omega
  | [c], B, Y, hv, h, hB => by
    simp only [List.flatten_cons, List.flatten_nil, List.append_nil] at h
    have hl : (B ++ Y).length = c.length := by rw [h]
    simp only [List.length_append] at hl
    have hY : Y = [] := List.eq_nil_of_length_eq_zero (by have := hv.2; omega)
    subst hY
    simp only [List.append_nil] at h
    exact ⟨[], by rw [h], rfl, trivial⟩
  | c :: d :: r, B, Y, hv, h, hB => by
    simp only [List.flatten_cons] at h
    obtain ⟨h1, h2⟩ := List.append_inj h (by rw [hB, hv.1])
    exact ⟨d :: r, by rw [h1], by rw [h2]; rfl, hv.2⟩

/-- One file through the creation loop peels complete chunks off the front. -/
theorem hashFile_spec (H : List Nat → Nat) {pl : Nat} (hpl : 0 < pl) : ∀ (fuel : Nat) (f buf hs : List Nat)
    (Cs : List (List Nat)) (X : List Nat), buf.length < pl → f.length + 2 ≤ fuel →
    buf ++ f ++ X = Cs.flatten → ValidChunks pl Cs →
    ∃ Cs1 Cs2 b', Cs = Cs1 ++ Cs2 ∧ hashFile H pl fuel f buf hs = (b', (Cs1.map H).reverse ++ hs) ∧
      b' ++ X = Cs2.flatten ∧ ValidChunks pl Cs2 ∧ b'.length < pl := by
  intro fuel
  induction fuel with
  | zero => intro f buf hs Cs X _ h; omega
  | succ fuel ih =>
    intro f buf hs Cs X hbuf hfuel hcat hv
    unfold hashFile
    simp only
    by_cases hlt : min f.length (pl - buf.length) < pl - buf.length
    · rw [if_pos hlt]
      have hn : min f.length (pl - buf.length) = f.length := by omega
      refine ⟨[], Cs, buf ++ f, rfl, by simp [hn], hcat, hv, ?_⟩
      simp; omega
    · rw [if_neg hlt]
      have hn : min f.length (pl - buf.length) = pl - buf.length := by omega
      rw [hn]
      have hfl : pl - buf.length ≤ f.length := by omega
      have hB : (buf ++ f.take (pl - buf.length)).length = pl := by simp; omega
      have hcat' : (buf ++ f.take (pl - buf.length)) ++ (f.drop (pl - buf.length) ++ X) = Cs.flatten := by
        rw [← hcat]
        simp only [List.append_assoc]
        congr 1
        rw [← List.append_assoc, List.take_append_drop]
      obtain ⟨Cs', hCs, hY, hv'⟩ := chunks_head hpl Cs _ _ hv hcat' hB
      obtain ⟨Cs1, Cs2, b', hsplit, hrun, hb', hv2, hbl⟩ :=
        ih (f.drop (pl - buf.length)) [] (H (buf ++ f.take (pl - buf.length)) :: hs) Cs' X (by simpa using hpl)
          (by simp; omega) (by simpa using hY) hv'
      refine ⟨(buf ++ f.take (pl - buf.length)) :: Cs1, Cs2, b', by rw [hCs, hsplit]; rfl, ?_, hb', hv2, hbl⟩
      rw [hrun]
      simp

/-- The piece table of a created torrent is `H` of any valid chunking of the concatenation. -/
theorem createHashes_eq (H : List Nat → Nat) {pl : Nat} (hpl : 0 < pl) (files Cs : List (List Nat))
    (hcat : files.flatten = Cs.flatten) (hv : ValidChunks pl Cs) : createHashes H pl files = Cs.map H := by
  have key : ∀ (files : List (List Nat)) (buf hs : List Nat) (Cs : List (List Nat)), buf.length < pl →
      buf ++ files.flatten = Cs.flatten → ValidChunks pl Cs →
      (let a := files.foldl (fun (a : List Nat × List Nat) f => hashFile H pl (f.length + 2) f a.1 a.2) (buf, hs)
       (if a.1.length > 0 then H a.1 :: a.2 else a.2).reverse) = hs.reverse ++ Cs.map H := by
    intro files
    induction files with
    | nil =>
      intro buf hs Cs hbuf hcat hv
      simp only [List.flatten_nil, List.append_nil] at hcat
      simp only [List.foldl_nil]
      match Cs, hv with
      | [], _ =>
        have : buf = [] := by simpa using hcat
        subst this; simp
      | [c], hv =>
        have : buf = c := by simpa using hcat
        subst this
        have : buf.length > 0 := hv.1
        simp [this]
      | c :: d :: r, hv =>
        exfalso
        have : buf.length = (c ++ (d :: r).flatten).length := by rw [hcat]; rfl
        simp only [List.length_append] at this
        have := hv.1
        omega
    | cons f rest ih =>
      intro buf hs Cs hbuf hcat hv
      simp only [List.flatten_cons] at hcat
      obtain ⟨Cs1, Cs2, b', hsplit, hrun, hb', hv2, hbl⟩ :=
        hashFile_spec H hpl (f.length + 2) f buf hs Cs rest.flatten hbuf (Nat.le_refl _)
          (by rw [List.append_assoc]; exact hcat) hv
      simp only [List.foldl_cons, hrun]
      have := ih b' ((Cs1.map H).reverse ++ hs) Cs2 hbl hb' hv2
      simp only at this
      rw [this, hsplit]
      simp
  have := key files [] [] Cs hpl (by simpa using hcat) hv
  simpa [createHashes] using this

/-! ### the content of the pieces is the concatenation of the files -/

/-- Byte at `(file, offset)`, `0` where there is none. -/
def look (st : Store) (x : Nat × Nat) : Nat := (getByte st x.1 x.2).getD 0

theorem map_look_bytesOf_data (st : Store) (i : Nat) (c : List Nat) (h : st[i]? = some (FileStore.data c)) :
    (bytesOf i 0 c.length).map (look st) = c := by
  apply List.ext_getElem?
  intro k
  simp only [bytesOf, List.map_map, List.getElem?_map]
  by_cases hk : k < c.length
  · simp [List.getElem?_range hk, look, getByte, h, List.getElem?_eq_getElem hk]
  · rw [List.getElem?_eq_none (by simpa using hk)]
    simp [hk]

theorem fileStream_look : ∀ (fs : List (FileEnt × List Nat)) (pre : Store),
    (∀ x ∈ fs, x.1.len = x.2.length ∧ x.1.pad = false) →
    (fileStreamFrom pre.length (fs.map (·.1))).map (look (pre ++ storeOf fs)) = (fs.map (·.2)).flatten
  | [], _, _ => rfl
  | (f, c) :: r, pre, h => by
    have hfc := h (f, c) (by simp)
    simp only at hfc
    have hst : pre ++ storeOf ((f, c) :: r) = (pre ++ [FileStore.data c]) ++ storeOf r := by
      simp [storeOf, hfc.2]
    simp only [List.map_cons, fileStreamFrom, List.map_append, List.flatten_cons]
    congr 1
    · rw [hfc.1]
      apply map_look_bytesOf_data
      rw [hst, List.append_assoc, List.getElem?_append_right (Nat.le_refl _)]
      simp
    · have := fileStream_look r (pre ++ [FileStore.data c]) (fun x hx => h x (by simp [hx]))
      rw [hst]
      simpa using this

theorem fileSlice_eq_look {st : Store} {f off len : Nat} {bs : List Nat} (hbs : st[f]? = some (FileStore.data bs))
    (hle : off + len ≤ bs.length) : fileSlice st f off len = (bytesOf f off len).map (look st) := by
  apply List.ext_getElem?
  intro k
  by_cases hk : k < len
  · rw [getElem?_fileSlice hbs hle k hk]
    simp only [bytesOf, List.map_map, List.getElem?_map, List.getElem?_range hk, Option.map_some, Function.comp]
    simp only [look, getByte, hbs]
    have : off + k < bs.length := by omega
    rw [List.getElem?_eq_getElem this]; rfl
  · rw [List.getElem?_eq_none (by rw [length_fileSlice]; omega), List.getElem?_eq_none (by simp [bytesOf]; omega)]

theorem pieceContent_eq_look (st : Store) : ∀ (p : List Sec), fits st p = true → (∀ s ∈ p, s.pad = false) →
    pieceContent st p = (secStream p).map (look st)
  | [], _, _ => rfl
  | s :: r, hfit, hpad => by
    obtain ⟨hs, hfr⟩ := fits_cons hfit
    have hsp := hpad s (by simp)
    rcases hs with ⟨hp, _⟩ | ⟨_, bs, hbs, hin⟩
    · rw [hsp] at hp; cases hp
    · have ih := pieceContent_eq_look st r hfr (fun t ht => hpad t (by simp [ht]))
      simp only [pieceContent, secStream, List.flatMap_cons, List.map_append, hsp, Bool.false_eq_true, if_false]
      rw [fileSlice_eq_look hbs hin]
      congr 1

theorem pieceContent_allSecs (st : Store) (ps : List Piece) :
    pieceContent st (allSecs ps) = (ps.map fun p => pieceContent st p.secs).flatten := by
  induction ps with
  | nil => rfl
  | cons p r ih =>
    rw [allSecs_cons]
    simp only [pieceContent, List.flatMap_append, List.map_cons, List.flatten_cons]
    congr 1

theorem length_pieceContent (st : Store) (p : List Sec) : (pieceContent st p).length = secsLen p :=
  length_flatMap_secBytes st p

/-- Sections that satisfy `secMetaOK` for the files fit the store built from the same files. -/
theorem fits_storeOf (fs : List (FileEnt × List Nat)) (h : ∀ x ∈ fs, x.1.len = x.2.length ∧ x.1.pad = false)
    (secs : List Sec) (hm : ∀ s ∈ secs, secMetaOK (fs.map (·.1)) s = true) :
    fits (storeOf fs) secs = true ∧ ∀ s ∈ secs, s.pad = false := by
  have key : ∀ s ∈ secs, (match (storeOf fs)[s.file]? with
      | some (.data bs) => !s.pad && decide (s.off + s.len ≤ bs.length)
      | some .padding => s.pad
      | none => false) = true ∧ s.pad = false := by
    intro s hs
    have := hm s hs
    unfold secMetaOK at this
    simp only [List.getElem?_map] at this
    cases hx : fs[s.file]? with
    | none => simp [hx] at this
    | some x =>
      simp only [hx, Option.map_some, Bool.and_eq_true, beq_iff_eq, decide_eq_true_eq] at this
      have hxm := h x (List.mem_of_getElem? hx)
      have hp : s.pad = false := by rw [this.1.1, hxm.2]
      simp only [storeOf, List.getElem?_map, hx, Option.map_some, hxm.2, Bool.false_eq_true, if_false]
      refine ⟨?_, hp⟩
      simp [hp]; omega
  refine ⟨?_, fun s hs => (key s hs).2⟩
  unfold fits
  rw [List.all_eq_true]
  intro s hs
  exact (key s hs).1

theorem validChunks_of_lensOK (st : Store) {pl : Nat} : ∀ (ps : List Piece), lensOK pl ps = true →
    (∀ p ∈ ps, p.len = secsLen p.secs) → ValidChunks pl (ps.map fun p => pieceContent st p.secs)
  | [], h, _ => by simp [lensOK] at h
  | [p], h, hl => by
    simp only [lensOK, Bool.and_eq_true, decide_eq_true_eq] at h
    simp only [List.map_cons, List.map_nil, ValidChunks, length_pieceContent, ← hl p (by simp)]
    exact h
  | p :: q :: r, h, hl => by
    simp only [lensOK, Bool.and_eq_true, beq_iff_eq] at h
    simp only [List.map_cons, ValidChunks, length_pieceContent, ← hl p (by simp)]
    exact ⟨h.1, validChunks_of_lensOK st (q :: r) h.2 (fun x hx => hl x (by simp [hx]))⟩

theorem pos_of_lensOK {pl : Nat} (hpl : 0 < pl) : ∀ (ps : List Piece), lensOK pl ps = true → ∀ p ∈ ps, 0 < p.len
  | [], h, _, _ => by simp [lensOK] at h
  | [p], h, x, hx => by
    simp only [lensOK, Bool.and_eq_true, decide_eq_true_eq] at h
    simp only [List.mem_singleton] at hx
    subst hx; exact h.1
  | p :: q :: r, h, x, hx => by
    simp only [lensOK, Bool.and_eq_true, beq_iff_eq] at h
    simp only [List.mem_cons] at hx
    rcases hx with rfl | hx
    · omega
    · exact pos_of_lensOK hpl (q :: r) h.2 x (by simpa using hx)

/-- The verifier sets every bit when each piece's table entry is `H` of the piece's content. -/
theorem verifyBits_all (H : List Nat → Nat) (st : Store) : ∀ (ps : List Piece),
    (∀ p ∈ ps, fits st p.secs = true ∧ p.len = secsLen p.secs ∧ 0 < p.len) →
    verifyBits H st ps (ps.map fun p => H (pieceContent st p.secs)) = some (List.replicate ps.length true)
  | [], _ => rfl
  | p :: r, h => by
    obtain ⟨hfit, hlen, hpos⟩ := h p (by simp)
    have hr := readAt_spec st p.secs 0 p.len hfit hpos (by omega)
    have hfull : ((pieceContent st p.secs).drop 0).take p.len = pieceContent st p.secs := by
      rw [List.drop_zero, hlen, ← length_pieceContent st p.secs, List.take_length]
    rw [hfull] at hr
    simp only [verifyBits, List.map_cons, hr, List.tail_cons, List.head?_cons,
      verifyBits_all H st r (fun x hx => h x (by simp [hx]))]
    simp [List.replicate_succ]

end Rain.Geometry
