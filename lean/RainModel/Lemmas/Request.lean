import RainModel.Model.Request
/-! Helper lemmas for M-REQ. -/
namespace Rain.Request

theorem validReq_iff' (b l pl : U32) :
    validPieceRequest b l pl = true ↔ l ≠ 0#32 ∧ b.toNat + l.toNat ≤ pl.toNat := by
  unfold validPieceRequest
  have hb := b.isLt; have hl := l.isLt; have hp := pl.isLt
  simp only [Bool.and_eq_true, bne_iff_ne, ne_eq, decide_eq_true_eq, BitVec.le_def,
    BitVec.toNat_add, BitVec.toNat_setWidth]
  constructor
  · rintro ⟨h1, h2⟩
    exact ⟨h1, by omega⟩
  · rintro ⟨h1, h2⟩
    exact ⟨h1, by omega⟩

theorem valid_eq (b l pl : U32) :
    validPieceRequest b l pl = (l != 0#32 && decide (b.toNat + l.toNat ≤ pl.toNat)) := by
  rw [Bool.eq_iff_iff, validReq_iff']; simp

theorem ge_iff (a b : U32) : a ≥ b ↔ ¬ a.toNat < b.toNat := by
  constructor
  · intro h; have := BitVec.le_def.mp h; omega
  · intro h; exact BitVec.le_def.mpr (by omega)

theorem readerAccepts_iff (l : U32) : readerAccepts l = true ↔ l.toNat ≤ 16384 := by
  unfold readerAccepts maxBlockSize
  simp only [Bool.not_eq_true', decide_eq_false_iff_not, BitVec.lt_def, BitVec.toNat_ofNat, gt_iff_lt]
  omega

end Rain.Request
