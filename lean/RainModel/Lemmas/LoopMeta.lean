import RainModel.Lemmas.LoopInv
/-!
`reconcileIdl`: what an error-free reconciliation guarantees about the metadata downloads it adopts.
-/
namespace Rain.Loop

/-- A metadata download the model accepts as newly started in state `s`. -/
def IdlAdmissible (s : St) (d : IDl) : Prop :=
  s.info = false ∧ s.mayStartI = true ∧
  ∃ p, s.findPeer d.k = some p ∧ p.extHS = true ∧ p.extMeta = true ∧
    d.size = p.extSize ∧ d.size ≠ 0 ∧ d.size ≤ s.maxMeta

theorem reconcileIdl_idls (s : St) (impl : List Nat) (h : (reconcileIdl s impl).2 = []) :
    ∀ d ∈ (reconcileIdl s impl).1.idls, d ∈ s.idls ∨ IdlAdmissible s d := by
  unfold reconcileIdl at h ⊢
  dsimp only at h ⊢
  -- the fold keeps: no error so far → every adopted download is old or admissible
  generalize hf : (fun (acc : List IDl × List String) (k : Nat) => _) = f at h ⊢
  have key : ∀ (l : List Nat) (acc : List IDl × List String),
      (acc.2 = [] → ∀ d ∈ acc.1, d ∈ s.idls ∨ IdlAdmissible s d) →
      ((l.foldl f acc).2 = [] → ∀ d ∈ (l.foldl f acc).1, d ∈ s.idls ∨ IdlAdmissible s d) := by
    intro l
    induction l with
    | nil => intro acc h; exact h
    | cons k l ih =>
      intro acc hacc
      apply ih
      subst hf
      dsimp only
      split
      · next d0 hd0 =>
        intro he d hd
        simp only [List.mem_append, List.mem_singleton] at hd
        rcases hd with hd | rfl
        · exact hacc he d hd
        · exact Or.inl (List.mem_of_find?_eq_some hd0)
      · split
        · intro he; simp at he
        · next p hp =>
          dsimp only
          split
          · next hok =>
            intro he d hd
            simp only [List.mem_append, List.mem_singleton] at hd
            rcases hd with hd | rfl
            · exact hacc he d hd
            · right
              simp only [Bool.and_eq_true, Bool.not_eq_true', ne_eq, decide_eq_true_eq] at hok
              obtain ⟨⟨⟨⟨⟨⟨a, b⟩, c⟩, d⟩, e⟩, f⟩, _⟩ := hok
              exact ⟨b, a, p, hp, c, d, rfl, by simpa using e, f⟩
          · intro he; simp at he
  have h2 : (impl.foldl f ([], [])).2 = [] := by
    have := List.append_eq_nil_iff.1 h
    exact this.2
  intro d hd
  exact key impl ([], []) (fun _ d hd => by cases hd) h2 d hd

end Rain.Loop
