import RainModel.Model.AdmissionRun
import RainModel.Lemmas.Admission
import RainModel.Props.C18
/-!
Helper lemmas for `Model/AdmissionRun`: an invariant preserved by every step of a history, and what
one step / one history guarantees about the addresses dialled and the connections accepted.
-/
namespace Rain.Admission
open Rain.AddrList Rain.Props.C18

/-- Per-step hypotheses on the history: a `peers` step pushes into an `AddrList` created with
`maxItems = max`, and the resolution `choose` of the unstable sort is a sort (as in `Reach.push`).
The other operations are unrestricted. -/
def OpOk (max : Nat) : Op → Prop
  | .peers env choose _ _ _ => env.maxItems = max ∧ ∀ l, Admissible l (choose l)
  | _ => True

/-- What holds between two steps, for either version of the code. -/
structure SInv (max : Nat) (s : State) : Prop where
  good : Good max s.queue
  nodup : s.connected.Nodup

/-- No IP is both banned and connected/connecting. -/
def Disj (s : State) : Prop := ∀ x ∈ s.banned, x ∉ s.connected

theorem sinv_init (max : Nat) : SInv max {} :=
  ⟨⟨inv_empty, counts_empty, Nat.zero_le _, Nat.zero_le _⟩, List.nodup_nil⟩

theorem disj_init : Disj {} := fun _ h => by cases h

/-- `Pop` only overwrites a slot of `peerByTime`. -/
theorem pop_slots {s s' : St} {r : Option PA} (h : pop s = .ok (r, s')) :
    s'.byTime.length = s.byTime.length := by
  unfold AddrList.pop at h
  split at h
  · cases h; rfl
  · split at h
    · cases h
    · split at h
      · cases h; simp
      · cases h

/-- What `dialLoop_spec` does not say: the slot count of the queue and `connected.Nodup`. -/
theorem dialLoop_extra (cfg : Cfg) (blocked : Nat → Bool) :
    ∀ (fuel : Nat) (s : State) (d : List Addr) (s' : State) (d' : List Addr),
      dialLoop cfg blocked fuel s d = .ok (s', d') →
      s'.queue.byTime.length = s.queue.byTime.length ∧ (s.connected.Nodup → s'.connected.Nodup) := by
  intro fuel
  induction fuel with
  | zero => intro s d s' d' h; simp [dialLoop] at h
  | succ f ih =>
    intro s d s' d' h
    unfold dialLoop at h
    split at h
    · split at h
      · cases h
      · next q hp => cases h; exact ⟨pop_slots hp, fun h => h⟩
      · next a q hp =>
        have hs := pop_slots hp
        simp only at h
        split at h
        · obtain ⟨h1, h2⟩ := ih _ _ _ _ h; exact ⟨h1.trans hs, h2⟩
        · split at h
          · obtain ⟨h1, h2⟩ := ih _ _ _ _ h; exact ⟨h1.trans hs, h2⟩
          · split at h
            · obtain ⟨h1, h2⟩ := ih _ _ _ _ h; exact ⟨h1.trans hs, h2⟩
            · next hc _ _ =>
              obtain ⟨h1, h2⟩ := ih _ _ _ _ h
              refine ⟨h1.trans hs, fun hn => h2 ?_⟩
              have hc' : a.ip ∉ s.connected := by simpa using hc
              exact List.nodup_cons.2 ⟨hc', hn⟩
    · cases h; exact ⟨rfl, fun h => h⟩

/-- `dialAddresses` from an invariant state. -/
theorem dialAddresses_run {max : Nat} (cfg : Cfg) (blocked : Nat → Bool) (s : State) (h : SInv max s) :
    ∃ s' d, dialAddresses cfg blocked s = .ok (s', d) ∧ SInv max s' ∧ s'.banned = s.banned ∧
      (cfg.checkBan = true → ∀ a ∈ d, a.1 ∉ s.banned) ∧
      (∀ x, x ∈ s'.connected → x ∈ s.connected ∨ ∃ a ∈ d, a.1 = x) := by
  unfold dialAddresses
  by_cases hc : s.completed = true
  · rw [if_pos hc]; exact ⟨s, [], rfl, h, rfl, by simp, fun x hx => Or.inl hx⟩
  · rw [if_neg hc]
    obtain ⟨s', new, h1, h2, h3, h4, _, h6, _⟩ :=
      dialLoop_spec cfg blocked max (s.queue.len + 1) s []
        ⟨h.good.inv, h.good.counts, h.good.bound⟩ (Nat.lt_succ_self _)
    simp only [List.nil_append] at h1
    obtain ⟨e1, e2⟩ := dialLoop_extra cfg blocked _ _ _ _ _ h1
    refine ⟨s', new, h1, ⟨⟨h2.inv, h2.counts, h2.bound, by rw [e1]; exact h.good.slots⟩, e2 h.nodup⟩,
      h3, fun hcb a ha => (h6 a ha).2.2.1 hcb, ?_⟩
    intro x hx
    rcases (h4 x).1 hx with h | h
    · exact Or.inl h
    · obtain ⟨a, ha, e⟩ := List.mem_map.1 h; exact Or.inr ⟨a, ha, e⟩

/-- A step that ends in `dialAddresses` from the intermediate state `s0`. -/
theorem dial_step {max : Nat} (cfg : Cfg) (blocked : Nat → Bool) (s0 : State) (h : SInv max s0) :
    ∃ s' d, withDial (dialAddresses cfg blocked s0) = .ok (s', { dialled := d }) ∧ SInv max s' ∧
      s'.banned = s0.banned ∧
      (cfg.checkBan = true → ∀ a ∈ d, a.1 ∉ s'.banned) ∧
      (cfg.checkBan = true → Disj s0 → Disj s') := by
  obtain ⟨s', d, h1, h2, h3, h4, h5⟩ := dialAddresses_run cfg blocked s0 h
  refine ⟨s', d, by rw [h1]; rfl, h2, h3, fun hcb a ha => by rw [h3]; exact h4 hcb a ha, ?_⟩
  intro hcb hd x hx hxc
  rw [h3] at hx
  rcases h5 x hxc with h | ⟨a, ha, e⟩
  · exact hd x hx h
  · exact h4 hcb a ha (e ▸ hx)

/-- One step of a history from an invariant state. -/
theorem step_spec {max : Nat} (cfg : Cfg) (b : Nat → Bool) (s : State) (op : Op)
    (h : SInv max s) (hop : OpOk max op) :
    ∃ s' o, step cfg b s op = .ok (s', o) ∧ SInv max s' ∧ (∀ x ∈ s.banned, x ∈ s'.banned) ∧
      (cfg.checkBan = true → ∀ a ∈ o.dialled, a.1 ∉ s'.banned) ∧
      (cfg.checkBan = true → Disj s → Disj s') ∧
      (∀ ip, op = .accept ip → ip ∈ s.banned → o.verdict ≠ some .accept) ∧
      (∀ a, op = .corruptOut a → a.1 ∈ s'.banned) ∧
      (∀ ip, op = .corruptIn ip → ip ∈ s'.banned) := by
  cases op with
  | peers env choose addrs src now =>
    obtain ⟨hmax, hch⟩ := hop
    simp only [step, handleNewPeers]
    by_cases hc : s.completed = true
    · refine ⟨{ s with needMore := false }, {}, ?_, ⟨h.good, h.nodup⟩, fun x hx => hx,
        fun _ a ha => (by cases ha), fun _ hd => hd, by simp, by simp, by simp⟩
      rw [if_pos hc]; rfl
    · obtain ⟨q, hp, hg, _, _⟩ := push_good h.good env hmax choose hch
        (addrs.filter fun a => !s.banned.contains a.ip) src now
      rw [if_neg hc, hp]
      obtain ⟨s', d, e, i1, i2, i3, i4⟩ :=
        dial_step cfg b { s with needMore := false, queue := q } ⟨hg, h.nodup⟩
      exact ⟨s', { dialled := d }, e, i1, fun x hx => by rw [i2]; exact hx, i3,
        fun hcb hd => i4 hcb hd, by simp, by simp, by simp⟩
  | accept ip =>
    simp only [step]
    refine ⟨_, _, rfl, ?_, ?_, fun _ a ha => (by cases ha), ?_, ?_, by simp, by simp⟩
    · unfold handleNewConnection
      split
      · exact h
      · split
        · exact h
        · split
          · exact h
          · split
            · exact h
            · next hc _ =>
              have hc' : ip ∉ s.connected := by simpa using hc
              exact ⟨h.good, List.nodup_cons.2 ⟨hc', h.nodup⟩⟩
    · intro x hx
      unfold handleNewConnection
      split <;> (try split) <;> (try split) <;> (try split) <;> exact hx
    · intro _ hd
      unfold handleNewConnection
      split
      · exact hd
      · split
        · exact hd
        · split
          · exact hd
          · split
            · exact hd
            · next hb =>
              have hb' : ip ∉ s.banned := by simpa using hb
              intro x hx hxc
              rcases List.mem_cons.1 hxc with rfl | hxc
              · exact hb' hx
              · exact hd x hx hxc
    · intro ip' e hb
      cases e
      have := ((accept_admission cfg b s ip).1.1)
      intro hv
      simp only [Option.some.injEq] at hv
      exact (this hv).2.2.2 hb
  | hsfail a =>
    simp only [step, outgoingGone]
    obtain ⟨s', d, e, i1, i2, i3, i4⟩ :=
      dial_step cfg b { s with outgoing := s.outgoing.erase a, connected := s.connected.erase a.1 }
        ⟨h.good, h.nodup.erase _⟩
    refine ⟨s', { dialled := d }, e, i1, fun x hx => by rw [i2]; exact hx, i3, ?_, by simp, by simp, by simp⟩
    intro hcb hd
    exact i4 hcb fun x hx hxc => hd x hx (List.mem_of_mem_erase hxc)
  | infail ip =>
    simp only [step]
    refine ⟨_, _, rfl, ⟨h.good, h.nodup.erase _⟩, fun x hx => hx, fun _ a ha => (by cases ha), ?_,
      by simp, by simp, by simp⟩
    intro _ hd x hx hxc
    exact hd x hx (List.mem_of_mem_erase hxc)
  | closeIn ip =>
    simp only [step]
    obtain ⟨s', d, e, i1, i2, i3, i4⟩ :=
      dial_step cfg b (incomingGone s ip) ⟨h.good, h.nodup.erase _⟩
    refine ⟨s', { dialled := d }, e, i1, fun x hx => by rw [i2]; exact hx, i3, ?_, by simp, by simp, by simp⟩
    intro hcb hd
    exact i4 hcb fun x hx hxc => hd x hx (List.mem_of_mem_erase hxc)
  | corruptOut a =>
    simp only [step, corruptPiece]
    cases hcb : cfg.checkBan with
    | true =>
      simp only [if_true, outgoingGone]
      obtain ⟨s', d, e, i1, i2, i3, i4⟩ :=
        dial_step cfg b { s with banned := a.1 :: s.banned, outgoing := s.outgoing.erase a,
                                 connected := s.connected.erase a.1 }
          ⟨h.good, h.nodup.erase _⟩
      refine ⟨s', { dialled := d }, e, i1, fun x hx => by rw [i2]; exact List.mem_cons_of_mem _ hx,
        fun _ => i3 hcb, ?_, by simp, ?_, by simp⟩
      · intro _ hd
        apply i4 hcb
        intro x hx hxc
        rcases List.mem_cons.1 hx with rfl | hx
        · exact absurd rfl ((h.nodup.mem_erase_iff.1 hxc).1)
        · exact hd x hx (List.mem_of_mem_erase hxc)
      · intro a' e'
        cases e'
        rw [i2]; exact List.mem_cons_self
    | false =>
      simp only [Bool.false_eq_true, if_false, outgoingGone]
      obtain ⟨s', d, e, i1, i2, _, _⟩ :=
        dialAddresses_run cfg b { s with outgoing := s.outgoing.erase a, connected := s.connected.erase a.1 }
          ⟨h.good, h.nodup.erase _⟩
      rw [e]
      refine ⟨{ s' with banned := a.1 :: s'.banned }, { dialled := d }, rfl, ⟨i1.good, i1.nodup⟩, ?_,
        fun hh => (by cases hh), fun hh => (by cases hh), by simp, ?_, by simp⟩
      · intro x hx
        exact List.mem_cons_of_mem _ (by rw [i2]; exact hx)
      · intro a' e'
        cases e'
        exact List.mem_cons_self
  | corruptIn ip =>
    simp only [step]
    obtain ⟨s', d, e, i1, i2, i3, i4⟩ :=
      dial_step cfg b (incomingGone { s with banned := ip :: s.banned } ip) ⟨h.good, h.nodup.erase _⟩
    refine ⟨s', { dialled := d }, e, i1, fun x hx => by rw [i2]; exact List.mem_cons_of_mem _ hx,
      i3, ?_, by simp, by simp, ?_⟩
    · intro hcb hd
      apply i4 hcb
      intro x hx hxc
      rcases List.mem_cons.1 hx with rfl | hx
      · exact absurd rfl ((h.nodup.mem_erase_iff.1 hxc).1)
      · exact hd x hx (List.mem_of_mem_erase hxc)
    · intro ip' e'
      cases e'
      rw [i2]; exact List.mem_cons_self
  | complete v =>
    simp only [step]
    exact ⟨_, _, rfl, ⟨h.good, h.nodup⟩, fun x hx => hx, fun _ a ha => (by cases ha), fun _ hd => hd,
      by simp, by simp, by simp⟩

/-- `run` over a concatenation. -/
theorem run_append (cfg : Cfg) (h1 h2 : List (Op × (Nat → Bool))) :
    ∀ (s s1 s2 : State) (o1 o2 : List StepOut),
      run cfg s h1 = .ok (s1, o1) → run cfg s1 h2 = .ok (s2, o2) →
      run cfg s (h1 ++ h2) = .ok (s2, o1 ++ o2) := by
  induction h1 with
  | nil =>
    intro s s1 s2 o1 o2 e1 e2
    simp only [run] at e1
    cases e1
    simpa using e2
  | cons x rest ih =>
    intro s s1 s2 o1 o2 e1 e2
    obtain ⟨op, b⟩ := x
    simp only [List.cons_append, run] at e1 ⊢
    cases hs : step cfg b s op with
    | error e => rw [hs] at e1; cases e1
    | ok r =>
      obtain ⟨sa, oa⟩ := r
      rw [hs] at e1
      simp only at e1 ⊢
      cases hr : run cfg sa rest with
      | error e => rw [hr] at e1; cases e1
      | ok r2 =>
        obtain ⟨sb, ob⟩ := r2
        rw [hr] at e1
        simp only at e1
        cases e1
        rw [ih sa s1 s2 ob o2 hr e2]
        rfl

/-- A whole history from an invariant state: no panic; the invariant is kept; `banned` only
grows; (repaired code) nothing dialled has an IP that was banned at the start, no connection from
an IP banned at the start is accepted, and "banned ∩ connected = ∅" is kept. -/
theorem run_spec {max : Nat} (cfg : Cfg) (hist : List (Op × (Nat → Bool))) :
    ∀ (s : State), SInv max s → (∀ e ∈ hist, OpOk max e.1) →
    ∃ s' outs, run cfg s hist = .ok (s', outs) ∧ SInv max s' ∧ outs.length = hist.length ∧
      (∀ x ∈ s.banned, x ∈ s'.banned) ∧
      (cfg.checkBan = true → ∀ o ∈ outs, ∀ a ∈ o.dialled, a.1 ∉ s.banned) ∧
      (cfg.checkBan = true → Disj s → Disj s') ∧
      (∀ p ∈ hist.zip outs, ∀ ip, p.1.1 = .accept ip → ip ∈ s.banned → p.2.verdict ≠ some .accept) := by
  induction hist with
  | nil =>
    intro s h _
    exact ⟨s, [], rfl, h, rfl, fun x hx => hx, fun _ o ho => (by cases ho), fun _ hd => hd,
      fun p hp => (by cases hp)⟩
  | cons x rest ih =>
    intro s h hok
    obtain ⟨op, b⟩ := x
    obtain ⟨s1, o, e1, i1, m1, d1, j1, a1, _, _⟩ :=
      step_spec cfg b s op h (hok (op, b) List.mem_cons_self)
    obtain ⟨s2, os, e2, i2, l2, m2, d2, j2, a2⟩ :=
      ih s1 i1 (fun e he => hok e (List.mem_cons_of_mem _ he))
    refine ⟨s2, o :: os, by simp only [run, e1, e2], i2, by simp [l2], fun x hx => m2 x (m1 x hx),
      ?_, fun hcb hd => j2 hcb (j1 hcb hd), ?_⟩
    · intro hcb o' ho' a ha hb
      rcases List.mem_cons.1 ho' with rfl | ho'
      · exact d1 hcb a ha (m1 _ hb)
      · exact d2 hcb o' ho' a ha (m1 _ hb)
    · intro p hp ip e hb
      simp only [List.zip_cons_cons] at hp
      rcases List.mem_cons.1 hp with rfl | hp
      · exact a1 ip e hb
      · exact a2 p hp ip e (m1 _ hb)

end Rain.Admission
