import RainModel.Lemmas.LoopWInvStep
/-!
C08/C04 `never_panics`, step level: the invariant `NP` (= not panicked ∧ `Full`), its preservation by every
`step` (any op, any parked message, any parameters), and by the adoption of the implementation's choices
(`reconcile`, `reconcileIdl`) under a hypothesis that is **weaker** than "the driver reported neither C09
nor C13" (`Ev.admissible ∧ Ev.admissibleI`): `Ev.sane` only asks that

* a piece download the implementation newly runs was started while the torrent was `Downloading` with its
  pieces loaded, for a piece that is not done (nothing about which peer, choking, allowed-fast, the endgame
  bound, the `Writing` flag, `mayStart`; nothing about downloads that vanished or changed piece), and
* no metadata download runs once the metadata is known.
-/
namespace Rain.Loop

/-- The inductive invariant of `never_panics`: no panic so far, and `Full` (= `Life ∧ CompInv ∧ WInv`:
lifecycle, completion flags, write/download/queue discipline). -/
structure NP (s : St) : Prop where
  np : s.panicked = none
  full : Full s

/-- **One event, any op**: handler, worker completions, delivery of the parked block. -/
theorem step_np (s : St) (p : Parked) (kn : Nat → Bool) (op : Op) (h : NP s) : NP (step s p kn op).1.st :=
  ⟨(step_full s p kn op h.full).2 h.np, (step_full s p kn op h.full).1⟩

/-! ### the implementation's choices, under the weak hypothesis -/

/-- The piece downloads `reconcile` adopts are "sane" in state `s`: old ones, or started while downloading,
loaded, for a piece that is not done. -/
def DlsSane (s : St) (impl : List ImplDl) : Prop :=
  ∀ d ∈ (reconcile s impl).1.dls, d ∈ s.dls ∨
    (s.status = .downloading ∧ s.loaded = true ∧ s.done.getD d.piece false = false)

/-- No metadata download is adopted once the metadata is known. -/
def IdlsSane (s : St) (implI : List Nat) : Prop :=
  s.info = true → (reconcileIdl s implI).1.idls = []

theorem dlsSane_of_admissible (s : St) (impl : List ImplDl) (he : (reconcile s impl).2 = []) : DlsSane s impl :=
  reconcile_dls s impl he

theorem idlsSane_of_admissible (s : St) (implI : List Nat) (h : WInv s) (he : (reconcileIdl s implI).2 = []) :
    IdlsSane s implI := by
  intro hi
  rw [List.eq_nil_iff_forall_not_mem]
  intro d hd
  rcases reconcileIdl_idls s implI he d hd with h1 | h1
  · rw [h.id hi] at h1; cases h1
  · rw [h1.1] at hi; cases hi

theorem reconcile_peers_of_nil (s : St) (impl : List ImplDl) (h : s.peers = []) : (reconcile s impl).1.peers = [] := by
  simp [reconcile, h]

theorem reconcile_life_sane (s : St) (impl : List ImplDl) (h : Life s) (hd : DlsSane s impl) :
    Life (reconcile s impl).1 := by
  by_cases hr : Running s
  · exact h.congrR hr (by lframe)
  · have hnr : s.errC = false ∨ s.stopAnn = true := by
      unfold Running at hr
      cases he : s.errC <;> cases hs : s.stopAnn <;> simp_all
    obtain ⟨i1, i2, i3, i4, i5, i6, i7, i8⟩ := h.idle hnr
    have hst : s.status ≠ .downloading := by
      unfold St.status
      rcases hnr with h' | h'
      · simp [h']
      · cases s.errC <;> simp [h']
    have hdls : (reconcile s impl).1.dls = [] := by
      rw [List.eq_nil_iff_forall_not_mem]
      intro d hd'
      rcases hd d hd' with h1 | ⟨h1, _, _⟩
      · rw [i7] at h1; cases h1
      · exact hst h1
    apply h.congr
    constructor <;> first | rfl | (simp; done) | exact (reconcile_peers_of_nil s impl i6).trans i6.symm |
      exact hdls.trans i7.symm

theorem reconcile_winv_sane (s : St) (impl : List ImplDl) (h : WInv s) (hd : DlsSane s impl) :
    WInv (reconcile s impl).1 := by
  refine ⟨?_, by simpa using h.wf, by simpa using h.wg,
    by simpa using h.wc, by simpa [St.n] using h.wl, by simpa using h.wd, by simpa using h.bd, ?_, ?_,
    by simpa using h.al, by simpa using h.id⟩
  · -- peers: only `snubbed` is reset
    intro p hp msg hm
    unfold reconcile at hp
    dsimp only at hp
    simp only [List.mem_map] at hp
    obtain ⟨q, hq, rfl⟩ := hp
    split at hm
    · exact h.q q hq msg hm
    · exact h.q q hq msg hm
  · intro d hd'
    rcases hd d hd' with h1 | ⟨_, _, h3⟩
    · simpa using h.dd d h1
    · simpa using h3
  · intro hne
    obtain ⟨d, hd'⟩ := List.exists_mem_of_ne_nil _ hne
    rcases hd d hd' with h1 | ⟨h1, h2, _⟩
    · simpa using h.dl (List.ne_nil_of_mem h1)
    · have hst : s.allocator = false ∧ s.verifier = false ∧ s.completed = false := by
        unfold St.status at h1
        repeat' split at h1
        all_goals first | (cases h1; done) | simp_all
      simpa using ⟨h2, hst⟩

theorem reconcileIdl_winv_sane (s : St) (implI : List Nat) (h : WInv s) (hi : IdlsSane s implI) :
    WInv (reconcileIdl s implI).1 := by
  refine ⟨h.q.of_peers (by simp), by simpa using h.wf,
    by simpa using h.wg, by simpa using h.wc, by simpa [St.n] using h.wl, by simpa using h.wd, by simpa using h.bd,
    by simpa using h.dd, by simpa using h.dl, by simpa using h.al, ?_⟩
  intro hi'
  exact hi (by simpa using hi')

theorem reconcile_np (s : St) (impl : List ImplDl) (h : NP s) (hd : DlsSane s impl) : NP (reconcile s impl).1 :=
  ⟨by simpa using h.np,
    ⟨reconcile_life_sane s impl h.full.life hd, reconcile_comp s impl h.full.comp, reconcile_winv_sane s impl h.full.w hd⟩⟩

theorem reconcileIdl_np (s : St) (implI : List Nat) (h : NP s) (hi : IdlsSane s implI) : NP (reconcileIdl s implI).1 :=
  ⟨by simpa using h.np,
    ⟨reconcileIdl_life s implI h.full.life, reconcileIdl_comp s implI h.full.comp, reconcileIdl_winv_sane s implI h.full.w hi⟩⟩

/-- The implementation's choices after event `e` are sane (see the header). -/
def Ev.sane (sp : St × Parked) (e : Ev) : Prop :=
  DlsSane (step sp.1 sp.2 e.known e.op).1.st e.impl ∧
  IdlsSane (reconcile (step sp.1 sp.2 e.known e.op).1.st e.impl).1 e.implI

/-- What the driver checks (no C09 error from `reconcile`, no C13 error from `reconcileIdl`) implies sanity,
in any state of the invariant. -/
theorem Ev.sane_of_admissible (sp : St × Parked) (e : Ev) (h : NP sp.1) (ha : e.admissible sp) (hi : e.admissibleI sp) :
    e.sane sp := by
  have h1 := step_np sp.1 sp.2 e.known e.op h
  have hd := dlsSane_of_admissible _ e.impl ha
  exact ⟨hd, idlsSane_of_admissible _ e.implI (reconcile_np _ _ h1 hd).full.w hi⟩

/-- **One event of the driver**: step, then adopt the implementation's (sane) choices. -/
theorem dstep_np (sp : St × Parked) (e : Ev) (h : NP sp.1) (hs : e.sane sp) : NP (dstep sp e).1 := by
  unfold dstep
  exact reconcileIdl_np _ _ (reconcile_np _ _ (step_np sp.1 sp.2 e.known e.op h) hs.1) hs.2

end Rain.Loop
