import RainModel.Model.TrackerWire
/-! Helper lemmas for `Model/TrackerWire`: big-endian round trips, the frame splitter, hex. -/
namespace Rain.TrackerWire

@[simp] theorem length_be (k v : Nat) : (be k v).length = k := by
  induction k with
  | zero => rfl
  | succ k ih => simp [be, ih]

theorem unbe_be (k v : Nat) : unbe (be k v) = v % 256 ^ k := by
  induction k with
  | zero => simp [be, unbe, Nat.mod_one]
  | succ k ih =>
    simp only [be, unbe, length_be, ih]
    rw [Nat.pow_succ, Nat.mod_mul, Nat.mul_comm]
    omega

theorem unbe_be_of_lt {k v : Nat} (h : v < 256 ^ k) : unbe (be k v) = v := by
  rw [unbe_be, Nat.mod_eq_of_lt h]

theorem isBytes_be (k v : Nat) : isBytes (be k v) = true := by
  induction k with
  | zero => rfl
  | succ k ih =>
    simp only [isBytes, be, List.all_cons, Bool.and_eq_true, decide_eq_true_eq] at ih ⊢
    exact ⟨Nat.mod_lt _ (by decide), ih⟩

theorem unbe_lt (b : Bytes) (h : isBytes b = true) : unbe b < 256 ^ b.length := by
  induction b with
  | nil => simp [unbe]
  | cons x r ih =>
    simp only [isBytes, List.all_cons, Bool.and_eq_true, decide_eq_true_eq] at h
    have := ih (by simpa [isBytes] using h.2)
    simp only [unbe, List.length_cons, Nat.pow_succ]
    have hx : x ≤ 255 := by omega
    have : x * 256 ^ r.length ≤ 255 * 256 ^ r.length := Nat.mul_le_mul_right _ hx
    omega

theorem takeN_append {n : Nat} (a r : Bytes) (h : a.length = n) : takeN n (a ++ r) = some (a, r) := by
  unfold takeN
  have : ¬ (a ++ r).length < n := by simp [List.length_append]; omega
  simp only [this, if_false]
  subst h
  simp

theorem ofU_toU64 {v : Int} (h1 : -(2 ^ 63 : Int) ≤ v) (h2 : v < 2 ^ 63) : ofU 64 (toU 64 v) = v := by
  unfold ofU toU
  simp only [show (64 - 1 : Nat) = 63 from rfl]
  have e64 : (2 : Int) ^ 64 = 18446744073709551616 := by decide
  have e63 : (2 : Int) ^ 63 = 9223372036854775808 := by decide
  have n63 : (2 : Nat) ^ 63 = 9223372036854775808 := by decide
  rw [e63] at h1 h2
  rw [e64, n63]
  split <;> omega

theorem toU64_lt (v : Int) : toU 64 v < 256 ^ 8 := by
  unfold toU
  have e64 : (2 : Int) ^ 64 = 18446744073709551616 := by decide
  have : (256 : Nat) ^ 8 = 18446744073709551616 := by decide
  rw [e64, this]; omega

theorem ofU_toU32 {v : Int} (h1 : -(2 ^ 31 : Int) ≤ v) (h2 : v < 2 ^ 31) : ofU 32 (toU 32 v) = v := by
  unfold ofU toU
  simp only [show (32 - 1 : Nat) = 31 from rfl]
  have e32 : (2 : Int) ^ 32 = 4294967296 := by decide
  have e31 : (2 : Int) ^ 31 = 2147483648 := by decide
  have n31 : (2 : Nat) ^ 31 = 2147483648 := by decide
  rw [e31] at h1 h2
  rw [e32, n31]
  split <;> omega

theorem toU32_lt (v : Int) : toU 32 v < 256 ^ 4 := by
  unfold toU
  have e32 : (2 : Int) ^ 32 = 4294967296 := by decide
  have : (256 : Nat) ^ 4 = 4294967296 := by decide
  rw [e32, this]; omega

theorem toU16_port {p : Int} (h0 : 0 ≤ p) (h1 : p < 65536) : toU 16 p = p.toNat ∧ p.toNat < 256 ^ 2 := by
  unfold toU
  have e16 : (2 : Int) ^ 16 = 65536 := by decide
  have : (256 : Nat) ^ 2 = 65536 := by decide
  rw [e16, this]; omega

/-! ### hex / percent escaping -/

theorem nibVal_hexNib : ∀ n, n < 16 → nibVal (hexNib n) = some n := by decide

theorem hexDec_hexEnc (b : Bytes) (h : isBytes b = true) : hexDec (hexEnc b) = some b := by
  induction b with
  | nil => rfl
  | cons x r ih =>
    simp only [isBytes, List.all_cons, Bool.and_eq_true, decide_eq_true_eq] at h
    have ihr := ih (by simpa [isBytes] using h.2)
    have h1 := nibVal_hexNib (x / 16) (by omega)
    have h2 := nibVal_hexNib (x % 16) (by omega)
    simp only [hexEnc, hexDec, h1, h2, ihr, bind, Option.bind, pure]
    congr 2
    omega

theorem percentUnescape_escape (b : Bytes) (h : isBytes b = true) :
    percentUnescape (percentEscape b) = some b := by
  induction b with
  | nil => rfl
  | cons x r ih =>
    simp only [isBytes, List.all_cons, Bool.and_eq_true, decide_eq_true_eq] at h
    have ihr := ih (by simpa [isBytes] using h.2)
    have h1 := nibVal_hexNib (x / 16) (by omega)
    have h2 := nibVal_hexNib (x % 16) (by omega)
    simp only [percentEscape, percentUnescape, h1, h2, ihr, bind, Option.bind, pure]
    congr 2
    omega

/-! ### compact peers -/

theorem compactLoop_length (fuel : Nat) (b : Bytes) (h : b.length = 6 * fuel) :
    (compactLoop fuel b).length = fuel := by
  induction fuel generalizing b with
  | zero => rfl
  | succ f ih =>
    have : ¬ b.length < 6 := by omega
    simp only [compactLoop, this, if_false, List.length_cons]
    rw [ih]
    simp [List.length_drop]; omega

theorem compactLoop_wf (fuel : Nat) (b : Bytes) (hb : isBytes b = true) (h : b.length = 6 * fuel) :
    ∀ p ∈ compactLoop fuel b, p.wf = true := by
  induction fuel generalizing b with
  | zero => intro p hp; simp [compactLoop] at hp
  | succ f ih =>
    have hlen : ¬ b.length < 6 := by omega
    intro p hp
    simp only [compactLoop, hlen, if_false, List.mem_cons] at hp
    have hall : ∀ x ∈ b, x < 256 := by
      simpa [isBytes] using hb
    rcases hp with rfl | hp
    · have hip : isBytes (b.take 4) = true := by
        simp only [isBytes, List.all_eq_true, decide_eq_true_eq]
        intro x hx; exact hall x (List.mem_of_mem_take hx)
      have hpb : isBytes ((b.drop 4).take 2) = true := by
        simp only [isBytes, List.all_eq_true, decide_eq_true_eq]
        intro x hx; exact hall x (List.mem_of_mem_drop (List.mem_of_mem_take hx))
      have hpl := unbe_lt _ hpb
      have hl2 : ((b.drop 4).take 2).length = 2 := by simp [List.length_take, List.length_drop]; omega
      rw [hl2] at hpl
      simp only [Peer.wf, Bool.and_eq_true, decide_eq_true_eq, Bool.decide_and]
      refine ⟨?_, hip, by simpa using hpl⟩
      simp [List.length_take]; omega
    · refine ih (b.drop 6) ?_ ?_ p hp
      · simp only [isBytes, List.all_eq_true, decide_eq_true_eq]
        intro x hx; exact hall x (List.mem_of_mem_drop hx)
      · simp [List.length_drop]; omega

end Rain.TrackerWire
