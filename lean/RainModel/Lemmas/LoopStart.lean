import RainModel.Lemmas.LoopNoPanic
/-!
`start()` is never dropped (fix for finding C04-F3): whatever the torrent was doing, after the start command
it is neither stopped nor stopping; if it was not running, `startCore` ran.
-/
namespace Rain.Loop

theorem handleStopped_stopAnn (m : M) : (handleStopped m).1.stopAnn = false := by
  unfold handleStopped
  dsimp only
  split
  · exact startCore_stopAnn _
  · simp

theorem startPre_stopAnn (m : M) : (startPre m).1.stopAnn = false := by
  unfold startPre
  split
  · exact handleStopped_stopAnn _
  · next h => simpa using h

/-- **After `start()` the torrent runs** — in every state (running, stopped, stopping with or without a
hanging tracker, panicked or not). -/
theorem start_running (m : M) : (start m).1.errC = true ∧ (start m).1.stopAnn = false := by
  rw [start_eq]
  unfold startGo
  split
  · next h => exact ⟨h, startPre_stopAnn m⟩
  · exact ⟨startCore_errC _, startCore_stopAnn _⟩

/-- On a running torrent `start()` does nothing. -/
theorem start_of_running (m : M) (he : m.1.errC = true) (hs : m.1.stopAnn = false) : start m = m := by
  rw [start_eq]
  unfold startGo startPre
  simp [hs, he]

/-- What `startCore` always does: the error of the last run is forgotten and a worker is created — the
allocator, the verifier, or the acceptor (with the announcers and, before the metadata, the metadata
downloaders). -/
theorem startCore_work (m : M) :
    (startCore m).1.lastErr = false ∧
    ((startCore m).1.allocator = true ∨ (startCore m).1.verifier = true ∨ (startCore m).1.acceptor = true) := by
  unfold startCore
  dsimp only
  repeat' split
  all_goals (simp only [onSt_fst]; refine ⟨by simp, ?_⟩)
  · right; right; simp
  · right; left
    split <;> simp_all
  · left
    split <;> simp_all
  · right; right; simp

/-- On a torrent that is not running (stopped, or stopping), `start()` ends with `startCore`. -/
theorem start_eq_startCore (m : M) (hnr : m.1.errC = false ∨ m.1.stopAnn = true) : ∃ m', start m = startCore m' := by
  rw [start_eq]
  unfold startGo startPre
  by_cases hs : m.1.stopAnn = true
  · rw [if_pos hs]
    split
    · next he =>
      -- `handleStopped` has restarted the torrent itself (pending verify)
      revert he
      unfold handleStopped
      dsimp only
      split
      · intro _; exact ⟨_, rfl⟩
      · intro he; simp at he
    · exact ⟨_, rfl⟩
  · rw [if_neg hs]
    have he : m.1.errC = false := by
      rcases hnr with h | h
      · exact h
      · exact absurd h hs
    simp only [he, Bool.false_eq_true, ↓reduceIte]
    exact ⟨_, rfl⟩

/-- **A start is never dropped.**  If the torrent was stopped or stopping, `start()` did its work. -/
theorem start_starts (m : M) (hnr : m.1.errC = false ∨ m.1.stopAnn = true) :
    (start m).1.lastErr = false ∧
    ((start m).1.allocator = true ∨ (start m).1.verifier = true ∨ (start m).1.acceptor = true) := by
  obtain ⟨m', h⟩ := start_eq_startCore m hnr
  rw [h]
  exact startCore_work m'

/-- **Start while stopping** (the case finding C04-F3 was about), precisely: the stop announcer is closed
(also one that waits for a hanging tracker), the stop is finished and the torrent is started again — it is
allocating (metadata known) or fetching the metadata; nothing panics; a pending verify only drops the
bitfield. -/
theorem start_while_stopping (m : M) (h : Life m.1) (hs : m.1.stopAnn = true) :
    (start m).1.status = (if m.1.info then .allocating else .dlmeta) ∧
    (start m).1.stopHang = false ∧ (start m).1.panicked = m.1.panicked ∧ (start m).1.lastErr = false ∧
    (start m).1.doVerify = m.1.doVerify ∧ (start m).1.bf = (if m.1.doVerify then none else m.1.bf) := by
  obtain ⟨i1, i2, i3, i4, i5, i6, i7, i8⟩ := h.idle (Or.inr hs)
  have hpan := start_no_panic m (fun _ => ⟨i1, i2⟩)
  have hni := h.ni
  refine ⟨?_, ?_, hpan, ?_, by simp, ?_⟩
  all_goals
    rw [start_eq]
    unfold startGo startPre handleStopped startCore
    cases hd : m.1.doVerify <;> cases hi : m.1.info <;>
      simp_all [St.status]

end Rain.Loop
