import RainModel.Model.PieceWriter
/-! Helper lemmas for `pw_gate` (C01). -/
namespace Rain.PW
open Rain.Blocks

theorem totalLen_cons (s : FSec) (rest : List FSec) : totalLen (s :: rest) = s.len + totalLen rest := by
  simp [totalLen]

/-- With every `WriteAt` succeeding, the cursor loop performs exactly `sectionWrites`. -/
theorem writeSecs_ok : ∀ (secs : List FSec) (buf : Bytes) (o k : Nat) (acc : List Write),
    o + totalLen secs ≤ buf.length →
    writeSecs none secs (buf.drop o) k acc = (.ok, acc.reverse ++ sectionWrites secs o buf) := by
  intro secs
  induction secs with
  | nil => intro buf o k acc _; simp [writeSecs, sectionWrites]
  | cons s rest ih =>
    intro buf o k acc h
    rw [totalLen_cons] at h
    unfold writeSecs sectionWrites
    have hlen : ¬ (buf.drop o).length < s.len := by simp; omega
    simp only [hlen, if_false, List.drop_drop]
    by_cases hp : s.pad = true
    · simp only [hp, if_true]
      rw [ih buf (o + s.len) k acc (by omega)]
      simp
    · simp only [hp]
      have : (none : Option Nat) = some k ↔ False := by simp
      simp only [this, if_false, Bool.false_eq_true]
      rw [ih buf (o + s.len) (k + 1) _ (by omega)]
      simp

/-- Whatever call fails, the calls made are a prefix of `sectionWrites`, and the cursor never
leaves the buffer. -/
theorem writeSecs_prefix (f : Option Nat) : ∀ (secs : List FSec) (buf : Bytes) (o k : Nat) (acc : List Write),
    o + totalLen secs ≤ buf.length →
    ∃ ws, (writeSecs f secs (buf.drop o) k acc).2 = acc.reverse ++ ws ∧
      ws <+: sectionWrites secs o buf ∧
      (writeSecs f secs (buf.drop o) k acc).1 ≠ .badGeometry ∧
      ((writeSecs f secs (buf.drop o) k acc).1 = .ok → ws = sectionWrites secs o buf) := by
  intro secs
  induction secs with
  | nil =>
    intro buf o k acc _
    exact ⟨[], by simp [writeSecs], by simp [sectionWrites], by simp [writeSecs], by simp [sectionWrites]⟩
  | cons s rest ih =>
    intro buf o k acc h
    rw [totalLen_cons] at h
    unfold writeSecs sectionWrites
    have hlen : ¬ (buf.drop o).length < s.len := by simp; omega
    simp only [hlen, if_false, List.drop_drop]
    by_cases hp : s.pad = true
    · simp only [hp, if_true]
      obtain ⟨ws, h1, h2, h3, h4⟩ := ih buf (o + s.len) k acc (by omega)
      exact ⟨ws, h1, by simpa using h2, h3, by simpa using h4⟩
    · simp only [hp, Bool.false_eq_true, if_false]
      by_cases hf : f = some k
      · simp only [hf, if_true]
        refine ⟨[{ file := s.file, off := s.off, data := (buf.drop o).take s.len }], by simp, ?_, by simp, by simp⟩
        exact ⟨sectionWrites rest (o + s.len) buf, by simp⟩
      · simp only [hf, if_false]
        obtain ⟨ws, h1, h2, h3, h4⟩ := ih buf (o + s.len) (k + 1)
          ({ file := s.file, off := s.off, data := (buf.drop o).take s.len } :: acc) (by omega)
        refine ⟨{ file := s.file, off := s.off, data := (buf.drop o).take s.len } :: ws, ?_, ?_, h3, ?_⟩
        · rw [h1]; simp
        · obtain ⟨t, ht⟩ := h2
          exact ⟨t, by simp [← ht]⟩
        · intro hok
          rw [h4 hok]
          simp

/-! ### What `sectionWrites` covers -/

theorem keepMask_true (k : Nat) : ∀ (m : List Bool) (xs : Bytes), k ≤ xs.length →
    keepMask (List.replicate k true ++ m) xs = xs.take k ++ keepMask m (xs.drop k) := by
  induction k with
  | zero => intro m xs _; simp
  | succ k ih =>
    intro m xs h
    cases xs with
    | nil => simp at h
    | cons x xs =>
      simp only [List.replicate_succ, List.cons_append, keepMask, if_true, List.take_succ_cons,
        List.drop_succ_cons, List.cons_append]
      rw [ih m xs (by simpa using h)]

theorem keepMask_false (k : Nat) : ∀ (m : List Bool) (xs : Bytes), k ≤ xs.length →
    keepMask (List.replicate k false ++ m) xs = keepMask m (xs.drop k) := by
  induction k with
  | zero => intro m xs _; simp
  | succ k ih =>
    intro m xs h
    cases xs with
    | nil => simp at h
    | cons x xs =>
      simp only [List.replicate_succ, List.cons_append, keepMask, Bool.false_eq_true, if_false,
        List.drop_succ_cons]
      rw [ih m xs (by simpa using h)]

theorem secMask_cons (s : Sec) (rest : List Sec) :
    secMask (s :: rest) = List.replicate s.len (!s.pad) ++ secMask rest := by
  simp [secMask]

/-- The bytes handed to storage, in order, are exactly the non-padding bytes of the buffer. -/
theorem sectionWrites_data : ∀ (secs : List FSec) (buf : Bytes) (o : Nat), o + totalLen secs ≤ buf.length →
    (sectionWrites secs o buf).flatMap (·.data) = keepMask (secMask (secs.map FSec.toSec)) (buf.drop o) := by
  intro secs
  induction secs with
  | nil => intro buf o _; simp [sectionWrites, secMask, keepMask]
  | cons s rest ih =>
    intro buf o h
    rw [totalLen_cons] at h
    have hk : s.len ≤ (buf.drop o).length := by simp; omega
    simp only [List.map_cons, secMask_cons, FSec.toSec, sectionWrites]
    by_cases hp : s.pad = true
    · simp only [hp, if_true, List.nil_append, Bool.not_true]
      rw [keepMask_false s.len _ _ hk, List.drop_drop, ih buf (o + s.len) (by omega)]
    · have hp' : s.pad = false := by simpa using hp
      simp only [hp', Bool.false_eq_true, if_false, Bool.not_false, List.flatMap_append, List.flatMap_cons,
        List.flatMap_nil, List.append_nil]
      rw [keepMask_true s.len _ _ hk, List.drop_drop, ih buf (o + s.len) (by omega)]

/-- One `WriteAt` per non-padding section, to that section's file and offset, of its length. -/
theorem sectionWrites_targets : ∀ (secs : List FSec) (buf : Bytes) (o : Nat), o + totalLen secs ≤ buf.length →
    (sectionWrites secs o buf).map (fun w => (w.file, w.off, w.data.length)) =
      (secs.filter (fun s => !s.pad)).map (fun s => (s.file, s.off, s.len)) := by
  intro secs
  induction secs with
  | nil => intro buf o _; simp [sectionWrites]
  | cons s rest ih =>
    intro buf o h
    rw [totalLen_cons] at h
    simp only [sectionWrites]
    by_cases hp : s.pad = true
    · simp only [hp, if_true, List.nil_append, List.filter_cons, Bool.not_true, Bool.false_eq_true, if_false]
      exact ih buf (o + s.len) (by omega)
    · have hp' : s.pad = false := by simpa using hp
      simp only [hp', Bool.false_eq_true, if_false, List.filter_cons, Bool.not_false, if_true, List.map_cons,
        List.singleton_append]
      rw [ih buf (o + s.len) (by omega)]
      congr 1
      simp
      omega

theorem totalLen_eq_total (secs : List FSec) : totalLen secs = total (secs.map FSec.toSec) := by
  simp [totalLen, total, FSec.toSec, List.map_map, Function.comp_def]

end Rain.PW
