import RainModel.Model.STree
/-!
Helper lemmas for `Model/STree`: sort/dedup, elementary intervals, the tree build, and the
soundness / completeness of `insertInterval` + `querySingle`.
-/
namespace Rain.STree

/-! ### insertion sort -/

theorem mem_insertSorted {x y : Nat} {l : List Nat} : y ∈ insertSorted x l ↔ y = x ∨ y ∈ l := by
  induction l with
  | nil => simp [insertSorted]
  | cons a t ih =>
    unfold insertSorted
    split
    · simp
    · rw [List.mem_cons, ih, List.mem_cons]
      constructor
      · rintro (h | h | h) <;> simp [h]
      · rintro (h | h | h) <;> simp [h]

theorem mem_sortNat {y : Nat} {l : List Nat} : y ∈ sortNat l ↔ y ∈ l := by
  induction l with
  | nil => simp [sortNat]
  | cons a t ih =>
    have : sortNat (a :: t) = insertSorted a (sortNat t) := rfl
    rw [this, mem_insertSorted, ih]; simp

theorem sorted_insertSorted {x : Nat} {l : List Nat} (h : l.Pairwise (· ≤ ·)) :
    (insertSorted x l).Pairwise (· ≤ ·) := by
  induction l with
  | nil => simp [insertSorted]
  | cons a t ih =>
    unfold insertSorted
    rw [List.pairwise_cons] at h
    split
    · rename_i hxa
      refine List.pairwise_cons.2 ⟨?_, List.pairwise_cons.2 h⟩
      intro b hb
      rcases List.mem_cons.1 hb with rfl | hb
      · exact hxa
      · exact Nat.le_trans hxa (h.1 b hb)
    · rename_i hxa
      refine List.pairwise_cons.2 ⟨?_, ih h.2⟩
      intro b hb
      rcases mem_insertSorted.1 hb with rfl | hb
      · omega
      · exact h.1 b hb

theorem sorted_sortNat (l : List Nat) : (sortNat l).Pairwise (· ≤ ·) := by
  induction l with
  | nil => simp [sortNat]
  | cons a t ih => exact sorted_insertSorted ih

/-! ### dedup -/

theorem dedupLoop_sublist (p : Nat) (l : List Nat) : (dedupLoop p l).Sublist l := by
  induction l generalizing p with
  | nil => simp [dedupLoop]
  | cons a t ih =>
    unfold dedupLoop
    split
    · exact (ih p).cons a
    · exact (ih a).cons_cons a

theorem mem_dedupLoop_of_mem {p x : Nat} {l : List Nat} (h : x ∈ l) : x = p ∨ x ∈ dedupLoop p l := by
  induction l generalizing p with
  | nil => cases h
  | cons a t ih =>
    unfold dedupLoop
    rcases List.mem_cons.1 h with rfl | h
    · split
      · left; assumption
      · right; simp
    · split
      · exact ih h
      · rcases ih (p := a) h with rfl | h'
        · right; simp
        · right; exact List.mem_cons_of_mem _ h'

theorem succ_mod_ne (x : Nat) : (x + 1) % 2 ^ 32 ≠ x := by
  have : (x + 1) % 2 ^ 32 < 2 ^ 32 := Nat.mod_lt _ (by decide)
  intro h
  by_cases hx : x + 1 < 2 ^ 32
  · rw [Nat.mod_eq_of_lt hx] at h; omega
  · by_cases hx' : x + 1 = 2 ^ 32
    · rw [hx'] at h; simp at h; omega
    · omega

theorem dedup_spec {l es : List Nat} (h : dedup l = some es) :
    es.Pairwise (· ≤ ·) ∧ ∀ x, x ∈ es ↔ x ∈ l := by
  unfold dedup at h
  split at h
  · cases h
  · rename_i s0 rest hs
    cases h
    have hsorted := sorted_sortNat l
    rw [hs] at hsorted
    refine ⟨hsorted.sublist (dedupLoop_sublist _ _), fun x => ⟨fun hx => ?_, fun hx => ?_⟩⟩
    · have := (dedupLoop_sublist _ _).subset hx
      rw [← hs] at this
      exact mem_sortNat.1 this
    · have hx' : x ∈ s0 :: rest := by rw [← hs]; exact mem_sortNat.2 hx
      unfold dedupLoop
      rw [if_neg (Ne.symm (succ_mod_ne s0))]
      rcases List.mem_cons.1 hx' with rfl | hr
      · simp
      · rcases mem_dedupLoop_of_mem (p := s0) hr with rfl | h'
        · simp
        · exact List.mem_cons_of_mem _ h'

theorem dedup_isSome {l : List Nat} (h : l ≠ []) : ∃ es, dedup l = some es ∧ es ≠ [] := by
  unfold dedup
  cases hs : sortNat l with
  | nil =>
    exfalso
    cases l with
    | nil => exact h rfl
    | cons a t =>
      have : a ∈ sortNat (a :: t) := mem_sortNat.2 (by simp)
      rw [hs] at this; cases this
  | cons s0 rest =>
    refine ⟨_, rfl, ?_⟩
    unfold dedupLoop
    rw [if_neg (Ne.symm (succ_mod_ne s0))]
    simp

/-! ### elementary intervals -/

/-- Order on leaves: both ends weakly increase. -/
def SegLE (a b : Seg) : Prop := a.lo ≤ b.lo ∧ a.hi ≤ b.hi

theorem elementary_ne_nil {es : List Nat} (h : es ≠ []) : elementary es ≠ [] := by
  match es, h with
  | [p], _ => simp [elementary]
  | p :: q :: rest, _ => simp [elementary]

theorem mem_elementary_bounds {es : List Nat} (hs : es.Pairwise (· ≤ ·)) :
    ∀ {p : Nat}, (∀ e ∈ es, p ≤ e) → ∀ s ∈ elementary es, p ≤ s.lo ∧ s.lo ≤ s.hi := by
  induction es using elementary.induct with
  | case1 => intro p _ s hs'; simp [elementary] at hs'
  | case2 p0 =>
    intro p hp s hs'
    simp [elementary] at hs'
    subst hs'
    exact ⟨hp p0 (by simp), Nat.le_refl _⟩
  | case3 p0 q rest ih =>
    intro p hp s hs'
    rw [List.pairwise_cons] at hs
    simp only [elementary, List.mem_cons] at hs'
    rcases hs' with rfl | rfl | h
    · exact ⟨hp p0 (by simp), Nat.le_refl _⟩
    · exact ⟨hp p0 (by simp), hs.1 q (by simp)⟩
    · exact ih hs.2 (fun e he => hp e (List.mem_cons_of_mem _ he)) s h

theorem elementary_pairwise {es : List Nat} (hs : es.Pairwise (· ≤ ·)) :
    (elementary es).Pairwise SegLE := by
  induction es using elementary.induct with
  | case1 => simp [elementary]
  | case2 p => simp [elementary]
  | case3 p q rest ih =>
    have hs' := hs
    rw [List.pairwise_cons] at hs
    have hpq : p ≤ q := hs.1 q (by simp)
    have hb := mem_elementary_bounds hs.2 (p := q)
      (by
        intro e he
        rcases List.mem_cons.1 he with rfl | he
        · exact Nat.le_refl _
        · exact (List.pairwise_cons.1 hs.2).1 e he)
    simp only [elementary]
    refine List.pairwise_cons.2 ⟨?_, List.pairwise_cons.2 ⟨?_, ih hs.2⟩⟩
    · intro s hs''
      rcases List.mem_cons.1 hs'' with rfl | h
      · exact ⟨Nat.le_refl _, hpq⟩
      · have := hb s h
        exact ⟨by simp only; omega, by simp only; omega⟩
    · intro s h
      have := hb s h
      exact ⟨by simp only; omega, by simp only; omega⟩

/-- For sorted endpoints `es` containing `a` and `b` with `a ≤ v ≤ b` there is an elementary
interval around `v` that lies inside `[a,b]`. -/
theorem elementary_cover {es : List Nat} (hs : es.Pairwise (· ≤ ·)) :
    ∀ {a b v : Nat}, a ∈ es → b ∈ es → a ≤ v → v ≤ b →
      ∃ s ∈ elementary es, s.lo ≤ v ∧ v ≤ s.hi ∧ a ≤ s.lo ∧ s.hi ≤ b := by
  induction es using elementary.induct with
  | case1 => intro a b v ha; cases ha
  | case2 p =>
    intro a b v ha hb hav hvb
    have ha' : a = p := by simpa using ha
    have hb' : b = p := by simpa using hb
    exact ⟨⟨p, p⟩, by simp [elementary], by simp only; omega, by simp only; omega,
      by simp only; omega, by simp only; omega⟩
  | case3 p q rest ih =>
    intro a b v ha hb hav hvb
    rw [List.pairwise_cons] at hs
    have hge : ∀ e ∈ q :: rest, q ≤ e := by
      intro e he
      rcases List.mem_cons.1 he with rfl | he
      · exact Nat.le_refl _
      · exact (List.pairwise_cons.1 hs.2).1 e he
    have hpq : p ≤ q := hs.1 q (by simp)
    by_cases hvq : v < q
    · -- a must be p
      have hap : a = p := by
        rcases List.mem_cons.1 ha with rfl | ha'
        · rfl
        · have := hge a ha'; omega
      subst hap
      by_cases hva : v = a
      · subst hva
        exact ⟨⟨v, v⟩, by simp [elementary], Nat.le_refl _, Nat.le_refl _, Nat.le_refl _, hvb⟩
      · have hbq : q ≤ b := by
          rcases List.mem_cons.1 hb with rfl | hb'
          · omega
          · exact hge b hb'
        exact ⟨⟨a, q⟩, by simp [elementary], hav, by simp only; omega, Nat.le_refl _, hbq⟩
    · have hqv : q ≤ v := by omega
      have hb' : b ∈ q :: rest := by
        rcases List.mem_cons.1 hb with rfl | hb'
        · -- b = p ≤ q ≤ v ≤ b, so b = q
          have : b = q := by omega
          subst this; simp
        · exact hb'
      rcases List.mem_cons.1 ha with rfl | ha'
      · obtain ⟨s, hs1, h1, h2, h3, h4⟩ := ih hs.2 (a := q) (b := b) (v := v) (by simp) hb' hqv hvb
        exact ⟨s, by simp only [elementary]; exact List.mem_cons_of_mem _ (List.mem_cons_of_mem _ hs1),
          h1, h2, by omega, h4⟩
      · obtain ⟨s, hs1, h1, h2, h3, h4⟩ := ih hs.2 ha' hb' hav hvb
        exact ⟨s, by simp only [elementary]; exact List.mem_cons_of_mem _ (List.mem_cons_of_mem _ hs1),
          h1, h2, h3, h4⟩

/-! ### tree build -/

theorem pairwise_hi_le_getLast {l : List Seg} (hp : l.Pairwise SegLE) (hne : l ≠ []) :
    ∀ x ∈ l, x.hi ≤ (l.getLast hne).hi := by
  induction l with
  | nil => exact absurd rfl hne
  | cons a t ih =>
    intro x hx
    rw [List.pairwise_cons] at hp
    cases t with
    | nil => simp at hx; subst hx; simp
    | cons b t' =>
      rw [List.getLast_cons (by simp)]
      rcases List.mem_cons.1 hx with rfl | hx
      · have hlast : (b :: t').getLast (by simp) ∈ b :: t' := List.getLast_mem _
        exact (hp.1 _ hlast).2
      · exact ih hp.2 (by simp) x hx

theorem insertNodes_fuel : ∀ (fuel : Nat) (leaves : List Seg), leaves ≠ [] → leaves.length ≤ fuel →
    ∃ n, insertNodes fuel leaves = some n := by
  intro fuel
  induction fuel with
  | zero => intro leaves hne hlen; cases leaves <;> simp_all
  | succ f ih =>
    intro leaves hne hlen
    match leaves, hne with
    | [s], _ => exact ⟨_, rfl⟩
    | s :: s' :: rest, _ =>
      have hlen' : rest.length + 2 ≤ f + 1 := by simpa using hlen
      have hc1 : 1 ≤ (s :: s' :: rest).length / 2 := by simp; omega
      have hc2 : (s :: s' :: rest).length / 2 < (s :: s' :: rest).length := by simp; omega
      obtain ⟨l, hl⟩ := ih ((s :: s' :: rest).take ((s :: s' :: rest).length / 2))
        (by intro h; have := congrArg List.length h; simp at this; omega)
        (by rw [List.length_take]; simp; omega)
      obtain ⟨r, hr⟩ := ih ((s :: s' :: rest).drop ((s :: s' :: rest).length / 2))
        (by intro h; have := congrArg List.length h; rw [List.length_drop] at this; simp at this; omega)
        (by rw [List.length_drop]; simp; omega)
      simp only [insertNodes]
      rw [hl, hr]
      exact ⟨_, rfl⟩

/-- Every interval stored at a node contains the node's segment and comes from `base`. -/
def Node.Sound (base : List Interval) : Node → Prop
  | .leaf s ov => ∀ iv ∈ ov, iv ∈ base ∧ iv.lo ≤ s.lo ∧ s.hi ≤ iv.hi
  | .node s ov l r => (∀ iv ∈ ov, iv ∈ base ∧ iv.lo ≤ s.lo ∧ s.hi ≤ iv.hi) ∧ l.Sound base ∧ r.Sound base

/-- A root-to-leaf route along which a stabbing query for `v` is never pruned and the
insertion of `[lo,hi]` never stops before it has stored the interval. -/
def Node.Path (v lo hi : Nat) : Node → Prop
  | .leaf s _ => s.lo ≤ v ∧ v ≤ s.hi ∧ lo ≤ s.lo ∧ s.hi ≤ hi
  | .node s _ l r => s.lo ≤ v ∧ v ≤ s.hi ∧
      ((lo ≤ s.lo ∧ s.hi ≤ hi) ∨ (l.seg.intersectsWith lo hi = true ∧ l.Path v lo hi) ∨
        (r.seg.intersectsWith lo hi = true ∧ r.Path v lo hi))

theorem insertNodes_sound (base : List Interval) : ∀ (fuel : Nat) (leaves : List Seg) (n : Node),
    insertNodes fuel leaves = some n → n.Sound base := by
  intro fuel
  induction fuel with
  | zero => intro leaves n h; simp [insertNodes] at h
  | succ f ih =>
    intro leaves n h
    match leaves with
    | [] => simp [insertNodes] at h
    | [s] => simp [insertNodes] at h; subst h; simp [Node.Sound]
    | s :: s' :: rest =>
      simp only [insertNodes] at h
      split at h
      · rename_i l r hl hr
        cases h
        exact ⟨by simp, ih _ _ hl, ih _ _ hr⟩
      · cases h

theorem insertNodes_path (v lo hi : Nat) : ∀ (fuel : Nat) (leaves : List Seg) (n : Node),
    leaves.Pairwise SegLE → insertNodes fuel leaves = some n →
    (∀ x ∈ leaves, n.seg.lo ≤ x.lo ∧ x.hi ≤ n.seg.hi) ∧
    (∀ L ∈ leaves, L.lo ≤ v → v ≤ L.hi → lo ≤ L.lo → L.hi ≤ hi → n.Path v lo hi) := by
  intro fuel
  induction fuel with
  | zero => intro leaves n _ h; simp [insertNodes] at h
  | succ f ih =>
    intro leaves n hp h
    match leaves with
    | [] => simp [insertNodes] at h
    | [s] =>
      simp [insertNodes] at h; subst h
      refine ⟨by simp [Node.seg], ?_⟩
      intro L hL h1 h2 h3 h4
      simp at hL; subst hL
      exact ⟨h1, h2, h3, h4⟩
    | s :: s' :: rest =>
      simp only [insertNodes] at h
      split at h
      · rename_i l r hl hr
        cases h
        have hpt := hp.sublist (List.take_sublist ((s :: s' :: rest).length / 2) _)
        have hpd := hp.sublist (List.drop_sublist ((s :: s' :: rest).length / 2) _)
        obtain ⟨hlh, hlp⟩ := ih _ _ hpt hl
        obtain ⟨hrh, hrp⟩ := ih _ _ hpd hr
        have hhull : ∀ x ∈ s :: s' :: rest, s.lo ≤ x.lo ∧
            x.hi ≤ ((s :: s' :: rest).getLast (by simp)).hi := by
          intro x hx
          refine ⟨?_, pairwise_hi_le_getLast hp (by simp) x hx⟩
          rcases List.mem_cons.1 hx with rfl | hx'
          · exact Nat.le_refl _
          · exact ((List.pairwise_cons.1 hp).1 x hx').1
        refine ⟨by simpa [Node.seg] using hhull, ?_⟩
        intro L hL h1 h2 h3 h4
        have hLh := hhull L hL
        refine ⟨by simp only; omega, by simp only; omega, Or.inr ?_⟩
        rw [← List.take_append_drop ((s :: s' :: rest).length / 2) (s :: s' :: rest)] at hL
        rcases List.mem_append.1 hL with hL | hL
        · left
          have := hlh L hL
          refine ⟨?_, hlp L hL h1 h2 h3 h4⟩
          simp [Seg.intersectsWith]; omega
        · right
          have := hrh L hL
          refine ⟨?_, hrp L hL h1 h2 h3 h4⟩
          simp [Seg.intersectsWith]; omega
      · cases h

/-! ### insertInterval / querySingle -/

@[simp] theorem seg_insertInterval (iv : Interval) (n : Node) : (n.insertInterval iv).seg = n.seg := by
  cases n with
  | leaf s ov => simp only [Node.insertInterval]; split <;> rfl
  | node s ov l r => simp only [Node.insertInterval]; split <;> rfl

theorem sound_insertInterval {base : List Interval} {iv : Interval} (hiv : iv ∈ base) :
    ∀ n : Node, n.Sound base → (n.insertInterval iv).Sound base := by
  intro n
  induction n with
  | leaf s ov =>
    intro h
    simp only [Node.insertInterval]
    split
    · rename_i hsub
      simp [Seg.subsetOf] at hsub
      intro x hx
      rcases List.mem_append.1 hx with hx | hx
      · exact h x hx
      · simp at hx; subst hx; exact ⟨hiv, hsub.1, hsub.2⟩
    · exact h
  | node s ov l r ihl ihr =>
    intro h
    obtain ⟨h1, h2, h3⟩ := h
    simp only [Node.insertInterval]
    split
    · rename_i hsub
      simp [Seg.subsetOf] at hsub
      refine ⟨?_, h2, h3⟩
      intro x hx
      rcases List.mem_append.1 hx with hx | hx
      · exact h1 x hx
      · simp at hx; subst hx; exact ⟨hiv, hsub.1, hsub.2⟩
    · refine ⟨h1, ?_, ?_⟩
      · split
        · exact ihl h2
        · exact h2
      · split
        · exact ihr h3
        · exact h3

theorem query_sound {base : List Interval} {v : Nat} : ∀ n : Node, n.Sound base →
    ∀ x ∈ n.querySingle v v, x ∈ base ∧ x.lo ≤ v ∧ v ≤ x.hi := by
  intro n
  induction n with
  | leaf s ov =>
    intro h x hx
    simp only [Node.querySingle] at hx
    split at hx
    · cases hx
    · rename_i hd
      simp [Seg.disjoint] at hd
      have := h x hx
      exact ⟨this.1, by omega, by omega⟩
  | node s ov l r ihl ihr =>
    intro h x hx
    obtain ⟨h1, h2, h3⟩ := h
    simp only [Node.querySingle] at hx
    split at hx
    · cases hx
    · rename_i hd
      simp [Seg.disjoint] at hd
      rcases List.mem_append.1 hx with hx | hx
      · rcases List.mem_append.1 hx with hx | hx
        · have := h1 x hx
          exact ⟨this.1, by omega, by omega⟩
        · exact ihr h3 x hx
      · exact ihl h2 x hx

theorem path_insertInterval {v lo hi : Nat} (iv : Interval) :
    ∀ n : Node, n.Path v lo hi → (n.insertInterval iv).Path v lo hi := by
  intro n
  induction n with
  | leaf s ov =>
    intro h
    simp only [Node.insertInterval]
    split <;> exact h
  | node s ov l r ihl ihr =>
    intro h
    simp only [Node.insertInterval]
    split
    · exact h
    · obtain ⟨h1, h2, h3⟩ := h
      refine ⟨h1, h2, ?_⟩
      rcases h3 with h3 | ⟨hi1, hp⟩ | ⟨hi1, hp⟩
      · exact Or.inl h3
      · refine Or.inr (Or.inl ?_)
        split
        · exact ⟨by simpa using hi1, ihl hp⟩
        · exact ⟨hi1, hp⟩
      · refine Or.inr (Or.inr ?_)
        split
        · exact ⟨by simpa using hi1, ihr hp⟩
        · exact ⟨hi1, hp⟩

theorem hit_insertInterval_mono {v : Nat} (iv x : Interval) :
    ∀ n : Node, x ∈ n.querySingle v v → x ∈ (n.insertInterval iv).querySingle v v := by
  intro n
  induction n with
  | leaf s ov =>
    intro h
    simp only [Node.querySingle] at h
    split at h
    · cases h
    · rename_i hd
      simp only [Node.insertInterval]
      split
      · simp only [Node.querySingle, hd]
        exact List.mem_append_left _ h
      · simp only [Node.querySingle, hd]
        exact h
  | node s ov l r ihl ihr =>
    intro h
    simp only [Node.querySingle] at h
    split at h
    · cases h
    · rename_i hd
      simp only [Node.insertInterval]
      split
      · simp only [Node.querySingle, hd]
        rcases List.mem_append.1 h with h | h
        · rcases List.mem_append.1 h with h | h
          · simp [h]
          · simp [h]
        · simp [h]
      · simp only [Node.querySingle, hd]
        rcases List.mem_append.1 h with h | h
        · rcases List.mem_append.1 h with h | h
          · simp [h]
          · have : x ∈ (if r.seg.intersectsWith iv.lo iv.hi = true then r.insertInterval iv else r).querySingle v v := by
              split
              · exact ihr h
              · exact h
            simp [this]
        · have : x ∈ (if l.seg.intersectsWith iv.lo iv.hi = true then l.insertInterval iv else l).querySingle v v := by
            split
            · exact ihl h
            · exact h
          simp [this]

theorem hit_insertInterval {v : Nat} (iv : Interval) :
    ∀ n : Node, n.Path v iv.lo iv.hi → iv ∈ (n.insertInterval iv).querySingle v v := by
  intro n
  induction n with
  | leaf s ov =>
    intro h
    obtain ⟨h1, h2, h3, h4⟩ := h
    have hsub : s.subsetOf iv.lo iv.hi = true := by simp [Seg.subsetOf]; omega
    have hd : s.disjoint v v = false := by simp [Seg.disjoint]; omega
    simp [Node.insertInterval, hsub, Node.querySingle, hd]
  | node s ov l r ihl ihr =>
    intro h
    obtain ⟨h1, h2, h3⟩ := h
    have hd : s.disjoint v v = false := by simp [Seg.disjoint]; omega
    simp only [Node.insertInterval]
    split
    · simp [Node.querySingle, hd]
    · simp only [Node.querySingle, hd]
      rename_i hns
      rcases h3 with h3 | ⟨hi1, hp⟩ | ⟨hi1, hp⟩
      · exfalso; apply hns; simp [Seg.subsetOf]; omega
      · have := ihl hp
        simp [hi1, this]
      · have := ihr hp
        simp [hi1, this]

theorem sound_foldl {base : List Interval} : ∀ (ivs : List Interval) (n : Node),
    (∀ iv ∈ ivs, iv ∈ base) → n.Sound base →
    (ivs.foldl (fun n iv => n.insertInterval iv) n).Sound base := by
  intro ivs
  induction ivs with
  | nil => intro n _ h; exact h
  | cons a t ih =>
    intro n hm h
    exact ih _ (fun iv hiv => hm iv (List.mem_cons_of_mem _ hiv))
      (sound_insertInterval (hm a (by simp)) n h)

theorem hit_foldl_mono {v : Nat} {x : Interval} : ∀ (ivs : List Interval) (n : Node),
    x ∈ n.querySingle v v → x ∈ (ivs.foldl (fun n iv => n.insertInterval iv) n).querySingle v v := by
  intro ivs
  induction ivs with
  | nil => intro n h; exact h
  | cons a t ih => intro n h; exact ih _ (hit_insertInterval_mono a x n h)

theorem hit_foldl {v : Nat} {x : Interval} : ∀ (ivs : List Interval) (n : Node),
    x ∈ ivs → n.Path v x.lo x.hi →
    x ∈ (ivs.foldl (fun n iv => n.insertInterval iv) n).querySingle v v := by
  intro ivs
  induction ivs with
  | nil => intro n h; cases h
  | cons a t ih =>
    intro n hx hp
    by_cases hxa : x = a
    · subst hxa
      exact hit_foldl_mono t _ (hit_insertInterval x n hp)
    · rcases List.mem_cons.1 hx with h | h
      · exact absurd h hxa
      · exact ih _ h (path_insertInterval a n hp)

/-! ### base list produced by repeated `AddRange` -/

theorem addRanges_base : ∀ (ranges : List (Nat × Nat)) (t : Stree),
    ((ranges.foldl (fun t r => t.addRange r.1 r.2) t).base.map fun iv => (iv.lo, iv.hi)) =
      (t.base.map fun iv => (iv.lo, iv.hi)) ++ ranges ∧
    (ranges.foldl (fun t r => t.addRange r.1 r.2) t).root = t.root := by
  intro ranges
  induction ranges with
  | nil => intro t; simp
  | cons r rs ih =>
    intro t
    obtain ⟨h1, h2⟩ := ih (t.addRange r.1 r.2)
    simp only [List.foldl_cons]
    rw [h1, h2]
    simp [Stree.addRange]

/-- The key result on the model: whatever ranges were added, `build` does not panic and the
built tree answers `contains` exactly like a linear scan of the base intervals. -/
theorem build_contains (t : Stree) (hroot : t.root = none) :
    ∃ t', t.build = some t' ∧ ∀ v, t'.contains v = true ↔ ∃ iv ∈ t.base, iv.lo ≤ v ∧ v ≤ iv.hi := by
  unfold Stree.build
  by_cases hb : t.base.isEmpty = true
  · rw [if_pos hb]
    refine ⟨t, rfl, fun v => ?_⟩
    have : t.base = [] := List.isEmpty_iff.1 hb
    simp [Stree.contains, Stree.query, hroot, this]
  · rw [if_neg hb]
    have hne : t.base ≠ [] := by intro h; apply hb; simp [h]
    have hne' : t.base.map (·.lo) ++ t.base.map (·.hi) ≠ [] := by
      cases hbb : t.base with
      | nil => exact absurd hbb hne
      | cons a b => simp
    obtain ⟨es, hes, hesne⟩ := dedup_isSome hne'
    obtain ⟨hsorted, hmem⟩ := dedup_spec hes
    have hend : ∃ mn mx, endpoints t.base = some (es, mn, mx) := by
      unfold endpoints
      rw [hes]
      cases es with
      | nil => exact absurd rfl hesne
      | cons e es' => exact ⟨_, _, rfl⟩
    obtain ⟨mn, mx, hend⟩ := hend
    rw [hend]
    simp only
    have hlne := elementary_ne_nil hesne
    obtain ⟨root, hroot'⟩ := insertNodes_fuel (elementary es).length (elementary es) hlne (Nat.le_refl _)
    rw [hroot']
    simp only
    refine ⟨_, rfl, fun v => ?_⟩
    have hq : ∀ l : List Interval, (!l.isEmpty) = true ↔ 0 < l.length := by
      intro l; cases l <;> simp
    simp only [Stree.contains, Stree.query]
    rw [hq]
    constructor
    · intro hlen
      have hs0 := insertNodes_sound t.base _ _ _ hroot'
      have hs1 := sound_foldl t.base root (fun _ h => h) hs0
      obtain ⟨x, hx⟩ := List.exists_mem_of_length_pos hlen
      have := query_sound _ hs1 x hx
      exact ⟨x, this.1, this.2.1, this.2.2⟩
    · rintro ⟨iv, hiv, h1, h2⟩
      have hlo : iv.lo ∈ es := (hmem _).2 (by simp; left; exact ⟨iv, hiv, rfl⟩)
      have hhi : iv.hi ∈ es := (hmem _).2 (by simp; right; exact ⟨iv, hiv, rfl⟩)
      obtain ⟨L, hL, g1, g2, g3, g4⟩ := elementary_cover hsorted hlo hhi h1 h2
      have hpath := (insertNodes_path v iv.lo iv.hi _ _ _ (elementary_pairwise hsorted) hroot').2
        L hL g1 g2 g3 g4
      have := hit_foldl t.base root hiv hpath
      exact List.length_pos_of_mem this

end Rain.STree
