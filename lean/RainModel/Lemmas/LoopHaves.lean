import RainModel.Lemmas.LoopStr
import RainModel.Lemmas.LoopPeers
import RainModel.Lemmas.LoopNoPanic
/-!
`reported_only_verified`: the `have` messages of a completed write, and the bitfield a new peer is sent,
only name pieces whose verified bytes are on disk.
-/
namespace Rain.Loop

/-- An interest message (never a `have`). -/
def IsInterest (msg : String) : Prop := msg = "interested" ∨ msg = "notinterested"

theorem IsInterest.not_have {msg : String} (h : IsInterest msg) (i : Nat) : msg ≠ haveMsg i := by
  rcases h with rfl | rfl
  · exact interested_ne_have i
  · exact notinterested_ne_have i

theorem updateInterested_outs (m : M) (k : Nat) :
    ∀ o ∈ (updateInterested m k).2, o ∈ m.2 ∨ IsInterest o.msg := by
  unfold updateInterested
  dsimp only
  repeat' split
  all_goals first
    | exact fun o ho => Or.inl ho
    | (intro o ho
       simp only [send_snd, onSt_snd, List.mem_append, List.mem_singleton] at ho
       rcases ho with ho | rfl
       · exact Or.inl ho
       · exact Or.inr (by simp [IsInterest]))

theorem pwdHaves_outs (m : M) (w : WriteJob) :
    ∀ o ∈ (pwdHaves m w).2, o ∈ m.2 ∨ IsInterest o.msg ∨ o.msg = haveMsg w.piece := by
  unfold pwdHaves
  apply foldl_inv (fun x : M => ∀ o ∈ x.2, o ∈ m.2 ∨ IsInterest o.msg ∨ o.msg = haveMsg w.piece)
  · intro x p hx o ho
    dsimp only at ho
    split at ho
    · rcases updateInterested_outs x p.k o ho with h | h
      · exact hx o h
      · exact Or.inr (Or.inl h)
    · simp only [send_snd, List.mem_append, List.mem_singleton] at ho
      rcases ho with ho | rfl
      · rcases updateInterested_outs x p.k o ho with h | h
        · exact hx o h
        · exact Or.inr (Or.inl h)
      · exact Or.inr (Or.inr rfl)
  · exact fun o ho => Or.inl ho

theorem pwdFinish_snd (m : M) : (pwdFinish m).2 = m.2 := by
  unfold pwdFinish
  dsimp only
  repeat' split
  all_goals simp

theorem pwdOthers_snd (m : M) (w : WriteJob) : (pwdOthers m w).2 = m.2 := by
  unfold pwdOthers
  apply foldl_keep (fun x : M => x.2)
  intro x k; simp

theorem pwdSet_snd (m : M) (w : WriteJob) (b : List Bool) : (pwdSet m w b).2 = m.2 := by
  unfold pwdSet; dsimp only; split <;> simp

/-- What `handlePieceWriteDone` sends: interest updates, and `have:piece` only on the verified path of a result
that is still current. -/
theorem handlePieceWriteDone_outs (m : M) (w : WriteJob) (e : Bool) :
    ∀ o ∈ (handlePieceWriteDone m w e).2, o ∈ m.2 ∨ IsInterest o.msg ∨
      (o.msg = haveMsg w.piece ∧ w.good = true ∧ e = false ∧ w.gen = m.1.gen ∧ m.1.loaded = true) := by
  rw [handlePieceWriteDone_eq]
  dsimp only
  split
  · intro o ho; left; simpa [pwdBan, pwdReset] using ho
  · next hg =>
    split
    · intro o ho; left; simpa [pwdReset] using ho
    · next hst =>
      simp only [Bool.or_eq_true, ne_eq, decide_eq_true_eq, Bool.not_eq_true', not_or, Decidable.not_not,
        Bool.not_eq_false] at hst
      split
      · intro o ho; left; simpa [pwdReset] using ho
      · next he =>
        split
        · intro o ho; left; simpa [pwdReset, pwdDone] using ho
        · intro o ho
          unfold pwdOk at ho
          rw [pwdFinish_snd] at ho
          rcases pwdHaves_outs _ w o ho with h | h | h
          · left; simpa [pwdOthers_snd, pwdSet_snd, pwdReset, pwdDone] using h
          · exact Or.inr (Or.inl h)
          · exact Or.inr (Or.inr ⟨h, by simpa using hg, by simpa using he, by simpa using hst.1, by simpa using hst.2⟩)

/-- A `have` sent by `handlePieceWriteDone` names a piece whose verified bytes are on disk, provided a good,
current, error-free result means that. -/
theorem handlePieceWriteDone_haves (m : M) (w : WriteJob) (e : Bool)
    (hok : w.good = true → e = false → w.gen = m.1.gen → m.1.loaded = true → m.1.diskOKi w.piece = true) :
    ∀ o ∈ (handlePieceWriteDone m w e).2, o ∈ m.2 ∨
      ∀ i, o.msg = haveMsg i → (handlePieceWriteDone m w e).1.diskOKi i = true := by
  intro o ho
  rcases handlePieceWriteDone_outs m w e o ho with h' | h' | ⟨h1, hg, he, h3, h4⟩
  · exact Or.inl h'
  · exact Or.inr (fun i hi => absurd hi (h'.not_have i))
  · refine Or.inr (fun i hi => ?_)
    have : i = w.piece := haveMsg_inj (hi.symm.trans h1)
    subst this
    exact diskOKi_mono (handlePieceWriteDone_adv m w e hok).cfg (handlePieceWriteDone_adv m w e hok).bad _ (hok hg he h3 h4)

/-- **A `have` sent on completion of a write names a piece whose verified bytes are on disk.** -/
theorem writerRun_haves (m : M) (w : WriteJob) (h : Sound0 m.1) :
    ∀ o ∈ (writerRun m w).2, o ∈ m.2 ∨ ∀ i, o.msg = haveMsg i → (writerRun m w).1.diskOKi i = true := by
  unfold writerRun
  split
  · next hg => exact handlePieceWriteDone_haves m w false (fun hg' => by simp [hg'] at hg)
  · dsimp only
    split
    · next hsecs =>
      refine handlePieceWriteDone_haves m _ false fun hg _ _ _ => diskOKi_of_no_data m.1 h.bad _ (fun sc hsc => ?_) ?_
      · have : sc ∉ (m.1.cfg.sections w.piece).filter fun sc => !(m.1.cfg.fpads.getD sc.file false) := by
          rw [hsecs]; exact List.not_mem_nil
        simp only [List.mem_filter, hsc, true_and] at this
        simp at this
        simp [Cfg.isData, this]
      · simp only [Bool.and_eq_true] at hg
        exact hg.2
    · next sc l hsecs =>
      split
      · intro o ho
        rcases handlePieceWriteDone_haves _ w true (fun _ h => by cases h) o ho with h' | h'
        · exact Or.inl (by simpa using h')
        · exact Or.inr h'
      · split
        · intro o ho
          rcases handlePieceWriteDone_haves _ w true (fun _ h => by cases h) o ho with h' | h'
          · exact Or.inl (by simpa using h')
          · exact Or.inr h'
        · split
          · intro o ho; exact Or.inl (by simpa using ho)
          · intro o ho
            rcases handlePieceWriteDone_haves _ w false
              (fun _ _ _ _ => written_diskOKi m.1 w.piece sc l hsecs _ (by simp) (by simp)) o ho with h' | h'
            · exact Or.inl (by simpa using h')
            · exact Or.inr h'

/-- **The bitfield a new peer is sent is the client's bitfield**: `haveall` only if every bit is set,
`havenone` only if none is, otherwise the bitfield itself — so under `BitsSound` it names only verified
pieces. -/
theorem firstMessages_bitfield (s : St) (p : Peer) (b : List Bool) (hb : s.bf = some b) :
    firstMessages s p = (if p.fast && allTrue b && !b.isEmpty then ["haveall"]
      else if p.fast && !(b.any id) then ["havenone"] else ["bitfield:" ++ bitsHex b]) ++
      (if p.ext then ["exths"] else []) := by
  unfold firstMessages
  simp [hb]

theorem firstMessages_none (s : St) (p : Peer) (hb : s.bf = none) :
    firstMessages s p = (if p.fast then ["havenone"] else []) ++ (if p.ext then ["exths"] else []) := by
  unfold firstMessages
  simp [hb]

/-! ### the haves after a verification -/

theorem hvdHaves_outs (m : M) :
    ∀ o ∈ (hvdHaves m).2, o ∈ m.2 ∨ IsInterest o.msg ∨ ∃ i, o.msg = haveMsg i ∧ m.1.diskOK.getD i false = true := by
  unfold hvdHaves
  dsimp only
  apply foldl_inv (fun x : M => ∀ o ∈ x.2, o ∈ m.2 ∨ IsInterest o.msg ∨
    ∃ i, o.msg = haveMsg i ∧ m.1.diskOK.getD i false = true)
  · intro x p hx o ho
    rcases updateInterested_outs _ p.k o ho with h | h
    · -- the inner fold of sends
      have key : ∀ (l : List Nat) (y : M), (∀ i ∈ l, m.1.diskOK.getD i false = true) →
          (∀ o ∈ y.2, o ∈ m.2 ∨ IsInterest o.msg ∨ ∃ i, o.msg = haveMsg i ∧ m.1.diskOK.getD i false = true) →
          ∀ o ∈ (l.foldl (fun m i => send m p.k s!"have:{i}") y).2,
            o ∈ m.2 ∨ IsInterest o.msg ∨ ∃ i, o.msg = haveMsg i ∧ m.1.diskOK.getD i false = true := by
        intro l
        induction l with
        | nil => intro y _ hy; exact hy
        | cons a l ih =>
          intro y hl hy
          simp only [List.foldl_cons]
          apply ih _ (fun i hi => hl i (List.mem_cons_of_mem _ hi))
          intro o ho
          simp only [send_snd, List.mem_append, List.mem_singleton] at ho
          rcases ho with ho | rfl
          · exact hy o ho
          · exact Or.inr (Or.inr ⟨a, rfl, hl a (List.mem_cons_self ..)⟩)
      exact key _ x (fun i hi => by simpa using (List.mem_filter.1 hi).2) hx o h
    · exact Or.inr (Or.inl h)
  · exact fun o ho => Or.inl ho

/-- Replaying queued messages only sends interest updates. -/
theorem handlePeerMessage_needsInfo_outs (m : M) (k : Nat) (msg : Msg) (hm : needsInfo msg = true) :
    ∀ o ∈ (handlePeerMessage m k msg).2, o ∈ m.2 ∨ IsInterest o.msg := by
  have hfold : ∀ (l : List Nat) (f : M → Nat → M), (∀ x i, (f x i).2 = x.2) → ∀ y : M, (l.foldl f y).2 = y.2 := by
    intro l f hf y
    exact foldl_keep (fun x : M => x.2) f hf l y
  cases msg
  case «have» i =>
    unfold handlePeerMessage
    dsimp only
    repeat' split
    all_goals first
      | (intro o ho; left; simpa using ho)
      | (intro o ho
         simp only [onSt_snd] at ho
         rcases updateInterested_outs _ k o ho with h | h
         · left; unfold haveOne at h; split at h <;> simpa using h
         · exact Or.inr h)
  case bitfield bits nb =>
    unfold handlePeerMessage
    dsimp only
    repeat' split
    all_goals first
      | (intro o ho; left; simpa using ho)
      | (intro o ho
         simp only [onSt_snd] at ho
         rcases updateInterested_outs _ k o ho with h | h
         · left
           rw [hfold] at h
           · exact h
           · intro x i; split
             · unfold haveOne; split <;> simp
             · rfl
         · exact Or.inr h)
  case haveAll =>
    unfold handlePeerMessage
    dsimp only
    repeat' split
    all_goals first
      | (intro o ho; left; simpa using ho)
      | (intro o ho
         simp only [onSt_snd] at ho
         rcases updateInterested_outs _ k o ho with h | h
         · left
           rw [hfold] at h
           · exact h
           · intro x i; unfold haveOne; split <;> simp
         · exact Or.inr h)
  case allowedFast i =>
    unfold handlePeerMessage
    dsimp only
    repeat' split
    all_goals (intro o ho; left; simpa using ho)
  all_goals simp [needsInfo] at hm

theorem processQueued_outs (m : M) (h : QueueOK m.1) :
    ∀ o ∈ (processQueued m).2, o ∈ m.2 ∨ IsInterest o.msg := by
  have key := foldl_inv (fun x : M => QueueOK x.1 ∧ ∀ o ∈ x.2, o ∈ m.2 ∨ IsInterest o.msg)
    (fun (m : M) (k : Nat) =>
      match m.1.findPeer k with
      | none => m
      | some p =>
        let m := onSt m (·.updPeer k fun p => { p with queued := [] })
        p.queued.foldl (fun m msg => if (m.1.findPeer k).isSome then handlePeerMessage m k msg else m) m)
    (by
      intro x k ⟨hq, hx⟩
      split
      · exact ⟨hq, hx⟩
      · next p hp =>
        have hpq : ∀ msg ∈ p.queued, needsInfo msg = true := hq p (List.mem_of_find?_eq_some hp)
        dsimp only
        refine foldl_inv_mem (fun y : M => QueueOK y.1 ∧ ∀ o ∈ y.2, o ∈ m.2 ∨ IsInterest o.msg) p.queued _ ?_ _ ?_
        · intro y msg hmsg ⟨hy1, hy2⟩
          split
          · refine ⟨(handlePeerMessage_needsInfo y k msg (hpq msg hmsg) hy1).2, fun o ho => ?_⟩
            rcases handlePeerMessage_needsInfo_outs y k msg (hpq msg hmsg) o ho with h' | h'
            · exact hy2 o h'
            · exact Or.inr h'
          · exact ⟨hy1, hy2⟩
        · refine ⟨?_, by simpa using hx⟩
          simp only [onSt_fst]
          exact hq.updPeer k _ (fun _ _ msg hmsg => by cases hmsg))
    (m.1.peers.map (·.k)) m ⟨h, fun o ho => Or.inl ho⟩
  exact key.2

theorem hvdInstall_snd (m : M) : (hvdInstall m).2 = m.2 := by
  unfold hvdInstall; simp

theorem hadCheck_outs (m : M) (h : QueueOK m.1) : ∀ o ∈ (hadCheck m).2, o ∈ m.2 ∨ IsInterest o.msg := by
  unfold hadCheck
  dsimp only
  split
  · intro o ho; left; simpa using ho
  · unfold hadReady
    intro o ho
    simp only [onSt_snd] at ho
    exact processQueued_outs (m.1.checkCompletion.1, m.2) h.checkCompletion o ho

/-- **The `have`s sent after a verification name only pieces the verifier found on disk.** -/
theorem handleVerificationDone_haves (m : M) (h : QueueOK m.1) :
    ∀ o ∈ (handleVerificationDone m).2,
      o ∈ m.2 ∨ ∀ i, o.msg = haveMsg i → (handleVerificationDone m).1.diskOKi i = true := by
  intro o ho
  rw [handleVerificationDone_eq] at ho
  dsimp only at ho
  split at ho
  · left; simpa [hvdInstall_snd] using ho
  · have hq0 : QueueOK (hvdInstall m).1 := h.of_peers (by simp)
    have hq1 : QueueOK (hvdHaves (hvdInstall m)).1 := by
      unfold hvdHaves
      dsimp only
      apply foldl_inv (fun x : M => QueueOK x.1)
      · intro x p hx
        apply updateInterested_queueOK
        exact hx.of_peers (by simp)
      · exact hq0
    rcases hadCheck_outs _ hq1 o ho with h1 | h1
    · rcases hvdHaves_outs _ o h1 with h2 | h2 | ⟨i, hi, hd⟩
      · left; simpa [hvdInstall_snd] using h2
      · exact Or.inr (fun i hi => absurd hi (h2.not_have i))
      · refine Or.inr (fun j hj => ?_)
        have : j = i := haveMsg_inj (hj.symm.trans hi)
        subst this
        have hd' : m.1.diskOK.getD j false = true := by simpa using hd
        have := ((diskOK_getD m.1 j).1 hd').2
        simpa using this
    · exact Or.inr (fun i hi => absurd hi (h1.not_have i))

end Rain.Loop
