import RainModel.Lemmas.LoopWInvWork
import RainModel.Lemmas.LoopMeta
import RainModel.Lemmas.LoopAdmI
/-!
`WInv` (end) and C04 `no_panic`: `handle`, the workers, the parked message, `step`, the adoption of the
implementation's choices (`reconcile`, `reconcileIdl`), whole histories.  The inductive invariant is
`Full = Life ∧ CompInv ∧ WInv`; under it no op reaches a panic site (`step_no_panic`).
-/
namespace Rain.Loop

/-- The loop invariant of `no_panic`. -/
structure Full (s : St) : Prop where
  life : Life s
  comp : CompInv s
  w : WInv s

/-- A current job on loaded pieces finds a bitfield in which its piece is not yet set. -/
theorem Full.cur_bit {s : St} (h : Full s) {w : WriteJob} (hw : s.writing = some w) (hg : w.gen = s.gen)
    (hl : s.loaded = true) : ∃ b, s.bf = some b ∧ b.getD w.piece false = false := by
  obtain ⟨hv, hbit⟩ := h.w.wc w hw hg hl
  have hr : s.errC = true ∧ s.stopAnn = false := by
    cases he' : s.errC <;> cases hs : s.stopAnn <;> simp
    all_goals
      have := (h.life.idle (by simp [he', hs])).2.2.1
      rw [hl] at this; cases this
  have hal : s.allocator = false := by
    cases ha : s.allocator
    · rfl
    · have := h.w.al ha; rw [hl] at this; cases this
  have hinfo : s.info = true := by
    cases hi : s.info
    · have := (h.life.ni hi).2.2.1; rw [hl] at this; cases this
    · rfl
  have hbf := h.comp.run hr.1 hr.2 hal hv hinfo
  cases hb : s.bf with
  | none => rw [hb] at hbf; cases hbf
  | some b => exact ⟨b, rfl, by simpa [hb] using hbit⟩

/-! ### no panic, handler by handler, under `Full` -/

theorem writerRun_no_panic' (m : M) (w : WriteJob) (h : Full m.1) (hw : m.1.writing = some w) :
    (writerRun m w).1.panicked = m.1.panicked :=
  writerRun_no_panic m w (fun _ hg hl => h.cur_bit hw hg hl) (fun hh => h.comp.cc ▸ hh)

/-- The delivery of a held result (`gate writeDone` released): ignored if stale, else the job's piece is not
yet held. -/
theorem handlePieceWriteDone_no_panic' (m : M) (w : WriteJob) (e : Bool) (h : Full m.1) (hw : m.1.writing = some w) :
    (handlePieceWriteDone m w e).1.panicked = m.1.panicked :=
  handlePieceWriteDone_no_panic m w e (fun _ _ hg hl => h.cur_bit hw hg hl) (fun hh => h.comp.cc ▸ hh)

theorem handlePieceMessage_no_panic' (m : M) (k i b l : Nat) (g : Bool) (h : WInv m.1) (hw : m.1.writing = none) :
    (handlePieceMessage m k i b l g).1.panicked = m.1.panicked := by
  by_cases hl : m.1.loaded = true
  · apply handlePieceMessage_no_panic
    cases hi : m.1.wflag.getD i false
    · rfl
    · obtain ⟨w, hw', _⟩ := h.wf hl i hi
      rw [hw] at hw'; cases hw'
  · unfold handlePieceMessage
    have : m.1.loaded = false := by simpa using hl
    simp [this]

theorem handleMetadataData_no_panic' (m : M) (k i len : Nat) (g : Bool) (h : Full m.1) :
    (handleMetadataData m k i len g).1.panicked = m.1.panicked := by
  cases hi : m.1.info
  · exact handleMetadataData_no_panic m k i len g (h.life.ni hi).1
  · unfold handleMetadataData
    simp [h.w.id hi]

/-! ### `handle` -/

theorem handle_winv (s : St) (p : Parked) (kn : Nat → Bool) (op : Op) (h : WInv s) (l : Life s) :
    WInv (handle s p kn op).1.1 := by
  unfold handle
  split
  · exact start_winv (s, []) h l
  · simp only [onSt_fst]
    exact (stop_winv { s with doVerify := false } false (h.frame (by wframe_eq))).frame (by wframe_eq)
  · simp only [onSt_fst]; exact stop_winv { s with doVerify := false } false (h.frame (by wframe_eq))
  · simp only [onSt_fst]
    exact (handleVerifyCommand_winv ({ s with persisted := none }, []) (h.frame (by wframe_eq))
      (l.congr (by lframe))).frame (by wframe_eq)
  · exact handleVerifyCommand_winv ({ s with persisted := none }, []) (h.frame (by wframe_eq)) (l.congr (by lframe))
  · exact h
  · exact h
  · exact h.frame (by wframe_eq)
  · exact h.frame (by wframe_eq)
  · split <;> exact h.frame (by wframe_eq)
  · split
    · exact h
    · exact h.frame (mutate_wframe _ _ _)
  · split
    · exact h
    · split
      · exact h
      · split
        next heq =>
        have hm := congrArg Prod.fst heq
        simp only at hm
        rw [← hm]
        exact h.frame (acceptPeer_wframe (s, []) _ _ _ _ _ _)
  · split
    · exact h
    · repeat' split
      all_goals first
        | exact h
        | (next hw => exact handlePieceMessage_winv (s, []) _ _ _ _ _ h (by
            cases hx : s.writing <;> simp_all))
  · split
    · exact h
    · next hnp _ => exact h.frame (handlePeerMessage_wframe (s, []) _ _ (fun i b l g he => hnp i b l g he))
  · split
    · exact h
    · exact h.frame (handleExtHandshake_wframe (s, []) _ _ _ _)
  · split
    · exact h
    · exact handleMetadataData_winv (s, []) _ _ _ _ h l
  · split
    · exact h
    · exact h.frame (handleMetadataReject_wframe (s, []) _)
  · repeat' split
    all_goals exact h
  · split
    · exact h
    · exact h.frame (handlePex_wframe (s, []) _ _)
  · exact h.frame (handleDhtPeers_wframe (s, []) _)
  · split
    · exact h
    · exact h.frame (closePeer_wframe s _)
  · split
    · exact h
    · exact h.frame (handlePeerSnubbed_wframe (s, []) _)

theorem handle_no_panic (s : St) (p : Parked) (kn : Nat → Bool) (op : Op) (h : Full s) :
    (handle s p kn op).1.1.panicked = s.panicked := by
  have hidle := h.life.idle
  unfold handle
  split
  · exact start_no_panic (s, []) (fun hh => ⟨(hidle hh).1, (hidle hh).2.1⟩)
  · simp only [onSt_fst]; exact stop_panicked { s with doVerify := false } false
  · simp only [onSt_fst]; exact stop_panicked { s with doVerify := false } false
  · simp only [onSt_fst]
    exact handleVerifyCommand_no_panic ({ s with persisted := none }, [])
      (fun hh => ⟨(hidle (Or.inl hh)).1, (hidle (Or.inl hh)).2.1⟩)
  · exact handleVerifyCommand_no_panic ({ s with persisted := none }, [])
      (fun hh => ⟨(hidle (Or.inl hh)).1, (hidle (Or.inl hh)).2.1⟩)
  · rfl
  · rfl
  · rfl
  · rfl
  · split <;> rfl
  · split
    · rfl
    · simp
  · split
    · rfl
    · split
      · rfl
      · split
        next heq =>
        have hm := congrArg Prod.fst heq
        simp only at hm
        rw [← hm]
        simp
  · split
    · rfl
    · repeat' split
      all_goals first
        | rfl
        | (next hw => exact handlePieceMessage_no_panic' (s, []) _ _ _ _ _ h.w (by
            cases hx : s.writing <;> simp_all))
  · split
    · rfl
    · next hnp _ =>
      exact handlePeerMessage_no_panic (s, []) _ _ (fun i b l g he => absurd he (fun he => hnp i b l g he))
  · split
    · rfl
    · simp
  · split
    · rfl
    · exact handleMetadataData_no_panic' (s, []) _ _ _ _ h
  · split
    · rfl
    · simp
  · repeat' split
    all_goals simp
  · split
    · rfl
    · simp
  · simp
  · split
    · rfl
    · simp
  · split
    · rfl
    · simp

theorem handle_full (s : St) (p : Parked) (kn : Nat → Bool) (op : Op) (h : Full s) : Full (handle s p kn op).1.1 :=
  ⟨handle_life s p kn op h.life, handle_comp s p kn op h.comp, handle_winv s p kn op h.w h.life⟩

/-! ### workers -/

theorem runWorkers_full (fuel : Nat) (m : M) (h : Full m.1) :
    Full (runWorkers fuel m).1 ∧ (m.1.panicked = none → (runWorkers fuel m).1.panicked = none) := by
  induction fuel generalizing m with
  | zero => exact ⟨h, fun hp => hp⟩
  | succ n ih =>
    unfold runWorkers
    dsimp only
    split
    · exact ⟨h, fun hp => hp⟩
    split
    · next hs =>
      simp only [Bool.and_eq_true] at hs
      have hi := h.life.idle (Or.inr hs.1)
      obtain ⟨f, np⟩ := ih (handleStopped m)
        ⟨handleStopped_life m h.life hs.1, handleStopped_comp m h.comp, handleStopped_winv m h.w h.life hs.1⟩
      exact ⟨f, fun hp => np (by rw [handleStopped_no_panic m ⟨hi.1, hi.2.1⟩]; exact hp)⟩
    split
    · next ha =>
      simp only [Bool.and_eq_true] at ha
      obtain ⟨f, np⟩ := ih (allocatorRun m)
        ⟨allocatorRun_life m h.life ha.1, allocatorRun_comp m h.comp, allocatorRun_winv m h.w h.life ha.1⟩
      exact ⟨f, fun hp => np (by rw [allocatorRun_no_panic m h.comp.cc h.w.q]; exact hp)⟩
    split
    · next hv =>
      simp only [Bool.and_eq_true] at hv
      obtain ⟨f, np⟩ := ih (handleVerificationDone m)
        ⟨handleVerificationDone_life m h.life hv.1, handleVerificationDone_comp m h.comp,
          handleVerificationDone_winv m h.w h.life hv.1⟩
      exact ⟨f, fun hp => np (handleVerificationDone_no_panic m h.comp.cc h.w.q hp)⟩
    split
    · next w hw =>
      split
      · split
        · obtain ⟨f, np⟩ := ih (handlePieceWriteDone m w false)
            ⟨handlePieceWriteDone_life m w false h.life, handlePieceWriteDone_comp m w false h.comp,
              handlePieceWriteDone_winv m w false h.w h.life h.comp hw⟩
          exact ⟨f, fun hp => np (by rw [handlePieceWriteDone_no_panic' m w false h hw]; exact hp)⟩
        · exact ⟨h, fun hp => hp⟩
      · split
        · obtain ⟨f, np⟩ := ih (writerRun m w)
            ⟨writerRun_life m w h.life, writerRun_comp m w h.comp, writerRun_winv m w h.w h.life h.comp hw⟩
          exact ⟨f, fun hp => np (by rw [writerRun_no_panic' m w h hw]; exact hp)⟩
        · exact ⟨h, fun hp => hp⟩
    · exact ⟨h, fun hp => hp⟩

/-! ### the parked message, `step` -/

theorem deliverParked_full (m : M) (p : Parked) (h : Full m.1) :
    Full (deliverParked m p).1.1 ∧ (m.1.panicked = none → (deliverParked m p).1.1.panicked = none) := by
  unfold deliverParked
  split
  · split
    · next hc =>
      simp only [Bool.and_eq_true, Option.isNone_iff_eq_none] at hc
      split
      · next hk =>
        have hr := h.life.running_of_peer hk
        obtain ⟨f, np⟩ := runWorkers_full 12 (handlePieceMessage m _ _ _ _ _)
          ⟨handlePieceMessage_life _ _ _ _ _ _ h.life hr, handlePieceMessage_comp _ _ _ _ _ _ h.comp,
            handlePieceMessage_winv _ _ _ _ _ _ h.w hc.1⟩
        exact ⟨f, fun hp => np (by rw [handlePieceMessage_no_panic' _ _ _ _ _ _ h.w hc.1]; exact hp)⟩
      · exact ⟨h, fun hp => hp⟩
    · exact ⟨h, fun hp => hp⟩
  · exact ⟨h, fun hp => hp⟩

/-- **The invariant is preserved by every event, and no event panics under it.** -/
theorem step_full (s : St) (p : Parked) (kn : Nat → Bool) (op : Op) (h : Full s) :
    Full (step s p kn op).1.st ∧ (s.panicked = none → (step s p kn op).1.st.panicked = none) := by
  unfold step
  have h0 : Full { s with sto := [], mayStart := [], closedDl := [], mayStartI := false } :=
    ⟨h.life.congr (by lframe), h.comp.of_frame rfl rfl rfl rfl rfl rfl rfl rfl, h.w.frame (by wframe_eq)⟩
  have h1 := handle_full _ p kn op h0
  have p1 := handle_no_panic _ p kn op h0
  obtain ⟨h2, p2⟩ := runWorkers_full 12 _ h1
  dsimp only
  split
  · obtain ⟨h3, p3⟩ := deliverParked_full _ (handle _ p kn op).2.2 h2
    exact ⟨h3, fun hp => p3 (p2 (by rw [p1]; exact hp))⟩
  · exact ⟨h2, fun hp => p2 (by rw [p1]; exact hp)⟩

/-! ### the implementation's choices -/

/-- What an error-free `reconcile` adopts: downloads the model already had, or admissible new ones — the
torrent is downloading, its pieces are loaded and the piece is not done. -/
theorem reconcile_dls (s : St) (impl : List ImplDl) (he : (reconcile s impl).2 = []) :
    ∀ d ∈ (reconcile s impl).1.dls, d ∈ s.dls ∨
      (s.status = .downloading ∧ s.loaded = true ∧ s.done.getD d.piece false = false) := by
  unfold reconcile at he ⊢
  dsimp only at he ⊢
  generalize hf : (fun (acc : List Dl × List String) (x : ImplDl) => _) = f at he ⊢
  have key : ∀ (l : List ImplDl) (acc : List Dl × List String),
      (acc.2 = [] → ∀ d ∈ acc.1, d ∈ s.dls ∨
        (s.status = .downloading ∧ s.loaded = true ∧ s.done.getD d.piece false = false)) →
      ((l.foldl f acc).2 = [] → ∀ d ∈ (l.foldl f acc).1, d ∈ s.dls ∨
        (s.status = .downloading ∧ s.loaded = true ∧ s.done.getD d.piece false = false)) := by
    intro l
    induction l with
    | nil => intro acc h; exact h
    | cons x l ih =>
      intro acc hacc
      apply ih
      subst hf
      dsimp only
      split
      · next d0 hd0 =>
        split
        · intro he d hd
          simp only [List.mem_append, List.mem_singleton] at hd
          rcases hd with hd | rfl
          · exact hacc he d hd
          · exact Or.inl (List.mem_of_find?_eq_some hd0)
        · intro he; simp at he
      · split
        · next hadm =>
          intro he d hd
          simp only [List.mem_append, List.mem_singleton] at hd
          rcases hd with hd | rfl
          · exact hacc he d hd
          · right
            unfold admissibleStart at hadm
            simp only [Bool.and_eq_true, decide_eq_true_eq] at hadm
            obtain ⟨⟨⟨⟨⟨a, b⟩, _⟩, c⟩, _⟩, _⟩ := hadm
            refine ⟨a, b, ?_⟩
            split at c
            · cases c
            · simp only [Bool.and_eq_true, Bool.not_eq_true', decide_eq_true_eq] at c
              exact c.1.1.1.2
        · intro he; simp at he
  have h2 : (impl.foldl f ([], [])).2 = [] := (List.append_eq_nil_iff.1 he).2
  intro d hd
  exact key impl ([], []) (fun _ d hd => by cases hd) h2 d hd

theorem reconcile_winv (s : St) (impl : List ImplDl) (h : WInv s) (he : (reconcile s impl).2 = []) :
    WInv (reconcile s impl).1 := by
  have hd := reconcile_dls s impl he
  refine ⟨?_, by simpa using h.wf, by simpa using h.wg,
    by simpa using h.wc, by simpa [St.n] using h.wl, by simpa using h.wd, by simpa using h.bd, ?_, ?_,
    by simpa using h.al, by simpa using h.id⟩
  · -- peers: only `snubbed` is reset
    intro p hp msg hm
    unfold reconcile at hp
    dsimp only at hp
    simp only [List.mem_map] at hp
    obtain ⟨q, hq, rfl⟩ := hp
    split at hm
    · exact h.q q hq msg hm
    · exact h.q q hq msg hm
  · intro d hd'
    rcases hd d hd' with h1 | ⟨_, _, h3⟩
    · simpa using h.dd d h1
    · simpa using h3
  · intro hne
    obtain ⟨d, hd'⟩ := List.exists_mem_of_ne_nil _ hne
    rcases hd d hd' with h1 | ⟨h1, h2, _⟩
    · simpa using h.dl (List.ne_nil_of_mem h1)
    · have hst : s.allocator = false ∧ s.verifier = false ∧ s.completed = false := by
        unfold St.status at h1
        repeat' split at h1
        all_goals first | (cases h1; done) | simp_all
      simpa using ⟨h2, hst⟩

-- `Ev.admissibleI`, `drunAdmissibleI` (no error from `reconcileIdl` along the run): `Lemmas/LoopAdmI.lean`

theorem reconcileIdl_winv (s : St) (impl : List Nat) (h : WInv s) (he : (reconcileIdl s impl).2 = []) :
    WInv (reconcileIdl s impl).1 := by
  refine ⟨h.q.of_peers (by simp), by simpa using h.wf,
    by simpa using h.wg, by simpa using h.wc, by simpa [St.n] using h.wl, by simpa using h.wd, by simpa using h.bd,
    by simpa using h.dd, by simpa using h.dl, by simpa using h.al, ?_⟩
  intro hi
  have hi' : s.info = true := by simpa using hi
  rw [List.eq_nil_iff_forall_not_mem]
  intro d hd
  rcases reconcileIdl_idls s impl he d hd with h1 | h1
  · rw [h.id hi'] at h1; cases h1
  · rw [h1.1] at hi'; cases hi'

theorem dstep_full (sp : St × Parked) (e : Ev) (h : Full sp.1) (ha : e.admissible sp) (hi : e.admissibleI sp) :
    Full (dstep sp e).1 ∧ (sp.1.panicked = none → (dstep sp e).1.panicked = none) := by
  obtain ⟨h1, p1⟩ := step_full sp.1 sp.2 e.known e.op h
  unfold dstep
  refine ⟨⟨reconcileIdl_life _ _ (reconcile_life _ _ h1.life ha), reconcileIdl_comp _ _ (reconcile_comp _ _ h1.comp),
    reconcileIdl_winv _ _ (reconcile_winv _ _ h1.w ha) hi⟩, fun hp => ?_⟩
  simpa using p1 hp

theorem drun_full (evs : List Ev) (sp : St × Parked) (h : Full sp.1) (ha : drunAdmissible sp evs)
    (hi : drunAdmissibleI sp evs) :
    Full (drun sp evs).1 ∧ (sp.1.panicked = none → (drun sp evs).1.panicked = none) := by
  induction evs generalizing sp with
  | nil => exact ⟨h, fun hp => hp⟩
  | cons e evs ih =>
    obtain ⟨h1, p1⟩ := dstep_full sp e h ha.1 hi.1
    obtain ⟨h2, p2⟩ := ih (dstep sp e) h1 ha.2 hi.2
    exact ⟨h2, fun hp => p2 (p1 hp)⟩

/-- The invariant holds of a freshly added torrent (`InitLike`) with no write in flight and a configuration
whose pieces with blocks have data. -/
theorem noFuture_of_none {s : St} (h : s.writing = none) : ∀ w, s.writing = some w → w.gen ≤ s.gen :=
  fun w hw => by rw [h] at hw; cases hw

theorem InitLike.full {s : St} (h : InitLike s) (hw : ∀ w, s.writing = some w → w.gen ≤ s.gen) :
    Full s := ⟨h.life, h.comp, h.winv hw⟩

end Rain.Loop
