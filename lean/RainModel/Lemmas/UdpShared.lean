import RainModel.Model.UdpShared
/-!
Lemmas about M-UDPSHARED: closed forms of `failAll` / `beginAll`, the invariant `Inv` of the run
loop and its preservation by every message.
-/
namespace Rain.UdpShared

@[simp] theorem upd_same {α : Type} (f : Nat → Option α) (k : Nat) (v : Option α) : upd f k v k = v := by
  simp [upd]

theorem upd_other {α : Type} (f : Nat → Option α) (k : Nat) (v : Option α) (i : Nat) (h : i ≠ k) :
    upd f k v i = f i := by
  simp [upd, h]

/-! ### `failAll` -/

/-- Closed form of the request table after `failAll`. -/
theorem failAll_fst (res : Res) (ws : List Nat) (reqs : Nat → Option Req) (r : Nat) :
    (failAll res ws reqs).1 r =
      match reqs r with
      | some q => if r ∈ ws ∧ q.result = none then some { q with result := some res } else some q
      | none => none := by
  induction ws generalizing reqs with
  | nil => cases h : reqs r <;> simp [failAll, h]
  | cons w ws ih =>
    unfold failAll
    cases hw : reqs w with
    | none =>
      simp only []
      rw [ih]
      cases hr : reqs r with
      | none => rfl
      | some q =>
        have : r ≠ w := by intro e; rw [e, hw] at hr; cases hr
        simp [this]
    | some qw =>
      by_cases hq : qw.result = none
      · simp only [hq, if_true]
        rw [ih]
        by_cases e : r = w
        · subst e
          simp [hw, hq]
        · rw [upd_other _ _ _ _ e]
          cases hr : reqs r with
          | none => rfl
          | some q => simp [e]
      · simp only [hq, if_false]
        rw [ih]
        cases hr : reqs r with
        | none => rfl
        | some q =>
          by_cases e : r = w
          · subst e
            rw [hw] at hr; cases hr
            simp [hq]
          · simp [e]

/-- Every `deliver` that `failAll` emits is for a request of the list, with the given result. -/
theorem failAll_outs (res : Res) (ws : List Nat) (reqs : Nat → Option Req) :
    ∀ o ∈ (failAll res ws reqs).2, ∃ w, w ∈ ws ∧ o = Out.deliver w res := by
  induction ws generalizing reqs with
  | nil => simp [failAll]
  | cons w ws ih =>
    unfold failAll
    cases hw : reqs w with
    | none =>
      intro o ho
      obtain ⟨x, hx, e⟩ := ih reqs o ho
      exact ⟨x, List.mem_cons_of_mem _ hx, e⟩
    | some qw =>
      by_cases hq : qw.result = none
      · simp only [hq, if_true]
        intro o ho
        rcases List.mem_cons.mp ho with e | ho
        · exact ⟨w, List.mem_cons_self, e⟩
        · obtain ⟨x, hx, e⟩ := ih _ o ho
          exact ⟨x, List.mem_cons_of_mem _ hx, e⟩
      · simp only [hq, if_false]
        intro o ho
        obtain ⟨x, hx, e⟩ := ih reqs o ho
        exact ⟨x, List.mem_cons_of_mem _ hx, e⟩

/-! ### `beginAll` -/

def liveOf (reqs : Nat → Option Req) (w : Nat) : Bool :=
  match reqs w with
  | some q => !q.cancelled
  | none => false

theorem beginAll_next (reqs : Nat → Option Req) (ws : List Nat) (txs : Nat → Option Trx) (n : Nat) :
    (beginAll reqs ws txs n).2.1 = n + ws.length := by
  induction ws generalizing txs n with
  | nil => simp [beginAll]
  | cons w ws ih => simp only [beginAll, ih, List.length_cons]; omega

/-- Entries below the counter are untouched. -/
theorem beginAll_below (reqs : Nat → Option Req) (ws : List Nat) (txs : Nat → Option Trx) (n i : Nat) (h : i < n) :
    (beginAll reqs ws txs n).1 i = txs i := by
  induction ws generalizing txs n with
  | nil => simp [beginAll]
  | cons w ws ih =>
    simp only [beginAll]
    rw [ih _ _ (by omega), upd_other _ _ _ _ (by omega)]

/-- Entries at or above the new counter are untouched. -/
theorem beginAll_above (reqs : Nat → Option Req) (ws : List Nat) (txs : Nat → Option Trx) (n i : Nat)
    (h : n + ws.length ≤ i) : (beginAll reqs ws txs n).1 i = txs i := by
  induction ws generalizing txs n with
  | nil => simp [beginAll]
  | cons w ws ih =>
    simp only [beginAll]
    simp only [List.length_cons] at h
    rw [ih _ _ (by omega), upd_other _ _ _ _ (by omega)]

/-- The new entries are announce transactions of the listed requests. -/
theorem beginAll_mid (reqs : Nat → Option Req) (ws : List Nat) (txs : Nat → Option Trx) (n i : Nat)
    (h1 : n ≤ i) (h2 : i < n + ws.length) :
    ∃ w, w ∈ ws ∧ (beginAll reqs ws txs n).1 i = some ⟨.announce w, liveOf reqs w⟩ := by
  induction ws generalizing txs n with
  | nil => simp at h2; omega
  | cons w ws ih =>
    simp only [beginAll]
    simp only [List.length_cons] at h2
    by_cases e : i = n
    · subst e
      refine ⟨w, List.mem_cons_self, ?_⟩
      rw [beginAll_below _ _ _ _ _ (by omega), upd_same]
      rfl
    · obtain ⟨x, hx, hh⟩ := ih (upd txs n (some ⟨.announce w, liveOf reqs w⟩)) (n + 1) (by omega) (by omega)
      exact ⟨x, List.mem_cons_of_mem _ hx, hh⟩

/-- Every listed request gets a transaction. -/
theorem beginAll_gets (reqs : Nat → Option Req) (ws : List Nat) (txs : Nat → Option Trx) (n w : Nat) (hw : w ∈ ws) :
    ∃ i, n ≤ i ∧ i < n + ws.length ∧ (beginAll reqs ws txs n).1 i = some ⟨.announce w, liveOf reqs w⟩ := by
  induction ws generalizing txs n with
  | nil => cases hw
  | cons x ws ih =>
    simp only [beginAll, List.length_cons]
    rcases List.mem_cons.mp hw with e | hw
    · subst e
      refine ⟨n, Nat.le_refl _, by omega, ?_⟩
      rw [beginAll_below _ _ _ _ _ (by omega), upd_same]
      rfl
    · obtain ⟨i, h1, h2, h3⟩ := ih (upd txs n (some ⟨.announce x, liveOf reqs x⟩)) (n + 1) hw
      exact ⟨i, by omega, by omega, h3⟩

theorem beginAll_cons (reqs : Nat → Option Req) (w : Nat) (ws : List Nat) (txs : Nat → Option Trx) (n : Nat) :
    beginAll reqs (w :: ws) txs n =
      ((beginAll reqs ws (upd txs n (some ⟨.announce w, liveOf reqs w⟩)) (n + 1)).1,
       (beginAll reqs ws (upd txs n (some ⟨.announce w, liveOf reqs w⟩)) (n + 1)).2.1,
       if liveOf reqs w then Out.send n (.announce w) :: (beginAll reqs ws (upd txs n (some ⟨.announce w, liveOf reqs w⟩)) (n + 1)).2.2
       else (beginAll reqs ws (upd txs n (some ⟨.announce w, liveOf reqs w⟩)) (n + 1)).2.2) := rfl

/-- `beginAll` only sends datagrams of the transactions it has just begun. -/
theorem beginAll_outs (reqs : Nat → Option Req) (ws : List Nat) (txs : Nat → Option Trx) (n : Nat) :
    ∀ o ∈ (beginAll reqs ws txs n).2.2, ∃ tx k, o = Out.send tx k ∧ n ≤ tx := by
  induction ws generalizing txs n with
  | nil => simp [beginAll]
  | cons w ws ih =>
    rw [beginAll_cons]
    intro o ho
    by_cases hl : liveOf reqs w = true
    · simp only [hl, if_true] at ho
      rcases List.mem_cons.mp ho with e | ho
      · exact ⟨n, _, e, Nat.le_refl _⟩
      · obtain ⟨tx, k, e, h⟩ := ih _ _ o ho
        exact ⟨tx, k, e, by omega⟩
    · simp only [hl] at ho
      obtain ⟨tx, k, e, h⟩ := ih _ _ o ho
      exact ⟨tx, k, e, by omega⟩

/-! ### `killAnnounce` -/

theorem killAnnounce_none (r : Nat) (txs : Nat → Option Trx) (i : Nat) :
    killAnnounce r txs i = none ↔ txs i = none := by
  unfold killAnnounce
  cases h : txs i with
  | none => simp
  | some t =>
    obtain ⟨k, a⟩ := t
    cases k with
    | connect d => simp
    | announce r' => by_cases e : r' = r <;> simp [e]

theorem killAnnounce_connect (r : Nat) (txs : Nat → Option Trx) (i d : Nat) (a : Bool) :
    killAnnounce r txs i = some ⟨.connect d, a⟩ ↔ txs i = some ⟨.connect d, a⟩ := by
  unfold killAnnounce
  cases h : txs i with
  | none => simp
  | some t =>
    obtain ⟨k, a'⟩ := t
    cases k with
    | connect d' => simp
    | announce r' => by_cases e : r' = r <;> simp [e]

theorem killAnnounce_announce_other (r : Nat) (txs : Nat → Option Trx) (i r' : Nat) (a : Bool) (h : r' ≠ r) :
    killAnnounce r txs i = some ⟨.announce r', a⟩ ↔ txs i = some ⟨.announce r', a⟩ := by
  unfold killAnnounce
  cases hh : txs i with
  | none => simp
  | some t =>
    obtain ⟨k, a'⟩ := t
    cases k with
    | connect d' => simp
    | announce r'' =>
      by_cases e : r'' = r
      · subst e
        simp
        intro e2
        exact absurd e2.symm h
      · simp [e]

theorem killAnnounce_some (r : Nat) (txs : Nat → Option Trx) (i : Nat) (t : Trx) (h : killAnnounce r txs i = some t) :
    ∃ t', txs i = some t' := by
  cases hh : txs i with
  | none => rw [(killAnnounce_none r txs i).mpr hh] at h; cases h
  | some t' => exact ⟨t', rfl⟩

/-! ### The invariant -/

/-- What holds in every state the run loop can reach. -/
structure Inv (s : State) : Prop where
  /-- transaction ids are below the counter (the implementation: ids in the table are distinct) -/
  tx_lt : ∀ tx t, s.txs tx = some t → tx < s.nextTx
  /-- a connecting connection has its connect transaction in the table, retransmitting -/
  conn_tx : ∀ d tx o ws, s.conns d = some (.connecting tx o ws) → s.txs tx = some ⟨.connect d, true⟩
  /-- a connect transaction in the table belongs to a connecting connection -/
  tx_conn : ∀ tx d a, s.txs tx = some ⟨.connect d, a⟩ → ∃ o ws, s.conns d = some (.connecting tx o ws)
  /-- a call that still blocks has not been cancelled by its caller -/
  canc : ∀ r q, s.reqs r = some q → q.result = none → q.cancelled = false
  /-- **no orphan**: a call that still blocks either has a retransmitting announce transaction in the
  table or waits in the list of a connecting connection of its destination -/
  no_orphan : ∀ r q, s.reqs r = some q → q.result = none →
    (∃ tx, s.txs tx = some ⟨.announce r, true⟩) ∨
    (∃ tx o ws, s.conns q.dest = some (.connecting tx o ws) ∧ r ∈ ws)
  /-- every call is listed -/
  ids_all : ∀ r q, s.reqs r = some q → r ∈ s.ids

theorem inv_init : Inv State.init := by
  constructor <;> intros <;> simp_all [State.init]

/-! ### Preservation -/

theorem inv_request (s : State) (h : Inv s) (r d : Nat) : Inv (step s (.request r d)).1 := by
  obtain ⟨h1, h2, h3, h4, h5, h6⟩ := h
  cases hr : s.reqs r with
  | some q => simp only [step, hr]; exact ⟨h1, h2, h3, h4, h5, h6⟩
  | none =>
    cases hc : s.closed with
    | true =>
      simp only [step, hr, hc, if_true]
      constructor <;> dsimp only [] <;> intros <;> grind [upd]
    | false =>
      simp only [step, hr, hc, Bool.false_eq_true, if_false]
      cases hd : s.conns d with
      | none =>
        dsimp only []
        refine ⟨?_, ?_, ?_, ?_, ?_, ?_⟩ <;> dsimp only []
        · intros; grind [upd]
        · intros; grind [upd]
        · intro tx d' a ht
          by_cases e : tx = s.nextTx
          · subst e
            rw [upd_same] at ht
            cases ht
            exact ⟨r, [r], by simp⟩
          · rw [upd_other _ _ _ _ e] at ht
            obtain ⟨o, ws, hh⟩ := h3 tx d' a ht
            have : d' ≠ d := by intro e2; subst e2; rw [hd] at hh; cases hh
            exact ⟨o, ws, by rw [upd_other _ _ _ _ this]; exact hh⟩
        · intros; grind [upd]
        · intro r' q' hq hres
          by_cases e : r' = r
          · subst e
            rw [upd_same] at hq
            cases hq
            exact Or.inr ⟨s.nextTx, r', [r'], by simp, by simp⟩
          · rw [upd_other _ _ _ _ e] at hq
            rcases h5 r' q' hq hres with ⟨tx, ht⟩ | ⟨tx, o, ws, hcn, hm⟩
            · have := h1 tx _ ht
              exact Or.inl ⟨tx, by rw [upd_other _ _ _ _ (by omega)]; exact ht⟩
            · have : q'.dest ≠ d := by intro e2; rw [e2, hd] at hcn; cases hcn
              exact Or.inr ⟨tx, o, ws, by rw [upd_other _ _ _ _ this]; exact hcn, hm⟩
        · intro r' q' hq
          by_cases e : r' = r
          · subst e; simp
          · rw [upd_other _ _ _ _ e] at hq; exact List.mem_append_left _ (h6 _ _ hq)
      | some c =>
        cases c with
        | connected =>
          dsimp only []
          refine ⟨?_, ?_, ?_, ?_, ?_, ?_⟩ <;> dsimp only []
          · intros; grind [upd]
          · intros; grind [upd]
          · intro tx d' a ht
            by_cases e : tx = s.nextTx
            · subst e; rw [upd_same] at ht; cases ht
            · rw [upd_other _ _ _ _ e] at ht; exact h3 tx d' a ht
          · intros; grind [upd]
          · intro r' q' hq hres
            by_cases e : r' = r
            · subst e
              exact Or.inl ⟨s.nextTx, by simp⟩
            · rw [upd_other _ _ _ _ e] at hq
              rcases h5 r' q' hq hres with ⟨tx, ht⟩ | hh
              · have := h1 tx _ ht
                exact Or.inl ⟨tx, by rw [upd_other _ _ _ _ (by omega)]; exact ht⟩
              · exact Or.inr hh
          · intro r' q' hq
            by_cases e : r' = r
            · subst e; simp
            · rw [upd_other _ _ _ _ e] at hq; exact List.mem_append_left _ (h6 _ _ hq)
        | connecting tx o ws =>
          dsimp only []
          refine ⟨?_, ?_, ?_, ?_, ?_, ?_⟩ <;> dsimp only []
          · intros; grind [upd]
          · intro d' tx' o' ws' hcn
            by_cases e : d' = d
            · subst e
              rw [upd_same] at hcn
              cases hcn
              exact h2 _ _ _ _ hd
            · rw [upd_other _ _ _ _ e] at hcn; exact h2 _ _ _ _ hcn
          · intro tx' d' a ht
            obtain ⟨o', ws', hh⟩ := h3 tx' d' a ht
            by_cases e : d' = d
            · subst e
              rw [hd] at hh
              cases hh
              exact ⟨o, ws ++ [r], by simp⟩
            · exact ⟨o', ws', by rw [upd_other _ _ _ _ e]; exact hh⟩
          · intros; grind [upd]
          · intro r' q' hq hres
            by_cases e : r' = r
            · subst e
              rw [upd_same] at hq
              cases hq
              exact Or.inr ⟨tx, o, ws ++ [r'], by simp, by simp⟩
            · rw [upd_other _ _ _ _ e] at hq
              rcases h5 r' q' hq hres with hh | ⟨tx', o', ws', hcn, hm⟩
              · exact Or.inl hh
              · by_cases e2 : q'.dest = d
                · rw [e2, hd] at hcn
                  cases hcn
                  exact Or.inr ⟨tx, o, ws ++ [r], by rw [e2]; simp, by simp [hm]⟩
                · exact Or.inr ⟨tx', o', ws', by rw [upd_other _ _ _ _ e2]; exact hcn, hm⟩
          · intro r' q' hq
            by_cases e : r' = r
            · subst e; simp
            · rw [upd_other _ _ _ _ e] at hq; exact List.mem_append_left _ (h6 _ _ hq)

theorem inv_cancel (s : State) (h : Inv s) (r : Nat) : Inv (step s (.cancel r)).1 := by
  obtain ⟨h1, h2, h3, h4, h5, h6⟩ := h
  cases hr : s.reqs r with
  | none => simp only [step, hr]; exact ⟨h1, h2, h3, h4, h5, h6⟩
  | some q =>
    by_cases hq : q.result = none
    · -- frame facts shared by all branches
      have canc' : ∀ r' q', upd s.reqs r (some { q with cancelled := true, result := some .canceled }) r' = some q' →
          q'.result = none → r' ≠ r ∧ s.reqs r' = some q' := by
        intro r' q' hh hres
        by_cases e : r' = r
        · subst e; rw [upd_same] at hh; cases hh; simp at hres
        · rw [upd_other _ _ _ _ e] at hh; exact ⟨e, hh⟩
      have ids' : ∀ r' q', upd s.reqs r (some { q with cancelled := true, result := some .canceled }) r' = some q' → r' ∈ s.ids := by
        intro r' q' hh
        by_cases e : r' = r
        · subst e; exact h6 _ _ hr
        · rw [upd_other _ _ _ _ e] at hh; exact h6 _ _ hh
      have plain : Inv { s with reqs := upd s.reqs r (some { q with cancelled := true, result := some .canceled }),
                                txs := killAnnounce r s.txs } := by
        refine ⟨?_, ?_, ?_, ?_, ?_, ?_⟩ <;> dsimp only []
        · intro tx t ht
          obtain ⟨t', ht'⟩ := killAnnounce_some _ _ _ _ ht
          exact h1 _ _ ht'
        · intro d tx o ws hc
          exact (killAnnounce_connect _ _ _ _ _).mpr (h2 _ _ _ _ hc)
        · intro tx d a ht
          exact h3 _ _ _ ((killAnnounce_connect _ _ _ _ _).mp ht)
        · intro r' q' hh hres
          exact h4 _ _ (canc' _ _ hh hres).2 hres
        · intro r' q' hh hres
          obtain ⟨e, hs⟩ := canc' _ _ hh hres
          rcases h5 _ _ hs hres with ⟨tx, ht⟩ | hc
          · exact Or.inl ⟨tx, (killAnnounce_announce_other _ _ _ _ _ e).mpr ht⟩
          · exact Or.inr hc
        · exact ids'
      cases hd : s.conns q.dest with
      | none => simp only [step, hr, hq, hd]; simpa using plain
      | some c =>
        cases c with
        | connected => simp only [step, hr, hq, hd]; simpa using plain
        | connecting tx o ws =>
          by_cases ho : o = r
          · subst ho
            simp only [step, hr, hq, hd]
            simp only [ne_eq, not_true_eq_false, if_false, if_true]
            have htx : s.txs tx = some ⟨.connect q.dest, true⟩ := h2 _ _ _ _ hd
            refine ⟨?_, ?_, ?_, ?_, ?_, ?_⟩ <;> dsimp only []
            · intro tx' t ht
              by_cases e : tx' = tx
              · subst e; rw [upd_same] at ht; cases ht
              · rw [upd_other _ _ _ _ e] at ht
                obtain ⟨t', ht'⟩ := killAnnounce_some _ _ _ _ ht
                exact h1 _ _ ht'
            · intro d' tx' o' ws' hc
              by_cases e : d' = q.dest
              · subst e; rw [upd_same] at hc; cases hc
              · rw [upd_other _ _ _ _ e] at hc
                have hx := h2 _ _ _ _ hc
                have : tx' ≠ tx := by
                  intro e2; subst e2; rw [htx] at hx; cases hx; exact e rfl
                rw [upd_other _ _ _ _ this]
                exact (killAnnounce_connect _ _ _ _ _).mpr hx
            · intro tx' d' a ht
              by_cases e : tx' = tx
              · subst e; rw [upd_same] at ht; cases ht
              · rw [upd_other _ _ _ _ e] at ht
                obtain ⟨o', ws', hc⟩ := h3 _ _ _ ((killAnnounce_connect _ _ _ _ _).mp ht)
                have : d' ≠ q.dest := by
                  intro e2; subst e2; rw [hd] at hc; cases hc; exact e rfl
                exact ⟨o', ws', by rw [upd_other _ _ _ _ this]; exact hc⟩
            · intro r' q' hh hres
              rw [failAll_fst] at hh
              split at hh
              · rename_i q0 h0
                split at hh
                · cases hh; simp at hres
                · cases hh; exact h4 _ _ (canc' _ _ h0 hres).2 hres
              · cases hh
            · intro r' q' hh hres
              rw [failAll_fst] at hh
              split at hh
              · rename_i q0 h0
                split at hh
                · cases hh; simp at hres
                · rename_i hnot
                  cases hh
                  obtain ⟨e, hs⟩ := canc' _ _ h0 hres
                  have hnw : r' ∉ ws := fun hm => hnot ⟨hm, hres⟩
                  rcases h5 _ _ hs hres with ⟨tx', ht⟩ | ⟨tx', o', ws', hc, hm⟩
                  · have : tx' ≠ tx := by intro e2; subst e2; rw [htx] at ht; cases ht
                    exact Or.inl ⟨tx', by rw [upd_other _ _ _ _ this]; exact (killAnnounce_announce_other _ _ _ _ _ e).mpr ht⟩
                  · by_cases e2 : q'.dest = q.dest
                    · rw [e2, hd] at hc; cases hc; exact absurd hm hnw
                    · exact Or.inr ⟨tx', o', ws', by rw [upd_other _ _ _ _ e2]; exact hc, hm⟩
              · cases hh
            · intro r' q' hh
              rw [failAll_fst] at hh
              split at hh
              · rename_i q0 h0; exact ids' _ _ h0
              · cases hh
          · simp only [step, hr, hq, hd]
            simp only [ne_eq, not_true_eq_false, if_false, ho]
            simpa using plain
    · simp only [step, hr]
      simp only [ne_eq, hq, not_false_eq_true, if_true]
      exact ⟨h1, h2, h3, h4, h5, h6⟩

theorem inv_dgram (s : State) (h : Inv s) (tx? : Option Nat) (c : Content) : Inv (step s (.dgram tx? c)).1 := by
  obtain ⟨h1, h2, h3, h4, h5, h6⟩ := h
  cases tx? with
  | none => simp only [step]; exact ⟨h1, h2, h3, h4, h5, h6⟩
  | some tx =>
    cases ht : s.txs tx with
    | none => simp only [step, ht]; exact ⟨h1, h2, h3, h4, h5, h6⟩
    | some t =>
      obtain ⟨k, a⟩ := t
      cases k with
      | announce r =>
        -- the table loses an announce transaction
        have tl : ∀ tx' t, upd s.txs tx none tx' = some t → tx' < s.nextTx := by
          intro tx' t hh
          by_cases e : tx' = tx
          · subst e; rw [upd_same] at hh; cases hh
          · rw [upd_other _ _ _ _ e] at hh; exact h1 _ _ hh
        have ct : ∀ d tx' o ws, s.conns d = some (.connecting tx' o ws) → upd s.txs tx none tx' = some ⟨.connect d, true⟩ := by
          intro d tx' o ws hc
          have hx := h2 _ _ _ _ hc
          have : tx' ≠ tx := by intro e; subst e; rw [ht] at hx; cases hx
          rw [upd_other _ _ _ _ this]; exact hx
        have tc : ∀ tx' d a', upd s.txs tx none tx' = some ⟨.connect d, a'⟩ → ∃ o ws, s.conns d = some (.connecting tx' o ws) := by
          intro tx' d a' hh
          by_cases e : tx' = tx
          · subst e; rw [upd_same] at hh; cases hh
          · rw [upd_other _ _ _ _ e] at hh; exact h3 _ _ _ hh
        have keep : ∀ r', r' ≠ r → (∃ tx', s.txs tx' = some ⟨.announce r', true⟩) → ∃ tx', upd s.txs tx none tx' = some ⟨.announce r', true⟩ := by
          intro r' e ⟨tx', hx⟩
          have : tx' ≠ tx := by intro e2; subst e2; rw [ht] at hx; cases hx; exact e rfl
          exact ⟨tx', by rw [upd_other _ _ _ _ this]; exact hx⟩
        cases hr : s.reqs r with
        | none =>
          simp only [step, ht, hr]
          refine ⟨tl, ct, tc, h4, ?_, h6⟩
          intro r' q' hh hres
          have e : r' ≠ r := by intro e; subst e; rw [hr] at hh; cases hh
          rcases h5 _ _ hh hres with hx | hc
          · exact Or.inl (keep _ e hx)
          · exact Or.inr hc
        | some q =>
          by_cases hq : q.result = none
          · simp only [step, ht, hr, hq, if_true]
            refine ⟨tl, ct, tc, ?_, ?_, ?_⟩ <;> dsimp only []
            · intro r' q' hh hres
              by_cases e : r' = r
              · subst e; rw [upd_same] at hh; cases hh; simp at hres
              · rw [upd_other _ _ _ _ e] at hh; exact h4 _ _ hh hres
            · intro r' q' hh hres
              by_cases e : r' = r
              · subst e; rw [upd_same] at hh; cases hh; simp at hres
              · rw [upd_other _ _ _ _ e] at hh
                rcases h5 _ _ hh hres with hx | hc
                · exact Or.inl (keep _ e hx)
                · exact Or.inr hc
            · intro r' q' hh
              by_cases e : r' = r
              · subst e; exact h6 _ _ hr
              · rw [upd_other _ _ _ _ e] at hh; exact h6 _ _ hh
          · simp only [step, ht, hr, hq, if_false]
            refine ⟨tl, ct, tc, h4, ?_, h6⟩
            intro r' q' hh hres
            have e : r' ≠ r := by intro e; subst e; rw [hr] at hh; cases hh; exact hq hres
            rcases h5 _ _ hh hres with hx | hc
            · exact Or.inl (keep _ e hx)
            · exact Or.inr hc
      | connect d =>
        obtain ⟨o, ws, hd⟩ := h3 _ _ _ ht
        have htx : s.txs tx = some ⟨.connect d, true⟩ := h2 _ _ _ _ hd
        by_cases hc : c = .good
        · subst hc
          simp only [step, ht, hd, if_true]
          refine ⟨?_, ?_, ?_, ?_, ?_, ?_⟩ <;> dsimp only []
          · intro i t hh
            rw [beginAll_next]
            by_cases hi : i < s.nextTx
            · omega
            · by_cases hi2 : i < s.nextTx + ws.length
              · exact hi2
              · rw [beginAll_above _ _ _ _ _ (by omega)] at hh
                have : i ≠ tx := by intro e; subst e; rw [upd_same] at hh; cases hh
                rw [upd_other _ _ _ _ this] at hh
                have := h1 _ _ hh; omega
          · intro d' tx' o' ws' hcn
            by_cases e : d' = d
            · subst e; rw [upd_same] at hcn; cases hcn
            · rw [upd_other _ _ _ _ e] at hcn
              have hx := h2 _ _ _ _ hcn
              have hlt := h1 _ _ hx
              have : tx' ≠ tx := by intro e2; subst e2; rw [htx] at hx; cases hx; exact e rfl
              rw [beginAll_below _ _ _ _ _ hlt, upd_other _ _ _ _ this]; exact hx
          · intro i d' a' hh
            by_cases hi : i < s.nextTx
            · rw [beginAll_below _ _ _ _ _ hi] at hh
              have e : i ≠ tx := by intro e; subst e; rw [upd_same] at hh; cases hh
              rw [upd_other _ _ _ _ e] at hh
              obtain ⟨o', ws', hcn⟩ := h3 _ _ _ hh
              have : d' ≠ d := by intro e2; subst e2; rw [hd] at hcn; cases hcn; exact e rfl
              exact ⟨o', ws', by rw [upd_other _ _ _ _ this]; exact hcn⟩
            · by_cases hi2 : i < s.nextTx + ws.length
              · obtain ⟨w, _, hw⟩ := beginAll_mid s.reqs ws (upd s.txs tx none) s.nextTx i (by omega) hi2
                rw [hw] at hh; cases hh
              · rw [beginAll_above _ _ _ _ _ (by omega)] at hh
                have e : i ≠ tx := by intro e; subst e; rw [upd_same] at hh; cases hh
                rw [upd_other _ _ _ _ e] at hh
                have := h1 _ _ hh; omega
          · exact h4
          · intro r' q' hh hres
            rcases h5 _ _ hh hres with ⟨tx', hx⟩ | ⟨tx', o', ws', hcn, hm⟩
            · have hlt := h1 _ _ hx
              have : tx' ≠ tx := by intro e2; subst e2; rw [htx] at hx; cases hx
              exact Or.inl ⟨tx', by rw [beginAll_below _ _ _ _ _ hlt, upd_other _ _ _ _ this]; exact hx⟩
            · by_cases e : q'.dest = d
              · rw [e, hd] at hcn; cases hcn
                obtain ⟨i, _, _, hi⟩ := beginAll_gets s.reqs ws (upd s.txs tx none) s.nextTx r' hm
                have hl : liveOf s.reqs r' = true := by simp [liveOf, hh, h4 _ _ hh hres]
                rw [hl] at hi
                exact Or.inl ⟨i, hi⟩
              · exact Or.inr ⟨tx', o', ws', by rw [upd_other _ _ _ _ e]; exact hcn, hm⟩
          · exact h6
        · simp only [step, ht, hd, hc, if_false]
          refine ⟨?_, ?_, ?_, ?_, ?_, ?_⟩ <;> dsimp only []
          · intro tx' t hh
            by_cases e : tx' = tx
            · subst e; rw [upd_same] at hh; cases hh
            · rw [upd_other _ _ _ _ e] at hh; exact h1 _ _ hh
          · intro d' tx' o' ws' hcn
            by_cases e : d' = d
            · subst e; rw [upd_same] at hcn; cases hcn
            · rw [upd_other _ _ _ _ e] at hcn
              have hx := h2 _ _ _ _ hcn
              have : tx' ≠ tx := by intro e2; subst e2; rw [htx] at hx; cases hx; exact e rfl
              rw [upd_other _ _ _ _ this]; exact hx
          · intro tx' d' a' hh
            by_cases e : tx' = tx
            · subst e; rw [upd_same] at hh; cases hh
            · rw [upd_other _ _ _ _ e] at hh
              obtain ⟨o', ws', hcn⟩ := h3 _ _ _ hh
              have : d' ≠ d := by intro e2; subst e2; rw [hd] at hcn; cases hcn; exact e rfl
              exact ⟨o', ws', by rw [upd_other _ _ _ _ this]; exact hcn⟩
          · intro r' q' hh hres
            rw [failAll_fst] at hh
            split at hh
            · rename_i q0 h0
              split at hh
              · cases hh; simp at hres
              · cases hh; exact h4 _ _ h0 hres
            · cases hh
          · intro r' q' hh hres
            rw [failAll_fst] at hh
            split at hh
            · rename_i q0 h0
              split at hh
              · cases hh; simp at hres
              · rename_i hnot
                cases hh
                have hnw : r' ∉ ws := fun hm => hnot ⟨hm, hres⟩
                rcases h5 _ _ h0 hres with ⟨tx', hx⟩ | ⟨tx', o', ws', hcn, hm⟩
                · have : tx' ≠ tx := by intro e2; subst e2; rw [htx] at hx; cases hx
                  exact Or.inl ⟨tx', by rw [upd_other _ _ _ _ this]; exact hx⟩
                · by_cases e2 : q'.dest = d
                  · rw [e2, hd] at hcn; cases hcn; exact absurd hm hnw
                  · exact Or.inr ⟨tx', o', ws', by rw [upd_other _ _ _ _ e2]; exact hcn, hm⟩
            · cases hh
          · intro r' q' hh
            rw [failAll_fst] at hh
            split at hh
            · rename_i q0 h0; exact h6 _ _ h0
            · cases hh

theorem inv_tick (s : State) (h : Inv s) (tx : Nat) : Inv (step s (.tick tx)).1 := by
  simp only [step]
  split <;> exact h

theorem inv_close (s : State) (h : Inv s) : Inv (step s .close).1 := by
  obtain ⟨h1, h2, h3, h4, h5, h6⟩ := h
  cases hc : s.closed with
  | true => simp only [step, hc, if_true]; exact ⟨h1, h2, h3, h4, h5, h6⟩
  | false =>
    simp only [step, hc, Bool.false_eq_true, if_false]
    refine ⟨?_, ?_, ?_, ?_, ?_, ?_⟩ <;> dsimp only []
    · intro tx t hh; cases hh
    · intro d tx o ws hh; cases hh
    · intro tx d a hh; cases hh
    · intro r' q' hh hres
      rw [failAll_fst] at hh
      split at hh
      · rename_i q0 h0
        split at hh
        · cases hh; simp at hres
        · cases hh; exact h4 _ _ h0 hres
      · cases hh
    · intro r' q' hh hres
      rw [failAll_fst] at hh
      split at hh
      · rename_i q0 h0
        split at hh
        · cases hh; simp at hres
        · rename_i hnot
          cases hh
          exact absurd ⟨h6 _ _ h0, hres⟩ hnot
      · cases hh
    · intro r' q' hh
      rw [failAll_fst] at hh
      split at hh
      · rename_i q0 h0; exact h6 _ _ h0
      · cases hh

/-- **The invariant is preserved by every message of the run loop.** -/
theorem step_inv (s : State) (h : Inv s) (i : In) : Inv (step s i).1 := by
  cases i with
  | request r d => exact inv_request s h r d
  | cancel r => exact inv_cancel s h r
  | dgram tx c => exact inv_dgram s h tx c
  | tick tx => exact inv_tick s h tx
  | close => exact inv_close s h

theorem run_inv (s : State) (h : Inv s) (is : List In) : Inv (run s is).1 := by
  induction is generalizing s with
  | nil => exact h
  | cons i is ih => simp only [run]; exact ih _ (step_inv s h i)

end Rain.UdpShared
