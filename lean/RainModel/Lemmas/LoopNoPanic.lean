import RainModel.Lemmas.LoopVerify
/-!
C04/C08 `no_panic`, handler by handler: under a local precondition (a clause of the loop invariant) the
handler does not reach any of Go's panic sites (`crash(...)`, close of a closed channel, nil bitfield).
Handlers without any panic site are covered by the generated frame lemmas `…_panicked`.
-/
namespace Rain.Loop

theorem crash_panicked_of_some (s : St) (w : String) (h : s.panicked ≠ none) : (s.crash w).panicked = s.panicked := by
  unfold St.crash
  split
  · rfl
  · next hn => exact absurd hn h

/-- `startCore` (the body of `start()`): "allocator exists" / "verifier exists". -/
theorem startCore_no_panic (m : M) (h : m.1.allocator = false ∧ m.1.verifier = false) :
    (startCore m).1.panicked = m.1.panicked := by
  unfold startCore
  dsimp only
  repeat' split
  all_goals simp_all

theorem handleStopped_no_panic (m : M) (h : m.1.allocator = false ∧ m.1.verifier = false) :
    (handleStopped m).1.panicked = m.1.panicked := by
  unfold handleStopped
  dsimp only
  split
  · rw [startCore_no_panic]
    · simp
    · simpa using h
  · simp

theorem startCore_errC (m : M) : (startCore m).1.errC = true := by
  unfold startCore
  dsimp only
  repeat' split
  all_goals simp

theorem startCore_stopAnn (m : M) : (startCore m).1.stopAnn = false := by
  unfold startCore
  dsimp only
  repeat' split
  all_goals simp

/-- After `handleStopped` the torrent either runs again (pending verify) or still has no worker. -/
theorem handleStopped_idle (m : M) (h : m.1.allocator = false ∧ m.1.verifier = false) :
    (handleStopped m).1.errC = true ∨ ((handleStopped m).1.allocator = false ∧ (handleStopped m).1.verifier = false) := by
  unfold handleStopped
  dsimp only
  split
  · exact Or.inl (startCore_errC _)
  · right; simpa using h

/-- `start()`, including the start while stopping (fix C04-F3): no worker may exist while the torrent is
stopped or stopping (a clause of `Life`). -/
theorem start_no_panic (m : M)
    (h : (m.1.errC = false ∨ m.1.stopAnn = true) → m.1.allocator = false ∧ m.1.verifier = false) :
    (start m).1.panicked = m.1.panicked := by
  rw [start_eq]
  unfold startGo startPre
  by_cases hs : m.1.stopAnn = true
  · have h0 : (onSt m fun s => { s with stopHang := false }).1.allocator = false ∧
        (onSt m fun s => { s with stopHang := false }).1.verifier = false := by simpa using h (Or.inr hs)
    rw [if_pos hs]
    have hp := handleStopped_no_panic _ h0
    split
    · simpa using hp
    · next he =>
      rcases handleStopped_idle _ h0 with h1 | h1
      · exact absurd h1 he
      · rw [startCore_no_panic _ h1]; simpa using hp
  · rw [if_neg hs]
    split
    · rfl
    · next he => exact startCore_no_panic m (h (Or.inl (by simpa using he)))

theorem handleVerifyCommand_no_panic (m : M) (h : m.1.errC = false → m.1.allocator = false ∧ m.1.verifier = false) :
    (handleVerifyCommand m).1.panicked = m.1.panicked := by
  unfold handleVerifyCommand
  dsimp only
  split
  · next hst =>
    have he : m.1.errC = false := by
      have := (status_stopped_iff (onSt m fun s => { s with doVerify := true }).1).1 hst
      simpa using this
    rw [startCore_no_panic]
    · simp
    · simpa using h he
  · simp only [onSt_fst]
    rw [stop_panicked]

/-- `checkCompletion()`: nil bitfield, close of the closed `completeC`. -/
theorem checkCompletion_no_panic (s : St) (hbf : s.completed = true ∨ s.bf.isSome = true)
    (hcc : s.completeCClosed = true → s.completed = true) : s.checkCompletion.1.panicked = s.panicked := by
  unfold St.checkCompletion
  split
  · rfl
  · next hc =>
    split
    · next hn =>
      rcases hbf with h | h
      · exact absurd h hc
      · simp [hn] at h
    · split
      · rfl
      · have hcl : s.completeCClosed = false := by
          cases h : s.completeCClosed
          · rfl
          · exact absurd (hcc h) hc
        simp [hcl]

/-- `handlePieceMessage`: "piece is already writing". -/
theorem handlePieceMessage_no_panic (m : M) (k i b l : Nat) (g : Bool)
    (h : m.1.wflag.getD i false = false) : (handlePieceMessage m k i b l g).1.panicked = m.1.panicked := by
  unfold handlePieceMessage
  dsimp only
  repeat' split
  all_goals first
    | rfl
    | (simp; done)
    | (rename_i hw; simp only [List.getD_eq_getElem?_getD] at h; simp [h] at hw)

/-- Every peer message other than a block has no panic site at all. -/
theorem handlePeerMessage_no_panic (m : M) (k : Nat) (msg : Msg)
    (h : ∀ i b l g, msg = .piece i b l g → m.1.wflag.getD i false = false) :
    (handlePeerMessage m k msg).1.panicked = m.1.panicked := by
  cases msg
  case piece i b l g =>
    unfold handlePeerMessage
    exact handlePieceMessage_no_panic m k i b l g (h i b l g rfl)
  all_goals
    unfold handlePeerMessage
    dsimp only
    repeat' split
    all_goals first
      | rfl
      | (simp; done)

/-- `handlePieceWriteDone`: nil bitfield, "already have the piece", and the completion check — only for a result
that is still current (a stale one is ignored: fix C04-F9). -/
theorem handlePieceWriteDone_no_panic (m : M) (w : WriteJob) (e : Bool)
    (hbit : w.good = true → e = false → w.gen = m.1.gen → m.1.loaded = true →
      ∃ b, m.1.bf = some b ∧ b.getD w.piece false = false)
    (hcc : m.1.completeCClosed = true → m.1.completed = true) :
    (handlePieceWriteDone m w e).1.panicked = m.1.panicked := by
  rw [handlePieceWriteDone_eq]
  dsimp only
  split
  · simp
  · next hg =>
    split
    · simp
    · next hst =>
      simp only [Bool.or_eq_true, ne_eq, decide_eq_true_eq, Bool.not_eq_true', not_or, Decidable.not_not,
        Bool.not_eq_false] at hst
      split
      · simp only [onSt_fst]; rw [stop_panicked]; simp
      · next he =>
        obtain ⟨b, hb, hbit'⟩ := hbit (by simpa using hg) (by simpa using he) (by simpa using hst.1) (by simpa using hst.2)
        simp only [List.getD_eq_getElem?_getD] at hbit'
        have hb' : (pwdDone (pwdReset m w) w).1.bf = some b := by simpa using hb
        rw [hb']
        dsimp only
        unfold pwdOk
        -- set the bit (no crash: the piece was not held), close duplicates, send haves, check completion
        have h1 : (pwdSet (pwdDone (pwdReset m w) w) w b).1.panicked = m.1.panicked := by
          unfold pwdSet
          simp [hbit']
        have h1bf : (pwdSet (pwdDone (pwdReset m w) w) w b).1.bf = some (setAt b w.piece true) := by
          unfold pwdSet; simp [hbit']
        generalize hX : pwdHaves (pwdOthers (pwdSet (pwdDone (pwdReset m w) w) w b) w) w = X
        have hXp : X.1.panicked = m.1.panicked := by rw [← hX]; simpa using h1
        have hXbf : X.1.bf.isSome = true := by rw [← hX]; simp [h1bf]
        have hXcc : X.1.completeCClosed = true → X.1.completed = true := by
          rw [← hX]; simpa using hcc
        have hc := checkCompletion_no_panic X.1 (Or.inr hXbf) hXcc
        unfold pwdFinish
        dsimp only
        have hbf2 : X.1.checkCompletion.1.bf.isSome = true := by simpa using hXbf
        have hwb : X.1.checkCompletion.1.writeBitfield.panicked = X.1.checkCompletion.1.panicked := by
          unfold St.writeBitfield
          split
          · rfl
          · next hn =>
            have : X.1.bf = none := by simpa using hn
            simp [this] at hXbf
        repeat' split
        · simp only [onSt_fst]; rw [stop_panicked, hwb, hc, hXp]
        · simp only [onSt_fst]; rw [hwb, hc, hXp]
        · rw [hc, hXp]

theorem hmdStart_no_panic (m : M) (h : m.1.allocator = false) : (hmdStart m).1.panicked = m.1.panicked := by
  unfold hmdStart
  split
  · simp only [onSt_fst]; rw [stop_panicked]
  · simp [h]

theorem hmdAdopt_no_panic (m : M) (h : m.1.allocator = false) : (hmdAdopt m).1.panicked = m.1.panicked := by
  unfold hmdAdopt
  dsimp only
  repeat' split
  all_goals first
    | (simp only [onSt_fst]; rw [stop_panicked])
    | (rw [hmdStart_no_panic _ (by simpa using h)]; rfl)

/-- `handleMetadataData`: "allocator exists". -/
theorem handleMetadataData_no_panic (m : M) (k i len : Nat) (g : Bool) (h : m.1.allocator = false) :
    (handleMetadataData m k i len g).1.panicked = m.1.panicked := by
  rw [handleMetadataData_eq]
  split
  · rfl
  unfold hmdBlock
  dsimp only
  repeat' split
  all_goals first
    | rfl
    | (simp; done)
    | (rw [hmdAdopt_no_panic _ (by simpa using h)]; rfl)

/-! ### the replay of queued messages -/

/-- Only messages that need the metadata are ever queued (so a replay contains no block). -/
def QueueOK (s : St) : Prop := ∀ p ∈ s.peers, ∀ msg ∈ p.queued, needsInfo msg = true

theorem QueueOK.of_peers {s s' : St} (h : QueueOK s) (hp : s'.peers = s.peers) : QueueOK s' := by
  unfold QueueOK; rw [hp]; exact h

theorem QueueOK.updPeer {s : St} (h : QueueOK s) (k : Nat) (f : Peer → Peer)
    (hf : ∀ p, (∀ msg ∈ p.queued, needsInfo msg = true) → ∀ msg ∈ (f p).queued, needsInfo msg = true) :
    QueueOK (s.updPeer k f) := by
  intro p hp msg hmsg
  simp only [St.updPeer, List.mem_map] at hp
  obtain ⟨q, hq, rfl⟩ := hp
  split at hmsg
  · exact hf q (h q hq) msg hmsg
  · exact h q hq msg hmsg

theorem QueueOK.closePeer {s : St} (h : QueueOK s) (k : Nat) : QueueOK (s.closePeer k) := by
  intro p hp
  exact h p (closePeer_peers_subset s k p hp)

theorem updateInterested_queueOK (m : M) (k : Nat) (h : QueueOK m.1) : QueueOK (updateInterested m k).1 := by
  unfold updateInterested
  dsimp only
  repeat' split
  all_goals first
    | exact h
    | (simp only [send_fst, onSt_fst]; exact h.updPeer k _ (fun p hp => hp))

theorem haveOne_queueOK (m : M) (k i : Nat) (h : QueueOK m.1) : QueueOK (haveOne m k i).1 := by
  unfold haveOne
  split
  · simp only [onSt_fst]; exact h.updPeer k _ (fun p hp => hp)
  · exact h

/-- Replaying a queued message: no panic site, and the queues stay well-formed. -/
theorem handlePeerMessage_needsInfo (m : M) (k : Nat) (msg : Msg) (hm : needsInfo msg = true) (h : QueueOK m.1) :
    (handlePeerMessage m k msg).1.panicked = m.1.panicked ∧ QueueOK (handlePeerMessage m k msg).1 := by
  refine ⟨handlePeerMessage_no_panic m k msg (fun i b l g he => by subst he; simp [needsInfo] at hm), ?_⟩
  have hq : ∀ x : Msg, needsInfo x = true → QueueOK (onSt m (·.updPeer k fun p => { p with queued := p.queued ++ [x] })).1 := by
    intro x hx
    simp only [onSt_fst]
    refine h.updPeer k _ (fun p hp msg hmsg => ?_)
    simp only [List.mem_append, List.mem_singleton] at hmsg
    rcases hmsg with hmsg | rfl
    · exact hp msg hmsg
    · exact hx
  cases msg
  case «have» i =>
    unfold handlePeerMessage
    dsimp only
    repeat' split
    · exact hq _ hm
    · exact h.closePeer k
    · simp only [onSt_fst]
      exact (updateInterested_queueOK _ k (haveOne_queueOK m k i h)).of_peers (by simp)
  case bitfield bits nb =>
    unfold handlePeerMessage
    dsimp only
    repeat' split
    · exact hq _ hm
    · exact h
    · exact h.closePeer k
    · simp only [onSt_fst]
      have hf : QueueOK (List.foldl (fun m i => if bits.getD i false then haveOne m k i else m) m (List.range m.1.n)).1 := by
        apply foldl_inv (fun x : M => QueueOK x.1)
        · intro x i hx
          split
          · exact haveOne_queueOK x k i hx
          · exact hx
        · exact h
      exact (updateInterested_queueOK _ k hf).of_peers (by simp)
  case haveAll =>
    unfold handlePeerMessage
    dsimp only
    repeat' split
    · exact hq _ hm
    · simp only [onSt_fst]
      have hf : QueueOK (List.foldl (fun m i => haveOne m k i) m (List.range m.1.n)).1 := by
        apply foldl_inv (fun x : M => QueueOK x.1)
        · intro x i hx; exact haveOne_queueOK x k i hx
        · exact h
      exact (updateInterested_queueOK _ k hf).of_peers (by simp)
  case allowedFast i =>
    unfold handlePeerMessage
    dsimp only
    repeat' split
    · exact hq _ hm
    · exact h.closePeer k
    · simp only [onSt_fst]; exact h.updPeer k _ (fun p hp => hp)
    · exact h
  all_goals simp [needsInfo] at hm

theorem processQueued_no_panic (m : M) (h : QueueOK m.1) :
    (processQueued m).1.panicked = m.1.panicked ∧ QueueOK (processQueued m).1 := by
  unfold processQueued
  apply foldl_inv (fun x : M => x.1.panicked = m.1.panicked ∧ QueueOK x.1)
  · intro x k ⟨hx1, hx2⟩
    split
    · exact ⟨hx1, hx2⟩
    · next p hp =>
      have hpq : ∀ msg ∈ p.queued, needsInfo msg = true := by
        have : p ∈ x.1.peers := List.mem_of_find?_eq_some hp
        exact hx2 p this
      dsimp only
      have h0 : (onSt x (·.updPeer k fun p => { p with queued := [] })).1.panicked = m.1.panicked ∧
          QueueOK (onSt x (·.updPeer k fun p => { p with queued := [] })).1 := by
        refine ⟨by simpa using hx1, ?_⟩
        simp only [onSt_fst]
        exact hx2.updPeer k _ (fun _ _ msg hmsg => by cases hmsg)
      apply foldl_inv_mem (fun y : M => y.1.panicked = m.1.panicked ∧ QueueOK y.1) p.queued _ _ _ h0
      intro y msg hmsg ⟨hy1, hy2⟩
      split
      · have := handlePeerMessage_needsInfo y k msg (hpq msg hmsg) hy2
        exact ⟨this.1.trans hy1, this.2⟩
      · exact ⟨hy1, hy2⟩
  · exact ⟨rfl, h⟩

theorem checkCompletion_peers_subset (s : St) : ∀ p ∈ s.checkCompletion.1.peers, p ∈ s.peers := by
  unfold St.checkCompletion
  repeat' split
  all_goals first
    | exact fun p hp => hp
    | (simp; done)
    | skip
  all_goals
    dsimp only
    apply foldl_inv (fun t : St => ∀ p ∈ t.peers, p ∈ s.peers)
    · intro t a ht p hp
      exact ht p (by simpa using hp)
    · apply foldl_inv (fun t : St => ∀ p ∈ t.peers, p ∈ s.peers)
      · intro t a ht p hp
        split at hp
        · exact ht p (closePeer_peers_subset t _ p hp)
        · exact ht p hp
      · intro p hp; simpa using hp

theorem QueueOK.checkCompletion {s : St} (h : QueueOK s) : QueueOK s.checkCompletion.1 :=
  fun p hp => h p (checkCompletion_peers_subset s p hp)

theorem hadCheck_no_panic (m : M) (hbf : m.1.bf.isSome = true) (hcc : m.1.completeCClosed = true → m.1.completed = true)
    (hq : QueueOK m.1) : (hadCheck m).1.panicked = m.1.panicked := by
  have h1 := checkCompletion_no_panic m.1 (Or.inr hbf) hcc
  unfold hadCheck
  dsimp only
  split
  · simp only [onSt_fst]; rw [stop_panicked]; exact h1
  · unfold hadReady
    simp only [onSt_fst, startDls_panicked]
    rw [(processQueued_no_panic (m.1.checkCompletion.1, m.2) hq.checkCompletion).1]
    exact h1

/-- `handleAllocationDone`: the completion check on a fresh or trusted bitfield never panics when the
completion flags agree. -/
theorem handleAllocationDone_no_panic (m : M) (ex mi : Bool) (hcc : m.1.completeCClosed = m.1.completed)
    (hq : QueueOK m.1) : (handleAllocationDone m ex mi).1.panicked = m.1.panicked := by
  rw [handleAllocationDone_eq]
  have hq0 : QueueOK (hadForget (hadInstall m) mi).1 := by
    intro p hp msg hmsg
    have hp' : p ∈ (hadInstall m).1.peers := by simpa using hp
    simp only [hadInstall, onSt_fst, List.mem_map] at hp'
    obtain ⟨q, hq', rfl⟩ := hp'
    exact hq q hq' msg hmsg
  have hcc0 : (hadForget (hadInstall m) mi).1.completeCClosed = (hadForget (hadInstall m) mi).1.completed := by
    simpa using hcc
  have hp0 : (hadForget (hadInstall m) mi).1.panicked = m.1.panicked := by simp
  generalize hadForget (hadInstall m) mi = X at *
  have fresh : (hadFresh X).1.panicked = m.1.panicked := by
    unfold hadFresh
    dsimp only
    split
    · simp only [onSt_fst]; rw [stop_panicked]; simpa using hp0
    · rw [hadCheck_no_panic]
      · simpa using hp0
      · simp [hadFreshInstall, St.markPaddingPieces]
      · simp only [hadFreshInstall, onSt_fst, markPaddingPieces_completeCClosed, markPaddingPieces_completed]
        unfold St.resetCompletion
        split <;> simp_all
      · exact hq0.of_peers (by simp)
  dsimp only
  split
  · next b hb =>
    repeat' split
    · unfold hadTrust
      rw [hadCheck_no_panic]
      · simpa using hp0
      · simp [St.markPaddingPieces, hb]
      · simp only [onSt_fst, markPaddingPieces_completeCClosed, markPaddingPieces_completed]
        intro h; rw [← hcc0]; exact h
      · exact hq0.of_peers (by simp)
    · exact fresh
    · simpa using hp0
  · split
    · exact fresh
    · simpa using hp0

theorem allocatorRun_no_panic (m : M) (hcc : m.1.completeCClosed = m.1.completed) (hq : QueueOK m.1) :
    (allocatorRun m).1.panicked = m.1.panicked := by
  rw [allocatorRun_eq]
  split
  · unfold allocFail
    simp only [onSt_fst]; rw [stop_panicked]; simp
  · rw [handleAllocationDone_no_panic]
    · simp
    · simpa using hcc
    · exact hq.of_peers (by simp)

/-- `handleVerificationDone`: the bitfield has just been installed; the completion check does not panic
when the completion flags agree. -/
theorem handleVerificationDone_no_panic (m : M) (hcc : m.1.completeCClosed = m.1.completed) (hq : QueueOK m.1)
    (hp : m.1.panicked = none) : (handleVerificationDone m).1.panicked = none := by
  have hpan : (hvdInstall m).1.panicked = none := by
    rw [hvdInstall_eq]
    simp only [onSt_fst]
    have : (hvdPre m).1.panicked = none := by simp [hvdPre, St.writeBitfield, hp]
    split <;> simp [this]
  have hbf : (hvdInstall m).1.bf.isSome = true := by
    rw [hvdInstall_eq]; simp only [onSt_fst]; split <;> simp [hvdPre]
  have hcc1 : (hvdInstall m).1.completeCClosed = (hvdInstall m).1.completed := by
    rw [hvdInstall_eq]; simp only [onSt_fst]
    split
    · unfold St.resetCompletion; split <;> simp_all
    · simpa using hcc
  rw [handleVerificationDone_eq]
  dsimp only
  split
  · simp only [onSt_fst]; rw [stop_panicked]; exact hpan
  · rw [hadCheck_no_panic]
    · simpa using hpan
    · simpa using hbf
    · intro h; have := hcc1; simp only [hvdHaves_completeCClosed, hvdHaves_completed] at h ⊢; rw [← this]; exact h
    · have hq1 : QueueOK (hvdInstall m).1 := hq.of_peers (by simp)
      unfold hvdHaves
      dsimp only
      apply foldl_inv (fun x : M => QueueOK x.1)
      · intro x p hx
        apply updateInterested_queueOK
        exact hx.of_peers (by simp)
      · exact hq1

/-- `writerRun`: given that a good, current job finds a bitfield in which its piece is not yet set. -/
theorem writerRun_no_panic (m : M) (w : WriteJob)
    (hbit : w.good = true → w.gen = m.1.gen → m.1.loaded = true → ∃ b, m.1.bf = some b ∧ b.getD w.piece false = false)
    (hcc : m.1.completeCClosed = true → m.1.completed = true) :
    (writerRun m w).1.panicked = m.1.panicked := by
  unfold writerRun
  dsimp only
  repeat' split
  all_goals first
    | (simp; done)
    | (rw [handlePieceWriteDone_no_panic]
       all_goals first
         | rfl
         | (intro hg _ h1 h2; simpa using hbit hg (by simpa using h1) (by simpa using h2))
         | (intro hg _ h1 h2; simp only [Bool.and_eq_true] at hg; simpa using hbit hg.1 (by simpa using h1) (by simpa using h2))
         | (intro hg h; cases h)
         | (simpa using hcc))

end Rain.Loop
