import RainModel.Lemmas.LoopFrame
/-!
`handleMetadataData` (C13, C06, C19, C04): when the message completes a metadata download with the right
hash the handler is `hmdAdopt`, otherwise `info` keeps its value; `hmdAdopt` adopts the info dictionary
exactly when it is within `Config.MaxPieces` and not private; an adopted dictionary starts the allocator
unless `StopAfterMetadata` is set.  Imports only the state-level frame lemmas.
-/
namespace Rain.Loop

/-- The state in which `hmdAdopt` runs: block `i` of the download `d` of peer `k` has been stored. -/
def hmdStored (m : M) (d : IDl) (k i : Nat) (good : Bool) : M :=
  onSt m fun s => { s with idls := s.idls.map fun x =>
    if x.k = k then { d with pending := d.pending - 1, blocks := d.blocks.set i (some good) } else x }

/-- The message is block `i` of the running download `d` of peer `k`, with the right length, and the first
answer for that block (a repeated one closes the peer, C17-F6); it was the last block outstanding and the
assembled buffer has the announced size and the right hash. -/
def HmdComplete (m : M) (d : IDl) (k i len : Nat) (good : Bool) : Prop :=
  m.1.idls.find? (·.k = k) = some d ∧ i < d.nb ∧ len = blockSizeOf d.size i ∧
    (d.blocks.getD i none).isSome = false ∧ d.pending - 1 = 0 ∧
    d.size = m.1.isize ∧ ∀ x ∈ d.blocks.set i (some good), x = some true

/-- A message that completes a download with the right hash is handled by `hmdAdopt`. -/
theorem handleMetadataData_complete (m : M) (d : IDl) (k i len : Nat) (good : Bool)
    (h : HmdComplete m d k i len good) :
    handleMetadataData m k i len good = hmdAdopt (hmdStored m d k i good) := by
  obtain ⟨hd, hi, hlen, hfirst, hpend, hsz, hall⟩ := h
  rw [handleMetadataData_eq, hd]
  dsimp only
  unfold hmdBlock
  have h1 : ¬ i ≥ d.nb := by omega
  have h3 : (decide (d.size = m.1.isize) && (d.blocks.set i (some good)).all (· = some true)) = true := by
    simp only [Bool.and_eq_true, decide_eq_true_eq, List.all_eq_true]
    exact ⟨hsz, hall⟩
  simp only [h1, hlen, hfirst, hpend, h3, ↓reduceIte, ne_eq, not_true_eq_false, Bool.not_true, Bool.false_eq_true]
  rfl

/-- Any other message leaves `info` alone. -/
theorem handleMetadataData_info_cases (m : M) (k i len : Nat) (good : Bool) :
    (handleMetadataData m k i len good).1.info = m.1.info ∨ ∃ d, HmdComplete m d k i len good := by
  rw [handleMetadataData_eq]
  split
  · exact Or.inl rfl
  · next d hd =>
    unfold hmdBlock
    dsimp only
    split
    · left; simp
    · next hi =>
      split
      · left; simp
      · next hlen =>
        split
        · left; simp
        · next hfirst =>
          split
          · left; simp
          · next hpend =>
            split
            · left; simp
            · next hhash =>
              right
              refine ⟨d, hd, by omega, by simpa using hlen, by simpa using hfirst, by simpa using hpend, ?_⟩
              simp only [Bool.not_eq_true', Bool.and_eq_false_iff, not_or, Bool.not_eq_false] at hhash
              simp only [decide_eq_true_eq, List.all_eq_true] at hhash
              exact ⟨hhash.1, fun x hx => by simpa using hhash.2 x hx⟩

theorem hmdStart_keeps_info (m : M) : (hmdStart m).1.info = m.1.info := by
  unfold hmdStart
  split
  · simp
  · simp only [onSt_fst]; split <;> simp

/-- `parseInfo`'s verdict: the downloaded info dictionary is adopted exactly when it has at most
`Config.MaxPieces` pieces and is not private. -/
theorem hmdAdopt_info_eq (m : M) :
    (hmdAdopt m).1.info = (m.1.info || (decide (m.1.cfg.n ≤ m.1.cfg.maxPieces) && !m.1.cfg.isPrivate)) := by
  unfold hmdAdopt
  dsimp only
  split
  · next h =>
    have : ¬ m.1.cfg.n ≤ m.1.cfg.maxPieces := by simpa using h
    simp [this]
  · next h =>
    have h' : m.1.cfg.n ≤ m.1.cfg.maxPieces := by simpa using h
    split
    · next hp =>
      have hp' : m.1.cfg.isPrivate = true := hp
      simp [hp']
    · next hp =>
      have hp' : m.1.cfg.isPrivate = false := by simpa using hp
      rw [hmdStart_keeps_info]
      simp [h', hp']

/-- A refused info dictionary (too many pieces, or private): the metadata downloads are dropped and the
torrent is stopped with an error. -/
theorem hmdAdopt_refused (m : M) (h : m.1.cfg.n > m.1.cfg.maxPieces ∨ m.1.cfg.isPrivate = true) :
    (hmdAdopt m).1 = ({ m.1 with idls := [] } : St).stop true := by
  unfold hmdAdopt
  dsimp only
  split
  · rfl
  · next hn =>
    rcases h with h | h
    · exact absurd h hn
    · have : (onSt m fun s => { s with idls := [] }).1.cfg.isPrivate = true := h
      rw [if_pos this]; rfl

/-- An accepted info dictionary: adopted, then `hmdStart`. -/
theorem hmdAdopt_accepted (m : M) (hn : m.1.cfg.n ≤ m.1.cfg.maxPieces) (hp : m.1.cfg.isPrivate = false) :
    hmdAdopt m = hmdStart (onSt m fun s => { s with idls := [], info := true, metaDone := true }) := by
  unfold hmdAdopt
  dsimp only
  have h1 : ¬ (onSt m fun s => { s with idls := [] }).1.cfg.n > (onSt m fun s => { s with idls := [] }).1.cfg.maxPieces := by
    show ¬ m.1.cfg.n > m.1.cfg.maxPieces
    omega
  have h2 : ¬ (onSt m fun s => { s with idls := [] }).1.cfg.isPrivate = true := by
    show ¬ m.1.cfg.isPrivate = true
    rw [hp]; exact Bool.false_ne_true
  rw [if_neg h1, if_neg h2]
  rfl

end Rain.Loop
