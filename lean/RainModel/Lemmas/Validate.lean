import RainModel.Model.Validate
import RainModel.Lemmas.Path
/-!
Helper lemmas for M-VALID (C06/C07): elimination of an accepting run of `newInfo`, the length
loop, the file-construction loop.
-/
namespace Rain.Validate
open Rain.Path

/-- One output file as `buildFiles` makes it. -/
def mkFile (pad : Bool) (cname : Bytes) (f : Int × List Bytes × Bool) : FileOut :=
  { length := f.1, path := fpJoin (cname :: f.2.1.map cleanName), padding := pad && f.2.2 }

/-- Everything an accepting run of the repaired `NewInfo` went through. -/
theorem newInfo_ok_elim (p : Params) (ib : InfoIn) (o : InfoOut) (h : newInfo p ib = .ok o) :
    ib.pieceLength ≠ 0 ∧ ib.piecesLen % 20 = 0 ∧ ib.piecesLen / 20 ≠ 0 ∧
    isDotOrDotDotName (effName p.utf8 ib) = false ∧
    (effFiles p.utf8 ib).any (fun f => f.2.1.any isDotDotName) = false ∧
    ∃ length padding fs,
      lengthsOf true (effFiles p.utf8 ib) ib.length = .ok (length, padding) ∧
      deltaBad ib.pieceLength ((ib.piecesLen / 20) % two32) length = false ∧
      (if (effFiles p.utf8 ib).isEmpty then
          .ok [{ length := length,
                 path := cleanName (if effName p.utf8 ib ≠ [] then effName p.utf8 ib else p.hashHex),
                 padding := false }]
        else buildFiles p.pad (cleanName (if effName p.utf8 ib ≠ [] then effName p.utf8 ib else p.hashHex))
              (effFiles p.utf8 ib) [] []) = .ok fs ∧
      o = { pieceLength := ib.pieceLength, numPieces := (ib.piecesLen / 20) % two32, length := length,
            padding := padding,
            name := (if effName p.utf8 ib ≠ [] then effName p.utf8 ib else p.hashHex),
            priv := parsePrivate ib.priv, files := fs } := by
  unfold newInfo newInfoWith at h
  split at h
  · cases h
  rename_i h1
  split at h
  · cases h
  rename_i h2
  split at h
  · cases h
  rename_i h3
  simp only [Bool.true_and] at h
  split at h
  · cases h
  rename_i h4
  split at h
  · cases h
  rename_i h5
  split at h
  · cases h
  rename_i length padding hl
  split at h
  · cases h
  rename_i h6
  split at h
  · cases h
  rename_i fs hfs
  cases h
  refine ⟨h1, by simpa using h2, h3, by simpa using h4, Bool.eq_false_iff.mpr h5, length, padding, fs, hl, by simpa using h6, hfs, rfl⟩

/-! ### the length loop -/

theorem sumLengths_spec (l : List (Int × Bool)) (len pad L P : Int)
    (h : sumLengths l len pad = .ok (L, P)) (h0 : 0 ≤ pad) (h1 : pad ≤ len) (h2 : len ≤ maxInt64) :
    (∀ x ∈ l, 0 ≤ x.1) ∧ L = len + sumInt (l.map (·.1)) ∧ 0 ≤ P ∧ P ≤ L ∧ L ≤ maxInt64 := by
  induction l generalizing len pad with
  | nil =>
    simp [sumLengths] at h
    obtain ⟨rfl, rfl⟩ := h
    simp [sumInt, h0, h1, h2]
  | cons x r ih =>
    obtain ⟨v, isPad⟩ := x
    unfold sumLengths at h
    split at h
    · cases h
    rename_i hneg
    split at h
    · cases h
    rename_i hov
    have hv : 0 ≤ v := by omega
    have hle : len + v ≤ maxInt64 := by omega
    have := ih (len + v) (if isPad then pad + v else pad) h
      (by split <;> omega) (by split <;> omega) hle
    obtain ⟨ha, hb, hc, hd, he⟩ := this
    refine ⟨?_, ?_, hc, hd, he⟩
    · intro y hy
      rcases List.mem_cons.mp hy with e | e
      · rw [e]; exact hv
      · exact ha y e
    · simp only [List.map_cons, sumInt]
      omega

/-! ### the file-construction loop -/

theorem buildFiles_spec (pad : Bool) (cname : Bytes) (files : List (Int × List Bytes × Bool))
    (seen : List Bytes) (acc fs : List FileOut)
    (h : buildFiles pad cname files seen acc = .ok fs) :
    fs = acc.reverse ++ files.map (mkFile pad cname) ∧
    (((files.map (mkFile pad cname)).filter (fun f => !f.padding)).map (·.path)).Pairwise (· ≠ ·) ∧
    ∀ x ∈ ((files.map (mkFile pad cname)).filter (fun f => !f.padding)).map (·.path), x ∉ seen := by
  induction files generalizing seen acc with
  | nil =>
    simp [buildFiles] at h
    simp [h]
  | cons f r ih =>
    obtain ⟨l, path, isPadF⟩ := f
    unfold buildFiles at h
    simp only at h
    split at h
    · cases h
    rename_i hdup
    have := ih _ _ h
    obtain ⟨h1, h2, h3⟩ := this
    refine ⟨?_, ?_, ?_⟩
    · rw [h1]; simp [mkFile]
    · by_cases hp : (pad && isPadF) = true
      · -- padding file: not part of the filtered list
        have : ((mkFile pad cname (l, path, isPadF)) :: r.map (mkFile pad cname)).filter (fun f => !f.padding)
            = (r.map (mkFile pad cname)).filter (fun f => !f.padding) := by
          rw [List.filter_cons]; simp [mkFile, hp]
        simp only [List.map_cons]
        rw [this]; exact h2
      · have hp' : (pad && isPadF) = false := by simpa using hp
        have : ((mkFile pad cname (l, path, isPadF)) :: r.map (mkFile pad cname)).filter (fun f => !f.padding)
            = mkFile pad cname (l, path, isPadF) :: (r.map (mkFile pad cname)).filter (fun f => !f.padding) := by
          rw [List.filter_cons]; simp [mkFile, hp']
        simp only [List.map_cons]
        rw [this]
        simp only [List.map_cons, List.pairwise_cons]
        refine ⟨?_, h2⟩
        intro x hx
        have := h3 x hx
        simp only [hp', Bool.false_eq_true, if_false] at this
        intro e
        apply this
        rw [← e]
        simp [mkFile]
    · intro x hx
      by_cases hp : (pad && isPadF) = true
      · have : ((mkFile pad cname (l, path, isPadF)) :: r.map (mkFile pad cname)).filter (fun f => !f.padding)
            = (r.map (mkFile pad cname)).filter (fun f => !f.padding) := by
          rw [List.filter_cons]; simp [mkFile, hp]
        simp only [List.map_cons] at hx
        rw [this] at hx
        have := h3 x hx
        simpa [hp] using this
      · have hp' : (pad && isPadF) = false := by simpa using hp
        have : ((mkFile pad cname (l, path, isPadF)) :: r.map (mkFile pad cname)).filter (fun f => !f.padding)
            = mkFile pad cname (l, path, isPadF) :: (r.map (mkFile pad cname)).filter (fun f => !f.padding) := by
          rw [List.filter_cons]; simp [mkFile, hp']
        simp only [List.map_cons] at hx
        rw [this] at hx
        simp only [List.map_cons] at hx
        rcases List.mem_cons.mp hx with e | e
        · -- the head itself: it was not in `seen` (duplicate test)
          simp only [hp', Bool.not_false, Bool.true_and] at hdup
          rw [e]
          simpa [mkFile] using hdup
        · have := h3 x e
          simp only [hp', Bool.false_eq_true, if_false] at this
          intro hm
          exact this (List.mem_cons_of_mem _ hm)

/-! ### arithmetic and `WF` -/

theorem wrap64_id (x : Int) (h1 : -two63 ≤ x) (h2 : x < two63) : wrap64 x = x := by
  unfold wrap64 two63 two64 at *
  omega

theorem WF_intro (o : InfoOut)
    (h1 : 0 < o.pieceLength) (h2 : o.pieceLength < two32) (h3 : 1 ≤ o.numPieces) (h4 : o.numPieces < two32)
    (h5 : o.files ≠ []) (h6 : ∀ f ∈ o.files, 0 ≤ f.length)
    (h7 : sumInt (o.files.map (·.length)) = o.length) (h8 : o.length ≤ maxInt64)
    (h9 : ((o.numPieces : Int) - 1) * (o.pieceLength : Int) < o.length)
    (h10 : o.length ≤ (o.numPieces : Int) * (o.pieceLength : Int))
    (h11 : 0 ≤ o.padding) (h12 : o.padding ≤ o.length) : WF o = true := by
  unfold WF
  simp only [Bool.and_eq_true, decide_eq_true_eq, List.all_eq_true, beq_iff_eq, Bool.not_eq_true', List.isEmpty_eq_false_iff]
  exact ⟨⟨⟨⟨⟨⟨⟨⟨⟨⟨⟨h1, h2⟩, h3⟩, h4⟩, h5⟩, h6⟩, h7⟩, h8⟩, h9⟩, h10⟩, h11⟩, h12⟩

theorem sumInt_map_mkFile (pad : Bool) (cname : Bytes) (files : List (Int × List Bytes × Bool)) :
    sumInt ((files.map (mkFile pad cname)).map (·.length)) =
    sumInt ((files.map fun f => (f.1, f.2.2)).map (·.1)) := by
  induction files with
  | nil => rfl
  | cons f r ih => simp only [List.map_cons, sumInt, ih, mkFile]


end Rain.Validate
