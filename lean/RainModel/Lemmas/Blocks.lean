import RainModel.Model.Blocks
/-! Helper lemmas for `calcBlocks_tiles` (C02). -/
namespace Rain.Blocks

/-- Loop invariant of `calculateBlocks`, relative to the mask `M` of the bytes consumed so far. -/
def Inv (bs : Nat) (c : CB) (M : List Bool) : Prop :=
  ∃ m : List Bool,
    blkMask c.out.reverse = some m ∧ m.length ≤ c.bb ∧ c.bb + c.bl = c.off ∧ c.bl ≤ bs ∧
    m ++ List.replicate (c.bb - m.length) false ++ List.replicate c.bl true = M ∧
    ∀ b ∈ c.out, 0 < b.l ∧ b.l ≤ bs

theorem blkMask_snoc (l : List Block) (b : Block) (m : List Bool) (h : blkMask l = some m) :
    blkMask (l ++ [b]) = paint m b := by
  unfold blkMask at *
  simp [List.foldlM_append, h]

theorem Inv.off_eq {bs c M} (h : Inv bs c M) : c.off = M.length := by
  obtain ⟨m, _, hlen, hoff, _, hM, _⟩ := h
  subst hM
  simp
  omega

theorem close_inv {bs : Nat} {c : CB} {M : List Bool} (m : List Bool) (hm : blkMask c.out.reverse = some m)
    (hlen : m.length ≤ c.bb) (hbl : c.bl ≤ bs) (h0 : ¬ c.bl = 0)
    (hM : m ++ List.replicate (c.bb - m.length) false ++ List.replicate c.bl true = M)
    (hall : ∀ b ∈ c.out, 0 < b.l ∧ b.l ≤ bs) (n : Nat) :
    Inv bs { out := ⟨c.bb, c.bl⟩ :: c.out, bb := c.bb + c.bl + n, bl := 0, off := c.bb + c.bl + n }
      (M ++ List.replicate n false) := by
  refine ⟨m ++ List.replicate (c.bb - m.length) false ++ List.replicate c.bl true, ?_, ?_, ?_, ?_, ?_, ?_⟩
  · simp only [List.reverse_cons]
    rw [blkMask_snoc _ _ _ hm]
    unfold paint
    have : ¬ c.bb < m.length := by omega
    simp [this]
  · simp; omega
  · simp
  · simp
  · have : (m ++ List.replicate (c.bb - m.length) false ++ List.replicate c.bl true).length = c.bb + c.bl := by
      simp; omega
    rw [this, hM]
    have : c.bb + c.bl + n - (c.bb + c.bl) = n := by omega
    simp [this]
  · intro b hb
    simp only [List.mem_cons] at hb
    rcases hb with rfl | hb
    · exact ⟨by simp; omega, by simpa using hbl⟩
    · exact hall b hb

theorem pad_inv {bs c M} (h : Inv bs c M) (n : Nat) :
    Inv bs (CB.nextBlock { c with off := c.off + n }) (M ++ List.replicate n false) ∧
    (CB.nextBlock { c with off := c.off + n }).bl = 0 := by
  obtain ⟨m, hm, hlen, hoff, hbl, hM, hall⟩ := h
  unfold CB.nextBlock
  by_cases h0 : c.bl = 0
  · rw [if_pos h0]
    have hbb : c.bb = c.off := by omega
    refine ⟨⟨m, hm, ?_, ?_, ?_, ?_, hall⟩, h0⟩
    · simp only; omega
    · simp only [h0]; omega
    · simp only [h0]; omega
    · simp only [h0, List.replicate_zero, List.append_nil] at hM ⊢
      rw [← hM]
      have : c.off + n - m.length = (c.bb - m.length) + n := by omega
      rw [this, ← List.replicate_append_replicate]
      simp
  · rw [if_neg h0]
    refine ⟨?_, rfl⟩
    have := close_inv (bs := bs) m hm hlen hbl h0 hM hall n
    simpa [hoff] using this

theorem nextBlock_inv {bs c M} (h : Inv bs c M) : Inv bs c.nextBlock M ∧ c.nextBlock.bl = 0 := by
  have := pad_inv h 0
  simpa using this

/-- Adding `n` data bytes to the open block. -/
theorem grow_inv {bs c M} (h : Inv bs c M) (n : Nat) (hn : c.bl + n ≤ bs) :
    Inv bs { c with bl := c.bl + n, off := c.off + n } (M ++ List.replicate n true) := by
  obtain ⟨m, hm, hlen, hoff, hbl, hM, hall⟩ := h
  refine ⟨m, hm, hlen, by simp; omega, hn, ?_, hall⟩
  simp only
  rw [← hM, ← List.replicate_append_replicate]
  simp

theorem fillData_inv (bs : Nat) (hbs : 0 < bs) :
    ∀ (fuel left : Nat) (c : CB) (M : List Bool), Inv bs c M → c.bl < bs → left < fuel →
      Inv bs (fillData CB.nextBlock bs fuel left c) (M ++ List.replicate left true) ∧
      (fillData CB.nextBlock bs fuel left c).bl < bs := by
  intro fuel
  induction fuel with
  | zero => intro left c M _ _ h; omega
  | succ fuel ih =>
    intro left c M hinv hlt hfuel
    unfold fillData
    simp only
    have hn : c.bl + min left (bs - c.bl) ≤ bs := by omega
    have h1 := grow_inv hinv (min left (bs - c.bl)) hn
    -- c2
    have h2 : Inv bs (if bs - (c.bl + min left (bs - c.bl)) = 0
          then CB.nextBlock { c with bl := c.bl + min left (bs - c.bl), off := c.off + min left (bs - c.bl) }
          else { c with bl := c.bl + min left (bs - c.bl), off := c.off + min left (bs - c.bl) })
          (M ++ List.replicate (min left (bs - c.bl)) true) ∧
        (if bs - (c.bl + min left (bs - c.bl)) = 0
          then CB.nextBlock { c with bl := c.bl + min left (bs - c.bl), off := c.off + min left (bs - c.bl) }
          else { c with bl := c.bl + min left (bs - c.bl), off := c.off + min left (bs - c.bl) }).bl < bs := by
      by_cases hz : bs - (c.bl + min left (bs - c.bl)) = 0
      · rw [if_pos hz]
        have := nextBlock_inv h1
        exact ⟨this.1, by rw [this.2]; exact hbs⟩
      · rw [if_neg hz]
        exact ⟨h1, by show c.bl + min left (bs - c.bl) < bs; omega⟩
    by_cases hl : left - min left (bs - c.bl) = 0
    · rw [if_pos hl]
      have : min left (bs - c.bl) = left := by omega
      rw [this] at h2 ⊢
      exact h2
    · rw [if_neg hl]
      have hlt' : left - min left (bs - c.bl) < fuel := by omega
      have := ih (left - min left (bs - c.bl)) _ _ h2.1 h2.2 hlt'
      have e : M ++ List.replicate (min left (bs - c.bl)) true ++ List.replicate (left - min left (bs - c.bl)) true
             = M ++ List.replicate left true := by
        rw [List.append_assoc, List.replicate_append_replicate]
        congr 2
        omega
      rw [e] at this
      exact this

theorem stepSec_inv (bs : Nat) (hbs : 0 < bs) (c : CB) (M : List Bool) (s : Sec)
    (h : Inv bs c M) (hlt : c.bl < bs) :
    Inv bs (stepSec CB.nextBlock bs c s) (M ++ List.replicate s.len (!s.pad)) ∧
    (stepSec CB.nextBlock bs c s).bl < bs := by
  unfold stepSec
  by_cases hp : s.pad
  · simp only [hp, if_true]
    have := pad_inv h s.len
    exact ⟨by simpa using this.1, by rw [this.2]; exact hbs⟩
  · simp only [hp]
    simpa using fillData_inv bs hbs (s.len + 1) s.len c M h hlt (by omega)

theorem foldl_inv (bs : Nat) (hbs : 0 < bs) (secs : List Sec) :
    ∀ (c : CB) (M : List Bool), Inv bs c M → c.bl < bs →
      Inv bs (secs.foldl (stepSec CB.nextBlock bs) c) (M ++ secMask secs) ∧
      (secs.foldl (stepSec CB.nextBlock bs) c).bl < bs := by
  induction secs with
  | nil => intro c M h hlt; simpa [secMask] using ⟨h, hlt⟩
  | cons s rest ih =>
    intro c M h hlt
    have h1 := stepSec_inv bs hbs c M s h hlt
    have := ih _ _ h1.1 h1.2
    simpa [secMask, List.append_assoc] using this

theorem secMask_length (secs : List Sec) : (secMask secs).length = total secs := by
  induction secs with
  | nil => rfl
  | cons s rest ih =>
    simp only [secMask, List.flatMap_cons, List.length_append, List.length_replicate, total,
      List.map_cons, List.sum_cons] at *
    omega

theorem init_inv (bs : Nat) : Inv bs { out := [], bb := 0, bl := 0, off := 0 } [] := by
  refine ⟨[], ?_, ?_, ?_, ?_, ?_, ?_⟩ <;> simp [blkMask]

theorem runWith_tiles (bs : Nat) (hbs : 0 < bs) (secs : List Sec) :
    Tiles bs secs (runWith CB.nextBlock bs secs) = true := by
  have h := foldl_inv bs hbs secs _ _ (init_inv bs) hbs
  have hn := nextBlock_inv h.1
  obtain ⟨m, hm, hlen, hoff, hbl, hM, hall⟩ := hn.1
  have hoffM := Inv.off_eq hn.1
  simp only [List.nil_append] at hM hoffM
  unfold Tiles runWith
  simp only [Bool.and_eq_true, List.all_eq_true, decide_eq_true_eq]
  constructor
  · intro b hb
    have := hall b (by simpa using hb)
    simp [this.1, this.2]
  · rw [hm]
    simp only [Bool.and_eq_true, decide_eq_true_eq, beq_iff_eq]
    rw [hn.2] at hM hoff
    rw [secMask_length] at hoffM
    simp only [List.replicate_zero, List.append_nil] at hM
    constructor
    · omega
    · unfold padTo
      rw [← hM]
      congr 2
      omega

end Rain.Blocks
