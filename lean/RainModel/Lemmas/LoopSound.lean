import RainModel.Lemmas.LoopWritten
/-!
Soundness of the bitfield and of the resume bitfield (C01/C05): preservation by every handler.
-/
namespace Rain.Loop

/-- Static well-formedness that every step keeps, whatever happens to the files. -/
structure Sound0 (s : St) : Prop where
  cfg : CfgWF s.cfg
  bad : BadWF s

/-- The soundness invariant: bits and resume bits only for pieces whose bytes are on disk. -/
structure Sound (s : St) : Prop where
  cfg : CfgWF s.cfg
  bad : BadWF s
  bits : ∀ i, bitOf s.bf i = true → s.diskOKi i = true
  pers : PersistedSound s

theorem Sound.zero {s : St} (h : Sound s) : Sound0 s := ⟨h.cfg, h.bad⟩

/-- Bits may be stale only where a file is missing (the weaker statement that survives files being
deleted behind the client's back: the missing file is noticed by the next allocation). -/
def WS (s : St) : Prop :=
  ∀ i, bitOf s.bf i = true → ∀ x ∈ s.bad, x.1 = i → s.fileExists.getD x.2 false = false

/-- A set bit names a piece whose recorded hash is the hash of its true content (whatever happens to
the files: the only pieces for which this can fail are padding-only, and their bit is set by nothing but
a successful hash check of zeroes). -/
def PadSound (s : St) : Prop := ∀ i, bitOf s.bf i = true → s.cfg.padOK i = true

structure WSound (s : St) : Prop where
  cfg : CfgWF s.cfg
  bad : BadWF s
  ws : WS s
  pad : PadSound s

theorem WSound.zero {s : St} (h : WSound s) : Sound0 s := ⟨h.cfg, h.bad⟩

/-- A bitfield, when there is one, has one bit per piece. -/
def BfLen (s : St) : Prop := ∀ b, s.bf = some b → b.length = s.n

/-- Piece `i` exists and its recorded hash is not the hash of its true content (a padding-only piece
with a wrong recorded hash): it can never be verified. -/
def Unver (c : Cfg) (i : Nat) : Prop := i < c.n ∧ c.padOK i = false

/-- No piece that can never be verified has its bit set. -/
def NoBit (s : St) : Prop := ∀ i, Unver s.cfg i → bitOf s.bf i = false

theorem BfLen.of_eq {s s' : St} (h : BfLen s) (hc : s'.cfg = s.cfg) (hbf : s'.bf = s.bf ∨ s'.bf = none) : BfLen s' := by
  intro b hb
  rcases hbf with h' | h'
  · rw [h'] at hb
    have := h b hb
    unfold St.n at *
    rw [hc]; exact this
  · rw [h'] at hb; cases hb

/-- No file that holds a bad section of piece `i` in `s'` has come into existence between `s` and `s'`. -/
def FEle (s s' : St) (i : Nat) : Prop :=
  ∀ x ∈ s'.bad, x.1 = i → s'.fileExists.getD x.2 false = true → s.fileExists.getD x.2 false = true

/-- `s'` is an admissible successor of `s` as far as soundness goes: nothing gets worse on disk, new
bits and new resume bits are justified by the disk, old bits are kept only if no missing file of the
piece was re-created in between. -/
structure Adv (s s' : St) : Prop where
  cfg : s'.cfg = s.cfg
  bad : ∀ x ∈ s'.bad, x ∈ s.bad
  bf : ∀ i, bitOf s'.bf i = true → (bitOf s.bf i = true ∧ FEle s s' i) ∨ s'.diskOKi i = true
  per : ∀ i, bitOf s'.persisted i = true → bitOf s.persisted i = true ∨ bitOf s.bf i = true ∨ s'.diskOKi i = true
  /-- a bitfield has one bit per piece -/
  len : BfLen s → BfLen s'
  /-- with a piece that can never be verified (and has no bit) the torrent does not become complete -/
  nc : BfLen s → NoBit s → (∃ i, Unver s.cfg i) → s.completed = false → s'.completed = false

theorem diskOKi_mono {s s' : St} (hc : s'.cfg = s.cfg) (h : ∀ x ∈ s'.bad, x ∈ s.bad) (i : Nat) (hi : s.diskOKi i = true) :
    s'.diskOKi i = true := by
  rw [diskOKi_eq_true] at *
  exact ⟨fun x hx => hi.1 x (h x hx), hc ▸ hi.2⟩

theorem FEle.refl (s : St) (i : Nat) : FEle s s i := fun _ _ _ h => h

theorem FEle.of_eq {s s' : St} (h : s'.fileExists = s.fileExists) (i : Nat) : FEle s s' i :=
  fun _ _ _ hx => h ▸ hx

theorem Adv.refl (s : St) : Adv s s :=
  ⟨rfl, fun _ h => h, fun i h => Or.inl ⟨h, FEle.refl s i⟩, fun _ h => Or.inl h, fun h => h, fun _ _ _ h => h⟩

/-- Whatever an admissible step does, a piece that can never be verified gets no bit: a new bit is
justified by the disk, and `diskOKi` includes the recorded hash being right. -/
theorem Adv.noBit {s s' : St} (a : Adv s s') (h : NoBit s) : NoBit s' := by
  intro i hi
  have hi' : Unver s.cfg i := a.cfg ▸ hi
  cases hb : bitOf s'.bf i with
  | false => rfl
  | true =>
    rcases a.bf i hb with ⟨h', _⟩ | h'
    · rw [h i hi'] at h'; cases h'
    · have := ((diskOKi_eq_true s' i).1 h').2
      rw [hi.2] at this; cases this

theorem Adv.trans {a b c : St} (h1 : Adv a b) (h2 : Adv b c) : Adv a c where
  cfg := h2.cfg.trans h1.cfg
  bad := fun x hx => h1.bad x (h2.bad x hx)
  bf := fun i hi => by
    rcases h2.bf i hi with ⟨h, f2⟩ | h
    · rcases h1.bf i h with ⟨h, f1⟩ | h
      · exact Or.inl ⟨h, fun x hx hxi hF => f1 x (h2.bad x hx) hxi (f2 x hx hxi hF)⟩
      · exact Or.inr (diskOKi_mono h2.cfg h2.bad i h)
    · exact Or.inr h
  per := fun i hi => by
    rcases h2.per i hi with h | h | h
    · rcases h1.per i h with h | h | h
      · exact Or.inl h
      · exact Or.inr (Or.inl h)
      · exact Or.inr (Or.inr (diskOKi_mono h2.cfg h2.bad i h))
    · rcases h1.bf i h with ⟨h, _⟩ | h
      · exact Or.inr (Or.inl h)
      · exact Or.inr (Or.inr (diskOKi_mono h2.cfg h2.bad i h))
    · exact Or.inr (Or.inr h)
  len := fun h => h2.len (h1.len h)
  nc := fun hl hn hu hc =>
    h2.nc (h1.len hl) (h1.noBit hn) (by obtain ⟨i, hi⟩ := hu; exact ⟨i, h1.cfg ▸ hi⟩) (h1.nc hl hn hu hc)

theorem Sound0.adv {s s' : St} (h : Sound0 s) (a : Adv s s') : Sound0 s' where
  cfg := a.cfg ▸ h.cfg
  bad := fun x hx => by
    have := h.bad x (a.bad x hx)
    rwa [a.cfg]

theorem Sound.adv {s s' : St} (h : Sound s) (a : Adv s s') : Sound s' where
  cfg := (h.zero.adv a).cfg
  bad := (h.zero.adv a).bad
  bits := fun i hi => by
    rcases a.bf i hi with ⟨h', _⟩ | h'
    · exact diskOKi_mono a.cfg a.bad i (h.bits i h')
    · exact h'
  pers := fun i hi => by
    rcases a.per i hi with h' | h' | h'
    · exact diskOKi_mono a.cfg a.bad i (h.pers i h')
    · exact diskOKi_mono a.cfg a.bad i (h.bits i h')
    · exact h'

theorem PadSound.adv {s s' : St} (h : PadSound s) (a : Adv s s') : PadSound s' := fun i hi => by
  rcases a.bf i hi with ⟨h', _⟩ | h'
  · rw [a.cfg]; exact h i h'
  · exact padOK_of_diskOKi h'

theorem WSound.adv {s s' : St} (h : WSound s) (a : Adv s s') : WSound s' where
  cfg := (h.zero.adv a).cfg
  bad := (h.zero.adv a).bad
  pad := h.pad.adv a
  ws := fun i hi x hx hxi => by
    rcases a.bf i hi with ⟨h', f⟩ | h'
    · have hmiss := h.ws i h' x (a.bad x hx) hxi
      cases hF : s'.fileExists.getD x.2 false
      · rfl
      · have := f x hx hxi hF
        rw [hmiss] at this; cases this
    · rw [diskOKi_eq_true] at h'
      exact absurd hxi (h'.1 x hx)

/-- The common case: configuration, disk and files untouched, bitfield kept or dropped, resume bitfield
kept, dropped or overwritten with the bitfield. -/
theorem Adv.of_eq {s s' : St} (hc : s'.cfg = s.cfg) (hb : s'.bad = s.bad) (hf : s'.fileExists = s.fileExists)
    (hbf : s'.bf = s.bf ∨ s'.bf = none)
    (hp : s'.persisted = s.persisted ∨ s'.persisted = s.bf ∨ s'.persisted = none)
    (hcm : s'.completed = true → s.completed = true := by first | exact id | (simp; done)) : Adv s s' where
  len := fun h => h.of_eq hc hbf
  nc := fun _ _ _ h => by
    cases hc' : s'.completed with
    | false => rfl
    | true => rw [hcm hc'] at h; cases h
  cfg := hc
  bad := fun x hx => hb ▸ hx
  bf := fun i hi => by
    rcases hbf with h | h
    · exact Or.inl ⟨h ▸ hi, FEle.of_eq hf i⟩
    · rw [h] at hi; cases hi
  per := fun i hi => by
    rcases hp with h | h | h
    · exact Or.inl (h ▸ hi)
    · exact Or.inr (Or.inl (h ▸ hi))
    · rw [h] at hi; cases hi

theorem Adv.frame {s s' : St} (hc : s'.cfg = s.cfg) (hb : s'.bad = s.bad) (hf : s'.fileExists = s.fileExists)
    (hbf : s'.bf = s.bf) (hp : s'.persisted = s.persisted)
    (hcm : s'.completed = true → s.completed = true := by first | exact id | (simp; done)) : Adv s s' :=
  Adv.of_eq hc hb hf (Or.inl hbf) (Or.inl hp) hcm

/-! ### stop, writeBitfield -/

theorem writeBitfield_persisted (s : St) :
    s.writeBitfield.persisted = s.persisted ∨ s.writeBitfield.persisted = s.bf ∨ s.writeBitfield.persisted = none := by
  unfold St.writeBitfield
  split
  · next b hb => right; left; simp [hb]
  · left; simp

theorem stopAlloc_bf (s : St) : (stopAlloc s).bf = s.bf ∨ (stopAlloc s).bf = none := by
  unfold stopAlloc
  split
  · dsimp only
    split
    · right; rfl
    · left; rfl
  · left; rfl

theorem stopAlloc_persisted (s : St) : (stopAlloc s).persisted = s.persisted ∨ (stopAlloc s).persisted = none := by
  unfold stopAlloc
  split
  · dsimp only
    split
    · right; rfl
    · left; rfl
  · left; rfl

theorem stop_bf (s : St) (e : Bool) : (s.stop e).bf = s.bf ∨ (s.stop e).bf = none := by
  rw [stop_eq]
  split
  · left; rfl
  · simp only [stopRun, stopFin_bf, stopVer_bf]
    have := stopAlloc_bf (stopWB (stopClear (stopPeers (stopA s e)))).closeData
    simpa using this

theorem stop_persisted (s : St) (e : Bool) :
    (s.stop e).persisted = s.persisted ∨ (s.stop e).persisted = s.bf ∨ (s.stop e).persisted = none := by
  rw [stop_eq]
  split
  · left; rfl
  · simp only [stopRun, stopFin_persisted, stopVer_persisted]
    rcases stopAlloc_persisted (stopWB (stopClear (stopPeers (stopA s e)))).closeData with h | h
    · rw [h]
      simp only [closeData_persisted]
      unfold stopWB
      split
      · have := writeBitfield_persisted (stopClear (stopPeers (stopA s e)))
        simpa using this
      · left; simp
    · right; right; exact h

theorem stop_persisted' (s : St) (e : Bool) {p b : Option (List Bool)} (hp : s.persisted = p) (hb : s.bf = b) :
    (s.stop e).persisted = p ∨ (s.stop e).persisted = b ∨ (s.stop e).persisted = none :=
  hp ▸ hb ▸ stop_persisted s e

theorem stop_bf' (s : St) (e : Bool) {b : Option (List Bool)} (hb : s.bf = b) :
    (s.stop e).bf = b ∨ (s.stop e).bf = none := hb ▸ stop_bf s e

theorem writeBitfield_adv (s : St) : Adv s s.writeBitfield :=
  Adv.of_eq (by simp) (by simp) (by simp) (Or.inl (by simp)) (writeBitfield_persisted s)

theorem getD_map_range (n : Nat) (g : Nat → Bool) (f : Nat) :
    ((List.range n).map g).getD f false = (decide (f < n) && g f) := by
  by_cases h : f < n
  · simp [List.getD, h]
  · simp [List.getD, h]

/-- The dropped-allocator branch of `stop`: either the bitfield is forgotten, or no file came into existence. -/
theorem stopAlloc_fe (s : St) :
    (stopAlloc s).bf = none ∨
    ((stopAlloc s).bf = s.bf ∧ ∀ f, (stopAlloc s).fileExists.getD f false = true → s.fileExists.getD f false = true) := by
  unfold stopAlloc
  split
  · dsimp only
    split
    · exact Or.inl rfl
    · next hany =>
      refine Or.inr ⟨rfl, fun f hf => ?_⟩
      rw [getD_map_range] at hf
      simp only [Bool.and_eq_true, decide_eq_true_eq, Bool.or_eq_true] at hf
      rcases hf.2 with h | h
      · exact h
      · simp only [Bool.not_eq_true, List.any_eq_false] at hany
        have := hany f (by simpa using h)
        simpa using this
  · exact Or.inr ⟨rfl, fun _ h => h⟩

theorem stop_fe (s : St) (e : Bool) :
    (s.stop e).bf = none ∨
    ((s.stop e).bf = s.bf ∧ ∀ f, (s.stop e).fileExists.getD f false = true → s.fileExists.getD f false = true) := by
  rw [stop_eq]
  split
  · exact Or.inr ⟨rfl, fun _ h => h⟩
  · simp only [stopRun, stopFin_bf, stopVer_bf, stopFin_fileExists, stopVer_fileExists]
    rcases stopAlloc_fe (stopWB (stopClear (stopPeers (stopA s e)))).closeData with h | ⟨h1, h2⟩
    · exact Or.inl h
    · refine Or.inr ⟨by rw [h1]; simp, fun f hf => ?_⟩
      have := h2 f hf
      simpa using this

theorem stop_adv (s : St) (e : Bool) : Adv s (s.stop e) where
  len := fun h => h.of_eq (by simp) (stop_bf s e)
  nc := fun _ _ _ h => by simpa using h
  cfg := by simp
  bad := fun x hx => by simpa using hx
  bf := fun i hi => by
    rcases stop_fe s e with h | ⟨h1, h2⟩
    · rw [h] at hi; cases hi
    · exact Or.inl ⟨h1 ▸ hi, fun x _ _ hF => h2 _ hF⟩
  per := fun i hi => by
    rcases stop_persisted s e with h | h | h
    · exact Or.inl (h ▸ hi)
    · exact Or.inr (Or.inl (h ▸ hi))
    · rw [h] at hi; cases hi

/-- `stop` applied to a state that agrees with `a` on the relevant fields. -/
theorem stop_adv' (a s : St) (e : Bool) (hc : s.cfg = a.cfg) (hb : s.bad = a.bad) (hf : s.fileExists = a.fileExists)
    (hbf : s.bf = a.bf) (hp : s.persisted = a.persisted)
    (hcm : s.completed = true → a.completed = true := by first | exact id | (simp; done)) : Adv a (s.stop e) :=
  (Adv.frame hc hb hf hbf hp hcm).trans (stop_adv s e)

/-- Closes `Adv a b` when `b` agrees with `a` on cfg, bad, fileExists, bf, persisted (frame simp lemmas). -/
macro "adv_frame" : tactic => `(tactic| (apply Adv.frame <;> first | rfl | (simp; done)))

/-! ### Handlers that touch neither bitfield nor disk -/

theorem closePeer_adv (s : St) (k : Nat) : Adv s (s.closePeer k) := by adv_frame
theorem handlePieceMessage_adv (m : M) (k i b l : Nat) (g : Bool) : Adv m.1 (handlePieceMessage m k i b l g).1 := by adv_frame
theorem handlePeerMessage_adv (m : M) (k : Nat) (msg : Msg) : Adv m.1 (handlePeerMessage m k msg).1 := by adv_frame
theorem processQueued_adv (m : M) : Adv m.1 (processQueued m).1 := by adv_frame
theorem startCore_adv (m : M) : Adv m.1 (startCore m).1 := by adv_frame
theorem handleExtHandshake_adv (m : M) (k : Nat) (hm : Bool) (sz : Nat) (hp : Bool) :
    Adv m.1 (handleExtHandshake m k hm sz hp).1 := by adv_frame
theorem handlePex_adv (m : M) (a d : Bool) : Adv m.1 (handlePex m a d).1 := by adv_frame
theorem handleDhtPeers_adv (m : M) (ne : Bool) : Adv m.1 (handleDhtPeers m ne).1 := by adv_frame
theorem handlePeerSnubbed_adv (m : M) (k : Nat) : Adv m.1 (handlePeerSnubbed m k).1 := by adv_frame
theorem handleMetadataReject_adv (m : M) (k : Nat) : Adv m.1 (handleMetadataReject m k).1 := by adv_frame
theorem acceptPeer_adv (m : M) (k : Nat) (ip : String) (fast ext bad dup : Bool) :
    Adv m.1 (acceptPeer m k ip fast ext bad dup).1.1 := by adv_frame
theorem allTrue_false_of_bit {b : List Bool} {i : Nat} (hi : i < b.length) (hb : b.getD i false = false) :
    allTrue b = false := by
  cases h : allTrue b with
  | false => rfl
  | true =>
    unfold allTrue at h
    rw [List.all_eq_true] at h
    have hm : b[i] ∈ b := List.getElem_mem hi
    have := h _ hm
    simp only [id] at this
    rw [List.getD_eq_getElem?_getD, List.getElem?_eq_getElem hi] at hb
    simp only [Option.getD_some] at hb
    rw [hb] at this; cases this

/-- `checkCompletion` leaves bitfield and disk alone; it declares the torrent complete only when every
bit is set — never while a piece that cannot be verified has no bit. -/
theorem checkCompletion_adv (s : St) : Adv s s.checkCompletion.1 := by
  have hc : s.checkCompletion.1.cfg = s.cfg := by simp
  have hb : s.checkCompletion.1.bad = s.bad := by simp
  have hf : s.checkCompletion.1.fileExists = s.fileExists := by simp
  have hbf : s.checkCompletion.1.bf = s.bf := by simp
  have hp : s.checkCompletion.1.persisted = s.persisted := by simp
  refine ⟨hc, fun x hx => hb ▸ hx, fun i hi => Or.inl ⟨hbf ▸ hi, FEle.of_eq hf i⟩, fun i hi => Or.inl (hp ▸ hi),
    fun h => h.of_eq hc (Or.inl hbf), ?_⟩
  intro hl hn hu hcf
  obtain ⟨i, hi⟩ := hu
  unfold St.checkCompletion
  rw [if_neg (by simp [hcf])]
  split
  · unfold St.crash
    dsimp only
    split <;> exact hcf
  · next b hb' =>
    have hbit := hn i hi
    rw [hb'] at hbit
    simp only [bitOf_some] at hbit
    have hlt : i < b.length := by rw [hl b hb']; exact hi.1
    rw [allTrue_false_of_bit hlt hbit]
    exact hcf
theorem hadReady_adv (m : M) : Adv m.1 (hadReady m).1 := by adv_frame
theorem reconcile_adv (s : St) (impl : List ImplDl) : Adv s (reconcile s impl).1 := by adv_frame
theorem reconcileIdl_adv (s : St) (impl : List Nat) : Adv s (reconcileIdl s impl).1 := by adv_frame

theorem hmdStart_adv (m : M) : Adv m.1 (hmdStart m).1 := by
  unfold hmdStart
  split
  · simp only [onSt_fst]; exact stop_adv _ _
  · adv_frame

theorem hmdAdopt_adv (m : M) : Adv m.1 (hmdAdopt m).1 := by
  unfold hmdAdopt
  dsimp only
  repeat' split
  all_goals first
    | (simp only [onSt_fst]; exact stop_adv' _ _ _ rfl rfl rfl rfl rfl)
    | (refine Adv.trans ?_ (hmdStart_adv _); adv_frame)

theorem handleMetadataData_adv (m : M) (k i len : Nat) (g : Bool) :
    Adv m.1 (handleMetadataData m k i len g).1 := by
  rw [handleMetadataData_eq]
  split
  · exact Adv.refl _
  unfold hmdBlock
  dsimp only
  repeat' split
  all_goals first
    | (refine Adv.trans ?_ (hmdAdopt_adv _); adv_frame)
    | adv_frame

/-! ### Commands -/

theorem handleStopped_bf (m : M) : (handleStopped m).1.bf = m.1.bf ∨ (handleStopped m).1.bf = none := by
  unfold handleStopped
  dsimp only
  split
  · right; simp
  · left; simp

theorem handleStopped_adv (m : M) : Adv m.1 (handleStopped m).1 :=
  Adv.of_eq (by simp) (by simp) (by simp) (handleStopped_bf m) (Or.inl (by simp))

/-- `start` while stopping finishes the stop first (`handleStopped`, which may drop the bitfield of a
pending verify); otherwise it is `startCore` or nothing. -/
theorem start_bf (m : M) : (start m).1.bf = m.1.bf ∨ (start m).1.bf = none := by
  rw [start_eq, startGo_bf]
  unfold startPre
  split
  · simpa using handleStopped_bf (onSt m fun s => { s with stopHang := false })
  · left; rfl

theorem start_adv (m : M) : Adv m.1 (start m).1 :=
  Adv.of_eq (by simp) (by simp) (by simp) (start_bf m) (Or.inl (by simp))

theorem handleVerifyCommand_adv (m : M) : Adv m.1 (handleVerifyCommand m).1 := by
  unfold handleVerifyCommand
  dsimp only
  split
  · exact Adv.of_eq (by simp) (by simp) (by simp) (Or.inr (by simp)) (Or.inl (by simp))
  · simp only [onSt_fst]
    exact stop_adv' _ _ _ rfl rfl rfl rfl rfl

/-! ### Allocation -/

theorem length_foldl_setAt (idx : List Nat) (l : List Bool) :
    (idx.foldl (fun d i => setAt d i true) l).length = l.length := by
  induction idx generalizing l with
  | nil => rfl
  | cons a idx ih => rw [List.foldl_cons, ih]; simp [setAt]

theorem markPaddingPieces_adv (s : St) (h : Sound0 s) : Adv s s.markPaddingPieces := by
  refine ⟨by simp, fun x hx => by simpa using hx, ?_, fun i hi => Or.inl (by simpa using hi), ?_,
    fun _ _ _ hc => by simpa using hc⟩
  rotate_left
  · intro hl b hb
    unfold St.markPaddingPieces at hb ⊢
    split at hb
    · next hbf => exact hl b (by simpa [hbf] using hb)
    · next b0 hbf =>
      simp only [Option.some.injEq] at hb
      subst hb
      rw [length_foldl_setAt]
      exact hl b0 hbf
  intro i hi
  unfold St.markPaddingPieces at hi
  split at hi
  · next hbf => simp [hbf] at hi
  · next b hbf =>
    simp only [bitOf_some] at hi
    rcases getD_foldl_setAt_true _ _ _ hi with h1 | h1
    · left; exact ⟨by simpa [hbf] using h1, FEle.of_eq (by simp) i⟩
    · right
      simp only [List.mem_filter, List.mem_range, Bool.and_eq_true] at h1
      have hd : s.diskOKi i = true := diskOKi_of_no_data s h.bad i (h.cfg i h1.2.1.1) h1.2.2
      simpa using hd

theorem hadCheck_adv (m : M) : Adv m.1 (hadCheck m).1 := by
  unfold hadCheck
  dsimp only
  split
  · simp only [onSt_fst]
    exact (checkCompletion_adv m.1).trans (stop_adv _ _)
  · exact (checkCompletion_adv m.1).trans (hadReady_adv (m.1.checkCompletion.1, m.2))

/-- Installing an all-false bitfield: every (non-existent) bit is trivially justified. -/
theorem freshBf_adv (s : St) : Adv s { s with bf := some (List.replicate s.n false) } :=
  ⟨rfl, fun _ hx => hx, fun i hi => by simp [bitOf] at hi, fun _ hi => Or.inl hi,
    fun _ b hb => by simp only [Option.some.injEq] at hb; subst hb; simp [St.n], fun _ _ _ h => h⟩

theorem resetCompletion_adv (s : St) : Adv s s.resetCompletion := by
  apply Adv.frame (hcm := ?_) <;> first | rfl | (simp; done) | skip
  unfold St.resetCompletion
  split
  · intro h; cases h
  · exact id

theorem hadFreshInstall_adv (m : M) (h : Sound0 m.1) : Adv m.1 (hadFreshInstall m).1 := by
  unfold hadFreshInstall
  simp only [onSt_fst]
  have a1 := (freshBf_adv m.1).trans (resetCompletion_adv _)
  exact a1.trans (markPaddingPieces_adv _ (h.adv a1))

theorem hadFresh_adv (m : M) (h : Sound0 m.1) : Adv m.1 (hadFresh m).1 := by
  unfold hadFresh
  dsimp only
  refine Adv.trans (hadFreshInstall_adv m h) ?_
  split
  · simp only [onSt_fst]
    exact stop_adv' _ _ _ rfl rfl rfl rfl rfl
  · exact hadCheck_adv _

theorem hadTrust_adv (m : M) (b : List Bool) (h : Sound0 m.1) : Adv m.1 (hadTrust m b).1 := by
  unfold hadTrust
  refine Adv.trans ?_ (hadCheck_adv _)
  simp only [onSt_fst]
  have a1 : Adv m.1 { m.1 with done := b } := Adv.frame rfl rfl rfl rfl rfl
  exact a1.trans (markPaddingPieces_adv _ (h.adv a1))

theorem hadInstall_adv (m : M) : Adv m.1 (hadInstall m).1 := by adv_frame

theorem hadForget_adv (m : M) (mi : Bool) : Adv m.1 (hadForget m mi).1 := by
  unfold hadForget
  simp only [onSt_fst]
  split
  · exact Adv.of_eq rfl rfl rfl (Or.inr rfl) (Or.inr (Or.inr rfl))
  · exact Adv.refl _

/-- The part of `handleAllocationDone` after the bitfield has (or has not) been forgotten. -/
theorem handleAllocationDone_adv_from (m : M) (ex mi : Bool) (h : Sound0 m.1) :
    Adv (hadForget (hadInstall m) mi).1 (handleAllocationDone m ex mi).1 := by
  rw [handleAllocationDone_eq]
  have h0 := h.adv ((hadInstall_adv m).trans (hadForget_adv _ mi))
  dsimp only
  repeat' split
  all_goals first
    | exact hadTrust_adv _ _ h0
    | exact hadFresh_adv _ h0
    | exact Adv.frame rfl rfl rfl rfl rfl

theorem handleAllocationDone_adv (m : M) (ex mi : Bool) (h : Sound0 m.1) :
    Adv m.1 (handleAllocationDone m ex mi).1 :=
  ((hadInstall_adv m).trans (hadForget_adv _ mi)).trans (handleAllocationDone_adv_from m ex mi h)

/-- Files were missing: nothing of the old bitfield survives, every bit afterwards is justified by the disk. -/
theorem handleAllocationDone_missing (m : M) (ex : Bool) (h : Sound0 m.1) :
    ∀ i, bitOf (handleAllocationDone m ex true).1.bf i = true → (handleAllocationDone m ex true).1.diskOKi i = true := by
  intro i hi
  have hnone : (hadForget (hadInstall m) true).1.bf = none := by
    unfold hadForget
    simp only [onSt_fst, Bool.true_and]
    split
    · rfl
    · next hn => simpa using hn
  rcases (handleAllocationDone_adv_from m ex true h).bf i hi with ⟨hb, _⟩ | hok
  · rw [hnone] at hb; cases hb
  · exact hok

/-- An allocation whose `Open` fails part-way: either no file came into existence, or the bitfield is forgotten
(fix for finding C05-F2), then `stop(err)`. -/
theorem allocFail_adv (m : M) : Adv m.1 (allocFail m).1 := by
  have hst : (allocFail m).1 = ((hadForget (allocFailOpen m) (allocFailMissing m.1)).1).stop true := by simp [allocFail]
  rw [hst]
  refine Adv.trans ?_ (stop_adv _ true)
  have e5 : ∀ f, (allocFailOpen m).1.fileExists.getD f false = (decide (f < m.1.cfg.flens.length) &&
      (m.1.fileExists.getD f false || ((allocData m.1).take m.1.failAt).contains f)) := by
    intro f; simp only [allocFailOpen, onSt_fst]; exact getD_map_range _ _ f
  cases hmiss : allocFailMissing m.1
  · have hx : (hadForget (allocFailOpen m) false).1 = (allocFailOpen m).1 := by simp [hadForget]
    rw [hx]
    refine ⟨by simp, fun x hx => by simpa using hx, fun i hi => Or.inl ⟨by simpa using hi, fun x _ _ hF => ?_⟩,
      fun i hi => Or.inl (by simpa using hi), fun hl => hl.of_eq (by simp) (Or.inl (by simp)),
      fun _ _ _ hc => by simpa using hc⟩
    rw [e5] at hF
    simp only [Bool.and_eq_true, decide_eq_true_eq, Bool.or_eq_true] at hF
    rcases hF.2 with hF | hF
    · exact hF
    · unfold allocFailMissing at hmiss
      simp only [List.any_eq_false, Bool.not_eq_true] at hmiss
      have := hmiss x.2 (by simpa using hF)
      simpa using this
  · have hnone : (hadForget (allocFailOpen m) true).1.bf = none := by
      unfold hadForget
      simp only [onSt_fst, Bool.true_and]
      split
      · rfl
      · next hn => simpa using hn
    refine ⟨by simp, fun x hx => by simpa using hx, fun i hi => (by rw [hnone] at hi; cases hi), fun i hi => ?_,
      fun hl => hl.of_eq (by simp) (Or.inr hnone), fun _ _ _ hc => (by simpa using hc)⟩
    rcases (hadForget_adv (allocFailOpen m) true).per i hi with h | h | h
    · exact Or.inl (by simpa using h)
    · exact Or.inr (Or.inl (by simpa using h))
    · exact Or.inr (Or.inr h)

theorem allocatorRun_adv (m : M) (h : Sound0 m.1) : Adv m.1 (allocatorRun m).1 := by
  rw [allocatorRun_eq]
  split
  · exact allocFail_adv m
  · -- the state after the allocator has opened (created) every file
    generalize hm1 : allocOkOpen m = m1
    have e1 : m1.1.cfg = m.1.cfg := by subst hm1; simp
    have e2 : m1.1.bad = m.1.bad := by subst hm1; simp
    have e3 : m1.1.bf = m.1.bf := by subst hm1; simp
    have e4 : m1.1.persisted = m.1.persisted := by subst hm1; simp
    have e6 : m1.1.completed = m.1.completed := by subst hm1; simp
    have e5 : ∀ f, m1.1.fileExists.getD f false = (decide (f < m.1.cfg.flens.length) &&
        (m.1.fileExists.getD f false || (allocData m.1).contains f)) := by
      intro f; subst hm1; simp only [allocOkOpen, onSt_fst]; exact getD_map_range _ _ f
    have h1 : Sound0 m1.1 := ⟨e1 ▸ h.cfg, fun x hx => by rw [e1]; exact h.bad x (e2 ▸ hx)⟩
    cases hmiss : (allocData m.1).any (fun i => !(m.1.fileExists.getD i false))
    · -- nothing was missing: no file came into existence
      have a1 : Adv m.1 m1.1 := by
        refine ⟨e1, fun x hx => e2 ▸ hx, fun i hi => Or.inl ⟨e3 ▸ hi, fun x _ _ hF => ?_⟩, fun i hi => Or.inl (e4 ▸ hi),
          fun hl => hl.of_eq e1 (Or.inl e3), fun _ _ _ hc => e6 ▸ hc⟩
        rw [e5] at hF
        simp only [Bool.and_eq_true, decide_eq_true_eq, Bool.or_eq_true] at hF
        rcases hF.2 with hF | hF
        · exact hF
        · simp only [List.any_eq_false, Bool.not_eq_true] at hmiss
          have := hmiss x.2 (by simpa using hF)
          simpa using this
      exact a1.trans (handleAllocationDone_adv m1 _ _ h1)
    · -- files were missing: every bit afterwards is justified by the disk
      have a := handleAllocationDone_adv m1 ((allocData m.1).any fun i => m.1.fileExists.getD i false) true h1
      have hnb : NoBit m.1 → NoBit m1.1 := fun hn i hi => by rw [e3]; exact hn i (e1 ▸ hi)
      refine ⟨a.cfg.trans e1, fun x hx => e2 ▸ a.bad x hx, fun i hi => Or.inr (handleAllocationDone_missing m1 _ h1 i hi),
        fun i hi => ?_, fun hl => a.len (hl.of_eq e1 (Or.inl e3)),
        fun hl hn hu hc => a.nc (hl.of_eq e1 (Or.inl e3)) (hnb hn) (by obtain ⟨i, hi⟩ := hu; exact ⟨i, e1 ▸ hi⟩) (e6 ▸ hc)⟩
      rcases a.per i hi with hp | hp | hp
      · exact Or.inl (e4 ▸ hp)
      · exact Or.inr (Or.inl (e3 ▸ hp))
      · exact Or.inr (Or.inr hp)

/-! ### Verification -/

theorem hvdInstall_adv (m : M) : Adv m.1 (hvdInstall m).1 := by
  have hbf : (hvdInstall m).1.bf = some m.1.diskOK := by
    unfold hvdInstall; dsimp only; simp only [onSt_fst]; split <;> simp
  have hper : (hvdInstall m).1.persisted = some m.1.diskOK := by
    unfold hvdInstall; dsimp only; simp only [onSt_fst]; split <;> simp [St.writeBitfield]
  have hok : ∀ i, m.1.diskOK.getD i false = true → (hvdInstall m).1.diskOKi i = true := by
    intro i hi
    have := ((diskOK_getD m.1 i).1 hi).2
    simpa using this
  have hcm : (hvdInstall m).1.completed = true → m.1.completed = true := by
    unfold hvdInstall; dsimp only; simp only [onSt_fst]
    split
    · intro hc
      revert hc
      unfold St.resetCompletion
      split
      · intro h; cases h
      · simp
    · simp
  refine ⟨by simp, fun x hx => by simpa using hx, fun i hi => Or.inr ?_, fun i hi => Or.inr (Or.inr ?_), ?_, ?_⟩
  · rw [hbf] at hi; exact hok i hi
  · rw [hper] at hi; exact hok i hi
  · intro _ b hb
    rw [hbf] at hb
    simp only [Option.some.injEq] at hb
    subst hb
    have hn : (hvdInstall m).1.n = m.1.n := by unfold St.n; simp
    rw [hn]; simp [St.diskOK]
  · intro _ _ _ hc
    cases h : (hvdInstall m).1.completed with
    | false => rfl
    | true => rw [hcm h] at hc; cases hc

theorem hvdHaves_adv (m : M) : Adv m.1 (hvdHaves m).1 := by adv_frame

theorem handleVerificationDone_adv (m : M) : Adv m.1 (handleVerificationDone m).1 := by
  rw [handleVerificationDone_eq]
  dsimp only
  split
  · simp only [onSt_fst]
    refine (hvdInstall_adv m).trans ?_
    exact stop_adv' _ _ _ rfl rfl rfl rfl rfl
  · exact ((hvdInstall_adv m).trans (hvdHaves_adv _)).trans (hadCheck_adv _)

/-! ### Piece writes -/

theorem pwdSet_adv (m : M) (w : WriteJob) (b : List Bool) (hb : m.1.bf = some b)
    (hok : m.1.diskOKi w.piece = true) : Adv m.1 (pwdSet m w b).1 := by
  have hbf : (pwdSet m w b).1.bf = some (setAt b w.piece true) := by
    unfold pwdSet; dsimp only; split <;> simp
  refine ⟨by simp, fun x hx => by simpa using hx, fun i hi => ?_, fun i hi => Or.inl (by simpa using hi), ?_,
    fun _ _ _ hc => by simpa using hc⟩
  rotate_left
  · intro hl b' hb'
    rw [hbf] at hb'
    simp only [Option.some.injEq] at hb'
    subst hb'
    have hn : (pwdSet m w b).1.n = m.1.n := by unfold St.n; simp
    rw [hn]; simp only [setAt, List.length_set]
    exact hl b hb
  rw [hbf, bitOf_some, getD_setAt] at hi
  split at hi
  · next h => right; rw [h.1]; simpa using hok
  · left; rw [hb]; exact ⟨hi, FEle.of_eq (by simp) i⟩

theorem pwdFinish_adv (m : M) : Adv m.1 (pwdFinish m).1 := by
  unfold pwdFinish
  dsimp only
  split
  · split
    · simp only [onSt_fst]
      exact ((checkCompletion_adv m.1).trans (writeBitfield_adv _)).trans (stop_adv _ _)
    · simp only [onSt_fst]
      exact (checkCompletion_adv m.1).trans (writeBitfield_adv _)
  · exact checkCompletion_adv m.1

theorem pwdOthers_adv (m : M) (w : WriteJob) : Adv m.1 (pwdOthers m w).1 := by adv_frame
theorem pwdHaves_adv (m : M) (w : WriteJob) : Adv m.1 (pwdHaves m w).1 := by adv_frame

theorem pwdOk_adv (m : M) (w : WriteJob) (b : List Bool) (hb : m.1.bf = some b)
    (hok : m.1.diskOKi w.piece = true) : Adv m.1 (pwdOk m w b).1 := by
  unfold pwdOk
  exact (((pwdSet_adv m w b hb hok).trans (pwdOthers_adv _ _)).trans (pwdHaves_adv _ _)).trans (pwdFinish_adv _)

theorem handlePieceWriteDone_adv (m : M) (w : WriteJob) (e : Bool)
    (hok : w.good = true → e = false → w.gen = m.1.gen → m.1.loaded = true → m.1.diskOKi w.piece = true) :
    Adv m.1 (handlePieceWriteDone m w e).1 := by
  rw [handlePieceWriteDone_eq]
  dsimp only
  split
  · adv_frame
  · next hg =>
    split
    · adv_frame
    · next hst =>
      simp only [Bool.or_eq_true, ne_eq, decide_eq_true_eq, Bool.not_eq_true', not_or, Decidable.not_not,
        Bool.not_eq_false] at hst
      split
      · simp only [onSt_fst]
        exact stop_adv' _ _ _ rfl rfl rfl rfl rfl
      · next he =>
        have hok' := hok (by simpa using hg) (by simpa using he) (by simpa using hst.1) (by simpa using hst.2)
        split
        · adv_frame
        · next b hb =>
          have h1 : Adv m.1 (pwdDone (pwdReset m w) w).1 := by adv_frame
          refine h1.trans (pwdOk_adv _ w b hb ?_)
          simpa using hok'

theorem writerRun_adv (m : M) (w : WriteJob) (h : Sound0 m.1) : Adv m.1 (writerRun m w).1 := by
  unfold writerRun
  split
  · next hg => exact handlePieceWriteDone_adv m w false (fun hg' => by simp [hg'] at hg)
  · dsimp only
    split
    · next hsecs =>
      refine handlePieceWriteDone_adv m _ false fun hg _ _ _ => diskOKi_of_no_data m.1 h.bad _ ?_ ?_
      · intro sc hsc
        have : sc ∉ (m.1.cfg.sections w.piece).filter fun sc => !(m.1.cfg.fpads.getD sc.file false) := by
          rw [hsecs]; exact List.not_mem_nil
        simp only [List.mem_filter, hsc, true_and] at this
        simp at this
        simp [Cfg.isData, this]
      · simp only [Bool.and_eq_true] at hg
        exact hg.2
    · next sc l hsecs =>
      split
      · refine Adv.trans ?_ (handlePieceWriteDone_adv _ w true (fun _ h => by cases h))
        exact Adv.frame rfl rfl rfl rfl rfl
      · split
        · refine Adv.trans ?_ (handlePieceWriteDone_adv _ w true (fun _ h => by cases h))
          exact Adv.frame rfl rfl rfl rfl rfl
        · have a1 : Adv m.1 (onSt m fun s => { s with
              sto := s.sto ++ ((m.1.cfg.sections w.piece).filter fun sc => !(m.1.cfg.fpads.getD sc.file false)).map
                (fun sc => s!"write:{fileName m.1.cfg sc.file}:{sc.off}:{sc.len}:ok"),
              bad := s.bad.filter (fun b => b.1 ≠ w.piece) }).1 := by
            refine ⟨by simp, fun x hx => ?_, fun i hi => Or.inl ⟨by simpa using hi, FEle.of_eq (by simp) i⟩,
              fun i hi => Or.inl (by simpa using hi), fun hl => hl.of_eq (by simp) (Or.inl (by simp)),
              fun _ _ _ hc => by simpa using hc⟩
            simp only [onSt_fst, List.mem_filter] at hx
            exact hx.1
          split
          · exact a1.trans (Adv.frame rfl rfl rfl rfl rfl)
          · refine a1.trans (handlePieceWriteDone_adv _ w false fun _ _ _ _ => ?_)
            exact written_diskOKi m.1 w.piece sc l hsecs _ (by simp) (by simp)

/-! ### Workers, handle, step -/

theorem runWorkers_adv (fuel : Nat) (m : M) (h : Sound0 m.1) (hw : WrOK m.1) : Adv m.1 (runWorkers fuel m).1 := by
  induction fuel generalizing m with
  | zero => exact Adv.refl _
  | succ n ih =>
    unfold runWorkers
    dsimp only
    split
    · exact Adv.refl _
    split
    · next hs =>
      simp only [Bool.and_eq_true] at hs
      exact (handleStopped_adv m).trans (ih _ (h.adv (handleStopped_adv m)) (handleStopped_wrOK m hw hs.1))
    split
    · next ha =>
      simp only [Bool.and_eq_true] at ha
      exact (allocatorRun_adv m h).trans (ih _ (h.adv (allocatorRun_adv m h)) (allocatorRun_wrOK m hw ha.1))
    split
    · next hv =>
      simp only [Bool.and_eq_true] at hv
      exact (handleVerificationDone_adv m).trans
        (ih _ (h.adv (handleVerificationDone_adv m)) (handleVerificationDone_wrOK m hw hv.1))
    split
    · next w hwr =>
      split
      · next hwritten =>
        split
        · -- a held result is delivered: its bytes are on disk if it is still current
          have a := handlePieceWriteDone_adv m w false (fun _ _ hg hl => hw.ok w hwr hwritten hg hl)
          exact a.trans (ih _ (h.adv a) (handlePieceWriteDone_wrOK m w false hw))
        · exact Adv.refl _
      · split
        · exact (writerRun_adv m _ h).trans (ih _ (h.adv (writerRun_adv m _ h)) (writerRun_wrOK m w hw hwr))
        · exact Adv.refl _
    · exact Adv.refl _

/-- The stop command (fix C04-F6): the pending verification request is withdrawn, then `stop`. -/
theorem stopCmd_adv (s : St) : Adv s (({ s with doVerify := false }).stop false) :=
  (Adv.frame rfl rfl rfl rfl rfl : Adv s { s with doVerify := false }).trans (stop_adv _ false)

theorem handle_adv (s : St) (p : Parked) (kn : Nat → Bool) (op : Op) (hop : op.isMutate = false) :
    Adv s (handle s p kn op).1.1 := by
  unfold handle
  repeat' split
  all_goals first
    | exact Adv.refl _
    | (simp [Op.isMutate] at hop; done)
    | exact start_adv (s, [])
    | exact handlePieceMessage_adv (s, []) ..
    | exact handlePeerMessage_adv (s, []) ..
    | exact handleExtHandshake_adv (s, []) ..
    | exact handleMetadataData_adv (s, []) ..
    | exact handleMetadataReject_adv (s, []) ..
    | exact handlePex_adv (s, []) ..
    | exact handleDhtPeers_adv (s, []) ..
    | exact closePeer_adv s _
    | exact handlePeerSnubbed_adv (s, []) ..
    | exact Adv.frame rfl rfl rfl rfl rfl
    | (next heq => have hm := congrArg Prod.fst heq; simp only at hm; rw [← hm]; exact acceptPeer_adv (s, []) ..)
    | (next heq => exact Adv.of_eq rfl rfl rfl (Or.inl rfl) (Or.inr (Or.inl heq.symm)))
    | exact (stopCmd_adv s).trans (Adv.frame rfl rfl rfl rfl rfl)
    | exact stopCmd_adv s
    | exact (Adv.of_eq rfl rfl rfl (Or.inl rfl) (Or.inr (Or.inr rfl)) : Adv s { s with persisted := none }).trans
          (handleVerifyCommand_adv ({ s with persisted := none }, []))
    | (refine ((?_ : Adv s { s with persisted := none }).trans
          (handleVerifyCommand_adv ({ s with persisted := none }, []))).trans ?_
       · exact Adv.of_eq rfl rfl rfl (Or.inl rfl) (Or.inr (Or.inr rfl))
       · apply Adv.frame <;> simp)

theorem deliverParked_adv (m : M) (p : Parked) (h : Sound0 m.1) (hw : WrOK m.1) : Adv m.1 (deliverParked m p).1.1 := by
  unfold deliverParked
  split
  · split
    · split
      · next hk =>
        have hr : Running m.1 := hw.running_of_peer (by
          intro hn; rw [Option.isNone_iff_eq_none] at hn; rw [hn] at hk; cases hk)
        exact (handlePieceMessage_adv ..).trans (runWorkers_adv _ _ (h.adv (handlePieceMessage_adv ..))
          (handlePieceMessage_wrOK _ _ _ _ _ _ hw hr))
      · exact Adv.refl _
    · exact Adv.refl _
  · exact Adv.refl _

/-- **Every event except an external change of the files is an admissible successor step**: the disk
never gets worse, every new bit and every new resume bit is justified by the disk. -/
theorem step_adv (s : St) (p : Parked) (kn : Nat → Bool) (op : Op) (hop : op.isMutate = false)
    (h : Sound0 s) (hw : WrOK s) : Adv s (step s p kn op).1.st := by
  unfold step
  have a0 : Adv s { s with sto := [], mayStart := [], closedDl := [], mayStartI := false } :=
    Adv.frame rfl rfl rfl rfl rfl
  have w0 : WrOK { s with sto := [], mayStart := [], closedDl := [], mayStartI := false } := by wr_frame hw
  have a1 := a0.trans (handle_adv _ p kn op hop)
  have w1 := handle_wrOK _ p kn op w0
  have a2 := a1.trans (runWorkers_adv 12 _ (h.adv a1) w1)
  dsimp only
  split
  · exact a2.trans (deliverParked_adv _ _ (h.adv a2) (runWorkers_wrOK 12 _ w1))
  · exact a2

theorem dstep_adv (sp : St × Parked) (e : Ev) (hop : e.op.isMutate = false) (h : Sound0 sp.1) (hw : WrOK sp.1) :
    Adv sp.1 (dstep sp e).1 := by
  unfold dstep
  exact ((step_adv sp.1 sp.2 e.known e.op hop h hw).trans (reconcile_adv _ _)).trans (reconcileIdl_adv _ _)

/-- **Soundness is preserved by every event except an external change of the files.** -/
theorem step_sound (s : St) (p : Parked) (kn : Nat → Bool) (op : Op) (hop : op.isMutate = false)
    (h : Sound s) (hw : WrOK s) : Sound (step s p kn op).1.st := h.adv (step_adv s p kn op hop h.zero hw)

theorem dstep_sound (sp : St × Parked) (e : Ev) (hop : e.op.isMutate = false) (h : Sound sp.1) (hw : WrOK sp.1) :
    Sound (dstep sp e).1 := h.adv (dstep_adv sp e hop h.zero hw)

theorem drun_sound (evs : List Ev) (sp : St × Parked) (hop : ∀ e ∈ evs, e.op.isMutate = false)
    (h : Sound sp.1) (hw : WrOK sp.1) : Sound (drun sp evs).1 := by
  induction evs generalizing sp with
  | nil => exact h
  | cons e evs ih =>
    exact ih _ (fun e' he' => hop e' (List.mem_cons_of_mem _ he'))
      (dstep_sound sp e (hop e (List.mem_cons_self ..)) h hw) (dstep_wrOK sp e hw)

end Rain.Loop
