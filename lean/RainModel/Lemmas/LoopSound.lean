import RainModel.Lemmas.LoopInv
/-!
Soundness of the bitfield and of the resume bitfield (C01/C05): preservation by every handler.
-/
namespace Rain.Loop

/-- The soundness invariant: bits and resume bits only for pieces whose bytes are on disk. -/
structure Sound (s : St) : Prop where
  cfg : CfgWF s.cfg
  bad : BadWF s
  bits : ∀ i, bitOf s.bf i = true → s.diskOKi i = true
  pers : PersistedSound s

/-- `s'` is an admissible successor of `s` as far as soundness goes: nothing gets worse on disk, new
bits and new resume bits are justified by the disk. -/
structure Adv (s s' : St) : Prop where
  cfg : s'.cfg = s.cfg
  bad : ∀ x ∈ s'.bad, x ∈ s.bad
  bf : ∀ i, bitOf s'.bf i = true → bitOf s.bf i = true ∨ s'.diskOKi i = true
  per : ∀ i, bitOf s'.persisted i = true → bitOf s.persisted i = true ∨ bitOf s.bf i = true ∨ s'.diskOKi i = true

theorem diskOKi_mono {s s' : St} (h : ∀ x ∈ s'.bad, x ∈ s.bad) (i : Nat) (hi : s.diskOKi i = true) :
    s'.diskOKi i = true := by
  rw [diskOKi_eq_true] at *
  exact fun x hx => hi x (h x hx)

theorem Adv.refl (s : St) : Adv s s := ⟨rfl, fun _ h => h, fun _ h => Or.inl h, fun _ h => Or.inl h⟩

theorem Adv.trans {a b c : St} (h1 : Adv a b) (h2 : Adv b c) : Adv a c where
  cfg := h2.cfg.trans h1.cfg
  bad := fun x hx => h1.bad x (h2.bad x hx)
  bf := fun i hi => by
    rcases h2.bf i hi with h | h
    · rcases h1.bf i h with h | h
      · exact Or.inl h
      · exact Or.inr (diskOKi_mono h2.bad i h)
    · exact Or.inr h
  per := fun i hi => by
    rcases h2.per i hi with h | h | h
    · rcases h1.per i h with h | h | h
      · exact Or.inl h
      · exact Or.inr (Or.inl h)
      · exact Or.inr (Or.inr (diskOKi_mono h2.bad i h))
    · rcases h1.bf i h with h | h
      · exact Or.inr (Or.inl h)
      · exact Or.inr (Or.inr (diskOKi_mono h2.bad i h))
    · exact Or.inr (Or.inr h)

theorem Sound.adv {s s' : St} (h : Sound s) (a : Adv s s') : Sound s' where
  cfg := a.cfg ▸ h.cfg
  bad := fun x hx => by
    have := h.bad x (a.bad x hx)
    rwa [a.cfg]
  bits := fun i hi => by
    rcases a.bf i hi with h' | h'
    · exact diskOKi_mono a.bad i (h.bits i h')
    · exact h'
  pers := fun i hi => by
    rcases a.per i hi with h' | h' | h'
    · exact diskOKi_mono a.bad i (h.pers i h')
    · exact diskOKi_mono a.bad i (h.bits i h')
    · exact h'

/-- The common case: configuration and disk untouched, bitfield kept or dropped, resume bitfield kept
or overwritten with the bitfield. -/
theorem Adv.of_eq {s s' : St} (hc : s'.cfg = s.cfg) (hb : s'.bad = s.bad)
    (hbf : s'.bf = s.bf ∨ s'.bf = none)
    (hp : s'.persisted = s.persisted ∨ s'.persisted = s.bf ∨ s'.persisted = none) : Adv s s' where
  cfg := hc
  bad := fun x hx => hb ▸ hx
  bf := fun i hi => by
    rcases hbf with h | h
    · exact Or.inl (h ▸ hi)
    · rw [h] at hi; cases hi
  per := fun i hi => by
    rcases hp with h | h | h
    · exact Or.inl (h ▸ hi)
    · exact Or.inr (Or.inl (h ▸ hi))
    · rw [h] at hi; cases hi

theorem Adv.frame {s s' : St} (hc : s'.cfg = s.cfg) (hb : s'.bad = s.bad)
    (hbf : s'.bf = s.bf) (hp : s'.persisted = s.persisted) : Adv s s' :=
  Adv.of_eq hc hb (Or.inl hbf) (Or.inl hp)

/-! ### stop, writeBitfield -/

theorem writeBitfield_persisted (s : St) :
    s.writeBitfield.persisted = s.persisted ∨ s.writeBitfield.persisted = s.bf ∨ s.writeBitfield.persisted = none := by
  unfold St.writeBitfield
  split
  · next b hb => right; left; simp [hb]
  · left; simp

theorem stopAlloc_bf (s : St) : (stopAlloc s).bf = s.bf ∨ (stopAlloc s).bf = none := by
  unfold stopAlloc
  split
  · dsimp only
    split
    · left; rfl
    · dsimp only
      split
      · right; rfl
      · left; rfl
  · left; rfl

theorem stopAlloc_persisted (s : St) : (stopAlloc s).persisted = s.persisted ∨ (stopAlloc s).persisted = none := by
  unfold stopAlloc
  split
  · dsimp only
    split
    · left; rfl
    · dsimp only
      split
      · right; rfl
      · left; rfl
  · left; rfl

theorem stop_bf (s : St) (e : Bool) : (s.stop e).bf = s.bf ∨ (s.stop e).bf = none := by
  rw [stop_eq]
  split
  · left; rfl
  · simp only [stopRun, stopFin_bf, stopVer_bf]
    have := stopAlloc_bf (stopWB (stopClear (stopPeers (stopA s e)))).closeData
    simpa using this

theorem stop_persisted (s : St) (e : Bool) :
    (s.stop e).persisted = s.persisted ∨ (s.stop e).persisted = s.bf ∨ (s.stop e).persisted = none := by
  rw [stop_eq]
  split
  · left; rfl
  · simp only [stopRun, stopFin_persisted, stopVer_persisted]
    rcases stopAlloc_persisted (stopWB (stopClear (stopPeers (stopA s e)))).closeData with h | h
    · rw [h]
      simp only [closeData_persisted]
      unfold stopWB
      split
      · have := writeBitfield_persisted (stopClear (stopPeers (stopA s e)))
        simpa using this
      · left; simp
    · right; right; exact h

theorem stop_persisted' (s : St) (e : Bool) {p b : Option (List Bool)} (hp : s.persisted = p) (hb : s.bf = b) :
    (s.stop e).persisted = p ∨ (s.stop e).persisted = b ∨ (s.stop e).persisted = none :=
  hp ▸ hb ▸ stop_persisted s e

theorem stop_bf' (s : St) (e : Bool) {b : Option (List Bool)} (hb : s.bf = b) :
    (s.stop e).bf = b ∨ (s.stop e).bf = none := hb ▸ stop_bf s e

theorem writeBitfield_adv (s : St) : Adv s s.writeBitfield :=
  Adv.of_eq (by simp) (by simp) (Or.inl (by simp)) (writeBitfield_persisted s)

theorem stop_adv (s : St) (e : Bool) : Adv s (s.stop e) :=
  Adv.of_eq (by simp) (by simp) (stop_bf s e) (stop_persisted s e)

/-- `stop` applied to a state that agrees with `a` on the four relevant fields. -/
theorem stop_adv' (a s : St) (e : Bool) (hc : s.cfg = a.cfg) (hb : s.bad = a.bad) (hbf : s.bf = a.bf)
    (hp : s.persisted = a.persisted) : Adv a (s.stop e) :=
  Adv.of_eq (by simp [hc]) (by simp [hb]) (stop_bf' s e hbf) (stop_persisted' s e hp hbf)

/-- Closes `Adv a b` when `b` agrees with `a` on cfg, bad, bf, persisted (by the frame simp lemmas). -/
macro "adv_frame" : tactic => `(tactic| exact Adv.frame (by simp) (by simp) (by simp) (by simp))

/-! ### Handlers that touch neither bitfield nor disk -/

theorem closePeer_adv (s : St) (k : Nat) : Adv s (s.closePeer k) := by adv_frame
theorem handlePieceMessage_adv (m : M) (k i b l : Nat) (g : Bool) : Adv m.1 (handlePieceMessage m k i b l g).1 := by adv_frame
theorem handlePeerMessage_adv (m : M) (k : Nat) (msg : Msg) : Adv m.1 (handlePeerMessage m k msg).1 := by adv_frame
theorem processQueued_adv (m : M) : Adv m.1 (processQueued m).1 := by adv_frame
theorem start_adv (m : M) : Adv m.1 (start m).1 := by adv_frame
theorem handleExtHandshake_adv (m : M) (k : Nat) (hm : Bool) (sz : Nat) (hp : Bool) :
    Adv m.1 (handleExtHandshake m k hm sz hp).1 := by adv_frame
theorem handlePex_adv (m : M) (a d : Bool) : Adv m.1 (handlePex m a d).1 := by adv_frame
theorem handleDhtPeers_adv (m : M) (ne : Bool) : Adv m.1 (handleDhtPeers m ne).1 := by adv_frame
theorem handlePeerSnubbed_adv (m : M) (k : Nat) : Adv m.1 (handlePeerSnubbed m k).1 := by adv_frame
theorem handleMetadataReject_adv (m : M) (k : Nat) : Adv m.1 (handleMetadataReject m k).1 := by adv_frame
theorem acceptPeer_adv (m : M) (k : Nat) (ip : String) (fast ext bad dup : Bool) :
    Adv m.1 (acceptPeer m k ip fast ext bad dup).1.1 := by adv_frame
theorem checkCompletion_adv (s : St) : Adv s s.checkCompletion.1 := by adv_frame
theorem hadReady_adv (m : M) : Adv m.1 (hadReady m).1 := by adv_frame
theorem reconcile_adv (s : St) (impl : List ImplDl) : Adv s (reconcile s impl).1 := by adv_frame
theorem reconcileIdl_adv (s : St) (impl : List Nat) : Adv s (reconcileIdl s impl).1 := by adv_frame

theorem handleMetadataData_adv (m : M) (k i len : Nat) (g : Bool) :
    Adv m.1 (handleMetadataData m k i len g).1 := by
  unfold handleMetadataData
  dsimp only
  repeat' split
  all_goals first
    | exact Adv.refl _
    | (simp only [onSt_fst]; exact stop_adv' _ _ _ rfl rfl rfl rfl)
    | exact Adv.frame (by simp) (by simp) (by simp) (by simp)

/-! ### Commands -/

theorem handleStopped_bf (m : M) : (handleStopped m).1.bf = m.1.bf ∨ (handleStopped m).1.bf = none := by
  unfold handleStopped
  dsimp only
  split
  · right; simp
  · left; simp

theorem handleStopped_adv (m : M) : Adv m.1 (handleStopped m).1 :=
  Adv.of_eq (by simp) (by simp) (handleStopped_bf m) (Or.inl (by simp))

theorem handleVerifyCommand_adv (m : M) : Adv m.1 (handleVerifyCommand m).1 := by
  unfold handleVerifyCommand
  dsimp only
  split
  · exact Adv.of_eq (by simp) (by simp) (Or.inr (by simp)) (Or.inl (by simp))
  · simp only [onSt_fst]
    exact stop_adv' _ _ _ rfl rfl rfl rfl

/-! ### Allocation -/

theorem markPaddingPieces_adv (s : St) (h : Sound s) : Adv s s.markPaddingPieces := by
  refine ⟨by simp, fun x hx => by simpa using hx, ?_, fun i hi => Or.inl (by simpa using hi)⟩
  intro i hi
  unfold St.markPaddingPieces at hi ⊢
  split at hi
  · next hbf => simp [hbf] at hi
  · next b hbf =>
    simp only [bitOf_some] at hi
    rcases getD_foldl_setAt_true _ _ _ hi with h1 | h1
    · left; simpa [hbf] using h1
    · right
      simp only [List.mem_filter, List.mem_range, Bool.and_eq_true] at h1
      have hd : s.diskOKi i = true := diskOKi_of_no_data s h.bad i (h.cfg i h1.2.1)
      simpa [St.diskOKi] using hd

theorem hadCheck_adv (m : M) : Adv m.1 (hadCheck m).1 := by
  unfold hadCheck
  dsimp only
  split
  · simp only [onSt_fst]
    exact stop_adv' _ _ _ (by simp) (by simp) (by simp) (by simp)
  · exact (checkCompletion_adv m.1).trans (hadReady_adv (m.1.checkCompletion.1, m.2))

theorem Sound.freshBf {s : St} (h : Sound s) : Sound { s with bf := some (List.replicate s.n false) } :=
  h.adv ⟨rfl, fun _ hx => hx, fun i hi => by simp [bitOf] at hi, fun _ hi => Or.inl hi⟩

theorem resetCompletion_adv (s : St) : Adv s s.resetCompletion := by adv_frame

theorem hadFresh_sound (m : M) (h : Sound m.1) : Sound (hadFresh m).1 := by
  unfold hadFresh
  refine Sound.adv ?_ (hadCheck_adv _)
  simp only [onSt_fst]
  have h1 := (h.freshBf).adv (resetCompletion_adv _)
  exact h1.adv (markPaddingPieces_adv _ h1)

theorem hadTrust_sound (m : M) (b : List Bool) (h : Sound m.1) : Sound (hadTrust m b).1 := by
  unfold hadTrust
  refine Sound.adv ?_ (hadCheck_adv _)
  simp only [onSt_fst]
  have h1 : Sound { m.1 with done := b } := h.adv (Adv.frame rfl rfl rfl rfl)
  exact h1.adv (markPaddingPieces_adv _ h1)

theorem hadInstall_adv (m : M) : Adv m.1 (hadInstall m).1 := by adv_frame

theorem hadForget_adv (m : M) (mi : Bool) : Adv m.1 (hadForget m mi).1 := by
  unfold hadForget
  simp only [onSt_fst]
  split
  · exact Adv.of_eq rfl rfl (Or.inr rfl) (Or.inr (Or.inr rfl))
  · exact Adv.refl _

theorem handleAllocationDone_sound (m : M) (ex mi : Bool) (h : Sound m.1) :
    Sound (handleAllocationDone m ex mi).1 := by
  rw [handleAllocationDone_eq]
  have h0 := (h.adv (hadInstall_adv m)).adv (hadForget_adv _ mi)
  dsimp only
  repeat' split
  all_goals first
    | exact hadTrust_sound _ _ h0
    | exact hadFresh_sound _ h0
    | exact h0.adv (Adv.frame rfl rfl rfl rfl)

theorem allocatorRun_sound (m : M) (h : Sound m.1) : Sound (allocatorRun m).1 := by
  unfold allocatorRun
  dsimp only
  split
  · simp only [onSt_fst]
    exact h.adv (stop_adv' _ _ _ rfl rfl rfl rfl)
  · exact handleAllocationDone_sound _ _ _ (h.adv (Adv.frame rfl rfl rfl rfl))

/-! ### Verification -/

theorem hvdInstall_adv (m : M) : Adv m.1 (hvdInstall m).1 := by
  have hbf : (hvdInstall m).1.bf = some m.1.diskOK := by
    unfold hvdInstall; dsimp only; simp only [onSt_fst]; split <;> simp
  have hper : (hvdInstall m).1.persisted = some m.1.diskOK := by
    unfold hvdInstall; dsimp only; simp only [onSt_fst]; split <;> simp [St.writeBitfield]
  have hok : ∀ i, m.1.diskOK.getD i false = true → (hvdInstall m).1.diskOKi i = true := by
    intro i hi
    have := ((diskOK_getD m.1 i).1 hi).2
    simpa using this
  refine ⟨by simp, fun x hx => by simpa using hx, fun i hi => Or.inr ?_, fun i hi => Or.inr (Or.inr ?_)⟩
  · rw [hbf] at hi; exact hok i hi
  · rw [hper] at hi; exact hok i hi

theorem hvdHaves_adv (m : M) : Adv m.1 (hvdHaves m).1 := by adv_frame

theorem handleVerificationDone_adv (m : M) : Adv m.1 (handleVerificationDone m).1 := by
  rw [handleVerificationDone_eq]
  dsimp only
  split
  · simp only [onSt_fst]
    refine (hvdInstall_adv m).trans ?_
    exact stop_adv' _ _ _ rfl rfl rfl rfl
  · exact ((hvdInstall_adv m).trans (hvdHaves_adv _)).trans (hadCheck_adv _)

/-! ### Piece writes -/

theorem pwdSet_adv (m : M) (w : WriteJob) (b : List Bool) (hb : m.1.bf = some b)
    (hok : m.1.diskOKi w.piece = true) : Adv m.1 (pwdSet m w b).1 := by
  have hbf : (pwdSet m w b).1.bf = some (setAt b w.piece true) := by
    unfold pwdSet; dsimp only; split <;> simp
  refine ⟨by simp, fun x hx => by simpa using hx, fun i hi => ?_, fun i hi => Or.inl (by simpa using hi)⟩
  rw [hbf, bitOf_some, getD_setAt] at hi
  split at hi
  · next h => right; rw [h.1]; simpa using hok
  · left; rw [hb]; exact hi

theorem pwdFinish_adv (m : M) : Adv m.1 (pwdFinish m).1 := by
  unfold pwdFinish
  dsimp only
  split
  · split
    · simp only [onSt_fst]
      exact ((checkCompletion_adv m.1).trans (writeBitfield_adv _)).trans (stop_adv _ _)
    · simp only [onSt_fst]
      exact (checkCompletion_adv m.1).trans (writeBitfield_adv _)
  · exact checkCompletion_adv m.1

theorem pwdOthers_adv (m : M) (w : WriteJob) : Adv m.1 (pwdOthers m w).1 := by adv_frame
theorem pwdHaves_adv (m : M) (w : WriteJob) : Adv m.1 (pwdHaves m w).1 := by adv_frame

theorem pwdOk_adv (m : M) (w : WriteJob) (b : List Bool) (hb : m.1.bf = some b)
    (hok : m.1.diskOKi w.piece = true) : Adv m.1 (pwdOk m w b).1 := by
  unfold pwdOk
  exact (((pwdSet_adv m w b hb hok).trans (pwdOthers_adv _ _)).trans (pwdHaves_adv _ _)).trans (pwdFinish_adv _)

theorem handlePieceWriteDone_adv (m : M) (w : WriteJob) (e : Bool)
    (hok : w.good = true → e = false → m.1.diskOKi w.piece = true) :
    Adv m.1 (handlePieceWriteDone m w e).1 := by
  rw [handlePieceWriteDone_eq]
  dsimp only
  split
  · adv_frame
  · next hg =>
    split
    · simp only [onSt_fst]
      exact stop_adv' _ _ _ rfl rfl rfl rfl
    · next he =>
      have hok' := hok (by simpa using hg) (by simpa using he)
      split
      · adv_frame
      · next b hb =>
        have h1 : Adv m.1 (pwdDone (pwdReset m w) w).1 := by adv_frame
        refine h1.trans (pwdOk_adv _ w b hb ?_)
        simpa using hok'

theorem writerRun_sound (m : M) (w : WriteJob) (h : Sound m.1) : Sound (writerRun m w).1 := by
  unfold writerRun
  split
  · next hg => exact h.adv (handlePieceWriteDone_adv m w false (fun hg' => by simp [hg'] at hg))
  · dsimp only
    split
    · next hsecs =>
      refine h.adv (handlePieceWriteDone_adv m w false fun _ _ => diskOKi_of_no_data m.1 h.bad _ ?_)
      intro sc hsc
      have : sc ∉ (m.1.cfg.sections w.piece).filter fun sc => !(m.1.cfg.fpads.getD sc.file false) := by
        rw [hsecs]; exact List.not_mem_nil
      simp only [List.mem_filter, hsc, true_and] at this
      simp at this
      simp [Cfg.isData, this]
    · split
      · refine Sound.adv ?_ (handlePieceWriteDone_adv _ w true (fun _ h => by cases h))
        exact h.adv (Adv.frame rfl rfl rfl rfl)
      · split
        · refine Sound.adv ?_ (handlePieceWriteDone_adv _ w true (fun _ h => by cases h))
          exact h.adv (Adv.frame rfl rfl rfl rfl)
        · have h1 : Sound (onSt m fun s => { s with
              sto := s.sto ++ ((m.1.cfg.sections w.piece).filter fun sc => !(m.1.cfg.fpads.getD sc.file false)).map
                (fun sc => s!"write:{fileName m.1.cfg sc.file}:{sc.off}:{sc.len}:ok"),
              bad := s.bad.filter (fun b => b.1 ≠ w.piece) }).1 := by
            refine h.adv ⟨by simp, fun x hx => ?_, fun i hi => Or.inl (by simpa using hi), fun i hi => Or.inl (by simpa using hi)⟩
            simp only [onSt_fst, List.mem_filter] at hx
            exact hx.1
          refine h1.adv (handlePieceWriteDone_adv _ w false fun _ _ => ?_)
          simp [St.diskOKi]

/-! ### Workers, handle, step -/

theorem runWorkers_sound (fuel : Nat) (m : M) (h : Sound m.1) : Sound (runWorkers fuel m).1 := by
  induction fuel generalizing m with
  | zero => exact h
  | succ n ih =>
    unfold runWorkers
    dsimp only
    repeat' split
    all_goals first
      | exact h
      | (apply ih
         first
           | exact h.adv (handleStopped_adv m)
           | exact allocatorRun_sound m h
           | exact h.adv (handleVerificationDone_adv m)
           | exact writerRun_sound m _ h)

theorem handle_adv (s : St) (p : Parked) (kn : Nat → Bool) (op : Op) (hop : op.isMutate = false) :
    Adv s (handle s p kn op).1.1 := by
  unfold handle
  repeat' split
  all_goals first
    | exact Adv.refl _
    | (simp [Op.isMutate] at hop; done)
    | exact start_adv (s, [])
    | exact handlePieceMessage_adv (s, []) ..
    | exact handlePeerMessage_adv (s, []) ..
    | exact handleExtHandshake_adv (s, []) ..
    | exact handleMetadataData_adv (s, []) ..
    | exact handleMetadataReject_adv (s, []) ..
    | exact handlePex_adv (s, []) ..
    | exact handleDhtPeers_adv (s, []) ..
    | exact closePeer_adv s _
    | exact handlePeerSnubbed_adv (s, []) ..
    | exact Adv.frame rfl rfl rfl rfl
    | (next heq => have hm := congrArg Prod.fst heq; simp only at hm; rw [← hm]; exact acceptPeer_adv (s, []) ..)
    | (next heq => exact Adv.of_eq rfl rfl (Or.inl rfl) (Or.inr (Or.inl heq.symm)))
    | exact (stop_adv s false).trans (Adv.frame rfl rfl rfl rfl)
    | (refine ((?_ : Adv s { s with persisted := none }).trans
          (handleVerifyCommand_adv ({ s with persisted := none }, []))).trans ?_
       · exact ⟨rfl, fun _ h => h, fun _ h => Or.inl h, fun _ h => by simp at h⟩
       · apply Adv.frame <;> simp)

theorem deliverParked_sound (m : M) (p : Parked) (h : Sound m.1) : Sound (deliverParked m p).1.1 := by
  unfold deliverParked
  repeat' split
  all_goals first
    | exact h
    | exact runWorkers_sound _ _ (h.adv (handlePieceMessage_adv ..))

/-- **Soundness is preserved by every event except an external change of the files.** -/
theorem step_sound (s : St) (p : Parked) (kn : Nat → Bool) (op : Op) (hop : op.isMutate = false)
    (h : Sound s) : Sound (step s p kn op).1.st := by
  unfold step
  have h0 : Sound { s with sto := [], mayStart := [], closedDl := [], mayStartI := false } :=
    h.adv (Adv.frame rfl rfl rfl rfl)
  have h1 := runWorkers_sound 12 _ (h0.adv (handle_adv _ p kn op hop))
  dsimp only
  split
  · exact deliverParked_sound _ _ h1
  · exact h1

theorem dstep_sound (sp : St × Parked) (e : Ev) (hop : e.op.isMutate = false) (h : Sound sp.1) :
    Sound (dstep sp e).1 := by
  unfold dstep
  exact ((step_sound sp.1 sp.2 e.known e.op hop h).adv (reconcile_adv _ _)).adv (reconcileIdl_adv _ _)

theorem drun_sound (evs : List Ev) (sp : St × Parked) (hop : ∀ e ∈ evs, e.op.isMutate = false)
    (h : Sound sp.1) : Sound (drun sp evs).1 := by
  induction evs generalizing sp with
  | nil => exact h
  | cons e evs ih =>
    exact ih _ (fun e' he' => hop e' (List.mem_cons_of_mem _ he'))
      (dstep_sound sp e (hop e (List.mem_cons_self ..)) h)

end Rain.Loop
