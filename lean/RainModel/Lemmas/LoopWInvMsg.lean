import RainModel.Lemmas.LoopWInv
/-!
`WInv` (continued): the peer-message handlers.  Every message other than a block is a `WFrame` step; a
block (`handlePieceMessage`) may hand a piece to the writer, which needs `writing = none` — what the
`deferred` verdict of `handle` and `deliverParked` guarantee.
-/
namespace Rain.Loop

/-- Downloads modified in place; every new entry has the piece of an old one. -/
theorem mapDl_wframe' (s : St) (g : Dl → Dl) (hg : ∀ x ∈ s.dls, ∃ d ∈ s.dls, d.piece = (g x).piece) :
    WFrame s { s with dls := s.dls.map g } := by
  refine WFrame.of_lists rfl rfl rfl rfl rfl rfl rfl rfl rfl rfl rfl ?_ (fun h => h)
    (fun p hp msg hm => Or.inr ⟨p, hp, hm⟩)
  intro d' hd'
  simp only [List.mem_map] at hd'
  obtain ⟨d, hd, rfl⟩ := hd'
  exact hg d hd

/-- Queueing a message that needs the metadata. -/
theorem queue_wframe (s : St) (k : Nat) (x : Msg) (hx : needsInfo x = true) :
    WFrame s (s.updPeer k fun p => { p with queued := p.queued ++ [x] }) := by
  apply updPeer_wframe
  intro p msg hm
  simp only [List.mem_append, List.mem_singleton] at hm
  rcases hm with hm | rfl
  · exact Or.inr hm
  · exact Or.inl hx

/-- Decomposes `WFrame m.1 (F (G (H m))).1` along the primitive state functions. -/
macro "wf_chain" : tactic => `(tactic| (
  try simp only [onSt_fst, closePeerM_fst, send_fst]
  repeat (first
    | exact WFrame.refl _
    | exact closePeer_wframe _ _
    | exact queue_wframe _ _ _ rfl
    | exact updPeer_wframe _ _ _ (fun p msg hm => Or.inr hm)
    | exact haveOne_wframe _ _ _
    | exact updateInterested_wframe _ _
    | exact startDlFor_wframe _ _
    | exact startDls_wframe _
    | refine WFrame.trans ?_ (startDlFor_wframe _ _)
    | refine WFrame.trans ?_ (startDls_wframe _)
    | refine WFrame.trans ?_ (updateInterested_wframe _ _)
    | refine WFrame.trans ?_ (closePeer_wframe _ _)
    | refine WFrame.trans ?_ (mapDl_wframe _ _ (by intro d; split <;> rfl)))
  done))

theorem hpm_wframe_have (m : M) (k i : Nat) : WFrame m.1 (handlePeerMessage m k (.have i)).1 := by
  unfold handlePeerMessage
  dsimp only
  repeat' split
  all_goals wf_chain

theorem hpm_wframe_bitfield (m : M) (k : Nat) (bits : List Bool) (nb : Nat) :
    WFrame m.1 (handlePeerMessage m k (.bitfield bits nb)).1 := by
  unfold handlePeerMessage
  dsimp only
  repeat' split
  · wf_chain
  · wf_chain
  · wf_chain
  · simp only [onSt_fst]
    refine WFrame.trans (WFrame.trans ?_ (updateInterested_wframe _ _)) (startDlFor_wframe _ _)
    apply foldl_inv (fun x : M => WFrame m.1 x.1)
    · intro x i hx
      split
      · exact hx.trans (haveOne_wframe x k i)
      · exact hx
    · exact WFrame.refl _

theorem hpm_wframe_haveAll (m : M) (k : Nat) : WFrame m.1 (handlePeerMessage m k .haveAll).1 := by
  unfold handlePeerMessage
  dsimp only
  repeat' split
  · wf_chain
  · simp only [onSt_fst]
    refine WFrame.trans (WFrame.trans ?_ (updateInterested_wframe _ _)) (startDlFor_wframe _ _)
    apply foldl_inv (fun x : M => WFrame m.1 x.1)
    · intro x i hx
      exact hx.trans (haveOne_wframe x k i)
    · exact WFrame.refl _

theorem hpm_wframe_allowedFast (m : M) (k i : Nat) : WFrame m.1 (handlePeerMessage m k (.allowedFast i)).1 := by
  unfold handlePeerMessage
  dsimp only
  repeat' split
  all_goals wf_chain

theorem hpm_wframe_unchoke (m : M) (k : Nat) : WFrame m.1 (handlePeerMessage m k .unchoke).1 := by
  unfold handlePeerMessage
  dsimp only
  repeat' split
  all_goals wf_chain

theorem hpm_wframe_choke (m : M) (k : Nat) : WFrame m.1 (handlePeerMessage m k .choke).1 := by
  unfold handlePeerMessage
  dsimp only
  repeat' split
  all_goals wf_chain

theorem hpm_wframe_interested (m : M) (k : Nat) : WFrame m.1 (handlePeerMessage m k .interested).1 := by
  unfold handlePeerMessage
  dsimp only
  have h0 : WFrame m.1 (m.1.updPeer k fun p => { p with peerInterested := true }) :=
    updPeer_wframe _ _ _ (fun p msg hm => Or.inr hm)
  repeat' split
  all_goals first
    | (simp only [onSt_fst, send_fst]; exact h0)
    | (simp only [onSt_fst, send_fst]
       refine h0.trans (WFrame.trans (updPeer_wframe (m.1.updPeer k fun p => { p with peerInterested := true }) k
         (fun p => { p with clientChoking := false }) (fun p msg hm => Or.inr hm)) ?_)
       wframe_eq)

theorem hpm_wframe_request (m : M) (k i b l : Nat) : WFrame m.1 (handlePeerMessage m k (.request i b l)).1 := by
  unfold handlePeerMessage
  dsimp only
  repeat' split
  all_goals wf_chain

theorem hpm_wframe_reject (m : M) (k i b l : Nat) : WFrame m.1 (handlePeerMessage m k (.reject i b l)).1 := by
  unfold handlePeerMessage
  dsimp only
  repeat' split
  all_goals wf_chain

theorem hpm_wframe_cancel (m : M) (k i b l : Nat) : WFrame m.1 (handlePeerMessage m k (.cancel i b l)).1 := by
  unfold handlePeerMessage
  dsimp only
  repeat' split
  all_goals wf_chain

/-- Every message other than a block is a frame step. -/
theorem handlePeerMessage_wframe (m : M) (k : Nat) (msg : Msg) (hnp : ∀ i b l g, msg ≠ .piece i b l g) :
    WFrame m.1 (handlePeerMessage m k msg).1 := by
  cases msg
  case piece i b l g => exact absurd rfl (hnp i b l g)
  case «have» i => exact hpm_wframe_have m k i
  case bitfield bits nb => exact hpm_wframe_bitfield m k bits nb
  case haveAll => exact hpm_wframe_haveAll m k
  case haveNone => unfold handlePeerMessage; exact WFrame.refl _
  case allowedFast i => exact hpm_wframe_allowedFast m k i
  case choke => exact hpm_wframe_choke m k
  case unchoke => exact hpm_wframe_unchoke m k
  case interested => exact hpm_wframe_interested m k
  case notInterested => unfold handlePeerMessage; wf_chain
  case request i b l => exact hpm_wframe_request m k i b l
  case reject i b l => exact hpm_wframe_reject m k i b l
  case cancel i b l => exact hpm_wframe_cancel m k i b l

/-! ### a block: the piece may go to the writer -/

/-- Handing piece `i` to the writer. -/
theorem WInv.start_write {s s' : St} (h : WInv s) (hw : s.writing = none) (i : Nat) (w : WriteJob)
    (hwp : w.piece = i) (hwg : w.gen = s.gen)
    (hv : s.verifier = false) (hbit : bitOf s.bf i = false) (hin : i < s.n) (hdn : s.done.getD i false = false)
    (h1 : s'.cfg = s.cfg) (h2 : s'.wflag = setAt s.wflag i true) (h3 : s'.writing = some w)
    (h4 : s'.gen = s.gen) (h5 : s'.loaded = s.loaded) (h6 : s'.verifier = s.verifier)
    (h7 : s'.allocator = s.allocator) (h8 : s'.bf = s.bf) (h9 : s'.done = s.done) (h10 : s'.info = s.info)
    (h11 : s'.completed = s.completed) (h12 : s'.dls = s.dls) (h13 : s'.idls = s.idls) (h14 : s'.peers = s.peers) :
    WInv s' := by
  refine ⟨h.q.of_peers h14, ?_, ?_, ?_, ?_, ?_, ?_, ?_, ?_, ?_, ?_⟩
  · intro hl j hj
    rw [h2, getD_setAt] at hj
    split at hj
    · next hji => exact ⟨w, h3, hwp.trans hji.1.symm, hwg.trans h4.symm⟩
    · obtain ⟨w', hw', _⟩ := h.wf (h5 ▸ hl) j hj
      rw [hw] at hw'; cases hw'
  · intro w' hw'
    rw [h3] at hw'; cases hw'
    rw [h4, hwg]; exact Nat.le_refl _
  · intro w' hw' _ _
    rw [h3] at hw'; cases hw'
    rw [h6, h8, hwp]; exact ⟨hv, hbit⟩
  · intro hl
    rw [h2]; unfold St.n; rw [h1]
    simpa [setAt, St.n] using h.wl (h5 ▸ hl)
  · intro w' hw' _ hl
    rw [h3] at hw'; cases hw'
    rw [h2, h9, hwp, getD_setAt]
    have := h.wl (h5 ▸ hl)
    exact ⟨by rw [if_pos ⟨rfl, by omega⟩], hdn⟩
  · rw [h5, h6, h8, h9]; exact h.bd
  · rw [h12, h9]; exact h.dd
  · rw [h12, h5, h7, h6, h11]; exact h.dl
  · rw [h7, h5]; exact h.al
  · rw [h10, h13]; exact h.id

theorem handlePieceMessage_winv (m : M) (k i b l : Nat) (g : Bool) (h : WInv m.1) (hw : m.1.writing = none) :
    WInv (handlePieceMessage m k i b l g).1 := by
  unfold handlePieceMessage
  dsimp only
  split
  · exact h.frame (by wf_chain)
  split
  · exact h.frame (by wf_chain)
  split
  · exact h
  next d hd =>
  split
  · exact h
  split
  · exact h.frame (by wf_chain)
  split
  · exact h
  have hdm : d ∈ m.1.dls := List.mem_of_find?_eq_some hd
  have hf1 : WFrame m.1 { m.1 with dls := m.1.dls.map fun x => if x.k = k then
      ({ d with doneBlocks := b :: d.doneBlocks, good := d.good && g } : Dl) else x } := by
    apply mapDl_wframe'
    intro x hx
    split
    · exact ⟨d, hdm, rfl⟩
    · exact ⟨x, hx, rfl⟩
  split
  · simp only [onSt_fst]
    exact h.frame hf1
  · next hl hn _ hpi _ _ hlen =>
    have hf := hf1.trans (closeDl_wframe _ k)
    have hX := h.frame hf
    obtain ⟨dl1, _, dl3, _⟩ := h.dl (List.ne_nil_of_mem hdm)
    have hpi' : d.piece = i := by simpa using hpi
    have hbit : bitOf m.1.bf i = false := by
      cases hb : m.1.bf with
      | none => rfl
      | some bb =>
        cases hbi : bb.getD i false with
        | false => simpa using hbi
        | true =>
          have h1 := ((h.bd dl1 dl3 bb hb).2 i hbi)
          have h2 := h.dd d hdm
          rw [hpi', h1] at h2; cases h2
    simp only [onSt_fst, ite_fst_M]
    apply WInv.start_write hX (by simpa using hw) i ⟨i, k, d.good && g, m.1.gen, false⟩ rfl (by simp)
      (by simpa using dl3) (by simpa using hbit) (by simpa [St.n] using hn)
      (by have := h.dd d hdm; rw [hpi'] at this; simpa using this)
    all_goals simp

/-- Any peer message, given that a block only arrives while no write is in flight. -/
theorem handlePeerMessage_winv (m : M) (k : Nat) (msg : Msg) (h : WInv m.1)
    (hp : (∃ i b l g, msg = .piece i b l g) → m.1.writing = none) : WInv (handlePeerMessage m k msg).1 := by
  by_cases hpc : ∃ i b l g, msg = .piece i b l g
  · obtain ⟨i, b, l, g, rfl⟩ := hpc
    unfold handlePeerMessage
    exact handlePieceMessage_winv m k i b l g h (hp ⟨i, b, l, g, rfl⟩)
  · exact h.frame (handlePeerMessage_wframe m k msg (fun i b l g he => hpc ⟨i, b, l, g, he⟩))

/-! ### the replay of queued messages -/

theorem needsInfo_not_piece {msg : Msg} (h : needsInfo msg = true) : ∀ i b l g, msg ≠ .piece i b l g := by
  intro i b l g he; subst he; simp [needsInfo] at h

theorem processQueued_wframe (m : M) (h : QueueOK m.1) : WFrame m.1 (processQueued m).1 := by
  unfold processQueued
  apply foldl_inv (fun x : M => WFrame m.1 x.1 ∧ QueueOK x.1) _ _ _ _ ⟨WFrame.refl _, h⟩ |>.1
  intro x k ⟨hx1, hx2⟩
  split
  · exact ⟨hx1, hx2⟩
  · next p hp =>
    have hpq : ∀ msg ∈ p.queued, needsInfo msg = true := hx2 p (List.mem_of_find?_eq_some hp)
    dsimp only
    have h0 : WFrame m.1 (onSt x (·.updPeer k fun p => { p with queued := [] })).1 ∧
        QueueOK (onSt x (·.updPeer k fun p => { p with queued := [] })).1 := by
      simp only [onSt_fst]
      exact ⟨hx1.trans (updPeer_wframe _ _ _ (fun _ msg hm => by cases hm)),
        hx2.updPeer k _ (fun _ _ msg hmsg => by cases hmsg)⟩
    apply foldl_inv_mem (fun y : M => WFrame m.1 y.1 ∧ QueueOK y.1) p.queued _ _ _ h0
    intro y msg hmsg ⟨hy1, hy2⟩
    split
    · exact ⟨hy1.trans (handlePeerMessage_wframe y k msg (needsInfo_not_piece (hpq msg hmsg))),
        (handlePeerMessage_needsInfo y k msg (hpq msg hmsg) hy2).2⟩
    · exact ⟨hy1, hy2⟩

/-! ### the other handlers that stay away from the write machinery -/

theorem handleExtHandshake_wframe (m : M) (k : Nat) (hm : Bool) (sz : Nat) (hpx : Bool) :
    WFrame m.1 (handleExtHandshake m k hm sz hpx).1 := by
  unfold handleExtHandshake
  split
  · exact WFrame.refl _
  · split
    · exact WFrame.refl _
    · dsimp only
      have h0 : ∀ px : Bool, WFrame m.1
          (m.1.updPeer k fun p => { p with extHS := true, extMeta := hm, extSize := sz, pexOn := px }) :=
        fun px => updPeer_wframe _ _ _ (fun p msg h => Or.inr h)
      split
      · simp only [onSt_fst]; exact (h0 _).trans (by wframe_eq)
      · simp only [onSt_fst]; exact h0 _

theorem handleMetadataReject_wframe (m : M) (k : Nat) : WFrame m.1 (handleMetadataReject m k).1 := by
  unfold handleMetadataReject
  split
  · simp only [onSt_fst, closePeerM_fst]
    exact (closePeer_wframe _ _).trans (by wframe_eq)
  · exact WFrame.refl _

theorem handlePex_wframe (m : M) (a d : Bool) : WFrame m.1 (handlePex m a d).1 := by wframe_eq
theorem handleDhtPeers_wframe (m : M) (ne : Bool) : WFrame m.1 (handleDhtPeers m ne).1 := by wframe_eq
theorem mutate_wframe (s : St) (f : Option Nat) (how : Mut) : WFrame s (mutate s f how) := by wframe_eq

theorem handlePeerSnubbed_wframe (m : M) (k : Nat) : WFrame m.1 (handlePeerSnubbed m k).1 := by
  unfold handlePeerSnubbed
  have hX : WFrame m.1 (m.1.updPeer k fun p => { p with snubbed := true }) :=
    updPeer_wframe m.1 k _ (fun p msg hm => Or.inr hm)
  repeat' split
  all_goals first
    | exact WFrame.refl _
    | wf_chain
    | (simp only [onSt_fst]
       refine hX.trans ?_
       refine WFrame.of_lists (s := m.1.updPeer k fun p => { p with snubbed := true }) rfl rfl rfl rfl rfl rfl rfl
         rfl rfl rfl rfl (fun d hd => ⟨d, hd, rfl⟩) ?_ (fun p hp msg hm => Or.inr ⟨p, hp, hm⟩)
       intro h0
       have : m.1.idls = [] := h0
       simp [this])

theorem foldl_send_fst (k : Nat) (l : List String) (x : M) : (l.foldl (fun m y => send m k y) x).1 = x.1 := by
  induction l generalizing x with
  | nil => rfl
  | cons a l ih => rw [List.foldl_cons, ih, send_fst]

theorem acceptPeer_wframe (m : M) (k : Nat) (ip : String) (fast ext bad dup : Bool) :
    WFrame m.1 (acceptPeer m k ip fast ext bad dup).1.1 := by
  refine WFrame.of_lists (by simp) (by simp) (by simp) (by simp) (by simp) (by simp) (by simp) (by simp) (by simp)
    (by simp) (by simp) (fun d hd => ⟨d, by simpa using hd, rfl⟩) (fun h => by simpa using h) ?_
  unfold acceptPeer
  dsimp only
  split
  · exact fun p hp msg hm => Or.inr ⟨p, hp, hm⟩
  split
  · exact fun p hp msg hm => Or.inr ⟨p, hp, hm⟩
  split
  · exact fun p hp msg hm => Or.inr ⟨p, hp, hm⟩
  split
  · exact fun p hp msg hm => Or.inr ⟨p, hp, hm⟩
  split
  · exact fun p hp msg hm => Or.inr ⟨p, hp, hm⟩
  intro p hp msg hm
  rw [foldl_send_fst] at hp
  simp only [onSt_fst, List.mem_append, List.mem_singleton] at hp
  rcases hp with h1 | h1
  · exact Or.inr ⟨p, h1, hm⟩
  · subst h1
    cases hm

end Rain.Loop
