import RainModel.Lemmas.Picker
/-! Web-seed bookkeeping of M-PICK: ranges cleared / marked, `WebseedStopAt`, `CloseWebseedDownloader`,
`findGaps`, `PickWebseed`. -/
namespace Rain.Picker

/-- Pieces `[lo, hi)` with `RequestedWebseed` set to `w`. -/
def webSt (s : State) (w : Option Nat) (lo hi : Nat) : State :=
  { s with pieces := fun j => if lo ≤ j ∧ j < hi then { s.pieces j with webseed := w } else s.pieces j }

@[simp] theorem webSt_pieces (s : State) (w : Option Nat) (lo hi j : Nat) :
    (webSt s w lo hi).pieces j = if lo ≤ j ∧ j < hi then { s.pieces j with webseed := w } else s.pieces j := rfl
@[simp] theorem webSt_n (s : State) (w : Option Nat) (lo hi : Nat) : (webSt s w lo hi).n = s.n := rfl
@[simp] theorem webSt_np (s : State) (w : Option Nat) (lo hi : Nat) : (webSt s w lo hi).np = s.np := rfl
@[simp] theorem webSt_ns (s : State) (w : Option Nat) (lo hi : Nat) : (webSt s w lo hi).ns = s.ns := rfl
@[simp] theorem webSt_peers (s : State) (w : Option Nat) (lo hi : Nat) : (webSt s w lo hi).peers = s.peers := rfl
@[simp] theorem webSt_srcs (s : State) (w : Option Nat) (lo hi : Nat) : (webSt s w lo hi).srcs = s.srcs := rfl
@[simp] theorem webSt_maxDup (s : State) (w : Option Nat) (lo hi : Nat) : (webSt s w lo hi).maxDup = s.maxDup := rfl
@[simp] theorem webSt_maxWeb (s : State) (w : Option Nat) (lo hi : Nat) : (webSt s w lo hi).maxWeb = s.maxWeb := rfl
@[simp] theorem webSt_available (s : State) (w : Option Nat) (lo hi : Nat) : (webSt s w lo hi).available = s.available := rfl
@[simp] theorem webSt_endgame (s : State) (w : Option Nat) (lo hi : Nat) : (webSt s w lo hi).endgame = s.endgame := rfl
@[simp] theorem webSt_sequential (s : State) (w : Option Nat) (lo hi : Nat) : (webSt s w lo hi).sequential = s.sequential := rfl

theorem webSt_empty (s : State) (w : Option Nat) (lo hi : Nat) (h : hi ≤ lo) : webSt s w lo hi = s := by
  unfold webSt
  have : (fun j => if lo ≤ j ∧ j < hi then { s.pieces j with webseed := w } else s.pieces j) = s.pieces := by
    funext j; split
    · omega
    · rfl
  rw [this]

theorem webSt_step (s : State) (w : Option Nat) (i hi : Nat) (h : i < hi) :
    webSt (setPiece s i { s.pieces i with webseed := w }) w (i + 1) hi = webSt s w i hi := by
  unfold webSt setPiece
  congr 1
  funext j
  by_cases h1 : j = i
  · subst h1; simp [h]
  · by_cases h2 : i + 1 ≤ j ∧ j < hi
    · have : i ≤ j ∧ j < hi := by omega
      simp [h1, h2, this]
    · have : ¬ (i ≤ j ∧ j < hi) := by omega
      simp [h1, h2, this]

theorem clearRange_eq (k : Nat) (deref : Bool) : ∀ (fuel i : Nat) (s : State),
    (∀ j, i ≤ j → j < i + fuel → j < s.n ∧ (s.pieces j).webseed = some k) →
    clearRange k deref fuel i s = .ok (webSt s none i (i + fuel))
  | 0, i, s, _ => by simp [clearRange, webSt_empty]
  | fuel + 1, i, s, h => by
    have hi := h i (Nat.le_refl _) (by omega)
    simp only [clearRange, hi.1, hi.2, if_true]
    rw [clearRange_eq k deref fuel (i + 1)]
    · rw [show i + 1 + fuel = i + (fuel + 1) by omega, webSt_step _ _ _ _ (by omega)]
    · intro j h1 h2
      have := h j (by omega) (by omega)
      simp only [setPiece_n, setPiece_pieces]
      have hne : j ≠ i := by omega
      simp [hne, this]

theorem markRange_eq (k : Nat) : ∀ (fuel i : Nat) (s : State),
    (∀ j, i ≤ j → j < i + fuel → j < s.n ∧ (s.pieces j).webseed = none) →
    markRange k fuel i s = .ok (webSt s (some k) i (i + fuel))
  | 0, i, s, _ => by simp [markRange, webSt_empty]
  | fuel + 1, i, s, h => by
    have hi := h i (Nat.le_refl _) (by omega)
    simp only [markRange, hi.1, hi.2, if_true, Option.isSome_none]
    simp only [Bool.false_eq_true, if_false]
    rw [markRange_eq k fuel (i + 1)]
    · rw [show i + 1 + fuel = i + (fuel + 1) by omega, webSt_step _ _ _ _ (by omega)]
    · intro j h1 h2
      have := h j (by omega) (by omega)
      simp only [setPiece_n, setPiece_pieces]
      have hne : j ≠ i := by omega
      simp [hne, this]

macro "upd_simp'" : tactic => `(tactic| simp only [setPiece_pieces, setPiece_n, setPiece_np, setPiece_ns, setPiece_peers,
  setPiece_srcs, setPiece_maxDup, setPiece_maxWeb, setPiece_available, setPiece_endgame, setPiece_sequential,
  setPeer_peers, setPeer_n, setPeer_np, setPeer_ns, setPeer_pieces, setPeer_srcs, setPeer_maxDup, setPeer_maxWeb,
  setPeer_available, setPeer_endgame, setPeer_sequential,
  setSrc_srcs, setSrc_n, setSrc_np, setSrc_ns, setSrc_pieces, setSrc_peers, setSrc_maxDup, setSrc_maxWeb,
  setSrc_available, setSrc_endgame, setSrc_sequential,
  webSt_pieces, webSt_n, webSt_np, webSt_ns, webSt_peers, webSt_srcs, webSt_maxDup, webSt_maxWeb, webSt_available,
  webSt_endgame, webSt_sequential] at *)

macro "clause_auto'" : tactic => `(tactic| (
  (try simp only [NodupOk, ReqSubHaving, StalledOk, DupLimit, DoneIdle, ReqDl, ChokedOk, HavingOpen, WebOwner, DlReq,
    ClosedIdle, AfRange, SrcOk, MaxWebOk, Option.mem_def] at *)
  (try upd_simp')
  grind))

macro "avail_same'" h:ident : tactic => `(tactic| (
  refine availOk_of_same $h rfl rfl ?_
  intro j; simp only [setPiece_pieces, setPeer_pieces, setSrc_pieces, webSt_pieces]
  all_goals ((repeat' split) <;> simp_all)))

/-- The state after `CloseWebseedDownloader(src)` for a downloading source. -/
def closeSt (s : State) (k : Nat) (d : Dl) : State := setSrc (webSt s none d.b d.e) k none

theorem closeWebseed_eq (s : State) (k : Nat) (d : Dl) (hd : s.srcs k = some d) (hbe : d.b ≤ d.e)
    (hown : ∀ j, d.b ≤ j → j < d.e → j < s.n ∧ (s.pieces j).webseed = some k) :
    closeWebseed s k = .ok (closeSt s k d) := by
  unfold closeWebseed closeSt
  simp only [hd]
  rw [clearRange_eq k false (d.e - d.b) d.b s (by intro j h1 h2; exact hown j h1 (by omega))]
  simp [bind, Except.bind, pure, Except.pure, show d.b + (d.e - d.b) = d.e by omega]

theorem closeSt_core (s : State) (k : Nat) (d : Dl) (h : PickCore s) (hk : k < s.ns) (hd : s.srcs k = some d) :
    PickCore (closeSt s k d) := by
  unfold closeSt
  obtain ⟨h1, h2, h3, h4, h6, h7, h8, h9, h10, h11, h12, h13, h14, h15⟩ := h
  constructor
  case avail => avail_same' h14
  all_goals clause_auto'

theorem closeSt_doneIdle (s : State) (k : Nat) (d : Dl) (h : DoneIdle s) : DoneIdle (closeSt s k d) := by
  unfold closeSt DoneIdle at *
  intro j hj hdone
  have := h j hj
  simp only [setSrc_pieces, webSt_pieces] at hdone ⊢
  split at hdone <;> split <;> simp_all

theorem srcOk_own {s : State} (h : SrcOk s) {k : Nat} {d : Dl} (hk : k < s.ns) (hd : s.srcs k = some d) :
    d.b ≤ d.c ∧ d.c < d.e ∧ d.e ≤ s.n ∧ ∀ j, d.b ≤ j → j < d.e → j < s.n ∧ (s.pieces j).webseed = some k := by
  have := h k hk d (by simp [hd])
  refine ⟨this.1, this.2.1, this.2.2.1, ?_⟩
  intro j h1 h2
  exact ⟨by omega, this.2.2.2 j h2 h1⟩

/-- The state after `WebseedStopAt(src, i)` (`closed = decide (d.c ≥ i)`). -/
def stopSt (s : State) (k : Nat) (d : Dl) (i : Nat) : State :=
  let s2 := setSrc (webSt s none i d.e) k (some { d with e := i })
  if d.c ≥ i then closeSt s2 k { d with e := i } else s2

theorem webseedStopAt_eq (s : State) (k : Nat) (d : Dl) (i : Nat) (hs : SrcOk s) (hk : k < s.ns)
    (hd : s.srcs k = some d) (hbi : d.b ≤ i) (hie : i ≤ d.e) :
    webseedStopAt s k i = .ok (stopSt s k d i, decide (d.c ≥ i)) := by
  obtain ⟨hbc, hce, hen, hown⟩ := srcOk_own hs hk hd
  unfold webseedStopAt stopSt
  simp only [hd]
  rw [clearRange_eq k true (d.e - i) i s (by intro j h1 h2; exact hown j (by omega) (by omega))]
  simp only [bind, Except.bind, pure, Except.pure, show i + (d.e - i) = d.e by omega]
  split
  · rename_i hci
    rw [closeWebseed_eq _ k { d with e := i } (by simp) (by simpa using hbi)]
    · simp [hci]
    · intro j h1 h2
      simp only [setSrc_n, webSt_n, setSrc_pieces, webSt_pieces]
      have hj := hown j h1 (by simp at h2; omega)
      have : ¬ (i ≤ j ∧ j < d.e) := by simp at h2; omega
      simp [this, hj]
  · rename_i hci; simp [hci]

theorem stopSt_core (s : State) (k : Nat) (d : Dl) (i : Nat) (h : PickCore s) (hk : k < s.ns)
    (hd : s.srcs k = some d) (hbi : d.b ≤ i) (hie : i ≤ d.e) : PickCore (stopSt s k d i) := by
  obtain ⟨hbc, hce, hen, hown⟩ := srcOk_own h.srcOk hk hd
  unfold stopSt
  simp only []
  split
  · unfold closeSt
    obtain ⟨h1, h2, h3, h4, h6, h7, h8, h9, h10, h11, h12, h13, h14, h15⟩ := h
    constructor
    case avail => avail_same' h14
    all_goals clause_auto'
  · obtain ⟨h1, h2, h3, h4, h6, h7, h8, h9, h10, h11, h12, h13, h14, h15⟩ := h
    constructor
    case avail => avail_same' h14
    all_goals clause_auto'

theorem stopSt_doneIdle (s : State) (k : Nat) (d : Dl) (i : Nat) (h : DoneIdle s) : DoneIdle (stopSt s k d i) := by
  unfold stopSt
  simp only []
  split
  · apply closeSt_doneIdle
    unfold DoneIdle at *
    intro j hj hdone
    have := h j hj
    simp only [setSrc_pieces, webSt_pieces] at hdone ⊢
    split at hdone <;> split <;> simp_all
  · unfold DoneIdle at *
    intro j hj hdone
    have := h j hj
    simp only [setSrc_pieces, webSt_pieces] at hdone ⊢
    split at hdone <;> split <;> simp_all

/-- What `WebseedStopAt` leaves alone. -/
theorem stopSt_frame (s : State) (k : Nat) (d : Dl) (i : Nat) :
    (stopSt s k d i).n = s.n ∧ (stopSt s k d i).np = s.np ∧ (stopSt s k d i).ns = s.ns ∧
    (stopSt s k d i).peers = s.peers ∧ (stopSt s k d i).maxDup = s.maxDup ∧
    (stopSt s k d i).sequential = s.sequential ∧ (stopSt s k d i).endgame = s.endgame ∧
    ∀ j, ((stopSt s k d i).pieces j).having = (s.pieces j).having ∧
      ((stopSt s k d i).pieces j).requested = (s.pieces j).requested ∧
      ((stopSt s k d i).pieces j).done = (s.pieces j).done ∧
      ((stopSt s k d i).pieces j).writing = (s.pieces j).writing := by
  unfold stopSt closeSt
  simp only []
  split
  · refine ⟨rfl, rfl, rfl, rfl, rfl, rfl, rfl, ?_⟩
    intro j; simp only [setSrc_pieces, webSt_pieces]
    (repeat' split) <;> simp
  · refine ⟨rfl, rfl, rfl, rfl, rfl, rfl, rfl, ?_⟩
    intro j; simp only [setSrc_pieces, webSt_pieces]
    (repeat' split) <;> simp

theorem step_closeweb_inv (legacy : Bool) (s : State) (k : Nat) (h : PickInv s) :
    ∀ r ∈ step legacy s (.closeweb k), ∃ s' o, r = .ok (s', o) ∧ PickInv s' := by
  intro r hr
  simp only [step] at hr
  split at hr
  · rename_i hk
    cases hd : s.srcs k with
    | none =>
      simp [closeWebseed, hd] at hr; subst hr; exact ⟨_, _, rfl, h⟩
    | some d =>
      obtain ⟨hbc, hce, hen, hown⟩ := srcOk_own h.srcOk hk hd
      rw [closeWebseed_eq s k d hd (by omega) hown] at hr
      simp at hr; subst hr
      exact ⟨_, _, rfl, (closeSt_core s k d h.core hk hd).inv (closeSt_doneIdle s k d h.doneIdle)⟩
  · simp at hr; subst hr; exact ⟨_, _, rfl, h⟩


theorem cancelState_peers_ne (s : State) (p q : Nat) (h : q ≠ p) : (cancelState s p).peers q = s.peers q := by
  unfold cancelState; split <;> simp [h]

theorem cancelState_requested (s : State) (p : Nat) (h : PickCore s) (j : Nat) (hj : j < s.n) :
    ∀ q ∈ ((cancelState s p).pieces j).requested, q ∈ (s.pieces j).requested ∧ q ≠ p := by
  intro q hq
  unfold cancelState at hq
  split at hq
  · rename_i hdl
    refine ⟨hq, ?_⟩
    intro hqp; subst hqp
    have := h.reqDl j hj q hq
    rw [hdl] at this; simp at this
  · rename_i i af hdl
    simp only [setPeer_pieces, setPiece_pieces, Piece.cancel] at hq
    split at hq
    · rename_i hji; subst hji
      have := (h.nodup j hj).2.1
      rw [this.mem_erase_iff] at hq
      exact ⟨hq.2, hq.1⟩
    · rename_i hji
      refine ⟨hq, ?_⟩
      intro hqp; subst hqp
      have := h.reqDl j hj q hq
      rw [hdl] at this; simp at this; exact hji this.symm

theorem cancelAll_spec : ∀ (l : List Nat) (s : State), PickCore s → l.Nodup →
    (∀ p ∈ l, p < s.np ∧ (s.peers p).dl ≠ none) →
    ∃ s', cancelAll s l = .ok s' ∧ PickCore s' ∧ s'.n = s.n ∧
      (∀ j, (s'.pieces j).done = (s.pieces j).done) ∧
      (∀ j, j < s.n → ∀ q ∈ (s'.pieces j).requested, q ∈ (s.pieces j).requested ∧ q ∉ l)
  | [], s, h, _, _ => ⟨s, rfl, h, rfl, fun _ => rfl, fun j _ q hq => ⟨hq, by simp⟩⟩
  | p :: rest, s, h, hnd, hl => by
    have hp := hl p (by simp)
    simp only [cancelAll]
    cases hdl : (s.peers p).dl with
    | none => exact absurd hdl hp.2
    | some x =>
      simp only []
      rw [cancelPeer_eq s p h.dlReq hp.1]
      simp only [bind, Except.bind]
      have hnd' := List.nodup_cons.mp hnd
      obtain ⟨s', he, hc, hn, hdone, hreq⟩ := cancelAll_spec rest (cancelState s p) (cancelState_core s p h hp.1) hnd'.2 (by
        intro q hq
        have hqp : q ≠ p := by intro e; subst e; exact hnd'.1 hq
        rw [cancelState_peers_ne s p q hqp, cancelState_np]
        exact hl q (by simp [hq]))
      refine ⟨s', he, hc, by rw [hn, cancelState_n], ?_, ?_⟩
      · intro j; rw [hdone j, (cancelState_flags s p j).1]
      · intro j hj q hq
        have h1 := hreq j (by rw [cancelState_n]; exact hj) q hq
        have h2 := cancelState_requested s p h j hj q h1.1
        refine ⟨h2.1, ?_⟩
        simp only [List.mem_cons, not_or]
        exact ⟨h2.2, h1.2⟩

theorem step_wok_inv (legacy : Bool) (s : State) (i : Nat) (web : Bool) (h : PickInv s) :
    ∀ r ∈ step legacy s (.wok i web), ∃ s' o, r = .ok (s', o) ∧ PickInv s' := by
  intro r hr
  simp only [step] at hr
  split at hr
  · rename_i hpre
    obtain ⟨hi, hw, hnd⟩ := hpre
    -- the flags are set first: everything but `DoneIdle` for piece `i` survives
    have hc1 : PickCore (setPiece s i { s.pieces i with writing := false, done := true }) := by
      obtain ⟨h1, h2, h3, h4, h5, h6, h7, h8, h9, h10, h11, h12, h13, h14, h15⟩ := h
      constructor
      case avail => avail_same h14
      all_goals clause_auto
    have hd1 : ∀ j, j < s.n → j ≠ i → ((setPiece s i { s.pieces i with writing := false, done := true }).pieces j).done = true →
        ((setPiece s i { s.pieces i with writing := false, done := true }).pieces j).requested = [] := by
      intro j hj hji hdone
      simp only [setPiece_pieces, hji, if_false] at hdone ⊢
      exact h.doneIdle j hj hdone
    generalize hs1 : setPiece s i { s.pieces i with writing := false, done := true } = s1 at *
    have hn1 : s1.n = s.n := by rw [← hs1]; rfl
    have hdone1 : (s1.pieces i).done = true := by rw [← hs1]; simp
    -- WebseedStopAt, if the piece belonged to a web seed and was written by a peer
    have hstop : ∀ r1 : R State, (r1 = .ok s1 ∨ ∃ k, (s1.pieces i).webseed = some k ∧
          r1 = (webseedStopAt s1 k i).map (fun x : State × Bool => x.1)) →
          ∃ s2, r1 = .ok s2 ∧ PickCore s2 ∧ s2.n = s1.n ∧ s2.np = s1.np ∧ s2.peers = s1.peers ∧
          (∀ j, (s2.pieces j).done = (s1.pieces j).done ∧ (s2.pieces j).requested = (s1.pieces j).requested) := by
      intro r1 hr1
      rcases hr1 with hr1 | ⟨k, hk, hr1⟩
      · exact ⟨s1, hr1, hc1, rfl, rfl, rfl, fun j => ⟨rfl, rfl⟩⟩
      · have hwo := hc1.webOwner i (by omega) k (by simp [hk])
        obtain ⟨hkn, d, hd, hbi, hie⟩ := hwo
        simp only [Option.mem_def] at hd
        rw [webseedStopAt_eq s1 k d i hc1.srcOk hkn hd hbi (by omega)] at hr1
        have hf := stopSt_frame s1 k d i
        refine ⟨_, hr1, stopSt_core s1 k d i hc1 hkn hd hbi (by omega), hf.1, hf.2.1, hf.2.2.2.1, ?_⟩
        intro j; exact ⟨(hf.2.2.2.2.2.2.2 j).2.2.1, (hf.2.2.2.2.2.2.2 j).2.1⟩
    simp only [List.mem_singleton] at hr
    have hmid : ∃ s2, r = ((.ok s2 : R State).bind fun s2 => (cancelAll s2 (s2.pieces i).requested).map (·, Obs.done)) ∧
        PickCore s2 ∧ s2.n = s1.n ∧ s2.np = s1.np ∧ s2.peers = s1.peers ∧
        (∀ j, (s2.pieces j).done = (s1.pieces j).done ∧ (s2.pieces j).requested = (s1.pieces j).requested) := by
      split at hr
      · rename_i k hk
        obtain ⟨s2, he2, rest⟩ := hstop _ (Or.inr ⟨k, hk, rfl⟩)
        rw [he2] at hr
        exact ⟨s2, hr, rest⟩
      · obtain ⟨s2, he2, rest⟩ := hstop _ (Or.inl rfl)
        exact ⟨s1, hr, hc1, rfl, rfl, rfl, fun j => ⟨rfl, rfl⟩⟩
    clear hr
    obtain ⟨s2, hr, hc2, hn2, hnp2, hpe2, hfl2⟩ := hmid
    simp only [bind, Except.bind] at hr
    obtain ⟨s3, he3, hc3, hn3, hdone3, hreq3⟩ := cancelAll_spec (s2.pieces i).requested s2 hc2
      (hc2.nodup i (by omega)).2.1 (by
        intro p hp
        have h1 := hc2.reqDl i (by omega) p hp
        have h2 := hc2.havingOpen i (by omega) p (hc2.reqSubHaving i (by omega) p hp)
        refine ⟨h2.1, ?_⟩
        intro hnone; rw [hnone] at h1; simp at h1)
    rw [he3] at hr
    simp [Except.map] at hr; subst hr
    refine ⟨_, _, rfl, hc3.inv ?_⟩
    intro j hj hdone
    rw [hdone3 j, (hfl2 j).1] at hdone
    have hjn : j < s2.n := by omega
    apply List.eq_nil_iff_forall_not_mem.mpr
    intro q hq
    have h1 := hreq3 j hjn q hq
    by_cases hji : j = i
    · subst hji; exact h1.2 h1.1
    · have := hd1 j (by omega) hji hdone
      rw [(hfl2 j).2, this] at h1
      simp at h1
  · simp at hr; subst hr; exact ⟨_, _, rfl, h⟩

end Rain.Picker
