import RainModel.Lemmas.Picker
/-! Web-seed bookkeeping of M-PICK: ranges cleared / marked, `WebseedStopAt`, `CloseWebseedDownloader`,
`findGaps`, `PickWebseed`. -/
namespace Rain.Picker

/-- Pieces `[lo, hi)` with `RequestedWebseed` set to `w`. -/
def webSt (s : State) (w : Option Nat) (lo hi : Nat) : State :=
  { s with pieces := fun j => if lo ≤ j ∧ j < hi then { s.pieces j with webseed := w } else s.pieces j }

@[simp] theorem webSt_pieces (s : State) (w : Option Nat) (lo hi j : Nat) :
    (webSt s w lo hi).pieces j = if lo ≤ j ∧ j < hi then { s.pieces j with webseed := w } else s.pieces j := rfl
@[simp] theorem webSt_n (s : State) (w : Option Nat) (lo hi : Nat) : (webSt s w lo hi).n = s.n := rfl
@[simp] theorem webSt_np (s : State) (w : Option Nat) (lo hi : Nat) : (webSt s w lo hi).np = s.np := rfl
@[simp] theorem webSt_ns (s : State) (w : Option Nat) (lo hi : Nat) : (webSt s w lo hi).ns = s.ns := rfl
@[simp] theorem webSt_peers (s : State) (w : Option Nat) (lo hi : Nat) : (webSt s w lo hi).peers = s.peers := rfl
@[simp] theorem webSt_srcs (s : State) (w : Option Nat) (lo hi : Nat) : (webSt s w lo hi).srcs = s.srcs := rfl
@[simp] theorem webSt_maxDup (s : State) (w : Option Nat) (lo hi : Nat) : (webSt s w lo hi).maxDup = s.maxDup := rfl
@[simp] theorem webSt_maxWeb (s : State) (w : Option Nat) (lo hi : Nat) : (webSt s w lo hi).maxWeb = s.maxWeb := rfl
@[simp] theorem webSt_available (s : State) (w : Option Nat) (lo hi : Nat) : (webSt s w lo hi).available = s.available := rfl
@[simp] theorem webSt_endgame (s : State) (w : Option Nat) (lo hi : Nat) : (webSt s w lo hi).endgame = s.endgame := rfl
@[simp] theorem webSt_sequential (s : State) (w : Option Nat) (lo hi : Nat) : (webSt s w lo hi).sequential = s.sequential := rfl

theorem webSt_empty (s : State) (w : Option Nat) (lo hi : Nat) (h : hi ≤ lo) : webSt s w lo hi = s := by
  unfold webSt
  have : (fun j => if lo ≤ j ∧ j < hi then { s.pieces j with webseed := w } else s.pieces j) = s.pieces := by
    funext j; split
    · omega
    · rfl
  rw [this]

theorem webSt_step (s : State) (w : Option Nat) (i hi : Nat) (h : i < hi) :
    webSt (setPiece s i { s.pieces i with webseed := w }) w (i + 1) hi = webSt s w i hi := by
  unfold webSt setPiece
  congr 1
  funext j
  by_cases h1 : j = i
  · subst h1; simp [h]
  · by_cases h2 : i + 1 ≤ j ∧ j < hi
    · have : i ≤ j ∧ j < hi := by omega
      simp [h1, h2, this]
    · have : ¬ (i ≤ j ∧ j < hi) := by omega
      simp [h1, h2, this]

theorem clearRange_eq (k : Nat) : ∀ (fuel i : Nat) (s : State),
    (∀ j, i ≤ j → j < i + fuel → j < s.n ∧ (s.pieces j).webseed = some k) →
    clearRange k fuel i s = .ok (webSt s none i (i + fuel))
  | 0, i, s, _ => by simp [clearRange, webSt_empty]
  | fuel + 1, i, s, h => by
    have hi := h i (Nat.le_refl _) (by omega)
    simp only [clearRange, hi.1, hi.2, if_true]
    rw [clearRange_eq k fuel (i + 1)]
    · rw [show i + 1 + fuel = i + (fuel + 1) by omega, webSt_step _ _ _ _ (by omega)]
    · intro j h1 h2
      have := h j (by omega) (by omega)
      simp only [setPiece_n, setPiece_pieces]
      have hne : j ≠ i := by omega
      simp [hne, this]

theorem markRange_eq (k : Nat) : ∀ (fuel i : Nat) (s : State),
    (∀ j, i ≤ j → j < i + fuel → j < s.n ∧ (s.pieces j).webseed = none) →
    markRange k fuel i s = .ok (webSt s (some k) i (i + fuel))
  | 0, i, s, _ => by simp [markRange, webSt_empty]
  | fuel + 1, i, s, h => by
    have hi := h i (Nat.le_refl _) (by omega)
    simp only [markRange, hi.1, hi.2, if_true, Option.isSome_none]
    simp only [Bool.false_eq_true, if_false]
    rw [markRange_eq k fuel (i + 1)]
    · rw [show i + 1 + fuel = i + (fuel + 1) by omega, webSt_step _ _ _ _ (by omega)]
    · intro j h1 h2
      have := h j (by omega) (by omega)
      simp only [setPiece_n, setPiece_pieces]
      have hne : j ≠ i := by omega
      simp [hne, this]

macro "upd_simp'" : tactic => `(tactic| simp only [setPiece_pieces, setPiece_n, setPiece_np, setPiece_ns, setPiece_peers,
  setPiece_srcs, setPiece_maxDup, setPiece_maxWeb, setPiece_available, setPiece_endgame, setPiece_sequential,
  setPeer_peers, setPeer_n, setPeer_np, setPeer_ns, setPeer_pieces, setPeer_srcs, setPeer_maxDup, setPeer_maxWeb,
  setPeer_available, setPeer_endgame, setPeer_sequential,
  setSrc_srcs, setSrc_n, setSrc_np, setSrc_ns, setSrc_pieces, setSrc_peers, setSrc_maxDup, setSrc_maxWeb,
  setSrc_available, setSrc_endgame, setSrc_sequential,
  webSt_pieces, webSt_n, webSt_np, webSt_ns, webSt_peers, webSt_srcs, webSt_maxDup, webSt_maxWeb, webSt_available,
  webSt_endgame, webSt_sequential] at *)

macro "clause_auto'" : tactic => `(tactic| (
  (try simp only [NodupOk, ReqSubHaving, StalledOk, DupLimit, DoneIdle, ReqDl, ChokedOk, HavingOpen, WebOwner, DlReq,
    ClosedIdle, AfRange, SrcOk, MaxWebOk, Option.mem_def] at *)
  (try upd_simp')
  grind))

macro "avail_same'" h:ident : tactic => `(tactic| (
  refine availOk_of_same $h rfl rfl ?_
  intro j; simp only [setPiece_pieces, setPeer_pieces, setSrc_pieces, webSt_pieces]
  all_goals ((repeat' split) <;> simp_all)))

/-- The state after `CloseWebseedDownloader(src)` for a downloading source. -/
def closeSt (s : State) (k : Nat) (d : Dl) : State := setSrc (webSt s none d.b d.e) k none

theorem closeWebseed_eq (s : State) (k : Nat) (d : Dl) (hd : s.srcs k = some d) (hbe : d.b ≤ d.e)
    (hown : ∀ j, d.b ≤ j → j < d.e → j < s.n ∧ (s.pieces j).webseed = some k) :
    closeWebseed s k = .ok (closeSt s k d) := by
  unfold closeWebseed closeSt
  simp only [hd]
  rw [clearRange_eq k (d.e - d.b) d.b s (by intro j h1 h2; exact hown j h1 (by omega))]
  simp [bind, Except.bind, pure, Except.pure, show d.b + (d.e - d.b) = d.e by omega]

theorem closeSt_core (s : State) (k : Nat) (d : Dl) (h : PickCore s) (hk : k < s.ns) (hd : s.srcs k = some d) :
    PickCore (closeSt s k d) := by
  unfold closeSt
  obtain ⟨h1, h2, h3, h4, h6, h7, h8, h9, h10, h11, h12, h13, h14, h15⟩ := h
  constructor
  case avail => avail_same' h14
  all_goals clause_auto'

theorem closeSt_doneIdle (s : State) (k : Nat) (d : Dl) (h : DoneIdle s) : DoneIdle (closeSt s k d) := by
  unfold closeSt DoneIdle at *
  intro j hj hdone
  have := h j hj
  simp only [setSrc_pieces, webSt_pieces] at hdone ⊢
  split at hdone <;> split <;> simp_all

theorem srcOk_own {s : State} (h : SrcOk s) {k : Nat} {d : Dl} (hk : k < s.ns) (hd : s.srcs k = some d) :
    d.b ≤ d.c ∧ d.c < d.e ∧ d.e ≤ s.n ∧ ∀ j, d.b ≤ j → j < d.e → j < s.n ∧ (s.pieces j).webseed = some k := by
  have := h k hk d (by simp [hd])
  refine ⟨this.1, this.2.1, this.2.2.1, ?_⟩
  intro j h1 h2
  exact ⟨by omega, this.2.2.2 j h2 h1⟩

/-- The state after `WebseedStopAt(src, i)` (`closed = decide (d.c ≥ i)`). -/
def stopSt (s : State) (k : Nat) (d : Dl) (i : Nat) : State :=
  let s2 := setSrc (webSt s none i d.e) k (some { d with e := i })
  if d.c ≥ i then closeSt s2 k { d with e := i } else s2

theorem webseedStopAt_eq (s : State) (k : Nat) (d : Dl) (i : Nat) (hs : SrcOk s) (hk : k < s.ns)
    (hd : s.srcs k = some d) (hbi : d.b ≤ i) (hie : i ≤ d.e) :
    webseedStopAt s k i = .ok (stopSt s k d i, decide (d.c ≥ i)) := by
  obtain ⟨hbc, hce, hen, hown⟩ := srcOk_own hs hk hd
  unfold webseedStopAt stopSt
  simp only [hd]
  rw [clearRange_eq k (d.e - i) i s (by intro j h1 h2; exact hown j (by omega) (by omega))]
  simp only [bind, Except.bind, pure, Except.pure, show i + (d.e - i) = d.e by omega]
  split
  · rename_i hci
    rw [closeWebseed_eq _ k { d with e := i } (by simp) (by simpa using hbi)]
    · simp [hci]
    · intro j h1 h2
      simp only [setSrc_n, webSt_n, setSrc_pieces, webSt_pieces]
      have hj := hown j h1 (by simp at h2; omega)
      have : ¬ (i ≤ j ∧ j < d.e) := by simp at h2; omega
      simp [this, hj]
  · rename_i hci; simp [hci]

theorem stopSt_core (s : State) (k : Nat) (d : Dl) (i : Nat) (h : PickCore s) (hk : k < s.ns)
    (hd : s.srcs k = some d) (hbi : d.b ≤ i) (hie : i ≤ d.e) : PickCore (stopSt s k d i) := by
  obtain ⟨hbc, hce, hen, hown⟩ := srcOk_own h.srcOk hk hd
  unfold stopSt
  simp only []
  split
  · unfold closeSt
    obtain ⟨h1, h2, h3, h4, h6, h7, h8, h9, h10, h11, h12, h13, h14, h15⟩ := h
    constructor
    case avail => avail_same' h14
    all_goals clause_auto'
  · obtain ⟨h1, h2, h3, h4, h6, h7, h8, h9, h10, h11, h12, h13, h14, h15⟩ := h
    constructor
    case avail => avail_same' h14
    all_goals clause_auto'

theorem stopSt_doneIdle (s : State) (k : Nat) (d : Dl) (i : Nat) (h : DoneIdle s) : DoneIdle (stopSt s k d i) := by
  unfold stopSt
  simp only []
  split
  · apply closeSt_doneIdle
    unfold DoneIdle at *
    intro j hj hdone
    have := h j hj
    simp only [setSrc_pieces, webSt_pieces] at hdone ⊢
    split at hdone <;> split <;> simp_all
  · unfold DoneIdle at *
    intro j hj hdone
    have := h j hj
    simp only [setSrc_pieces, webSt_pieces] at hdone ⊢
    split at hdone <;> split <;> simp_all

/-- What `WebseedStopAt` leaves alone. -/
theorem stopSt_frame (s : State) (k : Nat) (d : Dl) (i : Nat) :
    (stopSt s k d i).n = s.n ∧ (stopSt s k d i).np = s.np ∧ (stopSt s k d i).ns = s.ns ∧
    (stopSt s k d i).peers = s.peers ∧ (stopSt s k d i).maxDup = s.maxDup ∧
    (stopSt s k d i).sequential = s.sequential ∧ (stopSt s k d i).endgame = s.endgame ∧
    ∀ j, ((stopSt s k d i).pieces j).having = (s.pieces j).having ∧
      ((stopSt s k d i).pieces j).requested = (s.pieces j).requested ∧
      ((stopSt s k d i).pieces j).done = (s.pieces j).done ∧
      ((stopSt s k d i).pieces j).writing = (s.pieces j).writing := by
  unfold stopSt closeSt
  simp only []
  split
  · refine ⟨rfl, rfl, rfl, rfl, rfl, rfl, rfl, ?_⟩
    intro j; simp only [setSrc_pieces, webSt_pieces]
    (repeat' split) <;> simp
  · refine ⟨rfl, rfl, rfl, rfl, rfl, rfl, rfl, ?_⟩
    intro j; simp only [setSrc_pieces, webSt_pieces]
    (repeat' split) <;> simp

theorem step_closeweb_inv (legacy : Bool) (s : State) (k : Nat) (h : PickInv s) :
    ∀ r ∈ step legacy s (.closeweb k), ∃ s' o, r = .ok (s', o) ∧ PickInv s' := by
  intro r hr
  simp only [step] at hr
  split at hr
  · rename_i hk
    cases hd : s.srcs k with
    | none =>
      simp [closeWebseed, hd] at hr; subst hr; exact ⟨_, _, rfl, h⟩
    | some d =>
      obtain ⟨hbc, hce, hen, hown⟩ := srcOk_own h.srcOk hk hd
      rw [closeWebseed_eq s k d hd (by omega) hown] at hr
      simp at hr; subst hr
      exact ⟨_, _, rfl, (closeSt_core s k d h.core hk hd).inv (closeSt_doneIdle s k d h.doneIdle)⟩
  · simp at hr; subst hr; exact ⟨_, _, rfl, h⟩

end Rain.Picker
