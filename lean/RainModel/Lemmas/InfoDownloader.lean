import RainModel.Model.InfoDownloader
/-! Helper lemmas for the InfoDownloader theorems of C13. -/
namespace Rain.InfoDL

/-! ### Block arithmetic -/

theorem lt_numBlocks_iff {bs sz i : Nat} (hbs : 0 < bs) : i < numBlocks bs sz ↔ i * bs < sz := by
  unfold numBlocks
  rw [Nat.lt_iff_add_one_le, Nat.le_div_iff_mul_le hbs, Nat.add_mul]
  omega

/-- No `uint32` wrap and no slice-bounds panic: a block's byte range lies inside the buffer. -/
theorem range_le {bs sz i : Nat} (hbs : 0 < bs) (h : i < numBlocks bs sz) :
    0 < blockLen bs sz i ∧ i * bs + blockLen bs sz i ≤ sz := by
  have := (lt_numBlocks_iff hbs).1 h
  unfold blockLen
  omega

theorem numBlocks_mul_ge {bs sz : Nat} (hbs : 0 < bs) : sz ≤ numBlocks bs sz * bs := by
  have h : ¬ numBlocks bs sz < numBlocks bs sz := Nat.lt_irrefl _
  rw [lt_numBlocks_iff hbs] at h
  omega

theorem numBlocks_cases {bs sz : Nat} (hbs : 0 < bs) :
    numBlocks bs sz = if sz % bs ≠ 0 then sz / bs + 1 else sz / bs := by
  have hdm := Nat.div_add_mod sz bs
  have hm := Nat.mod_lt sz hbs
  unfold numBlocks
  split
  · apply Nat.div_eq_of_lt_le
    · rw [Nat.add_mul]; rw [Nat.mul_comm] at hdm; omega
    · rw [Nat.add_mul, Nat.add_mul]; rw [Nat.mul_comm] at hdm; omega
  · apply Nat.div_eq_of_lt_le
    · rw [Nat.mul_comm] at hdm; omega
    · rw [Nat.add_mul]; rw [Nat.mul_comm] at hdm; omega

theorem blockLen_last {bs sz : Nat} (hbs : 0 < bs) (_hm : sz % bs ≠ 0) :
    blockLen bs sz (sz / bs) = sz % bs := by
  have hdm := Nat.div_add_mod sz bs
  have := Nat.mod_lt sz hbs
  unfold blockLen
  rw [Nat.mul_comm] at hdm
  omega

theorem blockLen_full {bs sz i : Nat} (h : (i + 1) * bs ≤ sz) : blockLen bs sz i = bs := by
  unfold blockLen
  rw [Nat.add_mul] at h
  omega

/-- `createBlocks` pointwise. -/
theorem createBlocks_get {bs sz : Nat} (hbs : 0 < bs) (i : Nat) :
    (createBlocks bs sz)[i]? =
      if i < numBlocks bs sz then some ⟨blockLen bs sz i, false, false⟩ else none := by
  have hdm := Nat.div_add_mod sz bs
  have hml := Nat.mod_lt sz hbs
  rw [numBlocks_cases hbs]
  unfold createBlocks
  by_cases hm : sz % bs ≠ 0
  · simp only [hm, ne_eq, not_false_eq_true, ↓reduceIte, List.length_replicate, gt_iff_lt,
      Nat.zero_lt_succ, and_self, Nat.add_sub_cancel]
    rw [List.getElem?_set, List.getElem?_replicate]
    simp only [List.length_replicate]
    by_cases hi : sz / bs = i
    · subst hi
      simp [blockLen_last hbs hm]
    · simp only [hi, ↓reduceIte]
      by_cases hlt : i < sz / bs + 1
      · have : (i + 1) * bs ≤ sz := by
          have h1 : i + 1 ≤ sz / bs := by omega
          have := Nat.mul_le_mul_right bs h1
          rw [Nat.mul_comm (sz / bs)] at this
          omega
        simp [hlt, blockLen_full this]
      · simp [hlt]
  · have hm0 : sz % bs = 0 := by omega
    simp only [hm0, ne_eq, not_true_eq_false, ↓reduceIte, false_and]
    rw [List.getElem?_replicate]
    by_cases hlt : i < sz / bs
    · have : (i + 1) * bs ≤ sz := by
        have h1 : i + 1 ≤ sz / bs := by omega
        have := Nat.mul_le_mul_right bs h1
        rw [Nat.mul_comm (sz / bs)] at this
        omega
      simp [hlt, blockLen_full this]
    · simp [hlt]

theorem createBlocks_length {bs sz : Nat} (hbs : 0 < bs) :
    (createBlocks bs sz).length = numBlocks bs sz := by
  have h1 := createBlocks_get (sz := sz) hbs (numBlocks bs sz)
  simp only [Nat.lt_irrefl, ↓reduceIte] at h1
  have h1 := List.getElem?_eq_none_iff.1 h1
  by_cases h0 : numBlocks bs sz = 0
  · have := createBlocks_get (sz := sz) hbs 0
    omega
  · have h2 := createBlocks_get (sz := sz) hbs (numBlocks bs sz - 1)
    have : numBlocks bs sz - 1 < numBlocks bs sz := by omega
    simp only [this, ↓reduceIte] at h2
    have := (List.getElem?_eq_some_iff.1 h2).1
    omega

/-! ### Well-formed downloader states -/

/-- Block `i` has a stored answer (`false` outside the block list). -/
def recvd (d : ID) (i : Nat) : Bool :=
  match d.blocks[i]? with
  | some b => b.received
  | none => false

/-- Requests sent whose answer has not been stored yet. -/
def outstanding (d : ID) : Nat := d.blocks.countP fun b => b.requested && !b.received

theorem countP_set_of_get {α : Type} (p : α → Bool) :
    ∀ (l : List α) (i : Nat) (a b : α), l[i]? = some a →
      (l.set i b).countP p + (if p a then 1 else 0) = l.countP p + (if p b then 1 else 0) := by
  intro l
  induction l with
  | nil => intro i a b h; simp at h
  | cons x t ih =>
    intro i a b h
    cases i with
    | zero =>
      simp only [List.getElem?_cons_zero, Option.some.injEq] at h
      subst h
      simp only [List.set_cons_zero, List.countP_cons]
      omega
    | succ i =>
      simp only [List.getElem?_cons_succ] at h
      have := ih i a b h
      simp only [List.set_cons_succ, List.countP_cons]
      omega

theorem recvd_congr {d d' : ID} {j : Nat} (h : d'.blocks[j]? = d.blocks[j]?) : recvd d' j = recvd d j := by
  unfold recvd; rw [h]

structure WF (bs sz : Nat) (d : ID) : Prop where
  msize : d.msize = sz
  blen : d.bytes.length = sz
  nblk : d.blocks.length = numBlocks bs sz
  blk : ∀ i, i < numBlocks bs sz →
    d.blocks[i]? = some ⟨blockLen bs sz i, decide (i < d.next), recvd d i⟩ ∧ (recvd d i = true → i < d.next)
  next_le : d.next ≤ numBlocks bs sz

theorem wf_new {bs sz : Nat} (hbs : 0 < bs) : WF bs sz (newWith bs sz) where
  msize := rfl
  blen := by simp [newWith]
  nblk := createBlocks_length hbs
  blk := by
    intro i hi
    have e : (createBlocks bs sz)[i]? = some ⟨blockLen bs sz i, false, false⟩ := by
      simp [createBlocks_get hbs, hi]
    simp [newWith, recvd, e]
  next_le := Nat.zero_le _

/-- `GotBlock` in normal form on well-formed states: the four guards, then the splice. -/
theorem gotBlock_spec {bs sz : Nat} (hbs : 0 < bs) {d : ID} (h : WF bs sz d) (i : Nat) (data : Bytes) :
    gotBlock bs d i data =
      if numBlocks bs sz ≤ i then (d, .err .index)
      else if ¬ i < d.next then (d, .err .unrequested)
      else if data.length ≠ blockLen bs sz i then (d, .err .size)
      else if recvd d i = true then (d, .err .duplicate)
      else ({ d with pending := d.pending - 1,
                     blocks := d.blocks.set i ⟨blockLen bs sz i, true, true⟩,
                     bytes := splice d.bytes (i * bs) data }, .ok) := by
  unfold gotBlock
  rw [h.nblk]
  by_cases hi : numBlocks bs sz ≤ i
  · simp [hi]
  · have hi' : i < numBlocks bs sz := by omega
    have hr := range_le hbs hi'
    simp only [ge_iff_le, hi, ↓reduceIte, (h.blk i hi').1]
    by_cases hn : i < d.next
    · simp only [hn, decide_true, Bool.not_true, Bool.false_eq_true, ↓reduceIte, not_true_eq_false]
      by_cases hl : data.length = blockLen bs sz i
      · have : ¬ (i * bs + blockLen bs sz i > d.bytes.length) := by rw [h.blen]; omega
        by_cases hrc : recvd d i = true
        · simp [hl, hrc]
        · simp only [hl, ne_eq, not_true_eq_false, ↓reduceIte, this, splice, hrc]
      · simp [hl]
    · simp [hn]

theorem recvd_set (d : ID) (i j : Nat) (b : Blk) (hi : i < d.blocks.length) (bytes : Bytes) (p : Int) :
    recvd { d with pending := p, blocks := d.blocks.set i b, bytes := bytes } j =
      if i = j then b.received else recvd d j := by
  unfold recvd
  simp only [List.getElem?_set]
  by_cases e : i = j
  · subst e; simp [hi]
  · simp [e]

theorem wf_gotBlock {bs sz : Nat} (hbs : 0 < bs) {d : ID} (h : WF bs sz d) (i : Nat) (data : Bytes) :
    WF bs sz (gotBlock bs d i data).1 := by
  rw [gotBlock_spec hbs h]
  split
  · exact h
  split
  · exact h
  split
  · exact h
  split
  · exact h
  · rename_i h1 h2 h3 h4
    have hi : i < numBlocks bs sz := by omega
    have hr := range_le (sz := sz) hbs hi
    have hl : data.length = blockLen bs sz i := by omega
    have hil : i < d.blocks.length := by rw [h.nblk]; exact hi
    refine ⟨h.msize, ?_, by simp [h.nblk], ?_, h.next_le⟩
    · simp only [splice, List.length_append, List.length_take, List.length_drop, h.blen]
      omega
    · intro j hj
      rw [recvd_set d i j _ hil]
      simp only [List.getElem?_set]
      by_cases e : i = j
      · subst e
        have : i < d.next := by omega
        simp [hil, this]
      · simp only [e, ↓reduceIte]
        exact h.blk j hj

/-- The request loop on well-formed states. -/
theorem requestLoop_spec {bs sz : Nat} (q : Int) :
    ∀ (fuel : Nat) (d : ID) (acc : List Nat), WF bs sz d → numBlocks bs sz - d.next ≤ fuel →
      let r := requestLoop q fuel d acc
      WF bs sz r.1 ∧ r.1.bytes = d.bytes ∧ d.next ≤ r.1.next ∧
      r.2 = acc.reverse ++ List.range' d.next (r.1.next - d.next) ∧
      r.1.pending = d.pending + ((r.1.next - d.next : Nat) : Int) ∧
      (r.1.next = numBlocks bs sz ∨ ¬ r.1.pending < q) ∧
      (outstanding r.1 : Int) = outstanding d + ((r.1.next - d.next : Nat) : Int) := by
  intro fuel
  induction fuel with
  | zero =>
    intro d acc h hf
    have := h.next_le
    have e : requestLoop q 0 d acc = (d, acc.reverse) := rfl
    rw [e]
    refine ⟨h, rfl, Nat.le_refl _, by simp, by simp, Or.inl (by show d.next = _; omega), by simp⟩
  | succ fuel ih =>
    intro d acc h hf
    by_cases hn : d.next < numBlocks bs sz
    · by_cases hp : d.pending < q
      · have hrf : recvd d d.next = false := by
          cases h' : recvd d d.next
          · rfl
          · have := (h.blk _ hn).2 h'; omega
        have hblk := (h.blk _ hn).1
        rw [hrf] at hblk
        have e : requestLoop q (fuel + 1) d acc =
            requestLoop q fuel ⟨d.msize, d.bytes, d.blocks.set d.next ⟨blockLen bs sz d.next, true, false⟩,
              d.pending + 1, d.next + 1⟩ (d.next :: acc) := by
          simp only [requestLoop, hblk, hp, ↓reduceIte]
        rw [e]
        have hwf : WF bs sz ⟨d.msize, d.bytes, d.blocks.set d.next ⟨blockLen bs sz d.next, true, false⟩,
              d.pending + 1, d.next + 1⟩ := by
          refine ⟨h.msize, h.blen, by simp [h.nblk], ?_, by simp; omega⟩
          intro i hi
          by_cases hi2 : d.next = i
          · subst hi2; simp [recvd, h.nblk, hn]
          · have hb := h.blk i hi
            have hg : (d.blocks.set d.next ⟨blockLen bs sz d.next, true, false⟩)[i]? = d.blocks[i]? := by
              simp [hi2]
            rw [recvd_congr (d' := ⟨d.msize, d.bytes, d.blocks.set d.next ⟨blockLen bs sz d.next, true, false⟩,
              d.pending + 1, d.next + 1⟩) (d := d) hg]
            refine ⟨?_, fun hr => Nat.lt_succ_of_lt (hb.2 hr)⟩
            show (d.blocks.set d.next _)[i]? = _
            rw [hg, hb.1]
            congr 2
            simp only [decide_eq_decide]
            show i < d.next ↔ i < d.next + 1
            omega
        have hout1 : outstanding (⟨d.msize, d.bytes, d.blocks.set d.next ⟨blockLen bs sz d.next, true, false⟩,
              d.pending + 1, d.next + 1⟩ : ID) = outstanding d + 1 := by
          have := countP_set_of_get (fun b : Blk => b.requested && !b.received) d.blocks d.next _
            ⟨blockLen bs sz d.next, true, false⟩ hblk
          simpa [outstanding] using this
        generalize hd1 : (⟨d.msize, d.bytes, d.blocks.set d.next ⟨blockLen bs sz d.next, true, false⟩,
              d.pending + 1, d.next + 1⟩ : ID) = d1 at hwf hout1 ⊢
        have hnx1 : d1.next = d.next + 1 := by rw [← hd1]
        have hpd1 : d1.pending = d.pending + 1 := by rw [← hd1]
        have hb1 : d1.bytes = d.bytes := by rw [← hd1]
        have := ih d1 (d.next :: acc) hwf (by omega)
        simp only at this
        obtain ⟨w, hb, hnx, hs, hpd, hstop, hout⟩ := this
        refine ⟨w, by rw [hb, hb1], by omega, ?_, ?_, hstop, by rw [hout, hout1]; omega⟩
        · rw [hs]
          simp only [List.reverse_cons, List.append_assoc, List.singleton_append]
          congr 1
          have : (requestLoop q fuel d1 (d.next :: acc)).1.next - d.next =
              ((requestLoop q fuel d1 (d.next :: acc)).1.next - d1.next) + 1 := by omega
          rw [this, List.range'_succ, hnx1]
        · rw [hpd, hpd1]
          omega
      · have e : requestLoop q (fuel + 1) d acc = (d, acc.reverse) := by
          simp only [requestLoop, (h.blk _ hn).1, hp, ↓reduceIte]
        rw [e]
        exact ⟨h, rfl, Nat.le_refl _, by simp, by simp, Or.inr hp, by simp⟩
    · have hnone : d.blocks[d.next]? = none := by
        apply List.getElem?_eq_none; rw [h.nblk]; omega
      have e : requestLoop q (fuel + 1) d acc = (d, acc.reverse) := by
        simp only [requestLoop, hnone]
      rw [e]
      have := h.next_le
      exact ⟨h, rfl, Nat.le_refl _, by simp, by simp, Or.inl (by show d.next = _; omega), by simp⟩

theorem requestBlocks_spec {bs sz : Nat} {d : ID} (h : WF bs sz d) (q : Int) :
    let r := requestBlocks d q
    WF bs sz r.1 ∧ r.1.bytes = d.bytes ∧ d.next ≤ r.1.next ∧
    r.2 = List.range' d.next (r.1.next - d.next) ∧
    r.1.pending = d.pending + ((r.1.next - d.next : Nat) : Int) ∧
    (r.1.next = numBlocks bs sz ∨ ¬ r.1.pending < q) ∧
    (outstanding r.1 : Int) = outstanding d + ((r.1.next - d.next : Nat) : Int) := by
  have := requestLoop_spec (bs := bs) (sz := sz) q (d.blocks.length - d.next) d [] h (by rw [h.nblk]; exact Nat.le_refl _)
  simpa [requestBlocks] using this

/-! ### Histories -/

theorem wf_step {bs sz : Nat} (hbs : 0 < bs) {d : ID} (h : WF bs sz d) (op : Op) : WF bs sz (step bs d op) := by
  cases op with
  | req q => exact (requestBlocks_spec h q).1
  | got i data => exact wf_gotBlock hbs h i data

theorem wf_run {bs sz : Nat} (hbs : 0 < bs) (ops : List Op) : ∀ {d : ID}, WF bs sz d → WF bs sz (run bs d ops) := by
  induction ops with
  | nil => intro d h; exact h
  | cons op rest ih => intro d h; exact ih (wf_step hbs h op)

theorem gotBlock_next {bs sz : Nat} (hbs : 0 < bs) {d : ID} (h : WF bs sz d) (i : Nat) (data : Bytes) :
    (gotBlock bs d i data).1.next = d.next := by
  rw [gotBlock_spec hbs h]
  repeat' split
  all_goals rfl

theorem next_mono {bs sz : Nat} (hbs : 0 < bs) (ops : List Op) :
    ∀ {d : ID}, WF bs sz d → d.next ≤ (run bs d ops).next := by
  induction ops with
  | nil => intro d _; exact Nat.le_refl _
  | cons op rest ih =>
    intro d h
    have h1 := ih (wf_step hbs h op)
    have : d.next ≤ (step bs d op).next := by
      cases op with
      | req q => exact (requestBlocks_spec h q).2.2.1
      | got i data => simp only [step]; rw [gotBlock_next hbs h]; exact Nat.le_refl _
    exact Nat.le_trans this h1

/-- The indexes requested along a history are exactly `[d.next, final.next)`. -/
theorem mem_requestedIdx {bs sz : Nat} (hbs : 0 < bs) (ops : List Op) :
    ∀ {d : ID}, WF bs sz d → ∀ i, i ∈ requestedIdx bs d ops ↔ d.next ≤ i ∧ i < (run bs d ops).next := by
  induction ops with
  | nil => intro d _ i; simp [requestedIdx, run]
  | cons op rest ih =>
    intro d h i
    cases op with
    | req q =>
      obtain ⟨w, _, hnx, hs, _, _⟩ := requestBlocks_spec h q
      have hm := next_mono hbs rest w
      simp only [requestedIdx, List.mem_append, ih w, hs, List.mem_range'_1]
      show _ ↔ d.next ≤ i ∧ i < (run bs (requestBlocks d q).1 rest).next
      omega
    | got j data =>
      have w := wf_gotBlock hbs h j data
      have hn := gotBlock_next hbs h j data
      simp only [requestedIdx, ih w, hn]
      rfl

/-! ### Slices and splices -/

theorem getElem?_slice (b : Bytes) (off len k : Nat) :
    (slice b off len)[k]? = if k < len then b[off + k]? else none := by
  unfold slice
  rw [List.getElem?_take]
  split
  · rw [List.getElem?_drop]
  · rfl

theorem getElem?_splice (old : Bytes) (off : Nat) (data : Bytes) (h : off + data.length ≤ old.length) (j : Nat) :
    (splice old off data)[j]? =
      if j < off then old[j]? else if j < off + data.length then data[j - off]? else old[j]? := by
  unfold splice
  have hl : (List.take off old).length = off := by simp; omega
  rw [List.append_assoc, List.getElem?_append, hl]
  split
  · rw [List.getElem?_take]; simp [*]
  · rename_i h1
    rw [List.getElem?_append]
    split
    · rename_i h2; have : j < off + data.length := by omega
      simp [this]
    · rename_i h2; have : ¬ j < off + data.length := by omega
      simp only [this, ↓reduceIte, List.getElem?_drop]
      congr 1; omega

theorem slice_splice_same (old : Bytes) (off : Nat) (data : Bytes) (h : off + data.length ≤ old.length) :
    slice (splice old off data) off data.length = data := by
  apply List.ext_getElem?
  intro k
  rw [getElem?_slice, getElem?_splice _ _ _ h]
  by_cases hk : k < data.length
  · have h1 : ¬ off + k < off := by omega
    have h2 : off + k < off + data.length := by omega
    simp [hk, h1, h2]
  · simp only [hk, ↓reduceIte]
    exact (List.getElem?_eq_none (by omega)).symm

theorem slice_splice_disjoint (old : Bytes) (off : Nat) (data : Bytes) (off' len' : Nat)
    (h : off + data.length ≤ old.length) (hd : off' + len' ≤ off ∨ off + data.length ≤ off') :
    slice (splice old off data) off' len' = slice old off' len' := by
  apply List.ext_getElem?
  intro k
  rw [getElem?_slice, getElem?_slice, getElem?_splice _ _ _ h]
  by_cases hk : k < len'
  · simp only [hk, ↓reduceIte]
    rcases hd with hd | hd
    · have : off' + k < off := by omega
      simp [this]
    · have h1 : ¬ off' + k < off := by omega
      have h2 : ¬ off' + k < off + data.length := by omega
      simp [h1, h2]
  · simp [hk]

theorem flatMap_slices_take (b : Bytes) (bs : Nat) (n : Nat) :
    (List.range n).flatMap (fun i => slice b (i * bs) bs) = b.take (n * bs) := by
  induction n with
  | zero => simp
  | succ n ih =>
    rw [List.range_succ, List.flatMap_append, ih, Nat.add_mul, Nat.one_mul, List.take_add]
    simp [slice]

theorem slice_blockLen (b : Bytes) (bs sz i : Nat) (hb : b.length = sz) :
    slice b (i * bs) (blockLen bs sz i) = slice b (i * bs) bs := by
  unfold slice blockLen
  rw [List.take_eq_take_iff, List.length_drop, hb]
  omega

theorem flatMap_congr' {α β : Type} (l : List α) (f g : α → List β) (h : ∀ a ∈ l, f a = g a) :
    l.flatMap f = l.flatMap g := by
  induction l with
  | nil => rfl
  | cons a t ih =>
    simp only [List.flatMap_cons]
    rw [h a (List.mem_cons_self ..), ih (fun x hx => h x (List.mem_cons_of_mem _ hx))]

/-- A buffer of `sz` bytes is the concatenation of its metadata pieces. -/
theorem flatMap_blocks (b : Bytes) (bs sz : Nat) (hbs : 0 < bs) (hb : b.length = sz) :
    (List.range (numBlocks bs sz)).flatMap (fun i => slice b (i * bs) (blockLen bs sz i)) = b := by
  rw [flatMap_congr' _ _ (fun i => slice b (i * bs) bs) (fun i _ => slice_blockLen b bs sz i hb),
    flatMap_slices_take]
  apply List.take_of_length_le
  rw [hb]
  exact numBlocks_mul_ge hbs

/-- Pigeonhole: `n` distinct naturals below `n` are all of them. -/
theorem mem_of_nodup_lt {l : List Nat} {n : Nat} (nd : l.Nodup) (hlt : ∀ x ∈ l, x < n)
    (hlen : l.length = n) : ∀ i, i < n → i ∈ l := by
  intro i hi
  apply Classical.byContradiction
  intro hni
  have hsub : l ⊆ (List.range n).erase i := by
    intro x hx
    have hne : x ≠ i := fun e => hni (e ▸ hx)
    exact (List.mem_erase_of_ne hne).2 (List.mem_range.2 (hlt x hx))
  have := nd.length_le_of_subset hsub
  rw [List.length_erase] at this
  simp [List.mem_range.2 hi] at this
  omega

/-! ### Received marks, outstanding requests -/

/-- The request loop does not touch the `received` marks. -/
theorem requestLoop_recvd (q : Int) :
    ∀ (fuel : Nat) (d : ID) (acc : List Nat) (j : Nat), recvd (requestLoop q fuel d acc).1 j = recvd d j := by
  intro fuel
  induction fuel with
  | zero => intro d acc j; rfl
  | succ fuel ih =>
    intro d acc j
    unfold requestLoop
    split
    · rfl
    · rename_i b hb
      split
      · rw [ih]
        unfold recvd
        simp only [List.getElem?_set]
        by_cases e : d.next = j
        · subst e
          obtain ⟨hl, hv⟩ := List.getElem?_eq_some_iff.1 hb
          simp [hl, hv]
        · simp [e]
      · rfl

theorem requestBlocks_recvd (d : ID) (q : Int) (j : Nat) : recvd (requestBlocks d q).1 j = recvd d j :=
  requestLoop_recvd q _ d [] j

/-- The window: the loop only adds a request while `pending < q`. -/
theorem requestLoop_pending_le (q : Int) :
    ∀ (fuel : Nat) (d : ID) (acc : List Nat),
      (requestLoop q fuel d acc).1.pending ≤ max q d.pending ∧ d.pending ≤ (requestLoop q fuel d acc).1.pending := by
  intro fuel
  induction fuel with
  | zero => intro d acc; exact ⟨Int.le_max_right _ _, Int.le_refl _⟩
  | succ fuel ih =>
    intro d acc
    unfold requestLoop
    split
    · exact ⟨Int.le_max_right _ _, Int.le_refl _⟩
    · split
      · rename_i hp
        have := ih { d with blocks := d.blocks.set d.next { ‹Blk› with requested := true },
                            pending := d.pending + 1, next := d.next + 1 } (d.next :: acc)
        simp only at this
        omega
      · exact ⟨Int.le_max_right _ _, Int.le_refl _⟩

/-! ### The honest-peer invariant -/

structure HInv (bs sz : Nat) (d : ID) (A : List (Nat × Bytes)) : Prop where
  wf : WF bs sz d
  pend : d.pending = (d.next : Int) - (A.length : Int)
  ans : ∀ p ∈ A, p.1 < d.next ∧ slice d.bytes (p.1 * bs) (blockLen bs sz p.1) = p.2
  /-- the `received` marks are exactly the accepted answers (fix for C17-F6) … -/
  rc : ∀ i, recvd d i = true ↔ i ∈ A.map (·.1)
  /-- … so no index is accepted twice -/
  nd : (A.map (·.1)).Nodup
  /-- `pending` counts the requests without a stored answer -/
  cnt : d.pending = (outstanding d : Int)

theorem hinv_new {bs sz : Nat} (hbs : 0 < bs) : HInv bs sz (newWith bs sz) [] := by
  refine ⟨wf_new hbs, by simp [newWith], by simp, ?_, by simp, ?_⟩
  case refine_2 =>
    have : outstanding (newWith bs sz) = 0 := by
      simp only [outstanding, List.countP_eq_zero]
      intro b hb
      obtain ⟨i, hi, rfl⟩ := List.mem_iff_getElem.1 hb
      have hi' : i < numBlocks bs sz := by rw [← (wf_new (sz := sz) hbs).nblk]; exact hi
      have := ((wf_new (sz := sz) hbs).blk i hi').1
      rw [List.getElem?_eq_getElem hi] at this
      simp only [Option.some.injEq] at this
      rw [this]
      simp [newWith]
    rw [this]; rfl
  intro i
  have : recvd (newWith bs sz) i = false := by
    cases h : recvd (newWith bs sz) i
    · rfl
    · by_cases hi : i < numBlocks bs sz
      · have := ((wf_new (sz := sz) hbs).blk i hi).2 h
        simp [newWith] at this
      · have hn : (newWith bs sz).blocks[i]? = none := by
          apply List.getElem?_eq_none; rw [(wf_new (sz := sz) hbs).nblk]; omega
        simp [recvd, hn] at h
  simp [this]

theorem hinv_run {bs sz : Nat} (hbs : 0 < bs) (ops : List Op) :
    ∀ {d : ID} {A : List (Nat × Bytes)}, HInv bs sz d A →
      HInv bs sz (run bs d ops) (A ++ accepted bs d ops) := by
  induction ops with
  | nil => intro d A h; simpa [accepted, run] using h
  | cons op rest ih =>
    intro d A h
    cases op with
    | req q =>
      obtain ⟨w, hb, hnx, _, hp, _, hout⟩ := requestBlocks_spec h.wf q
      have h' : HInv bs sz (requestBlocks d q).1 A := by
        refine ⟨w, ?_, ?_, ?_, h.nd, by rw [hp, hout, h.cnt]⟩
        · rw [hp, h.pend]; omega
        · intro p hp'
          have := h.ans p hp'
          rw [hb]
          exact ⟨by omega, this.2⟩
        · intro i; rw [requestBlocks_recvd]; exact h.rc i
      exact ih h'
    | got i data =>
      have hspec := gotBlock_spec hbs h.wf i data
      by_cases hok : (gotBlock bs d i data).2 = .ok
      · -- accepted
        have hacc : accepted bs d (.got i data :: rest) = (i, data) :: accepted bs (gotBlock bs d i data).1 rest := by
          simp [accepted, hok]
        rw [hacc]
        have e : A ++ (i, data) :: accepted bs (gotBlock bs d i data).1 rest =
            (A ++ [(i, data)]) ++ accepted bs (gotBlock bs d i data).1 rest := by simp
        rw [e]
        -- unfold the result
        rw [hspec] at hok
        have h' : HInv bs sz (gotBlock bs d i data).1 (A ++ [(i, data)]) := by
          rw [hspec]
          split at hok
          · cases hok
          split at hok
          · cases hok
          split at hok
          · cases hok
          split at hok
          · cases hok
          rename_i h1 h2 h3 h4
          simp only [h1, h2, h3, h4, Bool.false_eq_true, ↓reduceIte]
          have hi : i < numBlocks bs sz := by omega
          have hr := range_le (sz := sz) hbs hi
          have hl : data.length = blockLen bs sz i := by omega
          have hfit : i * bs + data.length ≤ d.bytes.length := by rw [h.wf.blen]; omega
          have hil : i < d.blocks.length := by rw [h.wf.nblk]; exact hi
          have hwf := wf_gotBlock hbs h.wf i data
          rw [hspec] at hwf
          simp only [h1, h2, h3, h4, Bool.false_eq_true, ↓reduceIte] at hwf
          have hi_notin' : i ∉ A.map (·.1) := fun hm => h4 ((h.rc i).2 hm)
          have hi_notin : ∀ p ∈ A, p.1 ≠ i := fun p hp e => hi_notin' (e ▸ List.mem_map_of_mem hp)
          refine ⟨hwf, ?_, ?_, ?_, ?_, ?_⟩
          case refine_5 =>
            have hblk := (h.wf.blk i hi).1
            have h2' : i < d.next := by omega
            have h4' : recvd d i = false := by simpa using h4
            rw [h4'] at hblk
            have := countP_set_of_get (fun b : Blk => b.requested && !b.received) d.blocks i _
              ⟨blockLen bs sz i, true, true⟩ hblk
            simp only [h2', decide_true, Bool.not_false, Bool.and_self, ↓reduceIte, Bool.not_true,
              Bool.and_false, Bool.false_eq_true, Nat.add_zero] at this
            show d.pending - 1 = ((d.blocks.set i _).countP _ : Int)
            rw [h.cnt]
            simp only [outstanding]
            omega
          · simp only [h.pend, List.length_append, List.length_singleton]; omega
          · intro p hp
            rw [List.mem_append] at hp
            rcases hp with hp | hp
            · have := h.ans p hp
              refine ⟨this.1, ?_⟩
              simp only
              rw [slice_splice_disjoint _ _ _ _ _ hfit]
              · exact this.2
              · -- disjoint block ranges
                have hne := hi_notin p hp
                have hpl : p.1 < numBlocks bs sz := Nat.lt_of_lt_of_le this.1 h.wf.next_le
                have hrp := range_le (sz := sz) hbs hpl
                have hbl : blockLen bs sz p.1 ≤ bs := by unfold blockLen; omega
                have hbl2 : data.length ≤ bs := by rw [hl]; unfold blockLen; omega
                rcases Nat.lt_or_gt_of_ne hne with hlt | hgt
                · left
                  have : (p.1 + 1) * bs ≤ i * bs := Nat.mul_le_mul_right bs hlt
                  rw [Nat.add_mul] at this; omega
                · right
                  have : (i + 1) * bs ≤ p.1 * bs := Nat.mul_le_mul_right bs hgt
                  rw [Nat.add_mul] at this; omega
            · simp only [List.mem_singleton] at hp
              subst hp
              refine ⟨by simpa using h2, ?_⟩
              simp only
              rw [← hl]
              exact slice_splice_same _ _ _ hfit
          · intro j
            rw [recvd_set d i j _ hil]
            by_cases e : i = j
            · subst e; simp
            · have e' : ¬ j = i := fun x => e x.symm
              simp only [e, ↓reduceIte, h.rc j, List.map_append, List.map_cons, List.map_nil, List.mem_append,
                List.mem_singleton, e', or_false]
          · rw [List.map_append, List.nodup_append]
            refine ⟨h.nd, by simp, ?_⟩
            intro a ha b hb
            simp only [List.map_cons, List.map_nil, List.mem_singleton] at hb
            subst hb
            exact fun e => hi_notin' (e ▸ ha)
        exact ih h'
      · -- rejected: state unchanged
        have hacc : accepted bs d (.got i data :: rest) = accepted bs (gotBlock bs d i data).1 rest := by
          simp [accepted, hok]
        rw [hacc]
        have hsame : (gotBlock bs d i data).1 = d := by
          rw [hspec] at hok ⊢
          repeat' split
          all_goals first | rfl | (exfalso; simp_all)
        have h' : HInv bs sz (gotBlock bs d i data).1 A := by rw [hsame]; exact h
        exact ih h'

end Rain.InfoDL
