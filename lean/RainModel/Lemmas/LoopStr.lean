import Std.Data.String.ToNat
import RainModel.Lemmas.LoopBase
/-!
The few facts about message strings the soundness corollaries need: `have:i` determines `i`, and the
interest messages are not `have` messages.
-/
namespace Rain.Loop

/-- The text of a have message, as the model builds it. -/
def haveMsg (i : Nat) : String := s!"have:{i}"

theorem haveMsg_toList (i : Nat) : (haveMsg i).toList = 'h' :: 'a' :: 'v' :: 'e' :: ':' :: (Nat.repr i).toList := by
  show (toString "have:" ++ toString i).toList = _
  rw [String.toList_append]
  rfl

theorem haveMsg_inj {i j : Nat} (h : haveMsg i = haveMsg j) : i = j := by
  have := congrArg String.toList h
  rw [haveMsg_toList, haveMsg_toList] at this
  simp only [List.cons.injEq, true_and] at this
  exact Nat.repr_inj.1 (String.ext_iff.2 this)

theorem interested_ne_have (i : Nat) : "interested" ≠ haveMsg i := by
  intro h
  have := congrArg String.toList h
  rw [haveMsg_toList] at this
  have h2 : "interested".toList = 'i' :: "nterested".toList := by decide
  rw [h2] at this
  simp at this

theorem notinterested_ne_have (i : Nat) : "notinterested" ≠ haveMsg i := by
  intro h
  have := congrArg String.toList h
  rw [haveMsg_toList] at this
  have h2 : "notinterested".toList = 'n' :: "otinterested".toList := by decide
  rw [h2] at this
  simp at this

end Rain.Loop
