import RainModel.Lemmas.RegistryQuiescent
/-!
Restart equivalence and compaction, as consequences of `Inv`.
-/
namespace Rain.Registry
open List

/-- The live torrent `loadExistingTorrent` makes of a record. -/
def loaded (resume : Bool) (e : String × Fields) : Torrent :=
  ⟨e.1, { e.2 with started := resume && e.2.started }⟩

theorem openOn_state (lo hi : Nat) (resume : Bool) (db : List (String × Fields)) (hk : (db.map (·.1)).Nodup) :
    (openOn lo hi resume db).reg = (db.map (loaded resume)).reverse ∧ (openOn lo hi resume db).db = db ∧
    (openOn lo hi resume db).lo = lo ∧ (openOn lo hi resume db).hi = hi := by
  unfold openOn
  obtain ⟨h1, h2, h3, h4, _⟩ := foldl_load_state resume db { init lo hi with db := db } (by simpa [init, State.regIds] using hk)
  refine ⟨?_, ?_, ?_, ?_⟩
  · rw [h1]; simp [init, loaded]
  · rw [h2]
  · rw [h3]; rfl
  · rw [h4]; rfl

theorem mem_updateStats_db {s : State} (h : Inv s) {t : Torrent} (ht : t ∈ s.reg) {r : Fields} (hr : (t.id, r) ∈ s.db) :
    (t.id, { r with cnt := t.f.cnt }) ∈ (updateStats s).db := by
  unfold updateStats
  refine List.mem_map.2 ⟨(t.id, r), hr, ?_⟩
  simp only [regGet_of_mem h.regIds_nodup ht]

theorem field_eq_of_describes {r t : Fields} (hd : describes r t = true) (x : Bool) :
    { ({ r with cnt := t.cnt } : Fields) with started := x } = { t with started := x } := by
  have := (describes_iff.1 hd).1
  cases r; cases t; simp_all

theorem foldl_load_dead (resume : Bool) : ∀ (rest : List (String × Fields)) (s : State),
    (rest.foldl (loadOne resume) s).dead = s.dead ∧ (rest.foldl (loadOne resume) s).invalid = s.invalid ∧
    (rest.foldl (loadOne resume) s).pending = s.pending
  | [], _ => ⟨rfl, rfl, rfl⟩
  | e :: rest, s => by
    rw [List.foldl_cons]
    obtain ⟨h1, h2, h3⟩ := foldl_load_dead resume rest (loadOne resume s e)
    exact ⟨h1, h2, h3⟩

theorem openOn_dead (lo hi : Nat) (resume : Bool) (db : List (String × Fields)) :
    (openOn lo hi resume db).dead = [] ∧ (openOn lo hi resume db).invalid = [] ∧ (openOn lo hi resume db).pending = [] := by
  unfold openOn
  obtain ⟨h1, h2, h3⟩ := foldl_load_dead resume db { init lo hi with db := db }
  exact ⟨h1, h2, h3⟩

theorem dbGet_isSome_of_mem {l : List (String × Fields)} {k : String} {r : Fields} (h : (k, r) ∈ l) :
    (dbGet l k).isSome = true := by
  unfold dbGet
  rw [Option.isSome_map, List.find?_isSome]
  exact ⟨(k, r), h, by simp⟩

/-- The pieces of the state after a restart in which every record that failed before fails again. -/
theorem reopen_eq {s : State} (hp : s.pending = []) (resume : Bool) (bad : List String)
    (hb : ∀ e ∈ s.dead, e.1 ∈ bad) :
    reopen s resume bad =
      { openOn s.lo s.hi resume ((updateStats s).db.filter (fun e => !bad.contains e.1)) with
        dead := ((updateStats s).db ++ s.dead).filter (fun e => bad.contains e.1),
        invalid := (((updateStats s).db ++ s.dead).filter (fun e => bad.contains e.1)).map (·.1) } := by
  unfold reopen
  rw [if_neg (by simp [hp])]
  dsimp only
  rw [reopen_good bad hb]

theorem restartEquiv_of_inv {s : State} (h : Inv s) (hp : s.pending = []) (resume : Bool) (bad : List String)
    (hb : ∀ e ∈ s.dead, e.1 ∈ bad) :
    restartEquiv resume bad (observe s) (observe (reopen s resume bad)) = true := by
  have hre := reopen_eq hp resume bad hb
  have h2 := inv_updateStats h
  have hsub : ((updateStats s).db.filter (fun e => !bad.contains e.1)).Sublist (updateStats s).db := List.filter_sublist
  have hgn : (((updateStats s).db.filter (fun e => !bad.contains e.1)).map (·.1)).Nodup := (hsub.map _).nodup h2.dbIds_nodup
  obtain ⟨hreg, hdb, hlo, hhi⟩ := openOn_state s.lo s.hi resume _ hgn
  obtain ⟨_, _, hpend⟩ := openOn_dead s.lo s.hi resume ((updateStats s).db.filter (fun e => !bad.contains e.1))
  have hinv := inv_reopen h resume bad hb
  have h3 := h2.dbIds_perm
  have hp2 : (updateStats s).pending = [] := hp
  rw [hp2] at h3
  simp only [written, List.filter_nil, List.map_nil, List.append_nil] at h3
  have hsig := h2.dbsig
  rw [hp2] at hsig
  simp only [written, List.filter_nil, List.map_nil, List.append_nil] at hsig
  -- ids of the registry after the restart
  have hregids : ∀ id, id ∈ (reopen s resume bad).reg.map (·.id) → bad.contains id = false ∧ id ∈ (updateStats s).dbIds := by
    intro id hid
    rw [hre] at hid
    change id ∈ (openOn s.lo s.hi resume _).reg.map (·.id) at hid
    rw [hreg] at hid
    obtain ⟨t', ht', rfl⟩ := List.mem_map.1 hid
    obtain ⟨e, he, rfl⟩ := List.mem_map.1 (List.mem_reverse.1 ht')
    have := List.mem_filter.1 he
    exact ⟨by simpa [loaded] using this.2, List.mem_map_of_mem (f := (·.1)) this.1⟩
  unfold restartEquiv
  simp only [Bool.and_eq_true, List.isPerm_iff, List.all_eq_true]
  refine ⟨?_, ?_⟩
  · show ((reopen s resume bad).reg.map (·.id)).Perm ((s.reg.filter (fun t => !bad.contains t.id)).map (·.id))
    rw [hre]
    change ((openOn s.lo s.hi resume _).reg.map (·.id)).Perm _
    rw [hreg, List.map_reverse]
    refine (List.reverse_perm _).trans ?_
    rw [List.map_map]
    have e1 : ((updateStats s).db.filter (fun e => !bad.contains e.1)).map ((fun t : Torrent => t.id) ∘ loaded resume) =
        ((updateStats s).dbIds).filter (fun i => !bad.contains i) := by
      rw [State.dbIds, List.filter_map]; rfl
    have e2 : (s.reg.filter (fun t => !bad.contains t.id)).map (·.id) = (s.regIds).filter (fun i => !bad.contains i) := by
      rw [State.regIds, List.filter_map]; rfl
    rw [e1, e2]
    exact h3.filter _
  · intro t ht
    obtain ⟨r, hr, hd⟩ := h.synced t ht
    have hrec := mem_updateStats_db h ht hr
    by_cases hbad : bad.contains t.id = true
    · rw [if_pos hbad]
      simp only [Bool.and_eq_true]
      have hfailed : (t.id, { r with cnt := t.f.cnt }) ∈ ((updateStats s).db ++ s.dead).filter (fun e => bad.contains e.1) :=
        List.mem_filter.2 ⟨List.mem_append_left _ hrec, hbad⟩
      have hnone : regGet (reopen s resume bad).reg t.id = none := by
        apply regGet_eq_none
        intro hc
        have := (hregids t.id hc).1
        rw [hbad] at this; cases this
      refine ⟨⟨⟨?_, ?_⟩, ?_⟩, ?_⟩
      · show (regGet (reopen s resume bad).reg t.id).isNone = true
        rw [hnone]; rfl
      · show (reopen s resume bad).invalid.contains t.id = true
        rw [hre]
        simp only [List.contains_iff_mem]
        exact List.mem_map_of_mem (f := (·.1)) hfailed
      · show (dbGet ((reopen s resume bad).db ++ (reopen s resume bad).dead) t.id).isSome = true
        apply dbGet_isSome_of_mem (r := { r with cnt := t.f.cnt })
        rw [hre]
        exact List.mem_append_right _ hfailed
      · show (reopen s resume bad).free.contains t.f.port = true
        simp only [List.contains_iff_mem]
        have hrange : (reopen s resume bad).range = s.range := by
          rw [hre]; unfold State.range
          change List.range' (openOn s.lo s.hi resume _).lo ((openOn s.lo s.hi resume _).hi - (openOn s.lo s.hi resume _).lo) = _
          rw [hlo, hhi]
        have hpr : t.f.port ∈ (reopen s resume bad).range := by rw [hrange]; exact h.regPort_mem_range ht
        have hpe : (reopen s resume bad).pending = [] := by rw [hre]; exact hpend
        have hmem := (hinv.ports.mem_iff).2 hpr
        rw [hpe] at hmem
        simp only [List.map_nil, List.append_nil] at hmem
        rcases List.mem_append.1 hmem with h1 | h1
        · exact h1
        · exfalso
          obtain ⟨t', ht', hpt⟩ := List.mem_map.1 h1
          have hidt' := hregids t'.id (List.mem_map_of_mem (f := (·.id)) ht')
          -- t' has a record in the database with the port of t: it is t's record
          rw [hre] at ht'
          change t' ∈ (openOn s.lo s.hi resume _).reg at ht'
          rw [hreg] at ht'
          obtain ⟨e, he, rfl⟩ := List.mem_map.1 (List.mem_reverse.1 ht')
          have hedb := (List.mem_filter.1 he).1
          have : (e.1, e.2.port) ∈ (updateStats s).reg.map (fun t => (t.id, t.f.port)) :=
            (hsig.mem_iff).1 (List.mem_map_of_mem (f := fun e => (e.1, e.2.port)) hedb)
          obtain ⟨t2, ht2, he2⟩ := List.mem_map.1 this
          have ht2 : t2 ∈ s.reg := ht2
          simp only [Prod.mk.injEq] at he2
          have hp2 : t2.f.port = t.f.port := by rw [he2.2]; simpa [loaded] using hpt
          have : t2 = t := eq_of_nodup_map (fun x : Torrent => x.f.port) h.regPorts_nodup ht2 ht hp2
          subst this
          have := hidt'.1
          simp only [loaded] at this
          rw [← he2.1, hbad] at this
          cases this
    · rw [if_neg hbad]
      have hbad : bad.contains t.id = false := by simpa using hbad
      have hmem : loaded resume (t.id, { r with cnt := t.f.cnt }) ∈ (reopen s resume bad).reg := by
        rw [hre]
        change _ ∈ (openOn s.lo s.hi resume _).reg
        rw [hreg]
        refine List.mem_reverse.2 (List.mem_map_of_mem (f := loaded resume) (List.mem_filter.2 ⟨hrec, ?_⟩))
        show (!bad.contains t.id) = true
        rw [hbad]; rfl
      have hget := regGet_of_mem hinv.regIds_nodup hmem
      simp only [loaded] at hget
      show (match regGet (reopen s resume bad).reg t.id, dbGet (s.db ++ s.dead) t.id with
        | some t', some r => decide (t'.f = { t.f with started := resume && r.started })
        | _, _ => false) = true
      rw [hget, dbGet_append_left (dbGet_of_mem h.dbIds_nodup hr)]
      simp only [decide_eq_true_eq]
      exact field_eq_of_describes hd _

theorem compact_ok {s : State} (h : Inv s) :
    compact s = some ((s.reg.filter (·.f.hasInfo)).map fun t => (t.id, compactRec t ((dbGet s.db t.id).getD t.f))) := by
  unfold compact
  dsimp only
  rw [if_pos]
  rw [List.all_eq_true]
  intro t ht
  obtain ⟨r, hr, _⟩ := h.synced t (List.mem_filter.1 ht).1
  rw [dbGet_of_mem h.dbIds_nodup hr]; rfl

theorem compactRec_eq {r t : Fields} (hd : describes r t = true) (id : String) :
    compactRec ⟨id, t⟩ r = { r with cnt := t.cnt } := by
  have := (describes_iff.1 hd).1
  unfold compactRec
  cases r; cases t; simp_all

theorem compactEquiv_of_inv {s : State} (h : Inv s) :
    ∃ c, compact s = some c ∧ compactEquiv (observe s) c = true := by
  refine ⟨_, compact_ok h, ?_⟩
  unfold compactEquiv observe
  simp only [Bool.and_eq_true, List.isPerm_iff, List.all_eq_true]
  have hkeys : (((s.reg.filter (·.f.hasInfo)).map fun t => (t.id, compactRec t ((dbGet s.db t.id).getD t.f))).map (·.1)) =
      (s.reg.filter (·.f.hasInfo)).map (·.id) := by
    rw [List.map_map]; rfl
  refine ⟨by rw [hkeys], ?_⟩
  intro t ht
  obtain ⟨r, hr, hd⟩ := h.synced t (List.mem_filter.1 ht).1
  have hg := dbGet_of_mem h.dbIds_nodup hr
  have hmem : (t.id, compactRec t r) ∈
      (s.reg.filter (·.f.hasInfo)).map fun t => (t.id, compactRec t ((dbGet s.db t.id).getD t.f)) := by
    refine List.mem_map.2 ⟨t, ht, ?_⟩
    rw [hg]; rfl
  have hn : (((s.reg.filter (·.f.hasInfo)).map fun t => (t.id, compactRec t ((dbGet s.db t.id).getD t.f))).map (·.1)).Nodup := by
    rw [hkeys]; exact ((List.filter_sublist).map _).nodup h.regIds_nodup
  rw [dbGet_of_mem hn hmem, dbGet_append_left hg]
  simp only [decide_eq_true_eq]
  exact compactRec_eq hd t.id

/-- After `compact-database` (compact, swap the file, open): every torrent that has metadata is back
with the same fields; torrents without metadata are gone. -/
theorem compactSwap_equiv {s : State} (h : Inv s) (hp : s.pending = []) (resume : Bool) :
    ∃ c, compact s = some c ∧
      restartEquiv resume [] { observe s with live := s.reg.filter (·.f.hasInfo), db := c }
        (observe (compactSwap s resume)) = true := by
  refine ⟨_, compact_ok h, ?_⟩
  have hsw : compactSwap s resume = openOn s.lo s.hi resume
      ((s.reg.filter (·.f.hasInfo)).map fun t => (t.id, compactRec t ((dbGet s.db t.id).getD t.f))) := by
    unfold compactSwap; rw [if_neg (by simp [hp]), compact_ok h]
  have hkeys : (((s.reg.filter (·.f.hasInfo)).map fun t => (t.id, compactRec t ((dbGet s.db t.id).getD t.f))).map (·.1)) =
      (s.reg.filter (·.f.hasInfo)).map (·.id) := by
    rw [List.map_map]; rfl
  have hn : (((s.reg.filter (·.f.hasInfo)).map fun t => (t.id, compactRec t ((dbGet s.db t.id).getD t.f))).map (·.1)).Nodup := by
    rw [hkeys]; exact ((List.filter_sublist).map _).nodup h.regIds_nodup
  obtain ⟨hreg, _, _, _⟩ := openOn_state s.lo s.hi resume _ hn
  have hinv := inv_compactSwap h resume
  unfold restartEquiv observe
  simp only [Bool.and_eq_true, List.isPerm_iff, List.all_eq_true]
  refine ⟨?_, ?_⟩
  · rw [hsw, hreg, List.map_reverse]
    refine (List.reverse_perm _).trans ?_
    have hnil : (s.reg.filter (·.f.hasInfo)).filter (fun t => !([] : List String).contains t.id) = s.reg.filter (·.f.hasInfo) :=
      List.filter_eq_self.2 (fun _ _ => by simp)
    rw [hnil, List.map_map, List.map_map]
    exact List.Perm.refl _
  · intro t ht
    obtain ⟨r, hr, hd⟩ := h.synced t (List.mem_filter.1 ht).1
    have hg := dbGet_of_mem h.dbIds_nodup hr
    have hmemc : (t.id, compactRec t r) ∈
        (s.reg.filter (·.f.hasInfo)).map fun t => (t.id, compactRec t ((dbGet s.db t.id).getD t.f)) := by
      refine List.mem_map.2 ⟨t, ht, ?_⟩
      rw [hg]; rfl
    have hmem : loaded resume (t.id, compactRec t r) ∈ (compactSwap s resume).reg := by
      rw [hsw, hreg]
      exact List.mem_reverse.2 (List.mem_map_of_mem (f := loaded resume) hmemc)
    have hget := regGet_of_mem hinv.regIds_nodup hmem
    simp only [loaded] at hget
    rw [if_neg (by simp), hget, dbGet_of_mem hn hmemc]
    simp only [decide_eq_true_eq]
    rw [compactRec_eq hd t.id]
    exact field_eq_of_describes hd _

end Rain.Registry
