import RainModel.Lemmas.RegistryQuiescent
/-!
Restart equivalence and compaction, as consequences of `Inv`.
-/
namespace Rain.Registry
open List

/-- The live torrent `loadExistingTorrent` makes of a record. -/
def loaded (resume : Bool) (e : String × Fields) : Torrent :=
  ⟨e.1, { e.2 with started := resume && e.2.started }⟩

theorem openOn_state (lo hi : Nat) (resume : Bool) (db : List (String × Fields)) (hk : (db.map (·.1)).Nodup) :
    (openOn lo hi resume db).reg = (db.map (loaded resume)).reverse ∧ (openOn lo hi resume db).db = db ∧
    (openOn lo hi resume db).lo = lo ∧ (openOn lo hi resume db).hi = hi := by
  unfold openOn
  obtain ⟨h1, h2, h3, h4, _⟩ := foldl_load_state resume db { init lo hi with db := db } (by simpa [init, State.regIds] using hk)
  refine ⟨?_, ?_, ?_, ?_⟩
  · rw [h1]; simp [init, loaded]
  · rw [h2]
  · rw [h3]; rfl
  · rw [h4]; rfl

theorem mem_updateStats_db {s : State} (h : Inv s) {t : Torrent} (ht : t ∈ s.reg) {r : Fields} (hr : (t.id, r) ∈ s.db) :
    (t.id, { r with cnt := t.f.cnt }) ∈ (updateStats s).db := by
  unfold updateStats
  refine List.mem_map.2 ⟨(t.id, r), hr, ?_⟩
  simp only [regGet_of_mem h.regIds_nodup ht]

theorem field_eq_of_describes {r t : Fields} (hd : describes r t = true) (x : Bool) :
    { ({ r with cnt := t.cnt } : Fields) with started := x } = { t with started := x } := by
  have := (describes_iff.1 hd).1
  cases r; cases t; simp_all

theorem restartEquiv_of_inv {s : State} (h : Inv s) (hp : s.pending = []) (resume : Bool) :
    restartEquiv resume (observe s) (observe (reopen s resume)) = true := by
  have hre : reopen s resume = openOn s.lo s.hi resume (updateStats s).db := by
    unfold reopen; rw [if_neg (by simp [hp])]
  have h2 := inv_updateStats h
  obtain ⟨hreg, hdb, _, _⟩ := openOn_state s.lo s.hi resume (updateStats s).db h2.dbIds_nodup
  have hinv := inv_reopen h resume
  unfold restartEquiv observe
  simp only [Bool.and_eq_true, List.isPerm_iff, List.all_eq_true]
  refine ⟨?_, ?_⟩
  · rw [hre, hreg]
    have h3 := h2.dbIds_perm
    have hp2 : (updateStats s).pending = [] := hp
    rw [hp2] at h3
    simp only [written, List.filter_nil, List.map_nil, List.append_nil] at h3
    rw [List.map_reverse]
    refine (List.reverse_perm _).trans ?_
    simpa [List.map_map, Function.comp_def, loaded, State.dbIds, State.regIds, updateStats] using h3
  · intro t ht
    obtain ⟨r, hr, hd⟩ := h.synced t ht
    have hmem : loaded resume (t.id, { r with cnt := t.f.cnt }) ∈ (reopen s resume).reg := by
      rw [hre, hreg]
      exact List.mem_reverse.2 (List.mem_map_of_mem (f := loaded resume) (mem_updateStats_db h ht hr))
    have hget := regGet_of_mem hinv.regIds_nodup hmem
    simp only [loaded] at hget
    rw [hget, dbGet_of_mem h.dbIds_nodup hr]
    simp only [decide_eq_true_eq]
    exact field_eq_of_describes hd _

theorem compact_ok {s : State} (h : Inv s) :
    compact s = some ((s.reg.filter (·.f.hasInfo)).map fun t => (t.id, compactRec t ((dbGet s.db t.id).getD t.f))) := by
  unfold compact
  dsimp only
  rw [if_pos]
  rw [List.all_eq_true]
  intro t ht
  obtain ⟨r, hr, _⟩ := h.synced t (List.mem_filter.1 ht).1
  rw [dbGet_of_mem h.dbIds_nodup hr]; rfl

theorem compactRec_eq {r t : Fields} (hd : describes r t = true) (id : String) :
    compactRec ⟨id, t⟩ r = { r with cnt := t.cnt } := by
  have := (describes_iff.1 hd).1
  unfold compactRec
  cases r; cases t; simp_all

theorem compactEquiv_of_inv {s : State} (h : Inv s) :
    ∃ c, compact s = some c ∧ compactEquiv (observe s) c = true := by
  refine ⟨_, compact_ok h, ?_⟩
  unfold compactEquiv observe
  simp only [Bool.and_eq_true, List.isPerm_iff, List.all_eq_true]
  have hkeys : (((s.reg.filter (·.f.hasInfo)).map fun t => (t.id, compactRec t ((dbGet s.db t.id).getD t.f))).map (·.1)) =
      (s.reg.filter (·.f.hasInfo)).map (·.id) := by
    rw [List.map_map]; rfl
  refine ⟨by rw [hkeys], ?_⟩
  intro t ht
  obtain ⟨r, hr, hd⟩ := h.synced t (List.mem_filter.1 ht).1
  have hg := dbGet_of_mem h.dbIds_nodup hr
  have hmem : (t.id, compactRec t r) ∈
      (s.reg.filter (·.f.hasInfo)).map fun t => (t.id, compactRec t ((dbGet s.db t.id).getD t.f)) := by
    refine List.mem_map.2 ⟨t, ht, ?_⟩
    rw [hg]; rfl
  have hn : (((s.reg.filter (·.f.hasInfo)).map fun t => (t.id, compactRec t ((dbGet s.db t.id).getD t.f))).map (·.1)).Nodup := by
    rw [hkeys]; exact ((List.filter_sublist).map _).nodup h.regIds_nodup
  rw [dbGet_of_mem hn hmem, hg]
  simp only [decide_eq_true_eq]
  exact compactRec_eq hd t.id

/-- After `compact-database` (compact, swap the file, open): every torrent that has metadata is back
with the same fields; torrents without metadata are gone. -/
theorem compactSwap_equiv {s : State} (h : Inv s) (hp : s.pending = []) (resume : Bool) :
    ∃ c, compact s = some c ∧
      restartEquiv resume { observe s with live := s.reg.filter (·.f.hasInfo), db := c }
        (observe (compactSwap s resume)) = true := by
  refine ⟨_, compact_ok h, ?_⟩
  have hsw : compactSwap s resume = openOn s.lo s.hi resume
      ((s.reg.filter (·.f.hasInfo)).map fun t => (t.id, compactRec t ((dbGet s.db t.id).getD t.f))) := by
    unfold compactSwap; rw [if_neg (by simp [hp]), compact_ok h]
  have hkeys : (((s.reg.filter (·.f.hasInfo)).map fun t => (t.id, compactRec t ((dbGet s.db t.id).getD t.f))).map (·.1)) =
      (s.reg.filter (·.f.hasInfo)).map (·.id) := by
    rw [List.map_map]; rfl
  have hn : (((s.reg.filter (·.f.hasInfo)).map fun t => (t.id, compactRec t ((dbGet s.db t.id).getD t.f))).map (·.1)).Nodup := by
    rw [hkeys]; exact ((List.filter_sublist).map _).nodup h.regIds_nodup
  obtain ⟨hreg, _, _, _⟩ := openOn_state s.lo s.hi resume _ hn
  have hinv := inv_compactSwap h resume
  unfold restartEquiv observe
  simp only [Bool.and_eq_true, List.isPerm_iff, List.all_eq_true]
  refine ⟨?_, ?_⟩
  · rw [hsw, hreg, List.map_reverse]
    refine (List.reverse_perm _).trans ?_
    rw [List.map_map, List.map_map]
    exact List.Perm.refl _
  · intro t ht
    obtain ⟨r, hr, hd⟩ := h.synced t (List.mem_filter.1 ht).1
    have hg := dbGet_of_mem h.dbIds_nodup hr
    have hmemc : (t.id, compactRec t r) ∈
        (s.reg.filter (·.f.hasInfo)).map fun t => (t.id, compactRec t ((dbGet s.db t.id).getD t.f)) := by
      refine List.mem_map.2 ⟨t, ht, ?_⟩
      rw [hg]; rfl
    have hmem : loaded resume (t.id, compactRec t r) ∈ (compactSwap s resume).reg := by
      rw [hsw, hreg]
      exact List.mem_reverse.2 (List.mem_map_of_mem (f := loaded resume) hmemc)
    have hget := regGet_of_mem hinv.regIds_nodup hmem
    simp only [loaded] at hget
    rw [hget, dbGet_of_mem hn hmemc]
    simp only [decide_eq_true_eq]
    rw [compactRec_eq hd t.id]
    exact field_eq_of_describes hd _

end Rain.Registry
