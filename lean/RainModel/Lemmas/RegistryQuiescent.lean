import RainModel.Lemmas.RegistrySteps
/-!
Sequential histories (no interleaved add steps) never leave an add in flight, and the
consequences of `Inv` for a quiescent session in terms of the executable predicates.
-/
namespace Rain.Registry
open List

/-- An operation of one caller at a time: a whole add, or anything that is not a single add step. -/
def Op.sequential : Op → Bool
  | .abegin .. | .abuild .. | .awrite .. | .ainsert .. => false
  | _ => true

theorem addBegin_pending (s : State) (m : Meta) (o : Opts) (p : Nat) (gen : String) (sf : Bool) :
    (∃ err, (addBegin s m o p gen sf).2 = .error err ∧ (addBegin s m o p gen sf).1.pending = s.pending) ∨
    (∃ q, (addBegin s m o p gen sf).2 = .ok q ∧ (addBegin s m o p gen sf).1.pending = q :: s.pending ∧
      q.stage = .reserved) := by
  unfold addBegin addBeginWith
  by_cases h0 : s.free = []
  · rw [if_pos h0]; exact Or.inl ⟨_, rfl, rfl⟩
  rw [if_neg h0]
  by_cases hp : p ∉ s.free
  · rw [if_pos hp]; exact Or.inl ⟨_, rfl, rfl⟩
  rw [if_neg hp]
  dsimp only
  cases o.id with
  | some gid =>
    dsimp only
    split
    · exact Or.inl ⟨_, rfl, rfl⟩
    split
    · exact Or.inl ⟨_, rfl, rfl⟩
    · exact Or.inr ⟨_, rfl, rfl, rfl⟩
  | none =>
    dsimp only
    split
    · exact Or.inl ⟨_, rfl, rfl⟩
    split
    · exact Or.inl ⟨_, rfl, rfl⟩
    · exact Or.inr ⟨_, rfl, rfl, rfl⟩

theorem addBuild_eq {s : State} {q : Pending} {P : List Pending} (hp : s.pending = q :: P) (hq : q.stage = .reserved)
    (ok : Bool) : addBuild s q ok =
      if ok then ({ s with pending := { q with stage := .built } :: P }, .ok { q with stage := .built })
      else ({ s with pending := P, free := q.port :: s.free }, .error .build) := by
  unfold addBuild
  simp [hp, hq]

theorem addWrite_eq {s : State} {q : Pending} {P : List Pending} (hp : s.pending = q :: P) (hq : q.stage = .built)
    (ok : Bool) : addWrite s q ok =
      if ok then ({ s with pending := { q with stage := .written } :: P,
                           db := dbPut s.db q.id (freshFields q.m q.o q.port),
                           dead := s.dead.filter (fun e => e.1 != q.id) }, .ok { q with stage := .written })
      else ({ s with pending := P, free := q.port :: s.free }, .error .write) := by
  unfold addWrite
  simp [hp, hq]

theorem addInsert_eq {s : State} {q : Pending} {P : List Pending} (hp : s.pending = q :: P) (hq : q.stage = .written) :
    addInsert s q = ({ s with pending := P, reg := regPut s.reg ⟨q.id, freshFields q.m q.o q.port⟩,
                              idx := s.idx ++ [(q.m.infoHash, q.id)], invalid := s.invalid.erase q.id }, .ok q) := by
  unfold addInsert
  simp [hp, hq]

theorem start_pending (s : State) (id : String) : (start s id).pending = s.pending := by
  unfold start; split <;> rfl

/-- A whole sequential add leaves the set of adds in flight as it found it. -/
theorem addSeq_pending (s : State) (m : Meta) (o : Opts) (p : Nat) (gen : String) (e : Env) :
    (addSeq s m o p gen e).1.pending = s.pending := by
  unfold addSeq
  rcases addBegin_pending s m o p gen e.stoFail with ⟨err, h2, h1⟩ | ⟨q, h2, h1, hst⟩
  · generalize addBegin s m o p gen e.stoFail = r at h1 h2
    obtain ⟨s1, r1⟩ := r
    simp only at h1 h2
    subst h2
    exact h1
  · generalize addBegin s m o p gen e.stoFail = r at h1 h2
    obtain ⟨s1, r1⟩ := r
    simp only at h1 h2
    subst h2
    dsimp only
    rw [addBuild_eq h1 hst]
    cases e.buildFail with
    | true => simp
    | false =>
      simp only [Bool.not_false, if_true]
      rw [addWrite_eq (P := s.pending) rfl rfl]
      cases e.writeFail with
      | true => simp
      | false =>
        simp only [Bool.not_false, if_true]
        rw [addInsert_eq (P := s.pending) rfl rfl]
        dsimp only
        split
        · rfl
        · rw [start_pending]

/-- What `addBegin` does to the state, case by case. -/
theorem addBegin_spec (s : State) (m : Meta) (o : Opts) (p : Nat) (gen : String) (sf : Bool) :
    (∃ err, (addBegin s m o p gen sf).2 = .error err ∧
      ((addBegin s m o p gen sf).1 = s ∨
       (p ∈ s.free ∧ (addBegin s m o p gen sf).1 = { s with free := p :: s.free.erase p }))) ∨
    (∃ q, (addBegin s m o p gen sf).2 = .ok q ∧ p ∈ s.free ∧ q.port = p ∧ q.stage = .reserved ∧
      (addBegin s m o p gen sf).1 = { s with free := s.free.erase p, pending := q :: s.pending }) := by
  unfold addBegin addBeginWith
  by_cases h0 : s.free = []
  · rw [if_pos h0]; exact Or.inl ⟨_, rfl, Or.inl rfl⟩
  rw [if_neg h0]
  by_cases hp : p ∉ s.free
  · rw [if_pos hp]; exact Or.inl ⟨_, rfl, Or.inl rfl⟩
  rw [if_neg hp]
  have hp : p ∈ s.free := Classical.not_not.1 hp
  dsimp only
  cases o.id with
  | some gid =>
    dsimp only
    split
    · exact Or.inl ⟨_, rfl, Or.inr ⟨hp, rfl⟩⟩
    split
    · exact Or.inl ⟨_, rfl, Or.inr ⟨hp, rfl⟩⟩
    · exact Or.inr ⟨_, rfl, hp, rfl, rfl, rfl⟩
  | none =>
    dsimp only
    split
    · exact Or.inl ⟨_, rfl, Or.inl rfl⟩
    split
    · exact Or.inl ⟨_, rfl, Or.inr ⟨hp, rfl⟩⟩
    · exact Or.inr ⟨_, rfl, hp, rfl, rfl, rfl⟩

/-- **A failing add leaves no trace**: whatever the failure point (no port, duplicate id, storage,
newTorrent, resume write, inadmissible choice), the set of free ports is what it was (the port that
was taken is back), and registry, index, database and the adds in flight are untouched. -/
theorem addSeq_error_restores (s : State) (m : Meta) (o : Opts) (p : Nat) (gen : String) (e : Env) (err : AddErr)
    (h : (addSeq s m o p gen e).2 = .error err) :
    (addSeq s m o p gen e).1.free.Perm s.free ∧ (addSeq s m o p gen e).1.reg = s.reg ∧
    (addSeq s m o p gen e).1.db = s.db ∧ (addSeq s m o p gen e).1.idx = s.idx ∧
    (addSeq s m o p gen e).1.pending = s.pending := by
  unfold addSeq at h ⊢
  rcases addBegin_spec s m o p gen e.stoFail with ⟨err1, h2, h1⟩ | ⟨q, h2, hp, hqp, hst, h1⟩
  · generalize addBegin s m o p gen e.stoFail = r at h1 h2 h ⊢
    obtain ⟨s1, r1⟩ := r
    simp only at h1 h2
    subst h2
    dsimp only at h ⊢
    rcases h1 with rfl | ⟨hp, rfl⟩
    · exact ⟨List.Perm.refl _, rfl, rfl, rfl, rfl⟩
    · exact ⟨(List.perm_cons_erase hp).symm, rfl, rfl, rfl, rfl⟩
  · generalize addBegin s m o p gen e.stoFail = r at h1 h2 h ⊢
    obtain ⟨s1, r1⟩ := r
    simp only at h1 h2
    subst h2
    subst h1
    dsimp only at h ⊢
    rw [addBuild_eq (P := s.pending) rfl hst] at h ⊢
    cases hb : e.buildFail with
    | true =>
      simp only [hb, Bool.not_true, Bool.false_eq_true, if_false, and_true] at h ⊢
      rw [hqp]; exact (List.perm_cons_erase hp).symm
    | false =>
      simp only [hb, Bool.not_false, if_true] at h ⊢
      rw [addWrite_eq (P := s.pending) rfl rfl] at h ⊢
      cases hw : e.writeFail with
      | true =>
        simp only [hw, Bool.not_true, Bool.false_eq_true, if_false, and_true] at h ⊢
        rw [hqp]; exact (List.perm_cons_erase hp).symm
      | false =>
        simp only [hw, Bool.not_false, if_true] at h
        rw [addInsert_eq (P := s.pending) rfl rfl] at h
        simp at h

theorem addSeq_pending_nil {s : State} (hp : s.pending = []) (m : Meta) (o : Opts) (p : Nat) (gen : String) (e : Env) :
    (addSeq s m o p gen e).1.pending = [] := by
  rw [addSeq_pending]; exact hp

theorem foldl_load_pending (resume : Bool) : ∀ (rest : List (String × Fields)) (s : State),
    (rest.foldl (loadOne resume) s).pending = s.pending
  | [], _ => rfl
  | e :: rest, s => by
    rw [List.foldl_cons, foldl_load_pending resume rest]; rfl

theorem step_pending_nil {s : State} (hp : s.pending = []) {op : Op} (hs : op.sequential = true) :
    (step s op).pending = [] := by
  cases op with
  | add m o p gen e => exact addSeq_pending_nil hp m o p gen e
  | abegin | abuild | awrite | ainsert => simp [Op.sequential] at hs
  | remove id => simp only [step, remove]; split <;> simp [hp]
  | start id => simp only [step, start]; split <;> simp [hp]
  | stop id => simp only [step, stop]; split <;> simp [hp]
  | addTracker id uri => simp only [step, addTracker]; split <;> simp [hp]
  | bump id d => simp [step, bump, hp]
  | updateStats => simp [step, updateStats, hp]
  | reopen r bad =>
    simp only [step, reopen, hp, ne_eq, not_true_eq_false, if_false, openOn]
    rw [foldl_load_pending]; rfl
  | clean => simp only [step, clean]; split <;> simp [hp]
  | tamper id ih => simp [step, tamper, hp]
  | compactSwap r =>
    simp only [step, compactSwap, hp, ne_eq, not_true_eq_false, if_false]
    split
    · simp only [openOn]; rw [foldl_load_pending]; rfl
    · exact hp

theorem run_pending_nil : ∀ (ops : List Op) {s : State}, s.pending = [] → (∀ op ∈ ops, op.sequential = true) →
    (run s ops).pending = []
  | [], _, h, _ => h
  | op :: ops, _, h, hs => by
    unfold run
    rw [List.foldl_cons]
    exact run_pending_nil ops (step_pending_nil h (hs op List.mem_cons_self))
      (fun o ho => hs o (List.mem_cons_of_mem _ ho))

/-! ### `Inv` in terms of the executable predicates -/

theorem portConservation_of_inv {s : State} (h : Inv s) (hp : s.pending = []) : portConservation (observe s) = true := by
  unfold portConservation observe
  rw [List.isPerm_iff]
  have := h.ports
  rw [hp] at this
  simpa [State.range] using this

theorem idsUnique_of_inv {s : State} (h : Inv s) : idsUnique (observe s) = true := by
  unfold idsUnique observe
  simp only [Bool.and_eq_true, decide_eq_true_eq, List.isPerm_iff]
  exact ⟨h.regIds_nodup, h.idx⟩

theorem dbGet_append_left {db dead : List (String × Fields)} {k : String} {r : Fields} (h : dbGet db k = some r) :
    dbGet (db ++ dead) k = some r := by
  unfold dbGet at h ⊢
  cases hf : db.find? (fun e => e.1 == k) with
  | none => simp [hf] at h
  | some e => rw [List.find?_append, hf]; simpa [hf] using h

theorem registryEqDb_of_inv {s : State} (h : Inv s) (hd : DInv s) (hp : s.pending = []) :
    registryEqDb (observe s) = true := by
  unfold registryEqDb observe
  simp only [Bool.and_eq_true, List.isPerm_iff, List.all_eq_true]
  refine ⟨?_, ?_⟩
  · have := h.dbIds_perm
    rw [hp] at this
    have hfil : s.invalid.filter (fun i => !(s.reg.map (·.id)).contains i) = s.invalid := by
      apply List.filter_eq_self.2
      intro i hi
      have := hd.fresh i hi
      simpa [State.regIds] using this
    rw [hfil, List.map_append]
    refine List.Perm.append ?_ (hd.invalid_perm hp).symm
    simpa [State.dbIds, State.regIds, written] using this
  · intro t ht
    obtain ⟨r, hr, hd⟩ := h.synced t ht
    rw [dbGet_append_left (dbGet_of_mem h.dbIds_nodup hr)]
    exact hd

end Rain.Registry
