import RainModel.Model.Discipline
/-!
Soundness of the sink-elimination check of `Model/Discipline.lean`: an edge that lies on a cycle survives every
round of `prune`, so a graph accepted by `graphAcyclic` has no cycle.  Core Lean only.
-/
namespace Rain.Discipline

theorem Path.snoc {g : List (Nat × Nat)} {a b c : Nat} (h : Path g a b) (e : (b, c) ∈ g) : Path g a c := by
  induction h with
  | single h1 => exact Path.cons h1 (Path.single e)
  | cons h1 _ ih => exact Path.cons h1 (ih e)

theorem Path.trans {g : List (Nat × Nat)} {a b c : Nat} (h : Path g a b) (h' : Path g b c) : Path g a c := by
  induction h with
  | single h1 => exact Path.cons h1 h'
  | cons h1 _ ih => exact Path.cons h1 (ih h')

/-- A path starts with an edge of the graph. -/
theorem Path.first {g : List (Nat × Nat)} {a c : Nat} (h : Path g a c) :
    ∃ b, (a, b) ∈ g ∧ (b = c ∨ Path g b c) := by
  cases h with
  | single h1 => exact ⟨c, h1, Or.inl rfl⟩
  | cons h1 h2 => exact ⟨_, h1, Or.inr h2⟩

/-- The edges of `g` from whose target one can walk back to their source: the edges on cycles. -/
def OnCycle (g : List (Nat × Nat)) (e : Nat × Nat) : Prop := e ∈ g ∧ (e.2 = e.1 ∨ Path g e.2 e.1)

/-- An edge on a cycle is followed by an edge on a cycle. -/
theorem OnCycle.next {g : List (Nat × Nat)} {e : Nat × Nat} (h : OnCycle g e) :
    ∃ f, OnCycle g f ∧ f.1 = e.2 := by
  obtain ⟨a, b⟩ := e
  obtain ⟨hm, hc⟩ := h
  simp only at hc
  rcases hc with hc | hc
  · -- self edge
    subst hc
    exact ⟨(b, b), ⟨hm, Or.inl rfl⟩, rfl⟩
  · obtain ⟨c, h1, h2⟩ := hc.first
    refine ⟨(b, c), ⟨h1, ?_⟩, rfl⟩
    rcases h2 with h2 | h2
    · subst h2
      by_cases hbc : c = b
      · exact Or.inl hbc
      · exact Or.inr (Path.single hm)
    · exact Or.inr (h2.snoc hm)

/-- Edges on cycles of `g` survive a round of sink elimination of any list that still contains them all. -/
theorem onCycle_subset_prune {g k : List (Nat × Nat)} (hsub : ∀ e, OnCycle g e → e ∈ k) :
    ∀ e, OnCycle g e → e ∈ prune k := by
  intro e he
  obtain ⟨f, hf, hfe⟩ := he.next
  unfold prune
  rw [List.mem_filter]
  refine ⟨hsub e he, ?_⟩
  rw [List.any_eq_true]
  exact ⟨f, hsub f hf, by simp [hfe]⟩

theorem onCycle_subset_pruneN {g : List (Nat × Nat)} (n : Nat) :
    ∀ k : List (Nat × Nat), (∀ e, OnCycle g e → e ∈ k) → ∀ e, OnCycle g e → e ∈ pruneN n k := by
  induction n with
  | zero => intro k hsub; exact hsub
  | succ n ih =>
    intro k hsub
    exact ih (prune k) (onCycle_subset_prune hsub)

/-- **Soundness of the check**: a graph accepted by `graphAcyclic` has no cycle — no lock `a` with a non-empty
walk `a → … → a` (a self-edge `a → a` is such a walk). -/
theorem no_cycle_of_graphAcyclic {g : List (Nat × Nat)} (h : graphAcyclic g = true) (a : Nat) : ¬ Path g a a := by
  intro hp
  obtain ⟨b, h1, h2⟩ := hp.first
  have hc : OnCycle g (a, b) := ⟨h1, by rcases h2 with h2 | h2; exact Or.inl h2; exact Or.inr h2⟩
  have hm := onCycle_subset_pruneN (g := g) g.length g (fun e he => he.1) (a, b) hc
  unfold graphAcyclic at h
  rw [List.isEmpty_iff] at h
  rw [h] at hm
  exact absurd hm List.not_mem_nil

theorem Walk.toPath {g : List (Nat × Nat)} : ∀ (ls : List Nat) (a b : Nat), Walk g a ls b → Path g a b
  | [], _, _, h => Path.single h
  | _ :: cs, _, b, h => Path.cons h.1 (Walk.toPath cs _ b h.2)

/-- Conversely a rejected graph really keeps a set of edges each of which is followed by another one of the set
(so, the set being finite, it contains a cycle): the check does not reject for spurious reasons. -/
theorem prune_fixed_of_rejected_step (g : List (Nat × Nat)) :
    ∀ e ∈ prune g, ∃ f ∈ g, f.1 = e.2 := by
  intro e he
  unfold prune at he
  rw [List.mem_filter, List.any_eq_true] at he
  obtain ⟨_, f, hf, hfe⟩ := he
  exact ⟨f, hf, by simpa using hfe⟩

end Rain.Discipline
