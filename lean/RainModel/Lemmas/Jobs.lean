import RainModel.Model.Geometry
import RainModel.Lemmas.Geometry
/-! Helper lemmas for `jobs_cover` (C02): `urldownloader.createJobs`. -/
namespace Rain.Geometry

/-- The loop body of `createJobs` without the `i == 0 && j == 0` special case. -/
def jobStep (a : List Job × Job) (s : Sec) : List Job × Job :=
  if s.name = a.2.name ∧ s.pad = a.2.pad then (a.1, { a.2 with len := a.2.len + s.len })
  else (flush a.1 a.2, Job.ofSec s)

def jobFold (secs : List Sec) (a : List Job × Job) : List Job × Job := secs.foldl jobStep a

theorem jobFold_cons (s : Sec) (r : List Sec) (a : List Job × Job) : jobFold (s :: r) a = jobFold r (jobStep a s) := rfl

theorem jobFold_append (x y : List Sec) (a : List Job × Job) : jobFold (x ++ y) a = jobFold y (jobFold x a) := by
  simp [jobFold, List.foldl_append]

/-- Away from `(i, j) = (0, 0)` the inner loop is the plain fold. -/
theorem jobSecs_eq_fold (i : Nat) : ∀ (secs : List Sec) (j : Nat) (a : List Job × Job), ¬ (i = 0 ∧ j = 0) →
    jobSecs i j secs a = jobFold secs a
  | [], _, _, _ => rfl
  | s :: r, j, (jobs, job), h => by
    unfold jobSecs
    rw [if_neg h, jobFold_cons]
    have h' : ¬ (i = 0 ∧ j + 1 = 0) := by omega
    by_cases hm : s.name = job.name ∧ s.pad = job.pad
    · rw [if_pos hm, jobSecs_eq_fold i r (j + 1) _ h']; simp [jobStep, hm]
    · rw [if_neg hm, jobSecs_eq_fold i r (j + 1) _ h']; simp [jobStep, hm]

/-- At `(0, 0)` the special case coincides with the plain fold from the zero job, because no
file name is empty. -/
theorem jobSecs_zero_eq_fold (secs : List Sec) (hn : ∀ s ∈ secs, s.name ≠ 0) :
    jobSecs 0 0 secs ([], zeroJob) = jobFold secs ([], zeroJob) := by
  cases secs with
  | nil => rfl
  | cons s r =>
    unfold jobSecs
    rw [if_pos ⟨rfl, rfl⟩, jobFold_cons, jobSecs_eq_fold 0 r 1 _ (by omega)]
    have : ¬ (s.name = zeroJob.name ∧ s.pad = zeroJob.pad) := by
      intro h; exact hn s (by simp) h.1
    have hs : jobStep ([], zeroJob) s = ([], Job.ofSec s) := by
      unfold jobStep
      rw [if_neg this]; simp [flush, zeroJob]
    rw [hs]

theorem take_succ_drop {α} (l : List α) (b k : Nat) (x : α) (h : l[b]? = some x) :
    (l.drop b).take (k + 1) = x :: (l.drop (b + 1)).take k := by
  have hlt : b < l.length := by
    rcases Nat.lt_or_ge b l.length with h' | h'
    · exact h'
    · rw [List.getElem?_eq_none h'] at h; cases h
  rw [List.drop_eq_getElem_cons hlt, List.take_succ_cons]
  rw [List.getElem?_eq_getElem hlt] at h
  cases h; rfl

/-- The outer loop is the plain fold over the sections of pieces `[b, b+k)`. -/
theorem jobPieces_eq_fold (ps : List Piece) (hn : ∀ s ∈ allSecs ps, s.name ≠ 0) : ∀ (k b : Nat) (a : List Job × Job),
    b + k ≤ ps.length → (b = 0 → a = ([], zeroJob)) →
    jobPieces ps b k a = some (jobFold (allSecs ((ps.drop b).take k)) a)
  | 0, b, a, _, _ => by simp [jobPieces, allSecs, jobFold]
  | k + 1, b, a, hle, ha => by
    have hlt : b < ps.length := by omega
    have hget : ps[b]? = some ps[b] := List.getElem?_eq_getElem hlt
    unfold jobPieces
    simp only [hget]
    have hsecs : jobSecs b 0 ps[b].secs a = jobFold ps[b].secs a := by
      by_cases hb : b = 0
      · rw [ha hb]; subst hb
        apply jobSecs_zero_eq_fold
        intro s hs
        apply hn s
        simp only [allSecs, List.mem_flatMap]
        exact ⟨ps[0], List.getElem_mem _, hs⟩
      · exact jobSecs_eq_fold b _ 0 a (by omega)
    rw [hsecs, jobPieces_eq_fold ps hn k (b + 1) _ (by omega) (by omega), take_succ_drop ps b k _ hget,
      allSecs_cons, jobFold_append]

/-! ### tokens -/

/-- `createJobs`' result for an accumulator: pending job appended if non-empty, oldest first. -/
def out (a : List Job × Job) : List Job := (flush a.1 a.2).reverse

theorem jobToks_len_zero (j : Job) (h : j.len = 0) : jobToks j = [] := by
  unfold jobToks; split <;> simp [h]

theorem out_toks (jobs : List Job) (job : Job) :
    (out (jobs, job)).flatMap jobToks = jobs.reverse.flatMap jobToks ++ jobToks job := by
  unfold out flush
  by_cases h : job.len > 0
  · simp [h]
  · have h0 : job.len = 0 := by omega
    simp [h, jobToks_len_zero job h0]

theorem out_pos (jobs : List Job) (job : Job) (h : ∀ j ∈ jobs, 0 < j.len) : ∀ j ∈ out (jobs, job), 0 < j.len := by
  intro j hj
  unfold out flush at hj
  by_cases hl : job.len > 0
  · simp only [hl, if_true, List.mem_reverse, List.mem_cons] at hj
    rcases hj with rfl | hj
    · exact hl
    · exact h j hj
  · simp only [hl, if_false, List.mem_reverse] at hj
    exact h j hj

theorem jobToks_ofSec (s : Sec) : jobToks (Job.ofSec s) = secToks s := rfl

theorem jobToks_merge_pad (job : Job) (s : Sec) (hj : job.pad = true) (hs : s.pad = true) :
    jobToks { job with len := job.len + s.len } = jobToks job ++ secToks s := by
  simp [jobToks, secToks, hj, hs, List.replicate_append_replicate]

theorem jobToks_merge_data (job : Job) (s : Sec) (hj : job.pad = false) (hs : s.pad = false)
    (hname : s.name = job.name) (hoff : s.off = job.begin + job.len) :
    jobToks { job with len := job.len + s.len } = jobToks job ++ secToks s := by
  simp only [jobToks, secToks, hj, hs, Bool.false_eq_true, if_false]
  rw [List.range_add, List.map_append, List.map_map]
  congr 1
  apply List.map_congr_left
  intro k _
  simp [hname, hoff, Nat.add_assoc]

theorem names_distinct {files : List FileEnt} (h : namesOK files = true) {i j : Nat} {f g : FileEnt}
    (hi : files[i]? = some f) (hj : files[j]? = some g) (hij : i < j) (hf : f.pad = false) (hg : g.pad = false) :
    f.name ≠ g.name := by
  unfold namesOK at h
  rw [Bool.and_eq_true, decide_eq_true_eq] at h
  have hp := List.pairwise_iff_getElem.mp h.2
  have hil : i < files.length := by
    rcases Nat.lt_or_ge i files.length with h' | h'
    · exact h'
    · rw [List.getElem?_eq_none h'] at hi; cases hi
  have hjl : j < files.length := by
    rcases Nat.lt_or_ge j files.length with h' | h'
    · exact h'
    · rw [List.getElem?_eq_none h'] at hj; cases hj
  have := hp i j hil hjl hij
  rw [List.getElem?_eq_getElem hil] at hi
  rw [List.getElem?_eq_getElem hjl] at hj
  cases hi; cases hj
  simpa [hf, hg] using this

theorem names_ne_zero {files : List FileEnt} (h : namesOK files = true) {s : Sec} (hm : secMetaOK files s = true) :
    s.name ≠ 0 := by
  unfold namesOK at h
  rw [Bool.and_eq_true, List.all_eq_true] at h
  unfold secMetaOK at hm
  split at hm
  · rename_i f hf
    simp only [Bool.and_eq_true, beq_iff_eq, decide_eq_true_eq] at hm
    have := h.1 f (List.mem_of_getElem? hf)
    rw [hm.1.2]
    simpa using this
  · cases hm

/-- The open job is a padding job, or the zero job, or it ends exactly at the walk position `p`
inside a non-padding file of its name. -/
def Tracks (files : List FileEnt) (job : Job) (p : Nat × Nat) : Prop :=
  job.pad = true ∨ job.name = 0 ∨
  (job.pad = false ∧ p.2 = job.begin + job.len ∧ ∃ f, files[p.1]? = some f ∧ f.name = job.name ∧ f.pad = false)

theorem secMeta_unpack {files : List FileEnt} {s : Sec} (hm : secMetaOK files s = true) :
    ∃ f, files[s.file]? = some f ∧ s.pad = f.pad ∧ s.name = f.name := by
  unfold secMetaOK at hm
  split at hm
  · rename_i f hf
    simp only [Bool.and_eq_true, beq_iff_eq, decide_eq_true_eq] at hm
    exact ⟨f, hf, hm.1.1, hm.1.2⟩
  · cases hm

/-- One step of the fold keeps the tracking invariant and appends exactly the section's tokens. -/
theorem jobStep_toks {files : List FileEnt} (hnames : namesOK files = true) (jobs : List Job) (job : Job) (s : Sec)
    (p : Nat × Nat) (hreach : Reach p (s.file, s.off)) (hm : secMetaOK files s = true)
    (htr : Tracks files job p) (hpos : ∀ j ∈ jobs, 0 < j.len) :
    Tracks files (jobStep (jobs, job) s).2 (s.file, s.off + s.len) ∧
    (∀ j ∈ (jobStep (jobs, job) s).1, 0 < j.len) ∧
    (out (jobStep (jobs, job) s)).flatMap jobToks = (out (jobs, job)).flatMap jobToks ++ secToks s := by
  obtain ⟨fs, hfs, hspad, hsname⟩ := secMeta_unpack hm
  have hsn0 := names_ne_zero hnames hm
  unfold jobStep
  by_cases hmerge : s.name = job.name ∧ s.pad = job.pad
  · simp only [hmerge, and_self, if_true]
    refine ⟨?_, hpos, ?_⟩
    · -- tracking
      by_cases hp : job.pad = true
      · exact Or.inl hp
      · have hp' : job.pad = false := by simpa using hp
        rcases htr with h | h | ⟨_, hend, f, hf, hfn, hfp⟩
        · exact absurd h hp
        · exact absurd (hmerge.1.trans h) hsn0
        · refine Or.inr (Or.inr ⟨hp', ?_, ?_⟩)
          · rcases hreach with heq | ⟨hlt, _⟩
            · have h2 : s.off = p.2 := by rw [← heq]
              simp only; omega
            · exfalso
              simp only at hlt
              have hspf : fs.pad = false := by rw [← hspad, hmerge.2, hp']
              exact names_distinct hnames hf hfs hlt hfp hspf (by rw [hfn, ← hsname, hmerge.1])
          · exact ⟨fs, hfs, by rw [← hsname, hmerge.1], by rw [← hspad, hmerge.2, hp']⟩
    · rw [out_toks, out_toks, List.append_assoc]
      congr 1
      by_cases hp : job.pad = true
      · exact jobToks_merge_pad job s hp (by rw [hmerge.2, hp])
      · have hp' : job.pad = false := by simpa using hp
        apply jobToks_merge_data job s hp' (by rw [hmerge.2, hp']) hmerge.1
        rcases htr with h | h | ⟨_, hend, f, hf, hfn, hfp⟩
        · exact absurd h hp
        · exact absurd (hmerge.1.trans h) hsn0
        · rcases hreach with heq | ⟨hlt, _⟩
          · have h2 : s.off = p.2 := by rw [← heq]
            omega
          · exfalso
            simp only at hlt
            have hspf : fs.pad = false := by rw [← hspad, hmerge.2, hp']
            exact names_distinct hnames hf hfs hlt hfp hspf (by rw [hfn, ← hsname, hmerge.1])
  · rw [if_neg hmerge]
    refine ⟨?_, ?_, ?_⟩
    · by_cases hp : s.pad = true
      · exact Or.inl hp
      · have hp' : s.pad = false := by simpa using hp
        exact Or.inr (Or.inr ⟨hp', rfl, fs, hfs, hsname.symm, by rw [← hspad, hp']⟩)
    · intro j hj
      simp only [flush] at hj
      by_cases hl : job.len > 0
      · simp only [hl, if_true, List.mem_cons] at hj
        rcases hj with rfl | hj
        · exact hl
        · exact hpos j hj
      · simp only [hl, if_false] at hj
        exact hpos j hj
    · rw [out_toks]
      simp only [jobToks_ofSec]
      congr 1

/-- The fold over a walk of sections yields jobs whose tokens are the sections' tokens. -/
theorem jobFold_toks {files : List FileEnt} (hnames : namesOK files = true) : ∀ (secs : List Sec) (jobs : List Job)
    (job : Job) (p q : Nat × Nat), walkTo p secs q → (∀ s ∈ secs, secMetaOK files s = true) →
    Tracks files job p → (∀ j ∈ jobs, 0 < j.len) →
    (out (jobFold secs (jobs, job))).flatMap jobToks = (out (jobs, job)).flatMap jobToks ++ secs.flatMap secToks ∧
    ∀ j ∈ out (jobFold secs (jobs, job)), 0 < j.len
  | [], jobs, job, _, _, _, _, _, hpos => ⟨by simp [jobFold], out_pos jobs job hpos⟩
  | s :: r, jobs, job, p, q, hwalk, hmeta, htr, hpos => by
    obtain ⟨htr', hpos', htoks⟩ := jobStep_toks hnames jobs job s p hwalk.1 (hmeta s (by simp)) htr hpos
    obtain ⟨h1, h2⟩ := jobFold_toks hnames r (jobStep (jobs, job) s).1 (jobStep (jobs, job) s).2 _ q hwalk.2
      (fun t ht => hmeta t (by simp [ht])) htr' hpos'
    rw [jobFold_cons]
    refine ⟨?_, h2⟩
    rw [h1, htoks, List.flatMap_cons, List.append_assoc]

theorem walkTo_split : ∀ (a b : List Sec) (p q : Nat × Nat), walkTo p (a ++ b) q → ∃ m, walkTo p a m ∧ walkTo m b q
  | [], b, p, q, h => ⟨p, Reach.refl p, h⟩
  | s :: a, b, p, q, h => by
    obtain ⟨m, h1, h2⟩ := walkTo_split a b _ q h.2
    exact ⟨m, ⟨h.1, h1⟩, h2⟩

theorem walkTo_prefix : ∀ (a b : List Sec) (p q : Nat × Nat), walkTo p (a ++ b) q → ∃ m, walkTo p a m := by
  intro a b p q h
  obtain ⟨m, h1, _⟩ := walkTo_split a b p q h
  exact ⟨m, h1⟩

theorem allSecs_append (a b : List Piece) : allSecs (a ++ b) = allSecs a ++ allSecs b := by simp [allSecs]

/-- `createJobs` on pieces whose sections walk the files (as `newPieces` produces them). -/
theorem createJobs_cover {files : List FileEnt} (hnames : namesOK files = true) (ps : List Piece) (p0 q0 : Nat × Nat)
    (hwalk : walkTo p0 (allSecs ps) q0) (hmeta : ∀ s ∈ allSecs ps, secMetaOK files s = true)
    (b e : Nat) (hbe : b ≤ e) (he : e ≤ ps.length) :
    ∃ jobs, createJobs ps b e = some jobs ∧ JobsCover (secsOfRange ps b e) jobs = true := by
  unfold createJobs
  by_cases hbe' : b = e
  · subst hbe'
    exact ⟨[], by simp, by simp [JobsCover, secsOfRange, allSecs]⟩
  · rw [if_neg hbe']
    have hn : ∀ s ∈ allSecs ps, s.name ≠ 0 := fun s hs => names_ne_zero hnames (hmeta s hs)
    rw [jobPieces_eq_fold ps hn (e - b) b ([], zeroJob) (by omega) (fun _ => rfl)]
    simp only
    rw [show allSecs (List.take (e - b) (List.drop b ps)) = secsOfRange ps b e from rfl]
    -- the sections of [b, e) are a middle part of the walk
    have hsplit : ps = ps.take b ++ ((ps.drop b).take (e - b) ++ (ps.drop b).drop (e - b)) := by
      rw [List.take_append_drop, List.take_append_drop]
    have hall : allSecs ps = allSecs (ps.take b) ++ (secsOfRange ps b e ++ allSecs ((ps.drop b).drop (e - b))) := by
      conv => lhs; rw [hsplit]
      rw [allSecs_append, allSecs_append]; rfl
    rw [hall] at hwalk
    obtain ⟨m, _, hw2⟩ := walkTo_split _ _ _ _ hwalk
    obtain ⟨m', hw3⟩ := walkTo_prefix _ _ _ _ hw2
    have hmeta' : ∀ s ∈ secsOfRange ps b e, secMetaOK files s = true := by
      intro s hs
      apply hmeta s
      rw [hall]; simp [hs]
    obtain ⟨h1, h2⟩ := jobFold_toks hnames (secsOfRange ps b e) [] zeroJob m m' hw3 hmeta'
      (Or.inr (Or.inl rfl)) (by simp)
    refine ⟨_, rfl, ?_⟩
    unfold JobsCover
    rw [Bool.and_eq_true, beq_iff_eq, List.all_eq_true]
    refine ⟨?_, ?_⟩
    · have := h1
      simp only [out] at this
      rw [this]
      simp [flush, zeroJob]
    · intro j hj
      have := h2 j (by simpa [out] using hj)
      simpa using this

end Rain.Geometry
