import RainModel.Lemmas.LoopStopped
/-!
The verify command on a stopped torrent ends in `Stopped` with `doVerify` cleared: through the verifier when
some file exists, straight from the allocation result when none does (fix for finding C04-F4).
-/
namespace Rain.Loop

theorem runWorkers_alloc (n : Nat) (m : M) (h1 : m.1.panicked = none) (h2 : m.1.stopAnn = false)
    (h3 : m.1.allocator = true) (h4 : m.1.gateOpen = false) :
    runWorkers (n + 1) m = runWorkers n (allocatorRun m) := by
  conv => lhs; unfold runWorkers
  simp [h1, h2, h3, h4]

theorem runWorkers_ver (n : Nat) (m : M) (h1 : m.1.panicked = none) (h2 : m.1.stopAnn = false)
    (h3 : m.1.allocator = false) (h4 : m.1.verifier = true) (h5 : m.1.gateRead = false) :
    runWorkers (n + 1) m = runWorkers n (handleVerificationDone m) := by
  conv => lhs; unfold runWorkers
  simp [h1, h2, h3, h4, h5]

theorem runWorkers_stopped (n : Nat) (m : M) (h1 : m.1.panicked = none) (h2 : m.1.stopAnn = true)
    (h3 : m.1.stopHang = false) :
    runWorkers (n + 1) m = runWorkers n (handleStopped m) := by
  conv => lhs; unfold runWorkers
  simp [h1, h2, h3]

/-- Some non-padding file of the torrent exists in the storage. -/
def SomeFileExists (s : St) : Prop :=
  ((List.range s.cfg.flens.length).filter (fun i => !(s.cfg.fpads.getD i false))).any
    (fun i => s.fileExists.getD i false) = true

/-- Allocation with no bitfield and some file present hands over to the verifier. -/
theorem allocatorRun_to_verifier (m : M) (hf : m.1.failOpen = false) (hbf : m.1.bf = none)
    (hex : SomeFileExists m.1) :
    (allocatorRun m).1.verifier = true ∧ (allocatorRun m).1.allocator = false ∧
    (allocatorRun m).1.stopAnn = m.1.stopAnn ∧ (allocatorRun m).1.panicked = m.1.panicked ∧
    (allocatorRun m).1.gateRead = m.1.gateRead ∧ (allocatorRun m).1.doVerify = m.1.doVerify ∧
    (allocatorRun m).1.errC = m.1.errC := by
  unfold SomeFileExists at hex
  unfold allocatorRun
  simp only [hf, Bool.false_eq_true, ↓reduceIte, hex]
  rw [handleAllocationDone_eq]
  dsimp only
  have hnone : ∀ (x : M) (mi : Bool), x.1.bf = none → (hadForget (hadInstall x) mi).1.bf = none := by
    intro x mi hx
    unfold hadForget
    simp [hx]
  rw [hnone _ _ (by simpa using hbf)]
  simp [hadForget, hadInstall]

/-- `stop` on a torrent that is not stopped leaves the stop announcer running. -/
theorem stop_stopAnn_of_errC (s : St) (e : Bool) (h : s.errC = true) : (s.stop e).stopAnn = true := by
  rw [stop_eq]
  split
  · next hs =>
    rcases hs with hs | hs
    · exact ((status_stopping_iff s).1 hs).2
    · rw [(status_stopped_iff s).1 hs] at h; cases h
  · simp [stopRun, stopFin]

/-- A fresh bitfield with a verification pending: the flag is cleared and the torrent stops (fix C04-F4). -/
theorem hadFresh_verify_stops (m : M) (hd : m.1.doVerify = true) (he : m.1.errC = true) (hp : m.1.panicked = none) :
    (hadFresh m).1.stopAnn = true ∧ (hadFresh m).1.doVerify = false ∧ (hadFresh m).1.panicked = none ∧
    (hadFresh m).1.errC = true := by
  unfold hadFresh
  dsimp only
  rw [if_pos (by simpa using hd)]
  simp only [onSt_fst]
  exact ⟨stop_stopAnn_of_errC _ _ (by simpa using he), stop_doVerify_false _ _ rfl, by rw [stop_panicked]; simpa using hp,
    by simpa using he⟩

/-- Allocation with no bitfield, no file present and a verification pending: nothing to verify, the flag is
cleared and the torrent stops (fix for finding C04-F4). -/
theorem allocatorRun_no_files_stops (m : M) (hf : m.1.failOpen = false) (hbf : m.1.bf = none)
    (hex : ¬ SomeFileExists m.1) (hd : m.1.doVerify = true) (he : m.1.errC = true) (hp : m.1.panicked = none) :
    (allocatorRun m).1.stopAnn = true ∧ (allocatorRun m).1.doVerify = false ∧
    (allocatorRun m).1.panicked = none ∧ (allocatorRun m).1.errC = true := by
  unfold SomeFileExists at hex
  have hex' := Bool.eq_false_iff.2 hex
  unfold allocatorRun
  simp only [hf, Bool.false_eq_true, ↓reduceIte, hex']
  rw [handleAllocationDone_eq]
  dsimp only
  have hnone : ∀ (x : M) (mi : Bool), x.1.bf = none → (hadForget (hadInstall x) mi).1.bf = none := by
    intro x mi hx
    unfold hadForget
    simp [hx]
  rw [hnone _ _ (by simpa using hbf)]
  simp only [Bool.not_false, ↓reduceIte]
  exact hadFresh_verify_stops _ (by simpa using hd) (by simpa using he) (by simpa using hp)

/-- Verification done with `doVerify` set: the flag is cleared and the torrent stops. -/
theorem handleVerificationDone_doVerify_stop (m : M) (hd : m.1.doVerify = true) (he : m.1.errC = true)
    (hs : m.1.stopAnn = false) (hp : m.1.panicked = none) :
    (handleVerificationDone m).1.stopAnn = true ∧ (handleVerificationDone m).1.doVerify = false ∧
    (handleVerificationDone m).1.panicked = none ∧ (handleVerificationDone m).1.errC = true := by
  have hpan : (hvdInstall m).1.panicked = none := by
    rw [hvdInstall_eq]
    simp only [onSt_fst]
    have : (hvdPre m).1.panicked = none := by
      simp [hvdPre, St.writeBitfield, hp]
    split <;> simp [this]
  rw [handleVerificationDone_eq]
  have hd' : (hvdInstall m).1.doVerify = true := by simpa using hd
  simp only [hd', ↓reduceIte, onSt_fst]
  have hst : ¬(({ (hvdInstall m).1 with doVerify := false } : St).status = .stopping ∨
      ({ (hvdInstall m).1 with doVerify := false } : St).status = .stopped) := by
    rw [status_stopping_iff, status_stopped_iff]
    simp [he, hs]
  refine ⟨?_, stop_doVerify_false _ _ rfl, by rw [stop_panicked]; exact hpan, by simpa using he⟩
  rw [stop_eq, if_neg hst]
  rfl

/-- The verify command on a stopped torrent with known metadata: the allocator is started with no bitfield. -/
theorem verify_handle_fields (s : St) (p : Parked) (kn : Nat → Bool) (h : Life s) (he : s.errC = false)
    (hi : s.info = true) (hp : s.panicked = none) :
    (handle s p kn .verify).1.1.panicked = none ∧ (handle s p kn .verify).1.1.stopAnn = false ∧
    (handle s p kn .verify).1.1.allocator = true ∧ (handle s p kn .verify).1.1.gateOpen = false ∧
    (handle s p kn .verify).1.1.gateRead = false ∧ (handle s p kn .verify).1.1.doVerify = true ∧
    (handle s p kn .verify).1.1.bf = none ∧ (handle s p kn .verify).1.1.failOpen = s.failOpen ∧
    (handle s p kn .verify).1.1.errC = true ∧ (handle s p kn .verify).1.1.fileExists = s.fileExists ∧
    (handle s p kn .verify).1.1.cfg = s.cfg ∧ (handle s p kn .verify).1.1.stopHang = s.stopHang := by
  obtain ⟨i1, i2, i3, i4, i5, i6, i7, i8⟩ := h.idle (Or.inl he)
  have hst : ∀ x : St, x.errC = false → x.status = .stopped := fun x hx => (status_stopped_iff x).2 hx
  simp only [handle, onSt_fst]
  unfold handleVerifyCommand
  simp only [onSt_fst]
  rw [if_pos (hst _ (by simpa using he))]
  unfold startCore
  simp [he, hi, i1, i3, hp]

/-- **The allocator of a restart-for-verify runs to the end.**  Running, allocator started, no bitfield,
`doVerify` set, both storage gates released, no storage failure: if some file exists the files are opened and
verified, `handleVerificationDone` clears `doVerify` and stops the torrent; if none exists the allocation
result itself does (fix for finding C04-F4).  Either way the stop announcer then reports (or waits for a
hanging tracker). -/
theorem alloc_verify_settles (n : Nat) (r : M) (hl : Life r.1) (a1 : r.1.panicked = none) (a2 : r.1.stopAnn = false)
    (a3 : r.1.allocator = true) (a4 : r.1.gateOpen = false) (a5 : r.1.gateRead = false) (a6 : r.1.doVerify = true)
    (a7 : r.1.bf = none) (a8 : r.1.failOpen = false) (a9 : r.1.errC = true) :
    (runWorkers (n + 3) r).1.doVerify = false ∧
    ((runWorkers (n + 3) r).1.errC = false ∨
      (r.1.stopHang = true ∧ (runWorkers (n + 3) r).1.errC = true ∧ (runWorkers (n + 3) r).1.stopAnn = true ∧
        (runWorkers (n + 3) r).1.stopHang = true)) := by
  have hlB := allocatorRun_life r hl a3
  by_cases hex : SomeFileExists r.1
  · -- allocation → verifier
    obtain ⟨b1, b2, b3, b4, b5, b6, b7⟩ := allocatorRun_to_verifier r a8 a7 hex
    -- verification → stop
    obtain ⟨c1, c2, c3, c4⟩ := handleVerificationDone_doVerify_stop (allocatorRun r) (by rw [b6]; exact a6)
      (by rw [b7]; exact a9) (by rw [b3]; exact a2) (by rw [b4]; exact a1)
    have hlC := handleVerificationDone_life _ hlB b1
    have hrun : runWorkers (n + 3) r = runWorkers (n + 1) (handleVerificationDone (allocatorRun r)) := by
      rw [runWorkers_alloc (n + 2) r a1 a2 a3 a4,
        runWorkers_ver (n + 1) _ (by rw [b4]; exact a1) (by rw [b3]; exact a2) b2 b1 (by rw [b5]; exact a5)]
    have hsh : (handleVerificationDone (allocatorRun r)).1.stopHang = r.1.stopHang := by
      simp only [handleVerificationDone_stopHang, allocatorRun_stopHang]
    -- stop announcer → stopped (or it waits for a hanging tracker)
    obtain ⟨d1, d2⟩ := settle_not_running n _ hlC c3 c2 (Or.inr c1)
    rw [hrun]
    exact ⟨d1, d2.imp id (fun d => ⟨hsh ▸ d.1, d.2⟩)⟩
  · -- nothing on disk: the allocation result clears the flag and stops
    obtain ⟨c1, c2, c3, c4⟩ := allocatorRun_no_files_stops r a8 a7 hex a6 a9 a1
    have hrun : runWorkers (n + 3) r = runWorkers (n + 1 + 1) (allocatorRun r) := runWorkers_alloc (n + 2) r a1 a2 a3 a4
    have hsh : (allocatorRun r).1.stopHang = r.1.stopHang := by simp only [allocatorRun_stopHang]
    obtain ⟨d1, d2⟩ := settle_not_running (n + 1) _ hlB c3 c2 (Or.inr c1)
    rw [hrun]
    exact ⟨d1, d2.imp id (fun d => ⟨hsh ▸ d.1, d.2⟩)⟩

/-- **verify_ends_stopped (general form).** The verify command on a stopped torrent whose metadata is known,
with no storage failure: the files are (re)opened; if at least one existed they are verified and the bitfield
is replaced by the verifier's, if none existed a fresh empty bitfield is installed (fix for finding C04-F4);
`doVerify` is cleared and the torrent is `Stopped` again — or, if a tracker does not answer the `stopped`
event, `Stopping` with the announcer still waiting — all within the op, whatever else is pending. -/
theorem verify_ends_stopped_or_hangs (s : St) (p : Parked) (kn : Nat → Bool) (h : Life s) (he : s.errC = false)
    (hi : s.info = true) (hp : s.panicked = none) (hf : s.failOpen = false) :
    (step s p kn .verify).1.st.doVerify = false ∧
    ((step s p kn .verify).1.st.status = .stopped ∨
      (s.stopHang = true ∧ (step s p kn .verify).1.st.status = .stopping ∧
        (step s p kn .verify).1.st.stopHang = true)) := by
  rw [status_stopped_iff, status_stopping_iff, step_st]
  have h0 : Life { s with sto := [], mayStart := [], closedDl := [], mayStartI := false } := h.congr (by lframe)
  obtain ⟨a1, a2, a3, a4, a5, a6, a7, a8, a9, a10, a11, a12⟩ :=
    verify_handle_fields { s with sto := [], mayStart := [], closedDl := [], mayStartI := false } p kn h0 he hi hp
  generalize hm : (handle { s with sto := [], mayStart := [], closedDl := [], mayStartI := false } p kn .verify) = r at *
  have hlA : Life r.1.1 := by rw [← hm]; exact handle_life _ p kn .verify h0
  obtain ⟨d1, d2⟩ := alloc_verify_settles 9 r.1 hlA a1 a2 a3 a4 a5 a6 a7 (by rw [a8]; exact hf) a9
  rw [settle_step _ r.2.2 p.isSome (runWorkers_life 12 _ hlA) (settle_nr d2)]
  refine ⟨d1, ?_⟩
  rcases d2 with d2 | ⟨d2, d3⟩
  · exact Or.inl d2
  · exact Or.inr ⟨a12 ▸ d2, ⟨d3.1, d3.2.1⟩, d3.2.2⟩

/-- **verify_ends_stopped.** With every tracker answering (`stopHang = false`) the verify command on a
stopped torrent ends in `Stopped` with `doVerify` cleared. -/
theorem verify_ends_stopped (s : St) (p : Parked) (kn : Nat → Bool) (h : Life s) (he : s.errC = false)
    (hi : s.info = true) (hp : s.panicked = none) (hf : s.failOpen = false)
    (hh : s.stopHang = false) :
    (step s p kn .verify).1.st.status = .stopped ∧ (step s p kn .verify).1.st.doVerify = false := by
  obtain ⟨h1, h2⟩ := verify_ends_stopped_or_hangs s p kn h he hi hp hf
  refine ⟨?_, h1⟩
  rcases h2 with h2 | h2
  · exact h2
  · rw [hh] at h2; cases h2.1

/-! ### `Op.verifyHeld`: the verify command while the harness leaves the storage gates as they are -/

/-- As `verify_handle_fields`, the gates unchanged. -/
theorem verifyHeld_handle_fields (s : St) (p : Parked) (kn : Nat → Bool) (h : Life s) (he : s.errC = false)
    (hi : s.info = true) (hp : s.panicked = none) :
    (handle s p kn .verifyHeld).1.1.panicked = none ∧ (handle s p kn .verifyHeld).1.1.stopAnn = false ∧
    (handle s p kn .verifyHeld).1.1.allocator = true ∧ (handle s p kn .verifyHeld).1.1.gateOpen = s.gateOpen ∧
    (handle s p kn .verifyHeld).1.1.gateRead = s.gateRead ∧ (handle s p kn .verifyHeld).1.1.doVerify = true ∧
    (handle s p kn .verifyHeld).1.1.bf = none ∧ (handle s p kn .verifyHeld).1.1.failOpen = s.failOpen ∧
    (handle s p kn .verifyHeld).1.1.errC = true ∧ (handle s p kn .verifyHeld).1.1.fileExists = s.fileExists ∧
    (handle s p kn .verifyHeld).1.1.cfg = s.cfg ∧ (handle s p kn .verifyHeld).1.1.stopHang = s.stopHang := by
  obtain ⟨i1, i2, i3, i4, i5, i6, i7, i8⟩ := h.idle (Or.inl he)
  have hst : ∀ x : St, x.errC = false → x.status = .stopped := fun x hx => (status_stopped_iff x).2 hx
  simp only [handle]
  unfold handleVerifyCommand
  simp only [onSt_fst]
  rw [if_pos (hst _ (by simpa using he))]
  unfold startCore
  simp [he, hi, i1, i3, hp]

/-- `verify_ends_stopped_or_hangs` for `Op.verifyHeld`: the gates are not released by the op, so that they are
released is a hypothesis.  (With a gate held the op ends `Allocating` / `Verifying` with the request pending —
the situation of finding C04-F6, see `stopOp_ends_stopped`.) -/
theorem verifyHeld_ends_stopped_or_hangs (s : St) (p : Parked) (kn : Nat → Bool) (h : Life s) (he : s.errC = false)
    (hi : s.info = true) (hp : s.panicked = none) (hf : s.failOpen = false)
    (hgo : s.gateOpen = false) (hgr : s.gateRead = false) :
    (step s p kn .verifyHeld).1.st.doVerify = false ∧
    ((step s p kn .verifyHeld).1.st.status = .stopped ∨
      (s.stopHang = true ∧ (step s p kn .verifyHeld).1.st.status = .stopping ∧
        (step s p kn .verifyHeld).1.st.stopHang = true)) := by
  rw [status_stopped_iff, status_stopping_iff, step_st]
  have h0 : Life { s with sto := [], mayStart := [], closedDl := [], mayStartI := false } := h.congr (by lframe)
  obtain ⟨a1, a2, a3, a4, a5, a6, a7, a8, a9, a10, a11, a12⟩ :=
    verifyHeld_handle_fields { s with sto := [], mayStart := [], closedDl := [], mayStartI := false } p kn h0 he hi hp
  generalize hm : (handle { s with sto := [], mayStart := [], closedDl := [], mayStartI := false } p kn .verifyHeld) = r at *
  have hlA : Life r.1.1 := by rw [← hm]; exact handle_life _ p kn .verifyHeld h0
  obtain ⟨d1, d2⟩ := alloc_verify_settles 9 r.1 hlA a1 a2 a3 (by rw [a4]; exact hgo) (by rw [a5]; exact hgr) a6 a7
    (by rw [a8]; exact hf) a9
  rw [settle_step _ r.2.2 p.isSome (runWorkers_life 12 _ hlA) (settle_nr d2)]
  refine ⟨d1, ?_⟩
  rcases d2 with d2 | ⟨d2, d3⟩
  · exact Or.inl d2
  · exact Or.inr ⟨a12 ▸ d2, ⟨d3.1, d3.2.1⟩, d3.2.2⟩

theorem verifyHeld_ends_stopped (s : St) (p : Parked) (kn : Nat → Bool) (h : Life s) (he : s.errC = false)
    (hi : s.info = true) (hp : s.panicked = none) (hf : s.failOpen = false)
    (hgo : s.gateOpen = false) (hgr : s.gateRead = false) (hh : s.stopHang = false) :
    (step s p kn .verifyHeld).1.st.status = .stopped ∧ (step s p kn .verifyHeld).1.st.doVerify = false := by
  obtain ⟨h1, h2⟩ := verifyHeld_ends_stopped_or_hangs s p kn h he hi hp hf hgo hgr
  refine ⟨?_, h1⟩
  rcases h2 with h2 | h2
  · exact h2
  · rw [hh] at h2; cases h2.1

end Rain.Loop
