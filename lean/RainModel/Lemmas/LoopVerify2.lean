import RainModel.Lemmas.LoopVerify
/-!
The verify command on a torrent that is **not** stopped: the command stops it; once the stop completes the
pending verify restarts it without its bitfield, the files are re-opened and verified (or found absent: fix
for finding C04-F4), and the torrent is `Stopped` with `doVerify` cleared — all within the same op when no tracker leaves the `stopped` event
unanswered.
-/
namespace Rain.Loop

/-- `stop` never removes a file. -/
theorem stop_someFileExists (s : St) (e : Bool) (h : SomeFileExists s) : SomeFileExists (s.stop e) := by
  rw [stop_eq]
  split
  · exact h
  · unfold SomeFileExists at h ⊢
    simp only [stopRun, stopFin_cfg, stopVer_cfg, stopFin_fileExists, stopVer_fileExists]
    unfold stopAlloc
    split
    · simp only [closeData_cfg, stopWB_cfg, stopClear_cfg, stopPeers_cfg, stopA_cfg,
        closeData_fileExists, stopWB_fileExists, stopClear_fileExists, stopPeers_fileExists, stopA_fileExists]
      rw [List.any_eq_true] at h ⊢
      obtain ⟨f, hf, hfe⟩ := h
      refine ⟨f, hf, ?_⟩
      have hlt : f < s.cfg.flens.length := by
        have := (List.mem_filter.1 hf).1
        simpa using this
      have hfe' : s.fileExists[f]?.getD false = true := by simpa using hfe
      rw [getD_map_range]
      simp [hlt, hfe']
    · simpa using h

/-- While nothing is loaded a write result is stale: it is ignored (fix C04-F9), `doVerify` keeps its value. -/
theorem handlePieceWriteDone_doVerify_unloaded (m : M) (w : WriteJob) (e : Bool) (hl : m.1.loaded = false) :
    (handlePieceWriteDone m w e).1.doVerify = m.1.doVerify := by
  rw [handlePieceWriteDone_eq]
  dsimp only
  split
  · simp
  split
  · simp
  · next hst => simp [hl] at hst

theorem writerRun_doVerify_unloaded (m : M) (w : WriteJob) (hl : m.1.loaded = false) :
    (writerRun m w).1.doVerify = m.1.doVerify := by
  unfold writerRun
  dsimp only
  repeat' split
  all_goals first
    | (rw [handlePieceWriteDone_doVerify_unloaded _ _ _ (by simpa using hl)]; done)
    | (rw [handlePieceWriteDone_doVerify_unloaded _ _ _ (by simpa using hl)]; simp; done)
    | (simp; done)
    | (rename_i hst; simp [hl] at hst)
    | (rename_i hst _; simp [hl] at hst)
    | (rename_i hst _ _; simp [hl] at hst)
    | (rename_i hst _ _ _; simp [hl] at hst)

/-- **A pending verify on a stopping torrent completes.**  Workers' part of an op whose handler left the torrent
`Stopping` with `doVerify` set, every tracker answering, both storage gates released, the metadata known,
no storage failure: the stop announcer reports, `handleStopped` restarts the torrent without its bitfield, the
allocator re-opens the files, the verifier runs, `handleVerificationDone` clears `doVerify` and stops the torrent
(if no file existed the allocation result does, `alloc_verify_settles`), the stop announcer reports again:
stopped. -/
theorem pending_verify_completes (n : Nat) (r : M) (hl : Life r.1) (hpan : r.1.panicked = none)
    (hsa : r.1.stopAnn = true) (hh : r.1.stopHang = false) (hdv : r.1.doVerify = true) (hi : r.1.info = true)
    (hf : r.1.failOpen = false) (hgo : r.1.gateOpen = false) (hgr : r.1.gateRead = false) :
    (runWorkers (n + 4) r).1.errC = false ∧ (runWorkers (n + 4) r).1.doVerify = false := by
  obtain ⟨i1, i2, i3, i4, i5, i6, i7, i8⟩ := hl.idle (Or.inr hsa)
  -- the stop announcer reports: restart for the verify
  have hlS := handleStopped_life r hl hsa
  have a1 : (handleStopped r).1.panicked = none := by
    unfold handleStopped startCore
    simp [hdv, hi, i1, i3, hpan]
  have hS : (handleStopped r).1.stopAnn = false ∧ (handleStopped r).1.allocator = true ∧
      (handleStopped r).1.bf = none ∧ (handleStopped r).1.errC = true := by
    unfold handleStopped startCore
    simp [hdv, hi, i1, i3]
  obtain ⟨a2, a3, a7, a9⟩ := hS
  have a4 : (handleStopped r).1.gateOpen = false := by simpa using hgo
  have a5 : (handleStopped r).1.gateRead = false := by simpa using hgr
  have a6 : (handleStopped r).1.doVerify = true := by simpa using hdv
  have a8 : (handleStopped r).1.failOpen = false := by
    unfold handleStopped startCore; simp only [onSt_fst]; repeat' split
    all_goals simpa using hf
  have a12 : (handleStopped r).1.stopHang = false := by simpa using hh
  -- allocation (→ verification) → stop
  obtain ⟨d1, d2⟩ := alloc_verify_settles n (handleStopped r) hlS a1 a2 a3 a4 a5 a6 a7 a8 a9
  rw [runWorkers_stopped (n + 3) r hpan hsa hh]
  refine ⟨?_, d1⟩
  rcases d2 with d2 | ⟨d2, _⟩
  · exact d2
  · rw [a12] at d2; cases d2

/-- What the handler of `Op.verify` leaves behind on a torrent that is not stopped. -/
theorem verify_running_handle_fields (s : St) (p : Parked) (kn : Nat → Bool) (he : s.errC = true)
    (hp : s.panicked = none) :
    (handle s p kn .verify).1.1.panicked = none ∧ (handle s p kn .verify).1.1.stopAnn = true ∧
    (handle s p kn .verify).1.1.gateOpen = false ∧ (handle s p kn .verify).1.1.gateRead = false ∧
    (handle s p kn .verify).1.1.doVerify = true ∧ (handle s p kn .verify).1.1.failOpen = s.failOpen ∧
    (handle s p kn .verify).1.1.info = s.info ∧ (handle s p kn .verify).1.1.stopHang = s.stopHang ∧
    (SomeFileExists s → SomeFileExists (handle s p kn .verify).1.1) := by
  have hns : ¬ (({ s with persisted := none, doVerify := true } : St).status = .stopped) := by
    rw [status_stopped_iff]; simp [he]
  simp only [handle, onSt_fst]
  unfold handleVerifyCommand
  simp only [onSt_fst]
  rw [if_neg hns]
  simp only [onSt_fst]
  refine ⟨by rw [stop_panicked]; exact hp, stop_stopAnn_of_errC _ _ he, trivial, trivial, by rw [stop_false_doVerify],
    by simp, by simp, by simp, ?_⟩
  intro hex
  have := stop_someFileExists ({ s with persisted := none, doVerify := true }) false hex
  exact this

/-- **verify on a torrent that is not stopped.**  Any status other than `Stopped` (downloading, seeding,
allocating or verifying behind a gate, stopping), metadata known, no storage failure, every tracker answering:
the op ends `Stopped` with `doVerify` cleared (whether or not any file of the torrent exists: fix C04-F4). -/
theorem verify_from_running_ends_stopped (s : St) (p : Parked) (kn : Nat → Bool) (h : Life s) (he : s.errC = true)
    (hi : s.info = true) (hp : s.panicked = none) (hf : s.failOpen = false)
    (hh : s.stopHang = false) :
    (step s p kn .verify).1.st.status = .stopped ∧ (step s p kn .verify).1.st.doVerify = false := by
  rw [status_stopped_iff, step_st]
  have h0 : Life { s with sto := [], mayStart := [], closedDl := [], mayStartI := false } := h.congr (by lframe)
  obtain ⟨a1, a2, a3, a4, a5, a6, a7, a8, a9⟩ :=
    verify_running_handle_fields { s with sto := [], mayStart := [], closedDl := [], mayStartI := false } p kn he hp
  generalize hm : (handle { s with sto := [], mayStart := [], closedDl := [], mayStartI := false } p kn .verify) = r at *
  have hlA : Life r.1.1 := by rw [← hm]; exact handle_life _ p kn .verify h0
  obtain ⟨d1, d2⟩ := pending_verify_completes 8 r.1 hlA a1 a2 (a8.trans hh) a5 (a7.trans hi) (a6.trans hf) a3 a4
  rw [settle_step _ r.2.2 p.isSome (runWorkers_life 12 r.1 hlA) (Or.inl d1)]
  exact ⟨d1, d2⟩

/-- `runWorkers_hangs` without the hypothesis `doVerify = false`: while a tracker hangs the torrent stays
`Stopping` and `doVerify` keeps its value (a pending verify waits for the stop to complete). -/
theorem runWorkers_hangs_dv (fuel : Nat) (m : M) (h : Life m.1) (hs : m.1.stopAnn = true) (hh : m.1.stopHang = true) :
    (runWorkers fuel m).1.errC = true ∧ (runWorkers fuel m).1.stopAnn = true ∧
    (runWorkers fuel m).1.stopHang = true ∧ (runWorkers fuel m).1.doVerify = m.1.doVerify ∧
    Life (runWorkers fuel m).1 := by
  induction fuel generalizing m with
  | zero => exact ⟨h.sa hs, hs, hh, rfl, h⟩
  | succ n ih =>
    obtain ⟨i1, i2, i3, i4, i5, i6, i7, i8⟩ := h.idle (Or.inr hs)
    unfold runWorkers
    dsimp only
    split
    · exact ⟨h.sa hs, hs, hh, rfl, h⟩
    · simp only [hs, hh, i1, i2, Bool.false_eq_true, ↓reduceIte, Bool.false_and, Bool.not_true, Bool.and_false]
      split
      · next w hw =>
        repeat' split
        all_goals first
          | exact ⟨h.sa hs, hs, hh, rfl, h⟩
          | (have := ih (writerRun m w) (writerRun_life m w h) (writerRun_stopAnn_mono m w hs) (by simpa using hh)
             rw [writerRun_doVerify_unloaded m w i3] at this
             simpa using this)
          | (have := ih (handlePieceWriteDone m w false) (handlePieceWriteDone_life m w false h)
               (handlePieceWriteDone_stopAnn_mono m w false hs) (by simpa using hh)
             rw [handlePieceWriteDone_doVerify_unloaded m w false i3] at this
             simpa using this)
      · exact ⟨h.sa hs, hs, hh, rfl, h⟩

/-- **verify on a torrent that is not stopped, general form.**  Without `stopHang = false`: either the op
ends `Stopped` with `doVerify` cleared, or a tracker does not answer the `stopped` event and the torrent is
`Stopping` with the verify still pending (it runs when the stop completes: `Op.waitstop`, or a `start`). -/
theorem verify_from_running_ends_stopped_or_hangs (s : St) (p : Parked) (kn : Nat → Bool) (h : Life s)
    (he : s.errC = true) (hi : s.info = true) (hp : s.panicked = none) (hf : s.failOpen = false) :
    ((step s p kn .verify).1.st.status = .stopped ∧ (step s p kn .verify).1.st.doVerify = false) ∨
    (s.stopHang = true ∧ (step s p kn .verify).1.st.status = .stopping ∧
      (step s p kn .verify).1.st.stopHang = true ∧ (step s p kn .verify).1.st.doVerify = true) := by
  cases hh : s.stopHang
  · exact Or.inl (verify_from_running_ends_stopped s p kn h he hi hp hf hh)
  · refine Or.inr ⟨rfl, ?_⟩
    rw [status_stopping_iff, step_st]
    have h0 : Life { s with sto := [], mayStart := [], closedDl := [], mayStartI := false } := h.congr (by lframe)
    obtain ⟨a1, a2, a3, a4, a5, a6, a7, a8, a9⟩ :=
      verify_running_handle_fields { s with sto := [], mayStart := [], closedDl := [], mayStartI := false } p kn he hp
    generalize hm : (handle { s with sto := [], mayStart := [], closedDl := [], mayStartI := false } p kn .verify) = r at *
    have hlA : Life r.1.1 := by rw [← hm]; exact handle_life _ p kn .verify h0
    obtain ⟨d1, d2, d3, d4, d5⟩ := runWorkers_hangs_dv 12 r.1 hlA a2 (a8.trans hh)
    rw [settle_step _ r.2.2 p.isSome d5 (Or.inr d2)]
    exact ⟨⟨d1, d2⟩, d3, d4.trans a5⟩

/-- … and when the stop timeout passes (`Op.waitstop`) with the storage gates released, the pending verify
runs to the end: `Stopped`, `doVerify` cleared. -/
theorem pending_verify_waitstop (s : St) (p : Parked) (kn : Nat → Bool) (h : Life s)
    (hs : s.stopAnn = true) (hdv : s.doVerify = true) (hi : s.info = true) (hp : s.panicked = none)
    (hf : s.failOpen = false) (hgo : s.gateOpen = false) (hgr : s.gateRead = false) :
    (step s p kn .waitstop).1.st.status = .stopped ∧ (step s p kn .waitstop).1.st.doVerify = false := by
  rw [status_stopped_iff, step_st]
  generalize hm : (handle { s with sto := [], mayStart := [], closedDl := [], mayStartI := false } p kn .waitstop) = r
  have h0 : Life { s with sto := [], mayStart := [], closedDl := [], mayStartI := false } := h.congr (by lframe)
  have hlA : Life r.1.1 := by rw [← hm]; exact handle_life _ p kn .waitstop h0
  obtain ⟨d1, d2⟩ := pending_verify_completes 8 r.1 hlA (by rw [← hm]; exact hp) (by rw [← hm]; exact hs)
    (by rw [← hm]; rfl) (by rw [← hm]; exact hdv) (by rw [← hm]; exact hi) (by rw [← hm]; exact hf)
    (by rw [← hm]; exact hgo) (by rw [← hm]; exact hgr)
  rw [settle_step _ r.2.2 p.isSome (runWorkers_life 12 r.1 hlA) (Or.inl d1)]
  exact ⟨d1, d2⟩

/-! ### `Op.verifyHeld` on a torrent that is not stopped -/

/-- `stop` only ever releases gates. -/
theorem stop_gates_off (s : St) (e : Bool) (ho : s.gateOpen = false) (hr : s.gateRead = false) :
    (s.stop e).gateOpen = false ∧ (s.stop e).gateRead = false := by
  rw [stop_eq]
  split
  · exact ⟨ho, hr⟩
  · constructor
    · simp only [stopRun, stopFin_gateOpen, stopVer_gateOpen]
      unfold stopAlloc
      repeat' split
      all_goals simp [ho]
    · simp only [stopRun, stopFin_gateRead]
      unfold stopVer
      split
      · rfl
      · simp [hr]

/-- As `verify_running_handle_fields`; the gates are not released by the op, so they are hypotheses. -/
theorem verifyHeld_running_handle_fields (s : St) (p : Parked) (kn : Nat → Bool) (he : s.errC = true)
    (hp : s.panicked = none) (hgo : s.gateOpen = false) (hgr : s.gateRead = false) :
    (handle s p kn .verifyHeld).1.1.panicked = none ∧ (handle s p kn .verifyHeld).1.1.stopAnn = true ∧
    (handle s p kn .verifyHeld).1.1.gateOpen = false ∧ (handle s p kn .verifyHeld).1.1.gateRead = false ∧
    (handle s p kn .verifyHeld).1.1.doVerify = true ∧ (handle s p kn .verifyHeld).1.1.failOpen = s.failOpen ∧
    (handle s p kn .verifyHeld).1.1.info = s.info ∧ (handle s p kn .verifyHeld).1.1.stopHang = s.stopHang := by
  have hns : ¬ (({ s with persisted := none, doVerify := true } : St).status = .stopped) := by
    rw [status_stopped_iff]; simp [he]
  simp only [handle]
  unfold handleVerifyCommand
  simp only [onSt_fst]
  rw [if_neg hns]
  simp only [onSt_fst]
  obtain ⟨g1, g2⟩ := stop_gates_off ({ s with persisted := none, doVerify := true }) false hgo hgr
  exact ⟨by rw [stop_panicked]; exact hp, stop_stopAnn_of_errC _ _ he, g1, g2, by rw [stop_false_doVerify], by simp,
    by simp, by simp⟩

/-- `verify_from_running_ends_stopped_or_hangs` for `Op.verifyHeld`, the storage gates being released. -/
theorem verifyHeld_from_running_ends_stopped_or_hangs (s : St) (p : Parked) (kn : Nat → Bool) (h : Life s)
    (he : s.errC = true) (hi : s.info = true) (hp : s.panicked = none) (hf : s.failOpen = false)
    (hgo : s.gateOpen = false) (hgr : s.gateRead = false) :
    ((step s p kn .verifyHeld).1.st.status = .stopped ∧ (step s p kn .verifyHeld).1.st.doVerify = false) ∨
    (s.stopHang = true ∧ (step s p kn .verifyHeld).1.st.status = .stopping ∧
      (step s p kn .verifyHeld).1.st.stopHang = true ∧ (step s p kn .verifyHeld).1.st.doVerify = true) := by
  have h0 : Life { s with sto := [], mayStart := [], closedDl := [], mayStartI := false } := h.congr (by lframe)
  obtain ⟨a1, a2, a3, a4, a5, a6, a7, a8⟩ :=
    verifyHeld_running_handle_fields { s with sto := [], mayStart := [], closedDl := [], mayStartI := false } p kn he hp
      hgo hgr
  cases hh : s.stopHang
  · refine Or.inl ?_
    rw [status_stopped_iff, step_st]
    generalize hm : (handle { s with sto := [], mayStart := [], closedDl := [], mayStartI := false } p kn .verifyHeld) = r at *
    have hlA : Life r.1.1 := by rw [← hm]; exact handle_life _ p kn .verifyHeld h0
    obtain ⟨d1, d2⟩ := pending_verify_completes 8 r.1 hlA a1 a2 (a8.trans hh) a5 (a7.trans hi) (a6.trans hf) a3 a4
    rw [settle_step _ r.2.2 p.isSome (runWorkers_life 12 r.1 hlA) (Or.inl d1)]
    exact ⟨d1, d2⟩
  · refine Or.inr ⟨rfl, ?_⟩
    rw [status_stopping_iff, step_st]
    generalize hm : (handle { s with sto := [], mayStart := [], closedDl := [], mayStartI := false } p kn .verifyHeld) = r at *
    have hlA : Life r.1.1 := by rw [← hm]; exact handle_life _ p kn .verifyHeld h0
    obtain ⟨d1, d2, d3, d4, d5⟩ := runWorkers_hangs_dv 12 r.1 hlA a2 (a8.trans hh)
    rw [settle_step _ r.2.2 p.isSome d5 (Or.inr d2)]
    exact ⟨⟨d1, d2⟩, d3, d4.trans a5⟩

end Rain.Loop
