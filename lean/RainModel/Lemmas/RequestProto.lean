import RainModel.Model.ResourceManager
import RainModel.Lemmas.ResourceManager
/-! Helper lemmas for `request_returns` / `request_accounting` (C08, resource-manager half):
the inductive invariant `wf`, the termination measure and progress of the requester × manager
protocol, by exhaustive case analysis over program counters and channel flags. -/
namespace Rain.RM.Proto
open Rain.RM

/-- `handleRequest` with an answer never reaches its `panic`: the amount is subtracted only when
it fits. -/
theorem handleRequest_no_panic (ms : State) (r : Req) (b : Bool) :
    ∃ ms', handleRequest ms r b = .ok ms' := by
  unfold handleRequest
  cases b with
  | false => exact ⟨ms, rfl⟩
  | true =>
    by_cases ha : acquiredNow ms r = true
    · have : ms.available ≥ r.n := by simpa [acquiredNow] using ha
      have hnp : ¬ (ms.available - r.n < 0) := by omega
      simp [ha, hnp]
    · simp [ha]

theorem wf_start (fixed : Bool) (ms : State) (r : Req) (cc cl : Bool) (hn : 0 ≤ r.n) :
    wf fixed (start ms r cc cl) = true := by
  simp [wf, start, isReturned, hn]

/-- `wf` is an inductive invariant of the protocol (fixed or not). -/
theorem wf_step (fixed : Bool) (s s' : PState) (a : Act) (hw : wf fixed s = true)
    (h : pstep fixed s a = some s') : wf fixed s' = true := by
  obtain ⟨rpc, mpc, r, ms, cc, cl, dc, dr⟩ := s
  cases a <;> simp only [pstep] at h
  case answer =>
    split at h
    · rename_i hc
      obtain ⟨ms', hms⟩ := handleRequest_no_panic ms r true
      simp only [hms] at h
      cases h
      obtain ⟨h1, h2⟩ := hc
      subst h1 h2
      cases fixed <;> cases cc <;> cases cl <;> cases dc <;> cases dr <;> simp_all [wf, isReturned]
    · cases h
  all_goals
    split at h <;>
      first
      | (cases h; done)
      | (cases h; cases rpc <;> cases mpc <;> cases fixed <;> cases cc <;> cases cl <;> cases dc <;> cases dr <;> simp_all [wf, isReturned])

/-- Every step (of the caller, the manager or the environment) strictly decreases `pmeasure`. -/
theorem pmeasure_step (fixed : Bool) (s s' : PState) (a : Act) (h : pstep fixed s a = some s') :
    pmeasure s' < pmeasure s := by
  obtain ⟨rpc, mpc, r, ms, cc, cl, dc, dr⟩ := s
  cases a <;> simp only [pstep] at h
  case answer =>
    split at h
    · rename_i hc
      obtain ⟨ms', hms⟩ := handleRequest_no_panic ms r true
      simp only [hms] at h
      cases h
      obtain ⟨h1, h2⟩ := hc
      subst h1 h2
      simp only [pmeasure]
      cases cc <;> cases cl <;> simp
    · cases h
  all_goals
    split at h <;>
      first
      | (cases h; done)
      | (cases h; cases rpc <;> cases mpc <;> cases cc <;> cases cl <;> simp_all [pmeasure])

/-- Progress for the fixed protocol: while the caller has not returned, a step of the caller or of
the manager is enabled (no state in which the caller waits for something nobody will do). -/
theorem progress_fixed (s : PState) (hw : wf true s = true) (hr : isReturned s.rpc = false) :
    stuck true s = false := by
  obtain ⟨rpc, mpc, r, ms, cc, cl, dc, dr⟩ := s
  obtain ⟨ms', hms⟩ := handleRequest_no_panic ms r true
  cases rpc <;> cases mpc <;> cases cl <;> cases dc <;> cases dr <;> cases cc <;>
    simp_all [stuck, sysActs, pstep, wf, isReturned]

theorem pmeasure_le (s : PState) : pmeasure s ≤ 10 := by
  obtain ⟨rpc, mpc, r, ms, cc, cl, dc, dr⟩ := s
  cases rpc <;> cases mpc <;> cases cc <;> cases cl <;> simp [pmeasure]

theorem prun_wf (fixed : Bool) : ∀ (acts : List Act) (s s' : PState), wf fixed s = true →
    prun fixed s acts = some s' → wf fixed s' = true ∧ acts.length + pmeasure s' ≤ pmeasure s := by
  intro acts
  induction acts with
  | nil => intro s s' hw h; simp [prun] at h; subst h; exact ⟨hw, by simp⟩
  | cons a as ih =>
    intro s s' hw h
    simp only [prun] at h
    cases hs : pstep fixed s a with
    | none => simp [hs] at h
    | some s1 =>
      simp only [hs] at h
      have hw1 := wf_step fixed s s1 a hw hs
      have hm := pmeasure_step fixed s s1 a hs
      obtain ⟨hw', hl⟩ := ih s1 s' hw1 h
      refine ⟨hw', ?_⟩
      simp only [List.length_cons]; omega

/-- What the manager's books say about this request, relative to the state `ms0` at entry. -/
def Booked (ms0 : State) (s : PState) : Prop :=
  match s.rpc with
  | .returned true => acquiredNow ms0 s.r = true ∧ handleRequest ms0 s.r true = .ok s.ms
  | .returned false => s.ms = ms0 ∨ (acquiredNow ms0 s.r = false ∧ handleRequest ms0 s.r true = .ok s.ms)
  | _ => s.ms = ms0

theorem acc_step (fixed : Bool) (ms0 : State) (s s' : PState) (a : Act) (h : Booked ms0 s)
    (hs : pstep fixed s a = some s') : Booked ms0 s' ∧ s'.r = s.r := by
  obtain ⟨rpc, mpc, r, ms, cc, cl, dc, dr⟩ := s
  cases a <;> simp only [pstep] at hs
  case answer =>
    split at hs
    · rename_i hc
      obtain ⟨ms', hms⟩ := handleRequest_no_panic ms r true
      simp only [hms] at hs
      cases hs
      obtain ⟨h1, h2⟩ := hc
      subst h1 h2
      simp only [Booked] at h
      subst h
      refine ⟨?_, rfl⟩
      cases hb : acquiredNow ms r <;> simp [Booked, hb, hms]
    · cases hs
  all_goals
    split at hs <;>
      first
      | (cases hs; done)
      | (cases hs; refine ⟨?_, rfl⟩; cases rpc <;> simp_all [Booked])

end Rain.RM.Proto
