import RainModel.Model.Path
/-!
Helper lemmas about the UTF-8 part of M-PATH: the decoder `runeLen`, `ToValidUTF8` (`toValidAux`),
used for `clean_dotdot_iff` (C07).
-/
namespace Rain.Path


theorem runeLen_le (x : Bytes) : runeLen x ≤ x.length := by
  rcases x with _ | ⟨c0, _ | ⟨c1, _ | ⟨c2, _ | ⟨c3, t⟩⟩⟩⟩ <;>
    (simp only [runeLen, List.length_cons, List.length_nil]; (repeat' split) <;> omega)

theorem runeLen_le4 (x : Bytes) : runeLen x ≤ 4 := by
  rcases x with _ | ⟨c0, _ | ⟨c1, _ | ⟨c2, _ | ⟨c3, t⟩⟩⟩⟩ <;>
    (simp only [runeLen]; (repeat' split) <;> omega)

def R2 (c0 c1 : Nat) : Prop := ¬ c0 < 0x80 ∧ ¬ c0 < 0xC2 ∧ c0 < 0xE0 ∧ isCont c1 = true
def R3 (c0 c1 c2 : Nat) : Prop := ¬ c0 < 0x80 ∧ ¬ c0 < 0xC2 ∧ ¬ c0 < 0xE0 ∧ c0 < 0xF0 ∧
  ((if c0 = 0xE0 then 0xA0 else 0x80) ≤ c1 && c1 ≤ (if c0 = 0xED then 0x9F else 0xBF) && isCont c2) = true
def R4 (c0 c1 c2 c3 : Nat) : Prop := ¬ c0 < 0x80 ∧ ¬ c0 < 0xC2 ∧ ¬ c0 < 0xE0 ∧ ¬ c0 < 0xF0 ∧ c0 < 0xF5 ∧
  ((if c0 = 0xF0 then 0x90 else 0x80) ≤ c1 && c1 ≤ (if c0 = 0xF4 then 0x8F else 0xBF) && isCont c2 && isCont c3) = true

theorem runeLen_ascii (c : Nat) (t : Bytes) (h : c < 0x80) : runeLen (c :: t) = 1 := by
  simp [runeLen, h]
theorem runeLen_R2 (c0 c1 : Nat) (t : Bytes) (h : R2 c0 c1) : runeLen (c0 :: c1 :: t) = 2 := by
  obtain ⟨h1, h2, h3, h4⟩ := h
  simp [runeLen, h1, h2, h3, h4]
theorem runeLen_R3 (c0 c1 c2 : Nat) (t : Bytes) (h : R3 c0 c1 c2) : runeLen (c0 :: c1 :: c2 :: t) = 3 := by
  obtain ⟨h1, h2, h3, h4, h5⟩ := h
  simp only [runeLen, h1, h2, h3, h4, h5, if_true, if_false]
theorem runeLen_R4 (c0 c1 c2 c3 : Nat) (t : Bytes) (h : R4 c0 c1 c2 c3) : runeLen (c0 :: c1 :: c2 :: c3 :: t) = 4 := by
  obtain ⟨h1, h2, h3, h4, h5, h6⟩ := h
  simp only [runeLen, h1, h2, h3, h4, h5, h6, if_true, if_false]

/-- Shape of the input for every non-zero width. -/
theorem runeLen_cases (x : Bytes) :
    runeLen x = 0 ∨
    (∃ c t, x = c :: t ∧ c < 0x80 ∧ runeLen x = 1) ∨
    (∃ c0 c1 t, x = c0 :: c1 :: t ∧ R2 c0 c1 ∧ runeLen x = 2) ∨
    (∃ c0 c1 c2 t, x = c0 :: c1 :: c2 :: t ∧ R3 c0 c1 c2 ∧ runeLen x = 3) ∨
    (∃ c0 c1 c2 c3 t, x = c0 :: c1 :: c2 :: c3 :: t ∧ R4 c0 c1 c2 c3 ∧ runeLen x = 4) := by
  cases x with
  | nil => left; rfl
  | cons c0 t =>
    by_cases h1 : c0 < 0x80
    · right; left; exact ⟨c0, t, rfl, h1, runeLen_ascii c0 t h1⟩
    by_cases h2 : c0 < 0xC2
    · left; simp [runeLen, h1, h2]
    by_cases h3 : c0 < 0xE0
    · cases t with
      | nil => left; simp [runeLen, h1, h2, h3]
      | cons c1 t1 =>
        by_cases hc : isCont c1 = true
        · right; right; left
          exact ⟨c0, c1, t1, rfl, ⟨h1, h2, h3, hc⟩, runeLen_R2 c0 c1 t1 ⟨h1, h2, h3, hc⟩⟩
        · left; simp [runeLen, h1, h2, h3, hc]
    by_cases h4 : c0 < 0xF0
    · rcases t with _ | ⟨c1, _ | ⟨c2, t2⟩⟩
      · left; simp [runeLen, h1, h2, h3, h4]
      · left; simp [runeLen, h1, h2, h3, h4]
      · by_cases hc : ((if c0 = 0xE0 then 0xA0 else 0x80) ≤ c1 && c1 ≤ (if c0 = 0xED then 0x9F else 0xBF) && isCont c2) = true
        · right; right; right; left
          exact ⟨c0, c1, c2, t2, rfl, ⟨h1, h2, h3, h4, hc⟩, runeLen_R3 c0 c1 c2 t2 ⟨h1, h2, h3, h4, hc⟩⟩
        · left; simp only [runeLen, h1, h2, h3, h4, hc, if_false]; simp
    by_cases h5 : c0 < 0xF5
    · rcases t with _ | ⟨c1, _ | ⟨c2, _ | ⟨c3, t3⟩⟩⟩
      · left; simp [runeLen, h1, h2, h3, h4, h5]
      · left; simp [runeLen, h1, h2, h3, h4, h5]
      · left; simp [runeLen, h1, h2, h3, h4, h5]
      · by_cases hc : ((if c0 = 0xF0 then 0x90 else 0x80) ≤ c1 && c1 ≤ (if c0 = 0xF4 then 0x8F else 0xBF) && isCont c2 && isCont c3) = true
        · right; right; right; right
          exact ⟨c0, c1, c2, c3, t3, rfl, ⟨h1, h2, h3, h4, h5, hc⟩, runeLen_R4 c0 c1 c2 c3 t3 ⟨h1, h2, h3, h4, h5, hc⟩⟩
        · left; simp only [runeLen, h1, h2, h3, h4, h5, hc, if_false]; simp
    · left; simp [runeLen, h1, h2, h3, h4, h5]

theorem runeLen_prefix (x y : Bytes) (hw : runeLen x ≠ 0) :
    runeLen (x.take (runeLen x) ++ y) = runeLen x := by
  rcases runeLen_cases x with h | ⟨c, t, rfl, hc, hr⟩ | ⟨c0, c1, t, rfl, hR, hr⟩ | ⟨c0, c1, c2, t, rfl, hR, hr⟩ | ⟨c0, c1, c2, c3, t, rfl, hR, hr⟩
  · exact absurd h hw
  · rw [hr]; simp [runeLen_ascii _ _ hc]
  · rw [hr]; simp [runeLen_R2 _ _ _ hR]
  · rw [hr]; simp [runeLen_R3 _ _ _ _ hR]
  · rw [hr]; simp [runeLen_R4 _ _ _ _ _ hR]



theorem isCont_ascii (a : Nat) (h : a < 0x80) : isCont a = false := by
  simp [isCont]; omega

theorem runeLen_append_ascii (p q : Bytes) (a : Nat) (ha : a < 0x80) (hp : p ≠ []) :
    runeLen (p ++ a :: q) = runeLen p := by
  have hc := isCont_ascii a ha
  rcases p with _ | ⟨c0, _ | ⟨c1, _ | ⟨c2, _ | ⟨c3, t⟩⟩⟩⟩
  · exact absurd rfl hp
  · simp only [List.cons_append, List.nil_append, runeLen, hc]
    have h1 : (decide ((if c0 = 224 then 160 else 128) ≤ a)) = false := by
      simp; split <;> omega
    have h2 : (decide ((if c0 = 240 then 144 else 128) ≤ a)) = false := by
      simp; split <;> omega
    cases q with
    | nil => simp
    | cons q0 q1 =>
      cases q1 with
      | nil => simp [h1]
      | cons q2 q3 => simp [h1, h2]
  · simp only [List.cons_append, List.nil_append, runeLen, hc]
    cases q with
    | nil => simp
    | cons q0 q1 => simp [hc]
  · simp only [List.cons_append, List.nil_append, runeLen, hc]
    simp
  · simp only [List.cons_append, runeLen]



theorem toValidAux_nil (r : Bytes) (f : Nat) (inv : Bool) : toValidAux r f inv [] = [] := by
  cases f <;> rfl

theorem toValidAux_fuel (r : Bytes) : ∀ (f1 f2 : Nat) (inv : Bool) (x : Bytes),
    x.length ≤ f1 → x.length ≤ f2 → toValidAux r f1 inv x = toValidAux r f2 inv x := by
  intro f1
  induction f1 with
  | zero =>
    intro f2 inv x h1 _
    have : x = [] := by cases x <;> simp_all
    subst this
    rw [toValidAux_nil, toValidAux_nil]
  | succ f1 ih =>
    intro f2 inv x h1 h2
    cases x with
    | nil => rw [toValidAux_nil, toValidAux_nil]
    | cons c rest =>
      cases f2 with
      | zero => simp at h2
      | succ f2 =>
        simp only [List.length_cons, Nat.add_le_add_iff_right] at h1 h2
        simp only [toValidAux]
        split
        · rw [ih f2 false rest h1 h2]
        · split
          · rw [ih f2 true rest h1 h2]
          · have hl : ((c :: rest).drop (runeLen (c :: rest))).length ≤ rest.length := by
              simp only [List.length_drop, List.length_cons]; omega
            rw [ih f2 false _ (by omega) (by omega)]

/-- `ToValidUTF8` with the natural fuel. -/
def V (r : Bytes) (inv : Bool) (x : Bytes) : Bytes := toValidAux r x.length inv x

theorem V_nil (r inv) : V r inv [] = [] := rfl

theorem V_ascii (r : Bytes) (inv : Bool) (c : Nat) (rest : Bytes) (h : c < 0x80) :
    V r inv (c :: rest) = c :: V r false rest := by
  simp [V, toValidAux, h]

theorem V_invalid (r : Bytes) (inv : Bool) (c : Nat) (rest : Bytes) (h : ¬ c < 0x80)
    (hw : runeLen (c :: rest) = 0) :
    V r inv (c :: rest) = (if inv then [] else r) ++ V r true rest := by
  simp [V, toValidAux, h, hw]

theorem V_rune (r : Bytes) (inv : Bool) (c : Nat) (rest : Bytes) (h : ¬ c < 0x80)
    (hw : runeLen (c :: rest) ≠ 0) :
    V r inv (c :: rest) = (c :: rest).take (runeLen (c :: rest)) ++ V r false ((c :: rest).drop (runeLen (c :: rest))) := by
  simp only [V, List.length_cons, toValidAux, h, if_false, hw]
  congr 1
  apply toValidAux_fuel
  · simp only [List.length_drop, List.length_cons]; omega
  · exact Nat.le_refl _


/-! ### chunks -/

/-- A well-formed sequence at the head is copied, whatever follows. -/
theorem V_chunk (r : Bytes) (inv : Bool) (s X : Bytes) (hw : runeLen s ≠ 0) :
    V r inv (s.take (runeLen s) ++ X) = s.take (runeLen s) ++ V r false X := by
  have hle := runeLen_le s
  cases s with
  | nil => simp [runeLen] at hw
  | cons c rest =>
    have hpre := runeLen_prefix (c :: rest) X hw
    have htake : (c :: rest).take (runeLen (c :: rest)) = c :: rest.take (runeLen (c :: rest) - 1) := by
      cases hr : runeLen (c :: rest) with
      | zero => exact absurd hr hw
      | succ n => simp
    rw [htake] at hpre ⊢
    simp only [List.cons_append] at hpre ⊢
    by_cases hc : c < 0x80
    · have h1 : runeLen (c :: rest) = 1 := runeLen_ascii c rest hc
      rw [h1]
      simp only [Nat.sub_self, List.take_zero, List.nil_append]
      exact V_ascii r inv c X hc
    · rw [V_rune r inv c _ hc (by rw [hpre]; exact hw), hpre]
      have hlen : (c :: rest.take (runeLen (c :: rest) - 1)).length = runeLen (c :: rest) := by
        simp only [List.length_cons, List.length_take]
        simp only [List.length_cons] at hle
        omega
      have e1 : (c :: (rest.take (runeLen (c :: rest) - 1) ++ X)).take (runeLen (c :: rest))
          = c :: rest.take (runeLen (c :: rest) - 1) := by
        have := List.take_left' (l₁ := c :: rest.take (runeLen (c :: rest) - 1)) (l₂ := X) hlen
        simpa using this
      have e2 : (c :: (rest.take (runeLen (c :: rest) - 1) ++ X)).drop (runeLen (c :: rest)) = X := by
        have := List.drop_left' (l₁ := c :: rest.take (runeLen (c :: rest) - 1)) (l₂ := X) hlen
        simpa using this
      rw [e1, e2]
      rfl

theorem runeLen_replacement (X : Bytes) : runeLen (replacementChar ++ X) = 3 := by
  simp [replacementChar, runeLen, isCont]

theorem V_replacement (r : Bytes) (inv : Bool) (X : Bytes) :
    V r inv (replacementChar ++ X) = replacementChar ++ V r false X := by
  have h := V_chunk r inv (replacementChar ++ X) X (by rw [runeLen_replacement]; decide)
  rw [runeLen_replacement] at h
  simpa [replacementChar] using h

/-! ### idempotence: the output of `ToValidUTF8` is valid -/

theorem V_idem_aux (n : Nat) : ∀ (s : Bytes) (inv : Bool), s.length ≤ n →
    V [] false (V replacementChar inv s) = V replacementChar inv s := by
  induction n with
  | zero =>
    intro s inv h
    have : s = [] := by cases s <;> simp_all
    subst this; rfl
  | succ n ih =>
    intro s inv h
    cases s with
    | nil => rfl
    | cons c rest =>
      simp only [List.length_cons, Nat.add_le_add_iff_right] at h
      by_cases hc : c < 0x80
      · rw [V_ascii _ _ _ _ hc, V_ascii _ _ _ _ hc, ih rest false h]
      · by_cases hw : runeLen (c :: rest) = 0
        · rw [V_invalid _ _ _ _ hc hw]
          cases inv with
          | true => simpa using ih rest true h
          | false =>
            simp only [Bool.false_eq_true, if_false]
            rw [V_replacement, ih rest true h]
        · rw [V_rune _ _ _ _ hc hw, V_chunk _ _ _ _ hw]
          have hl : ((c :: rest).drop (runeLen (c :: rest))).length ≤ n := by
            simp only [List.length_drop, List.length_cons]; omega
          rw [ih _ false hl]

/-- `ToValidUTF8(ToValidUTF8(s, "\uFFFD"), "")` is the identity on the repaired string. -/
theorem V_idem (s : Bytes) (inv : Bool) :
    V [] false (V replacementChar inv s) = V replacementChar inv s :=
  V_idem_aux s.length s inv (Nat.le_refl _)

/-! ### an all-ASCII output comes from an identical input -/

theorem V_ascii_output (s : Bytes) (h : ∀ b ∈ V replacementChar false s, b < 0x80) :
    V replacementChar false s = s := by
  induction s with
  | nil => rfl
  | cons c rest ih =>
    by_cases hc : c < 0x80
    · rw [V_ascii _ _ _ _ hc] at h ⊢
      rw [ih (fun b hb => h b (by simp [hb]))]
    · exfalso
      by_cases hw : runeLen (c :: rest) = 0
      · rw [V_invalid _ _ _ _ hc hw] at h
        have := h 0xEF (by simp [replacementChar])
        omega
      · rw [V_rune _ _ _ _ hc hw] at h
        have hm : c ∈ (c :: rest).take (runeLen (c :: rest)) := by
          cases hr : runeLen (c :: rest) with
          | zero => exact absurd hr hw
          | succ n => simp
        exact hc (h c (List.mem_append.mpr (Or.inl hm)))

/-! ### length, validity steps -/

theorem V_length_le_aux (n : Nat) : ∀ (x : Bytes) (inv : Bool), x.length ≤ n → (V [] inv x).length ≤ x.length := by
  induction n with
  | zero =>
    intro x inv h
    have : x = [] := by cases x <;> simp_all
    subst this; simp [V_nil]
  | succ n ih =>
    intro x inv h
    cases x with
    | nil => simp [V_nil]
    | cons c rest =>
      simp only [List.length_cons, Nat.add_le_add_iff_right] at h
      by_cases hc : c < 0x80
      · rw [V_ascii _ _ _ _ hc]; simp only [List.length_cons]; have := ih rest false h; omega
      · by_cases hw : runeLen (c :: rest) = 0
        · rw [V_invalid _ _ _ _ hc hw]
          have := ih rest true h
          simp only [List.length_cons]
          split <;> simp <;> omega
        · rw [V_rune _ _ _ _ hc hw]
          have hl : ((c :: rest).drop (runeLen (c :: rest))).length ≤ n := by
            simp only [List.length_drop, List.length_cons]; omega
          have := ih _ false hl
          have hle := runeLen_le (c :: rest)
          simp only [List.length_append, List.length_take, List.length_drop, List.length_cons] at this hle ⊢
          omega

theorem V_length_le (x : Bytes) (inv : Bool) : (V [] inv x).length ≤ x.length :=
  V_length_le_aux x.length x inv (Nat.le_refl _)

/-- Fixed points of `ToValidUTF8(·, "")` = valid UTF-8 strings. -/
def ValidU (u : Bytes) : Prop := V [] false u = u

/-- A non-empty valid string starts with a well-formed sequence, and the rest is valid. -/
theorem ValidU_step (u : Bytes) (hu : ValidU u) (hne : u ≠ []) :
    runeLen u ≠ 0 ∧ ValidU (u.drop (runeLen u)) := by
  cases u with
  | nil => exact absurd rfl hne
  | cons c rest =>
    unfold ValidU at hu ⊢
    by_cases hc : c < 0x80
    · have h1 := runeLen_ascii c rest hc
      rw [V_ascii _ _ _ _ hc] at hu
      rw [h1]
      exact ⟨by decide, by simpa using hu⟩
    · by_cases hw : runeLen (c :: rest) = 0
      · exfalso
        rw [V_invalid _ _ _ _ hc hw] at hu
        have := V_length_le rest true
        have hl := congrArg List.length hu
        simp at hl
        omega
      · refine ⟨hw, ?_⟩
        rw [V_rune _ _ _ _ hc hw] at hu
        have : (c :: rest).take (runeLen (c :: rest)) ++ V [] false ((c :: rest).drop (runeLen (c :: rest)))
            = (c :: rest).take (runeLen (c :: rest)) ++ (c :: rest).drop (runeLen (c :: rest)) := by
          rw [hu, List.take_append_drop]
        exact List.append_cancel_left this

/-- After a cut at `k ≥ 4n` bytes of a valid string at least `n` bytes survive the second repair,
whatever is appended. -/
theorem V_take_length (n : Nat) : ∀ (k : Nat) (u y : Bytes) (inv : Bool), ValidU u → k ≤ u.length → 4 * n ≤ k →
    n ≤ (V [] inv (u.take k ++ y)).length := by
  induction n with
  | zero => intros; omega
  | succ n ih =>
    intro k u y inv hu hk hn
    have hne : u ≠ [] := by intro e; subst e; simp at hk; omega
    obtain ⟨hw, hv⟩ := ValidU_step u hu hne
    have hw4 := runeLen_le4 u
    have hwl := runeLen_le u
    have hsplit : u.take k = u.take (runeLen u) ++ (u.drop (runeLen u)).take (k - runeLen u) := by
      have : k = runeLen u + (k - runeLen u) := by omega
      rw [this, List.take_add]
      simp
    rw [hsplit, List.append_assoc, V_chunk _ _ _ _ hw]
    have := ih (k - runeLen u) (u.drop (runeLen u)) y false hv (by simp only [List.length_drop]; omega) (by omega)
    simp only [List.length_append, List.length_take]
    omega

/-! ### splitting at an ASCII byte -/

theorem V_split_aux (r : Bytes) (a : Nat) (y : Bytes) (ha : a < 0x80) (n : Nat) :
    ∀ (x : Bytes) (inv : Bool), x.length ≤ n → V r inv (x ++ a :: y) = V r inv x ++ a :: V r false y := by
  induction n with
  | zero =>
    intro x inv h
    have : x = [] := by cases x <;> simp_all
    subst this
    simp [V_nil, V_ascii _ _ _ _ ha]
  | succ n ih =>
    intro x inv h
    cases x with
    | nil => simp [V_nil, V_ascii _ _ _ _ ha]
    | cons c x' =>
      simp only [List.length_cons, Nat.add_le_add_iff_right] at h
      simp only [List.cons_append]
      by_cases hc : c < 0x80
      · rw [V_ascii _ _ _ _ hc, V_ascii _ _ _ _ hc, ih x' false h]; rfl
      · have hrl : runeLen (c :: (x' ++ a :: y)) = runeLen (c :: x') := by
          have := runeLen_append_ascii (c :: x') y a ha (by simp)
          simpa using this
        by_cases hw : runeLen (c :: x') = 0
        · rw [V_invalid _ _ _ _ hc (by rw [hrl]; exact hw), V_invalid _ _ _ _ hc hw, ih x' true h]
          simp
        · rw [V_rune _ _ _ _ hc (by rw [hrl]; exact hw), V_rune _ _ _ _ hc hw, hrl]
          have hle := runeLen_le (c :: x')
          have e1 : (c :: (x' ++ a :: y)).take (runeLen (c :: x')) = (c :: x').take (runeLen (c :: x')) := by
            have := List.take_append_of_le_length (l₁ := c :: x') (l₂ := a :: y) hle
            simpa using this
          have e2 : (c :: (x' ++ a :: y)).drop (runeLen (c :: x')) = (c :: x').drop (runeLen (c :: x')) ++ a :: y := by
            have := List.drop_append_of_le_length (l₁ := c :: x') (l₂ := a :: y) hle
            simpa using this
          rw [e1, e2]
          have hl : ((c :: x').drop (runeLen (c :: x'))).length ≤ n := by
            simp only [List.length_drop, List.length_cons]; omega
          rw [ih _ false hl]
          simp

theorem V_split (r : Bytes) (inv : Bool) (x y : Bytes) (a : Nat) (ha : a < 0x80) :
    V r inv (x ++ a :: y) = V r inv x ++ a :: V r false y :=
  V_split_aux r a y ha x.length x inv (Nat.le_refl _)

/-- A suffix of a valid string that starts right after an ASCII byte is valid. -/
theorem ValidU_suffix (pre y : Bytes) (a : Nat) (ha : a < 0x80) (h : ValidU (pre ++ a :: y)) : ValidU y := by
  unfold ValidU at h ⊢
  rw [V_split _ _ _ _ _ ha] at h
  have h1 := V_length_le pre false
  have h2 := V_length_le y false
  have hl := congrArg List.length h
  simp only [List.length_append, List.length_cons] at hl
  have hlen : (V [] false pre).length = pre.length := by omega
  have := (List.append_inj h hlen).2
  exact (List.cons.inj this).2

/-! ### `path.Ext` -/

theorem extAux_spec (l acc : Bytes) :
    extAux l acc = [] ∨ ∃ pre e, extAux l acc = DOT :: e ∧ l.reverse ++ acc = pre ++ DOT :: e := by
  induction l generalizing acc with
  | nil => left; rfl
  | cons c rest ih =>
    unfold extAux
    by_cases h1 : c = SLASH
    · left; simp [h1]
    · by_cases h2 : c = DOT
      · right
        subst h2
        refine ⟨rest.reverse, acc, by simp [show ¬ DOT = SLASH by decide], by simp⟩
      · simp only [h1, h2, if_false]
        rcases ih (c :: acc) with h | ⟨pre, e, he, hs⟩
        · left; exact h
        · right; exact ⟨pre, e, he, by simpa using hs⟩

theorem pathExt_spec (u : Bytes) :
    pathExt u = [] ∨ ∃ pre e, pathExt u = DOT :: e ∧ u = pre ++ DOT :: e := by
  unfold pathExt
  rcases extAux_spec u.reverse [] with h | ⟨pre, e, he, hs⟩
  · left; exact h
  · right; exact ⟨pre, e, he, by simpa using hs⟩

/-! ### `cleanName` never manufactures an empty name, `.` or `..` -/

theorem toValidUTF8_eq_V (s r : Bytes) : toValidUTF8 s r = V r false s := rfl

theorem replaceSeparator_length (u : Bytes) : (replaceSeparator u).length = u.length := by
  simp [replaceSeparator]

theorem cleanName_short (s : Bytes) (h : (toValidUTF8 s replacementChar).length ≤ 255) :
    cleanName s = replaceSeparator (toValidUTF8 s replacementChar) := by
  unfold cleanName cleanNameN
  simp only
  have : trimName (toValidUTF8 s replacementChar) 255 = toValidUTF8 s replacementChar := by
    unfold trimName; simp [h]
  rw [this, toValidUTF8_eq_V, toValidUTF8_eq_V, V_idem]

theorem cleanName_long (s : Bytes) (h : 255 < (toValidUTF8 s replacementChar).length) :
    3 ≤ (cleanName s).length := by
  unfold cleanName cleanNameN
  simp only
  rw [replaceSeparator_length]
  have hu : ValidU (toValidUTF8 s replacementChar) := V_idem s false
  generalize toValidUTF8 s replacementChar = u at h hu
  rw [toValidUTF8_eq_V]
  unfold trimName
  have h1 : ¬ u.length ≤ 255 := by omega
  simp only [h1, if_false]
  split
  · -- extension longer than the limit: a plain cut
    have := V_take_length 3 255 u [] false hu (by omega) (by omega)
    simpa using this
  · rename_i hext
    by_cases hsmall : (pathExt u).length ≤ 243
    · exact V_take_length 3 (255 - (pathExt u).length) u (pathExt u) false hu (by omega) (by omega)
    · rcases pathExt_spec u with he | ⟨pre, e, he, hsplit⟩
      · rw [he] at hsmall; simp at hsmall
      · have hdot : DOT < 0x80 := by decide
        have hve : ValidU e := by
          have hu' := hu
          rw [hsplit] at hu'
          exact ValidU_suffix pre e DOT hdot hu'
        rw [he, V_split _ _ _ _ _ hdot]
        unfold ValidU at hve
        rw [hve]
        have : (pathExt u).length = e.length + 1 := by rw [he]; simp
        simp only [List.length_append, List.length_cons]
        omega

theorem replaceSeparator_special (u : Bytes) :
    (replaceSeparator u = [] → u = []) ∧ (replaceSeparator u = dot → u = dot) ∧
    (replaceSeparator u = dotdot → u = dotdot) := by
  unfold replaceSeparator
  refine ⟨?_, ?_, ?_⟩
  · intro e; simpa using e
  · intro e
    cases u with
    | nil => simp [dot] at e
    | cons b r =>
      cases r with
      | cons _ _ => simp [dot] at e
      | nil =>
        simp only [List.map_cons, List.map_nil, dot, List.cons.injEq, and_true] at e
        split at e
        · simp [UNDERSCORE] at e
        · rw [e]; rfl
  · intro e
    cases u with
    | nil => simp [dotdot] at e
    | cons a r =>
      cases r with
      | nil => simp [dotdot] at e
      | cons b r' =>
        cases r' with
        | cons _ _ => simp [dotdot] at e
        | nil =>
          simp only [List.map_cons, List.map_nil, dotdot, List.cons.injEq, and_true] at e
          obtain ⟨e1, e2⟩ := e
          split at e1
          · simp [UNDERSCORE] at e1
          · split at e2
            · simp [UNDERSCORE] at e2
            · rw [e1, e2]; rfl

/-- The three facts `join_confined` needs about `cleanName`, for every byte string. -/
theorem cleanName_special (s : Bytes) :
    (cleanName s = [] → s = []) ∧ (cleanName s = dot → s = dot) ∧ (cleanName s = dotdot → s = dotdot) := by
  have key : ∀ t : Bytes, t.length ≤ 2 → (∀ b ∈ t, b < 0x80) →
      (∀ u, replaceSeparator u = t → u = t) → cleanName s = t → s = t := by
    intro t hl hasc hrep hc
    by_cases hlong : 255 < (toValidUTF8 s replacementChar).length
    · have := cleanName_long s hlong
      rw [hc] at this; omega
    · rw [cleanName_short s (by omega)] at hc
      have hu := hrep _ hc
      rw [toValidUTF8_eq_V] at hu
      have := V_ascii_output s (by rw [hu]; exact hasc)
      rw [← this, hu]
  refine ⟨?_, ?_, ?_⟩
  · exact key [] (by simp) (by simp) (fun u => (replaceSeparator_special u).1)
  · exact key dot (by simp [dot]) (by simp [dot]) (fun u => (replaceSeparator_special u).2.1)
  · exact key dotdot (by simp [dotdot]) (by simp [dotdot]) (fun u => (replaceSeparator_special u).2.2)

end Rain.Path
