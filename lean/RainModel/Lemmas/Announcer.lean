import RainModel.Model.Announcer
/-! Invariants of the announcer event machine (`Model/Announcer`).  The step lemmas are proved by
splitting `stepWith` into its branches (one per `case` of the Go `select`, one per `if`). -/
set_option linter.unusedSimpArgs false
namespace Rain.Announcer

/-! ### shape of one step -/

/-- Once started (or closed) an announcer stays so. -/
theorem step_started (store : Int → Int → Int) (c : Cfg) (s : St) (now : Int) (i : In)
    (h : s.running ∨ s.closed) :
    (stepWith store c s now i).1.running ∨ (stepWith store c s now i).1.closed := by
  cases i <;> simp only [stepWith] <;> (repeat' split) <;> simp_all [doAnnounce, resetTimer, onResponse]

/-- After `start`, only `none` and `completed` announces are emitted. -/
theorem step_started_ev (store : Int → Int → Int) (c : Cfg) (s : St) (now : Int) (i : In)
    (h : s.running ∨ s.closed) :
    ∀ a ∈ (stepWith store c s now i).2, a.ev = .none ∨ a.ev = .completed := by
  cases i <;> simp only [stepWith] <;> (repeat' split) <;> simp_all [doAnnounce, resetTimer, onResponse]

/-- Before `start` nothing happens: the state stays fresh, or `start` is taken and `started` goes out. -/
theorem step_fresh (store : Int → Int → Int) (c : Cfg) (s : St) (now : Int) (i : In)
    (h : ¬ s.running ∧ ¬ s.closed) :
    ((stepWith store c s now i).2 = [] ∧ ¬ (stepWith store c s now i).1.running ∧ ¬ (stepWith store c s now i).1.closed) ∨
    ((∃ a, (stepWith store c s now i).2 = [a] ∧ a.ev = .started) ∧ (stepWith store c s now i).1.running) := by
  cases i <;> simp only [stepWith] <;> (repeat' split) <;> simp_all [doAnnounce, resetTimer, onResponse]

theorem run_started_ev (store : Int → Int → Int) (c : Cfg) (tr : List (Int × In)) (s : St)
    (h : s.running ∨ s.closed) :
    ∀ a ∈ (runWith store c s tr).2, a.ev = .none ∨ a.ev = .completed := by
  induction tr generalizing s with
  | nil => intro a ha; simp [runWith] at ha
  | cons p rest ih =>
    obtain ⟨now, i⟩ := p
    intro a ha
    simp only [runWith, List.mem_append] at ha
    rcases ha with ha | ha
    · exact step_started_ev store c s now i h a ha
    · exact ih _ (step_started store c s now i h) a ha

/-- From a fresh announcer: nothing is sent, or the first announce is `started` and no later one is. -/
theorem run_fresh (store : Int → Int → Int) (c : Cfg) (tr : List (Int × In)) (s : St)
    (h : ¬ s.running ∧ ¬ s.closed) :
    (runWith store c s tr).2 = [] ∨
    ∃ a rest, (runWith store c s tr).2 = a :: rest ∧ a.ev = .started ∧
      ∀ b ∈ rest, b.ev = .none ∨ b.ev = .completed := by
  induction tr generalizing s with
  | nil => left; simp [runWith]
  | cons p rest ih =>
    obtain ⟨now, i⟩ := p
    simp only [runWith]
    rcases step_fresh store c s now i h with ⟨h0, h1, h2⟩ | ⟨⟨a, ha, hev⟩, hrun⟩
    · rw [h0]
      simpa using ih _ ⟨h1, h2⟩
    · right
      refine ⟨a, (runWith store c (stepWith store c s now i).1 rest).2, by rw [ha]; rfl, hev, ?_⟩
      exact run_started_ev store c rest _ (Or.inl hrun)

/-! ### `completed` at most once -/

def countC (l : List Ann) : Nat := (l.filter (fun a => a.ev = .completed)).length

theorem countC_append (a b : List Ann) : countC (a ++ b) = countC a + countC b := by
  simp [countC, List.filter_append]

/-- `completedC` is never re-armed, and a `completed` announce disarms it. -/
theorem step_completed (store : Int → Int → Int) (c : Cfg) (s : St) (now : Int) (i : In) :
    (if s.completedArmed then
      countC (stepWith store c s now i).2 = 0 ∨
      (countC (stepWith store c s now i).2 = 1 ∧ (stepWith store c s now i).1.completedArmed = false ∧ i = .completed)
     else
      countC (stepWith store c s now i).2 = 0 ∧ (stepWith store c s now i).1.completedArmed = false) := by
  cases i <;> simp only [stepWith] <;> (repeat' split) <;> simp_all [doAnnounce, resetTimer, onResponse, countC]

theorem run_completed (store : Int → Int → Int) (c : Cfg) (tr : List (Int × In)) (s : St) :
    countC (runWith store c s tr).2 ≤ (if s.completedArmed then 1 else 0) := by
  induction tr generalizing s with
  | nil => simp [runWith, countC]
  | cons p rest ih =>
    obtain ⟨now, i⟩ := p
    simp only [runWith, countC_append]
    have hs := step_completed store c s now i
    have hr := ih (stepWith store c s now i).1
    cases hA : s.completedArmed
    · simp [hA] at hs
      rw [hs.2] at hr
      simp at hr ⊢
      omega
    · simp only [hA, if_true] at hs
      rcases hs with h0 | ⟨h1, hd, _⟩
      · have : countC (runWith store c (stepWith store c s now i).1 rest).2 ≤ 1 := by
          split at hr <;> omega
        simp; omega
      · rw [hd] at hr
        simp at hr ⊢
        omega

theorem run_no_completed_input (store : Int → Int → Int) (c : Cfg) (tr : List (Int × In)) (s : St)
    (h : ∀ p ∈ tr, p.2 ≠ .completed) : countC (runWith store c s tr).2 = 0 := by
  induction tr generalizing s with
  | nil => simp [runWith, countC]
  | cons p rest ih =>
    obtain ⟨now, i⟩ := p
    simp only [runWith, countC_append]
    have hi : i ≠ .completed := h (now, i) (by simp)
    have hr := ih (stepWith store c s now i).1 (fun p hp => h p (by simp [hp]))
    have hs := step_completed store c s now i
    cases hA : s.completedArmed
    · simp [hA] at hs; omega
    · simp only [hA, if_true] at hs
      rcases hs with h0 | ⟨_, _, hc⟩
      · omega
      · exact absurd hc hi

/-! ### `HasAnnounced` needs a reply -/

theorem step_hasAnnounced (store : Int → Int → Int) (c : Cfg) (s : St) (now : Int) (i : In)
    (h : (stepWith store c s now i).1.hasAnnounced = true) :
    s.hasAnnounced = true ∨ (s.running ∧ ∃ iv mi, i = .response iv mi) := by
  cases i <;> simp only [stepWith] at h <;> (repeat' split at h) <;> simp_all [doAnnounce, resetTimer, onResponse]

theorem run_hasAnnounced (store : Int → Int → Int) (c : Cfg) (tr : List (Int × In)) (s : St)
    (h : (runWith store c s tr).1.hasAnnounced = true) :
    s.hasAnnounced = true ∨ ∃ p ∈ tr, ∃ iv mi, p.2 = .response iv mi := by
  induction tr generalizing s with
  | nil => left; simpa [runWith] using h
  | cons p rest ih =>
    obtain ⟨now, i⟩ := p
    simp only [runWith] at h
    rcases ih _ h with h1 | ⟨q, hq, hx⟩
    · rcases step_hasAnnounced store c s now i h1 with h2 | ⟨_, iv, mi, hi⟩
      · exact Or.inl h2
      · exact Or.inr ⟨(now, i), by simp, iv, mi, hi⟩
    · exact Or.inr ⟨q, by simp [hq], hx⟩

/-! ### the interval floor -/

theorem FloorFor_clientMin (c : Cfg) (fl : Int) (tr : List (Int × In)) (h : FloorFor c fl tr) :
    fl ≤ c.clientMin := by
  induction tr with
  | nil => exact h
  | cons p rest ih =>
    obtain ⟨now, i⟩ := p
    cases i <;> simp only [FloorFor] at h <;> first | exact ih h | exact ih h.2.2

theorem FloorFor_tail (c : Cfg) (fl : Int) (p : Int × In) (rest : List (Int × In))
    (h : FloorFor c fl (p :: rest)) : FloorFor c fl rest := by
  obtain ⟨now, i⟩ := p
  cases i <;> simp only [FloorFor] at h <;> first | exact h | exact h.2.2

theorem FloorFor_mono (c : Cfg) (fl fl' : Int) (tr : List (Int × In)) (hle : fl' ≤ fl)
    (h : FloorFor c fl tr) : FloorFor c fl' tr := by
  induction tr with
  | nil => simp only [FloorFor] at h ⊢; omega
  | cons p rest ih =>
    obtain ⟨now, i⟩ := p
    cases i <;> simp only [FloorFor] at h ⊢ <;> first | exact ih h | skip
    exact ⟨fun h0 => by have := h.1 h0; omega, fun h0 => by have := h.2.1 h0; omega, ih h.2.2⟩

theorem floorOf_FloorFor (c : Cfg) (tr : List (Int × In)) : FloorFor c (floorOf c tr) tr := by
  induction tr with
  | nil => simp [FloorFor, floorOf]
  | cons p rest ih =>
    obtain ⟨now, i⟩ := p
    cases i <;> simp only [FloorFor, floorOf] <;> first | exact ih | skip
    rename_i iv mi
    refine ⟨?_, ?_, ?_⟩
    · intro h0; split <;> split <;> omega
    · intro h0; split <;> split <;> omega
    · apply FloorFor_mono c _ _ rest ?_ ih
      split <;> split <;> omega

/-- What the floor argument needs to know about a state at time `T`. -/
def FInv (fl T : Int) (s : St) : Prop :=
  fl ≤ s.minInterval ∧ s.lastAnnounce ≤ T ∧
  (s.status = .working → fl ≤ s.interval ∧ ∀ d, s.timer = some d → s.lastAnnounce + fl ≤ d)

theorem FInv_init (c : Cfg) (fl T : Int) (h : fl ≤ c.clientMin) (hT : 0 ≤ T) : FInv fl T (init c) := by
  refine ⟨h, hT, ?_⟩
  intro hs; simp [init] at hs

theorem step_floor (c : Cfg) (fl T now : Int) (s : St) (i : In) (rest : List (Int × In))
    (hT : T ≤ now) (hf : FloorFor c fl ((now, i) :: rest)) (hinv : FInv fl T s) :
    FInv fl now (step c s now i).1 ∧
    ∀ a ∈ (step c s now i).2, a.time = now ∧ a.prevAt = s.lastAnnounce ∧
      (a.ev = .none → a.after = .working → fl ≤ a.time - a.prevAt) := by
  obtain ⟨h1, h2, h3⟩ := hinv
  unfold FInv
  cases i <;> simp only [step, stepWith] <;> (repeat' split) <;>
    simp_all [doAnnounce, resetTimer, onResponse, FloorFor, timerDue, getNextInterval, storeFixed]
  all_goals (try omega)
  · -- the timer fires while the announcer is not contacting
    rename_i hdue _
    intro hw
    obtain ⟨_, h3b⟩ := h3 hw
    cases htm : s.timer with
    | none => simp [htm] at hdue
    | some d =>
      have := h3b d htm
      simp [htm] at hdue
      omega
  · -- needSignal while working
    refine ⟨by omega, ?_⟩
    intro hw
    obtain ⟨h3a, _⟩ := h3 hw
    split <;> omega

theorem run_floor (c : Cfg) (fl : Int) (tr : List (Int × In)) (T : Int) (s : St)
    (hm : Mono T tr) (hf : FloorFor c fl tr) (hinv : FInv fl T s) :
    ∀ a ∈ (run c s tr).2, a.ev = .none → a.after = .working → fl ≤ a.time - a.prevAt := by
  induction tr generalizing T s with
  | nil => intro a ha; simp [run, runWith] at ha
  | cons p rest ih =>
    obtain ⟨now, i⟩ := p
    obtain ⟨hT, hm'⟩ := hm
    obtain ⟨hinv', hout⟩ := step_floor c fl T now s i rest hT hf hinv
    intro a ha
    simp only [run, runWith, List.mem_append] at ha
    rcases ha with ha | ha
    · exact (hout a ha).2.2
    · exact ih now _ hm' (FloorFor_tail c fl _ rest hf) hinv' a ha

/-- `prevAt` really is the time of the previous announce: outputs are chained through
`lastAnnounce`. -/
theorem step_chain (store : Int → Int → Int) (c : Cfg) (s : St) (now : Int) (i : In) :
    ((stepWith store c s now i).2 = [] ∧ (stepWith store c s now i).1.lastAnnounce = s.lastAnnounce) ∨
    (∃ a, (stepWith store c s now i).2 = [a] ∧ a.prevAt = s.lastAnnounce ∧ a.time = now ∧
      (stepWith store c s now i).1.lastAnnounce = now) := by
  cases i <;> simp only [stepWith] <;> (repeat' split) <;> simp_all [doAnnounce, resetTimer, onResponse]

/-- Consecutive outputs `a, b` satisfy `b.prevAt = a.time`; the first one has `prevAt = s.lastAnnounce`. -/
def Chained : Int → List Ann → Prop
  | _, [] => True
  | t, a :: rest => a.prevAt = t ∧ Chained a.time rest

theorem run_chain (store : Int → Int → Int) (c : Cfg) (tr : List (Int × In)) (s : St) :
    Chained s.lastAnnounce (runWith store c s tr).2 := by
  induction tr generalizing s with
  | nil => simp [runWith, Chained]
  | cons p rest ih =>
    obtain ⟨now, i⟩ := p
    simp only [runWith]
    rcases step_chain store c s now i with ⟨h0, hl⟩ | ⟨a, ha, hp, ht, hl⟩
    · rw [h0]; simpa [hl] using ih (stepWith store c s now i).1
    · rw [ha]
      refine ⟨hp, ?_⟩
      have := ih (stepWith store c s now i).1
      rw [hl] at this
      simpa [ht] using this

/-! ### never idle; back-off bounds -/

/-- A running announcer either has an announce outstanding or a timer armed. -/
def NeverIdle (s : St) : Prop := s.running = true → s.status = .contacting ∨ s.timer.isSome = true

theorem step_neverIdle (store : Int → Int → Int) (c : Cfg) (s : St) (now : Int) (i : In) (h : NeverIdle s) :
    NeverIdle (stepWith store c s now i).1 := by
  unfold NeverIdle at *
  cases i <;> simp only [stepWith] <;> (repeat' split) <;> simp_all [doAnnounce, resetTimer, onResponse]

theorem run_neverIdle (store : Int → Int → Int) (c : Cfg) (tr : List (Int × In)) (s : St) (h : NeverIdle s) :
    NeverIdle (runWith store c s tr).1 := by
  induction tr generalizing s with
  | nil => simpa [runWith] using h
  | cons p rest ih =>
    obtain ⟨now, i⟩ := p
    simp only [runWith]
    exact ih _ (step_neverIdle store c s now i h)

/-- The back-off's current interval stays between `InitialInterval` and `MaxInterval`. -/
def BoInv (c : Cfg) (s : St) : Prop := s.running = true → c.boInit ≤ s.boCur ∧ s.boCur ≤ c.boMax

theorem boNext_bounds (c : Cfg) (cur : Int) (h0 : 0 < c.boInit) (h1 : c.boInit ≤ cur) (h2 : cur ≤ c.boMax) :
    c.boInit ≤ boNext c cur ∧ boNext c cur ≤ c.boMax := by
  unfold boNext; split <;> omega

theorem step_boInv (store : Int → Int → Int) (c : Cfg) (s : St) (now : Int) (i : In)
    (h0 : 0 < c.boInit) (hle : c.boInit ≤ c.boMax) (h : BoInv c s) :
    BoInv c (stepWith store c s now i).1 := by
  unfold BoInv at *
  cases i <;> simp only [stepWith] <;> (repeat' split) <;> simp_all [doAnnounce, resetTimer, onResponse]
  exact boNext_bounds c s.boCur h0 h.1 h.2

theorem run_boInv (store : Int → Int → Int) (c : Cfg) (tr : List (Int × In)) (s : St)
    (h0 : 0 < c.boInit) (hle : c.boInit ≤ c.boMax) (h : BoInv c s) :
    BoInv c (runWith store c s tr).1 := by
  induction tr generalizing s with
  | nil => simpa [runWith] using h
  | cons p rest ih =>
    obtain ⟨now, i⟩ := p
    simp only [runWith]
    exact ih _ (step_boInv store c s now i h0 hle h)

/-! ### the retry floor (gap after an error) -/

/-- `rl` is a lower bound of every retry delay the history contains: the tracker's positive
`retry in`, else the back-off value that was drawn. -/
def RetryFor (rl : Int) : List (Int × In) → Prop
  | [] => True
  | (_, .error r bo) :: rest => (0 < r → rl ≤ r) ∧ (r ≤ 0 → rl ≤ bo) ∧ RetryFor rl rest
  | _ :: rest => RetryFor rl rest

theorem RetryFor_tail (rl : Int) (p : Int × In) (rest : List (Int × In))
    (h : RetryFor rl (p :: rest)) : RetryFor rl rest := by
  obtain ⟨now, i⟩ := p
  cases i <;> simp only [RetryFor] at h <;> first | exact h | exact h.2.2

def RInv (rl T : Int) (s : St) : Prop :=
  s.lastAnnounce ≤ T ∧ (s.status = .notWorking → ∀ d, s.timer = some d → s.lastAnnounce + rl ≤ d)

theorem step_retry (store : Int → Int → Int) (c : Cfg) (rl T now : Int) (s : St) (i : In) (rest : List (Int × In))
    (hT : T ≤ now) (hf : RetryFor rl ((now, i) :: rest)) (hinv : RInv rl T s) :
    RInv rl now (stepWith store c s now i).1 ∧
    ∀ a ∈ (stepWith store c s now i).2,
      (a.ev = .none → a.after = .notWorking → rl ≤ a.time - a.prevAt) := by
  obtain ⟨h2, h3⟩ := hinv
  unfold RInv
  by_cases hi : ∃ r bo, i = .error r bo
  · obtain ⟨r, bo, rfl⟩ := hi
    simp only [RetryFor] at hf
    obtain ⟨hf1, hf2, _⟩ := hf
    simp only [stepWith]
    (repeat' split) <;> simp_all [doAnnounce, resetTimer]
    all_goals (try omega)
  · clear hf
    cases i <;> simp only [stepWith] <;> (repeat' split) <;>
      simp_all [doAnnounce, resetTimer, onResponse, timerDue, getNextInterval]
    all_goals (try omega)
    · rename_i hdue _
      intro hw
      have h3b := h3 hw
      cases htm : s.timer with
      | none => simp [htm] at hdue
      | some d =>
        have := h3b d htm
        simp [htm] at hdue
        omega

theorem run_retry (store : Int → Int → Int) (c : Cfg) (rl : Int) (tr : List (Int × In)) (T : Int) (s : St)
    (hm : Mono T tr) (hf : RetryFor rl tr) (hinv : RInv rl T s) :
    ∀ a ∈ (runWith store c s tr).2, a.ev = .none → a.after = .notWorking → rl ≤ a.time - a.prevAt := by
  induction tr generalizing T s with
  | nil => intro a ha; simp [runWith] at ha
  | cons p rest ih =>
    obtain ⟨now, i⟩ := p
    obtain ⟨hT, hm'⟩ := hm
    obtain ⟨hinv', hout⟩ := step_retry store c rl T now s i rest hT hf hinv
    intro a ha
    simp only [runWith, List.mem_append] at ha
    rcases ha with ha | ha
    · exact hout a ha
    · exact ih now _ hm' (RetryFor_tail rl _ rest hf) hinv' a ha

end Rain.Announcer
