import RainModel.Model.Tier
/-! Helper lemmas about the tier index machine (`Model/Tier`). -/
namespace Rain.Tier

theorem next_lt {n : Nat} (hn : 0 < n) (i : Nat) : next n i < n := by
  unfold next; split <;> omega

theorem next_eq_mod {n i : Nat} (h : i < n) : next n i = (i + 1) % n := by
  unfold next
  split
  · have : i + 1 = n := by omega
    rw [this, Nat.mod_self]
  · rw [Nat.mod_eq_of_lt (by omega)]

theorem load_of_lt {t : T} (h : t.idx < t.n) : load t = t.idx := by
  unfold load; split <;> omega

theorem load_lt {t : T} (hn : 0 < t.n) : load t < t.n := by
  unfold load; split <;> omega

@[simp] theorem finish_n (t : T) (i : Nat) (ok : Bool) : (finish t i ok).n = t.n := by
  unfold finish
  split
  · rfl
  · split <;> rfl

/-- The stored index stays inside the tier whatever (possibly stale) index a finishing announce
had loaded — the invariant that makes the wrap in `loadIndex` dead code after the repair. -/
theorem finish_lt {t : T} (h : t.idx < t.n) (i : Nat) (ok : Bool) : (finish t i ok).idx < t.n := by
  unfold finish
  split
  · exact h
  · split
    · exact next_lt (by omega) i
    · exact h

theorem step_n (t : T) (op : Op) : (step t op).n = t.n := by
  cases op <;> simp [step]

theorem step_lt {t : T} (h : t.idx < t.n) (op : Op) : (step t op).idx < (step t op).n := by
  rw [step_n]
  cases op with
  | begin => exact h
  | fin i ok => exact finish_lt h i ok

theorem steps_inv {t : T} (h : t.idx < t.n) (ops : List Op) :
    (steps t ops).n = t.n ∧ (steps t ops).idx < t.n := by
  induction ops generalizing t with
  | nil => exact ⟨rfl, h⟩
  | cons op rest ih =>
    have h1 := step_lt h op
    have hn := step_n t op
    have := ih h1
    simp only [steps, List.foldl] at this ⊢
    rw [hn] at this
    exact this

/-- One failing sequential announce moves the loaded index to its successor modulo `n`. -/
theorem announce_fail {t : T} (h : t.idx < t.n) :
    (announce t false).2.n = t.n ∧ (announce t false).2.idx < t.n ∧
    load (announce t false).2 = (load t + 1) % t.n := by
  have hl := load_of_lt h
  have h2 : (announce t false).2 = { t with idx := next t.n t.idx } := by
    simp [announce, finish, hl]
  rw [h2]
  have hlt : next t.n t.idx < t.n := next_lt (by omega) _
  refine ⟨rfl, hlt, ?_⟩
  rw [load_of_lt (t := { t with idx := next t.n t.idx }) hlt, hl]
  exact next_eq_mod h

theorem failN_inv {t : T} (h : t.idx < t.n) (k : Nat) :
    (failN k t).n = t.n ∧ (failN k t).idx < t.n ∧ load (failN k t) = (load t + k) % t.n := by
  induction k generalizing t with
  | zero =>
    refine ⟨rfl, h, ?_⟩
    simp only [failN, Nat.add_zero]
    rw [Nat.mod_eq_of_lt]
    rw [load_of_lt h]; exact h
  | succ k ih =>
    obtain ⟨hn, hlt, hld⟩ := announce_fail h
    have := ih (t := (announce t false).2) (by rw [hn]; exact hlt)
    simp only [failN]
    rw [hn, hld] at this
    refine ⟨this.1, this.2.1, ?_⟩
    rw [this.2.2, Nat.mod_add_mod]
    congr 1; omega

/-- A successful announce leaves the tier untouched. -/
theorem announce_ok (t : T) : (announce t true).2 = t := by
  simp [announce, finish]

end Rain.Tier
