import RainModel.Model.Codec
namespace Rain.Codec
open Rain.Bencode (Bytes ExtPayload take?)

theorem get32_be32 (n : Nat) (h : n < 4294967296) (r : Bytes) : get32 (be32 n ++ r) = some (n, r) := by
  simp only [be32, get32, rd32, List.cons_append, List.nil_append]
  congr 2
  omega

theorem get16_be16 (n : Nat) (h : n < 65536) (r : Bytes) : get16 (be16 n ++ r) = some (n, r) := by
  simp only [be16, get16, List.cons_append, List.nil_append]
  congr 2
  omega

theorem take?_append (a r : Bytes) : take? a.length (a ++ r) = some (a, r) := by
  simp [take?]

theorem get32x3_be32 (i b l : Nat) (hi : i < 4294967296) (hb : b < 4294967296) (hl : l < 4294967296) (r : Bytes) :
    get32x3 (be32 i ++ be32 b ++ be32 l ++ r) = some (i, b, l, r) := by
  simp only [get32x3, List.append_assoc, get32_be32 _ hi, get32_be32 _ hb, get32_be32 _ hl]

/-- Header of a frame whose length prefix is `len + 1`. -/
theorem step_frame (max len id : Nat) (hl : len + 1 < 4294967296) (r : Bytes) :
    step max (be32 (1 + len) ++ id :: r) =
      if len > max then .stop .oversize [] else dispatch id len r := by
  have h1 : 1 + len < 4294967296 := by omega
  rw [step, get32_be32 _ h1]
  have h0 : ¬ (1 + len = 0) := by omega
  have h2 : 1 + len - 1 = len := by omega
  simp only [h0, if_false, h2]

theorem step_have (max i : Nat) (hi : i < 4294967296) (hm : 4 ≤ max) (rest : Bytes) :
    step max (encode (.have i) ++ rest) = .msg (.have i) [] rest := by
  have hb : (body (.have i)).length = 4 := by simp [body, be32]
  rw [encode, hb, List.append_assoc, List.cons_append, step_frame _ _ _ (by omega)]
  have : ¬ (4 > max) := by omega
  simp only [this, if_false, msgId, body, dispatch]
  simp [get32_be32 _ hi]
end Rain.Codec
