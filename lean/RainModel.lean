-- Root of the `RainModel` library: models, lemmas, property theorems.
import RainModel.Model.Blocks
import RainModel.Model.Registry
import RainModel.Lemmas.Registry
import RainModel.Lemmas.RegistrySteps
import RainModel.Lemmas.RegistryQuiescent
import RainModel.Lemmas.RegistryRestart
import RainModel.Props.C14
