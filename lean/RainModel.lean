-- Root of the `RainModel` library: models, lemmas, property theorems.
import RainModel.Model.Blocks
import RainModel.Model.Bencode
import RainModel.Model.Codec
import RainModel.Lemmas.Bencode
import RainModel.Lemmas.Codec
import RainModel.Props.C11
import RainModel.Props.C08Reader
