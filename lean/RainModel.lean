-- Root of the `RainModel` library: models, lemmas, property theorems.
import RainModel.Model.Blocks
import RainModel.Model.STree
import RainModel.Model.Blocklist
import RainModel.Model.AddrList
import RainModel.Model.Admission
