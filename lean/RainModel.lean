-- Root of the `RainModel` library: models, lemmas, property theorems.
import RainModel.Model.Blocks
import RainModel.Props.C09
