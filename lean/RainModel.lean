-- Root of the `RainModel` library: models, lemmas, property theorems.
import RainModel.Model.Blocks
import RainModel.Model.Request
import RainModel.Model.Cache
import RainModel.Model.CachedPiece
import RainModel.Model.WriteQueue
import RainModel.Model.PieceDownloader
import RainModel.Model.PieceWriter
import RainModel.Model.WriteDone
import RainModel.Model.STree
import RainModel.Model.Blocklist
import RainModel.Model.AddrList
import RainModel.Model.Admission
import RainModel.Model.Tier
import RainModel.Model.TrackerWire
import RainModel.Model.Announcer
