-- Root of the `RainModel` library: models, lemmas, property theorems.
import RainModel.Model.Blocks
import RainModel.Model.ResourceManager
import RainModel.Model.WebseedCap
import RainModel.Model.TokenBucket
import RainModel.Model.Semaphore
