import Driver.Registry
/-!
`driver <suite>`: reads a harness transcript on stdin

    case <id>
    > <op>
    < <implementation observation>
    …

and prints, per case, `case <id>`, one `< <model observation>` per op, `! <violation>` for each
oracle failure on the implementation's observation, and `# <tag>` statistics lines.
-/
open Driver

structure CaseAcc where
  id : String := ""
  ops : List (String × String) := []   -- reversed
  pendingOp : Option String := none
  active : Bool := false

def flushCase (s : Suite) (a : CaseAcc) (out : IO.FS.Stream) : IO Unit := do
  if !a.active then return
  let ops := a.ops.reverse
  let (rs, tags) := s.runCase ops
  out.putStrLn s!"case {a.id}"
  for (o, vs) in rs do
    out.putStrLn s!"< {o}"
    for v in vs do out.putStrLn s!"! {v}"
  for t in tags do out.putStrLn s!"# {t}"

partial def loop (s : Suite) (inp out : IO.FS.Stream) (a : CaseAcc) : IO Unit := do
  let line ← inp.getLine
  if line.isEmpty then
    flushCase s a out
    return
  let line := (line.dropEndWhile (fun c => c = '\n' || c = '\r')).toString
  if line.startsWith "case " then
    flushCase s a out
    loop s inp out { id := (line.drop 5).toString, active := true }
  else if line.startsWith "> " then
    -- an op without an implementation observation (should not happen) gets ""
    let a := match a.pendingOp with
      | some op => { a with ops := (op, "") :: a.ops }
      | none => a
    loop s inp out { a with pendingOp := some (line.drop 2).toString }
  else if line.startsWith "< " || line == "<" then
    match a.pendingOp with
    | some op => loop s inp out { a with ops := (op, (line.drop 2).toString) :: a.ops, pendingOp := none }
    | none => loop s inp out a
  else
    loop s inp out a

def main (args : List String) : IO UInt32 := do
  match args with
  | [name] =>
    match registry.find? (·.name = name) with
    | some s =>
      let inp ← IO.getStdin
      let out ← IO.getStdout
      loop s inp out {}
      return 0
    | none =>
      IO.eprintln s!"driver: unknown suite {name}"
      return 2
  | _ =>
    IO.eprintln ("driver <suite>; suites: " ++ " ".intercalate (registry.map (·.name)))
    return 2
