import Driver.Util
import Driver.Suites.Blocks
import Driver.Suites.Request
import Driver.Suites.Readpath
import Driver.Suites.WQ
import Driver.Suites.Cache
/-! Table of suites known to the driver.  One line per suite (merge=union friendly). -/
namespace Driver
def registry : List Suite := [
  Suites.Blocks.suite,
  Suites.Request.suite,
  Suites.Readpath.suite,
  Suites.WQ.suite,
  Suites.Cache.suite,
]
end Driver
