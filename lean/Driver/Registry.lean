import Driver.Util
import Driver.Suites.Blocks
import Driver.Suites.Parse
import Driver.Suites.Paths
import Driver.Suites.Tar
import Driver.Suites.Remove
/-! Table of suites known to the driver.  One line per suite (merge=union friendly). -/
namespace Driver
def registry : List Suite := [
  Suites.Blocks.suite,
  Suites.Parse.suite,
  Suites.Paths.suite,
  Suites.Tar.suite,
  Suites.Remove.suite,
]
end Driver
