import Driver.Util
import Driver.Suites.Blocks
import Driver.Suites.Codec
import Driver.Suites.Reader
/-! Table of suites known to the driver.  One line per suite (merge=union friendly). -/
namespace Driver
def registry : List Suite := [
  Suites.Blocks.suite,
  Suites.Codec.suite,
  Suites.Reader.suite,
]
end Driver
