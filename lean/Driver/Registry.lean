import Driver.Util
import Driver.Suites.Blocks
import Driver.Suites.MSE
import Driver.Suites.Policy
/-! Table of suites known to the driver.  One line per suite (merge=union friendly). -/
namespace Driver
def registry : List Suite := [
  Suites.Blocks.suite,
  Suites.MSE.suite,
  Suites.Policy.suite,
]
end Driver
