import Driver.Util
import Driver.Suites.Blocks
import Driver.Suites.Loop
import Driver.Suites.Race
import Driver.Suites.E2E
import Driver.Suites.Request
import Driver.Suites.Readpath
import Driver.Suites.WQ
import Driver.Suites.Cache
import Driver.Suites.PD
import Driver.Suites.PW
import Driver.Suites.Blocklist
import Driver.Suites.AddrList
import Driver.Suites.Admission
import Driver.Suites.Tier
import Driver.Suites.Trkwire
import Driver.Suites.Announcer
import Driver.Suites.Replies
import Driver.Suites.Parse
import Driver.Suites.Paths
import Driver.Suites.Tar
import Driver.Suites.Remove
import Driver.Suites.Registry
import Driver.Suites.ResumeCodec
import Driver.Suites.Rm
import Driver.Suites.Wscap
import Driver.Suites.Bucket
import Driver.Suites.Sem
import Driver.Suites.WsRange
import Driver.Suites.MoveSend
import Driver.Suites.TrkDial
import Driver.Suites.MoveCrash
import Driver.Suites.Codec
import Driver.Suites.Reader
import Driver.Suites.Geometry
import Driver.Suites.CreateVerify
import Driver.Suites.MSE
import Driver.Suites.Policy
import Driver.Suites.InfoDL
import Driver.Suites.Magnet
import Driver.Suites.Adopt
import Driver.Suites.Picker
import Driver.Suites.WsLoop
import Driver.Suites.UdpShared
/-! Table of suites known to the driver.  One line per suite (merge=union friendly). -/
namespace Driver
def registry : List Suite := [
  Suites.Blocks.suite,
  Suites.Loop.mkSuite "loop-dl",
  Suites.Loop.mkSuite "lifecycle",
  Suites.Loop.mkSuite "loop-magnet",
  Suites.Loop.mkSuite "private",
  Suites.Loop.mkSuite "crashpoints",
  Suites.Loop.mkSuite "serve",
  Suites.Race.suite,
  Suites.E2E.suite,
  Suites.Request.suite,
  Suites.Readpath.suite,
  Suites.WQ.suite,
  Suites.Cache.suite,
  Suites.PD.suite,
  Suites.PW.suitePW,
  Suites.PW.suiteBP,
  Suites.PW.suiteVF,
  Suites.Blocklist.suite,
  Suites.AddrList.suite,
  Suites.Admission.suite,
  Suites.Tier.suite,
  Suites.Trkwire.suite,
  Suites.Announcer.suite,
  Suites.Replies.suite,
  Suites.Parse.suite,
  Suites.Paths.suite,
  Suites.Tar.suite,
  Suites.Remove.suite,
  Suites.Registry.suite,
  Suites.Registry.suiteConcurrent,
  Suites.ResumeCodec.suite,
  Suites.Rm.suite,
  Suites.Wscap.suite,
  Suites.Bucket.suite,
  Suites.Sem.suite,
  Suites.WsRange.suite,
  Suites.MoveSend.suite,
  Suites.TrkDial.suite,
  Suites.MoveCrash.suite,
  Suites.Codec.suite,
  Suites.Reader.suite,
  Suites.Geometry.suite,
  Suites.CreateVerify.suite,
  Suites.MSE.suite,
  Suites.Policy.suite,
  Suites.InfoDL.suite,
  Suites.Magnet.suite,
  Suites.Adopt.suite,
  Suites.Picker.suite,
  Suites.WsLoop.suite,
  Suites.UdpShared.suite,
]
end Driver
