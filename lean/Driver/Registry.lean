import Driver.Util
import Driver.Suites.Blocks
import Driver.Suites.Picker
/-! Table of suites known to the driver.  One line per suite (merge=union friendly). -/
namespace Driver
def registry : List Suite := [
  Suites.Blocks.suite,
  Suites.Picker.suite,
]
end Driver
