import Driver.Util
import Driver.Suites.Blocks
import Driver.Suites.Blocklist
import Driver.Suites.AddrList
import Driver.Suites.Admission
/-! Table of suites known to the driver.  One line per suite (merge=union friendly). -/
namespace Driver
def registry : List Suite := [
  Suites.Blocks.suite,
  Suites.Blocklist.suite,
  Suites.AddrList.suite,
  Suites.Admission.suite,
]
end Driver
