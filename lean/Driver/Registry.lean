import Driver.Util
import Driver.Suites.Blocks
import Driver.Suites.Registry
import Driver.Suites.ResumeCodec
/-! Table of suites known to the driver.  One line per suite (merge=union friendly). -/
namespace Driver
def registry : List Suite := [
  Suites.Blocks.suite,
  Suites.Registry.suite,
  Suites.Registry.suiteConcurrent,
  Suites.ResumeCodec.suite,
]
end Driver
