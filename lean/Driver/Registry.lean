import Driver.Util
import Driver.Suites.Blocks
import Driver.Suites.Loop
import Driver.Suites.Request
import Driver.Suites.Readpath
import Driver.Suites.WQ
import Driver.Suites.Cache
/-! Table of suites known to the driver.  One line per suite (merge=union friendly). -/
namespace Driver
def registry : List Suite := [
  Suites.Blocks.suite,
  Suites.Loop.mkSuite "loop-dl",
  Suites.Loop.mkSuite "lifecycle",
  Suites.Request.suite,
  Suites.Readpath.suite,
  Suites.WQ.suite,
  Suites.Cache.suite,
]
end Driver
