import Driver.Util
import Driver.Suites.Blocks
import Driver.Suites.PD
import Driver.Suites.PW
/-! Table of suites known to the driver.  One line per suite (merge=union friendly). -/
namespace Driver
def registry : List Suite := [
  Suites.Blocks.suite,
  Suites.PD.suite,
  Suites.PW.suitePW,
  Suites.PW.suiteBP,
  Suites.PW.suiteVF,
]
end Driver
