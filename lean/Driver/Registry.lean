import Driver.Util
import Driver.Suites.Blocks
import Driver.Suites.InfoDL
import Driver.Suites.Magnet
import Driver.Suites.Adopt
/-! Table of suites known to the driver.  One line per suite (merge=union friendly). -/
namespace Driver
def registry : List Suite := [
  Suites.Blocks.suite,
  Suites.InfoDL.suite,
  Suites.Magnet.suite,
  Suites.Adopt.suite,
]
end Driver
