import Driver.Util
import Driver.Suites.Blocks
import Driver.Suites.Geometry
import Driver.Suites.CreateVerify
/-! Table of suites known to the driver.  One line per suite (merge=union friendly). -/
namespace Driver
def registry : List Suite := [
  Suites.Blocks.suite,
  Suites.Geometry.suite,
  Suites.CreateVerify.suite,
]
end Driver
