import Driver.Util
import Driver.Suites.Blocks
import Driver.Suites.Tier
import Driver.Suites.Trkwire
import Driver.Suites.Announcer
import Driver.Suites.Replies
/-! Table of suites known to the driver.  One line per suite (merge=union friendly). -/
namespace Driver
def registry : List Suite := [
  Suites.Blocks.suite,
  Suites.Tier.suite,
  Suites.Trkwire.suite,
  Suites.Announcer.suite,
  Suites.Replies.suite,
]
end Driver
