import Driver.Util
import Driver.Suites.Blocks
import Driver.Suites.Rm
import Driver.Suites.Wscap
import Driver.Suites.Bucket
import Driver.Suites.Sem
/-! Table of suites known to the driver.  One line per suite (merge=union friendly). -/
namespace Driver
def registry : List Suite := [
  Suites.Blocks.suite,
  Suites.Rm.suite,
  Suites.Wscap.suite,
  Suites.Bucket.suite,
  Suites.Sem.suite,
]
end Driver
