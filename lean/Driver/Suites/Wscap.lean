import Driver.Util
import RainModel.Model.WebseedCap
/-!
Suite `wscap` (C17 `webseed_caps`, `config_no_panic`): `Session.AddTorrent` with N url-list
entries under a configured `WebseedMaxSources`, and reload of the stored torrents by a new
session with another cap.  ops / observations: see `suite_wscap.go`.
Oracle: no panic, and the number of sources reported by the implementation is ≤ the cap.
-/
namespace Driver.Suites.Wscap
open Driver Rain.WebseedCap

structure DS where
  cap : Option Int := none
  /-- stored torrents: name, url-list -/
  stored : List (String × List Scheme) := []
  lost : Bool := false
  tags : List String := []

def DS.tag (d : DS) (t : String) : DS := if d.tags.contains t then d else { d with tags := t :: d.tags }

def parseUrls (s : String) : List Scheme :=
  if s = "-" then [] else s.toList.map fun c => if c = 'h' then .http else if c = 's' then .https else .other

def insertSorted (x : String) : List String → List String
  | [] => [x]
  | y :: ys => if x < y then x :: y :: ys else y :: insertSorted x ys

def sortStrings (l : List String) : List String := l.foldr insertSorted []

/-- `dl=<cap>:<q>:<fi>` against the configured limit (KiB/s): the bucket must hold exactly one
second of the configured rate and refill within 1 % of it; `-` iff the limit is 0 (disabled).
Returns the model's rendering and violations. -/
def checkBucket (label : String) (kb : Nat) (impl : String) : String × List String :=
  if kb = 0 then ("-", if impl = "-" then [] else [s!"C17 rate-limit-unexpected {label}={impl} limit=0"])
  else
    match (impl.splitOn ":").map parseNat! with
    | [cap, q, fi] =>
      let rate := kb * 1024
      let diff := if 1000000000 * q ≥ rate * fi then 1000000000 * q - rate * fi else rate * fi - 1000000000 * q
      let okRate := q > 0 ∧ fi > 0 ∧ diff * 100 ≤ rate * fi
      let viol := (if cap > rate then [s!"C17 rate-limit-burst {label} capacity={cap} one-second={rate}"] else []) ++
        (if okRate then [] else [s!"C17 rate-limit-rate {label} q={q} fi={fi} configured={rate}"])
      (if cap = rate ∧ okRate then impl else s!"{rate}:q:fi(within 1%)", viol)
    | _ => (s!"{kb * 1024}:q:fi", [s!"C17 rate-limit-missing {label}={impl} limit={kb}"])

def step (d : DS) (op implObs : String) : DS × String × List String :=
  let toks := words op
  let name := toks.headD ""
  let panicViol (what : String) : List String :=
    if implObs.startsWith "panic" then [s!"C17 webseed-cap-panic {what} obs={implObs}"] else []
  match name with
  | "session" =>
    match d.cap with
    | some _ => (d, "refused", [])
    | none =>
      let it := words implObs
      let (dl, v1) := checkBucket "dl" (kvNat toks "dl") (kvStr it "dl")
      let (ul, v2) := checkBucket "ul" (kvNat toks "ul") (kvStr it "ul")
      let v := if implObs.startsWith "ok" then v1 ++ v2 else []
      let d := if kvNat toks "dl" > 0 ∨ kvNat toks "ul" > 0 then d.tag "branch:rate-limited" else d
      ({ d with cap := some (kvInt toks "cap") }, s!"ok dl={dl} ul={ul}", panicViol "op=session" ++ v)
  | "add" =>
    match d.cap with
    | none => (d, "nosession", [])
    | some cap =>
      if d.lost then (d, implObs, panicViol s!"cap={cap}") else
      let urls := parseUrls (kvStr toks "urls")
      let n := (urls.filter supported).length
      let d := if urls.any (fun u => !supported u) then d.tag "branch:unsupported-scheme" else d
      let d := d.tag (if (n : Int) > cap then "branch:truncated" else if (n : Int) = cap then "branch:exactly-cap" else "branch:below-cap")
      let d := if (n : Int) > cap ∧ n < 10 then d.tag "nontrivial" else d
      let d := if (n : Int) > cap ∧ n ≥ 10 ∧ cap < 10 then d.tag "nontrivial" else d
      let viol := panicViol s!"cap={cap} sources={n}" ++
        (match (implObs.drop 8).toString.toNat? with
         | some k => if implObs.startsWith "sources=" ∧ (k : Int) > cap then [s!"C17 webseed-cap-exceeded sources={k} cap={cap} urls={n}"] else []
         | none => [])
      match sourcesOf cap urls with
      | some l =>
        let d := if viol.isEmpty then d else { d with lost := true }
        ({ d with stored := (kvStr toks "name", urls) :: d.stored }, s!"sources={l.length}", viol)
      | none => ({ d with lost := true }, "panic:slice", viol)
  | "reopen" =>
    let cap := kvInt toks "cap"
    if d.lost then ({ d with cap := some cap }, implObs, panicViol s!"op=reopen cap={cap}") else
    let rs := d.stored.map fun (nm, urls) => (nm, sourcesOf cap urls)
    let d := { d with cap := some cap }.tag "branch:reopen"
    let exceeded := (commaList (implObs.drop 8).toString).filterMap fun t =>
      match t.splitOn ":" with
      | [nm, k] => if (parseNat! k : Int) > cap then some s!"C17 webseed-cap-exceeded op=reopen name={nm} sources={k} cap={cap}" else none
      | _ => none
    let viol := panicViol s!"op=reopen cap={cap}" ++ (if implObs.startsWith "sources=" then exceeded else [])
    let d := if viol.isEmpty then d else { d with lost := true }
    if rs.any (fun p => p.2.isNone) then (d, "panic:slice", viol)
    else
      let parts := sortStrings (rs.map fun (nm, l) => s!"{nm}:{(l.getD []).length}")
      (d, "sources=" ++ (if parts.isEmpty then "-" else ",".intercalate parts), viol)
  | "close" => ({ d with cap := none }, "ok", [])
  | _ => (d, "badop", [])

def suite : Suite where
  name := "wscap"
  runCase ops :=
    let (d, rs) := foldCase ({} : DS) step ops
    (rs, d.tags.reverse)

end Driver.Suites.Wscap
