import Driver.Util
import RainModel.Model.CachedPiece
/-!
Suite `readpath` (C03; the size bound also serves C17): real `CachedPiece` over the real `Cache`.
ops : `open max= rs= t= pl= s= cuts=` | `read t= p= off= n=` | `fire t= p= blk=` | `clear`
obs : `ok:<hex> size= len=` | `err:<hex> size= len=` | `panic size= len=` | `size= len=`
-/
namespace Driver.Suites.Readpath
open Driver Rain.Cache Rain.CachedPiece

structure St where
  opened : Bool := false
  rs : Nat := 1
  seed : Nat := 0
  nt : Nat := 0
  pls : List Nat := []
  cache : Cache Bytes := Rain.Cache.new 0 0

def dataByte (s t p i : Nat) : Nat := (17 + s + t * 53 + p * 101 + i * 37 + i / 7) % 256

def pieceData (st : St) (t p : Nat) : Bytes :=
  (List.range (st.pls.getD p 0)).map (dataByte st.seed t p)

def peerID (t : Nat) : Bytes := List.replicate 20 (t + 1)

def stateStr (c : Cache Bytes) : String := s!"size={c.size} len={c.keys.length}"

def resStr : RdRes → String
  | .ok bs => "ok:" ++ hex bs
  | .err bs => "err:" ++ hex bs
  | .panic => "panic"
  | .fuel => "model-fuel"

def step (st : St) (op implObs : String) : St × String × List String × List String :=
  let toks := words op
  match toks.head? with
  | some "open" =>
    let st' : St := { opened := true, rs := kvNat toks "rs", seed := kvNat toks "s", nt := kvNat toks "t",
                      pls := natList (kvStr toks "pl"), cache := Rain.Cache.new (kvInt toks "max") 3600 }
    (st', stateStr st'.cache, [], [s!"cfg:max-{if kvInt toks "max" ≤ 0 then "nonpos" else if kvInt toks "max" < 1000 then "small" else "large"}"] ++
      (if st'.rs ≥ 2^31 then ["cfg:huge-readsize"] else []) ++ (if st'.nt > 1 then ["cfg:two-torrents"] else []))
  | some "read" =>
    if !st.opened then (st, "not-open", [], []) else
    let t := kvNat toks "t"; let p := kvNat toks "p"; let off := kvNat toks "off"; let n := kvNat toks "n"
    if t ≥ st.nt ∨ p ≥ st.pls.length then (st, "bad-op", [], []) else
    let data := pieceData st t p
    let cp : CP := { peerID := peerID t, index := p, length := data.length, readSize := st.rs }
    let before := st.cache
    let (c', r) := readAt cp (dataReader data) st.cache n off
    let inRange := off + n ≤ data.length
    let crosses := st.rs > 0 ∧ n > 0 ∧ off / st.rs ≠ (off + n - 1) / st.rs
    -- oracle (the conclusion of `cachedpiece_exact` on what the implementation returned)
    let implRes := (words implObs).headD ""
    let viol : List String :=
      if inRange ∧ st.rs > 0 then
        let want := "ok:" ++ hex (slice data off n)
        if implRes = want then []
        else if implRes.startsWith "ok:" then
          let got := (unhex! (implRes.drop 3).toString)
          if got.length < n ∧ got = slice data off got.length then
            [s!"C03 readat-short got={got.length} want={n} crosses-block={boolStr crosses} rs-ge-2^32={boolStr (st.rs ≥ 2^32)}"]
          else [s!"C03 readat-wrong-bytes crosses-block={boolStr crosses}"]
        else if implRes = "panic" then [s!"C03 readat-panic rs-ge-2^32={boolStr (st.rs ≥ 2^32)}"]
        else [s!"C03 readat-error-on-valid-read crosses-block={boolStr crosses}"]
      else if implRes.startsWith "ok:" ∧ st.rs > 0 then
        ["C03 readat-ok-past-end"]   -- fewer bytes than asked for must come with an error
      else []
    let implSize := kvInt (words implObs) "size"
    let viol := viol ++
      (if implSize > max st.cache.maxSize 0 then [s!"C17 cache-over-max size={implSize} max={st.cache.maxSize}"] else [])
    let hit := c'.keys.length ≤ before.keys.length ∧ c'.size = before.size ∧ before.heap.length > 0
    let tags :=
      (if crosses then ["branch:crosses-block", "nontrivial"] else ["branch:single-block"]) ++
      (if !inRange then ["branch:past-end"] else []) ++
      (if c'.heap.length < before.heap.length ∨ (c'.heap.length = before.heap.length ∧ c'.size ≠ before.size) then ["branch:evicted"] else []) ++
      (if hit then ["branch:all-hits"] else []) ++
      (if st.rs > 0 ∧ off % st.rs = 0 then ["aligned-start"] else []) ++
      (if st.rs > 0 ∧ (off + n) % st.rs = 0 then ["aligned-end"] else [])
    ({ st with cache := c' }, resStr r ++ " " ++ stateStr c', viol, tags)
  | some "fire" =>
    if !st.opened then (st, "not-open", [], []) else
    let t := kvNat toks "t"; let p := kvNat toks "p"; let blk := kvNat toks "blk"
    let k := mkKey (peerID t) p blk
    let was := st.cache.heap.length
    let c' := fire st.cache k
    ({ st with cache := c' }, stateStr c', [], [if c'.heap.length < was then "branch:fire-removed" else "branch:fire-noop"])
  | some "clear" =>
    if !st.opened then (st, "not-open", [], []) else
    let c' := clear st.cache
    ({ st with cache := c' }, stateStr c', [], ["branch:clear"])
  | _ => (st, "unknown-op", [], [])

def suite : Suite where
  name := "readpath"
  runCase ops :=
    let (_, acc) := ops.foldl
      (fun (p : St × List (String × List String × List String)) (o : String × String) =>
        let (s', obs, vs, tags) := step p.1 o.1 o.2
        (s', (obs, vs, tags) :: p.2)) ({}, [])
    let rs := acc.reverse
    (rs.map fun (o, v, _) => (o, v), (rs.flatMap fun (_, _, t) => t).eraseDups)

end Driver.Suites.Readpath
