import Driver.Util
/-!
Suite `wsrange` (C01, C10): the real `urldownloader.URLDownloader` over an in-process web seed while its range is
cut short from outside (`UpdateEnd`).  Oracle only (evaluated on the implementation's observation; the
observation itself is echoed because how far the downloader has read when the cut arrives is up to the scheduler):

* the results arrive for consecutive pieces starting at `begin`, every buffer holds the true bytes of its piece;
* exactly the last result carries `Done`, nothing arrives after it, and the downloader can be closed then;
* no buffer is handed out twice (a buffer belongs to the receiver of the result it arrived in);
* the last piece delivered is not beyond the original end;
* after the range was cut, no piece at or beyond the new end is delivered (C09: such a piece belongs to whoever the
  picker gave the cut-off part to), except the one piece the downloader was already committed to.
-/
namespace Driver.Suites.WsRange
open Driver

def step (op implObs : String) : String × List String × List String :=
  let toks := words op
  let it := words implObs
  let b := kvNat toks "begin"
  let e := kvNat toks "end"
  let res := commaList (kvStr it "res")
  let idx := res.map fun r => ((r.splitOn ":").headD "").toNat?.getD 1000000
  let consecutive := (List.range idx.length).all fun i => idx.getD i 0 = b + i
  let dones := res.filter fun r => (r.splitOn ":").getD 1 "" = "d"
  let lastDone := match res.getLast? with
    | some r => (r.splitOn ":").getD 1 "" = "d"
    | none => false
  let viol :=
    (if res.any (· = "err") then ["C10 webseed-range-error"] else []) ++
    (if !consecutive then [s!"C01 webseed-results-not-consecutive res={kvStr it "res"}"] else []) ++
    (if res.any fun r => (r.splitOn ":").getD 2 "" = "bad" then [s!"C01 webseed-buffer-wrong-bytes res={kvStr it "res"}"] else []) ++
    (if kvStr it "dup" = "1" then ["C01 webseed-buffer-delivered-twice"] else []) ++
    (if kvNat it "extra" > 0 then [s!"C01 webseed-result-after-done extra={kvNat it "extra"}"] else []) ++
    (if kvStr it "cutclose" ≠ "1" && (dones.length ≠ 1 || !lastDone) then [s!"C10 webseed-range-done-flag res={kvStr it "res"}"] else []) ++
    (if kvStr it "cutclose" = "1" && dones.length > 1 then [s!"C10 webseed-range-done-flag res={kvStr it "res"}"] else []) ++
    (if kvStr it "end" ≠ "closed" then ["C10 webseed-downloader-does-not-finish"] else []) ++
    (if idx.any (· ≥ e) then ["C01 webseed-piece-beyond-range"] else []) ++
    -- C09 (web seed ranges never overlap) / C10: once the end of the range has been moved to `cut` (after the
    -- `after`-th result was taken; before `Run` when `after = 0`), the downloader delivers no piece at or beyond
    -- `cut` — except piece `cut` itself when the downloader was already committed to it (see `committed`)
    (let after := kvNat toks "after"
     let cut := kvNat toks "cut"
     let atCut := if after = 0 then none else idx[after - 1]?
     let later := idx.drop after
     -- (the `done` flag of a piece is computed before its result is handed over: when the cut is announced the
     -- downloader may already have decided that piece `atCut + 1` is not its last one; so piece `cut` can still
     -- follow when `atCut + 1 ≥ cut - 1`; never a piece beyond `cut`, and none at all at `cut` when `after = 0`)
     let committed := match atCut with | some a => a + 2 ≥ cut | none => false
     let beyond := later.filter fun i => i > cut ∨ (i = cut ∧ !committed)
     if kvStr toks "after" ≠ "" ∧ !beyond.isEmpty ∧ idx.all (· < 1000000) then
       [s!"C09 webseed-delivers-pieces-beyond-its-cut-range cut={cut} res={kvStr it "res"}",
        s!"C10 webseed-delivers-pieces-beyond-its-cut-range cut={cut} res={kvStr it "res"}",
        s!"C01 webseed-delivers-pieces-beyond-its-cut-range cut={cut} res={kvStr it "res"}"] else [])
  let tags := (if kvNat toks "cut" < e then ["branch:cut", "nontrivial"] else []) ++
    (if (commaList (kvStr toks "files")).length ≥ 2 then ["branch:multi-file"] else []) ++
    (if (commaList (kvStr toks "files")).any (·.endsWith ":1") then ["branch:padding"] else [])
  (implObs, viol, tags)

def suite : Suite where
  name := "wsrange"
  runCase ops :=
    let rs := ops.map fun (op, obs) => step op obs
    (rs.map fun (o, v, _) => (o, v), (rs.flatMap fun (_, _, t) => t).eraseDups)

end Driver.Suites.WsRange
