import Driver.Util
import RainModel.Model.Tier
/-!
Suite `tier` (C16): the real `tracker.Tier` with scripted member trackers.

ops / observations
  `tier n=<n>`             → `ok`
  `ann ok=<0|1>`           → `hit=<i> url=<j>`   sequential announce: member contacted, member `URL()` names afterwards
  `begin id=<x>`           → `hit=<i>`           a concurrent announce is started and blocks inside member `i`
  `end id=<x> ok=<0|1>`    → `url=<j>`           that announce is released with the outcome; `URL()` afterwards

Oracle (on the implementation's observations only): in a sequential stretch, after `k` consecutive
failures that started at member `i` the next announce must hit `(i+k) mod n`; after a success the
same member again.
-/
namespace Driver.Suites.Tier
open Driver Rain.Tier

structure St where
  t : T := { n := 0, idx := 0 }
  pending : List (String × Nat) := []
  /-- oracle: member of the first announce of the current failure run, and failures since -/
  from? : Option Nat := none
  k : Nat := 0
  /-- oracle: the member `URL()` named in the implementation's last observation -/
  implUrl : Option Nat := none
  tags : List String := []

def addTag (s : St) (t : String) : St := if s.tags.contains t then s else { s with tags := t :: s.tags }

def step (s : St) (op implObs : String) : St × String × List String :=
  let toks := words op
  let itoks := words implObs
  match toks.head? with
  | some "tier" =>
    let n := kvNat toks "n"
    ({ t := new n, tags := s.tags, implUrl := some 0 }, "ok", [])
  | some "ann" =>
    let ok := kvBool toks "ok"
    let (i, t1) := announce s.t ok
    let obs := s!"hit={i} url={load t1}"
    -- oracle on the implementation's observation
    let hit := kvNat itoks "hit"
    let viol :=
      if (kv? itoks "hit").isNone then [s!"C16 tier-announce-failed obs={implObs.replace " " "_"}"] else
      if hit ≥ s.t.n then [s!"C16 tier-index-out-of-range n={s.t.n} got={hit}"] else
      match s.from? with
      | some i0 =>
        let want := (i0 + s.k) % s.t.n
        if hit = want then [] else
          [s!"C16 tier-not-cycling n={s.t.n} from={i0} k={s.k} got={hit} want={want}"]
      | none => []
    -- continue the oracle from the implementation's choice
    let s1 : St :=
      if !s.pending.isEmpty then { s with t := t1, from? := none, k := 0 }
      else if ok then { s with t := t1, from? := some hit, k := 0 }
      else match s.from? with
        | some i0 => { s with t := t1, from? := some i0, k := s.k + 1 }
        | none => { s with t := t1, from? := some hit, k := 1 }
    let s1 := { s1 with implUrl := (kv? itoks "url").bind (·.toNat?) }
    let s1 := addTag s1 (if ok then "branch:success" else "branch:failure")
    let s1 := if !ok ∧ i + 1 ≥ s.t.n then addTag s1 "branch:wrap" else s1
    let s1 := if s1.k > s.t.n ∧ s.t.n ≥ 2 then addTag s1 "nontrivial" else s1
    (s1, obs, viol)
  | some "begin" =>
    let id := kvStr toks "id"
    let i := load s.t
    let hit := kvNat itoks "hit"
    let viol := if (kv? itoks "hit").isSome ∧ hit ≥ s.t.n then [s!"C16 tier-index-out-of-range n={s.t.n} got={hit}"] else []
    let s1 := addTag { s with pending := (id, i) :: s.pending, from? := none, k := 0 } "branch:concurrent"
    (s1, s!"hit={i}", viol)
  | some "end" =>
    let id := kvStr toks "id"
    let ok := kvBool toks "ok"
    match s.pending.find? (·.1 = id) with
    | none => (s, "no-such-id", [])
    | some (_, i) =>
      let t1 := finish s.t i ok
      -- oracle on the implementation's observations: the end of an announce that contacted member `i` moves the
      -- tier by at most one position, and only from `i` (a failure that comes late, after the tier has moved on,
      -- or the second of two concurrent failures, must not push it further: no member is skipped)
      let implNow := (kv? itoks "url").bind (·.toNat?)
      let viol := match s.implUrl, implNow with
        | some before, some after =>
          let want := if !ok ∧ before = i then (i + 1) % s.t.n else before
          if after = want then [] else
            [s!"C16 tier-skips-or-leaves-member n={s.t.n} contacted={i} ok={boolStr ok} before={before} after={after} want={want}"]
        | _, _ => []
      let s1 := { s with t := t1, pending := s.pending.filter (·.1 ≠ id), from? := none, k := 0, implUrl := implNow }
      let s1 := if !ok ∧ s.t.idx ≠ i then addTag s1 "branch:cas-lost" else s1
      (s1, s!"url={load t1}", viol)
  | _ => (s, "bad-op", [])

def suite : Suite where
  name := "tier"
  runCase ops :=
    let (st, rs) := foldCase ({} : St) step ops
    (rs, st.tags.reverse)

end Driver.Suites.Tier
