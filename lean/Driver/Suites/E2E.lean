import Driver.Util
/-!
Suite `e2e` (C10; also C01's end state and C12's forced encryption): two real sessions / a web seed.
obs: `done=<0|1> disk=<ok|bad|-> enc=<ok|plaintext-peer|-> err=<class|-> have=<n> good=<n>` (pieces claimed / pieces correct on disk; echoed, oracle have ≤ good).
With an honest full source reachable the property predicts `done=1 disk=ok` and no plaintext peer under force.
-/
namespace Driver.Suites.E2E
open Driver

def tokVal (o : String) (k : String) : String :=
  ((words o).findSome? fun t => if t.startsWith (k ++ "=") then some (t.drop (k.length + 1)).toString else none).getD ""

def step (op implObs : String) : String × List String × List String :=
  if !(implObs.startsWith "done=") then (implObs, [], []) else
  let toks := words op
  let done := tokVal implObs "done"
  let disk := tokVal implObs "disk"
  let enc := tokVal implObs "enc"
  let err := tokVal implObs "err"
  let hav := tokVal implObs "have"
  let good := tokVal implObs "good"
  let tail := if hav = "" then "" else s!" have={hav} good={good}"
  let viol :=
    (if done ≠ "1" then [s!"C10 download-did-not-complete src={kvStr toks "src"} seq={kvStr toks "seq"} magnet={kvStr toks "magnet"} err={err}"] else []) ++
    (if done = "1" && disk ≠ "ok" then ["C10 completed-with-wrong-files", "C01 completed-with-wrong-files"] else []) ++
    (if enc = "plaintext-peer" then ["C12 forced-encryption-plaintext-peer"] else []) ++
    (if parseNat! hav > parseNat! good then [s!"C01 more-pieces-claimed-than-correct-on-disk have={hav} good={good}"] else [])
  let files := commaList (kvStr toks "files")
  let tags :=
    (if files.length ≥ 2 then ["nontrivial"] else []) ++
    (if files.any (·.endsWith ":1") then ["branch:padding"] else []) ++
    (if files.any (·.startsWith "0:") then ["branch:empty-file"] else []) ++
    [s!"branch:src-{kvStr toks "src"}", s!"branch:enc-{kvStr toks "enc"}"] ++
    (if kvStr toks "magnet" = "1" then ["branch:magnet"] else []) ++ (if kvStr toks "seq" = "1" then ["branch:sequential"] else [])
  (s!"done=1 disk=ok enc={if enc = "plaintext-peer" then "ok" else enc} err=-{tail}", viol, tags)

def suite : Suite where
  name := "e2e"
  runCase ops :=
    let rs := ops.map fun (op, obs) => step op obs
    (rs.map fun (o, v, _) => (o, v), (rs.flatMap fun (_, _, t) => t).eraseDups)

end Driver.Suites.E2E
