import Driver.Util
import RainModel.Model.PickerInv
/-!
Suite `picker` (C09): op sequences on the exported `PiecePicker` API inside the loop's glue.

ops / observations: see `harness/overlay/internal/verifharness/suite_picker.go`.
Per op the model prints `<result> <dump>`; for `pick`/`pickweb` the implementation's result must be
one of the admissible outcomes (else `inadmissible …`, and the model continues from the
implementation's dumped state).  Oracle on the implementation's observation: every clause of
`PickInv` on the dumped state, `PickSafe` and `SeqLowest` for every returned pick (evaluated in the
implementation's previous state), no panic.
-/
namespace Driver.Suites.Picker
open Driver Rain.Picker

/-! ### printing -/

def insertSorted (x : Nat) : List Nat → List Nat
  | [] => [x]
  | y :: r => if x ≤ y then x :: y :: r else y :: insertSorted x r

def sortNat (l : List Nat) : List Nat := l.foldr insertSorted []

def dotList (l : List Nat) : String :=
  if l.isEmpty then "-" else ".".intercalate (l.map toString)

def showPiece (pc : Piece) : String :=
  let ws := match pc.webseed with | none => "-" | some k => toString k
  s!"{dotList (sortNat pc.having)};{dotList (sortNat pc.requested)};{dotList (sortNat pc.snubbed)};{dotList (sortNat pc.choked)};{ws};{boolStr pc.writing}{boolStr pc.done}{boolStr pc.head}{boolStr pc.tail}"

def showPeer (ps : PeerSt) : String :=
  let dl := match ps.dl with | none => "-" | some (i, af) => s!"{i}:{boolStr af}"
  s!"{boolStr ps.choking}{boolStr ps.closed};{dl};{dotList ps.af}"

def showSrc : Option Dl → String
  | none => "-"
  | some d => s!"{d.b}.{d.e}.{d.c}"

def joinOr (sep : String) (l : List String) : String := if l.isEmpty then "-" else sep.intercalate l

def dump (s : State) : String :=
  s!"av={s.available} eg={boolStr s.endgame} mw={s.maxWeb} P=" ++
  "|".intercalate ((List.range s.n).map fun i => showPiece (s.pieces i)) ++
  " S=" ++ joinOr "," ((List.range s.ns).map fun k => showSrc (s.srcs k)) ++
  " Q=" ++ joinOr "|" ((List.range s.np).map fun p => showPeer (s.peers p))

/-- Same state, functions backed by arrays (keeps lookups O(1) over a long case). -/
def normalise (s : State) : State :=
  let pa := ((List.range s.n).map s.pieces).toArray
  let qa := ((List.range s.np).map s.peers).toArray
  let sa := ((List.range s.ns).map s.srcs).toArray
  { s with
    pieces := fun i => if h : i < pa.size then pa[i] else s.pieces i
    peers := fun p => if h : p < qa.size then qa[p] else s.peers p
    srcs := fun k => if h : k < sa.size then sa[k] else s.srcs k }

/-! ### parsing the implementation's dump -/

def parseDots (t : String) : List Nat :=
  if t = "-" ∨ t = "" then [] else (t.splitOn ".").map parseNat!

def bit (t : String) (k : Nat) : Bool := (t.toList.getD k '0') = '1'

def parsePiece (t : String) : Piece :=
  match t.splitOn ";" with
  | [h, r, sn, c, w, f] =>
    { having := parseDots h, requested := parseDots r, snubbed := parseDots sn, choked := parseDots c,
      webseed := if w = "-" then none else some (w.toNat?.getD 1000000),
      writing := bit f 0, done := bit f 1, head := bit f 2, tail := bit f 3 }
  | _ => {}

def parsePeer (t : String) : PeerSt :=
  match t.splitOn ";" with
  | [f, d, a] =>
    { choking := bit f 0, closed := bit f 1,
      dl := match d.splitOn ":" with
        | [i, x] => some (parseNat! i, x = "1")
        | _ => none
      af := parseDots a }
  | _ => {}

def parseSrc (t : String) : Option Dl :=
  match t.splitOn "." with
  | [b, e, c] => some ⟨parseNat! b, parseNat! e, parseNat! c⟩
  | _ => none

/-- The implementation's state as a `State` (configuration taken from `cfg`). -/
def parseDump (cfg : State) (toks : List String) : State :=
  let ps := let t := kvStr toks "P"; if t = "" then [] else (t.splitOn "|").map parsePiece
  let qs := let t := kvStr toks "Q"; if t = "-" ∨ t = "" then [] else (t.splitOn "|").map parsePeer
  let ss := let t := kvStr toks "S"; if t = "-" ∨ t = "" then [] else (t.splitOn ",").map parseSrc
  let pa := ps.toArray
  let qa := qs.toArray
  let sa := ss.toArray
  { cfg with
    n := pa.size, pieces := fun i => pa.getD i {}
    np := qa.size, peers := fun p => qa.getD p {}
    ns := sa.size, srcs := fun k => sa.getD k none
    maxWeb := kvNat toks "mw", available := kvNat toks "av", endgame := kvBool toks "eg" }

/-! ### ops -/

def parseSecs (t : String) : List (List Sec) :=
  if t = "" ∨ t = "-" then [] else
  (t.splitOn "/").map fun pt =>
    (pt.splitOn "+").filterMap fun x =>
      match x.splitOn "." with
      | [nm, o, l, pd] => some { name := parseNat! nm, off := parseNat! o, len := parseNat! l, pad := pd = "1" }
      | _ => none

def newState (toks : List String) : State :=
  let secs := parseSecs (kvStr toks "secs")
  let doneL := natList (kvStr toks "done")
  let flags := secs.zipIdx.map fun (mine, i) =>
    let (h, t) := fileEdges secs mine
    (doneL.contains i, h, t)
  init flags (kvNat toks "dup") (kvNat toks "srcs") (kvBool toks "seq")

def parseOp (toks : List String) : Option Op :=
  let p := kvNat toks "p"; let i := kvNat toks "i"; let k := kvNat toks "k"
  match toks.head? with
  | some "connect" => some .connect
  | some "have" => some (.have p i)
  | some "afast" => some (.afast p i)
  | some "unchoke" => some (.unchoke p)
  | some "choke" => some (.choke p)
  | some "snub" => some (.snub p)
  | some "cancel" => some (.cancel p)
  | some "disc" => some (.disc p)
  | some "pick" => some (.pick p)
  | some "pdone" => some (.pdone p)
  | some "wwrite" => some (.wwrite i)
  | some "wok" => some (.wok i (kvBool toks "web"))
  | some "wfail" => some (.wfail i)
  | some "pickweb" => some (.pickweb k)
  | some "wadv" => some (.wadv k)
  | some "closeweb" => some (.closeweb k)
  | _ => none

/-- Raw API calls outside the protocol: the picker's own functions on arbitrary arguments. -/
def rawStep (s : State) (toks : List String) : Option (R (State × String)) :=
  let p := kvNat toks "p"; let i := kvNat toks "i"; let k := kvNat toks "k"
  let guardP (r : R State) : Option (R (State × String)) :=
    if p < s.np then some (r.map (·, "ok")) else some (.ok (s, "skip"))
  match toks.head? with
  | some "rawsnub" => guardP (handleSnubbed s p i)
  | some "rawchoke" => guardP (handleChoke s p i)
  | some "rawunchoke" => guardP (handleUnchoke s p i)
  | some "rawcancel" => guardP (handleCancelDownload s p i)
  | some "rawhave" => if i < s.n then guardP (handleHave s p i) else some (.ok (s, "skip"))
  | some "rawstopat" =>
    if p < s.np ∧ k < s.ns then
      some (match webseedStopAt s k i with
        | .ok (s1, c) => .ok (s1, "stop=" ++ boolStr c)
        | .error _ => .error "stopat")
    else some (.ok (s, "skip"))
  | _ => none

def showObs : Obs → String
  | .done => "ok"
  | .skip => "skip"
  | .pick none => "pick=-"
  | .pick (some (i, af)) => s!"pick={i}:{boolStr af}"
  | .web none => "web=-"
  | .web (some (b, e)) => s!"web={b}:{e}"

def panicKind (m : String) : String :=
  if m = "index" then "index"
  else if m = "peer snubbed while choked" then "snubbed-while-choked"
  else if m = "invalid source in piece" then "invalid-source"
  else if m = "already downloading from webseed url" then "already-downloading"
  else if m = "stopat" then "stopat"
  else "nil"

def showOut : R (State × Obs) → String
  | .ok (_, o) => showObs o
  | .error m => "panic:" ++ panicKind m

/-! ### one case -/

structure St where
  model : Option State := none
  impl : Option State := none      -- the implementation's previous dumped state
  dead : Bool := false
  raw : Bool := false              -- a raw API call happened: invariants are no longer expected
  tags : List String := []

def addTag (st : St) (t : String) : St := if st.tags.contains t then st else { st with tags := t :: st.tags }

/-- `pick=<i>:<af>` → `some i`. -/
def pickIdx (res : String) : Option Nat :=
  if res.startsWith "pick=" ∧ res ≠ "pick=-" then
    (((res.drop 5).toString.splitOn ":").head?).bind (·.toNat?)
  else none

/-- Oracle on one implementation observation (`pre` = implementation state before the op). -/
def oracle (cfg : State) (pre : Option State) (op : Option Op) (implRes : String) (implToks : List String) : List String :=
  if implRes.startsWith "panic:" then [s!"C09 panic kind={(implRes.drop 6).toString}"]
  else if implRes = "dead" ∨ implRes = "nostate" ∨ implRes = "" ∨ implRes = "skip" then []
  else
    let post := parseDump cfg implToks
    let inv := (clauses post).filterMap fun (nm, ok) => if ok then none else some s!"C09 invariant clause={nm}"
    let pk : List String :=
      match op, pre with
      | some (.pick p), some s0 =>
        if implRes = "skip" then [] else
        let r := pickIdx implRes
        (match r with
          | some i => if decide (PickSafe s0 p i) then [] else
              [s!"C09 unsafe-pick peer={p} piece={i} kind=" ++
                (if i ≥ s0.n then "range" else if (s0.pieces i).done then "done" else if (s0.pieces i).writing then "writing"
                 else if !(s0.pieces i).having.contains p then "not-having"
                 else if (s0.peers p).dl.isSome then "second-download" else "choking")]
          | none => []) ++
        (if decide (SeqLowest s0 p r) then [] else
          [s!"C09 sequential-not-lowest peer={p} got={implRes.drop 5} lowest={(lowestPickable s0 p).getD 0} kind=" ++
            (if s0.endgame then "endgame" else
             match r with
             | some i => if (s0.peers p).af.contains i then "allowed-fast-first" else "other"
             | none => "none")])
      | _, _ => []
    inv ++ pk

def step (st : St) (op implObs : String) : St × String × List String :=
  let toks := words op
  let itoks := words implObs
  let implRes := itoks.headD ""
  if toks.head? = some "new" then
    let s := normalise (newState toks)
    let out := "ok " ++ dump s
    let viol := oracle s none none implRes itoks
    ({ st with model := some s, impl := some (parseDump s itoks), dead := false, raw := false }, out, viol)
  else
  match st.model with
  | none => (st, "nostate", [])
  | some s =>
    if st.dead then (st, "dead", []) else
    match rawStep s toks with
    | some r =>
      -- outside the protocol: correspondence only, and the oracle is switched off for the rest of the case
      let st := addTag { st with raw := true } "raw-api-call"
      match r with
      | .ok (s1, res) => let s1 := normalise s1; ({ st with model := some s1 }, (if res = "skip" then res else res ++ " " ++ dump s1), [])
      | .error m => ({ st with dead := true }, "panic:" ++ panicKind m, [])
    | none =>
    let mop := parseOp toks
    let viol := if st.raw then [] else oracle s st.impl mop implRes itoks
    let implSt := if implRes.startsWith "panic:" ∨ implRes = "dead" ∨ implRes = "skip" then st.impl else some (parseDump s itoks)
    match mop with
    | none => ({ st with impl := implSt }, "skip", viol)
    | some o =>
      let outs := Rain.Picker.step false s o
      let st := addTag st ("op:" ++ toks.headD "")
      -- the outcome the implementation took
      match outs.find? fun r => showOut r = implRes with
      | some (.ok (s1, ob)) =>
        let s1 := normalise s1
        let st := addTag st ("res:" ++ toks.headD "" ++ ":" ++ (match ob with
          | .done => "ok" | .skip => "skip" | .pick none => "none" | .pick (some (_, af)) => "piece-af" ++ boolStr af
          | .web none => "none" | .web (some _) => "range"))
        let st := if outs.length > 1 then addTag st "branch:choice-among-equals" else st
        let st := match o, ob with
          | .pick p, .pick (some (i, af)) =>
            let pc := s.pieces i
            addTag st ("branch:pick:" ++
              (if downloadingWebseed s then (if pc.webseed.isSome then "peer-steals-from-webseed" else "last-of-smallest-gap")
               else if !pc.requested.isEmpty then (if s1.endgame then "endgame-duplicate" else "stalled-rerequest")
               else if s.sequential && !(s.peers p).choking && (pc.head || pc.tail) then "file-edge"
               else if af && (s.peers p).choking then "allowed-fast-while-choked"
               else if af && !s.sequential then "allowed-fast-unchoked"
               else if s.sequential then "sequential" else "rarest"))
          | .pickweb _, .web (some (b, e)) =>
            addTag st ("branch:pickweb:" ++
              (if (findGaps s).isEmpty then "steal-from-webseed"
               else if s.sequential && e = b + 1 && (s.pieces b).tail then "sequential-tail"
               else if s.sequential then "first-gap" else "largest-gap") ++ (if e > b + 1 then "-long" else ""))
          | .wok i false, _ => if (s.pieces i).webseed.isSome then addTag st "branch:wok:truncates-webseed-range" else st
          | _, _ => st
        let st := if s1.endgame then addTag st "branch:endgame" else st
        ({ st with model := some s1, impl := implSt }, (if ob = .skip then "skip" else showObs ob ++ " " ++ dump s1), viol)
      | some (.error m) => ({ st with dead := true, impl := implSt }, "panic:" ++ panicKind m, viol)
      | none =>
        match outs with
        | [.ok (s1, ob)] =>
          -- deterministic step: print the model's own answer (the diff shows the disagreement)
          let s1 := normalise s1
          ({ st with model := some s1, impl := implSt }, (if ob = .skip then "skip" else showObs ob ++ " " ++ dump s1), viol)
        | [.error m] => ({ st with dead := true, impl := implSt }, "panic:" ++ panicKind m, viol)
        | _ =>
          let choices := " ".intercalate (outs.map showOut)
          ({ st with model := implSt.map normalise, impl := implSt },
            s!"inadmissible impl={implRes} admissible=[{choices}]", viol)

def suite : Suite where
  name := "picker"
  runCase ops :=
    let (st, rs) := foldCase ({} : St) step ops
    let nt := ["op:pick", "op:have", "op:unchoke"].all st.tags.contains ∧
      (st.tags.any fun t => t = "res:pick:piece-af0" ∨ t = "res:pick:piece-af1")
    (rs, (if nt then ["nontrivial"] else []) ++ st.tags.reverse)

end Driver.Suites.Picker
