import Driver.Util
import RainModel.Model.Geometry
/-!
Suite `geometry` (C02): `piece.NewPieces`, `filesection.Piece.ReadAt/Write` on in-memory files,
`urldownloader.createJobs`.  Op and observation formats: see `suite_geometry.go`.

The oracles are the predicates of the theorems in `Props/C02`, evaluated on the implementation's
observations: `TilesFiles` (newPieces_tiles), `writeOK` / `readOK` (read_write_roundtrip),
`JobsCover` (jobs_cover).  They are only asked where the theorem's hypotheses hold (`WF`,
`namesOK`, buffer of the piece's length, range inside the piece).
-/
namespace Driver.Suites.Geometry
open Driver Rain.Geometry

structure St where
  files : List FileEnt := []
  pieces : List Piece := []
  store : Store := []
  wf : Bool := false
  valid : Bool := false        -- a `newpieces` op succeeded on the implementation

def parseFiles (s : String) : List FileEnt :=
  (commaList s).filterMap fun t =>
    match t.splitOn ":" with
    | [l, p, n] => some { len := parseNat! l, pad := p = "1", name := parseNat! n }
    | _ => none

def showSec (s : Sec) : String := s!"{s.file}:{s.off}:{s.len}:{boolStr s.pad}:{s.name}"

def showPiece (p : Piece) : String :=
  s!"{p.len}|" ++ (if p.secs.isEmpty then "-" else "+".intercalate (p.secs.map showSec))

def showPieces (ps : List Piece) : String :=
  if ps.isEmpty then "ok -" else "ok " ++ ";".intercalate (ps.map showPiece)

def parseSec? (t : String) : Option Sec :=
  match t.splitOn ":" with
  | [f, o, l, p, n] =>
    match f.toNat?, o.toNat?, l.toNat?, n.toNat? with
    | some f, some o, some l, some n => some { file := f, off := o, len := l, pad := p = "1", name := n }
    | _, _, _, _ => none
  | _ => none

def parsePiece? (t : String) : Option Piece :=
  match t.splitOn "|" with
  | [l, ss] =>
    match l.toNat? with
    | none => none
    | some l =>
      if ss = "-" then some { len := l, secs := [] }
      else (ss.splitOn "+").mapM parseSec? |>.map fun secs => { len := l, secs := secs }
  | _ => none

/-- `ok <pieces>` → pieces. -/
def parsePieces? (obs : String) : Option (List Piece) :=
  if obs = "ok -" then some []
  else if obs.startsWith "ok " then ((obs.drop 3).toString.splitOn ";").mapM parsePiece?
  else none

def initStore (files : List FileEnt) : Store :=
  files.zipIdx.map fun (f, i) =>
    if f.pad then .padding else .data ((List.range f.len).map fun o => (31 * i + 7 * o + 3) % 256)

def showStore (st : Store) : String :=
  if st.isEmpty then "-" else
  ",".intercalate (st.map fun | .padding => "P" | .data [] => "_" | .data bs => hex bs)

def parseStore? (s : String) : Option Store :=
  (commaList s).mapM fun t =>
    if t = "P" then some .padding else if t = "_" then some (.data []) else (unhex? t).map .data

def showW : WOut → String
  | .ok st n => s!"ok n={n} files={showStore st}"
  | .err st n => s!"err n={n} files={showStore st}"
  | .panic st => s!"panic files={showStore st}"

def parseW? (obs : String) : Option WOut :=
  let toks := words obs
  match toks.head?, parseStore? (kvStr toks "files") with
  | some "ok", some st => some (.ok st (kvNat toks "n"))
  | some "err", some st => some (.err st (kvNat toks "n"))
  | some "panic", some st => some (.panic st)
  | _, _ => none

def showR (sep : String) : ROut → String
  | .ok bs => s!"ok{sep}{hex bs}"
  | .short bs => s!"short{sep}{bs.length}{sep}{hex bs}"
  | .panic => "panic"

def parseR? (sep : String) (obs : String) : Option ROut :=
  match obs.splitOn sep with
  | ["panic"] => some .panic
  | ["ok", h] => (unhex? h).map .ok
  | ["short", _, h] => (unhex? h).map .short
  | _ => none

def showJobs : Option (List Job) → String
  | none => "panic"
  | some [] => "-"
  | some js => ",".intercalate (js.map fun j => s!"{j.name}:{j.begin}:{j.len}:{boolStr j.pad}")

def parseJobs? (obs : String) : Option (List Job) :=
  if obs = "panic" then none else
  (commaList obs).mapM fun t =>
    match t.splitOn ":" with
    | [n, b, l, p] =>
      match n.toNat?, b.toNat?, l.toNat? with
      | some n, some b, some l => some { name := n, begin := b, len := l, pad := p = "1" }
      | _, _, _ => none
    | _ => none

/-- All `(off, n)` with `0 < n`, `off + n ≤ len`, in the harness's order. -/
def allRanges (len : Nat) : List (Nat × Nat) :=
  (List.range len).flatMap fun off => (List.range (len - off)).map fun k => (off, k + 1)

def classifyTiles (files : List FileEnt) (pl n L : Nat) (ps : List Piece) : String :=
  if ps.length ≠ n then "piece-count"
  else if secStream (allSecs ps) ≠ fileStreamFrom 0 files then "stream"
  else if !(ps.all fun p => p.len == (p.secs.map (·.len)).sum) then "piece-length-vs-sections"
  else if !(lensOK pl ps) then "piece-lengths"
  else if (ps.map (·.len)).sum ≠ L then "total"
  else "section-meta"

/-- op, impl obs → new state, model obs, violations, tags -/
def step (st : St) (op implObs : String) : St × String × List String × List String :=
  let toks := words op
  match toks.head? with
  | some "newpieces" =>
    let files := parseFiles (kvStr toks "files")
    let pl := kvNat toks "pl"
    let np := kvNat toks "np"
    let L := kvNat toks "len"
    let model := newPieces files pl np L
    let wf : Bool := decide (WF files pl np L)
    let mobs := match model with
      | .ok (ps, _) => showPieces ps
      | .panic => "panic"
      | .fuel => "model-fuel-exhausted"
    let impl := parsePieces? implObs
    let viol :=
      if wf then
        match impl with
        | none => [s!"C02 newpieces-failed obs={implObs.take 20}"]
        | some ps => if TilesFiles files pl np L ps then [] else [s!"C02 pieces-not-tiling kind={classifyTiles files pl np L ps}"]
      else []
    -- the step bound of `newPieces_steps_le`, re-checked on the model's own run
    let viol := viol ++ (match model with
      | .ok (_, steps) => if steps ≤ np + files.length then [] else ["C02 model-steps-bound"]
      | .fuel => ["C02 model-fuel"]
      | .panic => [])
    let ps := match impl, model with
      | some ps, _ => ps
      | none, .ok (ps, _) => ps
      | _, _ => []
    let tags :=
      (if wf then ["wf"] else ["malformed"]) ++
      (if files.any (·.pad) then ["has-padding"] else []) ++
      (if files.any (fun f => f.len = 0) then ["zero-len-file"] else []) ++
      (if ps.any (fun p => p.secs.length ≥ 2) then ["multi-section-piece"] else []) ++
      (if ps.any (fun p => p.secs.all (·.pad) && !p.secs.isEmpty) then ["whole-piece-padding"] else []) ++
      (match model with | .panic => ["branch:nextfile-panic"] | _ => []) ++
      (if wf ∧ files.any (·.pad) ∧ ps.any (fun p => p.secs.length ≥ 2) then ["nontrivial"] else [])
    ({ files := files, pieces := ps, store := initStore files, wf := wf && namesOK files,
       valid := impl.isSome }, mobs, viol, tags)
  | some "write" =>
    let i := kvNat toks "piece"
    match (if st.valid then st.pieces[i]? else none) with
    | none => (st, "nopiece", [], [])
    | some p =>
      let buf := unhex! (kvStr toks "buf")
      let model := write st.store p.secs buf 0
      let impl := parseW? implObs
      let pre : Bool := st.wf && buf.length == secsLen p.secs && fits st.store p.secs
      let viol :=
        if pre then
          match impl with
          | some r => if writeOK st.store p.secs buf r then [] else [s!"C02 write-wrong piece={i}"]
          | none => [s!"C02 write-unparsed piece={i}"]
        else []
      let store' := match impl, model with
        | some (.ok s _), _ => s
        | some (.err s _), _ => s
        | some (.panic s), _ => s
        | _, .ok s _ => s
        | _, .err s _ => s
        | _, .panic s => s
      let tags := (match model with | .panic _ => ["branch:write-panic"] | .err _ _ => ["branch:write-err"] | .ok _ _ => ["branch:write-ok"]) ++
        (if p.secs.any (·.pad) then ["write-skips-padding"] else [])
      ({ st with store := store' }, showW model, viol, tags)
  | some "readat" =>
    let i := kvNat toks "piece"
    match (if st.valid then st.pieces[i]? else none) with
    | none => (st, "nopiece", [], [])
    | some p =>
      let off := kvNat toks "off"
      let n := kvNat toks "n"
      let model := readAt st.store p.secs off n
      let pre : Bool := st.wf && fits st.store p.secs && 0 < n && off + n ≤ secsLen p.secs
      let viol :=
        if pre then
          match parseR? " " implObs with
          | some r => if readOK st.store p.secs off n r then [] else [s!"C02 readat-wrong piece={i} off={off} n={n}"]
          | none => [s!"C02 readat-unparsed piece={i}"]
        else []
      let tags := match model with | .panic => ["branch:read-panic"] | .short _ => ["branch:read-short"] | .ok _ => ["branch:read-ok"]
      (st, showR " " model, viol, tags)
  | some "readall" =>
    let i := kvNat toks "piece"
    match (if st.valid then st.pieces[i]? else none) with
    | none => (st, "nopiece", [], [])
    | some p =>
      let rs := allRanges p.len
      let mobs := if rs.isEmpty then "-" else ";".intercalate (rs.map fun (off, n) => showR ":" (readAt st.store p.secs off n))
      let pre : Bool := st.wf && fits st.store p.secs && p.len == secsLen p.secs
      let viol :=
        if pre then
          let impls := if implObs = "-" then [] else implObs.splitOn ";"
          if impls.length ≠ rs.length then [s!"C02 readall-count piece={i}"] else
          (rs.zip impls).filterMap fun ((off, n), o) =>
            match parseR? ":" o with
            | some r => if readOK st.store p.secs off n r then none else some s!"C02 readat-wrong piece={i} off={off} n={n}"
            | none => some s!"C02 readat-unparsed piece={i}"
        else []
      (st, mobs, viol.take 3, ["readall"])
  | some "jobs" =>
    if !st.valid then (st, "nopiece", [], []) else
    let b := kvNat toks "begin"
    let e := kvNat toks "end"
    let model := createJobs st.pieces b e
    let pre : Bool := st.wf && b ≤ e && e ≤ st.pieces.length
    let viol :=
      if pre then
        match parseJobs? implObs with
        | some js =>
          if JobsCover (secsOfRange st.pieces b e) js then [] else [s!"C02 jobs-not-covering begin={b} end={e}"]
        | none => [s!"C02 jobs-failed begin={b} end={e}"]
      else []
    let tags := (match model with | none => ["branch:jobs-panic"] | some _ => []) ++
      (if b > 0 ∧ b < e then ["jobs-begin>0"] else [])
    (st, showJobs model, viol, tags)
  | _ => (st, "unknown-op", [], [])

def suite : Suite where
  name := "geometry"
  runCase ops :=
    let (_, rs) := ops.foldl
      (fun (p : St × List (String × List String × List String)) (o : String × String) =>
        let (s', obs, vs, tags) := step p.1 o.1 o.2
        (s', (obs, vs, tags) :: p.2)) ({}, [])
    let rs := rs.reverse
    (rs.map fun (o, v, _) => (o, v), (rs.flatMap fun (_, _, t) => t).eraseDups)

end Driver.Suites.Geometry
