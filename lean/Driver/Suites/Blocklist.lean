import Driver.Util
import RainModel.Model.STree
import RainModel.Model.Blocklist
/-!
Suite `blocklist` (C18): `blocklist.Reload/Blocked/Len` and the raw segment tree.

ops  : `reload text=<hex> [long=<n>]` | `blocked ips=<u32,…>` | `blockedv6` | `len`
       | `stree ranges=<lo>-<hi>,… q=<u32,…>`
obs  : `ok:<n>` / `err:toolong` / `err:novalid` / `err:other` | bits | bit | `<n>` | bits

Oracle (on the implementation's answers): after a reload the implementation reported as
successful, every `Blocked` answer must equal linear-scan membership in the ranges of that
text, and the reported count must be the number of well-formed rule lines; an address
without IPv4 form is never blocked; `stree` answers must equal the linear scan.
-/
namespace Driver.Suites.Blocklist
open Driver Rain.STree Rain.Blocklist

structure St where
  model : Blocklist := {}
  /-- rules of the last reload the *implementation* accepted -/
  implRules : List IPRange := []

def bits (l : List Bool) : String :=
  if l.isEmpty then "-" else String.ofList (l.map fun b => if b then '1' else '0')

def parseBits (s : String) : List Bool :=
  if s = "-" then [] else s.toList.map (· = '1')

def textOf (toks : List String) : Bytes :=
  let t := unhex! (kvStr toks "text")
  let n := kvNat toks "long"
  if n > 0 then t ++ [10] ++ List.replicate n 55 else t

def parseRanges (s : String) : List (Nat × Nat) :=
  (commaList s).map fun t =>
    match t.splitOn "-" with
    | [a, b] => (parseNat! a, parseNat! b)
    | _ => (0, 0)

def showReload : ReloadObs → String
  | .ok n => s!"ok:{n}"
  | .err .tooLong => "err:toolong"
  | .err .noValidRules => "err:novalid"
  | .panic => "panic"

def step (st : St) (op implObs : String) : St × String × List String × List String :=
  let toks := words op
  match toks.head? with
  | some "reload" =>
    let text := textOf toks
    let (m', o) := st.model.reload text
    let rules := rulesOf text
    let implOk := implObs.startsWith "ok:"
    -- the outcome `load_semantics` prescribes, computed from the declarative reading of the text
    let want :=
      if tooLong text then "err:toolong"
      else if rules.isEmpty ∧ hasMalformed text then "err:novalid"
      else s!"ok:{rules.length}"
    let viol :=
      if implOk ∧ implObs ≠ s!"ok:{rules.length}" then
        [s!"C18 reload-count impl={implObs} want=ok:{rules.length}"]
      else if implObs.startsWith "panic" then ["C18 reload-panic"]
      else if implObs ≠ want then [s!"C18 reload-outcome impl={implObs} want={want}"]
      else []
    let tags :=
      (if hasMalformed text then ["branch:malformed-line"] else []) ++
      (match o with
        | .ok _ => ["branch:reload-ok"]
        | .err .tooLong => ["branch:reload-toolong"]
        | .err .noValidRules => ["branch:reload-novalid"]
        | .panic => ["branch:reload-panic"]) ++
      (if rules.length ≥ 2 then ["multi-rule"] else []) ++
      (if rules.isEmpty ∧ o = .ok 0 then ["branch:reload-empty"] else [])
    ({ model := m', implRules := if implOk then rules else st.implRules }, showReload o, viol, tags)
  | some "blocked" =>
    let ips := natList (kvStr toks "ips")
    let model := ips.map fun v => st.model.blocked (some v)
    let impl := parseBits implObs
    let want := ips.map fun v => inRules st.implRules v
    let bad := (ips.zip (impl.zip want)).filter fun (_, i, w) => i ≠ w
    let viol :=
      if impl.length ≠ ips.length then [s!"C18 blocked-answer-shape impl={implObs}"] else
      match bad.head? with
      | none => []
      | some (v, i, w) => [s!"C18 blocked-mismatch ip={v} impl={boolStr i} linear-scan={boolStr w}"]
    let tags := (if want.any id ∧ want.any (!·) then ["mixed-answers"] else [])
    (st, bits model, viol, tags)
  | some "resolve" =>
    -- resolver.Resolve: refused as blocked iff the address (literal, or what the host name resolves to) is in a
    -- loaded range.  "L" = localhost = 127.0.0.1; a failed lookup of it is the environment's business (echoed).
    let hosts := commaList (kvStr toks "hosts")
    let addr (h : String) : Nat := if h = "L" then 2130706433 else parseNat! h
    let implCs := implObs.toList
    let wantCs := hosts.map fun h => if inRules st.implRules (addr h) then '1' else '0'
    let modelCs := (hosts.zip ((List.range hosts.length).map fun i => implCs.getD i '?')).map fun (h, c) =>
      if h = "L" && c = 'e' then 'e' else (if st.model.blocked (some (addr h)) then '1' else '0')
    let bad := (hosts.zip (implCs.zip wantCs)).filter fun (h, i, w) => i ≠ w && !(h = "L" && i = 'e')
    let viol :=
      if implCs.length ≠ hosts.length then [s!"C18 resolve-answer-shape impl={implObs}"] else
      match bad.head? with
      | none => []
      | some (h, i, w) => [s!"C18 resolve-blocked-mismatch host={h} impl={i} linear-scan={w}"]
    let tags := (if hosts.contains "L" && (implCs.headD '?') ≠ 'e' then ["branch:resolve-hostname"] else [])
    (st, String.ofList modelCs, viol, tags)
  | some "blockedv6" =>
    let viol := if implObs = "0" then [] else ["C18 blocked-non-ipv4"]
    (st, boolStr (st.model.blocked none), viol, [])
  | some "len" => (st, toString st.model.count, [], [])
  | some "stree" =>
    let ranges := parseRanges (kvStr toks "ranges")
    let qs := natList (kvStr toks "q")
    let impl := parseBits implObs
    let want := qs.map fun v => linearContains ranges v
    let model :=
      match ofRanges ranges with
      | none => "panic"
      | some t => bits (qs.map t.contains)
    let bad := (qs.zip (impl.zip want)).filter fun (_, i, w) => i ≠ w
    let viol :=
      if impl.length ≠ qs.length then [s!"C18 stree-answer-shape impl={implObs}"] else
      match bad.head? with
      | none => []
      | some (v, i, w) => [s!"C18 stree-mismatch v={v} impl={boolStr i} linear-scan={boolStr w}"]
    let overlapping := ranges.any fun a => ranges.any fun b =>
      a.1 < b.1 ∧ b.1 ≤ a.2 ∧ a.2 < b.2
    let tags := (if overlapping then ["partial-overlap"] else []) ++
      (if ranges.length ≥ 2 ∧ want.any id ∧ want.any (!·) then ["stree-mixed"] else [])
    (st, model, viol, tags)
  | _ => (st, "unknown-op", [], [])

def suite : Suite where
  name := "blocklist"
  runCase ops :=
    let (_, acc) := ops.foldl
      (fun (p : St × List ((String × List String) × List String)) (o : String × String) =>
        let (s, acc) := p
        let (s', obs, vs, tags) := step s o.1 o.2
        (s', ((obs, vs), tags) :: acc)) ({}, [])
    let rs := acc.reverse
    let tags := (rs.flatMap (·.2)).eraseDups
    let nontrivial :=
      (tags.contains "multi-rule" ∧ tags.contains "mixed-answers") ∨ tags.contains "stree-mixed"
    (rs.map (·.1), if nontrivial then "nontrivial" :: tags else tags)

end Driver.Suites.Blocklist
