import Driver.Util
import RainModel.Model.Semaphore
/-!
Suite `sem` (C17 `semaphore_bound`): the real `internal/semaphore` under scripted goroutines,
replayed on the counter model `Rain.Semaphore` (a `wait` is the action sequence
waitInc, [acquire, waitDec, activeInc]; a `signal` is release, activeDec followed by the woken
goroutine's acquire, waitDec, activeInc).  Which waiter wakes up is the implementation's choice
(fed; admissible: any goroutine that is waiting).  Oracle: at every observation `0 ≤ len ≤ n`,
`0 ≤ waiting`, and a woken goroutine was waiting.
-/
namespace Driver.Suites.Sem
open Driver
open Rain.Semaphore

structure DS where
  s : Option State := none
  holders : List Nat := []
  waiters : List Nat := []
  known : List Nat := []
  tags : List String := []

def DS.tag (d : DS) (t : String) : DS := if d.tags.contains t then d else { d with tags := t :: d.tags }

def showStats (s : State) : String := s!"len={s.active} waiting={s.waiting}"

def boundViol (s : State) (implObs : String) : List String :=
  let it := words implObs
  let l := kvInt it "len"
  let w := kvInt it "waiting"
  (if l > s.n ∨ l < 0 then [s!"C17 semaphore-exceeded len={l} n={s.n}"] else []) ++
  (if w < 0 then [s!"C17 semaphore-negative-waiting waiting={w}"] else [])

def step (d : DS) (op implObs : String) : DS × String × List String :=
  let toks := words op
  match toks.headD "" with
  | "new" =>
    let n := kvInt toks "n"
    match d.s with
    | some _ => (d, "refused", [])
    | none => if n < 1 then (d, "refused", []) else ({ d with s := some (init n 1000000) }, "ok", [])
  | "wait" =>
    match d.s with
    | none => (d, "nosem", [])
    | some s =>
      let id := kvNat toks "id"
      if d.known.contains id then (d, "refused", []) else
      let d := { d with known := id :: d.known }
      match run s [.waitInc, .acquire, .waitDec, .activeInc] with
      | some s' => ({ d with s := some s', holders := id :: d.holders }.tag "branch:acquired", "acq=1 " ++ showStats s', boundViol s implObs)
      | none =>
        match run s [.waitInc] with
        | some s' => ({ d with s := some s', waiters := d.waiters ++ [id] }.tag "branch:queued", "acq=0 " ++ showStats s', boundViol s implObs)
        | none => (d, "model-stuck", [])
  | "signal" =>
    match d.s with
    | none => (d, "nosem", [])
    | some s =>
      let id := kvNat toks "id"
      if !d.holders.contains id then (d.tag "branch:signal-refused", "refused", []) else
      let d := { d with holders := d.holders.filter (· ≠ id) }
      match run s [.release, .activeDec] with
      | none => (d, "model-stuck", [])
      | some s1 =>
        if d.waiters.isEmpty then ({ d with s := some s1 }.tag "branch:signal-idle", "woke=- " ++ showStats s1, boundViol s implObs)
        else
          let woke := natList ((kvStr (words implObs) "woke"))
          match woke, run s1 [.acquire, .waitDec, .activeInc] with
          | [j], some s2 =>
            if d.waiters.contains j then
              let d := if d.waiters.head? ≠ some j then d.tag "branch:woke-not-fifo" else d
              ({ d with s := some s2, waiters := d.waiters.filter (· ≠ j), holders := j :: d.holders }.tag "branch:woke",
                s!"woke={j} " ++ showStats s2, boundViol s implObs)
            else ({ d with s := some s2 }, s!"inadmissible woke={j}", [s!"C17 semaphore-woke-nonwaiter id={j}"] ++ boundViol s implObs)
          | _, _ => ({ d with s := some s1 }, "inadmissible " ++ implObs, boundViol s implObs)
  | "stats" =>
    match d.s with
    | none => (d, "nosem", [])
    | some s => (d, showStats s, boundViol s implObs)
  | _ => (d, "badop", [])

def suite : Suite where
  name := "sem"
  runCase ops :=
    let (d, rs) := foldCase ({} : DS) step ops
    let nt := d.tags.contains "branch:queued" ∧ d.tags.contains "branch:woke"
    (rs, (if nt then ["nontrivial"] else []) ++ d.tags.reverse)

end Driver.Suites.Sem
