import Driver.Util
import RainModel.Model.TrackerWire
/-!
Suite `trkwire` (C15): the bytes a tracker receives.

  `udp ih= pid= port= up= down= left= ev= nw= conn= tx= url=`   → datagram (hex)
  `udpconn tx=`                                                → connect datagram (hex)
  `http ih= pid= port= up= down= left= ev= nw= tid= base=`      → raw query string

Model observation = the Lean encoder's bytes / rendered query (compared textually).  Oracle on the
implementation's bytes: an independent decoder must find the torrent's info-hash, port, counters
and **all 20 peer-id bytes**, and key = last four peer-id bytes.
-/
namespace Driver.Suites.Trkwire
open Driver Rain.TrackerWire

def torrentOf (toks : List String) : Torrent :=
  { infoHash := unhex! (kvStr toks "ih"), peerID := unhex! (kvStr toks "pid"), port := kvInt toks "port",
    up := kvInt toks "up", down := kvInt toks "down", left := kvInt toks "left" }

/-- Names of the identity fields that an independent decoder does not find in `pkt`. -/
def udpMismatch (t : Torrent) (event : Nat) (numWant : Int) (pkt : Bytes) : List String :=
  match decodeAnnounce pkt with
  | none => ["undecodable"]
  | some (a, _) =>
    (if a.action = 1 then [] else ["action"]) ++
    (if a.infoHash = t.infoHash then [] else ["info_hash"]) ++
    (if a.peerID = t.peerID then [] else ["peer_id"]) ++
    (if a.port = t.port.toNat then [] else ["port"]) ++
    (if a.up = t.up ∧ a.down = t.down ∧ a.left = t.left then [] else ["counters"]) ++
    (if a.event = event then [] else ["event"]) ++
    (if a.numWant = numWant then [] else ["numwant"]) ++
    (if a.key = unbe (keyBytes t) then [] else ["key"])

/-- Parse a raw query `k=v&k=v` into pairs. -/
def splitQuery (s : String) : List (String × String) :=
  (s.splitOn "&").map fun kvs =>
    match kvs.splitOn "=" with
    | k :: rest => (k, "=".intercalate rest)
    | [] => ("", "")

def qget (q : List (String × String)) (k : String) : Option String := (q.find? (·.1 = k)).map (·.2)

def httpMismatch (t : Torrent) (event : Nat) (numWant : Int) (raw : String) : List String :=
  let q := splitQuery raw
  let q := if (q.head?.map (·.1)) = some "passkey" then q.drop 1 else q
  let esc (k : String) (want : Bytes) : List String :=
    match (qget q k).map (fun v => percentUnescape v.toList) with
    | some (some b) => if b = want then [] else [k]
    | _ => [k]
  let int (k : String) (want : Int) : List String :=
    if qget q k = some (toString want) then [] else [k]
  (if (q.take 2).map (·.1) = ["info_hash", "peer_id"] then [] else ["order"]) ++
  esc "info_hash" t.infoHash ++ esc "peer_id" t.peerID ++ int "port" t.port ++ int "uploaded" t.up ++
  int "downloaded" t.down ++ int "left" t.left ++ int "numwant" numWant ++
  (if qget q "event" = (if event ≠ 0 then some (eventName event) else none) then [] else ["event"]) ++
  (match (qget q "key").map (fun v => hexDec v.toList) with
   | some (some b) => if b = keyBytes t then [] else ["key"]
   | _ => ["key"])

def step (op implObs : String) : String × List String × List String :=
  let toks := words op
  match toks.head? with
  | some "udp" =>
    let t := torrentOf toks
    let ev := kvNat toks "ev"
    let nw := kvInt toks "nw"
    let url := unhex! (kvStr toks "url")
    let model := encodeAnnounce (kvNat toks "conn") (kvNat toks "tx") t ev nw url
    let viol := match unhex? implObs with
      | none => ["C15 udp-announce-not-built"]
      | some pkt =>
        let mm := udpMismatch t ev nw pkt
        if mm.isEmpty then [] else [s!"C15 udp-identity-mismatch fields={",".intercalate mm}"]
    let tags := ["branch:udp"] ++ (if url.length > 255 then ["branch:url-multi-chunk"] else []) ++
      (if url.isEmpty then ["branch:url-empty"] else []) ++
      (if keyBytes t ≠ [0, 0, 0, 0] then ["nontrivial"] else ["branch:pid-tail-zero"])
    (hex model, viol, tags)
  | some "udpconn" =>
    (hex (encodeConnect (kvNat toks "tx")), [], ["branch:udpconn"])
  | some "http" =>
    let t := torrentOf toks
    let ev := kvNat toks "ev"
    let nw := kvInt toks "nw"
    -- tid=<text> (URL-safe characters) or tidx=<hex> (any bytes)
    let tid : Bytes := if kvStr toks "tidx" ≠ "" then unhex! (kvStr toks "tidx")
      else if kvStr toks "tid" = "-" then [] else (kvStr toks "tid").toUTF8.toList.map (·.toNat)
    let model := (if kvStr toks "base" = "q" then "passkey=abc&" else "") ++ renderQuery (httpQuery t ev nw tid)
    let viol :=
      if implObs.startsWith "error:" then [s!"C15 http-announce-failed {implObs}"] ++
        -- C16: a tracker that answers keeps being used — also after it has handed out a tracker id, whatever its bytes
        (if tid ≠ [] then [s!"C16 announce-fails-after-tracker-id {implObs}"] else []) else
      let mm := httpMismatch t ev nw implObs
      if mm.isEmpty then [] else [s!"C15 http-identity-mismatch fields={",".intercalate mm}"]
    let tags := ["branch:http", "nontrivial"] ++ (if tid ≠ [] then ["branch:trackerid"] else []) ++ (if kvStr toks "tidx" ≠ "" then ["branch:trackerid-any-bytes"] else []) ++
      (if ev = 0 then ["branch:no-event"] else [])
    (model, viol, tags)
  | _ => ("bad-op", [], [])

def suite : Suite where
  name := "trkwire"
  runCase ops :=
    let rs := ops.map fun (op, obs) => step op obs
    (rs.map fun (o, v, _) => (o, v), (rs.flatMap fun (_, _, t) => t).eraseDups)

end Driver.Suites.Trkwire
