import Driver.Util
import RainModel.Model.MSE
/-!
Suite `mse` (C12): real `mse.Stream` handshakes replayed on `Model/MSE`.

A case is `params …` followed by one of `hs`, `in`, `out` (see `suite_mse.go`).  The observation of
`params` carries the values the model treats as cryptographic parameters (public keys, `S`, the
hashes, RC4 key-stream prefixes), computed by the harness with the Go standard library
independently of package `mse`; the driver echoes that line and builds a `Crypto` from it.

The model observation of a run op is rebuilt from the op's inputs alone (plus the first-read sizes,
which are the transport's choice and are checked for admissibility), so a textual difference is a
model/implementation disagreement.  The oracle (`C12 …` violations) is evaluated on the
implementation's observation only.
-/
namespace Driver.Suites.MSE
open Driver Rain.MSE

structure Params where
  xa : Bytes := []
  xb : Bytes := []
  ya : Bytes := []
  yb : Bytes := []
  s : Bytes := []
  req1 : Bytes := []
  req3 : Bytes := []
  hsk : List (Bytes × Bytes) := []
  ks : List (Bool × Bytes × Array Nat) := []

def parseParams (op obs : String) : Params :=
  let t := words op
  let o := words obs
  let hsk := ((kvStr o "hsk").splitOn ";").filterMap fun e =>
    match e.splitOn ":" with
    | [k, h] => some (unhex! k, unhex! h)
    | _ => none
  let ks := ((kvStr o "ks").splitOn ";").filterMap fun e =>
    match e.splitOn ":" with
    | [d, k, s] => some (d = "a", unhex! k, (unhex! s).toArray)
    | _ => none
  { xa := unhex! (kvStr t "xa"), xb := unhex! (kvStr t "xb"),
    ya := unhex! (kvStr o "ya"), yb := unhex! (kvStr o "yb"), s := unhex! (kvStr o "s"),
    req1 := unhex! (kvStr o "req1"), req3 := unhex! (kvStr o "req3"), hsk := hsk, ks := ks }

/-- The `Crypto` of one case.  For arguments the harness supplied no value for (e.g. the secret
derived from a garbage public key) the functions return lists of numbers ≥ 256: "some value that
does not occur in any byte stream" — the reading under which the named no-early-match hypothesis
holds.  A model run that needs a real value there disagrees with the implementation and is
reported. -/
def Params.crypto (p : Params) : Crypto where
  pub x := if x = p.xa then p.ya else if x = p.xb then p.yb else List.replicate 96 999
  dh y x := if (y = p.yb ∧ x = p.xa) ∨ (y = p.ya ∧ x = p.xb) then p.s else [999]
  req1 s := if s = p.s then p.req1 else List.replicate 20 1000
  req3 s := if s = p.s then p.req3 else List.replicate 20 1001
  hashSKey k := match p.hsk.find? (·.1 = k) with | some (_, h) => h | none => List.replicate 20 1002
  ks a s k := fun i =>
    if s = p.s then
      match p.ks.find? (fun e => e.1 = a ∧ e.2.1 = k) with
      | some (_, _, arr) => arr[i]?.getD 1003
      | none => 1003
    else 1003

def bit (n : Nat) : Nat := 2 ^ n

/-- Highest set bit below 2^32, 0 if none. -/
def highBit (pr : Nat) : Nat :=
  match (List.range 32).reverse.find? (fun b => pr &&& 2 ^ b ≠ 0) with
  | some b => 2 ^ b
  | none => 0

def lowBit (pr : Nat) : Nat :=
  match (List.range 32).find? (fun b => pr &&& 2 ^ b ≠ 0) with
  | some b => 2 ^ b
  | none => 0

def selectOf (mode : String) : Nat → Nat :=
  if mode = "rc4first" then acceptSelect false
  else if mode = "force" then acceptSelect true
  else if mode = "plainfirst" then fun pr => if pr &&& 1 ≠ 0 then 1 else if pr &&& 2 ≠ 0 then 2 else 0
  else if mode = "low" then lowBit
  else if mode = "high" then highBit
  else if mode.startsWith "const:" then fun _ => parseNat! (mode.drop 6).toString
  else fun _ => 0

def getSKeyOf (c : Crypto) (keys : List Bytes) (liar : Bool) : Bytes → Option Bytes := fun h =>
  if liar then keys.head? else keys.find? (fun k => c.hashSKey k = h)

def hexList (s : String) : List Bytes := (commaList s).map unhex!

def resStr : Except Err Done → String
  | .ok d => s!"ok:{d.selected}"
  | .error e => s!"err:{e.toString}"

/-- What the endpoint reads from its stream after the handshake until the remote half-closes:
`extra` is what arrives after the bytes the handshake consumed (already in `d.rest`). -/
def gotOf (r : Except Err Done) : Bytes :=
  match r with
  | .ok d => (d.recv []).1
  | .error _ => []

/-- bytes an endpoint writes after a completed handshake. -/
def sentOf (r : Except Err Done) (p : Bytes) : Bytes :=
  match r with
  | .ok d => (d.send p).1
  | .error _ => []

def isOk : Except Err Done → Bool
  | .ok _ => true
  | .error _ => false

def selOf : Except Err Done → Nat
  | .ok d => d.selected
  | .error _ => 0

/-- Parse `ok:<n>` / `err:<e>` of an implementation observation. -/
def implRes (s : String) : Option Nat :=
  if s.startsWith "ok:" then some (parseNat! (s.drop 3).toString) else none

def singleBitOf (sel provide : Nat) : Bool :=
  isPowerOfTwo sel && sel &&& provide != 0

/-- The named hypothesis of `sync_found`, evaluated on the actual bytes: `key` does not occur in
`pub ‖ pad ‖ key` at an offset in `[fr, 96 + |pad|)`. -/
def noEarly (key pub pad : Bytes) (fr : Nat) : Bool :=
  let s := pub ++ pad ++ key
  (List.range (96 + pad.length)).all fun j => j < fr || (s.drop j).take key.length != key

def runHS (p : Params) (t : List String) (implObs : String) : String × List String × List String :=
  let c := p.crypto
  let io := words implObs
  let fra := kvNat io "fra"
  let frb := kvNat io "frb"
  let skey := unhex! (kvStr t "skey")
  let keysb := hexList (kvStr t "keysb")
  let provide := kvNat t "provide"
  let ia := unhex! (kvStr t "ia")
  let pa := unhex! (kvStr t "pa")
  let pb := unhex! (kvStr t "pb")
  let o : OutCfg := { x := p.xa, sKey := skey, provide := provide, ia := ia,
                      padA := unhex! (kvStr t "pada"), padCLen := kvNat t "padc" }
  let i : InCfg := { x := p.xb, padB := unhex! (kvStr t "padb"), padDLen := kvNat t "padd",
                     getSKey := getSKeyOf c keysb (kvBool t "liar"), select := selectOf (kvStr t "sel") }
  -- first reads: the transport's choice; 0 = that endpoint never got 96 bytes
  let s := session c o i fra frb
  -- after the handshake each side writes its payload and half-closes; the other reads to EOF
  let wireA := sentOf s.resA pa
  let wireB := sentOf s.resB pb
  let a2b := s.a2b ++ wireA
  let b2a := s.b2a ++ wireB
  let gota := match s.resA with | .ok d => (d.recv wireB).1 | .error _ => []
  let gotb := match s.resB with | .ok d => (d.recv wireA).1 | .error _ => []
  let frChk :=
    (if isOk s.resA ∨ fra ≠ 0 then
       (if 96 ≤ fra ∧ fra ≤ 608 ∧ fra ≤ 96 + i.padB.length then [] else [s!"inadmissible fra={fra}"]) else []) ++
    (if isOk s.resB ∨ frb ≠ 0 then
       (if 96 ≤ frb ∧ frb ≤ 608 ∧ frb ≤ 96 + o.padA.length then [] else [s!"inadmissible frb={frb}"]) else [])
  let modelObs :=
    if frChk.isEmpty then
      s!"a={resStr s.resA} b={resStr s.resB} fra={fra} frb={frb} a2b={hex a2b} b2a={hex b2a} gota={hex gota} gotb={hex gotb}"
    else " ".intercalate frChk
  -- oracle on the implementation's observation
  let ia' := implRes (kvStr io "a")
  let ib' := implRes (kvStr io "b")
  let igota := unhex! (kvStr io "gota")
  let igotb := unhex! (kvStr io "gotb")
  let keyKnown := (i.getSKey (c.hashSKey skey)) = some skey
  let viol :=
    (match ia', ib' with
     | some sa, some sb =>
       (if sa ≠ sb then [s!"C12 disagree a={sa} b={sb}"] else []) ++
       (if singleBitOf sa provide then [] else [s!"C12 selected-not-single-offered-bit sel={sa} provide={provide}"]) ++
       (if igotb ≠ ia ++ pa then ["C12 payload-a2b-changed"] else []) ++
       (if igota ≠ pb then ["C12 payload-b2a-changed"] else []) ++
       (if keyKnown then [] else ["C12 wrong-key-completed"])
     | some sa, none => [s!"C12 one-sided-completion a=ok:{sa} b={kvStr io "b"}"]
     | none, some sb => [s!"C12 one-sided-completion a={kvStr io "a"} b=ok:{sb}"]
     | none, none => []) ++
    -- liveness (`completes`): under the hypotheses of the theorem the handshake must complete
    (let sKeyS := c.dh p.ya p.xb
     let honest : Bool := decide (provide ≠ 0) && decide (provide < 4294967296) && decide (ia.length ≤ 65535) &&
       decide keyKnown &&
       (match selectedCheck (i.select provide) provide with | .ok _ => true | .error _ => false) &&
       decide (o.padA.length ≤ 511) && decide (i.padB.length ≤ 511) && decide (o.padCLen ≤ 511) &&
       decide (i.padDLen ≤ 511) &&
       noEarly (c.req1 sKeyS) p.ya o.padA 96 &&
       noEarly (xorAt (c.ks false sKeyS skey) 1024 vc) p.yb i.padB 96
     if honest && (ia'.isNone || ib'.isNone) then
       [s!"C12 honest-handshake-failed a={kvStr io "a"} b={kvStr io "b"} pads={o.padA.length},{i.padB.length},{o.padCLen},{i.padDLen}"]
     else [])
  let tags :=
    (if viol.isEmpty ∧ isOk s.resA ∧ isOk s.resB ∧ o.padA.length ≤ 511 ∧ i.padB.length ≤ 511 then ["branch:liveness-checked"] else []) ++
    (if isOk s.resA ∧ isOk s.resB then ["branch:both-ok", s!"branch:selected-{selOf s.resA}"] else ["branch:both-fail"]) ++
    (match s.resB with | .error e => [s!"branch:b-{e.toString}"] | _ => []) ++
    (match s.resA with | .error e => [s!"branch:a-{e.toString}"] | _ => []) ++
    (if fra > 96 ∨ frb > 96 then ["branch:firstread>96"] else []) ++
    (if o.padA.length = 511 ∨ i.padB.length = 511 ∨ o.padCLen = 511 ∨ i.padDLen = 511 then ["branch:pad511"] else []) ++
    (if ia.length ≥ 65534 then ["branch:ia-max"] else []) ++
    (if isOk s.resA ∧ isOk s.resB ∧ (o.padA.length + i.padB.length + o.padCLen + i.padDLen > 0) ∧ (ia.length + pa.length + pb.length > 0)
     then ["nontrivial"] else [])
  (modelObs, viol, tags)

def runIn (p : Params) (t : List String) (implObs : String) : String × List String × List String :=
  let c := p.crypto
  let io := words implObs
  let frb := kvNat io "frb"
  let keysb := hexList (kvStr t "keysb")
  let w1 := unhex! (kvStr t "w1")
  let w2 := unhex! (kvStr t "w2")
  let pb := unhex! (kvStr t "pb")
  let i : InCfg := { x := p.xb, padB := unhex! (kvStr t "padb"), padDLen := kvNat t "padd",
                     getSKey := getSKeyOf c keysb (kvBool t "liar"), select := selectOf (kvStr t "sel") }
  let r := incoming c i frb (w1 ++ w2)
  let b2a := r.1 ++ sentOf r.2 pb
  let frChk := if 96 ≤ w1.length then
      (if 96 ≤ frb ∧ frb ≤ 608 ∧ frb ≤ w1.length then [] else [s!"inadmissible frb={frb}"]) else []
  let modelObs :=
    if frChk.isEmpty then s!"b={resStr r.2} frb={frb} b2a={hex b2a} gotb={hex (gotOf r.2)}"
    else " ".intercalate frChk
  let viol :=
    match implRes (kvStr io "b"), r.2 with
    | some sb, _ =>
      -- the receiver's own view: the selection it made must be one offered bit
      (match r.2 with
       | .ok d => if singleBitOf sb d.provided then [] else [s!"C12 selected-not-single-offered-bit sel={sb} provide={d.provided}"]
       | .error _ => [])
    | none, _ => []
  let tags :=
    (match r.2 with | .ok d => [s!"branch:in-ok-{d.selected}", "nontrivial"] | .error e => [s!"branch:in-{e.toString}"]) ++
    (if w1.length = 96 + 512 then ["branch:in-pad512"] else []) ++
    (if w1.length > 96 + 512 then ["branch:in-pad>512"] else [])
  (modelObs, viol, tags)

def runOut (p : Params) (t : List String) (implObs : String) : String × List String × List String :=
  let c := p.crypto
  let io := words implObs
  let fra := kvNat io "fra"
  let w1 := unhex! (kvStr t "w1")
  let w2 := unhex! (kvStr t "w2")
  let pa := unhex! (kvStr t "pa")
  let provide := kvNat t "provide"
  let o : OutCfg := { x := p.xa, sKey := unhex! (kvStr t "skey"), provide := provide, ia := unhex! (kvStr t "ia"),
                      padA := unhex! (kvStr t "pada"), padCLen := kvNat t "padc" }
  let r := outgoing c o fra (w1 ++ w2)
  let a2b := r.1 ++ sentOf r.2 pa
  let frChk := if 96 ≤ w1.length then
      (if 96 ≤ fra ∧ fra ≤ 608 ∧ fra ≤ w1.length then [] else [s!"inadmissible fra={fra}"]) else []
  let modelObs :=
    if frChk.isEmpty then s!"a={resStr r.2} fra={fra} a2b={hex a2b} gota={hex (gotOf r.2)}"
    else " ".intercalate frChk
  let viol :=
    match implRes (kvStr io "a") with
    | some sa => (if singleBitOf sa provide then [] else [s!"C12 selected-not-single-offered-bit sel={sa} provide={provide}"]) ++
        -- the scripted receiver's bytes cannot complete a handshake (the specification function fails on them)
        (match r.2 with
         | .error e => if frChk.isEmpty then [s!"C12 initiator-completes-a-handshake-that-must-fail a=ok:{sa} spec={e.toString}"] else []
         | .ok _ => [])
    | none =>
      -- the receiver sent a complete, conforming step 2 and step 4 (the specification function — the one
      -- `sync_found` / `agree` are about — completes on exactly these bytes) and has completed on its side:
      -- an initiator that fails now breaks "fails on both sides or agrees on both"
      (match r.2 with
       | .ok d => if frChk.isEmpty then [s!"C12 initiator-fails-a-handshake-the-responder-completes a={kvStr io "a"} spec=ok:{d.selected}"] else []
       | .error _ => [])
  let tags :=
    (match r.2 with | .ok d => [s!"branch:out-ok-{d.selected}", "nontrivial"] | .error e => [s!"branch:out-{e.toString}"]) ++
    (if w1.length = 96 + 512 then ["branch:out-pad512"] else []) ++
    (if w1.length > 96 + 512 then ["branch:out-pad>512"] else [])
  (modelObs, viol, tags)

def suite : Suite where
  name := "mse"
  runCase ops :=
    let (_, acc, tags) := ops.foldl
      (fun (st : Params × List (String × List String) × List String) (o : String × String) =>
        let (p, acc, tags) := st
        let t := words o.1
        match t.head? with
        | some "params" => (parseParams o.1 o.2, (o.2, []) :: acc, tags)
        | some "hs" => let (m, v, tg) := runHS p t o.2; (p, (m, v) :: acc, tags ++ tg)
        | some "in" => let (m, v, tg) := runIn p t o.2; (p, (m, v) :: acc, tags ++ tg)
        | some "out" => let (m, v, tg) := runOut p t o.2; (p, (m, v) :: acc, tags ++ tg)
        | _ => (p, ("unknown-op", []) :: acc, tags))
      (({} : Params), [], [])
    (acc.reverse, tags.eraseDups)

end Driver.Suites.MSE
