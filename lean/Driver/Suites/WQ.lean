import Driver.Util
import RainModel.Model.WriteQueue
import RainModel.Model.CachedPiece
/-!
Suite `wq` (C03; the queue bound also serves C17): real `PeerWriter` over a gated connection, piece
data through the real `CachedPiece`/`Cache`.  See `suite_wq.go` for the protocol: the writer
goroutine always holds one message (`w=`), blocked in `conn.Write`; `pump` lets that write return,
the writer then takes the next message — the sentinel `have 0xFFFFFFFF` if the queue is empty.
obs : `[sent=<hex> ]w=<hex|closed> q=<queue> n=<currentQueuedRequests>`
-/
namespace Driver.Suites.WQ
open Driver Rain.WriteQueue

structure St where
  opened : Bool := false
  pl : Nat := 0
  rs : Nat := 1
  wq : WQ := Rain.WriteQueue.new 0 false
  cache : Rain.Cache.Cache Rain.Cache.Bytes := Rain.Cache.new 0 0
  /-- frame blocked in `Write`; `none` = writer gone -/
  cur : Option Rain.Cache.Bytes := none

def dataByte (i off : Nat) : Nat := (3 + i * 31 + off * 7 + off / 5) % 256
def pieceData (st : St) (i : Nat) : Rain.Cache.Bytes := (List.range st.pl).map (dataByte i)

def sentinel : Msg := .other 4 (be32 4294967295)

def showMsg : Msg → String
  | .piece r => s!"P:{r.idx}:{r.b}:{r.l}"
  | .reject r => s!"R:{r.idx}:{r.b}:{r.l}"
  | .choke => "C"
  | .other id _ => s!"M{id}"

def stateStr (st : St) : String :=
  let cur := match st.cur with | some b => hex b | none => "closed"
  let q := if st.wq.queue.isEmpty then "-" else ",".intercalate (st.wq.queue.map showMsg)
  s!"w={cur} q={q} n={st.wq.queued}"

/-- The writer takes the queue front: the data of a piece is read through the cached piece. -/
def takeNext (st : St) : St :=
  let wq := if st.wq.queue.isEmpty then enqueue st.wq sentinel else st.wq
  match wq.queue.head? with
  | some (.piece r) =>
    let data := pieceData st r.idx
    let cp : Rain.CachedPiece.CP := { peerID := List.replicate 20 0, index := r.idx, length := st.pl, readSize := st.rs }
    -- a duplicate is answered without reading; a failing disk is not read through the cache
    if r ∈ wq.served ∨ r.idx = 7 then
      let (wq', out) := handoff wq .err
      { st with wq := wq', cur := match out with | some (_, .frame b) => some b | _ => none }
    else
      let (c', res) := Rain.CachedPiece.readAt cp (Rain.CachedPiece.dataReader data) st.cache r.l r.b
      let d := match res with | .ok bs => DataRes.ok bs | .err bs => DataRes.eof bs | _ => DataRes.err
      let (wq', out) := handoff wq d
      { st with wq := wq', cache := c', cur := match out with | some (_, .frame b) => some b | _ => none }
  | _ =>
    let (wq', out) := handoff wq .err
    { st with wq := wq', cur := match out with | some (_, .frame b) => some b | _ => none }

def reqOf (toks : List String) : Req := { idx := kvNat toks "i", b := kvNat toks "b", l := kvNat toks "l" }

/-- Oracle on the implementation's observation: queue bound, counter = pieces in queue. -/
def boundViol (st : St) (implObs : String) : List String :=
  let toks := words implObs
  let q := commaList (kvStr toks "q")
  let pieces := (q.filter (·.startsWith "P:")).length
  let n := kvInt toks "n"
  (if (pieces : Int) > max st.wq.maxQueued 0 then [s!"C17 wq-over-max pieces={pieces} max={st.wq.maxQueued}"] else []) ++
  (if n ≠ pieces then [s!"C17 wq-counter-drift n={n} pieces={pieces}"] else [])

/-- Oracle on a frame the implementation wrote: a piece frame must be `be32(9+l) 7 idx begin data[b,b+l)`
of a request that is outstanding (enqueued, not cancelled, not choked away) and in bounds. -/
def frameViol (st : St) (fr : Rain.Cache.Bytes) (outstanding : List Req) : List String :=
  if (fr.drop 4).head? ≠ some 7 then [] else
  let num (bs : Rain.Cache.Bytes) : Nat := bs.foldl (fun a x => a * 256 + x) 0
  let len := num (fr.take 4)
  let idx := num ((fr.drop 5).take 4)
  let b := num ((fr.drop 9).take 4)
  let body := fr.drop 13
  let data := pieceData st idx
  (if len ≠ 9 + body.length then [s!"C03 piece-frame-length-field len={len} body={body.length}"] else []) ++
  (if body ≠ Rain.CachedPiece.slice data b body.length ∨ b + body.length > st.pl then ["C03 piece-frame-wrong-bytes"] else []) ++
  (match outstanding.find? (fun r => r.idx = idx ∧ r.b = b) with
   | none => [s!"C03 piece-frame-not-outstanding idx={idx} b={b} n={body.length}"]
   | some _ =>
     -- exact length is owed to requests inside the piece (the only ones the handler passes on)
     if outstanding.any (fun r => r.idx = idx ∧ r.b = b ∧ (r.l = body.length ∨ r.b + r.l > st.pl)) then []
     else [s!"C03 piece-frame-short-or-long idx={idx} b={b} n={body.length}"])

def step (st : St) (op implObs : String) : St × String × List String × List String :=
  let toks := words op
  let name := toks.headD ""
  if name = "open" then
    let st' : St := { opened := true, pl := kvNat toks "pl", rs := if kvNat toks "rs" = 0 then 16 else kvNat toks "rs",
                      wq := Rain.WriteQueue.new (kvInt toks "max") (kvBool toks "fast"),
                      cache := Rain.Cache.new (kvInt toks "cmax") 3600 }
    let st' := takeNext st'
    (st', stateStr st', [], [s!"cfg:max={kvInt toks "max"}", if kvBool toks "fast" then "cfg:fast" else "cfg:nofast"])
  else if !st.opened then (st, "not-open", [], [])
  else
    let outstanding := st.wq.queue.filterMap (fun m => match m with | .piece r => some r | _ => none)
    match name with
    | "piece" =>
      let r := reqOf toks
      if r.l > 16384 then (st, "refused-by-harness", [], []) else
      let before := st.wq
      let wq' := enqueue st.wq (.piece r)
      let st' := { st with wq := wq' }
      let tag := if wq'.queue.length = before.queue.length then "branch:piece-dropped"
                 else if wq'.queued = before.queued then "branch:piece-rejected-full" else "branch:piece-queued"
      (st', stateStr st', boundViol st' implObs, [tag])
    | "cancel" =>
      let r := reqOf toks
      let wq' := cancel st.wq r
      let st' := { st with wq := wq' }
      (st', stateStr st', boundViol st' implObs,
        [if wq'.queue.length < st.wq.queue.length then "branch:cancel-removed" else "branch:cancel-noop"])
    | "choke" =>
      let wq' := enqueue st.wq .choke
      let st' := { st with wq := wq' }
      (st', stateStr st', boundViol st' implObs,
        [if outstanding.isEmpty then "branch:choke-empty" else "branch:choke-dropped-pieces"])
    | "unchoke" => let st' := { st with wq := enqueue st.wq (.other 1 []) }; (st', stateStr st', boundViol st' implObs, [])
    | "have" => let st' := { st with wq := enqueue st.wq (.other 4 (be32 (kvNat toks "i"))) }; (st', stateStr st', boundViol st' implObs, [])
    | "reject" => let st' := { st with wq := enqueue st.wq (.reject (reqOf toks)) }; (st', stateStr st', boundViol st' implObs, [])
    | "pump" =>
      match st.cur with
      | none => (st, "sent=- " ++ stateStr st, [], ["branch:pump-dead"])
      | some cur =>
        let wasDup := match st.wq.queue.head? with | some (.piece r) => decide (r ∈ st.wq.served) | _ => false
        let st' := takeNext st
        -- the frame the implementation now holds in Write was taken from the queue just now
        let implW := kvStr (words implObs) "w"
        let viol := (if implW = "closed" ∨ implW = "" then [] else frameViol st (unhex! implW) outstanding) ++ boundViol st' implObs
        let tags :=
          (match st.wq.queue.head? with
           | some (.piece r) => if r.b + r.l > st.pl then ["branch:out-of-bounds-request-framed-short"] else []
           | _ => []) ++
          (match st'.cur with
           | none => ["branch:writer-died"]
           | some f => if (f.drop 4).head? = some 7 then ["branch:data-frame", "nontrivial"]
                       else if (f.drop 4).head? = some 16 then [if wasDup then "branch:duplicate-rejected" else "branch:reject-frame"]
                       else []) ++
          (if outstanding.isEmpty then ["branch:pump-idle"] else [])
        (st', "sent=" ++ hex cur ++ " " ++ stateStr st', viol, tags)
    | _ => (st, "unknown-op", [], [])

def suite : Suite where
  name := "wq"
  runCase ops :=
    let (_, acc) := ops.foldl
      (fun (p : St × List (String × List String × List String)) (o : String × String) =>
        let (s', obs, vs, tags) := step p.1 o.1 o.2
        (s', (obs, vs, tags) :: p.2)) ({}, [])
    let rs := acc.reverse
    (rs.map fun (o, v, _) => (o, v), (rs.flatMap fun (_, _, t) => t).eraseDups)

end Driver.Suites.WQ
