import Driver.Util
import Driver.Suites.PD
import RainModel.Model.PieceWriter
/-!
Suites `pw` and `bufpool` (C01).

pw      op : run plen=<n> secs=<file>:<off>:<len>:<pad>,… buf=<runs> hash=<hex> match=<0|1> fail=<k|-> slack=<n>
        obs: match=<0|1> hashok=<0|1> err=<0|1> writes=<file>:<off>:<runs>,…  | panic writes=…
        The model's `H` is instantiated from the generator's verdict `match` (computed with
        crypto/sha1, never by rain): `H buf = piece.hash` iff `match`.  Oracle: `gateOK` on the
        implementation's observation with the executor's own verdict.
bufpool op : cycle mode=<pool|direct> buflen=<n> dirty=<runs> get=<k>
        obs: len=<k> zero=<0|1> reused=<0|1> | panic     (`reused` is the runtime's choice: echoed)
-/
namespace Driver.Suites.PW
open Driver Rain.PW
open Driver.Suites.PD (encRuns decRuns)

def parseFSecs (s : String) : List FSec :=
  (commaList s).filterMap fun t =>
    match t.splitOn ":" with
    | [f, o, l, p] => some { file := parseNat! f, off := parseNat! o, len := parseNat! l, pad := p = "1" }
    | _ => none

def parseWrites (s : String) : List Write :=
  (commaList s).filterMap fun t =>
    match t.splitOn ":" with
    | [f, o, d] => some { file := parseNat! f, off := parseNat! o, data := decRuns d }
    | _ => none

def showWrites (ws : List Write) : String :=
  if ws.isEmpty then "-" else ",".intercalate (ws.map fun w => s!"{w.file}:{w.off}:{encRuns w.data}")

def stepPW (op implObs : String) : String × List String × List String :=
  let toks := words op
  let itoks := words implObs
  let secs := parseFSecs (kvStr toks "secs")
  let buf := decRuns (kvStr toks "buf")
  let plen := kvNat toks "plen"
  let matched := kvBool toks "match"
  let failAt : Option Nat := (kv? toks "fail").bind (·.toNat?)
  let p : Piece Nat := { length := plen, secs := secs, hash := 1 }
  let H : Bytes → Nat := fun b => if b == buf ∧ matched then 1 else 0
  let r := run H p buf failAt
  let model :=
    if r.status == .badGeometry then s!"panic writes={showWrites r.writes}"
    else s!"match={boolStr matched} hashok={boolStr r.hashOK} err={boolStr (r.status == .error)} writes={showWrites r.writes}"
  let viol :=
    if itoks.headD "" = "panic" then
      (if plen = totalLen secs then ["C01 pw-panic"] else [])
    else
      let im := kvBool itoks "match"
      let ih := kvBool itoks "hashok"
      let ie := kvBool itoks "err"
      let iw := parseWrites (kvStr itoks "writes")
      if plen ≠ totalLen secs then
        -- geometry precondition (C02) not met: only the gate itself is judged
        (if ih == im && (im || iw.isEmpty) then [] else ["C01 pw-gate kind=" ++ (if !im && !iw.isEmpty then "write-without-hash-match" else "hashok-wrong")])
      else if gateOK secs buf im ih ie iw then []
      else
        let kind :=
          if !im && !iw.isEmpty then "write-without-hash-match"
          else if ih != im then "hashok-wrong"
          else if iw.any (fun w => secs.any (fun s => s.pad && s.file == w.file && s.off == w.off && s.len == w.data.length) &&
                    !(sectionWrites secs 0 buf).contains w) then "padding-section-written"
          else "wrong-section-writes"
        [s!"C01 pw-gate kind={kind}"]
  let tags :=
    (if secs.any (·.pad) ∧ secs.length ≥ 2 ∧ matched then ["nontrivial"] else []) ++
    (if matched then ["branch:hash-match"] else if buf.length ≠ plen then ["branch:length-mismatch"] else ["branch:hash-mismatch"]) ++
    (if r.status == .error then ["branch:write-error"] else []) ++
    (if secs.any (·.pad) then ["padding"] else []) ++
    (if secs.any (fun s => s.len = 0) then ["zero-len-section"] else [])
  (model, viol, tags)

def suitePW : Suite where
  name := "pw"
  runCase ops :=
    let rs := ops.map fun (op, obs) => stepPW op obs
    (rs.map fun (o, v, _) => (o, v), (rs.flatMap fun (_, _, t) => t).eraseDups)

def stepBP (op implObs : String) : String × List String × List String :=
  let toks := words op
  let itoks := words implObs
  let buflen := kvNat toks "buflen"
  let dirty := decRuns (kvStr toks "dirty")
  let backing := (dirty ++ List.replicate (buflen - dirty.length) 0).take buflen
  let get := kvNat toks "get"
  let reused := kvStr itoks "reused"
  let model := match poolGet backing get with
    | none => "panic"
    | some b => s!"len={b.length} zero={boolStr (b.all (· == 0))} reused={if reused = "" then "0" else reused}"
  let viol :=
    if itoks.headD "" = "panic" then (if get ≤ buflen then ["C01 bufpool-panic"] else [])
    else if kvBool itoks "zero" ∧ kvNat itoks "len" = get then [] else ["C01 bufpool-dirty-buffer"]
  let tags := (if reused = "1" ∧ dirty.any (· != 0) ∧ get > 0 then ["nontrivial"] else []) ++
    (if get > buflen then ["branch:get-too-long"] else []) ++ [s!"mode:{kvStr toks "mode"}"]
  (model, viol, tags)

def suiteBP : Suite where
  name := "bufpool"
  runCase ops :=
    let rs := ops.map fun (op, obs) => stepBP op obs
    (rs.map fun (o, v, _) => (o, v), (rs.flatMap fun (_, _, t) => t).eraseDups)

/-! Suite `verifier`: op `verify pieces=<len>:<kind>,…` (g good, c/h/s hash mismatch, e read error);
obs `bits=<0/1…> err=<0|1>`. -/
def stepVF (op implObs : String) : String × List String × List String :=
  let toks := words op
  let itoks := words implObs
  let kinds : List (Nat × String) := (commaList (kvStr toks "pieces")).filterMap fun t =>
    match t.splitOn ":" with
    | [l, k] => some (parseNat! l, k)
    | _ => none
  if kinds.isEmpty then ("nopieces", [], []) else
  -- piece i: hash i+1; H maps the bytes read for a good piece to its hash, anything else to 0.
  -- the bytes "read" for piece i are represented by [i, verdict] padded to the piece length
  let items : List (Piece Nat × Option Bytes) := (List.range kinds.length).zip kinds |>.map fun (i, (l, k)) =>
    let p : Piece Nat := { length := l, secs := [], hash := i + 1 }
    let data : Bytes := (List.replicate l (if k = "g" then i + 1 else 0))
    -- (a short read — kind t — is a read error like any other)
    (p, if k = "e" ∨ k = "t" then none else some data)
  let H : Bytes → Nat := fun b => b.headD 0
  let (bits, e) := verifyAll H items
  let showBits (bs : List Bool) := String.join (bs.map boolStr)
  let model := s!"bits={showBits bits} err={boolStr e}"
  let ibits := (kvStr itoks "bits").toList.map (· == '1')
  let viol := ((List.range kinds.length).zip (kinds.zip ibits)).filterMap fun (i, ((_, k), b)) =>
    if b ∧ k ≠ "g" then some s!"C01 verifier-bit-without-hash-match piece={i} kind={k}" else none
  let tags := (if kinds.any (·.2 = "g") ∧ kinds.any (fun k => k.2 ≠ "g") then ["nontrivial"] else []) ++
    (if e then ["branch:read-error"] else [])
  (model, viol, tags)

def suiteVF : Suite where
  name := "verifier"
  runCase ops :=
    let rs := ops.map fun (op, obs) => stepVF op obs
    (rs.map fun (o, v, _) => (o, v), (rs.flatMap fun (_, _, t) => t).eraseDups)

end Driver.Suites.PW
