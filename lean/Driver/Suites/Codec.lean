import Driver.Util
import RainModel.Model.Codec
/-!
Suite `codec` (C11): real `PeerWriter` → bytes vs `encode`; the stream through the real
`PeerReader` in random fragments vs `run`; handshake bytes; upload counter.
Op / observation formats: see `harness/overlay/internal/verifharness/suite_codec.go`.
Also home of the printing/parsing helpers shared with suite `reader`.
-/
namespace Driver.Suites.Codec
open Driver Rain.Codec
open Rain.Bencode (Bytes ExtPayload Handshake Metadata Pex)

/-! ### canonical printing (must agree with `canonMsg` in codec_util.go) -/

def bytesLt : Bytes → Bytes → Bool
  | [], [] => false
  | [], _ :: _ => true
  | _ :: _, [] => false
  | a :: as, b :: bs => if a < b then true else if b < a then false else bytesLt as bs

def insertKV (kv : Bytes × Nat) : List (Bytes × Nat) → List (Bytes × Nat)
  | [] => [kv]
  | x :: xs => if bytesLt kv.1 x.1 then kv :: x :: xs else x :: insertKV kv xs

def sortKV (l : List (Bytes × Nat)) : List (Bytes × Nat) := l.foldl (fun acc kv => insertKV kv acc) []

def showMap (m : List (Bytes × Nat)) : String :=
  if m.isEmpty then "-" else ",".intercalate ((sortKV m).map fun kv => s!"{hex kv.1}={kv.2}")

def showMsg : Msg → String
  | .choke => "choke" | .unchoke => "unchoke" | .interested => "interested"
  | .notInterested => "notinterested" | .haveAll => "haveall" | .haveNone => "havenone"
  | .have i => s!"have:{i}"
  | .allowedFast i => s!"allowedfast:{i}"
  | .bitfield d => s!"bitfield:{hex d}"
  | .request i b l => s!"request:{i}:{b}:{l}"
  | .cancel i b l => s!"cancel:{i}:{b}:{l}"
  | .reject i b l => s!"reject:{i}:{b}:{l}"
  | .port p => s!"port:{p}"
  | .piece i b d => s!"piece:{i}:{b}:{hex d}"
  | .ext _ (.handshake h) => s!"exths:{showMap h.m}:{hex h.v}:{hex h.yourip}:{h.metadataSize}:{h.reqq}"
  | .ext _ (.metadata m) => s!"extmd:{m.msgType}:{m.piece}:{m.totalSize}:{hex m.data}"
  | .ext _ (.pex p) => s!"extpex:{hex p.added}:{hex p.dropped}"

def showMsgs (ms : List Msg) : String :=
  if ms.isEmpty then "-" else ";".intercalate (ms.map showMsg)

def showErr : Err → String
  | .eof => "eof" | .oversize => "oversize" | .blockSize => "blocksize" | .ext => "ext" | .panic => "panic" | .fuel => "model-fuel"

/-- Comma separated chunks, each `<hex>` or `<hex>*<count>`. -/
def parseChunks (s : String) : Bytes :=
  (commaList s).flatMap fun t =>
    match t.splitOn "*" with
    | [h, n] => (List.replicate (parseNat! n) (unhex! h)).flatten
    | _ => unhex! t

/-! ### ops -/

def pattern (b l seed : Nat) : Bytes := (List.range l).map fun j => ((b + j) * 31 + seed) % 256

def parseM (s : String) : List (Bytes × Nat) :=
  sortKV <| (commaList s).filterMap fun t =>
    match t.splitOn ":" with
    | [k, v] => some (unhex! k, parseNat! v % 256)
    | _ => none

/-- What the op asks the writer to send: a plain message or a `Piece{request, data}`. -/
inductive Send
  | msg (m : Msg)
  | piece (i b l : Nat) (data : Bytes)
  | bad

def parseSend (toks : List String) : Send :=
  let n := kvNat toks
  match kvStr toks "k" with
  | "choke" => .msg .choke | "unchoke" => .msg .unchoke | "interested" => .msg .interested
  | "notinterested" => .msg .notInterested | "haveall" => .msg .haveAll | "havenone" => .msg .haveNone
  | "have" => .msg (.have (n "i"))
  | "allowedfast" => .msg (.allowedFast (n "i"))
  | "bitfield" => .msg (.bitfield (unhex! (kvStr toks "d")))
  | "request" => .msg (.request (n "i") (n "b") (n "l"))
  | "cancel" => .msg (.cancel (n "i") (n "b") (n "l"))
  | "reject" => .msg (.reject (n "i") (n "b") (n "l"))
  | "port" => .msg (.port (n "p"))
  | "piece" => .piece (n "i") (n "b") (n "l") (pattern (n "b") (n "l") (n "seed"))
  | "exths" => .msg (.ext (n "eid") (.handshake {
      m := parseM (kvStr toks "m"), v := unhex! (kvStr toks "v"), yourip := unhex! (kvStr toks "ip"),
      metadataSize := kvInt toks "ms", reqq := kvInt toks "rq" }))
  | "extmd" => .msg (.ext (n "eid") (.metadata {
      msgType := kvInt toks "t", piece := n "piece", totalSize := kvInt toks "ts", data := unhex! (kvStr toks "d") }))
  | "extpex" => .msg (.ext (n "eid") (.pex { added := unhex! (kvStr toks "a"), dropped := unhex! (kvStr toks "d") }))
  | _ => .bad

/-- Executable form of `WFMsg` (used only to decide when the round-trip oracle applies). -/
def wfB (max : Nat) : Msg → Bool
  | .choke | .unchoke | .interested | .notInterested | .haveAll | .haveNone => true
  | .have i | .allowedFast i => i < 4294967296 && 4 ≤ max
  | .bitfield d => d.length ≤ max
  | .request i b l => i < 4294967296 && b < 4294967296 && l ≤ 16384 && 12 ≤ max
  | .cancel i b l | .reject i b l => i < 4294967296 && b < 4294967296 && l < 4294967296 && 12 ≤ max
  | .piece i b d => i < 4294967296 && b < 4294967296 && d.length ≤ 16384 && 8 + d.length ≤ max
  | .port p => p < 65536 && 2 ≤ max
  | .ext eid p => eid == Rain.Bencode.kindId p && 1 + (Rain.Bencode.encPayload p).length ≤ max &&
      (match p with
       | .handshake h => h.metadataSize ≥ 0 && h.reqq ≥ 0 && h.metadataSize < 9223372036854775808 && h.reqq < 9223372036854775808
       | .metadata m => m.piece < 4294967296 && m.msgType.natAbs < 9223372036854775808 && m.totalSize.natAbs < 9223372036854775808
       | .pex _ => true)

def kindTag : Msg → String
  | .choke => "choke" | .unchoke => "unchoke" | .interested => "interested"
  | .notInterested => "notinterested" | .haveAll => "haveall" | .haveNone => "havenone"
  | .have _ => "have" | .allowedFast _ => "allowedfast" | .bitfield _ => "bitfield"
  | .request .. => "request" | .cancel .. => "cancel" | .reject .. => "reject" | .port _ => "port"
  | .piece .. => "piece" | .ext _ (.handshake _) => "exths" | .ext _ (.metadata _) => "extmd"
  | .ext _ (.pex _) => "extpex"

structure St where
  stream : Bytes := []
  sent : List Msg := []           -- messages whose frames are in `stream`, in order (newest first)
  raws : List Bytes := []         -- raw chunks spliced into the stream
  served : List (Nat × Nat × Nat) := []
  dead : Bool := false
  tags : List String := []

def upStr (n : Nat) : String := if n = 0 then "-" else toString n

/-- Is `b` a sequence of keep-alives and complete frames with ids the reader discards? -/
def skippable (max : Nat) (fuel : Nat) (b : Bytes) : Bool :=
  match fuel with
  | 0 => false
  | f + 1 =>
    if b.isEmpty then true else
    match step max b with
    | .skip rest => skippable max f rest
    | _ => false

def stepOp (st : St) (op implObs : String) : St × String × List String :=
  let toks := words op
  match toks.head? with
  | some "send" | some "sendpartial" =>
    if st.dead then (st, "dead", []) else
    let partial_ := toks.head? == some "sendpartial"
    let toks := if partial_ then "k=piece" :: toks else toks
    match parseSend toks with
    | .bad => (st, "bad-op", [])
    | snd =>
      let (served, m) := match snd with
        | .piece i b l d => writePiece st.served i b l d
        | .msg m => (st.served, m)
        | .bad => (st.served, .choke)
      let frame := encode m
      let isPiece := match m with | .piece .. => true | _ => false
      let wn := if partial_ then min (kvNat toks "wn") frame.length else frame.length
      let up := if isPiece then countUpload wn else 0
      let obs := s!"w={hex frame} up={upStr up}"
      -- oracle on the implementation's observation: protocol-exact bytes, exact upload counter
      let implW := (kvStr (words implObs) "w")
      let implUp := (kvStr (words implObs) "up")
      let dataLen := match m with | .piece _ _ d => d.length | _ => 0
      let viol :=
        (if implW ≠ hex frame then [s!"C11 wire-bytes-differ kind={kindTag m}"] else []) ++
        (if ¬ partial_ ∧ implUp ≠ upStr (if isPiece then dataLen else 0) then [s!"C11 upload-counter-wrong kind={kindTag m}"] else []) ++
        (if partial_ ∧ implUp ≠ upStr (if isPiece then wn - 13 else 0) then [s!"C11 upload-counter-wrong-partial kind={kindTag m}"] else [])
      let tg := "kind:" ++ kindTag m
      let st' : St :=
        if partial_ then { st with dead := true, served := served, tags := "branch:partial-write" :: st.tags }
        else { st with stream := st.stream ++ frame, sent := m :: st.sent, served := served, tags := tg :: st.tags }
      (st', obs, viol)
  | some "raw" =>
    let b := parseChunks (kvStr toks "b")
    ({ st with stream := st.stream ++ b, raws := b :: st.raws, tags := "branch:raw" :: st.tags }, "ok", [])
  | some "read" =>
    let max := kvNat toks "max"
    let o := run max st.stream
    let obs := s!"msgs={showMsgs o.msgs} end={showErr o.err}"
    -- round-trip oracle: when everything sent is well-formed for this reader, the reader must
    -- deliver exactly the sent sequence, whatever the fragmentation
    let sent := st.sent.reverse
    let allWF := sent.all (wfB max) && st.raws.all (fun b => skippable max (b.length + 1) b)
    let expect := s!"msgs={showMsgs sent} end=eof"
    let viol := (if allWF ∧ implObs ≠ expect then ["C11 roundtrip-differs"] else []) ++
      (if (kvStr (words implObs) "end").startsWith "panic" then ["C08 reader-panic " ++ kvStr (words implObs) "end"] else [])
    let tg := (if allWF then ["branch:roundtrip-oracle"] else ["branch:read-not-all-wf"]) ++ [s!"end:{showErr o.err}"]
    ({ st with tags := tg ++ st.tags }, obs, viol)
  | some "hs" =>
    let w := handshakeBytes (unhex! (kvStr toks "ext")) (unhex! (kvStr toks "ih")) (unhex! (kvStr toks "id"))
    let obs := s!"w={hex w}"
    let viol := if implObs ≠ obs then ["C11 handshake-bytes-differ"] else []
    ({ st with tags := "kind:handshake" :: st.tags }, obs, viol)
  | some "hsread" =>
    let obs := match readHandshake (unhex! (kvStr toks "b")) with
      | .ok e ih pid rest => s!"ok:{hex e}:{hex ih}:{hex pid}:{rest.length}"
      | .invalidProtocol => "invalid"
      | .short => "short"
    ({ st with tags := s!"branch:hsread-{(obs.splitOn ":").headD ""}" :: st.tags }, obs, [])
  | _ => (st, "bad-op", [])

def suite : Suite where
  name := "codec"
  runCase ops :=
    let (st, rs) := foldCase ({} : St) stepOp ops
    let nt := if (st.sent.length ≥ 1 ∧ st.tags.any (·.startsWith "branch:roundtrip-oracle")) ∨ st.tags.any (·.startsWith "kind:handshake") then ["nontrivial"] else []
    (rs, (nt ++ st.tags).eraseDups)

end Driver.Suites.Codec
