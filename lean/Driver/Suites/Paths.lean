import Driver.Suites.MetaSpec
/-!
Suite `paths` (C07).  The model's `newInfo` paths, `cleanName`, the dot-dot test, `Clean`, `Join`
against the real functions; oracle: every path the implementation produced is `Confined`
(relative, no empty / `.` / `..` component), non-padding paths are pairwise different, and every
file the real allocator + filestorage created lies under the torrent's data directory.
-/
namespace Driver.Suites.Paths
open Driver Driver.MetaSpec Rain.Path Rain.Validate

def hexE (b : Bytes) : String := if b.isEmpty then "_" else hex b
def unhexE (s : String) : Bytes := if s = "_" ∨ s = "-" ∨ s = "" then [] else unhex! s

def showPaths (fs : List FileOut) : String :=
  if fs.isEmpty then "-" else ",".intercalate (fs.map fun f => s!"{hexE f.path}:{boolStr f.padding}")

def parsePaths (s : String) : List (Bytes × Bool) :=
  (commaList s).map fun t =>
    match t.splitOn ":" with
    | [p, pd] => (unhexE p, pd = "1")
    | _ => ([], false)

def hasDup : List Bytes → Bool
  | [] => false
  | a :: r => r.contains a || hasDup r

def stripPrefix (pre s : Bytes) : Option Bytes :=
  if isPrefixOfB pre s then some (s.drop pre.length) else none

/-- The sandbox of the `store` op, as the model names it. -/
def sandbox : Bytes := strBytes "/S"

def modelInfo (toks : List String) : Sum String InfoOut × List String :=
  match decodeDict (kvStr toks "mode" = "meta") (kvStr toks "d") with
  | .unsupported w => (.inl s!"unsupported:{w}", ["branch:unsupported"])
  | .tooDeep => (.inl "reject:too-deep", ["branch:too-deep"])
  | .decodeError => (.inl "reject:decode", ["branch:decode"])
  | .ok ib =>
    match newInfo (paramsOf toks) ib with
    | .error e => (.inl s!"reject:{e.toString}", [s!"branch:{e.toString}"])
    | .ok o => (.inr o, ["branch:ok"] ++
        (if o.files.length ≥ 2 then ["branch:multi-file", "nontrivial"] else []) ++
        (if o.files.any (·.padding) then ["branch:padding"] else []) ++
        (if ib.files.any (fun f => f.path.any (fun c => c.length > 255)) ∨ ib.name.length > 255 then ["branch:trimmed"] else []))

def step (op implObs : String) : String × List String × List String :=
  let toks := words op
  match toks.head? with
  | some "info" =>
    let (r, tags) := modelInfo toks
    let modelObs := match r with
      | .inl s => s
      | .inr o => s!"ok paths={showPaths o.files}"
    let viol :=
      if implObs.startsWith "ok " then
        let ps := parsePaths (kvStr (words implObs) "paths")
        (ps.filterMap fun (p, _) =>
          if Confined p then none else some s!"C07 path-not-confined path={hexE p}").eraseDups ++
        (if hasDup ((ps.filter (fun x => !x.2)).map (·.1)) then ["C07 duplicate-path"] else [])
      else []
    (modelObs, viol, tags)
  | some "clean" =>
    let s := unhexE (kvStr toks "s")
    let out := cleanName s
    let impl := unhexE implObs
    (hexE out,
     (if impl.contains SLASH then ["C07 clean-output-has-separator"] else []) ++
     (if impl = dotdot ∧ s ≠ dotdot then ["C07 clean-manufactured-dotdot"] else []),
     ["branch:clean"] ++ (if s.length > 255 then ["branch:clean-trimmed", "nontrivial"] else []) ++
       (if toValidUTF8 s replacementChar ≠ s then ["branch:clean-repaired", "nontrivial"] else []))
  | some "dotdot" => (boolStr (isDotDotName (unhexE (kvStr toks "s"))), [], ["branch:dotdot-test"])
  | some "fclean" => (hexE (fpClean (unhexE (kvStr toks "p"))), [], ["branch:fclean"])
  | some "fjoin" =>
    (hexE (fpJoin ((commaList (kvStr toks "parts")).map unhexE)), [], ["branch:fjoin", "nontrivial"])
  | some "store" =>
    let (r, tags) := modelInfo toks
    match r with
    | .inl s => (s, [], tags)
    | .inr o =>
      let incl := kvBool toks "incl"
      let root := dataDirOf (sandbox ++ strBytes "/outer/data") (unhexE (kvStr toks "id")) incl
      let relRoot := (stripPrefix (sandbox ++ [SLASH]) root).getD root
      let expected := (o.files.filter (fun f => !f.padding)).map fun f =>
        let p := storagePath root f.path
        (stripPrefix (sandbox ++ [SLASH]) p).getD p
      let itoks := words implObs
      let created := (commaList (kvStr itoks "created")).map unhexE
      let err := kvBool itoks "err"
      let implRoot := unhexE (kvStr itoks "root")
      let admissible := implObs.startsWith "stored " ∧ implRoot = relRoot ∧
        created.all (expected.contains ·) ∧ (err ∨ expected.all (created.contains ·))
      let viol := (created.filterMap fun c =>
        if Under implRoot c then none else some s!"C07 file-created-outside-data-dir path={hexE c} root={hexE implRoot}").eraseDups
      (if admissible then implObs else s!"inadmissible expected-root={hexE relRoot} expected={",".intercalate (expected.map hexE)}",
       viol, tags ++ ["branch:store", "nontrivial"] ++ (if incl then ["branch:store-with-id"] else []) ++ (if err then ["branch:store-error"] else []))
  | _ => ("unknown-op", [], [])

def suite : Suite where
  name := "paths"
  runCase ops :=
    let rs := ops.map fun (op, obs) => step op obs
    (rs.map fun (o, v, _) => (o, v), (rs.flatMap fun (_, _, t) => t).eraseDups)

end Driver.Suites.Paths
