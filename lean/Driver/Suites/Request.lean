import Driver.Util
import RainModel.Model.Request
/-!
Suite `request` (C03): `validPieceRequest` on 32-bit edge triples and the reader's length cap.
op : `valid b= l= pl=`   obs : `1` | `0`
op : `wire i= b= l=`     obs : `msg:<i>,<b>,<l>` | `closed`
-/
namespace Driver.Suites.Request
open Driver Rain.Request

def u32 (toks : List String) (k : String) : U32 := BitVec.ofNat 32 (kvNat toks k)

def step (op implObs : String) : String × List String × List String :=
  let toks := words op
  match toks.head? with
  | some "valid" =>
    let bN := kvNat toks "b"; let lN := kvNat toks "l"; let plN := kvNat toks "pl"
    let b := u32 toks "b"; let l := u32 toks "l"; let pl := u32 toks "pl"
    let model := validPieceRequest b l pl
    -- oracle: the right-hand side of `validReq_iff`, on unbounded naturals
    let spec : Bool := lN ≠ 0 && bN + lN ≤ plN
    let viol :=
      if implObs = boolStr spec then []
      else [s!"C03 validreq-wrong impl={implObs} spec={boolStr spec} wraps32={boolStr (decide (bN + lN ≥ 2^32))}"]
    let tags :=
      [if model then "branch:valid" else "branch:invalid"] ++
      (if bN + lN ≥ 2^32 then ["sum-wraps-32", "nontrivial"] else []) ++
      (if bN + lN = plN ∧ lN ≠ 0 then ["sum-equals-piecelen", "nontrivial"] else []) ++
      (if bN + lN = plN + 1 then ["sum-one-past", "nontrivial"] else []) ++
      (if lN = 0 then ["zero-length"] else [])
    (boolStr model, viol, tags)
  | some "wire" =>
    let i := kvNat toks "i"; let b := kvNat toks "b"; let l := kvNat toks "l"
    let model := if readerAccepts (BitVec.ofNat 32 l) then s!"msg:{i},{b},{l}" else "closed"
    let viol :=
      if implObs.startsWith "msg:" ∧ l > maxBlockSize then [s!"C03 reader-passed-oversize l={l}"]
      else if implObs = "timeout" then ["C03 reader-timeout"] else []
    (model, viol, [if l > maxBlockSize then "branch:reader-refuses" else "branch:reader-accepts", "nontrivial"])
  | _ => ("unknown-op", [], [])

def suite : Suite where
  name := "request"
  runCase ops :=
    let rs := ops.map fun (op, obs) => step op obs
    (rs.map fun (o, v, _) => (o, v), (rs.flatMap fun (_, _, t) => t).eraseDups)

end Driver.Suites.Request
