import Driver.Util
import RainModel.Model.Cache
/-!
Suite `cache` (C03 transparency, C17 bound): operation sequences on the real `piececache.Cache`.
ops : `open max= ttl=` | `get k= v=<len>|err s=` | `fire k=` | `sleep ms=` | `clear`
obs : `[hit:<hex>|miss:<hex>|err ]size= keys= heap=<key:len,…>`
Model time unit: 1 µs (`get` costs 1, `sleep ms=n` advances n·1000, ttl in ms ·1000).
-/
namespace Driver.Suites.Cache
open Driver Rain.Cache

structure St where
  opened : Bool := false
  cache : Cache String := Rain.Cache.new 0 0
  /-- ghost: every `(key, bytes)` a loader returned in this case -/
  log : List (String × Bytes) := []

def insertSorted (x : String) : List String → List String
  | [] => [x]
  | y :: r => if x < y then x :: y :: r else y :: insertSorted x r
def sortStrings (l : List String) : List String := l.foldl (fun acc x => insertSorted x acc) []

def stateStr (c : Cache String) : String :=
  let keys := sortStrings c.keys
  let heap := sortStrings (c.heap.map fun i => s!"{i.key}:{i.value.length}")
  s!"size={c.size} keys={if keys.isEmpty then "-" else ",".intercalate keys} heap={if heap.isEmpty then "-" else ",".intercalate heap}"

/-- Oracle: the executable invariant (`invCheck`) on the implementation's state line. -/
def stateViol (maxSize : Int) (implObs : String) : List String :=
  let toks := words implObs
  let size := kvInt toks "size"
  let keys := commaList (kvStr toks "keys")
  let heap := (commaList (kvStr toks "heap")).map fun t =>
    match t.splitOn ":" with
    | [k, l] => (k, parseNat! l)
    | _ => (t, 0)
  if invCheck maxSize size keys heap then []
  else [s!"C17 cache-invariant-broken size={size} max={maxSize} keys={kvStr toks "keys"} heap={kvStr toks "heap"}"]

def step (st : St) (op implObs : String) : St × String × List String × List String :=
  let toks := words op
  let name := toks.headD ""
  if name = "open" then
    let ttl := kvNat toks "ttl"
    let st' : St := { opened := true, cache := Rain.Cache.new (kvInt toks "max") (if ttl = 0 then 3600000000 else ttl * 1000) }
    (st', stateStr st'.cache, stateViol st'.cache.maxSize implObs, [if ttl = 0 then "cfg:no-ttl" else "cfg:real-ttl"])
  else if !st.opened then (st, "not-open", [], [])
  else match name with
  | "get" =>
    let k := kvStr toks "k"
    let lr : LoadRes :=
      if kvStr toks "v" = "err" then .err
      else .ok ((List.range (kvNat toks "v")).map fun i => (kvNat toks "s" + i) % 256)
    let log' := st.log ++ loadOf st.cache (.get k lr)
    let before := st.cache
    let (c', g) := get st.cache k lr
    let resStr := match g with
      | .value v true => "hit:" ++ hex v
      | .value v false => "miss:" ++ hex v
      | .error => "err"
      | .panic => "panic"
    -- oracle (conclusion of `cache_transparent` on the implementation's answer)
    let implRes := (words implObs).headD ""
    let viol :=
      (if implRes.startsWith "hit:" then
        let v := unhex! (implRes.drop 4).toString
        if st.log.any (fun p => p.1 = k ∧ p.2 = v) then [] else [s!"C03 cache-hit-returned-bytes-no-loader-produced key={k}"]
      else if implRes.startsWith "miss:" then
        if lr = .ok (unhex! (implRes.drop 5).toString) then [] else [s!"C03 cache-miss-altered-loader-bytes key={k}"]
      else if implRes = "err" then (if lr = .err then [] else [s!"C03 cache-error-without-loader-error key={k}"])
      else [s!"C03 cache-get-bad-observation"]) ++ stateViol st.cache.maxSize implObs
    let tags :=
      (match g with
       | .value _ true => ["branch:hit", "nontrivial"]
       | .value v false => if (v.length : Int) > before.maxSize then ["branch:miss-too-big"] else ["branch:miss-cached"]
       | .error => ["branch:loader-error"]
       | .panic => ["branch:model-panic"]) ++
      (if c'.heap.length < before.heap.length ∨ (c'.heap.length = before.heap.length ∧ c'.size ≠ before.size ∧ g ≠ .error) then ["branch:evicted"] else [])
    ({ st with cache := c', log := log' }, resStr ++ " " ++ stateStr c', viol, tags)
  | "fire" =>
    let c' := fire st.cache (kvStr toks "k")
    ({ st with cache := c' }, stateStr c', stateViol st.cache.maxSize implObs,
      [if c'.heap.length < st.cache.heap.length then "branch:fire-removed" else "branch:fire-noop"])
  | "sleep" =>
    let c' := advance st.cache (kvNat toks "ms" * 1000)
    ({ st with cache := c' }, stateStr c', stateViol st.cache.maxSize implObs,
      [if c'.heap.length < st.cache.heap.length then "branch:ttl-expired" else "branch:ttl-kept"])
  | "clearfire" =>
    -- an expiry timer that fires across a Clear finds nothing to remove: the cache is simply empty
    let c' := clear st.cache
    ({ st with cache := c' }, stateStr c', stateViol st.cache.maxSize implObs, ["branch:clear-vs-timer", "nontrivial"])
  | "staleget" =>
    -- reader 1 looks `k` up, reader 2 loads `e` (n zero bytes, may evict `k`), reader 1 reads
    let k := kvStr toks "k"
    let e := kvStr toks "e"
    let zeros : Bytes := List.replicate (kvNat toks "n") 0
    let had := (st.cache.heap.find? (·.key = k)).map (·.value)
    let log1 := st.log ++ loadOf st.cache (.get e (.ok zeros))
    let (c1, _) := get st.cache e (.ok zeros)
    if k = e then
      -- both readers want the same block: reader 2 finds the very item reader 1 holds
      match had with
      | some v =>
        let (c2, _) := get c1 k (.ok [0xEE])
        ({ st with cache := c2, log := log1 }, "val:" ++ hex v ++ " " ++ stateStr c2, stateViol st.cache.maxSize implObs, ["branch:same-block-hit"])
      | none =>
        if c1.heap.any (·.key = k) then
          let (c2, _) := get c1 k (.ok [0xEE])
          ({ st with cache := c2, log := log1 }, "val:" ++ hex zeros ++ " " ++ stateStr c2, stateViol st.cache.maxSize implObs, ["branch:same-block-loaded-by-other", "nontrivial"])
        else
          -- larger than the whole cache: not kept, but reader 1 holds the loaded item and gets its bytes
          ({ st with cache := c1, log := log1 }, "val:" ++ hex zeros ++ " " ++ stateStr c1, stateViol st.cache.maxSize implObs, ["branch:same-block-too-big", "nontrivial"])
    else
    match had with
    | some v =>
      if c1.heap.any (·.key = k) then
        -- not evicted: an ordinary hit (access time refreshed)
        let (c2, _) := get c1 k (.ok [0xEE])
        ({ st with cache := c2, log := log1 }, "val:" ++ hex v ++ " " ++ stateStr c2, stateViol st.cache.maxSize implObs, ["branch:stale-reader-hit"])
      else
        -- evicted in between: the reader still gets the bytes it found; the item is not brought back
        ({ st with cache := c1, log := log1 }, "val:" ++ hex v ++ " " ++ stateStr c1, stateViol st.cache.maxSize implObs, ["branch:stale-reader-evicted", "nontrivial"])
    | none =>
      let log2 := log1 ++ loadOf c1 (.get k (.ok [0xEE]))
      let (c2, _) := get c1 k (.ok [0xEE])
      ({ st with cache := c2, log := log2 }, "val:ee " ++ stateStr c2, stateViol st.cache.maxSize implObs, ["branch:stale-reader-miss"])
  | "clear" =>
    let c' := clear st.cache
    ({ st with cache := c' }, stateStr c', stateViol st.cache.maxSize implObs, ["branch:clear"])
  | _ => (st, "unknown-op", [], [])

def suite : Suite where
  name := "cache"
  runCase ops :=
    let (_, acc) := ops.foldl
      (fun (p : St × List (String × List String × List String)) (o : String × String) =>
        let (s', obs, vs, tags) := step p.1 o.1 o.2
        (s', (obs, vs, tags) :: p.2)) ({}, [])
    let rs := acc.reverse
    (rs.map fun (o, v, _) => (o, v), (rs.flatMap fun (_, _, t) => t).eraseDups)

end Driver.Suites.Cache
