import Driver.Suites.Paths
/-!
Suite `tar` (C07): `readData` on generated archives.  Model: `tarTarget` per entry until the
first refusal.  File-system outcomes (an entry that is a directory of a later one, …) are not
modelled: the implementation's result is checked to be admissible (created ⊆ targets; without an
error all targets exist; an `escape` error only when the model refuses an entry).  Oracle: every
file found afterwards lies under the destination directory.
-/
namespace Driver.Suites.Tar
open Driver Driver.MetaSpec Driver.Suites.Paths Rain.Path

/-- Targets of the entries processed before the first refused one, and whether one was refused. -/
def targets (dir : Bytes) : List Bytes → List Bytes × Bool
  | [] => ([], false)
  | n :: rest =>
    match tarTarget dir n with
    | none => ([], true)
    | some t => let (ts, r) := targets dir rest; (t :: ts, r)

def step (op implObs : String) : String × List String × List String :=
  let toks := words op
  match toks.head? with
  | some "tar" =>
    let incl := kvBool toks "incl"
    let root := dataDirOf (sandbox ++ strBytes "/outer/dest") (unhexE (kvStr toks "id")) incl
    let relRoot := (stripPrefix (sandbox ++ [SLASH]) root).getD root
    let arg := match kvStr toks "dir" with
      | "slash" => root ++ [SLASH]
      | "dot" => root ++ strBytes "/./../" ++ (splitSlash root).getLast!   -- same directory, unclean spelling
      | _ => root
    let names := (commaList (kvStr toks "names")).map unhexE
    let (ts, refused) := targets arg names
    let expected := ts.map fun p => (stripPrefix (sandbox ++ [SLASH]) p).getD p
    let itoks := words implObs
    let created := (commaList (kvStr itoks "created")).map unhexE
    let err := kvStr itoks "err"
    let implRoot := unhexE (kvStr itoks "root")
    let admissible := implObs = "badarchive" ∨
      (implObs.startsWith "extracted " ∧ implRoot = relRoot ∧ created.all (expected.contains ·) ∧
       (err = "none" → (!refused ∧ expected.all (created.contains ·))) ∧ (err = "escape" → refused) ∧
       (refused → err ≠ "none"))
    let viol := (created.filterMap fun c =>
      if Under implRoot c then none else some s!"C07 tar-entry-outside-destination path={hexE c} root={hexE implRoot}").eraseDups
    (if admissible then implObs else s!"inadmissible expected-root={hexE relRoot} targets={",".intercalate (expected.map hexE)} refused={boolStr refused}",
     viol,
     ["branch:tar"] ++ (if refused then ["branch:tar-refused"] else ["branch:tar-all-accepted"]) ++
     (if names.length ≥ 2 then ["nontrivial"] else []) ++ (if err = "other" then ["branch:tar-fs-error"] else []))
  | _ => ("unknown-op", [], [])

def suite : Suite where
  name := "tar"
  runCase ops :=
    let rs := ops.map fun (op, obs) => step op obs
    (rs.map fun (o, v, _) => (o, v), (rs.flatMap fun (_, _, t) => t).eraseDups)

end Driver.Suites.Tar
