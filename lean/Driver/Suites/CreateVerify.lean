import Driver.Util
import RainModel.Model.Geometry
/-!
Suite `create-verify` (C02, thorough tier): directory tree → `NewInfoBytes` → `NewInfo` →
allocator → `NewPieces` → verifier, on the real file system.  See `suite_createverify.go`.

Model side: the expected observation is computed from the tree alone — files in `filepath.Walk`
order, `np = ⌈total / pl⌉`, the piece table equals the harness's independent SHA-1 table
(`table=1`), and every piece verifies, except that a file whose name starts with
`_____padding_file` is parsed as a padding file (BitComet convention in `isPadding`), is not
opened and reads as zeros, so every piece overlapping a byte of it fails (contents are never
zero).  Oracle (`create_verify`): all pieces verify.
-/
namespace Driver.Suites.CreateVerify
open Driver

structure F where
  rel : String
  size : Nat

def parseFiles (s : String) : List F :=
  (commaList s).filterMap fun t =>
    match t.splitOn ":" with
    | [r, sz, _] => some { rel := r, size := parseNat! sz }
    | _ => none

def walkLess (a b : String) : Bool :=
  let rec go : List String → List String → Bool
    | x :: xs, y :: ys => if x = y then go xs ys else x < y
    | [], _ :: _ => true
    | _, _ => false
  go (a.splitOn "/") (b.splitOn "/")

def insertSorted (f : F) : List F → List F
  | [] => [f]
  | g :: r => if walkLess f.rel g.rel then f :: g :: r else g :: insertSorted f r

def isPadName (rel : String) : Bool :=
  match (rel.splitOn "/").getLast? with
  | some n => n.startsWith "_____padding_file"
  | none => false

/-- Pieces (of length `pl`, over `total` bytes) that do not overlap `[lo, hi)`. -/
def overlaps (pl i lo hi : Nat) : Bool := lo < hi && i * pl < hi && lo < (i + 1) * pl

def step (op implObs : String) : String × List String × List String :=
  let toks := words op
  let pl := kvNat toks "pl"
  let single := kvStr toks "mode" = "single"
  let files0 := parseFiles (kvStr toks "files")
  let files0 := if single then files0.take 1 else files0
  -- a symbolic link to a file of the tree counts as a file with the target's content
  let linked : List F := if single then [] else (commaList (kvStr toks "links")).filterMap fun t =>
    match t.splitOn ">" with
    | [r, tgt] => (files0.find? (·.rel = tgt)).map fun f => { rel := r, size := f.size }
    | _ => none
  let files0 := files0 ++ linked
  let files := files0.foldl (fun acc f => insertSorted f acc) []
  let total := (files.map (·.size)).sum
  if total = 0 ∨ pl = 0 then
    ("create-error", if implObs = "create-error" then [] else [], ["empty-tree"])
  else
    let np := (total + pl - 1) / pl
    -- byte ranges of padding-named files (only in directory mode: a single-file torrent has no path list)
    let ranges : List (Nat × Nat) := (files.foldl (fun (acc : Nat × List (Nat × Nat)) f =>
      (acc.1 + f.size, if !single && isPadName f.rel then (acc.1, acc.1 + f.size) :: acc.2 else acc.2)) (0, [])).2
    let npad := if single then 0 else (files.filter fun f => isPadName f.rel).length
    let good := (List.range np).filter fun i => !(ranges.any fun (lo, hi) => overlaps pl i lo hi)
    let mobs := s!"ok np={np} set={good.length} files={files.length} pad={npad} length={total} missing=0 table=1"
    let itoks := words implObs
    let viol :=
      if itoks.head? = some "ok" ∧ kvNat itoks "set" = kvNat itoks "np" ∧ kvNat itoks "np" = np ∧ kvStr itoks "table" = "1" then []
      else
        let kind := if ranges.any (fun (lo, hi) => lo < hi) then "padding-named-file" else if !linked.isEmpty then "symlink" else "other"
        [s!"C02 create-verify-incomplete kind={kind}"]
    let tags := (if files.length ≥ 2 then ["nontrivial"] else []) ++
      (if files.any (fun f => f.size = 0) then ["zero-len-file"] else []) ++
      (if files.any (fun f => f.size % pl = 0 ∧ f.size > 0) then ["file-ends-on-piece-boundary"] else []) ++
      (if single then ["single-file"] else []) ++ (if npad > 0 then ["padding-named-file"] else []) ++
      (if !linked.isEmpty then ["symlink"] else [])
    (mobs, viol, tags)

def suite : Suite where
  name := "create-verify"
  runCase ops :=
    let rs := ops.map fun (op, obs) => step op obs
    (rs.map fun (o, v, _) => (o, v), (rs.flatMap fun (_, _, t) => t).eraseDups)

end Driver.Suites.CreateVerify
