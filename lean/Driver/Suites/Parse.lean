import Driver.Suites.MetaSpec
/-!
Suite `parse` (C06).  op `info …` → the model's `newInfo` on the fields the harness encoded;
oracle: `WF` on the implementation's accepted description, and `pieces=done` (piece construction
under the watchdog terminated).  op `raw …` (bytes that are not a description): crash-freedom
only; the model's answer is `reject`.
-/
namespace Driver.Suites.Parse
open Driver Driver.MetaSpec Rain.Path Rain.Validate

def classify (o : InfoOut) : String :=
  if o.files.any (fun f => f.length < 0) then "negative-file-length"
  else if sumInt (o.files.map (·.length)) ≠ o.length then "sum-mismatch"
  else if o.pieceLength = 0 then "zero-piece-length"
  else if o.numPieces = 0 then "zero-pieces"
  else "length-vs-pieces"

def step (op implObs : String) : String × List String × List String :=
  let toks := words op
  match toks.head? with
  | some "info" =>
    let p := paramsOf toks
    let (modelObs, tags) : String × List String :=
      match decodeDict (kvStr toks "mode" = "meta") (kvStr toks "d") with
      | .unsupported w => (s!"unsupported:{w}", ["branch:unsupported"])
      | .tooDeep => ("reject:too-deep", ["branch:too-deep"])
      | .decodeError => ("reject:decode", ["branch:decode"])
      | .ok ib =>
        match newInfo p ib with
        | .error e => (s!"reject:{e.toString}", [s!"branch:{e.toString}"])
        | .ok o =>
          (showInfo o ++ " pieces=done",
            ["branch:ok", "nontrivial"] ++
            (if ib.files.length ≥ 2 then ["branch:multi-file"] else []) ++
            (if ib.files.isEmpty then ["branch:single-file"] else []) ++
            (if o.padding > 0 then ["branch:padding"] else []) ++
            (if o.priv then ["branch:private"] else []) ++
            (if o.files.any (fun f => f.length = 0) then ["branch:zero-length-file"] else []))
    -- oracle on the implementation's observation
    let viol :=
      match parseImplInfo implObs with
      | none =>
        if implObs.startsWith "reject:" then [] else [s!"C06 unexpected-observation obs={implObs.take 40}"]
      | some o =>
        (if WF o then [] else [s!"C06 accepted-not-wellformed kind={classify o}"]) ++
        -- C19: the private flag of an accepted description must be read as the encoding rule says
        -- (integer ≠ 0, string other than "" and "0", any other type → private; absent → public)
        (match decodeDict (kvStr toks "mode" = "meta") (kvStr toks "d") with
         | .ok ib => if parsePrivate ib.priv && !o.priv then ["C19 private-flag-read-as-public"]
                     else if !(parsePrivate ib.priv) && o.priv then ["C19 public-flag-read-as-private"] else []
         | _ => []) ++
        (match kv? (words implObs) "pieces" with
         | some "done" => []
         | some r => [s!"C06 newpieces-{r} kind={if WF o then "wellformed-input" else classify o}"]
         | none => ["C06 newpieces-missing"])
    (modelObs, viol, tags ++ (if kvStr toks "mode" = "meta" then ["branch:via-metainfo-New"] else []))
  | some "limit" =>
    let viaMeta := kvStr toks "via" = "meta"
    let maxPieces := kvNat toks "maxpieces"
    let hashHex := strBytes (kvStr toks "hash")
    let truncated := viaMeta && kvNat toks "size" > kvNat toks "maxsize"
    let (modelObs, tags) : String × List String :=
      if !viaMeta && (versionFlags (kvInt toks "ver")).isNone then ("reject:version", ["branch:limit-version"]) else
      if truncated then
        -- the pre-scan may meet an over-deep value before the cut: either rejection is admissible
        (if dictDepth viaMeta (kvStr toks "d") > maxBencodeDepth ∧ implObs = "reject:too-deep" then implObs
         else "reject:decode", ["branch:limit-truncated"]) else
      match decodeDict viaMeta (kvStr toks "d") with
      | .unsupported w => (s!"unsupported:{w}", ["branch:unsupported"])
      | .tooDeep => ("reject:too-deep", ["branch:too-deep"])
      | .decodeError => ("reject:decode", ["branch:decode"])
      | .ok ib =>
        let flags := if viaMeta then some (true, true) else versionFlags (kvInt toks "ver")
        match flags with
        | none => ("reject:version", ["branch:limit-version"])
        | some (u, pd) =>
          match newInfo { utf8 := u, pad := pd, hashHex := hashHex } ib with
          | .error e => (s!"reject:{e.toString}", [s!"branch:{e.toString}"])
          | .ok o =>
            match piecesGuard maxPieces o with
            | .error _ => ("reject:too-many-pieces", ["branch:limit-too-many-pieces", "nontrivial"])
            | .ok o => (s!"accept np={o.numPieces} len={o.length}", ["branch:limit-accept", "nontrivial"])
    let viol :=
      if implObs.startsWith "accept " then
        let np := kvNat (words implObs) "np"
        (if np > maxPieces then [s!"C06 limit-exceeded np={np} max={maxPieces}"] else []) ++
        (if truncated then ["C06 limit-size-exceeded-accepted"] else [])
      else []
    (modelObs, viol, tags)
  | some "raw" =>
    ("reject alloc=small",
      (if implObs = "reject alloc=small" then []
       else if implObs = "reject alloc=big" then [s!"C06 raw-input-large-allocation kind={kvStr toks "kind"}"]
       else [s!"C06 raw-input-accepted kind={kvStr toks "kind"}"]), ["branch:raw"])
  | _ => ("unknown-op", [], [])

def suite : Suite where
  name := "parse"
  runCase ops :=
    let rs := ops.map fun (op, obs) => step op obs
    (rs.map fun (o, v, _) => (o, v), (rs.flatMap fun (_, _, t) => t).eraseDups)

end Driver.Suites.Parse
