import Driver.Util
/-!
Suite `movesend` (C07): the sending side of a torrent move — the real `generateTar` of a torrent with a crafted name
on a real session with a file storage (`suite_movesend.go`).

Model: the archive holds exactly the files found below the directory the storage uses for the torrent (the files the
harness wrote there, `in=`), whatever the torrent is called.  Oracle: no byte of the archive was read outside the
session's data directory (`leak=0`; the files outside carry a marker), and the entries are those files.
-/
namespace Driver.Suites.MoveSend
open Driver

def insertSorted (x : String) : List String → List String
  | [] => [x]
  | y :: r => if x < y then x :: y :: r else y :: insertSorted x r

def step (op implObs : String) : String × List String × List String :=
  let toks := words op
  let ins := (commaList (kvStr toks "in")).map fun n => hex (n.toUTF8.toList.map (·.toNat))
  let want := ins.foldl (fun acc x => insertSorted x acc) []
  let mobs := s!"ok entries={if want.isEmpty then "-" else ",".intercalate want} leak=0"
  let it := words implObs
  let tags := (if kvStr toks "incl" = "1" then ["cfg:id-level"] else ["cfg:shared-datadir", "nontrivial"]) ++
    (if implObs = "rejected" then ["branch:name-rejected"] else [])
  if implObs = "rejected" then (implObs, [], tags)
  else
    let viol :=
      (if kvStr it "leak" = "1" then [s!"C07 archive-carries-bytes-read-outside-the-data-directory entries={kvStr it "entries"}"] else []) ++
      (if it.headD "" = "ok" ∧ kvStr it "leak" ≠ "1" ∧ implObs ≠ mobs then [s!"C07 archive-is-not-the-torrent-directory got={kvStr it "entries"}"] else []) ++
      (if it.headD "" ≠ "ok" then [s!"C07 archive-not-produced obs={implObs.replace " " "_"}"] else [])
    (mobs, viol, tags)

def suite : Suite where
  name := "movesend"
  runCase ops :=
    let rs := ops.map fun (op, obs) => step op obs
    (rs.map fun (o, v, _) => (o, v), (rs.flatMap fun (_, _, t) => t).eraseDups)

end Driver.Suites.MoveSend
