import Driver.Util
import RainModel.Model.WsAcct
/-!
Suite `wsloop` (C17, C10, C01): the web seed bookkeeping of the REAL torrent event loop
(harness/overlay/torrent/zz_verif_wsloop.go) against M-WSACCT (`RainModel/Model/WsAcct.lean`).

The download progress is not modelled: which range a source gets, which piece a peer asks for, what is written —
all of that is read from the implementation's observation (and the observation is echoed).  From each op and the
progress facts of the observation before it the driver derives the handler events of the accounting model
(`Rain.WsAcct.Ev`) in the order the loop runs them; what the piece picker answered inside them (`pick`, `k`) is not
observable, so every answer is tried and the implementation's accounting state (`ws=` flags, `wsact=`, `wsr=`)
must be one of the model's results — otherwise `C17 webseed-accounting-mismatch`.

Oracles on the implementation's observation (independent of the model):
* `C17 webseed-downloads-exceed-cap`  more sources with a downloader than `WebseedMaxDownloads`;
* `C17 webseed-active-counter-drift`  `t.webseedActiveDownloads` ≠ number of sources with a downloader;
  (`via=` names the model branch that explains it — the known finding C17-F3 — or `unexplained`)
* `C10 webseed-never-asked-although-slot-free`  status Downloading, a source that is neither disabled nor
  downloading, fewer downloaders than the maximum, and a piece that is missing, not being written and not reserved;
* `C10 webseed-piece-reserved-without-downloader`  a piece is marked as requested from a source that has no
  downloader whose range contains it;
* `C10 webseed-honest-source-but-no-completion`  at `diskcheck final=1` (the generator has served every source
  honestly until nothing moved) the torrent still downloads although a source is not disabled;
* `C01 unverified-bytes-written` / `C01 completed-with-wrong-bytes`  a storage write with wrong bytes / completion
  with a disk that differs from the ground truth.
-/
namespace Driver.Suites.WsLoop
open Driver
open Rain.WsAcct

structure SrcI where
  dl : Bool
  disabled : Bool
  b : Nat
  e : Nat
  cur : Nat

def hasChar (s : String) (c : Char) : Bool := s.toList.contains c

def parseWs (s : String) : List SrcI :=
  (commaList s).map fun e =>
    let f := e.splitOn ":"
    let fl := f.getD 1 ""
    let r := (f.getD 2 "0-0").splitOn "-"
    { dl := hasChar fl 'd', disabled := hasChar fl 'x', b := parseNat! (r.getD 0 "0"), e := parseNat! (r.getD 1 "0"),
      cur := parseNat! (f.getD 3 "0") }

def bits (s : String) : List Bool := if s = "-" then [] else s.toList.map (· = '1')

inductive Who where
  | ws (j : Nat)
  | peer (k : Nat)

structure Flight where
  piece : Nat
  who : Who
  bad : Bool
  stale : Bool := false

inductive Pend where
  /-- a piece of source `j`; `piece` and the `Done` flag are what the downloader computed when it finished the piece
  (for a result that waits for a write: before the handlers that run in between) -/
  | wsRes (j : Nat) (bad : Bool) (piece : Nat) (doneFlag : Bool)
  | wsErr (j : Nat)
  | peerPiece (k p : Nat) (bad : Bool)

inductive Tpl where
  | fixed (e : Ev)
  | pickB (f : Bool → Ev)
  | pickK (f : Nat → Ev)

/-- progress facts followed through the handlers of one op -/
structure C where
  done : List Bool
  rng : List (Option (Nat × Nat × Nat))   -- (begin, end, current) of a downloader whose range is known
  gate : Bool
  flight : Option Flight
  pend : Option Pend
  evs : List Tpl := []                     -- reversed
  tags : List String := []
  -- echo of the implementation for what a scripted peer achieved
  qdone : List Bool
  qwr : List Bool
  ppeers : List String
  qpeers : List String

def C.ev (c : C) (t : Tpl) (tag : String) : C := { c with evs := t :: c.evs, tags := tag :: c.tags }

def pendFrom (p : Option Pend) (j : Nat) : Bool :=
  match p with
  | some (.wsRes j' _ _ _) => j' = j
  | some (.wsErr j') => j' = j
  | _ => false

/-- the downloader of source `j` is closed: its range is gone, a result of it that was waiting is never delivered -/
def closeSrc (c : C) (j : Nat) : C :=
  { c with rng := c.rng.set j none, pend := if pendFrom c.pend j then none else c.pend }

def completion (c : C) : C :=
  if !c.done.isEmpty && c.done.all id then
    let c := c.ev (.fixed .stopAll) "branch:completed"
    { c with rng := c.rng.map fun _ => none,
             pend := match c.pend with | some (.peerPiece k p b) => some (.peerPiece k p b) | _ => none }
  else c

def owner (rng : List (Option (Nat × Nat × Nat))) (p : Nat) : Option (Nat × Nat × Nat × Nat) :=
  (List.range rng.length).findSome? fun j =>
    match rng.getD j none with
    | some (b, e, cur) => if b ≤ p && p < e then some (j, b, e, cur) else none
    | none => none

def setDone (l : List Bool) (p : Nat) : List Bool := l.set p true

def peerAchieved (c : C) (k p : Nat) (bad : Bool) : Bool :=
  (c.qdone.getD p false && !c.done.getD p false) || c.qwr.getD p false ||
    (bad && c.ppeers.contains (toString k) && !c.qpeers.contains (toString k))

mutual
/-- `handlePieceWriteDone` for the write in flight, then the result that was waiting for `Resume` -/
def writeDone : Nat → C → Flight → C
  | 0, c, _ => c
  | fuel + 1, c, f =>
    let c := { c with flight := none }
    -- the write was in flight when the torrent stopped: its result changes nothing (it reports a write error on a
    -- closed file; if the torrent has been started again meanwhile, that error stops it — seen as `stoppedNow`)
    if f.stale then { c with pend := none } else
    let c :=
      match f.who, f.bad with
      | .ws j, true => closeSrc (c.ev (.pickK (.wsCorrupt j)) "branch:wsCorrupt") j
      | .ws _, false => completion { c with done := setDone c.done f.piece }
      | .peer _, true => c.ev (.pickK .startAll) "branch:peer-corrupt"
      | .peer _, false =>
        let c := { c with done := setDone c.done f.piece }
        let c := match owner c.rng f.piece with
          | some (j, b, _, cur) =>
            if cur ≥ f.piece then closeSrc (c.ev (.pickB (.stopAtClosed j)) "branch:stopAtClosed") j
            else { c with rng := c.rng.set j (some (b, f.piece, cur)), tags := "branch:range-cut" :: c.tags }
          | none => c
        completion c
    match c.pend with
    | none => c
    | some p => handle fuel { c with pend := none } p

/-- a result reaches the loop while its result channels are not suspended -/
def handle : Nat → C → Pend → C
  | 0, c, _ => c
  | fuel + 1, c, p =>
    match p with
    | .wsErr j => closeSrc (c.ev (.pickK (.wsError j)) "branch:wsError") j
    | .wsRes j bad cur doneFlag =>
      match c.rng.getD j none with
      | none => c
      | some (b, e, _) =>
        let isDone := c.done.getD cur false
        let c := if doneFlag then closeSrc (c.ev (.pickB (.rangeEnd j)) "branch:rangeEnd") j
                 else { c with rng := c.rng.set j (some (b, e, cur + 1)) }
        if isDone then { c with tags := "branch:discard-stale-result" :: c.tags }
        else if bad then writeDone fuel c { piece := cur, who := .ws j, bad := true }
        else if c.gate then { c with flight := some { piece := cur, who := .ws j, bad := false } }
        else writeDone fuel c { piece := cur, who := .ws j, bad := false }
    | .peerPiece k p bad =>
      if !peerAchieved c k p bad then c
      else if bad then writeDone fuel c { piece := p, who := .peer k, bad := true }
      else if c.gate then { c with flight := some { piece := p, who := .peer k, bad := false } }
      else writeDone fuel c { piece := p, who := .peer k, bad := false }
end

/-- every instantiation of the unknown picker answers -/
def expand (n : Nat) : List Tpl → List (List Ev)
  | [] => [[]]
  | t :: ts =>
    let rest := expand n ts
    match t with
    | .fixed e => rest.map (e :: ·)
    | .pickB f => rest.flatMap fun r => [f true :: r, f false :: r]
    | .pickK f => rest.flatMap fun r => (List.range (n + 1)).map fun k => f k :: r

def flagsOf (dl disabled due : Bool) : String :=
  let s := (if dl then "d" else "") ++ (if disabled then "x" else "") ++ (if due then "r" else "")
  if s = "" then "-" else s

def acctOfModel (m : St) : String :=
  ",".intercalate (m.srcs.map fun x => flagsOf x.dl x.disabled x.retryDue) ++ s!"/{m.active}"

def acctOfImpl (ws : List SrcI) (due : List Nat) (act : Int) : String :=
  ",".intercalate ((List.range ws.length).map fun j =>
    match ws[j]? with
    | some x => flagsOf x.dl x.disabled (due.contains j)
    | none => "?") ++ s!"/{act}"

structure DS where
  m : St := init 0 0
  alive : Bool := false
  gate : Bool := false
  flight : Option Flight := none
  pend : Option Pend := none
  prev : List String := []
  tainted : Bool := false
  tags : List String := []
  results : Nat := 0

def modelOfImpl (ws : List SrcI) (due : List Nat) (act cap : Int) (running : Bool) : St :=
  { srcs := (List.range ws.length).map fun j =>
      match ws[j]? with
      | some x => { dl := x.dl, disabled := x.disabled, retryDue := due.contains j }
      | none => {},
    active := act, cap := cap, running := running }

def lead (obs : String) : String :=
  let w := (words obs).headD ""
  if hasChar w '=' then "" else w

def step (d : DS) (op implObs : String) : DS × String × List String :=
  let toks := words op
  let name := toks.headD ""
  let q := words implObs
  let ld := lead implObs
  if implObs = "hang" || implObs = "dead" || implObs.startsWith "panic:" || implObs.startsWith "unsettled" then
    let kind := (implObs.takeWhile (fun ch => ch ≠ ':' && ch ≠ ' ')).toString
    ({ d with alive := false }, implObs, [s!"C17 loop-{kind} op={name}", s!"C10 loop-{kind} op={name}"])
  else if (kv? q "ws").isNone then (d, implObs, [])
  else
  let ws := parseWs (kvStr q "ws")
  let n := ws.length
  let cap := kvInt q "wscap"
  let act := kvInt q "wsact"
  let due := natList (kvStr q "wsr")
  let qst := kvStr q "st"
  let qrw := kvStr q "rw"
  let qRunning := qst = "Downloading" && qrw ≠ "-"
  let qdone := bits (kvStr q "done")
  let qwr := bits (kvStr q "wr")
  let nd := (ws.filter (·.dl)).length
  -- C01 oracles (whatever the op)
  let sto := commaList (kvStr q "sto")
  let c01 :=
    (if sto.any fun e => e.startsWith "write:" && e.endsWith ":bad" then ["C01 unverified-bytes-written"] else []) ++
    (if name = "diskcheck" && kvStr q "completed" = "1" && kvStr q "disk" ≠ "ok" then ["C01 completed-with-wrong-bytes"] else [])
  if name = "new" then
    let m0 := init n cap
    let viol := if acctOfImpl ws due act = acctOfModel m0 then [] else
      [s!"C17 webseed-accounting-mismatch op=new impl={acctOfImpl ws due act} model={acctOfModel m0}"]
    ({ m := m0, alive := true, prev := q, tags := [s!"sources:{n}", s!"cap:{cap}"] ++ (if (n : Int) > cap then ["branch:more-sources-than-slots"] else []) },
      implObs, viol ++ c01)
  else if !d.alive then (d, implObs, c01)
  else
  let p := d.prev
  let pws := parseWs (kvStr p "ws")
  let pst := kvStr p "st"
  let c0 : C := {
    done := bits (kvStr p "done"),
    rng := pws.map fun x => if x.dl then some (x.b, x.e, x.cur) else none,
    gate := d.gate, flight := d.flight, pend := d.pend,
    qdone := qdone, qwr := qwr, ppeers := commaList (kvStr p "peers"), qpeers := commaList (kvStr q "peers") }
  let skipped := ld.startsWith "skipped" || ld = "bad-op"
  let fuel := 6
  let c1 : C :=
    if skipped then c0 else
    match name with
    | "start" =>
      if pst = "Stopped" || pst = "Stopping" then
        if qRunning then (c0.ev (.fixed (.run true)) "branch:start").ev (.pickK .startAll) "branch:startAll"
        else c0
      else c0
    | "stop" =>
      if pst = "Stopped" || pst = "Stopping" then c0 else
        let c := c0.ev (.fixed .stopAll) "branch:stop"
        { c with rng := c.rng.map fun _ => none, pend := none,
                 flight := c.flight.map fun f => { f with stale := true } }
    | "gate" =>
      if kvStr toks "kind" ≠ "write" then c0
      else if kvStr toks "on" = "0" then
        let c := { c0 with gate := false }
        match c.flight with
        | some f => writeDone fuel (if f.stale then c else { c with tags := "branch:write-released" :: c.tags }) f
        | none => c
      else { c0 with gate := true }
    | "ws" =>
      let j := kvNat toks "i"
      let pe : Pend :=
        if kvStr toks "do" = "fail" then .wsErr j else
        match c0.rng.getD j none with
        | some (_, e, cur) => .wsRes j (kvStr toks "do" = "lie") cur (cur + 1 ≥ e)
        | none => .wsRes j (kvStr toks "do" = "lie") 0 true
      if ld = "deferred" then { c0 with pend := some pe, tags := "branch:result-waits-for-write" :: c0.tags }
      else handle fuel c0 pe
    | "wsretry" => c0.ev (.pickB (.retry (kvNat toks "i"))) "branch:retry"
    | "msg" =>
      if kvStr toks "t" ≠ "piece" then c0 else
        let pe : Pend := .peerPiece (kvNat toks "p") (kvNat toks "i") (kvStr toks "data" ≠ "true")
        if ld = "deferred" then { c0 with pend := some pe } else handle fuel c0 pe
    | "disconnect" =>
      if c0.ppeers.contains (kvStr toks "p") then c0.ev (.pickK .startAll) "branch:peer-closed" else c0
    | _ => c0
  -- the torrent stopped by itself (a write error, …)
  let stoppedNow := d.m.running && (qst = "Stopped" || qst = "Stopping") &&
    !(c1.evs.any fun t => match t with | .fixed .stopAll => true | _ => false)
  let tpls := c1.evs.reverse ++ (if stoppedNow then [.fixed .stopAll] else []) ++ [.fixed (.run qRunning)]
  let cands := (expand n tpls).map fun es => runFixed d.m es
  let implAcct := acctOfImpl ws due act
  let hit := cands.find? fun m => acctOfModel m = implAcct
  let known := ["start", "stop", "gate", "ws", "wsretry", "msg", "disconnect", "peer", "obs", "diskcheck"].contains name
  let (m', mism) : St × List String :=
    match hit with
    | some m => (m, [])
    | none =>
      let m0 := cands.headD d.m
      (modelOfImpl ws due act cap qRunning,
        if known then [s!"C17 webseed-accounting-mismatch op={name} impl={implAcct} model={acctOfModel m0}"] else [])
  -- C10: a source that was paused after a download error is usable again once its retry has fired
  let retryViol := if name = "wsretry" then
      match ws[kvNat toks "i"]? with
      | some x => if x.disabled && !x.dl && !(due.contains (kvNat toks "i")) then
          [s!"C10 webseed-stays-disabled-after-its-retry source={kvNat toks "i"}"] else []
      | none => []
    else []
  let mism := mism ++ retryViol
  let tainted := d.tainted || !mism.isEmpty || (hit.isNone && !known)
  -- does the (untainted) model itself predict the anomaly?  Then it is finding C17-F3.
  let mnd := countDl m'.srcs
  let via (modelHasIt : Bool) : String := if !tainted && modelHasIt then "corrupt-verdict-for-closed-downloader" else "unexplained"
  let c17 :=
    (if (nd : Int) > cap then
      [s!"C17 webseed-downloads-exceed-cap downloading={nd} cap={cap} via={via ((mnd : Int) > m'.cap)}"] else []) ++
    (if act ≠ (nd : Int) then
      [s!"C17 webseed-active-counter-drift counter={act} downloading={nd} via={via (m'.active ≠ (mnd : Int))}"] else [])
  -- C10
  let idle := (List.range n).filter fun j => match ws[j]? with | some x => !x.dl && !x.disabled | none => false
  let rwc := qrw.toList
  let avail := (List.range qdone.length).filter fun i =>
    !qdone.getD i true && !qwr.getD i true && rwc.getD i '?' = '.'
  -- a piece reserved for a source that has no downloader working on a range with that piece can never be taken
  -- by a web seed again (`AvailableForWebseed` is false for it)
  let digits := "0123456789abcdefghijklmnopqrstuvwxyz".toList
  let orphan := (List.range rwc.length).find? fun i =>
    let ch := rwc.getD i '.'
    ch ≠ '.' && ch ≠ '-' &&
      (match ws[digits.idxOf ch]? with
       | some x => !(x.dl && x.b ≤ i && i < x.e)
       | none => true)
  let c10 :=
    (match orphan with
     | some i => [s!"C10 webseed-piece-reserved-without-downloader piece={i} source={rwc.getD i '?'}"]
     | none => []) ++
    (if qRunning && !idle.isEmpty && (nd : Int) < cap && !avail.isEmpty then
      [s!"C10 webseed-never-asked-although-slot-free source={idle.headD 0} piece={avail.headD 0} downloading={nd} cap={cap}"]
     else []) ++
    (if name = "diskcheck" && kvStr toks "final" = "1" && qst = "Downloading" && ws.any (fun x => !x.disabled) then
      ["C10 webseed-honest-source-but-no-completion"] else [])
  let handled := c1.tags.filter fun t => t = "branch:rangeEnd" || t = "branch:wsError" || t = "branch:wsCorrupt" ||
    t = "branch:write-released" || t = "branch:discard-stale-result"
  let extra :=
    (if hit.isSome && m'.active ≠ (mnd : Int) then ["branch:counter-drift-C17-F3"] else []) ++
    (if qRunning && !idle.isEmpty && (nd : Int) ≥ cap then ["branch:source-waits-for-slot"] else []) ++
    (if name = "wsretry" && !skipped && nd = (pws.filter (·.dl)).length then ["branch:retry-starts-nothing"] else [])
  let d' : DS := { d with m := m', gate := c1.gate, flight := c1.flight, pend := c1.pend, prev := q, tainted := tainted,
                          tags := (d.tags ++ c1.tags ++ extra).eraseDups,
                          results := d.results + (if name = "ws" && !skipped then 1 else 0) + handled.length * 0 }
  (d', implObs, mism ++ c17 ++ c10 ++ c01)

def suite : Suite where
  name := "wsloop"
  runCase ops :=
    let (d, rs) := foldCase ({} : DS) step ops
    let special := d.tags.filter fun t =>
      t = "branch:wsError" || t = "branch:wsCorrupt" || t = "branch:stopAtClosed" || t = "branch:retry"
    (rs, d.tags ++ (if d.results ≥ 3 && !special.isEmpty then ["nontrivial"] else []))

end Driver.Suites.WsLoop
