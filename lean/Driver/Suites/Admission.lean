import Driver.Util
import RainModel.Model.Blocklist
import RainModel.Model.AddrList
import RainModel.Model.Admission
import RainModel.Model.AdmissionRun
/-!
Suite `admission` (C18): the real dial / accept decision code of package `torrent` on a bare
torrent value (see `suite_admission.go`).  Model = `Model/Admission` with both repairs
(`checkBan`, `recheckBlocklist`).

Oracle on the implementation's observations: an address handed to an outgoing handshaker
* has port ≠ 0 and is not the client's own listening address,
* its IP was not in `connectedPeerIPs` before the operation, and no IP is dialled twice in one operation,
* its IP is not in `bannedPeerIPs`,
* is not blocked by the currently loaded blocklist when the list is enabled for outgoing connections,
and the number of outgoing connections stays ≤ MaxPeerDial; an accepted connection's IP was not
connected, is not banned, not blocked (when enabled for incoming), and incoming ≤ MaxPeerAccept.
-/
namespace Driver.Suites.Admission
open Driver Rain.AddrList Rain.Admission

structure DSt where
  cfg : Cfg := ⟨0, 0, false, false, true, true⟩
  port : Nat := 0
  ext : Option Nat := none
  xip : List Nat := []
  hasBl : Bool := false
  bl : Rain.Blocklist.Blocklist := {}
  implRules : List Rain.Blocklist.IPRange := []   -- rules of the last reload the implementation accepted
  s : State := {}
  clock : Nat := 0
  implConn : List Nat := []
  ready : Bool := false

def optU32 (s : String) : Option Nat := if s = "nil" ∨ s = "" then none else some (parseNat! s)

def blBytes (bl : String) : List Nat :=
  if bl = "-" ∨ bl = "" then [] else bl.toList.map fun c => if c = ';' then 10 else c.toNat

def parseAddrs (s : String) : List (Nat × Nat) :=
  (commaList s).map fun t =>
    match t.splitOn ":" with
    | [a, b] => (parseNat! a, parseNat! b)
    | _ => (0, 0)

def insSorted (a : Nat × Nat) : List (Nat × Nat) → List (Nat × Nat)
  | [] => [a]
  | b :: bs => if a.1 < b.1 ∨ (a.1 = b.1 ∧ a.2 ≤ b.2) then a :: b :: bs else b :: insSorted a bs

def sortAddrs (l : List (Nat × Nat)) : List (Nat × Nat) := l.foldr insSorted []

def insNat (a : Nat) : List Nat → List Nat
  | [] => [a]
  | b :: bs => if a ≤ b then a :: b :: bs else b :: insNat a bs

def sortNats (l : List Nat) : List Nat := l.foldr insNat []

def showAddrs (l : List (Nat × Nat)) : String :=
  if l.isEmpty then "-" else ",".intercalate (l.map fun a => s!"{a.1}:{a.2}")

def tailOf (s : State) (dial : List Addr) : String :=
  s!"dial={showAddrs (sortAddrs dial)} out={s.outgoing.length} in={s.incoming.length} conn={showNatList (sortNats s.connected)} q={s.queue.len}"

def blockedFn (d : DSt) : Nat → Bool := fun ip => d.hasBl && d.bl.blocked (some ip)

def envOf (d : DSt) : Env :=
  ⟨1000, d.port, d.ext, d.xip, fun ip => d.cfg.blOutgoing && blockedFn d ip⟩

/-- Oracle for the addresses the implementation dialled in one operation. -/
def dialViolations (d : DSt) (banned : List Nat) (itoks : List String) : List String :=
  let dial := parseAddrs (kvStr itoks "dial")
  let implBlocked := fun ip => d.hasBl && Rain.Blocklist.inRules d.implRules ip
  let perAddr := dial.flatMap fun a =>
    (if a.2 = 0 then [s!"C18 dial-port-zero ip={a.1}"] else []) ++
    (if isLoopback a.1 ∧ a.2 = d.port then [s!"C18 dial-own-address ip={a.1}"] else []) ++
    (if d.ext = some a.1 then [s!"C18 dial-own-external-ip ip={a.1}"] else []) ++
    (if d.implConn.contains a.1 then [s!"C18 dial-connected-ip ip={a.1}"] else []) ++
    (if banned.contains a.1 then [s!"C18 dial-banned-ip ip={a.1}", s!"C01 corrupt-sender-dialled-again ip={a.1}"] else []) ++
    (if d.cfg.blOutgoing ∧ implBlocked a.1 then [s!"C18 dial-blocked-ip ip={a.1}"] else [])
  let ips := dial.map (·.1)
  perAddr ++
  (if ips.eraseDups.length ≠ ips.length then ["C18 dial-same-ip-twice"] else []) ++
  (let out := kvNat itoks "out"
   if ¬ dial.isEmpty ∧ out > d.cfg.maxPeerDial then
    [s!"C18 dial-over-limit out={out} max={d.cfg.maxPeerDial}"] else [])

def step (d : DSt) (op implObs : String) : DSt × String × List String × List String :=
  let toks := words op
  let itoks := words implObs
  let res := (itoks.head?).getD ""
  let implConn := natList (kvStr itoks "conn")
  let blocked := blockedFn d
  -- an `hsfail` that found its handshaker releases that IP before it dials
  let released : List Nat :=
    if toks.head? = some "hsfail" ∧ res = "ok" then (parseAddrs (kvStr toks "addr")).map (·.1) else []
  let dv := if d.ready then
      dialViolations { d with implConn := d.implConn.filter fun ip => !released.contains ip } d.s.banned itoks
    else []
  let dtag := if (kvStr itoks "dial") ≠ "-" ∧ (kvStr itoks "dial") ≠ "" then ["branch:dial"] else []
  let fin (d' : DSt) (obs : String) (v t : List String) := ({ d' with implConn := implConn }, obs, v, t)
  match toks.head? with
  | some "new" =>
    let blS := kvStr toks "bl"
    let hasBl : Bool := blS ≠ "nil" && blS ≠ ""
    let bl := if hasBl then (({} : Rain.Blocklist.Blocklist).reload (blBytes blS)).1 else {}
    let cfg : Cfg := ⟨kvNat toks "maxdial", kvNat toks "maxaccept", kvBool toks "blin" && hasBl,
      kvBool toks "blout" && hasBl, true, true⟩
    let portV := kvNat toks "port"
    let extV := optU32 (kvStr toks "ext")
    let xipV := natList (kvStr itoks "xip")
    let rulesV := if hasBl then Rain.Blocklist.rulesOf (blBytes blS) else []
    let d' : DSt := { cfg := cfg, port := portV, ext := extV, xip := xipV, hasBl := hasBl, bl := bl,
                      implRules := rulesV, ready := true }
    fin d' s!"ok xip={showNatList d'.xip} {tailOf d'.s []}" [] []
  | some "peers" =>
    if !d.ready then fin d "no-torrent" [] [] else
    let src := kvNat toks "src"
    let addrs := parseAddrs (kvStr toks "addrs")
    let prios := natList (kvStr itoks "p")
    let cands : List Cand := (addrs.zip prios).map fun ((ip, port), pr) => ⟨ip, port, pr⟩
    let now := d.clock + 1
    let tags := dtag ++ (if cands.any fun c => d.s.banned.contains c.ip then ["branch:push-banned"] else []) ++
      (if cands.any (filtered (envOf d)) then ["branch:push-filtered"] else [])
    -- (through `Rain.Admission.step`, the transition function the history theorems of `Props/C01Admission` are about)
    match Rain.Admission.step d.cfg blocked d.s (.peers (envOf d) stableSort cands src now) with
    | .error e => fin { d with clock := now } s!"panic:{e}" dv tags
    | .ok (s', o) =>
      fin { d with s := s', clock := now } s!"ok p={showNatList prios} {tailOf s' o.dialled}" dv tags
  | some "accept" =>
    if !d.ready then fin d "no-torrent" [] [] else
    let ip := kvNat toks "ip"
    let (s', v) := match Rain.Admission.step d.cfg blocked d.s (.accept ip) with
      | .ok (s', o) => (s', o.verdict.getD .limit)
      | .error _ => (d.s, .limit)
    let implBlocked := d.hasBl && Rain.Blocklist.inRules d.implRules ip
    let viol := if res = "accept" then
        (if d.implConn.contains ip then [s!"C18 accept-connected-ip ip={ip}"] else []) ++
        (if d.s.banned.contains ip then [s!"C18 accept-banned-ip ip={ip}", s!"C01 corrupt-sender-accepted-again ip={ip}"] else []) ++
        (if d.cfg.blIncoming ∧ implBlocked then [s!"C18 accept-blocked-ip ip={ip}"] else []) ++
        (if kvNat itoks "in" > d.cfg.maxPeerAccept then ["C18 accept-over-limit"] else [])
      else []
    let tag := match v with
      | .accept => "branch:accept" | .limit => "branch:reject-limit" | .blocked => "branch:reject-blocked"
      | .duplicate => "branch:reject-duplicate" | .banned => "branch:reject-banned"
    fin { d with s := s' } ((if v = .accept then "accept " else "reject ") ++ tailOf s' []) viol [tag]
  | some "hsfail" =>
    if !d.ready then fin d "no-torrent" [] [] else
    match parseAddrs (kvStr toks "addr") with
    | [a] =>
      if d.s.outgoing.contains a then
        match Rain.Admission.step d.cfg blocked d.s (.hsfail a) with
        | .error e => fin d s!"panic:{e}" dv dtag
        | .ok (s', ⟨dial, _⟩) =>
          let tags := dtag ++ (if d.s.queue.entries.any fun q => d.s.banned.contains q.ip then
            ["branch:banned-ip-queued-at-dial"] else []) ++
            (if d.s.queue.entries.any fun q => d.cfg.blOutgoing && blocked q.ip then
            ["branch:blocked-ip-queued-at-dial"] else [])
          fin { d with s := s' } ("ok " ++ tailOf s' dial) dv tags
      else fin d ("none " ++ tailOf d.s []) dv []
    | _ => fin d "bad-op" [] []
  | some "infail" =>
    if !d.ready then fin d "no-torrent" [] [] else
    let ip := kvNat toks "ip"
    if d.s.incoming.contains ip then
      match Rain.Admission.step d.cfg blocked d.s (.infail ip) with
      | .error e => fin d s!"panic:{e}" dv []
      | .ok (s', _) => fin { d with s := s' } ("ok " ++ tailOf s' []) dv []
    else fin d ("none " ++ tailOf d.s []) dv []
  | some "ban" =>
    if !d.ready then fin d "no-torrent" [] [] else
    let s' := { d.s with banned := kvNat toks "ip" :: d.s.banned }
    fin { d with s := s' } ("ok " ++ tailOf s' []) dv ["branch:ban"]
  | some "reload" =>
    if !d.ready then fin d "no-torrent" [] [] else
    if !d.hasBl then fin d ("none " ++ tailOf d.s []) dv [] else
    let text := blBytes (kvStr toks "bl")
    let (bl', o) := d.bl.reload text
    let okS := match o with | .ok _ => "ok " | _ => "err "
    let implRules := if res = "ok" then Rain.Blocklist.rulesOf text else d.implRules
    fin { d with bl := bl', implRules := implRules } (okS ++ tailOf d.s []) dv ["branch:reload"]
  | some "complete" =>
    if !d.ready then fin d "no-torrent" [] [] else
    match Rain.Admission.step d.cfg blocked d.s (.complete (kvBool toks "v")) with
    | .error e => fin d s!"panic:{e}" dv []
    | .ok (s', _) => fin { d with s := s' } ("ok " ++ tailOf s' []) dv []
  | _ => fin d "unknown-op" [] []

def suite : Suite where
  name := "admission"
  runCase ops :=
    let (_, acc) := ops.foldl
      (fun (p : DSt × List ((String × List String) × List String)) (o : String × String) =>
        let (s, acc) := p
        let (s', obs, vs, tags) := step s o.1 o.2
        (s', ((obs, vs), tags) :: acc)) ({}, [])
    let rs := acc.reverse
    let tags := (rs.flatMap (·.2)).eraseDups
    let nontrivial := tags.contains "branch:dial" ∧
      (tags.any fun t => t.startsWith "branch:reject" ∨ t = "branch:push-filtered" ∨ t = "branch:push-banned"
        ∨ t = "branch:banned-ip-queued-at-dial")
    (rs.map (·.1), if nontrivial then "nontrivial" :: tags else tags)

end Driver.Suites.Admission
