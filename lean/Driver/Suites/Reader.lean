import Driver.Util
import Driver.Suites.Codec
import RainModel.Model.Codec
/-!
Suite `reader` (C08, reader half): byte streams (valid frames with mutated lengths / ids / fields,
truncations, random bytes, hostile extension payloads) through the real `PeerReader`.
op   `stream max=<n> frag=<sizes> b=<chunks>`
obs  `msgs=<m;…> end=<eof|oversize|blocksize|ext> big=<0|1>`
The model never predicts `big=1`; the oracle below is evaluated on the implementation's line.
-/
namespace Driver.Suites.Reader
open Driver Rain.Codec Driver.Suites.Codec
open Rain.Bencode (Bytes)

/-- Bounds the property promises for what the reader hands on, checked on the implementation's
own `msgs=` text: blocks and request lengths ≤ 16 KiB, variable-length bodies ≤ max. -/
def msgBoundViol (max : Nat) (m : String) : Option String :=
  match m.splitOn ":" with
  | ["request", _, _, l] => if parseNat! l > 16384 then some "request-length" else none
  | ["piece", _, _, d] => if d ≠ "-" ∧ d.length / 2 > 16384 then some "block-length" else none
  | ["bitfield", d] => if d ≠ "-" ∧ d.length / 2 > max then some "bitfield-length" else none
  | _ => none

/-- Stream position at which the reader loop stops. -/
def stopAt (max : Nat) : Nat → Bytes → Bytes
  | 0, bs => bs
  | f + 1, bs =>
    match Rain.Codec.step max bs with
    | .stop _ _ => bs
    | .skip rest => stopAt max f rest
    | .msg _ _ rest => stopAt max f rest

/-- Does a non-string token stand at a dictionary key position somewhere in the token list?
Stack: `none` = inside a list, `some true` = inside a dictionary expecting a key, `some false` =
expecting a value. -/
def keyFault : Nat → List Rain.Bencode.Tok → List (Option Bool) → Bool
  | 0, _, _ => false
  | _ + 1, [], _ => false
  | f + 1, t :: r, [] =>
    match t with
    | .dct => keyFault f r [some true]
    | .lst => keyFault f r [none]
    | _ => false
  | f + 1, t :: r, top :: st =>
    match top with
    | some true =>
      match t with
      | .fin => keyFault f r st
      | .str _ => keyFault f r (some false :: st)
      | _ => true
    | _ =>
      let top' := if top == some false then some true else top
      match t with
      | .dct => keyFault f r (some true :: top' :: st)
      | .lst => keyFault f r (none :: top' :: st)
      | .fin => keyFault f r st
      | _ => keyFault f r (top' :: st)

/-- The one place where the model does not decide the error *class*: the payload passed the guard
but a non-string token stands at a key position.  The library then scans the raw bytes for the next
`:`; finding none it returns `io.EOF` (which the reader does not log: `eof`), otherwise a parse
error (`ext`).  Either way nothing is delivered and the reader stops. -/
def extClassOpen (max : Nat) (b : Bytes) : Bool :=
  let at_ := stopAt max (b.length + 1) b
  match Rain.Codec.get32 at_ with
  | some (len0, 20 :: r) =>
    match Rain.Bencode.take? (len0 - 1) r with
    | some (_ :: payload, _) =>
      match Rain.Bencode.tokenize payload with
      | some (toks, _) => keyFault (toks.length + 1) toks []
      | none => false
    | _ => false
  | _ => false

def step (op implObs : String) : String × List String × List String :=
  let toks := words op
  let max := kvNat toks "max"
  let b := parseChunks (kvStr toks "b")
  let o := run max b
  let obs := s!"msgs={showMsgs o.msgs} end={showErr o.err} big=0"
  let openClass := o.err == .ext && implObs == s!"msgs={showMsgs o.msgs} end=eof big=0" && extClassOpen max b
  let obs := if openClass then implObs else obs
  let itoks := words implObs
  let implMsgs := kvStr itoks "msgs"
  let viol :=
    (if implObs.startsWith "panic:" then ["C08 reader-panic " ++ ((implObs.splitOn ":").take 2 |> ":".intercalate)] else []) ++
    (if kvStr itoks "end" = "hang" then ["C08 reader-hang"] else []) ++
    (if (kvStr itoks "end").startsWith "panic" then ["C08 reader-panic " ++ kvStr itoks "end"] else []) ++
    (if kvStr itoks "big" = "1" then ["C08 reader-alloc-exceeds-bound"] else []) ++
    (if implMsgs = "-" ∨ implMsgs = "" then [] else
      ((implMsgs.splitOn ";").filterMap (msgBoundViol max)).eraseDups.map fun k => s!"C08 reader-delivers-oversized kind={k}")
  -- C11: a block that arrives slowly (read deadline expiring between bursts, `cuts=`) is delivered byte for byte
  -- and the frames after it are decoded from the right position
  let viol := viol ++ (if (kv? toks "cuts").isSome && kvStr toks "cuts" ≠ "-" && implObs ≠ obs
    then ["C11 slow-block-not-delivered-intact"] else [])
  -- model-side self check: the allocation effects of the model respect the bounds (theorem
  -- `reader_alloc_bound`; evaluated here so a broken model edit shows up as a violation too)
  let effOk := o.effs.all fun e => match e with
    | .make n => n ≤ max
    | .poolGet n => n ≤ 16384
  let viol := viol ++ (if effOk then [] else ["C08 model-effect-out-of-bound"])
  let nmsgs := o.msgs.length
  let hasExt := o.msgs.any fun m => match m with | .ext .. => true | _ => false
  let tags :=
    [s!"end:{showErr o.err}"] ++
    (if nmsgs ≥ 1 ∧ o.err ≠ .eof then ["nontrivial"] else []) ++
    (if nmsgs = 0 then ["branch:no-message"] else []) ++
    (if openClass then ["branch:ext-error-class-not-modelled"] else []) ++
    (if hasExt then ["branch:ext-delivered"] else []) ++
    (if o.effs.any (fun e => match e with | .poolGet _ => true | _ => false) then ["branch:block-alloc"] else []) ++
    (if o.effs.any (fun e => match e with | .make _ => true | _ => false) then ["branch:make"] else [])
  (obs, viol, tags)

def suite : Suite where
  name := "reader"
  runCase ops :=
    let rs := ops.map fun (op, obs) => step op obs
    (rs.map fun (o, v, _) => (o, v), (rs.flatMap fun (_, _, t) => t).eraseDups)

end Driver.Suites.Reader
