import Driver.Util
import Driver.Suites.Codec
import RainModel.Model.Codec
/-!
Suite `reader` (C08, reader half): byte streams (valid frames with mutated lengths / ids / fields,
truncations, random bytes, hostile extension payloads) through the real `PeerReader`.
op   `stream max=<n> frag=<sizes> b=<chunks>`
obs  `msgs=<m;…> end=<eof|oversize|blocksize|ext> big=<0|1>`
The model never predicts `big=1`; the oracle below is evaluated on the implementation's line.
-/
namespace Driver.Suites.Reader
open Driver Rain.Codec Driver.Suites.Codec
open Rain.Bencode (Bytes)

/-- Bounds the property promises for what the reader hands on, checked on the implementation's
own `msgs=` text: blocks and request lengths ≤ 16 KiB, variable-length bodies ≤ max. -/
def msgBoundViol (max : Nat) (m : String) : Option String :=
  match m.splitOn ":" with
  | ["request", _, _, l] => if parseNat! l > 16384 then some "request-length" else none
  | ["piece", _, _, d] => if d ≠ "-" ∧ d.length / 2 > 16384 then some "block-length" else none
  | ["bitfield", d] => if d ≠ "-" ∧ d.length / 2 > max then some "bitfield-length" else none
  | _ => none

def step (op implObs : String) : String × List String × List String :=
  let toks := words op
  let max := kvNat toks "max"
  let b := parseChunks (kvStr toks "b")
  let o := run max b
  let obs := s!"msgs={showMsgs o.msgs} end={showErr o.err} big=0"
  let itoks := words implObs
  let implMsgs := kvStr itoks "msgs"
  let viol :=
    (if implObs.startsWith "panic:" then ["C08 reader-panic " ++ ((implObs.splitOn ":").take 2 |> ":".intercalate)] else []) ++
    (if kvStr itoks "end" = "hang" then ["C08 reader-hang"] else []) ++
    (if (kvStr itoks "end").startsWith "panic" then ["C08 reader-panic " ++ kvStr itoks "end"] else []) ++
    (if kvStr itoks "big" = "1" then ["C08 reader-alloc-exceeds-bound"] else []) ++
    (if implMsgs = "-" ∨ implMsgs = "" then [] else
      ((implMsgs.splitOn ";").filterMap (msgBoundViol max)).eraseDups.map fun k => s!"C08 reader-delivers-oversized kind={k}")
  -- model-side self check: the allocation effects of the model respect the bounds (theorem
  -- `reader_alloc_bound`; evaluated here so a broken model edit shows up as a violation too)
  let effOk := o.effs.all fun e => match e with
    | .make n => n ≤ max
    | .poolGet n => n ≤ 16384
  let viol := viol ++ (if effOk then [] else ["C08 model-effect-out-of-bound"])
  let nmsgs := o.msgs.length
  let hasExt := o.msgs.any fun m => match m with | .ext .. => true | _ => false
  let tags :=
    [s!"end:{showErr o.err}"] ++
    (if nmsgs ≥ 1 ∧ o.err ≠ .eof then ["nontrivial"] else []) ++
    (if nmsgs = 0 then ["branch:no-message"] else []) ++
    (if hasExt then ["branch:ext-delivered"] else []) ++
    (if o.effs.any (fun e => match e with | .poolGet _ => true | _ => false) then ["branch:block-alloc"] else []) ++
    (if o.effs.any (fun e => match e with | .make _ => true | _ => false) then ["branch:make"] else [])
  (obs, viol, tags)

def suite : Suite where
  name := "reader"
  runCase ops :=
    let rs := ops.map fun (op, obs) => step op obs
    (rs.map fun (o, v, _) => (o, v), (rs.flatMap fun (_, _, t) => t).eraseDups)

end Driver.Suites.Reader
