import Driver.Util
import RainModel.Model.Announcer
/-!
Suite `announcer` (C15, C16): the real `PeriodicalAnnouncer` against a scripted stub tracker.

ops (durations in ms; the model runs in µs)
  `start min= done=` | `reply iv= mi=` | `fail ri=` | `fcancel` | `need v=` | `complete` | `close`
observations
  `ann ev=<e> nw=<n> gap=<µs> cancelled=<0|1>` | `waiting` | `idle status=<s>` | `stuck status=<s>` |
  `closed has=<0|1>` (first close; `HasAnnounced`) | `closed` | `no-call` | `not-started`

The EVENT SEQUENCE is compared exactly.  Times are never compared: the implementation's `gap`
(difference of two `Stats().LastAnnounce` values, i.e. the very quantity `a.time - a.prevAt` of the
model) is only checked against lower bounds — the model deadline computed with every input placed at
the earliest possible instant — and echoed when admissible.  "near" durations are ≤ 40 ms and "far"
ones ≥ 60 s, the harness' idle threshold is 5 s, so the idle/announce distinction does not depend on
scheduling.

Oracles on the implementation's observations:
  C15 first announce `started`, no second `started`, no `stopped`, `completed` at most once and never
      when the run began complete; gap after a reply ≥ `floorOf` (min of client minimum and the
      positive interval values supplied so far);
  C16 after an error / foreign cancellation the announcer announces again (`stuck` = violation) and
      not earlier than the smallest admissible back-off / the tracker's retry delay.
-/
namespace Driver.Suites.Announcer
open Driver Rain.Announcer

def farUs : Int := 5000000

structure DS where
  cfg : Cfg := ⟨0, 5000, 40000⟩
  s : St := init ⟨0, 5000, 40000⟩
  started : Bool := false
  outstanding : Bool := false
  clk : Int := 0
  hist : List (Int × In) := []      -- newest first
  -- oracle state, from the implementation's observations only
  implAnns : Nat := 0
  implCompleted : Nat := 0
  doneAtStart : Bool := false
  implReplied : Bool := false
  tags : List String := []

def addTag (d : DS) (t : String) : DS := if d.tags.contains t then d else { d with tags := t :: d.tags }

def evName : Event → String
  | .none => "empty" | .completed => "completed" | .started => "started" | .stopped => "stopped"

def statusName : Status → String
  | .notContactedYet => "notcontacted" | .contacting => "contacting"
  | .working => "working" | .notWorking => "notworking"

def feed (d : DS) (now : Int) (i : In) : DS × List Ann :=
  let (s1, out) := step d.cfg d.s now i
  ({ d with s := s1, hist := (now, i) :: d.hist }, out)

/-- `ann …` observation of the implementation → (event name, gap). -/
def parseAnn (obs : String) : Option (String × Int) :=
  let toks := words obs
  if toks.head? = some "ann" then some (kvStr toks "ev", kvInt toks "gap") else none

/-- Event-discipline oracle on one implementation observation. -/
def discipline (d : DS) (implObs : String) : DS × List String :=
  match parseAnn implObs with
  | none => (d, [])
  | some (ev, _) =>
    let v1 := if d.implAnns = 0 ∧ ev ≠ "started" then [s!"C15 first-not-started ev={ev}"] else []
    let v2 := if d.implAnns > 0 ∧ ev = "started" then ["C15 second-started"] else []
    let v3 := if ev = "stopped" then ["C15 unexpected-stopped"] else []
    let v4 := if ev = "completed" ∧ d.implCompleted ≥ 1 then ["C15 completed-twice"] else []
    let v5 := if ev = "completed" ∧ d.doneAtStart then ["C15 completed-though-complete-at-start"] else []
    ({ d with implAnns := d.implAnns + 1, implCompleted := d.implCompleted + (if ev = "completed" then 1 else 0) },
     v1 ++ v2 ++ v3 ++ v4 ++ v5)

def annObs (a : Ann) (nw : Int) (gap : String) : String :=
  s!"ann ev={evName a.ev} nw={nw} gap{gap} cancelled={boolStr a.cancelsPrev}"

/-- After the inputs of an op have been fed and no announce went out: what happens next. -/
def settle (d : DS) (implObs : String) : DS × String × List String :=
  if d.s.closed then (d, "closed", []) else
  if d.s.status = .contacting then
    if d.outstanding then (addTag d "branch:waiting", "waiting", [])
    else (d, "stuck status=contacting",
      if implObs.startsWith "stuck" then [s!"C16 retry-not-armed after=contacting obs={implObs.replace " " "_"}"] else [])
  else match d.s.timer with
  | none => (d, s!"stuck status={statusName d.s.status}", [])
  | some dl =>
    let lower := dl - d.clk
    let after := d.s.status
    let floor := floorOf d.cfg d.hist.reverse
    -- oracle on the implementation's observation, whatever the model expects
    let viol :=
      match parseAnn implObs with
      | some (_, g) =>
        if after = .working ∧ g < floor then [s!"C15 interval-floor gap={g} floor={floor}"]
        else if after = .notWorking ∧ g < lower then
          [s!"C16 retry-too-early gap={g} min={lower}"] ++
          -- earlier than the pending retry AND closer to the previous announce than the interval floor:
          -- an event-less announce that no timer of the announcer accounts for (C15 pacing)
          (if g < floor then [s!"C15 interval-floor-after-error gap={g} floor={floor} retry={lower}"] else [])
        else []
      | none =>
        if implObs.startsWith "stuck" then
          [s!"C16 retry-not-armed after={statusName after} obs={implObs.replace " " "_"}"] else []
    if dl - d.clk > farUs then
      (addTag d s!"branch:idle-{statusName d.s.status}", s!"idle status={statusName d.s.status}", viol) else
    match parseAnn implObs with
    | some (_, g) =>
      let T := if d.clk + g < dl then dl else d.clk + g
      let (d1, out) := feed d T .timer
      let d1 := { d1 with clk := T, outstanding := true }
      let d1 := addTag d1 (if after = .working then "branch:timer-after-reply" else "branch:timer-after-error")
      let gapS := if g < lower then s!">={lower}" else s!"={g}"
      match out with
      | a :: _ => (d1, annObs a 50 gapS, viol)
      | [] => (d1, "model-timer-did-not-fire", viol)
    | none =>
      let (d1, out) := feed d dl .timer
      let d1 := { d1 with clk := dl, outstanding := true }
      match out with
      | a :: _ => (d1, annObs a 50 s!">={lower}", viol)
      | [] => (d1, "model-timer-did-not-fire", viol)

def ms (toks : List String) (k : String) : Int := kvInt toks k * 1000

def step (d : DS) (op implObs : String) : DS × String × List String :=
  let toks := words op
  let (d, dv) := discipline d implObs
  let fin (r : DS × String × List String) : DS × String × List String := (r.1, r.2.1, dv ++ r.2.2)
  match toks.head? with
  | some "start" =>
    if d.started then (d, "already-started", dv) else
    let cfg : Cfg := ⟨ms toks "min", 5000, 40000⟩
    let done := kvBool toks "done"
    let d0 : DS := { d with cfg := cfg, s := init cfg, started := true, doneAtStart := done }
    let (d1, out) := feed d0 0 (.start done)
    let d1 := { d1 with outstanding := true, clk := 0 }
    let d1 := if done then addTag d1 "branch:complete-at-start" else d1
    match out with
    | a :: _ => (d1, annObs a 50 "=0", dv)
    | [] => (d1, "model-no-start", dv)
  | some opn =>
    if !d.started then (d, "not-started", dv) else
    if d.s.closed then (d, "closed", dv) else
    match opn with
    | "reply" =>
      if !d.outstanding then (d, "no-call", dv) else
      let d := { d with implReplied := d.implReplied || implObs ≠ "no-call" }
      let (d1, _) := feed d d.clk (.response (ms toks "iv") (ms toks "mi"))
      let d1 := addTag { d1 with outstanding := false } (if ms toks "iv" ≤ 0 then "branch:reply-no-interval" else "branch:reply-interval")
      let d1 := if ms toks "iv" ≤ 0 then addTag d1 "nontrivial" else d1
      fin (settle d1 implObs)
    | "fail" =>
      if !d.outstanding then (d, "no-call", dv) else
      let ri := ms toks "ri"
      match deliver (d.s.boCur / 2) (.fail (if ri > 0 then ri else 0)) with
      | some i =>
        let (d1, _) := feed d d.clk i
        let d1 := addTag { d1 with outstanding := false } (if ri > 0 then "branch:fail-retryin" else "branch:fail-backoff")
        fin (settle (addTag d1 "nontrivial") implObs)
      | none => (d, "model-no-delivery", dv)
    | "fcancel" =>
      if !d.outstanding then (d, "no-call", dv) else
      match deliver (d.s.boCur / 2) .canceledForeign with
      | some i =>
        let (d1, _) := feed d d.clk i
        fin (settle (addTag (addTag { d1 with outstanding := false } "branch:foreign-cancel") "nontrivial") implObs)
      | none => (d, "model-no-delivery", dv)
    | "need" =>
      let (d1, _) := feed d d.clk (.setNeed (kvBool toks "v"))
      let (d2, _) := feed d1 d.clk .needSignal
      fin (settle (addTag d2 "branch:need") implObs)
    | "replythencomplete" =>
      if !d.outstanding ∨ !d.s.completedArmed then (d, "no-call", dv) else
      let d := { d with implReplied := true }
      let (d0, _) := feed d d.clk (.response (ms toks "iv") (ms toks "mi"))
      let g := match parseAnn implObs with
        | some (_, g) => if g < 0 then 0 else g
        | none => 0
      let T := d0.clk + g
      let (d1, out) := feed d0 T .completed
      let d1 := addTag (addTag { d1 with clk := T, outstanding := true } "branch:completed-with-timer-pending") "nontrivial"
      (match out with
      | a :: _ => (d1, annObs a 0 (if (parseAnn implObs).isSome then s!"={g}" else "=?"), dv)
      | [] => (d1, "model-no-completed", dv))
    | "hold" =>
      if d.s.status = .contacting ∧ d.outstanding then
        -- the timer armed before the event announce comes due while that announce is outstanding: the tick
        -- is dropped (model: `.timer` in `contacting`)
        let T := d.clk + ms toks "ms"
        let d1 := match d.s.timer with
          | some dl => if dl ≤ T then (feed d dl .timer).1 else d
          | none => d
        let v := if (parseAnn implObs).isSome then
            [s!"C15 regular-announce-while-event-announce-outstanding obs={implObs.replace " " "_"}"] else []
        (addTag { d1 with clk := T } "branch:hold-while-contacting", "waiting", dv ++ v)
      else fin (settle d implObs)
    | "complete" =>
      if !d.s.completedArmed then fin (settle d implObs) else
      let g := match parseAnn implObs with
        | some (_, g) => if g < 0 then 0 else g
        | none => 0
      let T := d.clk + g
      let (d1, out) := feed d T .completed
      let d1 := addTag { d1 with clk := T, outstanding := true } "branch:completed"
      match out with
      | a :: _ =>
        let d1 := if a.cancelsPrev then addTag d1 "branch:completed-cancels" else d1
        (d1, annObs a 0 (if (parseAnn implObs).isSome then s!"={g}" else "=?"), dv)
      | [] => (d1, "model-no-completed", dv)
    | "close" =>
      let (d1, _) := feed d d.clk .close
      -- oracle: HasAnnounced (the stop filter's input) only if the implementation's tracker replied
      let implHas := kvBool (words implObs) "has"
      let v := if implHas ∧ !d.implReplied then ["C15 has-announced-without-reply"] else []
      (addTag { d1 with outstanding := false } (if d1.s.hasAnnounced then "branch:close-announced" else "branch:close-unannounced"),
        s!"closed has={boolStr d1.s.hasAnnounced}", dv ++ v)
    | _ => (d, "bad-op", dv)
  | none => (d, "bad-op", dv)

def suite : Suite where
  name := "announcer"
  runCase ops :=
    let (st, rs) := foldCase ({} : DS) step ops
    (rs, st.tags.reverse)

end Driver.Suites.Announcer
