import Driver.Util
import Driver.Suites.Blocks
import RainModel.Model.PieceDownloader
/-!
Suite `pd` (C01, C17): operation sequences on the real `PieceDownloader`.

ops:  new bs=<n> real=<0|1> secs=<len>:<pad>,… af=<0|1> fast=<0|1> short=<k>
      got begin=<n> data=<runs> | choked | rejected begin=<n> len=<n> | request q=<int> | cancel | done
obs:  res=<…> req=<b:l,…> can=<b:l,…> [blocks=<b:l,…>] rem=<…> pend=<…> done=<…> isdone=<0|1> buf=<runs>

Deterministic ops: the model's line must equal the implementation's.  `choked` (map iteration
order): the implementation's new `rem` is read, the appended suffix must be a permutation of the
model's `pending` (`chokedAdmissible`), and the model continues from that order.

Oracle (on the implementation's observations only; block table = the model's `calcBlocks`, which
`calcBlocks_tiles` proves right): `acceptOK` per `got` (pd_accept_iff), buffer = `assembled` and
`isdone` ↔ every block received after every op (pd_assembled), `|pend| ≤ maxQ` (pd_pending_bound,
reported under C17).
-/
namespace Driver.Suites.PD
open Driver Rain.Blocks Rain.PD

/-! ### byte-run encoding (same algorithm as `encRuns` in the harness) -/

def runLen (x : Nat) : List Nat → Nat
  | [] => 0
  | y :: r => if y = x then runLen x r + 1 else 0

def hexByte (b : Nat) : String := String.ofList [hexNibble ((b / 16) % 16), hexNibble (b % 16)]

def encGo : Nat → List Nat → List Nat → List String → List String
  | 0, _, lit, toks => (if lit.isEmpty then toks else (String.join (lit.reverse.map hexByte)) :: toks).reverse
  | _, [], lit, toks => (if lit.isEmpty then toks else (String.join (lit.reverse.map hexByte)) :: toks).reverse
  | fuel + 1, x :: r, lit, toks =>
    let n := runLen x r + 1
    if n ≥ 6 then
      let toks := if lit.isEmpty then toks else (String.join (lit.reverse.map hexByte)) :: toks
      encGo fuel (r.drop (n - 1)) [] (s!"{n}*{hexByte x}" :: toks)
    else
      encGo fuel (r.drop (n - 1)) ((List.replicate n x) ++ lit) toks

def encRuns (b : List Nat) : String :=
  if b.isEmpty then "-" else ".".intercalate (encGo (b.length + 1) b [] [])

def decRuns (s : String) : List Nat :=
  if s = "-" ∨ s = "" then [] else
  (s.splitOn ".").flatMap fun t =>
    match t.splitOn "*" with
    | [n, v] => List.replicate (parseNat! n) ((unhex! v).headD 0)
    | _ => unhex! t

/-! ### small helpers -/

def insertSorted (x : Nat) : List Nat → List Nat
  | [] => [x]
  | y :: r => if x ≤ y then x :: y :: r else y :: insertSorted x r

def sortNat (l : List Nat) : List Nat := l.foldr insertSorted []

def insertPair (x : Nat × Nat) : List (Nat × Nat) → List (Nat × Nat)
  | [] => [x]
  | y :: r => if x.1 ≤ y.1 then x :: y :: r else y :: insertPair x r

def sortPairs (l : List (Nat × Nat)) : List (Nat × Nat) := l.foldr insertPair []

def showPairs (l : List (Nat × Nat)) : String :=
  if l.isEmpty then "-" else ",".intercalate (l.map fun p => s!"{p.1}:{p.2}")

structure St where
  live : Bool := false
  bl : List Block := []
  total : Nat := 0
  fast : Bool := false
  short : Nat := 0
  s : State := { blocks := [], remaining := [], pending := [], done := [], buf := [], allowedFast := false }
  hist : List Op := []
  implDone : List Nat := []
  implBuf : List Nat := []
  tags : List String := []

def line (res : String) (req can : List (Nat × Nat)) (blocks : Option (List (Nat × Nat))) (s : State) : String :=
  let b := match blocks with
    | some bl => s!" blocks={showPairs bl}"
    | none => ""
  s!"res={res} req={showPairs req} can={showPairs can}{b} rem={showNatList s.remaining} pend={showNatList (sortNat s.pending)} done={showNatList (sortNat s.done)} isdone={boolStr (isDone s)} buf={encRuns s.buf}"

def resStr : GotResult → String
  | .ok => "ok"
  | .invalid => "invalid"
  | .duplicate => "duplicate"
  | .notRequested => "notrequested"
  | .oob => "panic"

/-- Oracle checks that apply after every op, on the implementation's observation. -/
def afterChecks (st : St) (hist : List Op) (itoks : List String) : List String :=
  if st.short ≠ 0 then [] else
  let ibuf := decRuns (kvStr itoks "buf")
  let ipend := natList (kvStr itoks "pend")
  let idone := kvBool itoks "isdone"
  let allRecv := st.bl.all fun b => (firstData hist b.b b.l).isSome
  (if ibuf == assembled st.total st.bl hist then [] else ["C01 pd-assembled-mismatch"]) ++
  (if idone == allRecv then [] else [s!"C01 pd-done-wrong isdone={boolStr idone} allreceived={boolStr allRecv}"]) ++
  (if (ipend.length : Int) ≤ maxQ hist then [] else [s!"C17 pd-pending-bound pending={ipend.length} maxq={maxQ hist}"])

def addTags (st : St) (ts : List String) : St := { st with tags := (ts ++ st.tags).eraseDups }

def step (st : St) (op implObs : String) : St × String × List String :=
  let toks := words op
  let itoks := words implObs
  let name := toks.headD ""
  if name = "new" then
    let bs := kvNat toks "bs"
    let secs := Blocks.parseSecs (kvStr toks "secs")
    match calcBlocks bs secs with
    | none => ({ st with live := false }, "nostate", [])
    | some bl =>
      let tot := total secs
      let short := kvNat toks "short"
      let s := init bl (kvBool toks "af") (List.replicate (tot - short) 0)
      let st' : St := { live := true, bl := bl, total := tot, fast := kvBool toks "fast", short := short, s := s,
                        hist := [], implDone := natList (kvStr itoks "done"), implBuf := decRuns (kvStr itoks "buf"),
                        tags := st.tags }
      let st' := addTags st' ((if secs.any (·.pad) then ["padding"] else []) ++
        (if kvBool toks "real" then ["real-blocksize"] else []) ++
        (if bl.length ≥ 3 then ["blocks>=3"] else []) ++ (if short ≠ 0 then ["short-buffer"] else []))
      let viol := (if decRuns (kvStr itoks "buf") == List.replicate (tot - short) 0 then [] else ["C01 pd-initial-buffer-not-zero"]) ++
        afterChecks st' [] itoks
      (st', line "new" [] [] (some (sortPairs s.blocks)) s, viol)
  else if !st.live then (st, "nostate", [])
  else
    let s := st.s
    match name with
    | "got" =>
      let b := kvNat toks "begin"
      let d := decRuns (kvStr toks "data")
      let (s', r) := gotBlock s b d
      let hist := st.hist ++ [.gotBlock b d]
      let ires := kvStr itoks "res"
      let istored := ires = "ok" ∨ ires = "notrequested"
      let ibuf := decRuns (kvStr itoks "buf")
      let idone := natList (kvStr itoks "done")
      let should := st.bl.any (fun x => x.b == b && x.l == d.length) && !st.implDone.contains b
      let viol :=
        if st.short ≠ 0 then [] else
        (if acceptOK st.bl st.implDone st.implBuf b d istored ibuf then []
         else [s!"C01 pd-accept stored={boolStr istored} should={boolStr should} res={ires}"]) ++
        (if idone == (if should then sortNat (setInsert st.implDone b) else st.implDone) then []
         else [s!"C01 pd-done-set should={boolStr should}"]) ++
        afterChecks st hist itoks
      let st' := { st with s := s', hist := hist, implDone := idone, implBuf := ibuf }
      (addTags st' [s!"branch:got-{resStr r}"], line (resStr r) [] [] none s', viol)
    | "choked" =>
      let hist := st.hist
      if chokedRequeues s st.fast then
        let irem := natList (kvStr itoks "rem")
        let order := irem.drop s.remaining.length
        let okPrefix := irem.take s.remaining.length == s.remaining
        let s' := choked s st.fast order
        let st' := addTags { st with s := s' } [if s.pending.length ≥ 2 then "branch:choked-requeue>=2" else "branch:choked-requeue"]
        if okPrefix && chokedAdmissible s order then
          (st', line "-" [] [] none s', afterChecks st hist itoks)
        else
          (st', s!"inadmissible choked order={showNatList order} pending={showNatList (sortNat s.pending)}", afterChecks st hist itoks)
      else
        let s' := choked s st.fast []
        (addTags { st with s := s' } ["branch:choked-skip"], line "-" [] [] none s', afterChecks st hist itoks)
    | "rejected" =>
      let (s', r) := rejected s (kvNat toks "begin") (kvNat toks "len")
      -- C10: a request the peer rejected is no longer outstanding; otherwise stale entries fill the request
      -- window and nothing is ever asked of this peer again
      let implPend := kvStr itoks "pend"
      let modelPend := kvStr (words (line (boolStr r) [] [] none s')) "pend"
      let c10 := if r && implPend ≠ "" && implPend ≠ modelPend then
        [s!"C10 rejected-request-still-counted-as-outstanding impl={implPend} model={modelPend}"] else []
      -- C17: a block is queued for (re-)request once: two entries mean two requests on the wire for one slot of the
      -- request window, i.e. more requests outstanding at the peer than the limit allows
      let irem := natList (kvStr itoks "rem")
      let dup := irem.filter fun b => (irem.filter (· == b)).length ≥ 2
      let c17 := if dup.isEmpty then [] else [s!"C17 block-queued-for-request-twice blocks={showNatList dup.eraseDups}"]
      let st' := addTags { st with s := s' } ([s!"branch:rejected-{boolStr r}"] ++ (if r ∧ !s.pending.contains (kvNat toks "begin") then ["branch:rejected-not-outstanding", "nontrivial"] else []))
      (st', line (boolStr r) [] [] none s', afterChecks st st.hist itoks ++ c10 ++ c17)
    | "request" =>
      let q := kvInt toks "q"
      let hist := st.hist ++ [.requestBlocks q]
      match requestBlocks s q with
      | none => ({ st with hist := hist }, line "panic" [] [] none s, afterChecks st hist itoks)
      | some (s', reqs) =>
        let skipped := s.remaining.length - s'.remaining.length - reqs.length
        let st' := addTags { st with s := s', hist := hist }
          ((if skipped > 0 then ["branch:request-skips-received-block", "nontrivial"] else []) ++
           (if reqs.length > 0 ∧ s'.remaining.length > 0 then ["branch:request-queue-full"] else []))
        -- C10: an entry of the request window for a block that has already arrived is never removed again
        -- (its arrival is behind us); enough of them and nothing is ever asked of this peer any more
        let ipend := natList (kvStr itoks "pend")
        let idone := natList (kvStr itoks "done")
        let phantom := ipend.filter idone.contains
        let c10 := if phantom.isEmpty then [] else
          [s!"C10 received-block-counted-as-outstanding-request blocks={showNatList phantom}"]
        (st', line "-" reqs [] none s', afterChecks st hist itoks ++ c10)
    | "cancel" =>
      match cancelPending s with
      | none => (st, line "panic" [] [] none s, afterChecks st st.hist itoks)
      | some cs => (addTags st (if cs.isEmpty then [] else ["branch:cancel-nonempty"]), line "-" [] (sortPairs cs) none s, afterChecks st st.hist itoks)
    | "done" =>
      (addTags st (if isDone s then ["branch:done-true"] else ["branch:done-false"]), line (boolStr (isDone s)) [] [] none s, afterChecks st st.hist itoks)
    | _ => (st, line "badop" [] [] none s, [])

def suite : Suite where
  name := "pd"
  runCase ops :=
    let (st, rs) := foldCase ({} : St) step ops
    let stored := st.tags.any (fun t => t = "branch:got-ok" ∨ t = "branch:got-notrequested")
    let refused := st.tags.any (fun t => t = "branch:got-invalid" ∨ t = "branch:got-duplicate")
    (rs, (if stored ∧ refused then ["nontrivial"] else []) ++ st.tags)

end Driver.Suites.PD
