import Driver.Util
/-!
Suite `race` (C20): API stress of two transferring sessions under the Go race detector.
obs: `races=<A~B,…|-> stuck=<call,…|-> done=<0|1>`.  The property predicts no race report and no stuck call.
-/
namespace Driver.Suites.Race
open Driver

def tokVal (o : String) (k : String) : String :=
  ((words o).findSome? fun t => if t.startsWith (k ++ "=") then some (t.drop (k.length + 1)).toString else none).getD ""

def step (_op implObs : String) : String × List String × List String :=
  if !(implObs.startsWith "races=") then (implObs, [], []) else
  let races := commaList (tokVal implObs "races")
  let stuck := commaList (tokVal implObs "stuck")
  let viol := races.map (fun r => s!"C20 data-race pair={r}") ++ stuck.map (fun c => s!"C20 api-call-stuck call={c}")
  (s!"races=- stuck=- done={tokVal implObs "done"}", viol, ["nontrivial"] ++ (if tokVal implObs "done" = "1" then ["branch:transfer-completed"] else []))

def suite : Suite where
  name := "race"
  runCase ops :=
    let rs := ops.map fun (op, obs) => step op obs
    (rs.map fun (o, v, _) => (o, v), (rs.flatMap fun (_, _, t) => t).eraseDups)

end Driver.Suites.Race
