import Driver.Util
import RainModel.Model.ResumeCodec
/-!
Suite `resume-codec` (C14): `boltdbresumer.Write` then the raw bucket and `boltdbresumer.Read`.
op  : `rw ih= port= name= trk= ws= pe= info= bf= at=<sec>.<nsec> dl= ul= wa= se= st= sad= sam= ccr= seq= ver=`
obs : `kv=<key>:<value>,… | rd=<fields separated by ;>` (see the harness file for the value syntax)
The model prints what `write` stores and what `read` makes of it; the oracle compares the spec the
implementation read back with the spec that was written (`diffFields`).
-/
namespace Driver.Suites.ResumeCodec
open Driver Rain.ResumeCodec

def hexB (b : Bytes) : String := hex b

def showList (l : List Bytes) : String :=
  if l.isEmpty then "-" else "+".intercalate (l.map fun x => if x.isEmpty then "e" else hexB x)

def showTiers (t : List (List Bytes)) : String :=
  if t.isEmpty then "-" else "/".intercalate (t.map fun ti => if ti.isEmpty then "n" else showList ti)

def parseList (s : String) : List Bytes :=
  if s = "" ∨ s = "-" then [] else (s.splitOn "+").map fun p => if p = "e" then [] else unhex! p

def parseTiers (s : String) : List (List Bytes) :=
  if s = "" ∨ s = "-" then [] else (s.splitOn "/").map fun p => if p = "n" then [] else parseList p

def parseTime (s : String) : Time :=
  match s.splitOn "." with
  | [a, b] => ⟨parseInt! a, parseNat! b⟩
  | [a] => ⟨parseInt! a, 0⟩
  | _ => ⟨0, 0⟩

def specOf (toks : List String) : Spec :=
  { infoHash := unhex! (kvStr toks "ih"), port := kvInt toks "port", name := unhex! (kvStr toks "name"),
    trackers := parseTiers (kvStr toks "trk"), urlList := parseList (kvStr toks "ws"), fixedPeers := parseList (kvStr toks "pe"),
    info := unhex! (kvStr toks "info"), bitfield := unhex! (kvStr toks "bf"), addedAt := parseTime (kvStr toks "at"),
    bytesDownloaded := kvInt toks "dl", bytesUploaded := kvInt toks "ul", bytesWasted := kvInt toks "wa",
    seededFor := kvInt toks "se", started := kvBool toks "st", stopAfterDownload := kvBool toks "sad",
    stopAfterMetadata := kvBool toks "sam", completeCmdRun := kvBool toks "ccr", sequential := kvBool toks "seq",
    version := kvInt toks "ver" }

def showSpec (s : Spec) : String :=
  ";".intercalate [s!"ih={hexB s.infoHash}", s!"port={s.port}", s!"name={hexB s.name}", s!"trk={showTiers s.trackers}",
    s!"ws={showList s.urlList}", s!"pe={showList s.fixedPeers}", s!"info={hexB s.info}", s!"bf={hexB s.bitfield}",
    s!"at={s.addedAt.sec}.{s.addedAt.nsec}", s!"dl={s.bytesDownloaded}", s!"ul={s.bytesUploaded}", s!"wa={s.bytesWasted}",
    s!"se={s.seededFor}", s!"st={boolStr s.started}", s!"sad={boolStr s.stopAfterDownload}", s!"sam={boolStr s.stopAfterMetadata}",
    s!"ccr={boolStr s.completeCmdRun}", s!"seq={boolStr s.sequential}", s!"ver={s.version}"]

def textOf (b : Bytes) : String := String.ofList (b.map Char.ofNat)

def showVal : Val → String
  | .raw b => hexB b
  | .time sec frac => s!"T{sec}" ++ (if frac.isEmpty then "" else "." ++ String.ofList (frac.map fun d => Char.ofNat (48 + d)))
  | .dur ns => s!"D{ns}"

def showKv (kv : List (String × Val)) : String :=
  let items := kv.map fun (k, v) => k ++ ":" ++ showVal v
  ",".intercalate (items.mergeSort fun a b => !(b < a))

def step (op implObs : String) : String × List String × List String :=
  let toks := words op
  if toks.headD "" ≠ "rw" then ("err:badop", [], []) else
  let s := specOf toks
  let kv := write s
  let rd := match read kv with
    | some r => showSpec r
    | none => "err:model-read-failed"
  let modelObs := s!"kv={showKv kv} | rd={rd}"
  -- oracle on the implementation's read-back
  let implRd := match implObs.splitOn " | rd=" with
    | [_, r] => r
    | _ => ""
  let viol :=
    if implRd.startsWith "err" ∨ implRd = "" then [s!"C14 resume-read-failed"]
    else
      let r := specOf (implRd.splitOn ";")
      (diffFields (stored s) r).map fun f =>
        -- a JSON-encoded list that holds a string which is not valid UTF-8 is a recorded finding
        let strs := if f = "trackers" then s.trackers.flatten else if f = "url_list" then s.urlList
                    else if f = "fixed_peers" then s.fixedPeers else []
        if strs.any (fun b => !validUtf8 b) then s!"C14 resume-roundtrip-{f} cause=invalid-utf8-in-json-list"
        else s!"C14 resume-roundtrip-{f}"
  let allStr := s.name :: (s.urlList ++ s.fixedPeers ++ s.trackers.flatten)
  let tags :=
    (if allStr.any (fun b => b.any (· ≥ 128)) then ["branch:non-ascii-string"] else []) ++
    (if allStr.any (fun b => b.any (fun c => c < 32 ∨ c = 34 ∨ c = 92 ∨ c = 60)) then ["branch:json-escapes"] else []) ++
    (if s.addedAt.nsec ≠ 0 then ["branch:subsecond-added-at", "nontrivial"] else []) ++
    (if s.trackers.any (·.isEmpty) then ["branch:empty-tier"] else []) ++
    (if s.version = 0 then ["branch:version-default"] else []) ++
    (if s.port < 0 ∨ s.bytesWasted < 0 ∨ s.seededFor < 0 then ["branch:negative-number"] else [])
  (modelObs, viol, tags)

def suite : Suite where
  name := "resume-codec"
  runCase ops :=
    let rs := ops.map fun (op, obs) => step op obs
    (rs.map fun (o, v, _) => (o, v), (rs.flatMap fun (_, _, t) => t).eraseDups)

end Driver.Suites.ResumeCodec
