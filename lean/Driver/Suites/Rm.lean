import Driver.Util
import RainModel.Model.ResourceManager
/-!
Suite `rm` (C17 `rm_balance`, `rm_no_double_grant`; C08 `request_returns`): the real
`ResourceManager[int]` under scripted requester / canceller / receiver goroutines, replayed on
`Rain.RM.gstep` (the instrumented manager machine the theorems are about).

ops / observations: see `harness/overlay/internal/verifharness/suite_rm.go`.

Nondeterminism fed from the implementation's observation and checked for admissibility:
* `req … c=1|2` (cancel channel closed before / during the call): `acq=1` only if the amount
  fits; `acq=0` always (answered "no", or dropped through the cancel branch); never `blocked`.
* `recv key=K`: `got=J` only for a pending request of key `K` whose amount fits
  (`pickable`); `none` only if every pending request of `K` that fits has a closed cancel channel
  (the manager may have removed it already).
* `stats`: `keys` between the number of keys with a live pending request and the number of keys
  with any pending request (cancelled pending requests disappear at a time of the manager's choosing).
* `conc`: which of the concurrent callers were granted (the number is determined).
Oracle (on the implementation's observations): the ledger kept from the observed grants and
releases must satisfy `balanced` at every `stats` (C17), a grant must go to a pending, fitting,
not yet granted request (C17), and no call may block (C08).
-/
namespace Driver.Suites.Rm
open Driver Rain.RM

structure DS where
  g : Option G := none
  /-- known requests: id, request, cancel channel closed -/
  reqs : List (Nat × Req × Bool) := []
  /-- acquisitions currently held: id, amount -/
  holding : List (Nat × Int) := []
  dead : Bool := false
  closed : Bool := false
  /-- an oracle violation was reported; the model no longer knows the manager's state -/
  lost : Bool := false
  tags : List String := []

def DS.tag (d : DS) (t : String) : DS := if d.tags.contains t then d else { d with tags := t :: d.tags }

def cancelClosed (d : DS) (id : Nat) : Bool :=
  match d.reqs.find? (·.1 = id) with
  | some (_, _, c) => c
  | none => false

def setCancelled (d : DS) (id : Nat) : DS :=
  { d with reqs := d.reqs.map fun (i, r, c) => if i = id then (i, r, true) else (i, r, c) }

def findIdx (rs : List Req) (id : Nat) : Option Nat :=
  let rec go : List Req → Nat → Option Nat
    | [], _ => none
    | r :: rest, i => if r.id = id then some i else go rest (i + 1)
  go rs 0

/-- Bounds for `PendingKeys`. -/
def keyBounds (d : DS) (g : G) : Nat × Nat :=
  let live := g.s.requests.filter fun (_, rs) => rs.any fun r => !cancelClosed d r.id
  (live.length, g.s.requests.length)

/-- A cancelled pending request may already be gone: drop keys that only hold such requests
when the implementation reports the lower bound. -/
def dropDeadKeys (d : DS) (g : G) : G :=
  { g with s := { g.s with requests := g.s.requests.filter fun (_, rs) => rs.any fun r => !cancelClosed d r.id } }

def showOutcome : Outcome G → String
  | .ok _ => "ok"
  | .panic m => s!"panic:{m}"
  | .inadmissible w => s!"inadmissible:{w}"

/-- Apply one manager event; a panic of the model is an observation of its own. -/
def apply (d : DS) (g : G) (e : Event) : DS × Option String :=
  match gstep g e with
  | .ok g' => ({ d with g := some g' }, none)
  | o => ({ d with lost := true }, some (showOutcome o))

/-- A `Request` whose cancel channel is closed (before or during the call) returned `acq`:
check admissibility and continue from the implementation's resolution.  Returns the new state,
the model's observation for this call (`0`/`1`, or an `inadmissible…` text) and violations. -/
def reqCancelled (d : DS) (g : G) (r : Req) (acq : Bool) : DS × String × List String :=
  if r.n < 0 then
    if acq then ({ d with lost := true }, "inadmissible", [s!"C17 rm-over-grant id={r.id} n={r.n}"]) else (d.tag "branch:negative", "0", [])
  else
  let fits := acquiredNow g.s r
  if acq then
    if fits then
      let (d', err) := apply d g (.request r true)
      ({ d' with holding := (r.id, r.n) :: d'.holding }.tag "branch:acq1-cancelled", err.getD "1", [])
    else ({ d with lost := true }, "inadmissible", [s!"C17 rm-over-grant id={r.id} n={r.n} available={g.s.available}"])
  else
    -- fits: the manager must have taken the cancel branch; otherwise it answered "no" and queued
    -- the request, or dropped it - a cancelled pending request covers both
    let (d', err) := apply d g (.request r (!fits))
    (d'.tag (if fits then "branch:dropped" else "branch:queued-cancelled"), err.getD "0", [])

def stormStep (d : DS) (key : Nat) (n : Int) (ids : List Nat) (bits : List Char) : DS × String × List String :=
  let rec go : List Nat → List Char → DS → String → List String → DS × String × List String
    | [], _, d, out, vs => (d, out, vs)
    | id :: rest, bits, d, out, vs =>
      if d.reqs.any (·.1 = id) then go rest (bits.drop 1) d (out ++ "x") vs else
      let r : Req := { id := id, key := key, n := n }
      let d := { d with reqs := (id, r, true) :: d.reqs }
      match d.g, d.lost with
      | some g, false =>
        let (d', o, v) := reqCancelled d g r (bits.head? = some '1')
        go rest (bits.drop 1) d' (out ++ o) (vs ++ v)
      | _, _ => go rest (bits.drop 1) d (out ++ String.ofList (bits.take 1)) vs
  go ids bits d "acq=" []

def step (d : DS) (op implObs : String) : DS × String × List String :=
  let toks := words op
  let name := toks.headD ""
  if d.dead then (d, "dead", [])
  else if name = "new" then
    match d.g with
    | some _ => (d, "refused", [])
    | none => ({ d with g := some (ginit (kvInt toks "limit")) }, "ok", [])
  else
  match d.g with
  | none => (d, "nomgr", [])
  | some g =>
  if d.lost then (d, implObs, []) else
  match name with
  | "req" =>
    let id := kvNat toks "id"
    let r : Req := { id := id, key := kvNat toks "key", n := kvInt toks "n" }
    let c := kvNat toks "c"
    if d.reqs.any (·.1 = id) then (d, "refused", []) else
    let d := { d with reqs := (id, r, c != 0) :: d.reqs }
    if implObs = "blocked" then
      ({ d with dead := true }.tag "branch:blocked", if c = 0 then s!"acq={boolStr (acquiredNow g.s r && decide (0 ≤ r.n))}" else "inadmissible blocked",
        [s!"C08 request-blocked op=req c={c} fits={boolStr (acquiredNow g.s r)}"])
    else if d.closed then (d.tag "branch:req-after-close", "acq=0", [])
    else if r.n < 0 then (d.tag "branch:negative", "acq=0", [])
    else
      let fits := acquiredNow g.s r
      if c = 0 then
        let (d', err) := apply d g (.request r true)
        let d' := if fits then { d' with holding := (id, r.n) :: d'.holding }.tag "branch:acq1" else d'.tag "branch:queued"
        let viol := if implObs = "acq=1" ∧ !fits then [s!"C17 rm-over-grant id={id} n={r.n} available={g.s.available}"] else []
        (d', err.getD s!"acq={boolStr fits}", viol)
      else
        let d := d.tag (if c = 1 then "branch:cancelled-before" else "branch:cancel-race")
        if implObs = "acq=1" ∨ implObs = "acq=0" then
          let (d', o, v) := reqCancelled d g r (implObs = "acq=1")
          (d', if o = "0" ∨ o = "1" then "acq=" ++ o else o ++ " " ++ implObs, v)
        else (d, "inadmissible " ++ implObs, [])
  | "storm" =>
    let ids := natList (kvStr toks "ids")
    if implObs = "blocked" then
      ({ d with dead := true }.tag "branch:blocked", "inadmissible blocked", [s!"C08 request-blocked op=storm n={kvInt toks "n"} available={g.s.available}"])
    else if d.closed then
      let (d', out) := ids.foldl (fun (acc : DS × String) id =>
        if acc.1.reqs.any (·.1 = id) then (acc.1, acc.2 ++ "x")
        else ({ acc.1 with reqs := (id, ({ id := id, key := 0, n := 0 } : Req), true) :: acc.1.reqs }, acc.2 ++ "0")) (d, "acq=")
      (d', out, [])
    else
      let (d', o, v) := stormStep d (kvNat toks "key") (kvInt toks "n") ids (implObs.drop 4).toString.toList
      (d'.tag "branch:storm", o, v)
  | "conc" =>
    let key := kvNat toks "key"
    let n := kvInt toks "n"
    let ids := (natList (kvStr toks "ids")).filter fun i => !(d.reqs.any (·.1 = i))
    let d := { d with reqs := ids.map (fun i => (i, ({ id := i, key := key, n := n } : Req), false)) ++ d.reqs }
    if implObs = "blocked" then ({ d with dead := true }, "inadmissible blocked", ["C08 request-blocked op=conc"])
    else if d.closed ∨ n < 0 then (d, "granted=-", [])
    else
      let granted := natList (implObs.drop 8).toString
      let expect : Nat := if n = 0 then ids.length else min ids.length (g.s.available / n).toNat
      if !implObs.startsWith "granted=" ∨ granted.any (fun i => !ids.contains i) ∨ granted.eraseDups.length ≠ granted.length then
        ({ d with lost := true }, "inadmissible " ++ implObs, [])
      else if granted.length > expect then
        ({ d with lost := true }, s!"inadmissible count>{expect}", [s!"C17 rm-over-grant op=conc n={n} available={g.s.available} granted={granted.length}"])
      else if granted.length < expect then
        ({ d with lost := true }, s!"inadmissible count<{expect}", [])
      else
        let order := granted ++ ids.filter (fun i => !granted.contains i)
        let (d', err) := order.foldl (fun (acc : DS × Option String) i =>
          match acc.1.g, acc.2 with
          | some g, none => apply acc.1 g (.request { id := i, key := key, n := n } true)
          | _, _ => acc) (d, none)
        let d' := { d' with holding := granted.map (fun i => (i, n)) ++ d'.holding }
        (d'.tag "branch:conc", err.getD implObs, [])
  | "cancel" =>
    let id := kvNat toks "id"
    if d.reqs.any (·.1 = id) then
      let pending := (allReqs g.s.requests).any (·.id = id)
      ((setCancelled d id).tag (if pending then "branch:cancel-pending" else "branch:cancel-other"), "ok", [])
    else (d, "refused", [])
  | "recv" =>
    let key := kvNat toks "key"
    let rs := getK g.s.requests key
    if d.closed then (d, "none", []) else
    if implObs.startsWith "got=" then
      let id := (implObs.drop 4).toString.toNat?.getD 0
      match findIdx rs id with
      | none =>
        let kind := if g.granted.contains id then "rm-double-grant" else "rm-bad-grant"
        ({ d with lost := true }, "inadmissible " ++ implObs, [s!"C17 {kind} id={id} key={key}"])
      | some i =>
        match pickable g.s key i with
        | none => ({ d with lost := true }, "inadmissible " ++ implObs,
            [s!"C17 rm-over-grant id={id} available={g.s.available}"])
        | some r =>
          let (d', err) := apply d g (.notify key i)
          ({ d' with holding := (id, r.n) :: d'.holding }.tag "branch:notify", err.getD implObs, [])
    else
      -- `none`: admissible iff no live pending request of the key fits
      let liveFit := rs.any fun r => decide (r.n ≤ g.s.available) && !cancelClosed d r.id
      if liveFit then (d, "inadmissible none", [])
      else (d.tag (if rs.isEmpty then "branch:recv-empty" else "branch:recv-none"), "none", [])
  | "release" =>
    let id := kvNat toks "id"
    match d.holding.find? (·.1 = id) with
    | none => (d.tag "branch:release-refused", "refused", [])
    | some (_, n) =>
      let d := { d with holding := d.holding.filter (·.1 ≠ id) }
      if implObs = "blocked" then ({ d with dead := true }, "ok", ["C17 release-blocked"]) else
      if d.closed then (d, "ok", []) else
      let (d', err) := apply d g (.release n)
      (d'.tag "branch:release", err.getD "ok", [])
  | "stats" =>
    if d.closed then (d, "size=0 objs=0 keys=0", []) else
    let it := words implObs
    let size := kvInt it "size"
    let objs := kvInt it "objs"
    let keys := kvNat it "keys"
    let st := stats g.s
    let (lo, hi) := keyBounds d g
    let keysOk := lo ≤ keys ∧ keys ≤ hi
    let keyStr := if keysOk then toString keys else s!"{lo}..{hi}"
    -- oracle: the implementation's numbers against the ledger of observed grants and releases
    let held := sumInt g.out
    let viol :=
      if size = held ∧ objs = g.out.length ∧ 0 ≤ size ∧ size ≤ g.s.limit then []
      else [s!"C17 rm-imbalance size={size} objs={objs} held={held} holders={g.out.length} limit={g.s.limit}"]
    let viol := viol ++ (if balanced g then [] else ["C17 rm-model-unbalanced"])
    let g' := if keysOk ∧ keys = lo ∧ lo < hi then dropDeadKeys d g else g
    let d := if lo < hi then d.tag "branch:stats-ambiguous-keys" else d
    ({ d with g := some g' }, s!"size={st.allocatedSize} objs={st.allocatedObjects} keys={keyStr}", viol)
  | "close" =>
    if d.closed then (d, "refused", []) else
    if implObs = "hang" then ({ d with dead := true, closed := true }, "ok", ["C17 close-hang"]) else
    ({ d with closed := true }.tag "branch:close", "ok", [])
  | _ => (d, "badop", [])

def suite : Suite where
  name := "rm"
  runCase ops :=
    let (d, rs) := foldCase ({} : DS) step ops
    let has (t : String) := d.tags.contains t
    let nontrivial := has "branch:acq1" ∧ has "branch:queued" ∧ has "branch:notify" ∧ has "branch:release"
    (rs, (if nontrivial then ["nontrivial"] else []) ++ d.tags.reverse)

end Driver.Suites.Rm
