import Driver.Util
import RainModel.Model.Blocks
import RainModel.Model.Loop
import RainModel.Model.LoopStep
/-!
Loop suites (`loop-dl`, `lifecycle`, …): replay of event-loop histories on M-LOOP.

The observation of the harness is a list of `key=value` tokens. Keys the model predicts are
replaced by the model's value; keys it does not model are echoed; `dl=` (the picker's choice) is
checked for admissibility. Oracles (`! Cxx …`) are evaluated on the implementation's values.
-/
namespace Driver.Suites.Loop
open Driver Rain.Loop

def sortStrings (l : List String) : List String :=
  l.foldl (fun acc x =>
    let (a, b) := acc.span (fun y => y < x)
    a ++ [x] ++ b) []

def joinOrDash (l : List String) : String := if l.isEmpty then "-" else ",".intercalate l

/-- Parse `new …` into the configuration. -/
def parseNew (toks : List String) : Cfg :=
  let pl := kvNat toks "pl"
  let files := (commaList (kvStr toks "files")).map fun t =>
    match t.splitOn ":" with
    | [l, p] => (parseNat! l, decide (p = "1"))
    | [l] => (parseNat! l, false)
    | _ => ((0 : Nat), false)
  let flens := files.map (·.1)
  let fpads := files.map (·.2)
  let total := flens.sum
  let n := (total + pl - 1) / pl
  let plens := (List.range n).map fun i => if (i + 1) * pl ≤ total then pl else total - i * pl
  let single := files.length = 1 && !(fpads.headD false) && kvStr toks "multi" ≠ "1"
  let fnames := (List.range files.length).map fun i =>
    if single then "t" else if fpads.getD i false then s!"t/.pad/{flens.getD i 0}" else s!"t/f{i}"
  let c0 : Cfg := { pl := pl, plens := plens, blocks := [], flens := flens, fpads := fpads, fnames := fnames }
  let blocks := (List.range n).map fun i =>
    let secs := (c0.sections i).map fun sc => ({ len := sc.len, pad := fpads.getD sc.file false } : Rain.Blocks.Sec)
    match Rain.Blocks.calcBlocks 16384 secs with
    | some bl => bl.map fun b => (b.b, b.l)
    | none => []
  let cfgNat (k : String) (d : Nat) : Nat := ((kv? toks k).bind (·.toNat?)).getD d
  -- `badpadhash=1`: the info dictionary records a wrong SHA-1 for every piece that lies entirely inside
  -- padding files; `badpadhash=2`: for the first such piece only.  (Ignored when a file has length 0.)
  let badpad := if flens.all (· > 0) then kvNat toks "badpadhash" else 0
  let padIdx := (List.range n).filter fun i => c0.padOnly i
  let padHashOK : List Bool :=
    if badpad = 1 then (List.range n).map fun i => !(padIdx.contains i)
    else if badpad = 2 then (List.range n).map fun i => !(padIdx.head? = some i)
    else []
  { c0 with blocks := blocks, padHashOK := padHashOK,
            stopAfter := kvStr toks "stopafter" = "1",
            maxAccept := cfgNat "cfg.MaxPeerAccept" 20,
            endgame := cfgNat "cfg.EndgameMaxDuplicateDownloads" 20,
            afK := cfgNat "cfg.AllowedFastSet" 10,
            isPrivate := kvStr toks "private" = "1",
            pex := kvStr toks "pex" ≠ "0",
            stopAfterMeta := kvStr toks "stopaftermeta" = "1",
            maxPieces := cfgNat "cfg.MaxPieces" 65536 }

def initSt (c : Cfg) (magnet : Bool) : St :=
  { cfg := c, info := !magnet, fileExists := c.flens.map fun _ => false, known := c.flens.map fun _ => false,
    bad := c.dataSects }

/-- Split an observation into its leading verdict word (if any) and `key=value` tokens. -/
def splitObs (o : String) : String × List (String × String) :=
  let ws := words o
  let (verdict, rest) := match ws with
    | w :: r => if (w.splitOn "=").length ≥ 2 then ("", ws) else (w, r)
    | [] => ("", [])
  (verdict, rest.map fun t =>
    match t.splitOn "=" with
    | k :: r => (k, "=".intercalate r)
    | [] => (t, ""))

def parseDl (v : String) : List ImplDl :=
  (commaList v).map fun t =>
    match t.splitOn ":" with
    | [k, rest] =>
      let digits := String.ofList (rest.toList.takeWhile Char.isDigit)
      let flags := rest.toList.dropWhile Char.isDigit
      { k := parseNat! k, piece := parseNat! digits, af := flags.contains 'f', choked := flags.contains 'c', snub := flags.contains 's' }
    | _ => { k := 0, piece := 0 }

def bitsOf (s : String) : List Bool := s.toList.map (· = '1')

def parseMsg (toks : List String) : Option Msg :=
  let i := kvNat toks "i"; let b := kvNat toks "b"; let l := kvNat toks "l"
  match kvStr toks "t" with
  | "have" => some (.have i)
  | "bitfield" =>
    let bits := bitsOf (kvStr toks "bits")
    if kvStr toks "hex" ≠ "" then
      let bytes := unhex! (kvStr toks "hex")
      some (.bitfield (bytes.flatMap fun x => (List.range 8).map fun j => (x / (2 ^ (7 - j))) % 2 = 1) bytes.length)
    else some (.bitfield bits ((bits.length + 7) / 8))
  | "haveall" => some .haveAll
  | "havenone" => some .haveNone
  | "allowedfast" => some (.allowedFast i)
  | "choke" => some .choke
  | "unchoke" => some .unchoke
  | "interested" => some .interested
  | "notinterested" => some .notInterested
  | "request" => some (.request i b l)
  | "reject" => some (.reject i b l)
  | "cancel" => some (.cancel i b l)
  | "piece" => some (.piece i b l (kvStr toks "data" = "true" || kvStr toks "data" = ""))
  | _ => none

/-- Control messages (everything the model predicts) of an implementation message list. -/
def isControl (msg : String) : Bool :=
  !(msg.startsWith "request:" || msg.startsWith "cancel:" || msg.startsWith "allowedfast:" || msg.startsWith "port:" ||
    (msg.startsWith "extmeta:" && (msg.splitOn "type=0").length ≥ 2))

def normMsg (msg : String) : String :=
  if msg.startsWith "exths:" then "exths"
  else if msg.startsWith "extmeta:" then
    let fs := msg.splitOn ":"
    let get (k : String) := ((fs.find? fun f => f.startsWith (k ++ "=")).map fun f => (f.drop (k.length + 1)).toString).getD ""
    let verdict := if fs.contains "ok" then ":ok" else if fs.contains "bad" then ":bad" else ""
    s!"extmeta:type={get "type"}:piece={get "piece"}{verdict}"
  else msg

/-- Parse an op line into the model's event. `none` = an op the model does not interpret. -/
def parseOp (s : St) (toks : List String) : Option Op :=
  match toks.headD "" with
  | "start" => some .start
  | "stop" => some (if kvStr toks "hold" = "1" then .stopHeld else .stop)
  | "verify" => some (if kvStr toks "hold" = "1" then .verifyHeld else .verify)
  | "obs" | "announce" | "diskcheck" | "magnet" | "crashcheck" | "reload" | "addtracker" | "dialhold" => some .nop
  | "persist" => some .persist
  | "waitstop" => some .waitstop
  | "trk" => some (.trk [])
  | "mutate" =>
    let file := if kvStr toks "file" = "all" then none else some (kvNat toks "file")
    let how := match kvStr toks "how" with
      | "delete" => Mut.delete | "corrupt" => Mut.corrupt (kvNat toks "off") | _ => Mut.fill
    some (.mutate file how)
  | "gate" =>
    let on := kvStr toks "on" ≠ "0"
    match kvStr toks "kind" with
    | "open" => some (.gate .open on) | "write" => some (.gate .write on) | "read" => some (.gate .read on)
    | "failwrite" => some (.gate .failWrite on)
    | "failopen" => if kvStr toks "at" ≠ "" then some (.gate (.failOpenAt (kvNat toks "at")) on) else some (.gate .failOpen on)
    | "writedone" => some (.gate .writeDone on)
    | _ => some .nop
  | "peer" =>
    let k := kvNat toks "k"
    let ip := if kvStr toks "ip" ≠ "" then kvStr toks "ip" else s!"10.0.{k / 250}.{k % 250 + 1}"
    some (.peer k ip (kvStr toks "fast" ≠ "0") (kvStr toks "ext" ≠ "0") (kvStr toks "ih" = "bad"))
  | "msg" =>
    let k := kvNat toks "p"
    match parseMsg toks with
    -- a request longer than 16 KiB never reaches the loop: the peer reader ends with an error and the peer is
    -- reported as disconnected (the harness does the same)
    | some (.request _ _ l) => if l > 16384 then some (.disconnect k) else (parseMsg toks).map (.msg k ·)
    | some msg => some (.msg k msg)
    | none =>
      match kvStr toks "t" with
      | "exths" =>
        let ms := (kvStr toks "m").splitOn "+"
        let size := if kvStr toks "size" = "true" then s.isize else kvNat toks "size"
        some (.exths k (ms.any (·.startsWith "ut_metadata:")) size (ms.any (·.startsWith "ut_pex:")))
      | "metadata" =>
        let i := kvNat toks "i"
        let trueLen := if i * 16384 < s.isize then min 16384 (s.isize - i * 16384) else 0
        if kvStr toks "len" ≠ "" then some (.metadata k i (kvNat toks "len") false)
        else if kvStr toks "data" = "flip" then some (.metadata k i trueLen (trueLen = 0))
        else some (.metadata k i trueLen true)
      | "metareject" => some (.metareject k)
      | "metareq" => some (.metareq k (kvNat toks "i"))
      | "pex" =>
        let has (v : String) : Bool := (v.splitOn "@").length ≥ 2
        some (.pex k (has (kvStr toks "added")) (has (kvStr toks "dropped")))
      | "port" => some .nop
      | _ => none
  | "dhtpeers" => some (.dhtpeers ((kvStr toks "addrs").splitOn "@" |>.length |> (· ≥ 2)))
  | "disconnect" => some (.disconnect (kvNat toks "p"))
  | "snub" | "snubclose" => some (.snub (kvNat toks "p"))
  | _ => none

/-- Driver state: the model state plus a piece message parked while a write is in flight. -/
structure DSt where
  s : Option St := none
  implDials : Nat := 0
  knownPeers : List Nat := []
  trk : TrkSt := {}
  startWhileStopping : Bool := false
  /-- a verify command was given and the implementation has not been seen Stopped since -/
  verifyPending : Bool := false
  /-- the implementation could not listen on the peer port in this run (taken by another process: environment);
  the model's `acceptor` follows the implementation, but the periodical announcers run all the same -/
  noListen : Bool := false
  /-- `dialhold` was used in this case: outgoing dials to peers that never answer are not modelled; the dial
  counter is taken from the implementation from then on (the handshaker and address counts are echoed anyway) -/
  looseDials : Bool := false
  parked : Parked := none
  /-- the extended-message id each scripted peer assigned to `ut_metadata` in its (first) extension handshake -/
  metaIds : List (Nat × Nat) := []

def renderObs (s : St) (verdict : String) (outs : List Out) (impl : List (String × String))
    (dlTok : String) (ntrk : Nat := 0) (anns : List String := []) (noListen : Bool := false) (extraCips : List String := []) : String :=
  let pred (k : String) (v : String) : String :=
    match k with
    | "st" => s.status.str
    | "bf" => match s.bf with | some b => bitsStr b | none => "-"
    | "done" => if s.loaded then bitsStr s.done else "-"
    | "wr" => if s.loaded then bitsStr s.wflag else "-"
    | "completed" => boolStr s.completed
    | "completeC" => boolStr s.completeCClosed
    | "have" => match s.bf with | some b => toString (b.filter id).length | none => "0"
    | "missing" => match s.bf with
        | some b => toString ((if s.info then s.n else 0) - (b.filter id).length)
        | none => "0"
    | "bytes" =>
      match s.bf with
      | some b =>
        -- (also while the torrent is stopped: the completed bytes follow from the bitfield and the metainfo alone,
        -- repair of finding C04-F7)
        toString ((List.range s.n).foldl (fun acc i => if b.getD i false then acc + s.cfg.plens.getD i 0 else acc) 0)
      | none => "0"
    | "dl" => dlTok
    | "idl" => joinOrDash (s.idls.map fun d => toString d.k)
    | "dials" => toString s.dials
    | "crash" => "ok"
    | "pexon" => joinOrDash ((s.peers.filter (·.pexOn)).map fun p => toString p.k)
    | "pid" => if s.cfg.isPrivate && s.infoAtAdd then "priv" else "pub"
    | "magnet" => if s.info && s.cfg.isPrivate then "refused" else "ok"
    | "peers" => joinOrDash (s.peers.map fun p => toString p.k)
    | "npeers" => toString s.peers.length
    | "banned" => joinOrDash (sortStrings s.banned)
    | "cips" => joinOrDash (sortStrings (s.peers.map (·.ip) ++ extraCips))
    | "info" => boolStr s.info
    | "open" => toString (s.openFiles.length + s.leaked)
    | "workers" =>
      joinOrDash ((if s.allocator then ["alloc"] else []) ++ (if s.verifier then ["verify"] else []) ++
        (if s.stopAnn then ["stopann"] else []) ++ (if (s.acceptor || noListen) && ntrk > 0 then [s!"ann{ntrk}"] else []) ++
        (if s.acceptor then ["acceptor"] else []))
    | "susp" => boolStr s.writing.isSome
    | "ram" => s!"{s.dls.length}/{s.dls.length * s.cfg.pl}"
    | "sto" => ",".intercalate s.sto
    | "ann" =>
      -- `completed` announces race with the announcers being stopped: not compared
      -- entries are `idx:event:peerid:useragent:infohash:L<left>:P<port verdict>`; the last two are judged by oracles
      let base (e : String) : String := ":".intercalate ((e.splitOn ":").take 5)
      let implRest := ((commaList v).filter fun e => (e.splitOn ":completed:").length < 2).map base
      let implCompleted := ((commaList v).filter fun e => (e.splitOn ":completed:").length ≥ 2)
      if sortStrings implRest = sortStrings anns then v
      else joinOrDash (sortStrings (anns ++ implCompleted))
    | "disk" => if (List.range s.n).all (fun i => !(s.bad.any fun b => b.1 = i)) && (List.range s.cfg.flens.length).all (fun f => s.cfg.fpads.getD f false || s.fileExists.getD f false) then "ok" else "bad"
    | _ => v
  let isPeerKey (k : String) : Bool := k.startsWith "p" && (k.drop 1).toString.toNat?.isSome
  -- per-peer control messages
  let peerKeys := (outs.map (·.k)).eraseDups
  let implPeerKeys := (impl.filter fun (k, _) => isPeerKey k).map fun (k, _) => (k.drop 1).toString.toNat?.getD 0
  let toks := impl.filterMap fun (k, v) =>
    if isPeerKey k then
      let pk := (k.drop 1).toString.toNat?.getD 0
      -- what was queued for a peer that got closed in the same op may or may not reach the wire
      if (s.findPeer pk).isNone then some s!"{k}={v}" else
      let predicted := (outs.filter (·.k = pk)).map (·.msg)
      let implCtl := ((commaList v).filter isControl).map normMsg
      if implCtl = predicted then some s!"{k}={v}"
      else some s!"{k}=[control:{joinOrDash predicted}]"
    else if k = "err" then (if s.lastErr then some s!"err={v}" else none)
    else if k = "sto" then (if s.sto.isEmpty then none else some s!"sto={pred k v}")
    else some s!"{k}={pred k v}"
  -- predicted tokens missing from the implementation's line
  let missingPeers := peerKeys.filter fun pk => !(implPeerKeys.contains pk) && (s.findPeer pk).isSome
  let extra := missingPeers.map fun pk =>
    s!"p{pk}=[control:{joinOrDash ((outs.filter (·.k = pk)).map (·.msg))}]"
  let extraSto := if !s.sto.isEmpty && !(impl.any fun (k, _) => k = "sto") then [s!"sto={",".intercalate s.sto}"] else []
  let extraAnn := if !anns.isEmpty && !(impl.any fun (k, _) => k = "ann") then [s!"ann={joinOrDash (sortStrings anns)}"] else []
  let extraErr := if s.lastErr && !(impl.any fun (k, _) => k = "err") && s.status = .stopped then ["err=?"] else []
  let body := " ".intercalate (toks ++ extra ++ extraAnn ++ extraSto ++ extraErr)
  if verdict = "" then body else if body = "" then verdict else verdict ++ " " ++ body

/-- Oracles on the implementation's observation, relative to the model's ground truth. -/
def oracles (prev s : St) (impl : List (String × String)) (prevDials : Nat := 0) : List String :=
  let get (k : String) : String := ((impl.find? fun (x, _) => x = k).map (·.2)).getD ""
  let implBf := get "bf"
  let bfBits := if implBf = "-" then [] else bitsOf implBf
  -- C01: every piece reported as held has verified content on disk (while only the client writes)
  -- a padding-only piece whose recorded hash is not the hash of zeroes can never be verified: a bit for it is a
  -- violation in every state, whatever happened to the files
  let c01a := (List.range bfBits.length).filterMap fun i =>
    if bfBits.getD i false && !(s.cfg.padOK i) then
      some s!"C01 bit-without-verified-data piece={i} recorded-hash-never-matched"
    else if bfBits.getD i false && !(s.diskOKi i) && !s.tainted &&
       (get "st" = "Downloading" || get "st" = "Seeding" || !(prev.bf.map (·.getD i false)).getD false) then
      some s!"C01 bit-without-verified-data piece={i}" else none
  -- and a torrent that has such a piece is never complete
  let unver := (List.range s.n).filter fun i => !(s.cfg.padOK i)
  let c01e := if s.info && !unver.isEmpty && get "st" = "Seeding" then
      [s!"C01 seeding-with-piece-never-verified piece={unver.headD 0}", s!"C04 seeding-with-piece-never-verified piece={unver.headD 0}"]
    else []
  -- the same event read as C04 (status not truthful) and C05 (missing files trusted)
  let c01a := c01a ++ (c01a.map fun v => v.replace "C01 bit-without-verified-data" "C05 bit-for-data-not-on-disk")
                   ++ (c01a.map fun v => v.replace "C01 bit-without-verified-data" "C04 reported-piece-not-on-disk")
                   -- C03: a piece the client has not verified is announced to peers and served on request
                   ++ ((c01a.filter fun v => v.endsWith "recorded-hash-never-matched").map fun v =>
                        v.replace "C01 bit-without-verified-data" "C03 unverified-piece-offered-to-peers")
  -- C02 (a torrent whose bytes are on disk verifies completely; padding reads as zeroes): the verifier's result has
  -- just arrived (no bitfield before this op) and lacks a piece whose true bytes are all in the files
  let modelBits := s.bf.getD []
  let c02v := if prev.bf.isNone && !s.tainted && bfBits.length = modelBits.length then
      (List.range bfBits.length).filterMap fun i =>
        if modelBits.getD i false && !(bfBits.getD i false) && s.diskOKi i && s.cfg.padOK i then
          some s!"C02 piece-with-true-bytes-on-disk-fails-verification piece={i}" else none
    else []
  -- C01: a storage write must carry verified bytes
  let c01b := (commaList (get "sto")).filterMap fun c =>
    if c.startsWith "write:" && !c.endsWith ":ok" then some s!"C01 unverified-bytes-written call={c}" else none
  -- C01: a peer that supplied a piece failing the hash check is banned (the model's ban list is what the
  -- property demands; the implementation must have every one of them)
  let implBanned := commaList (get "banned")
  let c01d := if get "banned" = "" then [] else (s.banned.filter fun ip => !(implBanned.contains ip)).map fun ip =>
    s!"C01 corrupt-sender-not-banned ip={ip}"
  -- C01/C03: have / bitfield / piece messages only for held, verified pieces
  let c01c := impl.flatMap fun (k, v) =>
    if k.startsWith "p" && (k.drop 1).toString.toNat?.isSome then
      (commaList v).filterMap fun msg =>
        match msg.splitOn ":" with
        | ["have", i] =>
          let pk := (k.drop 1).toString.toNat?.getD 0
          if !(bfBits.getD (parseNat! i) false) then some s!"C01 have-for-missing-piece piece={i}"
          -- the client skips peers it knows to have the piece: telling one of them means it has forgotten what the
          -- peer announced (and will not ask it for anything either)
          else if ((prev.peers.find? (·.k = pk)).map fun p => p.has.getD (parseNat! i) false).getD false &&
                  ((s.peers.find? (·.k = pk)).map fun p => p.has.getD (parseNat! i) false).getD false then
            some s!"C10 peer-announcement-forgotten peer={pk} piece={i}"
          else none
        | ["piece", i, _, _, verdict] =>
          let pk := (k.drop 1).toString.toNat?.getD 0
          -- choked before and after this op, and the piece was never granted as allowed-fast
          let chokedThroughout := ((prev.peers.find? (·.k = pk)).map (·.clientChoking)).getD false &&
            ((s.peers.find? (·.k = pk)).map (·.clientChoking)).getD false
          let granted := ((s.peers.find? (·.k = pk)).map fun p => p.sentAF.contains (parseNat! i)).getD true
          if verdict ≠ "ok" then some s!"C03 served-wrong-bytes piece={i}"
          else if !(bfBits.getD (parseNat! i) false) then some s!"C03 served-piece-not-held piece={i}"
          else if chokedThroughout && !granted then some s!"C03 choked-peer-served peer={pk} piece={i}" else none
        | _ => none
    else []
  -- C04: status truthful
  let st := get "st"
  let c04 :=
    (if st = "Seeding" && !(bfBits.all id && !bfBits.isEmpty) then ["C04 seeding-without-all-pieces"] else []) ++
    (if st = "Stopped" && get "npeers" ≠ "0" then ["C04 stopped-with-peers"] else []) ++
    (if st = "Stopped" && get "open" ≠ "0" then [s!"C04 stopped-with-open-files open={get "open"}"] else []) ++
    (if st = "Stopped" && get "dl" ≠ "-" then ["C04 stopped-with-downloads"] else []) ++
    -- completed bytes consistent with the pieces held (the implementation's own bitfield), in every state
    (if implBf ≠ "-" && implBf ≠ "" && get "bytes" ≠ "" &&
        get "bytes" ≠ toString ((List.range bfBits.length).foldl (fun acc i => if bfBits.getD i false then acc + s.cfg.plens.getD i 0 else acc) 0)
      then [s!"C04 completed-bytes-inconsistent-with-pieces-held bytes={get "bytes"} bf={implBf}"] else []) ++
    (if st = "Stopped" && get "cips" ≠ "" && get "cips" ≠ "-" then [s!"C04 stopped-with-connected-ips cips={get "cips"}"] else []) ++
    (if st = "Stopped" && get "hs" ≠ "" && get "hs" ≠ "0/0" then [s!"C04 stopped-with-pending-handshakes hs={get "hs"}"] else []) ++
    (if st = "Stopped" && get "addrs" ≠ "" && get "addrs" ≠ "0" then [s!"C04 stopped-with-queued-addresses addrs={get "addrs"}"] else [])
  -- C06: an info dictionary received from peers is held to the session's piece-count limit like any other
  let c06 := if !s.infoAtAdd && s.cfg.n > s.cfg.maxPieces && get "info" = "1"
    then [s!"C06 metadata-over-piece-limit-accepted pieces={s.cfg.n} limit={s.cfg.maxPieces}"] else []
  -- C10: no idle eligible peer (safety form)
  let c10 := (idleEligible s).map fun (k, i) => s!"C10 idle-eligible peer={k} piece={i}"
  -- C17: reservations balance (one reservation per running download)
  let c17 := if get "ram" ≠ "" && get "ram" ≠ s!"{(parseDl (get "dl")).length}/{(parseDl (get "dl")).length * s.cfg.pl}"
    then [s!"C17 write-cache-reservations-unbalanced ram={get "ram"} downloads={(parseDl (get "dl")).length}"] else []
  -- C19: a private torrent never dials addresses from PEX/DHT, never starts PEX, uses its private identity
  let priv := s.cfg.isPrivate && s.info
  let c19 :=
    (if priv && (get "dials").toNat?.getD 0 > prevDials then [s!"C19 private-torrent-dialled-exchanged-address dials={get "dials"}"] else []) ++
    (if priv && get "pexon" ≠ "-" && get "pexon" ≠ "" then [s!"C19 private-torrent-started-pex peers={get "pexon"}"] else []) ++
    (if priv && get "magnet" = "ok" then ["C19 private-torrent-exported-magnet"] else []) ++
    -- metadata of a private torrent that arrived through a magnet link is refused for good: it is not kept
    (if s.cfg.isPrivate && !s.infoAtAdd && get "info" = "1" then ["C19 private-metadata-from-magnet-kept"] else []) ++
    -- a private torrent is never announced to the DHT, with or without trackers
    (if priv && get "dhtann" = "1" then ["C19 private-torrent-has-dht-announcer"] else []) ++
    (if priv && get "dhtreq" = "1" then ["C19 private-torrent-queued-for-dht-announce"] else []) ++
    -- the identity a torrent announces with survives a restart of the client (reload op: a second session on a
    -- copy of the resume database); a private torrent added from a .torrent file stays private
    ((commaList (get "reload")).filterMap fun e =>
      if e.startsWith "error" then none
      else if s.cfg.isPrivate && s.infoAtAdd && (e.splitOn ":priv:priv:").length < 2 then
        some s!"C19 private-torrent-public-identity-after-reload entry={e}"
      else none) ++
    (if s.cfg.isPrivate && s.infoAtAdd && get "pid" ≠ "" && get "pid" ≠ "priv" then [s!"C19 private-torrent-public-peer-id pid={get "pid"}"] else []) ++
    (if priv then impl.flatMap fun (k, v) =>
        if k.startsWith "p" && (k.drop 1).toString.toNat?.isSome then
          (commaList v).filterMap fun msg =>
            if msg.startsWith "exths:" && (msg.splitOn "v=PrivClient_1").length < 2 then some "C19 private-torrent-public-client-version" else none
        else []
      else [])
  -- C05: a restart from the resume data and disk as they are now must not treat unwritten pieces as held
  let c05 := if get "crash" ≠ "" && get "crash" ≠ "ok" then [s!"C05 restart-claims-more-than-disk crash={get "crash"}"] else []
  -- C13 (progress, safety form): a free metadata-download slot and an eligible peer that is not used
  let c13 :=
    if !s.info && s.status = .dlmeta && (s.idls.filter (fun d => !d.snub)).length < s.parMeta then
      (s.peers.filter fun p => p.extHS && p.extMeta && p.extSize ≠ 0 && p.extSize ≤ s.maxMeta && !(s.idls.any (·.k = p.k))).map
        fun p => s!"C13 idle-metadata-source peer={p.k}"
    else []
  -- a reservation that is not given back starves later downloads of the session (C10: with the budget gone no
  -- idle peer is ever given a request again): the same event read as C10
  let c10 := c10 ++ (c17.map fun v => v.replace "C17 write-cache-reservations-unbalanced" "C10 write-cache-budget-not-returned")
  -- the same event read as C18 (an IP banned for corrupt data must be on the ban list that admission consults)
  let c18 := c01d.map fun v => v.replace "C01 corrupt-sender-not-banned" "C18 banned-ip-not-recorded"
  c01a ++ c01e ++ c02v ++ c01b ++ c01c ++ c01d ++ c18 ++ c06 ++ c04 ++ c10 ++ c17 ++ c19 ++ c05 ++ c13

/-- C04: after the final phase (restart + honest seed answering every request) the torrent must be
complete with correct files. -/
def finalOracle (s : St) (op : String) (impl : List (String × String)) : List String :=
  let get (k : String) : String := ((impl.find? fun (x, _) => x = k).map (·.2)).getD ""
  if (words op).headD "" = "diskcheck" && kvStr (words op) "final" = "1" then
    let bits := bitsOf (get "bf")
    let complete := get "bf" ≠ "-" && bits.all id && (get "st" = "Seeding" || (s.cfg.stopAfter && get "st" = "Stopped"))
    -- (a torrent that runs without its acceptor could not take the peer port — another process had it: the harness
    -- cannot attach the final seed then; an environment matter, not a verdict on the program)
    let noAcceptor := (get "st" = "Downloading" || get "st" = "Seeding") && !((commaList (get "workers")).contains "acceptor")
    -- a torrent with a padding-only piece whose recorded hash is wrong cannot complete (and the peer that is given
    -- that piece waits for ever: the other pieces need not arrive either)
    let unver := (List.range s.n).any fun i => !(s.cfg.padOK i)
    (if unver then (if complete then ["C04 complete-with-piece-never-verified", "C01 complete-with-piece-never-verified"] else [])
     else if !complete && !noAcceptor then [s!"C04 restart-does-not-converge st={get "st"} have={get "have"} missing={get "missing"}"] else []) ++
    -- bytes changed behind the client's back and never re-verified cannot be known to it
    (if complete && get "disk" ≠ "ok" && !s.tainted then ["C04 complete-but-files-differ"] else [])
  else []

def stepDriver (d : DSt) (op implObs : String) : DSt × String × List String :=
  let toks := words op
  if toks.headD "" = "new" then
    let c := parseNew toks
    let (v, impl) := splitObs implObs
    let s := initSt c (kvStr toks "magnet" = "1")
    let seeded := kvStr toks "seeded" = "1"
    let s := if seeded then { s with known := c.flens.map (fun _ => true), fileExists := c.flens.map (fun _ => true), bad := [] } else s
    let s := { s with nUnchoke := ((kv? toks "cfg.UnchokedPeers").bind (·.toNat?)).getD 3,
                      nOptimistic := ((kv? toks "cfg.OptimisticUnchokedPeers").bind (·.toNat?)).getD 1 }
    let s := { s with infoAtAdd := kvStr toks "magnet" ≠ "1", isize := (((impl.find? fun (k, _) => k = "isize").bind fun (_, x) => x.toNat?)).getD 0,
                      maxMeta := ((kv? toks "cfg.MaxMetadataSize").bind (·.toNat?)).getD 31457280,
                      parMeta := ((kv? toks "cfg.ParallelMetadataDownloads").bind (·.toNat?)).getD 2 }
    let ntrk := if kvStr toks "magnet" = "1" then 0 else kvNat toks "trackers"
    if v ≠ "ok" then ({ s := none }, implObs, [])
    else ({ s := some s, trk := { ntrk := ntrk, hang := List.replicate ntrk false } }, renderObs s "ok" [] impl "-", [])
  else
  match d.s with
  | none => (d, implObs, [])
  | some s =>
    if s.panicked.isSome then (d, "model-panicked:" ++ s.panicked.getD "", []) else
    let (implVerdict, impl) := splitObs implObs
    if toks.headD "" = "magnet" && kvStr toks "gone" = "1" && implObs.startsWith "magnet=" then
      -- the torrent has been removed; only the export through the kept handle is observed
      let priv := s.info && s.cfg.isPrivate
      (d, "magnet=" ++ (if priv then "refused" else "ok"),
        if priv && implObs = "magnet=ok" then ["C19 private-torrent-exported-magnet after-removal=1"] else [])
    else
    if implObs = "hang" || implObs = "dead" || implObs.startsWith "panic:" then
      -- (when the event that wedged or killed the loop came from a peer it is C08's business as well)
      (d, "alive", [s!"C04 loop-{implObs.takeWhile (· ≠ ':')} op={toks.headD ""}"] ++
        (if ["msg", "peer", "disconnect", "snub", "snubclose", "dhtpeers", "dialhold"].contains (toks.headD "") then
          [s!"C08 loop-{implObs.takeWhile (· ≠ ':')} op={toks.headD ""}"] else []) ++
        -- (adding and starting a torrent always terminates, whatever its description says: C06's business too when
        -- the loop wedges in a start / verification, or in the message that completes the metadata)
        (if ["start", "verify", "new", "reload", "crashcheck"].contains (toks.headD "") ||
            (toks.headD "" = "msg" && kvStr toks "t" = "metadata") then
          [s!"C06 loop-{implObs.takeWhile (· ≠ ':')} op={toks.headD ""}"] else []))
    else
    -- stub trackers: mode changes; whether a stop that happens now would wait for a silent tracker
    let trk : TrkSt :=
      if toks.headD "" = "trk" then
        let hang := kvStr toks "mode" = "hang-stopped"
        let upd := if kvStr toks "mode" = "" then d.trk.hang
                   else (List.range d.trk.ntrk).map fun i =>
                     if kvStr toks "i" = "" || kvNat toks "i" = i then hang else d.trk.hang.getD i false
        { d.trk with hang := upd }
      else if toks.headD "" = "addtracker" then { ntrk := d.trk.ntrk + 1, hang := d.trk.hang ++ [false] }
      else d.trk
    let s := { s with stopHang := if s.stopAnn then s.stopHang else ((s.acceptor || d.noListen) && trk.anyHang) }
    let prevSt := s
    match parseOp s toks with
    | none => (d, implObs, [])
    | some mop =>
    let (r, parked) := step s d.parked (fun k => d.knownPeers.contains k) mop
    -- `hangup=1`: the peer's disconnect was queued right behind the block (the harness says `hungup`); the
    -- model handles the two events one after the other, without clearing the per-op records in between
    let hang2 (r : StepOut) (parked : Parked) (k : Nat) (verdict : String) : StepOut × Parked :=
      let (m2, _, parked2) := handle r.st parked (fun k => d.knownPeers.contains k) (Op.disconnect k)
      let m3 : M := runWorkers 12 (m2.1, r.outs ++ m2.2)
      (({ st := m3.1, verdict := verdict, outs := m3.2 } : StepOut), parked2)
    let (r, parked) : StepOut × Parked :=
      match mop with
      | .msg k _ => if implVerdict = "hungup" then hang2 r parked k "hungup" else (r, parked)
      -- `snubclose`: the peer's snub report and its disconnect reach the loop together (either order)
      | .snub k => if toks.headD "" = "snubclose" && implVerdict = "" then hang2 r parked k r.verdict else (r, parked)
      | _ => (r, parked)
    let st1 := r.st
    let outs1 := r.outs
    let known := match mop with
      | .peer k _ _ _ _ => if r.verdict.startsWith "skipped" then d.knownPeers else k :: d.knownPeers
      | _ => d.knownPeers
    -- listening on the peer port can fail for reasons outside the program (port taken): follow the implementation
    let implWorkers := commaList (((impl.find? fun (k, _) => k = "workers").map (·.2)).getD "-")
    let listenFailedNow := st1.acceptor && !s.acceptor && !(implWorkers.contains "acceptor")
    let st1 := if listenFailedNow then { st1 with acceptor := false } else st1
    let quietSt (x : St) : Bool := x.status = .stopped || x.status = .stopping
    let noListen := (d.noListen || listenFailedNow) && !(quietSt st1)
    match st1.panicked with
    | some why => ({ d with s := some st1, knownPeers := known, trk := trk }, "model-panic:" ++ why, [s!"C04 model-predicts-panic why={why.replace " " "_"}"])
    | none =>
      -- the allowed-fast set sent to a peer depends on a SHA-1 of its address: taken from the implementation,
      -- checked for admissibility (distinct, in range, at most `AllowedFastSet` many)
      let (st1, afErrs) := impl.foldl (fun (acc : St × List String) (kv : String × String) =>
        let (st, errs) := acc
        let (k, v) := kv
        if k.startsWith "p" && (k.drop 1).toString.toNat?.isSome then
          let pk := (k.drop 1).toString.toNat?.getD 0
          let idx := (commaList v).filterMap fun msg =>
            match msg.splitOn ":" with
            | ["allowedfast", i] => i.toNat?
            | _ => none
          if idx.isEmpty then (st, errs) else
          let bad := idx.any (· ≥ st.n) || idx.eraseDups.length ≠ idx.length || idx.length > st.cfg.afK || !st.loaded
          (st.updPeer pk fun p => { p with sentAF := p.sentAF ++ idx },
           if bad then errs ++ [s!"C03 allowed-fast-set-inadmissible peer={pk}"] else errs)
        else (st, errs)) (st1, [])
      let implDl := parseDl (((impl.find? fun (k, _) => k = "dl").map (·.2)).getD "-")
      let (st2, errs) := reconcile st1 implDl
      let implIdl := (commaList (((impl.find? fun (k, _) => k = "idl").map (·.2)).getD "-")).map parseNat!
      let (st2, errsI) := reconcileIdl st2 implIdl
      let dlTok := if errs.isEmpty then (((impl.find? fun (k, _) => k = "dl").map (·.2)).getD "-")
                   else "inadmissible[" ++ (";".intercalate errs).replace " " "_" ++ "]"
      -- C17: a connection whose handshake failed must be closed, not kept
      let c17hs := if toks.headD "" = "peer" && implVerdict = "refused" then ["C17 failed-handshake-socket-left-open"] else []
      let viol := afErrs ++ oracles s st2 impl d.implDials ++ finalOracle st2 op impl ++ c17hs ++ errs.map (fun e => "C09 picker-choice-inadmissible " ++ e.replace " " "_")
        ++ errs.map (fun e => "C10 download-progress-diverged " ++ e.replace " " "_")
        ++ errsI.map (fun e => "C13 metadata-download-inadmissible " ++ e.replace " " "_")
        -- C08: the buffer of a metadata download is allocated from the size the peer announced; a download from a
        -- peer whose announcement exceeds the configured maximum is an allocation beyond it
        ++ (st2.idls.filter fun dl => dl.size > st2.maxMeta).map (fun dl =>
              s!"C08 metadata-buffer-beyond-the-configured-maximum peer={dl.k} size={dl.size} max={st2.maxMeta}")
      let implDials := (((impl.find? fun (k, _) => k = "dials").bind fun (_, x) => x.toNat?)).getD d.implDials
      let looseDials := d.looseDials || toks.headD "" = "dialhold"
      let st2 := if looseDials then { st2 with dials := implDials } else st2
      -- announces the stub trackers must have received in this op, with the identity they must carry
      let ident := (if st2.cfg.isPrivate && st2.infoAtAdd then "priv:priv" else "pub:pub") ++ ":ok"
      -- a tracker added while the announcers run gets its own announcer at once (`started`); added to a stopped
      -- or stopping torrent it is only remembered (the generators add trackers in these two situations only)
      let addEv : List (Nat × String) :=
        if toks.headD "" = "addtracker" && (prevSt.acceptor || d.noListen) && (st2.acceptor || noListen) then [(d.trk.ntrk, "started")] else []
      let annPrev : St := { prevSt with acceptor := prevSt.acceptor || d.noListen }
      let annNew : St := { st2 with acceptor := st2.acceptor || noListen }
      let anns := ((if toks.headD "" = "addtracker" then [] else annEvents trk annPrev annNew) ++ addEv).map fun (i, ev) => s!"{i}:{ev}:{ident}"
      let implAnn := commaList (((impl.find? fun (k, _) => k = "ann").map (·.2)).getD "-")
      -- C15 transfer counters: `left` of a `stopped` announce is what the bitfield says is missing (before or
      -- after this op), of a `completed` announce 0, of any other announce one of those or the "unknown" value
      let leftOf (b : Option (List Bool)) : Nat :=
        match b with
        | none => 4294967295
        | some bits => ((List.range st2.n).filter fun i => !(bits.getD i false)).foldl (fun a i => a + st2.cfg.plens.getD i 0) 0
      let leftViol := implAnn.filterMap fun e =>
        let f := e.splitOn ":"
        let ev := f.getD 1 ""
        match (f.getD 5 "").drop 1 |>.toString.toNat? with
        | none => none
        | some l =>
          let okStopped := l = leftOf prevSt.bf || l = leftOf st2.bf
          let ok := if ev = "stopped" then okStopped else if ev = "completed" then l = 0 else (okStopped || l = 4294967295)
          if (f.getD 5 "").startsWith "L" && !ok then some s!"C15 announce-left-differs-from-missing-bytes entry={e} expected={leftOf prevSt.bf}|{leftOf st2.bf}" else none
      let quiet (x : St) : Bool := x.status = .stopped || x.status = .stopping
      let stoppedViol := if quiet prevSt && quiet st2 && toks.headD "" ≠ "waitstop" then implAnn.filterMap fun e =>
          let ev := (e.splitOn ":").getD 1 ""
          if ev = "started" || ev = "none" || ev = "completed" then some s!"C15 announce-from-stopped-torrent entry={e}" else none
        else []
      -- pacing: the trackers of the harness answer `interval 1800`, the client's minimum is a minute: an
      -- announce without an event never falls inside a case
      let paceViol := implAnn.filterMap fun e =>
        if (e.splitOn ":").getD 1 "" = "none" then some s!"C15 regular-announce-before-the-minimum-interval entry={e}" else none
      let annViol := leftViol ++ stoppedViol ++ paceViol ++
        (implAnn.filterMap fun e =>
          if (e.splitOn "!mismatch").length ≥ 2 || (e.splitOn ":bad:").length ≥ 2 || e.endsWith ":bad" || e.endsWith ":Pbad" then some s!"C15 announce-identity-differs-from-torrent entry={e}" else none) ++
        (if st2.cfg.isPrivate && st2.infoAtAdd then implAnn.filterMap fun e =>
            if (e.splitOn ":pub").length ≥ 2 then some s!"C19 private-torrent-public-identity-in-announce entry={e}" else none
         else [])
      -- C04: a stop reaches Stopped within the tracker stop timeout; a start is never silently dropped
      let implWorkers := commaList (((impl.find? fun (k, _) => k = "workers").map (·.2)).getD "-")
      let implSt := ((impl.find? fun (k, _) => k = "st").map (·.2)).getD ""
      -- (a start given while a verification request is pending is absorbed by the verification run, which ends
      -- Stopped as the property demands of a verification request: not counted as dropped)
      let sws := if toks.headD "" = "start" && s.stopAnn && !s.doVerify then true
                 else if toks.headD "" = "stop" || toks.headD "" = "verify" then false else d.startWhileStopping
      -- a verification request ends with the torrent stopped: between the request and the first Stopped
      -- observation the torrent is never downloading or seeding
      let vp := (d.verifyPending || toks.headD "" = "verify") && implSt ≠ "Stopped"
      let c04trk :=
        (if toks.headD "" = "waitstop" && implWorkers.contains "stopann" then ["C04 stop-does-not-reach-stopped-within-timeout"] else []) ++
        (if toks.headD "" = "waitstop" && sws && implSt = "Stopped" && st2.status ≠ .stopped then ["C04 start-dropped-while-stopping"] else []) ++
        (if toks.headD "" = "stop" && implSt ≠ "Stopped" && implSt ≠ "Stopping" && implSt ≠ "" then
          [s!"C04 stop-command-did-not-stop st={implSt}"] else []) ++
        (if vp && (implSt = "Downloading" || implSt = "Seeding") then [s!"C04 verification-request-did-not-end-stopped st={implSt}"] else [])
      let sws := if toks.headD "" = "waitstop" then false else sws
      -- C11: an extension message goes out under the id the RECEIVER assigned to that extension (BEP 10)
      let metaIds :=
        if toks.headD "" = "msg" && kvStr toks "t" = "exths" && !(d.metaIds.any (·.1 = kvNat toks "p")) then
          match ((kvStr toks "m").splitOn "+").find? (·.startsWith "ut_metadata:") with
          | some e => d.metaIds ++ [(kvNat toks "p", ((e.drop 12).toString.toNat?).getD 0)]
          | none => d.metaIds
        else d.metaIds
      let extViol := impl.flatMap fun (k, v) =>
        if k.startsWith "p" && (k.drop 1).toString.toNat?.isSome then
          let pk := ((k.drop 1).toString.toNat?).getD 0
          (commaList v).filterMap fun msg =>
            if msg.startsWith "extmeta:" then
              let got := ((msg.splitOn ":").getD 1 "").toNat?.getD 0
              match metaIds.find? (·.1 = pk) with
              | some (_, want) => if got ≠ want then
                  some s!"C11 extension-message-under-wrong-extended-id peer={pk} got={got} want={want} msg={msg.replace " " "_"}" else none
              | none => none
            else none
        else []
      -- C02: a padding file is never opened, created or written (BEP 47: it exists in the piece space only)
      let implSto := ((impl.find? fun (k, _) => k = "sto").map (·.2)).getD ""
      let implCrash := ((impl.find? fun (k, _) => k = "crash").map (·.2)).getD ""
      let padViol := (if (implSto.splitOn ".pad/").length ≥ 2 then [s!"C02 padding-file-touched-on-disk sto={implSto.replace " " "_"}"] else []) ++
        (if implCrash.startsWith "padondisk" then [s!"C02 padding-file-touched-on-disk after-restart={implCrash}"] else [])
      -- C04: a stopping or stopped torrent runs no periodical announcer (only the announcer of the `stopped` event)
      let implW := commaList (((impl.find? fun (k, _) => k = "workers").map (·.2)).getD "-")
      let implS := ((impl.find? fun (k, _) => k = "st").map (·.2)).getD ""
      let liveAnn := if (implS = "Stopped" || implS = "Stopping") && implW.any (fun w => w.startsWith "ann" && w ≠ "ann0") then
          [s!"C04 stopped-torrent-runs-an-announcer st={implS} workers={",".intercalate implW}"] else []
      let annViol := annViol ++ liveAnn ++ padViol ++ extViol ++ (extViol.map fun v => v.replace "C11 extension-message" "C13 extension-message")
      ({ s := some st2, parked := parked, implDials := implDials, knownPeers := known, trk := trk, startWhileStopping := sws, verifyPending := vp, noListen := noListen, looseDials := looseDials, metaIds := metaIds },
        renderObs st2 r.verdict outs1 impl dlTok trk.ntrk anns noListen
          -- the IPs of pending outgoing handshakes to the hold sink (not modelled) count as connected while the
          -- torrent runs; a stopped torrent has none
          (if looseDials && !(quietSt st2) then
            (commaList (((impl.find? fun (k, _) => k = "cips").map (·.2)).getD "-")).filter (fun ip => ip.startsWith "127.0.1." && !(st2.peers.any (·.ip = ip)))
           else []),
        viol ++ annViol ++ c04trk)

def mkSuite (name : String) : Suite where
  name := name
  runCase ops :=
    let (_, rs) := foldCase ({} : DSt) stepDriver ops
    let nontrivial := ops.any (fun (_, o) => (o.splitOn "sto=").length ≥ 2 && (o.splitOn "write:").length ≥ 2)
    let tags :=
      (if nontrivial then ["nontrivial"] else []) ++
      (if ops.any (fun (_, o) => (o.splitOn "banned=1").length ≥ 2) then ["branch:ban"] else []) ++
      (if ops.any (fun (_, o) => (o.splitOn "st=Seeding").length ≥ 2) then ["branch:completed"] else []) ++
      (if ops.any (fun (_, o) => o.startsWith "deferred") then ["branch:deferred"] else []) ++
      (if ops.any (fun (op, _) => op.startsWith "stop") then ["branch:stop"] else [])
    (rs, tags)

end Driver.Suites.Loop
