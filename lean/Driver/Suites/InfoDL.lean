import Driver.Util
import RainModel.Model.InfoDownloader
/-!
Suite `infodl` (C13): op sequences on the real `infodownloader.InfoDownloader`.

    new size=<n>                          obs: len=<n> done=<0|1> rle=<v*count,…>
    req q=<int>                           obs: sent=<i,…|-> done=<0|1>
    got i=<u32> len=<n> a=<b> k=<n> b=<b> obs: ok|err:<kind> done=<0|1> rle=<…>

Model observation = the same line computed by `Rain.InfoDL`.  Oracle (on the implementation's
observations only): `acceptOk` per `got` (id_accept), request discipline per `req`, and at
`done=1` with every requested index answered once the buffer is the concatenation of the answers
(id_assembled_honest).
-/
namespace Driver.Suites.InfoDL
open Driver Rain.InfoDL

def rleEnc (b : Bytes) : String :=
  let rec go : List Nat → Nat → Nat → List String → List String
    | [], v, c, acc => (s!"{v}*{c}" :: acc).reverse
    | x :: xs, v, c, acc => if x = v then go xs v (c + 1) acc else go xs x 1 (s!"{v}*{c}" :: acc)
  match b with
  | [] => "-"
  | x :: xs => ",".intercalate (go xs x 1 [])

def rleDec (s : String) : Bytes :=
  (commaList s).flatMap fun t =>
    match t.splitOn "*" with
    | [v, c] => List.replicate (parseNat! c) (parseNat! v)
    | _ => []

def mkData (toks : List String) : Bytes :=
  let ln := kvNat toks "len"
  let k := min (kvNat toks "k") ln
  List.replicate k (kvNat toks "a" % 256) ++ List.replicate (ln - k) (kvNat toks "b" % 256)

structure St where
  sz : Nat := 0
  model : Option ID := none
  reqd : List Nat := []                  -- indexes the implementation requested so far
  implBytes : Bytes := []
  answers : List (Nat × Bytes) := []     -- answers the implementation accepted, newest first
  tags : List String := []

def resStr : GotRes → String
  | .ok => "ok"
  | .err .index => "err:index"
  | .err .unrequested => "err:unrequested"
  | .err .size => "err:size"
  | .err .duplicate => "err:duplicate"
  | .panic => "panic"

def addTag (s : St) (t : String) : St := if s.tags.contains t then s else { s with tags := t :: s.tags }

/-- At `done=1`: if every accepted answer has a distinct index (each requested index answered
once), the buffer must be the concatenation of the answers by index and every index is answered. -/
def doneOracle (s : St) (bytes : Bytes) : List String :=
  let idx := s.answers.map (·.1)
  if idx.eraseDups.length ≠ idx.length then [] else
  let nb := numBlocks blockSize s.sz
  let missing := (List.range nb).filter fun i => !idx.contains i
  if !missing.isEmpty then [s!"C13 done-premature missing={showNatList missing}"] else
  if assembled blockSize s.sz s.answers = bytes then [] else ["C13 assembled-mismatch"]

def step (s : St) (op implObs : String) : St × String × List String :=
  let toks := words op
  let itoks := words implObs
  let implDone := kvStr itoks "done" = "1"
  match toks.head? with
  | some "new" =>
    let sz := kvNat toks "size"
    let d := new sz
    let ib := rleDec (kvStr itoks "rle")
    let viol :=
      (if ib = List.replicate sz 0 then [] else ["C13 new-buffer-not-zero-of-size"]) ++
      (if implDone ∧ sz ≠ 0 then ["C13 done-premature at=new"] else [])
    let s' : St := { sz := sz, model := some d, implBytes := ib }
    (s', s!"len={d.bytes.length} done={boolStr (done d)} rle={rleEnc d.bytes}", viol)
  | some "req" =>
    match s.model with
    | none => (s, "nostate", [])
    | some d =>
      let q := kvInt toks "q"
      let (d', sent) := requestBlocks d q
      let isent := natList (kvStr itoks "sent")
      let nb := numBlocks blockSize s.sz
      let viol :=
        (if isent.all (· < nb) then [] else ["C13 request-out-of-range"]) ++
        (if isent.any (s.reqd.contains ·) ∨ isent.eraseDups.length ≠ isent.length then ["C13 request-repeated"] else [])
      let s1 := { s with model := some d', reqd := s.reqd ++ isent }
      let s1 := if sent.isEmpty then addTag s1 "branch:req-none" else addTag s1 "branch:req-some"
      let s1 := if q ≤ 0 then addTag s1 "branch:req-q<=0" else s1
      let viol := viol ++ (if implDone then doneOracle s1 s1.implBytes else [])
      (s1, s!"sent={showNatList sent} done={boolStr (done d')}", viol)
  | some "got" =>
    match s.model with
    | none => (s, "nostate", [])
    | some d =>
      let i := kvNat toks "i"
      let data := mkData toks
      let (d', r) := gotBlock blockSize d i data
      let implOk := itoks.head? = some "ok"
      let ib := rleDec (kvStr itoks "rle")
      let good := acceptOk blockSize s.sz s.reqd i data s.implBytes ib implOk
      let kind :=
        if !implOk then "bytes-changed-on-error"
        else if !s.reqd.contains i then "unrequested-accepted"
        else if data.length ≠ blockLen blockSize s.sz i then "wrong-size-accepted"
        else "stored-outside-block-range"
      let viol := if good then [] else [s!"C13 accept kind={kind} index={i} len={data.length}"]
      let repeated := implOk ∧ s.answers.any (·.1 = i)
      -- a repeated answer taken for the answer to another request: the in-flight counter is one too low from then
      -- on (negative in the end) and the next RequestBlocks asks for more than its window
      let viol := viol ++ (if repeated then
        [s!"C17 repeated-metadata-piece-counted-as-another-answer index={i}", s!"C13 repeated-metadata-piece-counted-as-another-answer index={i}"] else [])
      let s1 := { s with model := some d', implBytes := ib,
                         answers := if implOk then (i, data) :: s.answers else s.answers }
      let s1 := addTag s1 ("branch:got-" ++ resStr r)
      let s1 := if repeated then addTag s1 "branch:repeat-accepted" else s1
      let s1 := if d'.pending < 0 then addTag s1 "branch:pending-negative" else s1
      let s1 := if done d' then addTag s1 "branch:done" else s1
      let s1 := if done d' ∧ (s1.answers.map (·.1)).eraseDups.length < numBlocks blockSize s.sz
                then addTag s1 "branch:done-premature-by-repeat" else s1
      let viol := viol ++ (if implDone then doneOracle s1 ib else [])
      (s1, s!"{resStr r} done={boolStr (done d')} rle={rleEnc d'.bytes}", viol)
  | _ => (s, "unknown-op", [])

def suite : Suite where
  name := "infodl"
  runCase ops :=
    let (st, rs) := foldCase ({} : St) step ops
    let nb := numBlocks blockSize st.sz
    let oks := st.tags.contains "branch:got-ok"
    let errs := st.tags.any fun t => t.startsWith "branch:got-err"
    let tags := st.tags ++ (if nb ≥ 2 then ["multi-block"] else []) ++
      (if nb ≥ 2 ∧ oks ∧ errs then ["nontrivial"] else [])
    (rs, tags)

end Driver.Suites.InfoDL
