import Driver.Util
import RainModel.Model.Adopt
/-!
Suite `adopt` (C13), package-level part: eligibility of peers for a metadata download.

    next max=<uint> peers=<raw>:<meta>:<hs>:<busy>,…
    obs: pick=<index|none> buf=<len(Bytes)> sizes=<decoded size per peer | x>

Model: `clampSize` (decoder) and `eligible` / `nextInfoDownload` of `Rain.Adopt`.  The pick is a
map-iteration choice: the implementation's pick is checked for admissibility and echoed.
Oracle (size_cap): the picked peer announced `0 < size ≤ max`, supports ut_metadata, has no
downloader yet; the allocated buffer does not exceed the cap; an eligible peer is not passed over.
-/
namespace Driver.Suites.Adopt
open Driver Rain.Adopt Rain.InfoDL

structure P where
  raw : Int
  hasMeta : Bool
  hs : Bool
  busy : Bool

def parsePeers (s : String) : List P :=
  (commaList s).filterMap fun t =>
    match t.splitOn ":" with
    | [r, m, h, b] => some { raw := parseInt! r, hasMeta := m = "1", hs := h = "1", busy := b = "1" }
    | _ => none

def env (max : Nat) : Env Unit :=
  { H := fun _ => (), infoHash := (), parseInfo := fun _ => none, writeOk := fun _ => false,
    queue := fun _ => 0, maxSize := max, parallel := 2 }

def mkState (ps : List P) : State :=
  let idx := ps.zipIdx
  { State.init with
    peers := idx.map fun (p, i) => ⟨i, if p.hs then some ⟨clampSize p.raw, p.hasMeta⟩ else none⟩,
    dls := (idx.filter (·.1.busy)).map fun (_, i) => (i, new 0) }

/-- Guard skeleton of the `Data` case of `handleMetadataMessage`, as `Rain.Adopt.step` models it
(branch order of `.data`): no downloader for the peer → nothing; `GotBlock` error → close peer;
not `Done()` → request more; **SHA-1 of `id.Bytes` ≠ info-hash → close peer** (`decide_`, first
test); `parseInfo(id.Bytes)` error → stop; private → stop; then `t.info = info`. -/
def expectedGate : String :=
  "guards=!ok=>break;err!=nil=>break;!id.Done()=>break;!bytes.Equal(hash.Sum(nil),t.infoHash[:])=>break;" ++
  "err!=nil=>break;info.Private=>break hashed=id.Bytes parsed=id.Bytes assigned=info"

def hashGuard : String := "!bytes.Equal(hash.Sum(nil),t.infoHash[:])=>break"

/-- Oracle on the extracted skeleton: the hash guard is there, it terminates the case, it comes
before parsing (i.e. before the last two guards), and the bytes hashed are the bytes parsed. -/
def gateViolations (implObs : String) : List String :=
  let itoks := words implObs
  let guards := (kvStr itoks "guards").splitOn ";"
  let hashed := kvStr itoks "hashed"
  let parsed := kvStr itoks "parsed"
  match guards.idxOf? hashGuard with
  | none => ["C13 hash-gate-missing"]
  | some i =>
    (if guards.length ≥ i + 3 ∨ ¬ guards.any (· = "info.Private=>break") then []
     else ["C13 hash-gate-after-parse"]) ++
    (if hashed ≠ parsed ∨ hashed = "-" ∨ hashed = "" then [s!"C13 hash-gate-other-bytes hashed={hashed} parsed={parsed}"] else []) ++
    (if guards.any (· = "info.Private=>break") then [] else ["C13 private-gate-missing"])

def step (op implObs : String) : String × List String × List String :=
  let toks := words op
  let itoks := words implObs
  if toks.head? = some "gate" then (expectedGate, gateViolations implObs, ["branch:gate"]) else
  if toks.head? ≠ some "next" then ("unknown-op", [], []) else
  let max := kvNat toks "max"
  let ps := parsePeers (kvStr toks "peers")
  let e := env max
  let s := mkState ps
  let el := s.peers.filter (eligible e s)
  let sizes := if ps.isEmpty then "-" else
    ",".intercalate (ps.map fun p => if p.hs then toString (clampSize p.raw) else "x")
  let ipick := kvStr itoks "pick"
  let ibuf := kvNat itoks "buf"
  let pickOpt : Option Nat := if ipick = "none" then none else ipick.toNat?
  let chosen := nextInfoDownload e s pickOpt
  let show_ (c : Option Peer) : String :=
    match c with
    | none => s!"pick=none buf=0 sizes={sizes}"
    | some pe => s!"pick={pe.id} buf={(pe.hs.map peerMetadataSize).getD 0} sizes={sizes}"
  let modelObs :=
    match pickOpt with
    | none => show_ el.head?
    | some _ => show_ chosen          -- equals the implementation's pick iff that pick is eligible
  let viol :=
    match pickOpt with
    | none => if el.isEmpty then [] else ["C13 eligible-peer-not-picked"]
    | some i =>
      match ps[i]? with
      | none => [s!"C13 size-cap pick-out-of-range pick={i}"]
      | some p =>
        (if p.hs ∧ 0 < clampSize p.raw ∧ clampSize p.raw ≤ (max : Int) ∧ p.hasMeta ∧ ¬ p.busy then []
         else [s!"C13 size-cap-violated pick={i} raw={p.raw} max={max} hs={boolStr p.hs} meta={boolStr p.hasMeta} busy={boolStr p.busy}"]) ++
        (if ibuf ≤ max then [] else [s!"C13 metadata-buffer-exceeds-cap buf={ibuf} max={max}"])
  let tags :=
    (if el.isEmpty then ["branch:none-eligible"] else ["branch:some-eligible"]) ++
    (if ps.any (fun p => p.hs ∧ p.raw < 0) then ["branch:negative-clamped"] else []) ++
    (if ps.any (fun p => p.hs ∧ clampSize p.raw > (max : Int)) then ["branch:over-cap"] else []) ++
    (if ps.any (fun p => p.hs ∧ clampSize p.raw = (max : Int)) then ["branch:at-cap"] else []) ++
    (if ps.any (fun p => p.hs ∧ p.raw ≥ 2 ^ 32) then ["branch:above-uint32"] else []) ++
    (if ps.any (·.busy) then ["branch:busy"] else []) ++
    (if el.length ≥ 2 then ["branch:choice"] else []) ++
    (if !el.isEmpty ∧ ps.any (fun p => p.hs ∧ (clampSize p.raw > (max : Int) ∨ clampSize p.raw = 0)) then ["nontrivial"] else [])
  (modelObs, viol, tags)

def suite : Suite where
  name := "adopt"
  runCase ops :=
    let rs := ops.map fun (op, obs) => step op obs
    (rs.map fun (o, v, _) => (o, v), (rs.flatMap fun (_, _, t) => t).eraseDups)

end Driver.Suites.Adopt
