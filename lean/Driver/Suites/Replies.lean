import Driver.Util
import RainModel.Model.TrackerWire
/-!
Suite `replies` (C16): tracker reply bytes fed to the real parsers.

  `compact b=`                         → `err` | `ok peers=…`
  `udp fresh= conn=<specs> ann=<specs>` → `ok iv= mi=0 peers=…` | `err:decode` | `err:tracker`
  `http limit= chunked= status= kind= vlen= … body=` → `ok iv= mi= peers=…` | `err:decode` | `err:tracker` |
                                          `err:status` | `err:toolarge`

UDP: the transaction id is random in the implementation; the specs carry `txid xor δ`, the model
uses a fixed stand-in id — only equality with the transaction's id matters (`recv`).  After an
error action the implementation answers `err:tracker` or, when the bencoded message does not parse,
`err:decode`; the model admits both there.
HTTP: the read-limit logic and the structured kinds are predicted exactly; for `kind=raw` (random
bytes) every error class / a well-formed peer list is admissible and echoed.

Oracle on the implementation's observations: no crash, only the known result classes, every peer
address well-formed, no short / wrong-action / foreign-transaction datagram accepted.
-/
namespace Driver.Suites.Replies
open Driver Rain.TrackerWire

def tx0 : Nat := 0x01020304

def showPeer (p : Peer) : String :=
  ".".intercalate (p.ip.map toString) ++ ":" ++ toString p.port

def showPeers (ps : List String) : String := if ps.isEmpty then "-" else ",".intercalate ps

/-- `a.b.c.d:port` with decimal octets ≤ 255 and port ≤ 65535, or `[v6]:port`. -/
def peerTextOK (s : String) : Bool :=
  if s.startsWith "[" then
    match s.splitOn "]:" with
    | [h, p] => h.length > 1 ∧ p.toNat?.any (· ≤ 65535)
    | _ => false
  else
    match s.splitOn ":" with
    | [ip, port] =>
      let os := ip.splitOn "."
      os.length = 4 ∧ os.all (fun o => o.toNat?.any (· ≤ 255)) ∧ port.toNat?.any (· ≤ 65535)
    | _ => false

def implPeersBad (implObs : String) : List String :=
  if !implObs.startsWith "ok" then [] else
  let ps := commaList (kvStr (words implObs) "peers")
  (ps.filter (fun p => !peerTextOK p)).take 1 |>.map fun p => s!"C16 malformed-peer-address addr={p}"

def classOK (implObs : String) : Bool :=
  implObs.startsWith "ok " ∨ implObs = "err" ∨ implObs = "err:decode" ∨ implObs = "err:tracker" ∨
  implObs = "err:status" ∨ implObs = "err:toolarge"

def xorNat (a b : Nat) : Nat := a ^^^ b

def buildSpec (spec : String) : Option Bytes :=
  match spec.splitOn "." with
  | [a, x, c, p] =>
    let b := be 4 (parseNat! a) ++ be 4 (xorNat tx0 (parseNat! x)) ++ unhex! p
    let cut := parseInt! c
    some (if cut ≥ 0 ∧ cut.toNat < b.length then b.take cut.toNat else b)
  | _ => none

def specs (s : String) : List Bytes :=
  if s = "-" ∨ s = "" then [] else (s.splitOn ";").filterMap buildSpec

def termConnect : Bytes := be 4 0 ++ be 4 tx0 ++ be 8 0x1122334455667788
def termAnnounce : Bytes := be 4 1 ++ be 4 tx0 ++ be 4 1800 ++ be 4 3 ++ be 4 7 ++ [9, 9, 9, 9, 0, 9]

/-- First datagram with ≥ 8 bytes regardless of its transaction id (what a matcher that ignores
the id would take). -/
def firstAny : List Bytes → Option Bytes
  | [] => none
  | d :: r => if d.length ≥ 8 then some d else firstAny r

def showAnnounce : Reply AnnounceReply → String
  | .ok r => s!"ok iv={r.interval} mi=0 peers={showPeers (r.peers.map showPeer)}"
  | .errDecode => "err:decode"
  | .errTracker => "err:tracker"

structure DS where
  connected : Bool := false
  tags : List String := []

def addTag (d : DS) (t : String) : DS := if d.tags.contains t then d else { d with tags := t :: d.tags }

/-- IPv4 literal as `net.ParseIP` accepts it (no leading zeros). -/
def ipv4Literal (s : String) : Bool :=
  let os := s.splitOn "."
  os.length = 4 ∧ os.all fun o =>
    o ≠ "" ∧ o.toList.all Char.isDigit ∧ (o.length = 1 ∨ !o.startsWith "0") ∧ o.toNat?.any (· ≤ 255)

def step (d : DS) (op implObs : String) : DS × String × List String :=
  let toks := words op
  let generic := (if classOK implObs then [] else [s!"C16 reply-unexpected-result obs={implObs.replace " " "_"}"]) ++ implPeersBad implObs
  match toks.head? with
  | some "compact" =>
    let b := unhex! (kvStr toks "b")
    let m := match decodeCompact b with
      | none => "err"
      | some ps => s!"ok peers={showPeers (ps.map showPeer)}"
    (addTag d (if b.length % 6 = 0 then "branch:compact-ok" else "branch:compact-ragged"), m, generic)
  | some "udp" =>
    let fresh := kvBool toks "fresh"
    let connected := d.connected ∧ !fresh
    let cds := specs (kvStr toks "conn") ++ [termConnect]
    let ads := specs (kvStr toks "ann") ++ [termAnnounce]
    let admitBoth (m : String) : String :=
      if m = "err:tracker" ∧ implObs = "err:decode" then implObs else m
    -- connect phase
    let connRes : Reply Nat :=
      if connected then .ok 0 else
      match firstDelivered tx0 cds with
      | some buf => parseConnect buf
      | none => .errDecode
    let d := if !connected then addTag d "branch:udp-connect" else addTag d "branch:udp-reuse-connection"
    match connRes with
    | .errDecode => (addTag { d with connected := false } "branch:udp-connect-err", "err:decode", generic)
    | .errTracker => (addTag { d with connected := false } "branch:udp-connect-erraction", admitBoth "err:tracker", generic)
    | .ok _ =>
      let res := match firstDelivered tx0 ads with
        | some buf => parseAnnounce buf
        | none => .errDecode
      let m := admitBoth (showAnnounce res)
      -- what a matcher that ignored the transaction id / length checks would have produced
      let foreign := match firstAny ads with
        | some buf => showAnnounce (parseAnnounce buf)
        | none => ""
      let viol :=
        if implObs = m then [] else
        if implObs = foreign ∧ ads.any (fun b => decide (txOf b ≠ tx0) && decide (b.length ≥ 8)) then
          ["C16 udp-reply-accepted-for-other-transaction"]
        else if implObs.startsWith "ok" ∧ !m.startsWith "ok" then
          [s!"C16 udp-bad-reply-accepted model={m.replace " " "_"}"]
        else []
      let d := addTag { d with connected := true } (match res with
        | .ok _ => "branch:udp-ok" | .errDecode => "branch:udp-err-decode" | .errTracker => "branch:udp-err-action")
      let d := if (specs (kvStr toks "ann")).any (fun b => txOf b ≠ tx0 ∧ b.length ≥ 8) then addTag (addTag d "branch:udp-foreign-txid") "nontrivial" else d
      let d := if (specs (kvStr toks "ann")).any (fun b => b.length < 8) then addTag d "branch:udp-short" else d
      (d, m, generic ++ viol)
  | some "http" =>
    let limit := kvNat toks "limit"
    let chunked := kvBool toks "chunked"
    let status := kvNat toks "status"
    let kind := kvStr toks "kind"
    let vlen := kvNat toks "vlen"
    let body := unhex! (kvStr toks "body")
    match httpBodyRead limit (if chunked then none else some body.length) body with
    | none =>
      (addTag d "branch:http-too-large", "err:toolarge", generic ++
        (if implObs.startsWith "ok" then ["C16 http-read-beyond-limit"] else []))
    | some data =>
    if kind = "raw" then (addTag d "branch:http-raw", implObs, generic)
    else if data.length < vlen then
      (addTag (addTag d "branch:http-truncated-by-limit") "nontrivial", if status = 200 then "err:decode" else "err:status", generic ++
        (if implObs.startsWith "ok" then ["C16 http-read-beyond-limit"] else []))
    else
    match kind with
    | "fail" => (addTag d "branch:http-failure", "err:tracker", generic)
    | "compact" =>
      let xip := unhex! (kvStr toks "xip")
      let ps := (decodeCompact (unhex! (kvStr toks "pe"))).getD []
      let ps := if xip.isEmpty then ps else ps.filter (fun p => p.ip ≠ xip)
      (addTag d "branch:http-compact", s!"ok iv={kvInt toks "iv"} mi={kvInt toks "mi"} peers={showPeers (ps.map showPeer)}", generic)
    | "dict" =>
      let ents := commaList (kvStr toks "dp")
      let addrs := ents.filterMap fun e =>
        match e.splitOn "|" with
        | [iph, port] =>
          let ip := String.ofList ((unhex! iph).map Char.ofNat)
          if ipv4Literal ip then some s!"{ip}:{port}"
          else if ip.contains ':' then some s!"[{ip}]:{port}"
          else none          -- not an IP literal: the repaired parser skips the entry
        | _ => none
      let d := if ents.length ≠ addrs.length then addTag (addTag d "branch:http-dict-bad-ip") "nontrivial" else d
      (addTag d "branch:http-dict", s!"ok iv={kvInt toks "iv"} mi={kvInt toks "mi"} peers={showPeers addrs}", generic)
    | _ => (d, "bad-kind", generic)
  | _ => (d, "bad-op", [])

/-- `step` on an observation that may carry ` ri=<ns>` (the `RetryIn` of a `*tracker.Error`).  Oracle (C15 pacing
after a failure reply, C16 bounded back-off): the delay the client takes from a failure reply is the one the
tracker asked for, in whole minutes, and never more than a day — whatever digits the reply contains. -/
def stepRi (d : DS) (op implObs : String) : DS × String × List String :=
  let itoks := words implObs
  match itoks.find? (·.startsWith "ri=") with
  | none => step d op implObs
  | some tok =>
    let base := " ".intercalate (itoks.filter (· ≠ tok))
    let (d', m, viol) := step d op base
    let toks := words op
    let ri := (tok.drop 3).toString
    let known := toks.any (·.startsWith "rs=")
    let want := retryInNs (String.ofList ((unhex! (kvStr toks "rs")).map Char.ofNat))
    let inRange := ri = "0" ∨ (ri.toList.all Char.isDigit ∧ 60000000000 ≤ ri.toNat! ∧ ri.toNat! ≤ 86400000000000)
    let v :=
      if known ∧ toks.head? = some "http" ∧ kvStr toks "kind" = "fail" ∧ m = "err:tracker" ∧ ri ≠ toString want then
        [s!"C15 retry-delay-not-what-the-tracker-asked-for got={ri} want={want}", s!"C16 retry-delay-not-what-the-tracker-asked-for got={ri} want={want}"]
      else if !inRange then [s!"C15 retry-delay-out-of-range got={ri}", s!"C16 retry-delay-out-of-range got={ri}"]
      else []
    let d' := if ri ≠ "0" then addTag (addTag d' "branch:retry-in") "nontrivial" else d'
    (d', m ++ " " ++ tok, viol ++ v)

def suite : Suite where
  name := "replies"
  runCase ops :=
    let (st, rs) := foldCase ({} : DS) stepRi ops
    (rs, st.tags.reverse)

end Driver.Suites.Replies
