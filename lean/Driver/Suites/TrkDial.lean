import Driver.Util
/-!
Suite `trkdial` (C18): the real tracker manager announces to an HTTP tracker given by host name while the name's
answers vary (`suite_trkdial.go`).  Oracle only: with the blocklist enabled for trackers the blocked address is never
contacted — the address that was checked against the blocklist is the address that is dialled, whatever the name
server answers to a later question.  The observation is echoed (which allowed address is reached, and whether at all,
depends on the resolver's choice among several records).
-/
namespace Driver.Suites.TrkDial
open Driver

def step (op implObs : String) : String × List String × List String :=
  let it := words implObs
  let toks := words op
  let viol :=
    (if kvNat it "hit3" > 0 then [s!"C18 announce-reached-a-blocked-address ans={kvStr toks "ans"} obs={implObs.replace " " "_"}"] else []) ++
    (if implObs.startsWith "error:" then [] else
      if kvStr it "res" = "ok" ∧ kvNat it "hit2" = 0 ∧ kvNat it "hit3" = 0 then ["C18 announce-answered-by-nobody"] else [])
  let tags := (if (kvStr toks "ans").contains ';' then ["branch:answers-change", "nontrivial"] else []) ++
    (if (kvStr toks "ans").contains '+' then ["branch:several-records", "nontrivial"] else []) ++
    (if kvStr it "res" = "blocked" then ["branch:refused-as-blocked"] else [])
  (implObs, viol, tags)

def suite : Suite where
  name := "trkdial"
  runCase ops :=
    let rs := ops.map fun (op, obs) => step op obs
    (rs.map fun (o, v, _) => (o, v), (rs.flatMap fun (_, _, t) => t).eraseDups)

end Driver.Suites.TrkDial
