import Driver.Util
import RainModel.Model.Registry
/-!
Suite `registry` (C14): op sequences against a real `torrent.Session`; see
`harness/overlay/internal/verifharness/suite_registry.go` for the op and observation grammar.

The driver replays every op on `Rain.Registry` (taking the port and the uuid the implementation
chose as the choices of the step, after checking that they are admissible), prints the model's view
in the harness's format, and evaluates the C14 predicates (`portConservation`, `idsUnique`,
`registryEqDb`, `restartEquiv`, `compactEquiv` — the definitions the theorems are about) on the
implementation's observation.
-/
namespace Driver.Suites.Registry
open Driver Rain.Registry

/-- Driver-side state: the model plus bookkeeping of the harness environment. -/
structure DS where
  st : Option State := none
  resume : Bool := true
  addIds : List String := []              -- id produced by the k-th add op ("" = failed)
  junk : List String := []                -- plain keys planted in the torrents bucket (make Write fail)
  junkSeen : Bool := false                -- a session was opened after planting: they are "invalid ids"
  lastCompact : Option (List (String × Fields)) := none
  prevImpl : Option Obs := none           -- previous implementation observation (for restart checks)
  implCompact : Option (List (String × Fields)) := none
  implAtCompact : Option Obs := none      -- the implementation's observation when `compact` ran
  np : List (String × Nat) := []          -- number of pieces of the torrents added from a .torrent
  spoiled : List String := []             -- ids whose stored record was damaged (it fails to load for ever)
  maxPieces : Nat := 0                    -- Config.MaxPieces of the running session (0 = default)
  taint : List String := []               -- the history left the tame ones: "reload" (F07)

def splitOnStr (s sep : String) : List String := s.splitOn sep

def plusList (s : String) : List String := if s = "" ∨ s = "-" then [] else s.splitOn "+"
def showPlus (l : List String) : String := if l.isEmpty then "-" else "+".intercalate l

def strLe (a b : String) : Bool := !(b < a)
def sortStr (l : List String) : List String := l.mergeSort strLe

def parseTiers (s : String) : List (List String) :=
  if s = "" ∨ s = "-" then [] else (s.splitOn "/").map plusList
def showTiers (t : List (List String)) : String :=
  if t.isEmpty then "-" else "/".intercalate (t.map showPlus)
def sortTiers (t : List (List String)) : List (List String) := t.map sortStr

def b01 (b : Bool) : String := if b then "1" else "0"

def showLive (t : Torrent) : String :=
  ",".intercalate [t.id, t.f.infoHash, t.f.name, toString t.f.port, b01 t.f.started,
    showTiers (sortTiers t.f.trackers), showPlus t.f.webseeds, showPlus t.f.fixedPeers, b01 t.f.hasInfo,
    b01 t.f.sad, b01 t.f.sam, b01 t.f.seq, b01 t.f.ccr,
    toString t.f.cnt.dl, toString t.f.cnt.ul, toString t.f.cnt.wasted, toString t.f.cnt.seeded]

def showRec (e : String × Fields) : String :=
  let f := e.2
  ",".intercalate [e.1, f.infoHash, f.name, toString f.port, b01 f.started,
    showTiers f.trackers, showPlus f.webseeds, showPlus f.fixedPeers, b01 f.hasInfo,
    b01 f.sad, b01 f.sam, b01 f.seq, b01 f.ccr,
    toString f.cnt.dl, toString f.cnt.ul, toString f.cnt.wasted, toString f.cnt.seeded, "3"]

def joinSemi (l : List String) : String := if l.isEmpty then "-" else ";".intercalate l

def showDb (db : List (String × Fields)) (junk : List String) : String :=
  joinSemi (sortStr (db.map showRec ++ junk.map (· ++ ",notabucket")))

def showState (d : DS) (s : State) : String :=
  let free := showNatList (s.free.mergeSort (· ≤ ·))
  let live := joinSemi (sortStr (s.reg.map showLive))
  let idx := sortStr (s.idx.map fun p => p.1 ++ ":" ++ p.2)
  let inv := sortStr (s.invalid ++ (if d.junkSeen then d.junk else []))
  s!"F={free} | T={live} | D={showDb (s.db ++ s.dead) d.junk} | X={if idx.isEmpty then "-" else ",".intercalate idx} | I={if inv.isEmpty then "-" else ",".intercalate inv}"

/-! Parsing the implementation's observation. -/

def nth (l : List String) (i : Nat) : String := l.getD i ""

def parseFieldsAt (p : List String) (k : Nat) : Fields :=
  { infoHash := nth p (k), name := nth p (k+1), port := parseNat! (nth p (k+2)), started := nth p (k+3) = "1",
    trackers := sortTiers (parseTiers (nth p (k+4))), webseeds := plusList (nth p (k+5)), fixedPeers := plusList (nth p (k+6)),
    hasInfo := nth p (k+7) = "1", sad := nth p (k+8) = "1", sam := nth p (k+9) = "1", seq := nth p (k+10) = "1",
    ccr := nth p (k+11) = "1",
    cnt := ⟨parseNat! (nth p (k+12)), parseNat! (nth p (k+13)), parseNat! (nth p (k+14)), parseNat! (nth p (k+15))⟩ }

def parseRecs (s : String) : List (String × Fields) :=
  if s = "-" ∨ s = "" then [] else
  (s.splitOn ";").filterMap fun r =>
    let p := r.splitOn ","
    if nth p 1 = "notabucket" then none else some (nth p 0, parseFieldsAt p 1)

/-- Sections `F= T= D= X= I=` of an observation (after the result part). -/
def section? (parts : List String) (key : String) : Option String :=
  parts.findSome? fun p => if p.startsWith (key ++ "=") then some (p.drop (key.length + 1)).toString else none

def parseObs (lo hi : Nat) (obs : String) (junk : List String := []) : Option (String × Obs) :=
  let parts := (obs.splitOn " | ")
  match parts with
  | res :: rest =>
    match section? rest "F", section? rest "T", section? rest "D", section? rest "X" with
    | some f, some t, some d, some x =>
      let live := (parseRecs t).map fun e => (⟨e.1, e.2⟩ : Torrent)
      let idx := (commaList x).map fun p => match p.splitOn ":" with
        | [a, b] => (a, b)
        | _ => (p, "")
      let inv := ((section? rest "I").map commaList).getD []
      some (res, ⟨lo, hi, natList f, live, parseRecs d, idx, inv.filter (fun i => !junk.contains i)⟩)
    | _, _, _, _ => none
  | [] => none

/-- The C14 invariants on one observation `o` of the implementation.  `m` is the model's state seen the
same way and `taint` says whether the history has left the tame ones: a failure that the model shows
as well in such a history is the recorded finding (F07) and is named after it. -/
def invViolations (o : Obs) (m : Obs) (taint : List String) : List String :=
  let detail := s!"free={showNatList o.free} owned={showNatList (o.live.map (·.f.port))} range={o.lo}..{o.hi}"
  (if portConservation o then []
   else if taint.contains "reload" ∧ !portConservation m then [s!"C14 known-F07-reloaded-record-shares-port {detail}"]
   else if !(lostPorts o).isEmpty then [s!"C14 port-neither-free-nor-owned ports={showNatList (lostPorts o)} {detail}"]
   else [s!"C14 port-conservation {detail}"]) ++
  (if idsUnique o then [] else ["C14 ids-or-index-inconsistent"]) ++
  (if registryEqDb o then []
   else
    let kind :=
      if !((o.db.map (·.1)).isPerm (o.live.map (·.id) ++ o.invalid.filter (fun i => !(o.live.map (·.id)).contains i))) then "id-sets-differ"
      else "fields-differ"
    [s!"C14 registry-ne-db-{kind}"])

def metaOf (toks : List String) : Meta :=
  let kind := kvStr toks "kind"
  { infoHash := kvStr toks "ih", name := (let n := kvStr toks "name"; if n = "-" then "-" else n),
    trackers := parseTiers (kvStr toks "trk"), webseeds := plusList (kvStr toks "ws"),
    fixedPeers := plusList (kvStr toks "pe"), hasInfo := kind = "t" }

def optsOf (toks : List String) : Opts :=
  let id := kvStr toks "id"
  { id := if id = "-" ∨ id = "" then none else some id, stopped := kvBool toks "stopped",
    sad := kvBool toks "sad", sam := kvBool toks "sam", seq := kvBool toks "seq" }

def refId (d : DS) (k : Nat) : String :=
  match d.addIds.getD (k - 1) "" with
  | "" => s!"absent-{k}"
  | id => if k = 0 then "absent-0" else id

def errStr : AddErr → String
  | .noport => "err:noport" | .dup => "err:dup" | .storage => "err:storage" | .build => "err:build"
  | .write => "err:write" | .badChoice => "inadmissible" | .notPending => "err:notpending"

/-- `ok id=… port=…` → (id, port). -/
def parseAddOk (res : String) : Option (String × Nat) :=
  let toks := words res
  if toks.head? = some "ok" then some (kvStr toks "id", kvNat toks "port") else none

def kindTag (f : Fields) : String := if f.hasInfo then "torrent" else "magnet"

/-- One op.  Returns the new driver state, the model's observation, oracle violations, tags. -/
def stepOp (d : DS) (op implObs : String) : DS × String × List String × List String :=
  let toks := words op
  let name := toks.headD ""
  match name, d.st with
  | "open", _ =>
    let lo := kvNat toks "lo"; let hi := kvNat toks "hi"; let resume := kvBool toks "resume"
    let plant := commaList (kvStr toks "plant")
    let s' := match d.st with
      | none => init lo hi
      | some s => reopen { s with lo := lo, hi := hi } resume (d.spoiled.filter (fun i => (s.bucket.map (·.1)).contains i))
    let d' := { d with st := some s', resume := resume, junkSeen := !d.junk.isEmpty,
                       junk := (d.junk ++ plant).eraseDups, maxPieces := 0 }
    let (viol, d'') := match parseObs lo hi implObs d'.junk with
      | some (_, o) => (invViolations o (observe s') d.taint, { d' with prevImpl := some o })
      | none => (["C14 unparsable-observation"], d')
    (d'', "ok | " ++ showState d' s', viol, ["branch:open"])
  | _, none => (d, "nosession", [], [])
  | _, some s =>
    let finish := fun (d' : DS) (s' : State) (res : String) (extraViol : List String) (tags : List String) =>
      let d1 := { d' with st := some s' }
      let (viol, d2) := match parseObs s'.lo s'.hi implObs d1.junk with
        | some (_, o) => (invViolations o (observe s') d1.taint, { d1 with prevImpl := some o })
        | none => ([if implObs.startsWith "panic:close" then "C14 updateStats-nil-bucket-on-close"
                    else if implObs.startsWith "panic:nilderef" then "C14 updateStats-nil-bucket" else "C14 unparsable-observation"], d1)
      -- the harness marks a live torrent whose in-memory info dictionary no longer hashes to its info-hash
      let rot := if (implObs.splitOn "INFOROT").length ≥ 2 then ["C14 info-dictionary-corrupted-in-memory"] else []
      (d2, res ++ " | " ++ showState d1 s', extraViol ++ viol ++ rot, tags)
    let implRes := (implObs.splitOn " | ").headD ""
    match name with
    | "add" =>
      let kind := kvStr toks "kind"
      let npieces := if kind = "t" then max 1 (kvNat toks "np") else 0
      if kind = "bad" ∨ kind = "baduri" ∨ kind = "oversize" ∨ (d.maxPieces > 0 ∧ npieces > d.maxPieces) then
        finish { d with addIds := d.addIds ++ [""] } s "err:input"
          (if kind = "oversize" ∧ implRes.startsWith "ok" then ["C06 torrent-over-size-limit-accepted"] else [])
          ["branch:add-input-error", "rejected"]
      else
        let m := metaOf toks
        let o := optsOf toks
        let idTok := (o.id.getD "")
        let env : Env := { stoFail := idTok.startsWith "nosto", writeFail := idTok ∈ d.junk }
        let (p, gen) := match parseAddOk implRes with
          | some (id, port) => (port, id)
          | none => (s.free.headD 0, "model-generated-id")
        -- an explicit id that is listed as invalid (finding F08, fixed: the insert takes it off the list)
        let reused := match o.id with
          | some i => s.invalid.contains i
          | none => false
        match addSeq s m o p gen env with
        | (s', .ok id) =>
          -- `resumer.Write` puts every key: a damaged record of the same id is whole again
          finish { d with addIds := d.addIds ++ [id], np := (id, npieces) :: d.np.filter (fun e => e.1 != id),
                          spoiled := d.spoiled.filter (· != id) } s' s!"ok id={id} port={p}" []
            (["branch:add-ok", "accepted", s!"branch:add-{if m.hasInfo then "torrent" else "magnet"}"] ++
             (if reused then ["branch:add-under-invalid-id"] else []) ++ (if npieces > 1 then ["branch:add-multi-piece"] else []))
        | (s', .error e) =>
          finish { d with addIds := d.addIds ++ [""] } s' (errStr e) [] [s!"branch:add-{errStr e}", "rejected"]
    | "cadd" =>
      -- n callers add with the same explicit id at once: exactly one of them may succeed (none if the id
      -- is taken or no port is free); the port is the one the implementation's registry shows for the id
      let m := metaOf toks
      let o := optsOf toks
      let n := kvNat toks "n"
      let id := o.id.getD ""
      let implPort := match parseObs s.lo s.hi implObs with
        | some (_, io) => ((io.live.find? (fun t => t.id == id)).map (·.f.port)).getD (s.free.headD 0)
        | none => s.free.headD 0
      let itoks := words implRes
      let dupViol := if kvNat itoks "ok" > 1 then [s!"C14 concurrent-duplicate-id ok={kvNat itoks "ok"}"] else []
      match addSeq s m o implPort "" {} with
      | (s', .ok id') =>
        finish { d with addIds := d.addIds ++ [id'] } s' s!"ok=1 fail={n - 1}" dupViol ["branch:cadd-one-wins", "accepted", "rejected"]
      | (s', .error _) =>
        finish { d with addIds := d.addIds ++ [""] } s' s!"ok=0 fail={n}" dupViol ["branch:cadd-all-rejected", "rejected"]
    | "remove" =>
      let id := refId d (kvNat toks "t")
      finish d (remove s id) "ok" [] [if id ∈ s.regIds then "branch:remove-live" else "branch:remove-absent"]
    | "removeheld" =>
      -- an add that arrives while torrent t is being removed (its registry entry is gone, the torrent itself not yet
      -- closed): the port of t is not free yet. The generator uses this only when no port is free.
      let id := refId d (kvNat toks "t")
      if !s.free.isEmpty ∨ id ∉ s.regIds then finish { d with addIds := d.addIds ++ [""] } s "skipped" [] []
      else
        let v := if implRes.startsWith "ok" then
            [s!"C14 port-handed-out-while-its-owner-is-still-live port={kvNat (words implRes) "port"}"] else []
        finish { d with addIds := d.addIds ++ [""] } (remove s id) "err:noport" v ["branch:add-during-removal", "rejected"]
    | "start" =>
      let id := refId d (kvNat toks "t")
      if id ∈ s.regIds then finish d (start s id) "ok" [] ["branch:start"] else finish d s "absent" [] ["branch:absent"]
    | "stop" =>
      let id := refId d (kvNat toks "t")
      -- C14: the started flag of the stored record is the one set by the last Start/Stop — whatever the status of
      -- the torrent was when the command came (a torrent loaded without resuming is stopped with a record that
      -- says started)
      let rec? := match parseObs s.lo s.hi implObs d.junk with
        | some (_, o) => dbGet o.db id
        | none => none
      let v := match rec? with
        | some r => if r.started then [s!"C14 stop-not-recorded id={id}"] else []
        | none => []
      if id ∈ s.regIds then finish d (stop s id) "ok" v ["branch:stop"] else finish d s "absent" [] ["branch:absent"]
    | "addtracker" =>
      let id := refId d (kvNat toks "t")
      let url := kvStr toks "url"
      if id ∉ s.regIds then finish d s "absent" [] ["branch:absent"]
      else if url.startsWith "bad" then finish d s "err:tracker" [] ["branch:addtracker-rejected"]
      else finish d (addTracker s id url) "ok" [] ["branch:addtracker"]
    | "bump" =>
      let id := refId d (kvNat toks "t")
      if id ∉ s.regIds then finish d s "absent" [] ["branch:absent"]
      else finish d (bump s id ⟨kvNat toks "dl", kvNat toks "ul", kvNat toks "wa", kvNat toks "se"⟩) "ok" [] ["branch:bump"]
    | "flush" =>
      -- `updateStats` dereferences the bucket of every registered torrent without a nil check
      if updateStatsPanics s then
        finish d s "panic:nilderef"
          ["C14 updateStats-nil-bucket"] ["branch:flush-panics"]
      else finish d (updateStats s) "ok" [] ["branch:flush"]
    | "clean" =>
      -- CleanDatabase: a planted plain key is listed as invalid too and makes DeleteBucket fail (nothing is deleted)
      if d.junkSeen ∧ !d.junk.isEmpty then finish d s "err:clean" [] ["branch:clean-fails-on-plain-key"]
      else
        match clean s with
        | (s', true) => finish { d with spoiled := d.spoiled.filter (fun i => (s'.bucket.map (·.1)).contains i) } s' "ok" []
            [if s.invalid.isEmpty then "branch:clean-nothing" else "branch:clean-removes-failed-records"]
        | (_, false) => finish d s "err:clean" [] ["branch:clean-missing-bucket"]
    | "bfcheck" =>
      -- oracle only (bitfields are not part of the registry model): a torrent without a bitfield before and after
      -- the last compaction has none in the compacted database
      finish d s "bf=same" (if implRes = "bf=same" then [] else [s!"C14 compact-invents-bitfield {implRes}"]) ["branch:bfcheck"]
    | "compact" =>
      let c := (compact s).getD []
      -- oracle on the implementation's result
      let (cviol, implC) :=
        if implRes.startsWith "ok C=" then
          let ic := parseRecs (implRes.drop 5).toString
          match d.prevImpl with
          | some o =>
            -- compact does not change the session: the previous observation is the current one
            (if compactEquiv o ic then [] else
              let kind :=
                if !((ic.map (·.1)).isPerm ((o.live.filter (·.f.hasInfo)).map (·.id))) then "id-set"
                else if (o.live.filter (·.f.hasInfo)).any (fun t => match dbGet ic t.id, dbGet o.db t.id with
                    | some rc, some r => rc.trackers != r.trackers || rc.webseeds != r.webseeds
                    | _, _ => false) then "trackers-or-webseeds-lost"
                else if (o.live.filter (·.f.hasInfo)).any (fun t => match dbGet ic t.id, dbGet o.db t.id with
                    | some rc, some r => rc.started != r.started
                    | _, _ => false) then "started-flag"
                else "fields"
              [s!"C14 compact-mismatch-{kind}"], some ic)
          | none => ([], some ic)
        else if implRes.startsWith "panic" then ([s!"C14 compact-panic-{(implRes.drop 6).toString}"], none)
        else ([s!"C14 compact-failed res={implRes}"], none)
      let anyNoInfo := s.reg.any (fun t => !t.f.hasInfo)
      finish { d with lastCompact := some c, implCompact := implC, implAtCompact := d.prevImpl } s ("ok C=" ++ showDb c []) cviol
        (["branch:compact"] ++ (if anyNoInfo then ["branch:compact-skips-magnet"] else []) ++
         (if s.reg.any (fun t => t.f.hasInfo ∧ !t.f.started) then ["branch:compact-never-started"] else []))
    | "swap" =>
      match d.lastCompact with
      | none => finish d s "nocompact" [] ["branch:swap-nocompact"]
      | some c =>
        if updateStatsPanics s then
          ({ d with st := none }, "panic:close | nosession",
            ["C14 updateStats-nil-bucket"], ["branch:close-panics"])
        else
        let resume := kvBool toks "resume"
        let s' := openOn s.lo s.hi resume c
        -- oracle: the implementation's session after the swap is the restart of (live-with-metadata, compacted db)
        let rviol := match d.implAtCompact, d.implCompact, parseObs s.lo s.hi implObs with
          | some o, some ic, some (_, o') =>
            let before : Obs := { o with live := o.live.filter (fun t => (dbGet ic t.id).isSome), db := ic }
            -- counters/started of the compacted record are what must come back
            let before' : Obs := { before with live := before.live.map fun t => match dbGet ic t.id with
              | some r => { t with f := { t.f with cnt := r.cnt } }
              | none => t }
            if restartEquiv resume [] before' o' then [] else ["C14 restart-mismatch-after-swap"]
          | _, _, _ => []
        finish { d with lastCompact := none, implCompact := none, resume := resume, junkSeen := false, junk := [],
                        spoiled := [], maxPieces := 0 } s' "ok" rviol ["branch:swap", "restart"]
    | "reopen" =>
      if updateStatsPanics s then
        ({ d with st := none }, "panic:close | nosession",
          ["C14 updateStats-nil-bucket"], ["branch:close-panics"])
      else
      let resume := kvBool toks "resume"
      let bucket := s.db ++ s.dead
      let bids := bucket.map (·.1)
      -- records damaged while the session is closed: `<k>:<how>`; a record without info bytes gets how=infohash
      let spoil : List (String × String) := (commaList (kvStr toks "spoil")).filterMap fun sp =>
        match sp.splitOn ":" with
        | [k, how] =>
          let id := refId d (parseNat! k)
          match dbGet bucket id with
          | some r =>
            -- `straybf`: a bitfield in a record without metadata is ignored (the record loads); with metadata it is
            -- the `bitfield` damage
            if how = "straybf" then (if r.hasInfo then some (id, "bitfield") else none)
            else some (id, if r.hasInfo then how else "infohash")
          | none => none
        | _ => none
      let mp := kvNat toks "maxpieces"
      let tooBig := if mp = 0 then [] else
        (bucket.filter fun e => e.2.hasInfo ∧ ((d.np.find? (fun x => x.1 == e.1)).map (·.2)).getD 1 > mp).map (·.1)
      let stof := ((commaList (kvStr toks "stofail")).map fun k => refId d (parseNat! k)).filter (fun i => bids.contains i)
      let spoiled := (d.spoiled ++ spoil.map (·.1)).eraseDups.filter (fun i => bids.contains i)
      let bad := (spoiled ++ tooBig ++ stof).eraseDups
      let untamed := !tame s (.reopen resume bad)
      let d := if untamed then { d with taint := (d.taint ++ ["reload"]).eraseDups } else d
      let s1 := reopen s resume bad
      -- the 19-byte info-hash is visible in the stored record
      let s' := spoil.foldl (fun st sp => if sp.2 = "infohash" then
          tamper st sp.1 ((((dbGet bucket sp.1).map (·.infoHash)).getD "").take 38).toString else st) s1
      let rviol := match d.prevImpl, parseObs s.lo s.hi implObs d.junk with
        | some o, some (_, o0) =>
          -- a record that did not load before and loads now (its failure was transient) is a torrent the previous
          -- session did not have: that is no mismatch (a clash of its port is reported by port conservation)
          -- the restart is judged without these torrents (their ports count as free)
          let reloaded := o0.live.filter fun t => o.invalid.contains t.id && !(o.live.map (·.id)).contains t.id
          -- a port that two live torrents shared before the restart (finding F07, reported when it arose) is still
          -- owned by the other one when the record of one of them fails: it cannot be demanded free
          let shared := (o.live.filter fun t => (o.live.filter fun u => u.f.port = t.f.port).length ≥ 2).map (·.f.port)
          let o' := { o0 with live := o0.live.filter (fun t => !reloaded.contains t),
                              free := o0.free ++ reloaded.map (·.f.port) ++ shared }
          if restartEquiv resume bad o o' then []
          else
            -- which clause failed: the torrents whose record does not load, or the others
            let failedOk := o.live.all fun t => !bad.contains t.id ||
              ((regGet o'.live t.id).isNone && o'.invalid.contains t.id && (dbGet o'.db t.id).isSome && o'.free.contains t.f.port)
            if failedOk then ["C14 restart-mismatch-after-reopen"]
            else [s!"C14 failed-load-not-isolated bad={",".intercalate bad}"]
        | _, _ => []
      let liveBad := s.reg.any (fun t => bad.contains t.id)
      finish { d with resume := resume, junkSeen := !d.junk.isEmpty, lastCompact := d.lastCompact, spoiled := spoiled, maxPieces := mp } s' "ok" rviol
        (["branch:reopen", "restart"] ++ (if s.reg.any (·.f.started) then ["branch:reopen-with-started"] else []) ++
         (if s.reg.any (fun t => t.f.cnt.dl + t.f.cnt.ul + t.f.cnt.seeded > 0) then ["branch:reopen-with-counters"] else []) ++
         (if liveBad then ["branch:reopen-record-fails-to-load", "failedload"] else []) ++
         (spoil.map fun sp => s!"branch:failed-load-{sp.2}") ++
         (if !tooBig.isEmpty then ["branch:failed-load-maxpieces"] else []) ++
         (if !stof.isEmpty then ["branch:failed-load-storage"] else []) ++
         (if !s.dead.isEmpty ∧ !untamed then ["branch:reopen-failed-record-fails-again"] else []) ++
         (if untamed then ["branch:untamed-failed-record-loads-later"] else []))
    | _ => finish d s "err:badop" [] []

def suite : Suite where
  name := "registry"
  runCase ops :=
    let (_, rs, tags) := ops.foldl
      (fun (acc : DS × List (String × List String) × List String) (o : String × String) =>
        let (d, rs, tags) := acc
        let (d', obs, viol, t) := stepOp d o.1 o.2
        -- no stored record, description or call sequence crashes the client (the harness turns a Go panic of the
        -- calling goroutine into this observation; it reports it for every op of the case: judged once)
        -- C13: the magnet link a torrent exports names the tracker tiers the torrent has (the harness marks a difference)
        let exp := if (o.2.splitOn "!export").length ≥ 2 then
            ["C13 exported-magnet-tiers-differ-from-the-torrent's", "C14 exported-magnet-tiers-differ-from-the-torrent's"] else []
        let crash := exp ++ if o.2.startsWith "panic:" && rs.isEmpty then
            [s!"C06 client-crashed obs={(o.2.take 120).toString.replace " " "_"}", s!"C14 client-crashed obs={(o.2.take 120).toString.replace " " "_"}"] else []
        (d', (obs, viol ++ crash) :: rs, tags ++ t)) ({}, [], [])
    let tags := tags.eraseDups
    -- non-trivial: an accepted add and a restart, with a rejected add or a record of a live torrent that fails to load
    let nt := if tags.contains "accepted" ∧ tags.contains "restart" ∧ (tags.contains "rejected" ∨ tags.contains "failedload") then ["nontrivial"] else []
    (rs.reverse, (tags.filter (fun t => t.startsWith "branch:")) ++ nt)

/-- Same driver; the harness generator issues `cadd` ops (concurrent callers with one explicit id). -/
def suiteConcurrent : Suite := { suite with name := "registry-concurrent" }

end Driver.Suites.Registry
