import Driver.Util
import RainModel.Model.UdpShared
/-!
Suite `udpshared` (C16, C15): several announce calls share one real `udptracker.Transport`; scripted
UDP trackers on loopback.  Ops and observations: see `suite_udpshared.go`.

  `ann r= t= d= ev=` · `cancel r=` · `reply x=<c<d>|a<r>>:<kind>,…` · `wait` · `close`
  `pstart t= d=` · `pcomplete` · `pclose`   (one real `PeriodicalAnnouncer`, its calls are 100, 101, …)
  → `done=<r>:<class>,… rx=<c<d>.<k>|a<r>.<k>:<ev>>,… rtx=<n> cn=<n> [nt=<n>] [pc=<r>,…]`

The periodical announcer is a small automaton on top of the transport model: `pstart` announces
`started`; a good reply makes it idle (the replies carry intervals ≥ 1000 s); every other outcome it
did not cause itself (error reply, failed connect, `context.Canceled` from a connect another call
had opened) makes it announce again (event `none`) after its back-off, within the same op;
`pcomplete` cancels an announce in flight and announces `completed` (once); `pclose` / `close`
cancel and stop.

The model (`Rain.UdpShared.step`) is run on the same messages; transaction ids are the model's
counter (the implementation's random ids never appear in an observation).  The observation is
predicted exactly.

Oracles on the implementation's observation (only up to and including the first op in which the
implementation leaves the model — afterwards the two states are not comparable; a difference in `rtx`
alone does not count as leaving):
* `C16 announce-never-answered`   a call whose fate was decided in this op (its transaction was
  answered, its connect failed or was aborted, the transport closed) and that its own caller did not
  cancel has not returned within the bound;
* `C16 reply-accepted-for-other-transaction`   a call returned reply bytes although no datagram of
  this op carried its transaction id, or it returned the payload written for another call;
* `C16 destination-stuck-connecting`   an announce for a destination without connection (the last
  connect failed or was aborted) did not make the tracker receive a new connect request;
* `C15 answered-announce-retransmitted`   evidence=wire: the tracker received another copy of an
  announce it had answered (with the event it carried — `started` / `completed` reach the tracker
  twice); evidence=scheduled: more retransmission goroutines are alive than there are unanswered
  transactions plus answered connect transactions, i.e. an answered announce is still scheduled;
* `C16 unexpected-result`   result outside the known classes (recovered panic, unknown error).
* `C16 announce-not-retried`   the periodical announcer did not start the announce that has to follow
  an announce that ended without a reply;
* `C15 event-discipline`   announces of the periodical announcer as the tracker receives them: the
  first says `started`, no later one does, `completed` at most once.
-/
namespace Driver.Suites.UdpShared
open Driver Rain.UdpShared

def lookupNat (l : List (Nat × Nat)) (k : Nat) : Option Nat := (l.find? (·.1 = k)).map (·.2)
def setNat (l : List (Nat × Nat)) (k v : Nat) : List (Nat × Nat) := (k, v) :: l.filter (·.1 ≠ k)

structure DS where
  m : State := State.init
  connTx : List (Nat × Nat) := []       -- destination → connect transaction last seen by the tracker
  annTx : List (Nat × Nat) := []        -- call → announce transaction (once a datagram was sent)
  sends : List (Nat × Nat) := []        -- transaction → datagrams sent so far
  evs : List (Nat × String) := []       -- call → event
  dests : List Nat := []
  answeredAnn : List Nat := []          -- calls whose announce transaction a datagram has answered
  answeredConn : List Nat := []         -- openers of connect transactions a datagram has answered
  waited : Bool := false
  off : Bool := false
  shared : Bool := false                -- some call has waited behind another call's connect
  pState : Nat := 0                     -- periodical announcer: 0 none, 1 contacting, 2 idle, 3 closed
  pT : Nat := 0
  pD : Nat := 0
  pCur : Nat := 0
  pK : Nat := 0
  pDone : Bool := false                 -- `completed` has been announced
  pCompletedSeen : Nat := 0             -- `completed` announces of the periodical announcer seen by the tracker
  tags : List String := []

def addTag (d : DS) (t : String) : DS := if d.tags.contains t then d else { d with tags := t :: d.tags }

def strLe (a b : String) : Bool := !(b < a)

def evOK (e : String) : Bool := e = "none" ∨ e = "completed" ∨ e = "started" ∨ e = "stopped"

def classOf (r : Nat) (own : Bool) : Res → String
  | .reply _ .good => s!"ok/{1000 + r}/{r % 3 + 1}/10.9.{r % 250}.0:7000"
  | .reply _ .errAction => "tracker"
  | .reply _ _ => "decode"
  | .canceled => if own then "cancelled" else "fcancel"
  | .connectFailed .wrongAction => "badconn"
  | .connectFailed .header => "eof"
  | .connectFailed .errAction => "tracker"
  | .connectFailed .errGarbage => "decode"
  | .connectFailed .good => "?"
  | .closed => "closed"

def unknownTx : Nat := 1000000007

/-- One reply element → datagrams (model messages); `none` = no such target / kind. -/
def element (d : DS) (e : String) : Option (List In) :=
  match e.splitOn ":" with
  | [tgt, kind] =>
    if tgt.length < 2 then none else
    let id := parseNat! (tgt.drop 1).toString
    let tx? : Option Nat :=
      if tgt.startsWith "c" then lookupNat d.connTx id
      else if tgt.startsWith "a" then lookupNat d.annTx id
      else none
    match tx? with
    | none => none
    | some tx =>
      match kind with
      | "ok" => some [.dgram (some tx) .good]
      | "dup" => some [.dgram (some tx) .good, .dgram (some tx) .good]
      | "wtx" => some [.dgram (some unknownTx) .good]
      | "wact" => some [.dgram (some tx) .wrongAction]
      | "hdr" => some [.dgram (some tx) .header]
      | "err" => some [.dgram (some tx) .errAction]
      | "errg" => some [.dgram (some tx) .errGarbage]
      | "short" => some [.dgram none .good]
      | _ => none
  | _ => none

/-- Run messages one by one, labelling what becomes visible. -/
def feed (d : DS) (ins : List In) : DS × List (Nat × String) × List String :=
  ins.foldl (fun (acc : DS × List (Nat × String) × List String) i =>
    let (d, done, rx) := acc
    -- bookkeeping for the retransmission oracle: which transactions does this datagram answer?
    let d := match i with
      | .dgram (some tx) _ =>
        match d.m.txs tx with
        | some ⟨.announce r, _⟩ => { d with answeredAnn := r :: d.answeredAnn }
        | some ⟨.connect dd, _⟩ =>
          match d.m.conns dd with
          | some (.connecting _ o _) => { d with answeredConn := o :: d.answeredConn }
          | _ => d
        | none => d
      | _ => d
    let (m', outs) := step d.m i
    let d := { d with m := m' }
    outs.foldl (fun (acc : DS × List (Nat × String) × List String) o =>
      let (d, done, rx) := acc
      match o with
      | .deliver r res =>
        let own := match d.m.reqs r with | some q => q.cancelled | none => false
        (d, done ++ [(r, classOf r own res)], rx)
      | .send tx k =>
        let n := (lookupNat d.sends tx).getD 0 + 1
        let d := { d with sends := setNat d.sends tx n }
        match k with
        | .connect dd => ({ d with connTx := setNat d.connTx dd tx }, done, rx ++ [s!"c{dd}.{n}"])
        | .announce r =>
          let ev := ((d.evs.find? (·.1 = r)).map (·.2)).getD "?"
          ({ d with annTx := setNat d.annTx r tx }, done, rx ++ [s!"a{r}.{n}:{ev}"]))
      (d, done, rx)) (d, [], [])

def connectingCount (d : DS) : Nat :=
  (d.dests.filter fun dd => match d.m.conns dd with | some (.connecting ..) => true | _ => false).length

/-- The announcer starts a call (ids 100, 101, …). -/
def pCall (d : DS) (ev : String) : DS × List (Nat × String) × List String × Nat :=
  let r := 100 + d.pK
  let d := { d with evs := (r, ev) :: d.evs, pCur := r, pK := d.pK + 1, pState := 1 }
  let queues := match d.m.conns d.pD with | some (.connecting ..) => true | _ => false
  let d := if queues then { d with shared := true } else d
  let (d, done, rx) := feed d [.request r d.pD]
  (d, done, rx, r)

/-- After the messages of an op: while the announcer's current call has ended without a reply (and
not by the announcer's own cancellation) it announces again. -/
def pSettle : Nat → DS → List (Nat × String) → List String → List Nat → DS × List (Nat × String) × List String × List Nat
  | 0, d, done, rx, pcs => (d, done, rx, pcs)
  | fuel + 1, d, done, rx, pcs =>
    if d.pState ≠ 1 then (d, done, rx, pcs) else
    match d.m.reqs d.pCur with
    | some q =>
      match q.result with
      | none => (d, done, rx, pcs)
      | some (.reply _ .good) => ({ d with pState := 2 }, done, rx, pcs)
      | some res =>
        if q.cancelled then (d, done, rx, pcs) else
        let d := addTag d (if res = .canceled then "branch:periodic-retry-after-foreign-cancel" else "branch:periodic-retry-after-error")
        let d := if res = .canceled then addTag d "nontrivial" else d
        let (d, done', rx', r) := pCall d "none"
        pSettle fuel d (done ++ done') (rx ++ rx') (pcs ++ [r])
    | none => (d, done, rx, pcs)

def render (d : DS) (done : List (Nat × String)) (rx : List String) (nt : Nat) : String :=
  let done := done.mergeSort (fun a b => a.1 ≤ b.1)
  let rx := rx.mergeSort strLe
  let ds := if done.isEmpty then "-" else ",".intercalate (done.map fun p => s!"{p.1}:{p.2}")
  let rs := if rx.isEmpty then "-" else ",".intercalate rx
  s!"done={ds} rx={rs} rtx={liveCount d.m.txs d.m.nextTx} cn={connectingCount d}" ++ (if nt > 0 then s!" nt={nt}" else "")

/-- `r:class` entries of the implementation's `done=` field. -/
def implDone (toks : List String) : List (Nat × String) :=
  (commaList (kvStr toks "done")).filterMap fun e =>
    match e.splitOn ":" with
    | r :: rest => some (parseNat! r, ":".intercalate rest)
    | _ => none

def isReplyClass (c : String) : Bool := c.startsWith "ok/" ∨ c = "decode" ∨ c = "tracker"

def knownClass (c : String) : Bool :=
  c.startsWith "ok/" ∨ c = "cancelled" ∨ c = "fcancel" ∨ c = "decode" ∨ c = "tracker" ∨ c = "badconn" ∨ c = "eof" ∨ c = "closed"

/-- the implementation's observation without its `rtx=` token -/
def dropRtx (s : String) : String := " ".intercalate ((words s).filter fun t => !t.startsWith "rtx=")

structure OpCtx where
  /-- destinations for which this op must produce a new connect request, with "had a connect before" -/
  newConnects : List (Nat × Bool) := []
  /-- calls whose announce transaction had been answered before this op -/
  answeredBefore : List Nat := []
  /-- calls the periodical announcer starts in this op -/
  pcs : List Nat := []

def oracles (d0 d : DS) (cx : OpCtx) (mDone : List (Nat × String)) (mObs implObs : String) : List String :=
  let toks := words implObs
  let iDone := implDone toks
  let iRx := commaList (kvStr toks "rx")
  let iRtx := kvNat toks "rtx"
  let never := mDone.filterMap fun (r, c) =>
    if c ≠ "cancelled" ∧ !(iDone.any (·.1 = r)) then some s!"C16 announce-never-answered r={r} want={c.replace " " "_"}" else none
  let foreign := iDone.filterMap fun (r, c) =>
    if c.startsWith "ok/" ∧ !(c.startsWith s!"ok/{1000 + r}/") then
      some s!"C16 reply-accepted-for-other-transaction r={r} got={c}"
    else if isReplyClass c ∧ !(mDone.any (·.1 = r)) then
      some s!"C16 reply-accepted-for-other-transaction r={r} got={c} no-datagram-for-its-transaction"
    else none
  let unexpected := iDone.filterMap fun (r, c) =>
    if knownClass c then none else some s!"C16 unexpected-result r={r} got={c}"
  let stuck := cx.newConnects.filterMap fun (dd, before) =>
    if iRx.contains s!"c{dd}.1" then none
    else if before then some s!"C16 destination-stuck-connecting d={dd}"
    else some s!"C16 connect-not-sent d={dd}"
  let wire := iRx.filterMap fun lab =>
    if !lab.startsWith "a" then none else
    match lab.splitOn ":" with
    | [h, ev] =>
      match ((h.drop 1).toString).splitOn "." with
      | [rs, ks] =>
        let r := parseNat! rs
        if parseNat! ks ≥ 2 ∧ cx.answeredBefore.contains r then
          some s!"C15 answered-announce-retransmitted evidence=wire r={r} ev={ev} copy={ks}"
        else none
      | _ => none
    | _ => none
  -- scheduled: goroutines that retransmit = transactions ever begun whose context is alive
  let mRtx := liveCount d.m.txs d.m.nextTx
  let alive (r : Nat) : Bool := match d.m.reqs r with | some q => !q.cancelled | none => false
  let allowance := if d.m.closed then 0 else (d.answeredConn.filter alive).length
  let answeredAlive := if d.m.closed then 0 else (d.answeredAnn.filter alive).length
  let sched :=
    if iRtx > mRtx + allowance ∧ answeredAlive > 0 ∧ dropRtx implObs = dropRtx mObs then
      [s!"C15 answered-announce-retransmitted evidence=scheduled rtx={iRtx} unanswered={mRtx} answered-announces-with-live-context={answeredAlive}"]
    else []
  let iPc := natList (kvStr toks "pc")
  let notRetried := cx.pcs.filterMap fun r =>
    if iPc.contains r then none else some s!"C16 announce-not-retried r={r}"
  let pFirst := iRx.filterMap fun lab =>
    match lab.splitOn ":" with
    | [h, ev] =>
      match ((h.drop 1).toString).splitOn "." with
      | [rs, "1"] => if h.startsWith "a" ∧ parseNat! rs ≥ 100 then some (parseNat! rs, ev) else none
      | _ => none
    | _ => none
  let discipline := pFirst.filterMap fun (r, ev) =>
    if r = 100 ∧ ev ≠ "started" then some s!"C15 event-discipline first-announce ev={ev}"
    else if r > 100 ∧ ev = "started" then some s!"C15 event-discipline started-again r={r}"
    else if ev = "completed" ∧ d0.pCompletedSeen ≥ 1 then some s!"C15 event-discipline completed-again r={r}"
    else none
  never ++ foreign ++ unexpected ++ stuck ++ wire ++ sched ++ notRetried ++ discipline

def finish (d0 d : DS) (cx : OpCtx) (mDone : List (Nat × String)) (rx : List String) (nt : Nat) (implObs : String)
    (pcs0 : List Nat := []) : DS × String × List String :=
  let (d, mDone, rx, pcs) := pSettle 4 d mDone rx pcs0
  let cx := { cx with pcs := pcs }
  let mObs := render d mDone rx nt ++ (if pcs.isEmpty then "" else " pc=" ++ ",".intercalate (pcs.map toString))
  let viol := if d.off then [] else oracles d0 d cx mDone mObs implObs
  let left := dropRtx implObs ≠ dropRtx mObs
  let seen := ((commaList (kvStr (words implObs) "rx")).filter fun lab =>
    lab.startsWith "a1" ∧ lab.endsWith ".1:completed" ∧ ((lab.drop 1).toString.splitOn ".").head?.any (fun x => parseNat! x ≥ 100)).length
  let d := { d with pCompletedSeen := d.pCompletedSeen + seen }
  let d := if left ∨ viol.any (fun v => !v.startsWith "C15 answered-announce-retransmitted evidence=scheduled") then { d with off := true } else d
  (d, mObs, viol)

def step' (d : DS) (op implObs : String) : DS × String × List String :=
  let toks := words op
  match toks.head? with
  | some "ann" =>
    let r := kvNat toks "r"; let dd := kvNat toks "d"; let ev := kvStr toks "ev"
    if (d.m.reqs r).isSome ∨ !evOK ev ∨ dd > 3 ∨ r ≥ 100 then (d, "bad-op", []) else
    let d0 := d
    let d := { d with evs := (r, ev) :: d.evs, dests := if d.dests.contains dd then d.dests else dd :: d.dests }
    let before := (lookupNat d.connTx dd).isSome
    let opens := !d.m.closed ∧ (d.m.conns dd).isNone
    let queues := match d.m.conns dd with | some (.connecting ..) => !d.m.closed | _ => false
    let (d, done, rx) := feed d [.request r dd]
    let d := if queues then addTag { d with shared := true } "branch:queued-behind-connect"
             else if opens then addTag d (if before then "branch:reconnect" else "branch:connect") else addTag d "branch:direct"
    finish d0 d { newConnects := if opens then [(dd, before)] else [] } done rx 0 implObs
  | some "cancel" =>
    let r := kvNat toks "r"
    if r ≥ 100 then (d, "bad-op", []) else
    let d0 := d
    let tag := match d.m.reqs r with
      | some q =>
        if q.result.isSome then "branch:cancel-finished" else
        match d.m.conns q.dest with
        | some (.connecting _ o ws) =>
          if o = r then (if ws.length > 1 then "branch:abort-shared-connect" else "branch:abort-own-connect") else "branch:cancel-queued"
        | _ => "branch:cancel-sent"
      | none => "branch:cancel-unknown"
    let (d, done, rx) := feed d [.cancel r]
    let d := addTag d tag
    let d := if tag = "branch:abort-shared-connect" then addTag d "nontrivial" else d
    finish d0 d {} done rx 0 implObs
  | some "reply" =>
    let d0 := d
    let els := (commaList (kvStr toks "x")).map (element d)
    let nt := (els.filter Option.isNone).length
    let ins := (els.filterMap id).flatten
    let answeredBefore := d.answeredAnn
    let nAnsweredBefore := d.answeredAnn.length
    let (d, done, rx) := feed d ins
    let d := if d.answeredAnn.length ≥ nAnsweredBefore + 2 then addTag (addTag d "branch:burst") (if d.shared then "nontrivial" else "branch:burst-unshared") else d
    let d := if done.any (fun p => p.2 = "badconn" ∨ p.2 = "eof") ∨ (done.length ≥ 2 ∧ done.all (fun p => p.2 = "tracker" ∨ p.2 = "decode") ∧ rx.isEmpty ∧ d.answeredAnn.length = nAnsweredBefore)
      then addTag (addTag d "branch:connect-failed") (if done.length ≥ 2 then "nontrivial" else "branch:connect-failed-single") else d
    let d := if ins.any (fun i => match i with | .dgram (some t) _ => t = unknownTx | .dgram none _ => true | _ => false) then addTag d "branch:stray-datagram" else d
    let d := if rx.length ≥ 2 then addTag d "branch:queued-announces-released" else d
    finish d0 d { answeredBefore := answeredBefore } done rx nt implObs
  | some "wait" =>
    if d.waited then (d, "bad-op", []) else
    let d0 := d
    let ticks := (liveIds d.m.txs d.m.nextTx).map In.tick
    let answeredBefore := d.answeredAnn
    let (d, done, rx) := feed { d with waited := true } ticks
    finish d0 (addTag d "branch:wait-retransmissions") { answeredBefore := answeredBefore } done rx 0 implObs
  | some "close" =>
    let d0 := d
    let pre : List In := if d.pState = 1 ∧ !d.m.closed then [.cancel d.pCur] else []
    let d := if (d.pState = 1 ∨ d.pState = 2) ∧ !d.m.closed then { d with pState := 3 } else d
    let (d, done, rx) := feed d (pre ++ [.close])
    finish d0 (addTag d "branch:close") {} done rx 0 implObs
  | some "pstart" =>
    let dd := kvNat toks "d"
    if d.pState ≠ 0 ∨ dd > 3 ∨ d.m.closed then (d, "bad-op", []) else
    let d0 := d
    let d := { d with pT := kvNat toks "t", pD := dd, dests := if d.dests.contains dd then d.dests else dd :: d.dests }
    let before := (lookupNat d.connTx dd).isSome
    let opens := (d.m.conns dd).isNone
    let (d, done, rx, r) := pCall d "started"
    finish d0 (addTag d "branch:periodic") { newConnects := if opens then [(dd, before)] else [] } done rx 0 implObs [r]
  | some "pcomplete" =>
    if d.pState = 0 ∨ d.pState = 3 then (d, "bad-op", []) else
    let curPending : Bool := decide (d.pState = 1) && (match d.m.reqs d.pCur with | some q => q.result.isNone | none => false)
    let isOpener : Bool := curPending && (match d.m.conns d.pD with | some (.connecting _ o _) => decide (o = d.pCur) | _ => false)
    if isOpener then (d, "bad-op", []) else
    let d0 := d
    if d.pDone then finish d0 d {} [] [] 0 implObs else
    let (d, done, rx) := if curPending then feed d [.cancel d.pCur] else (d, [], [])
    let d := if curPending then addTag d "branch:pcomplete-cancels-announce" else addTag d "branch:pcomplete-idle"
    let opens := (d.m.conns d.pD).isNone
    let before := (lookupNat d.connTx d.pD).isSome
    let (d, done', rx', r) := pCall { d with pDone := true } "completed"
    finish d0 d { newConnects := if opens then [(d.pD, before)] else [] } (done ++ done') (rx ++ rx') 0 implObs [r]
  | some "pclose" =>
    if d.pState = 0 ∨ d.pState = 3 then (d, "bad-op", []) else
    let d0 := d
    let curPending : Bool := decide (d.pState = 1) && (match d.m.reqs d.pCur with | some q => q.result.isNone | none => false)
    let (d, done, rx) := if curPending then feed d [.cancel d.pCur] else (d, [], [])
    let d := { d with pState := 3 }
    finish d0 (addTag d "branch:pclose") {} done rx 0 implObs
  | _ => (d, "bad-op", [])

def suite : Suite where
  name := "udpshared"
  runCase ops :=
    let (st, rs) := foldCase ({} : DS) step' ops
    (rs, st.tags.reverse)

end Driver.Suites.UdpShared
