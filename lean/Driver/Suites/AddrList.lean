import Driver.Util
import RainModel.Model.Blocklist
import RainModel.Model.AddrList
/-!
Suite `addrlist` (C18, C17): op sequences on the real `AddrList`.

ops : `new max= port= client=<u32|nil> bl=<cidr;…|nil|->` | `setclient ip=<u32|nil>`
      | `push src= addrs=<u32>:<port>,…` | `pop` | `reset`
obs : see `suite_addrlist.go`.  The priorities (`p=`) are inputs told by the harness; the order of
`peerByTime` after a push (`t=`) is the implementation's resolution of the unstable sort and is
checked for admissibility (`Admissible`), then adopted.

Oracle, on the implementation's observations only (a reference *bounded priority set* `ref`
kept from the implementation's own answers): never more than `max` entries; no duplicate
priorities; only unfiltered pushed addresses are ever held (`push_filters`); what a push evicts
is never younger than what it keeps and it keeps `min(n, max)`; `pop` returns the held entry
of maximal priority; per-source counts add up; index structures in sync; no panic.
-/
namespace Driver.Suites.AddrList
open Driver Rain.AddrList

structure DSt where
  env : Env := ⟨0, 0, none, [], fun _ => false⟩
  st : St := {}
  clock : Nat := 0
  ref : List PA := []       -- reference set built from the implementation's answers
  ready : Bool := false

def optU32 (s : String) : Option Nat := if s = "nil" ∨ s = "" then none else some (parseNat! s)

def parseAddrs (s : String) : List (Nat × Nat) :=
  (commaList s).map fun t =>
    match t.splitOn ":" with
    | [a, b] => (parseNat! a, parseNat! b)
    | _ => (0, 0)

def showCounts (c : Nat → Int) : String :=
  ",".intercalate ([0, 1, 2, 3, 4].map fun i => toString (c i))

def tailOf (s : St) : String := s!"len={s.len} c={showCounts s.counts} sync=1"

def sortedB : List PA → Bool
  | [] => true
  | p :: ps => ps.all (fun q => p.stamp ≤ q.stamp) && sortedB ps

def admissibleB (l s : List PA) : Bool := s.isPerm l && sortedB s

/-- Blocklist of the `new` op. -/
def blockedOf (bl : String) : Nat → Bool :=
  if bl = "nil" ∨ bl = "" then fun _ => false else
  let text : List Nat := if bl = "-" then [] else
    (bl.toList.map fun c => if c = ';' then 10 else c.toNat)
  let b := (({} : Rain.Blocklist.Blocklist).reload text).1
  fun ip => b.blocked (some ip)

def upsert (r : List PA) (p : PA) : List PA := r.filter (·.prio ≠ p.prio) ++ [p]

def maxPrio (r : List PA) : Option PA :=
  r.foldl (fun acc p => match acc with
    | none => some p
    | some q => if q.prio < p.prio then some p else some q) none

def step (d : DSt) (op implObs : String) : DSt × String × List String × List String :=
  let toks := words op
  let itoks := words implObs
  let implPanic := implObs.startsWith "panic"
  let syncViol := if kv? itoks "sync" = some "0" then ["C18 addrlist-out-of-sync"] else []
  match toks.head? with
  | some "new" =>
    let ext := natList (kvStr itoks "ext")
    let env : Env := ⟨kvNat toks "max", kvNat toks "port", optU32 (kvStr toks "client"), ext,
      blockedOf (kvStr toks "bl")⟩
    ({ env := env, ready := true }, implObs, [], [])
  | some "setclient" =>
    ({ d with env := { d.env with clientIP := optU32 (kvStr toks "ip") } }, implObs, [], [])
  | some "push" =>
    if !d.ready then (d, "no-list", [], []) else
    if implPanic then (d, "model-needs-priorities", ["C18 addrlist-panic " ++ implObs], []) else
    let src := kvNat toks "src"
    let addrs := parseAddrs (kvStr toks "addrs")
    let prios := natList (kvStr itoks "p")
    let cands : List Cand := (addrs.zip prios).map fun ((ip, port), pr) => ⟨ip, port, pr⟩
    let now := d.clock + 1
    let implT := natList (kvStr itoks "t")
    -- reference set: upsert every unfiltered candidate, then see what the implementation kept
    let accepted := cands.filter fun c => !filtered d.env c
    let ref1 := accepted.foldl (fun r c => upsert r ⟨c.ip, c.port, src, c.prio, now, 0⟩) d.ref
    let kept := ref1.filter fun p => implT.contains p.prio
    let evicted := ref1.filter fun p => !implT.contains p.prio
    let implLen := kvNat itoks "len"
    let viol :=
      syncViol ++
      (if implLen > d.env.maxItems then [s!"C18 addrlist-bound len={implLen} max={d.env.maxItems}"] else []) ++
      (if implT.length ≠ implLen then [s!"C18 addrlist-len-mismatch len={implLen} list={implT.length}"] else []) ++
      (if implT.eraseDups.length ≠ implT.length then ["C18 addrlist-duplicate-priority"] else []) ++
      (if implT.any fun k => !(ref1.any (·.prio = k)) then ["C18 addrlist-holds-filtered-or-unknown-address"] else []) ++
      (if kept.length ≠ min ref1.length d.env.maxItems then
        [s!"C18 addrlist-kept kept={kept.length} want={min ref1.length d.env.maxItems}"] else []) ++
      (if evicted.any fun e => kept.any fun k => k.stamp < e.stamp then ["C18 addrlist-evicted-younger"] else []) ++
      (if (natList (kvStr itoks "c")).foldl (· + ·) 0 ≠ implLen then ["C18 addrlist-counts"] else [])
    let tags :=
      (if cands.any (filtered d.env) then ["branch:filtered"] else []) ++
      (if evicted.length > 0 then ["branch:evict"] else []) ++
      (if accepted.any fun c => d.ref.any (·.prio = c.prio) then ["branch:replace"] else []) ++
      (if accepted.length ≥ 2 ∧ accepted.length ≠ (accepted.map (·.prio)).eraseDups.length then
        ["branch:same-priority-in-one-push"] else [])
    -- model
    match pushLoop d.env src now cands (d.st, 0) with
    | .error e => ({ d with clock := now, ref := kept }, s!"panic:{e}", viol, tags)
    | .ok (s1, added) =>
      let l := filterNils s1.byTime
      let tl := implT.filterMap fun k => l.find? (·.prio = k)
      let ev := stableSort (l.filter fun p => !implT.contains p.prio)
      let choice := ev ++ tl
      if !admissibleB l choice then
        ({ d with clock := now, ref := kept }, "inadmissible-order " ++ tailOf s1, viol, tags)
      else
        match pushFinish d.env src s1 choice added with
        | .error e => ({ d with clock := now, ref := kept }, s!"panic:{e}", viol, tags)
        | .ok s2 =>
          let t := s2.entries.map (·.prio)
          ({ d with st := s2, clock := now, ref := kept },
            s!"p={showNatList prios} t={showNatList t} {tailOf s2}", viol, tags)
  | some "pop" =>
    if !d.ready then (d, "no-list", [], []) else
    let implA := kvStr itoks "a"
    let want := maxPrio d.ref
    let viol := syncViol ++
      (match want with
        | none => if implA = "nil" then [] else [s!"C18 addrlist-pop-from-empty got={implA}"]
        | some p =>
          if implA = s!"{p.ip}:{p.port}:{p.src}" then []
          else [s!"C18 addrlist-pop-not-max got={implA} want={p.ip}:{p.port}:{p.src}"])
    let ref' := match want with
      | none => d.ref
      | some p => d.ref.filter (·.prio ≠ p.prio)
    let tags := if want.isSome ∧ d.ref.length ≥ 2 then ["branch:pop-choice"] else []
    match pop d.st with
    | .error e => ({ d with ref := ref' }, s!"panic:{e}", viol, tags)
    | .ok (none, s') => ({ d with st := s', ref := ref' }, "a=nil " ++ tailOf s', viol, tags)
    | .ok (some p, s') =>
      ({ d with st := s', ref := ref' }, s!"a={p.ip}:{p.port}:{p.src} {tailOf s'}", viol, tags)
  | some "reset" =>
    if !d.ready then (d, "no-list", [], []) else
    let s' := reset d.st
    let viol := syncViol ++ (if kvNat itoks "len" ≠ 0 then ["C18 addrlist-reset-not-empty"] else [])
    ({ d with st := s', ref := [] }, "ok " ++ tailOf s', viol, ["branch:reset"])
  | _ => (d, "unknown-op", [], [])

def suite : Suite where
  name := "addrlist"
  runCase ops :=
    let (_, acc) := ops.foldl
      (fun (p : DSt × List ((String × List String) × List String)) (o : String × String) =>
        let (s, acc) := p
        let (s', obs, vs, tags) := step s o.1 o.2
        (s', ((obs, vs), tags) :: acc)) ({}, [])
    let rs := acc.reverse
    let tags := (rs.flatMap (·.2)).eraseDups
    let nontrivial := tags.contains "branch:evict" ∧ tags.contains "branch:pop-choice"
    (rs.map (·.1), if nontrivial then "nontrivial" :: tags else tags)

end Driver.Suites.AddrList
