import Driver.Util
import RainModel.Model.Magnet
/-!
Suite `magnet` (C13): the real `magnet.New` / `(*Magnet).String`.

    rt ih=<40 hex> dn=<hx> tr=<tier;tier;…|-> pe=<hx,…|->      obs: q=<hxk:hxv,…> res=…
    parse scheme=<s> q=<hxk:hxv,…|->                            obs: res=…
    res = `res=ok ih=… dn=… tr=… pe=…` | `res=err:<kind>`

`rt`: model = `render` (compared with the pairs the real `String()` wrote) and `parse` of them;
oracle = `roundtripOk` on the implementation's parse result (magnet_roundtrip).
`parse`: model = `parse` with the first-appearance key order; where two keys carry the same tier
index the implementation's order is checked for admissibility and echoed.
-/
namespace Driver.Suites.Magnet
open Driver Rain.Magnet

def unhx (s : String) : Str := if s = "." ∨ s = "" then [] else unhex! s
def hx (b : Str) : String := if b.isEmpty then "." else hex b
def unhxList (s : String) : List Str := (commaList s).map unhx
def hxList (l : List Str) : String := if l.isEmpty then "-" else ",".intercalate (l.map hx)

def parseTiers (s : String) : List (List Str) :=
  if s = "-" ∨ s = "" then [] else
  (s.splitOn ";").map fun t => if t = "_" then [] else unhxList t

def showTiers (l : List (List Str)) : String :=
  if l.isEmpty then "-" else ";".intercalate (l.map fun t => if t.isEmpty then "_" else hxList t)

def parsePairs (s : String) : List Param :=
  (commaList s).filterMap fun p =>
    match p.splitOn ":" with
    | [k, v] => some (unhx k, unhx v)
    | _ => none

def showPairs (l : List Param) : String :=
  if l.isEmpty then "-" else ",".intercalate (l.map fun p => hx p.1 ++ ":" ++ hx p.2)

def errStr : Err → String
  | .notMagnet => "notmagnet" | .missingXt => "missingxt" | .emptyXt => "emptyxt" | .v2Only => "v2only"
  | .badXt => "badxt" | .hashLen => "hashlen" | .hexErr => "hexerr" | .b32Err => "b32err"
  | .unmodelled => "unmodelled"

def showRes : Except Err Magnet → String
  | .error e => "res=err:" ++ errStr e
  | .ok m => s!"res=ok ih={hex m.ih} dn={hx m.name} tr={showTiers m.trackers} pe={hxList m.peers}"

def parseRes (toks : List String) : Option Magnet :=
  if kvStr toks "res" = "ok" then
    some { ih := unhex! (kvStr toks "ih"), name := unhx (kvStr toks "dn"),
           trackers := parseTiers (kvStr toks "tr"), peers := unhxList (kvStr toks "pe") }
  else none

def lower (s : Str) : Str := s.map fun c => if 65 ≤ c ∧ c ≤ 90 then c + 32 else c

/-- Group-wise permutation check: `impl` must consist of consecutive groups that are permutations
of the groups of equal index of the model's (stably sorted) tier list. -/
def admissibleTiers : List TrackerTier → List (List Str) → Bool
  | [], impl => impl.isEmpty
  | t :: ts, impl =>
    let grp := (t :: ts).takeWhile (·.index = t.index)
    let rest := (t :: ts).dropWhile (·.index = t.index)
    let k := grp.length
    (grp.map (·.trackers)).isPerm (impl.take k) && admissibleTiers rest (impl.drop k)
termination_by l => l.length
decreasing_by
  have : ((t :: ts).dropWhile (·.index = t.index)).length ≤ ts.length := by
    simp only [List.dropWhile_cons, decide_true, ↓reduceIte]
    exact (List.dropWhile_sublist _).length_le
  simp only [List.length_cons]
  omega

def step (op implObs : String) : String × List String × List String :=
  let toks := words op
  let itoks := words implObs
  match toks.head? with
  | some "rt" =>
    let m : Magnet := { ih := unhex! (kvStr toks "ih"), name := unhx (kvStr toks "dn"),
                        trackers := parseTiers (kvStr toks "tr"), peers := unhxList (kvStr toks "pe") }
    let ps := render m
    let res := parse [109, 97, 103, 110, 101, 116] (distinctKeys ps) ps
    let modelObs := s!"q={showPairs ps} {showRes res}"
    let iq := kvStr itoks "q"
    let viol :=
      (if iq.startsWith "undecodable" ∨ iq = "noprefix" then ["C13 rendered-link-undecodable"] else []) ++
      (match parseRes itoks with
       | none => [s!"C13 roundtrip parse-error res={kvStr itoks "res"}"]
       | some m' =>
         if roundtripOk m m' then [] else
         let field := if m'.ih ≠ m.ih then "infohash" else if m'.name ≠ m.name then "name"
           else if m'.peers ≠ m.peers then "peers" else "tiers"
         [s!"C13 roundtrip field={field}"])
    let nonEmpty := m.trackers.filter (· ≠ [])
    let tags :=
      ["branch:rt"] ++
      (if m.trackers.any (· = []) then ["branch:empty-tier-dropped"] else []) ++
      (if m.name = [] then ["branch:no-name"] else []) ++
      (if nonEmpty.any (·.length ≥ 2) ∧ nonEmpty.any (·.length = 1) then ["branch:mixed-tiers"] else []) ++
      (if m.peers.isEmpty then [] else ["branch:peers"]) ++
      (if nonEmpty.length ≥ 2 ∧ nonEmpty.any (·.length ≥ 2) then ["nontrivial"] else [])
    (modelObs, viol, tags)
  | some "parse" =>
    let ps := parsePairs (kvStr toks "q")
    let scheme := lower ((kvStr toks "scheme").toUTF8.toList.map (·.toNat))
    let order := distinctKeys ps
    let res := parse scheme order ps
    let sorted := sortTiers (rawTiers order ps)
    let hasTie := (sorted.zip (sorted.drop 1)).any fun (a, b) => a.index = b.index
    let unmod := res matches .error .unmodelled
    let obs :=
      if unmod then implObs
      else match res, parseRes itoks with
        | .ok m, some m' =>
          if hasTie ∧ m'.ih = m.ih ∧ m'.name = m.name ∧ m'.peers = m.peers ∧ admissibleTiers sorted m'.trackers
          then implObs else showRes res
        | _, _ => showRes res
    let tags :=
      ["branch:parse"] ++ (if hasTie then ["branch:tie"] else []) ++ (if unmod then ["branch:unmodelled"] else []) ++
      (match res with
       | .error e => ["branch:err-" ++ errStr e]
       | .ok m => ["branch:parse-ok"] ++ (if m.trackers.length ≥ 2 then ["nontrivial"] else [])) ++
      (if (valuesOf kXt ps).any (fun x => (cutPrefix x pBtih).any (·.length = 32)) then ["branch:base32"] else [])
    (obs, [], tags)
  | _ => ("unknown-op", [], [])

def suite : Suite where
  name := "magnet"
  runCase ops :=
    let rs := ops.map fun (op, obs) => step op obs
    (rs.map fun (o, v, _) => (o, v), (rs.flatMap fun (_, _, t) => t).eraseDups)

end Driver.Suites.Magnet
