import Driver.Util
import RainModel.Model.Blocks
/-!
Suite `blocks` (C02): `calculateBlocks(bs)` on generated section lists.
op : `blocks bs=<n> secs=<len>:<0|1>,…`     obs : `<b>:<l>,…` | `-` | `panic`
-/
namespace Driver.Suites.Blocks
open Driver Rain.Blocks

def parseSecs (s : String) : List Sec :=
  (commaList s).map fun t =>
    match t.splitOn ":" with
    | [l, p] => { len := parseNat! l, pad := p = "1" }
    | _ => { len := 0, pad := false }

def parseBlocks? (s : String) : Option (List Block) :=
  if s = "panic" then none else
  some <| (commaList s).map fun t =>
    match t.splitOn ":" with
    | [b, l] => { b := parseNat! b, l := parseNat! l }
    | _ => { b := 0, l := 0 }

def showBlocks : Option (List Block) → String
  | none => "panic"
  | some [] => "-"
  | some bl => ",".intercalate (bl.map fun b => s!"{b.b}:{b.l}")

/-- Classify an oracle failure so a known finding can be matched by kind. -/
def classify (bs : Nat) (secs : List Sec) (impl : List Block) : String :=
  if calcBlocksStale bs secs = some impl then "stale-begin-after-padding" else "other"

def step (op implObs : String) : String × List String × List String :=
  let toks := words op
  let bs := kvNat toks "bs"
  let secs := parseSecs (kvStr toks "secs")
  let model := calcBlocks bs secs
  let tags :=
    (if secs.any (·.pad) then ["has-padding"] else []) ++
    (if secs.length ≥ 2 then ["multi-section"] else []) ++
    (if secs.any (fun s => s.len = 0) then ["zero-len-section"] else []) ++
    (if secs.any (·.pad) ∧ secs.length ≥ 2 then ["nontrivial"] else [])
  let viol :=
    match parseBlocks? implObs with
    | none => if secs.isEmpty then [] else ["C02 calcblocks-panic"]
    | some bl =>
      if secs.isEmpty then [] else
      if Tiles bs secs bl then [] else [s!"C02 blocks-not-tiling kind={classify bs secs bl}"]
  (showBlocks model, viol, tags)

def suite : Suite where
  name := "blocks"
  runCase ops :=
    let rs := ops.map fun (op, obs) => step op obs
    (rs.map fun (o, v, _) => (o, v), (rs.flatMap fun (_, _, t) => t).eraseDups)

end Driver.Suites.Blocks
