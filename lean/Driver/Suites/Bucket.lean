import Driver.Util
import RainModel.Model.TokenBucket
/-!
Suite `bucket` (C17 `bucket_bound`): the real `ratelimit.Bucket` with an injected clock, replayed
on `Rain.TokenBucket.take`.  ops / observations: see `suite_bucket.go`.

`new rate= cap=` (float search for quantum / fill interval inside the library) is a fed choice:
admissible iff all three parameters are positive and the effective rate `1e9·q/fi` is within 1 %
of the requested one (the library's documented tolerance).  `take`/`avail` are deterministic.
Oracle: with the *implementation's* waits, after every `take` the bound of the theorem must hold
at every ready time seen so far: `Σ{count | ready ≤ t} ≤ capacity + quantum · ⌊t / fillInterval⌋`.
-/
namespace Driver.Suites.Bucket
open Driver Rain.TokenBucket

structure DS where
  b : Option Bucket := none
  /-- grants rebuilt from the implementation's observations -/
  implLog : List Grant := []
  lastNow : Nat := 0
  tags : List String := []

def DS.tag (d : DS) (t : String) : DS := if d.tags.contains t then d else { d with tags := t :: d.tags }

def absDiff (a b : Nat) : Nat := if a ≥ b then a - b else b - a

def step (d : DS) (op implObs : String) : DS × String × List String :=
  let toks := words op
  match toks.headD "" with
  | "new" =>
    let rate := kvNat toks "rate"
    let cap := kvNat toks "cap"
    let it := words implObs
    let q := kvNat it "q"
    let fi := kvNat it "fi"
    if implObs = "panic" then
      -- the library panics for capacity ≤ 0 or when no quantum fits; rain only calls it with rate > 0
      if cap = 0 ∨ rate = 0 then ({ d with b := none }, "panic", []) else
      ({ d with b := none }, "inadmissible panic", [s!"C17 bucket-new-panic rate={rate} cap={cap}"])
    else
      match new fi cap q with
      | none => ({ d with b := none }, "inadmissible " ++ implObs, [])
      | some b =>
        let ok := absDiff (1000000000 * q) (rate * fi) * 100 ≤ rate * fi
        if ok then ({ d with b := some b, implLog := [], lastNow := 0 }.tag "branch:new-rate", implObs, [])
        else ({ d with b := some b, implLog := [], lastNow := 0 }, s!"inadmissible rate-off-by-more-than-1% {implObs}",
              [s!"C17 bucket-rate-tolerance rate={rate} q={q} fi={fi}"])
  | "newq" =>
    let fi := kvNat toks "fi"
    let cap := kvNat toks "cap"
    let q := kvNat toks "q"
    match new fi cap q with
    | none => ({ d with b := none }.tag "branch:new-panic", "panic", [])
    | some b => ({ d with b := some b, implLog := [], lastNow := 0 }.tag "branch:new-quantum", s!"q={q} fi={fi}", [])
  | "take" =>
    match d.b with
    | none => (d, "nobucket", [])
    | some b =>
      let now := kvNat toks "now"
      let n := kvInt toks "n"
      let (b', w) := take b now n
      let d := d.tag (if n ≤ 0 then "branch:take-nonpositive" else if w = 0 then "branch:take-now" else "branch:take-wait")
      let d := if w > 0 ∧ n > (b.capacity : Int) then d.tag "branch:take-above-capacity" else d
      -- oracle on the implementation's wait
      let implW := (kvInt (words implObs) "d")
      let viol0 := if implW < 0 then [s!"C17 bucket-negative-wait d={implW}"] else []
      let g : Grant := { ready := now + implW.toNat, count := n.toNat }
      let log := g :: d.implLog
      let bad := log.find? fun e => !boundHolds b.capacity b.quantum b.fillInterval e.ready log
      let viol := viol0 ++ (match bad with
        | some e => [s!"C17 bucket-bound-exceeded t={e.ready} granted={grantedBy e.ready log} cap={b.capacity} q={b.quantum} fi={b.fillInterval}"]
        | none => [])
      let d := if log.length ≥ 3 ∧ log.any (fun e => e.ready > now) then d.tag "nontrivial" else d
      ({ d with b := some b', implLog := log, lastNow := now }, s!"d={w}", viol)
  | "avail" =>
    match d.b with
    | none => (d, "nobucket", [])
    | some b =>
      let now := kvNat toks "now"
      let (b', a) := available b now
      let viol := if kvInt (words implObs) "a" > (b.capacity : Int) then [s!"C17 bucket-above-capacity a={kvInt (words implObs) "a"} cap={b.capacity}"] else []
      ({ d with b := some b', lastNow := now }.tag "branch:avail", s!"a={a}", viol)
  | _ => (d, "badop", [])

def suite : Suite where
  name := "bucket"
  runCase ops :=
    let (d, rs) := foldCase ({} : DS) step ops
    (rs, d.tags.reverse)

end Driver.Suites.Bucket
