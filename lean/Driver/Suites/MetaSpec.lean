import Driver.Util
import RainModel.Model.Validate
/-!
Shared by suites `parse`, `paths`, `limits`: reading the textual description of an info dictionary
from an op line (grammar in harness/overlay/internal/verifharness/metaspec.go) and mapping it to
the decoded fields the way `zeebo/bencode` fills `metainfo.infoType` — the harness tells the model
what it *encoded*, so the library's struct mapping is part of what is compared:

* integer into `uint32`: `strconv.ParseUint(…, 64)` then a silent truncation to 32 bits;
* integer into `int64`: `strconv.ParseInt(…, 64)`; integer under an unknown key: also `ParseInt`;
* string into `[]byte`/`string`; an empty list into a slice leaves the field as it was;
* any other type mismatch, an unparsable integer: decode error;
* a repeated scalar key: the later value wins; key order is irrelevant; unknown keys are skipped.
-/
namespace Driver.MetaSpec
open Driver Rain.Path Rain.Validate

def strBytes (s : String) : Bytes := s.toUTF8.toList.map (·.toNat)

inductive Dec (α : Type) where
  | ok (a : α)
  | decodeError
  | tooDeep
  | unsupported (why : String)

/-- Value kinds of the op grammar. -/
def tag (fv : String) : Char := (fv.toList.head?).getD '?'
def body (fv : String) : String := (fv.drop 1).toString

/-- Rendering of a scalar `fv` as bencode bytes (needed for the raw `private` value). -/
def renderScalar (fv : String) : Bytes :=
  match tag fv with
  | 'i' => [0x69] ++ strBytes (body fv) ++ [0x65]
  | 's' => let b := unhex! (body fv); strBytes (toString b.length) ++ [0x3A] ++ b
  | 'n' => let n := parseNat! (body fv); strBytes (toString n) ++ [0x3A] ++ List.replicate n 0x78
  | 'l' => strBytes "le"
  | 'd' => strBytes "de"
  | 'D' => let n := parseNat! (body fv); List.replicate n 0x6C ++ List.replicate n 0x65
  | 'r' => unhex! (body fv)
  | _ => []

/-- A value the decoder merely skips (unknown key): it must still be well-formed, and integers
are parsed with `ParseInt`. -/
def skippable (fv : String) : Bool :=
  match tag fv with
  | 'i' => (parseInt64 (strBytes (body fv))).isSome
  | 's' | 'n' | 'l' | 'd' | 'D' => true
  | _ => false

def decString (fv : String) : Option Bytes :=
  match tag fv with
  | 's' => some (unhex! (body fv))
  | 'n' => some (List.replicate (parseNat! (body fv)) 0x78)
  | _ => none

def decInt64 (fv : String) : Option Int :=
  if tag fv = 'i' then parseInt64 (strBytes (body fv)) else none

def decPath (prev : List Bytes) (fv : String) : Option (List Bytes) :=
  match tag fv with
  | 'P' =>
    if body fv = "" then some prev else
    let comps := (body fv).splitOn "+"
    -- elements are decoded into the existing slice positions; a shorter list keeps the tail
    let ds := comps.map fun c => if tag c = 's' then some (unhex! (body c)) else none
    if ds.all (·.isSome) then
      let l := ds.filterMap id
      some (l ++ prev.drop l.length)
    else none
  | 'l' => some prev
  | _ => none

/-- `u<hex>` spells a key by its bytes; when those bytes are one of the struct's keys it *is*
that key (a way to write duplicates). -/
def canonKey (names : List (String × String)) (k : String) : String :=
  if k.startsWith "u" then
    let b := unhex! (k.drop 1).toString
    match names.find? (fun p => strBytes p.2 = b) with
    | some p => p.1
    | none => k
  else k

def infoKeys : List (String × String) :=
  [("pl", "piece length"), ("pieces", "pieces"), ("name", "name"), ("nameu", "name.utf-8"),
   ("private", "private"), ("length", "length"), ("files", "files")]

def fileKeys : List (String × String) :=
  [("len", "length"), ("path", "path"), ("pathu", "path.utf-8"), ("attr", "attr")]

def decFile (f : String) : Option FileIn :=
  if f = "e" ∨ f = "" then some { length := 0, path := [], pathUtf8 := [], attr := [] } else
  (f.splitOn ",").foldl (fun acc fe =>
    match acc with
    | none => none
    | some (cur : FileIn) =>
      match fe.splitOn "=" with
      | [k0, v] =>
        let k := canonKey fileKeys k0
        if k = "len" then (decInt64 v).map fun n => { cur with length := n }
        else if k = "path" then (decPath cur.path v).map fun p => { cur with path := p }
        else if k = "pathu" then (decPath cur.pathUtf8 v).map fun p => { cur with pathUtf8 := p }
        else if k = "attr" then (decString v).map fun s => { cur with attr := s }
        else if skippable v then some cur else none
      | _ => none) (some { length := 0, path := [], pathUtf8 := [], attr := [] })

structure Acc where
  ib : InfoIn := { pieceLength := 0, piecesLen := 0, name := [], nameUtf8 := [], priv := [], length := 0, files := [] }
  filesSeen : Bool := false

def decEntry (a : Acc) (e : String) : Dec Acc :=
  match e.splitOn ":" with
  | [k0, v] =>
    let k := canonKey infoKeys k0
    if k = "pl" then
      if tag v = 'i' then
        match parseUint64 (strBytes (body v)) with
        | some n => .ok { a with ib := { a.ib with pieceLength := n % two32 } }
        | none => .decodeError
      else .decodeError
    else if k = "pieces" then
      match tag v with
      | 's' => .ok { a with ib := { a.ib with piecesLen := (unhex! (body v)).length } }
      | 'n' => .ok { a with ib := { a.ib with piecesLen := parseNat! (body v) } }
      | 'l' => .ok a
      | 'D' => if parseNat! (body v) ≤ 1 then .ok a else .decodeError
      | _ => .decodeError
    else if k = "name" then
      match decString v with
      | some s => .ok { a with ib := { a.ib with name := s } }
      | none => .decodeError
    else if k = "nameu" then
      match decString v with
      | some s => .ok { a with ib := { a.ib with nameUtf8 := s } }
      | none => .decodeError
    else if k = "private" then
      if tag v = 'F' ∨ tag v = 'P' then .unsupported "private"
      else .ok { a with ib := { a.ib with priv := renderScalar v } }
    else if k = "length" then
      match decInt64 v with
      | some n => .ok { a with ib := { a.ib with length := n } }
      | none => .decodeError
    else if k = "files" then
      match tag v with
      | 'F' =>
        if a.filesSeen ∧ !a.ib.files.isEmpty then .unsupported "repeated files key" else
        if body v = "" then .ok { a with filesSeen := true } else
        let fs := ((body v).splitOn "|").map decFile
        if fs.all (·.isSome) then .ok { a with ib := { a.ib with files := fs.filterMap id }, filesSeen := true }
        else .decodeError
      | 'l' => .ok a
      | 'D' => if parseNat! (body v) ≤ 1 then .ok a else .decodeError
      | _ => .decodeError
    else if k.startsWith "u" then
      if skippable v then .ok a else .decodeError
    else .unsupported s!"key {k}"
  | _ => .unsupported "entry"

/-- Nesting depth of a described value (containers it opens), as the token pre-scan
`metainfo.checkBencode` counts it. Every value of the grammar is a complete token sequence, so
the scan never stops early and the order of entries does not matter. -/
def scalarDepth (fv : String) : Nat :=
  match tag fv with
  | 'l' | 'd' => 1
  | 'D' => parseNat! (body fv)
  | 'P' => 1 + (((body fv).splitOn "+").map fun c => if tag c = 'l' then 1 else 0).foldl max 0
  | _ => 0

def fileDepth (f : String) : Nat :=
  1 + (if f = "e" ∨ f = "" then 0 else
    ((f.splitOn ",").map fun fe => match fe.splitOn "=" with
      | [_, v] => scalarDepth v
      | _ => 0).foldl max 0)

def entryDepth (e : String) : Nat :=
  match e.splitOn ":" with
  | [_, v] =>
    if tag v = 'F' then 1 + (if body v = "" then 0 else (((body v).splitOn "|").map fileDepth).foldl max 0)
    else scalarDepth v
  | _ => 0

def maxBencodeDepth : Nat := 256

/-- `viaMeta`: the dictionary sits one level down inside the metainfo dictionary. -/
def dictDepth (viaMeta : Bool) (d : String) : Nat :=
  (if viaMeta then 2 else 1) + (if d = "-" ∨ d = "" then 0 else ((d.splitOn ";").map entryDepth).foldl max 0)

def decodeDict (viaMeta : Bool) (d : String) : Dec InfoIn :=
  if dictDepth viaMeta d > maxBencodeDepth then .tooDeep else
  if d = "-" ∨ d = "" then .ok ({} : Acc).ib else
  let r := (d.splitOn ";").foldl (fun (acc : Dec Acc) e =>
    match acc with
    | .ok a => decEntry a e
    | other => other) (.ok {})
  match r with
  | .ok a => .ok a.ib
  | .decodeError => .decodeError
  | .tooDeep => .tooDeep
  | .unsupported w => .unsupported w

/-- Flags and hash of an `info` op (`mode=meta` goes through `metainfo.New`: utf8 = pad = true). -/
def paramsOf (toks : List String) : Params :=
  let viaMeta := kvStr toks "mode" = "meta"
  { utf8 := viaMeta || kvBool toks "utf8", pad := viaMeta || kvBool toks "pad",
    hashHex := strBytes (kvStr toks "hash") }

def showFiles (fs : List FileOut) : String :=
  if fs.isEmpty then "-" else ",".intercalate (fs.map fun f => s!"{f.length}:{boolStr f.padding}")

def showInfo (o : InfoOut) : String :=
  s!"ok pl={o.pieceLength} np={o.numPieces} len={o.length} padlen={o.padding} priv={boolStr o.priv} name={hex o.name} files={showFiles o.files}"

/-- Parse the implementation's `ok …` observation back into an `InfoOut` (paths unknown). -/
def parseImplInfo (obs : String) : Option InfoOut :=
  let toks := words obs
  if toks.head? ≠ some "ok" then none else
  let fs := (commaList (kvStr toks "files")).map fun t =>
    match t.splitOn ":" with
    | [l, p] => ({ length := parseInt! l, path := [], padding := p = "1" } : FileOut)
    | _ => { length := 0, path := [], padding := false }
  some { pieceLength := kvNat toks "pl", numPieces := kvNat toks "np", length := kvInt toks "len",
         padding := kvInt toks "padlen", name := unhex! (kvStr toks "name"), priv := kvBool toks "priv",
         files := fs }

end Driver.MetaSpec
