import Driver.Suites.Paths
/-!
Suite `remove` (C07): `Session.RemoveTorrent(id, keepData = false)` on a real session.  Model:
`stopAndRemoveData` removes `Join(DataDir, id)` with the torrent-id level, else
`Join(DataDir, cleanName(info.Name))` (the repaired code: the same first path element the files
were created under); a sentinel survives iff it is not that path or below it.  Oracle: every
sentinel that is not inside the torrent's own directory survives.
-/
namespace Driver.Suites.Remove
open Driver Driver.MetaSpec Driver.Suites.Paths Rain.Path Rain.Validate

def sentinels : List Bytes :=
  ["victim/keep", "outer/victim/keep", "outer/data2/keep", "outer/data/other-torrent/keep", "outer/data/keep"].map strBytes

/-- `p` is `dest` itself or lies below it. -/
def removedBy (dest p : Bytes) : Bool := p == dest || isPrefixOfB (dest ++ [SLASH]) p

def step (op implObs : String) : String × List String × List String :=
  let toks := words op
  match toks.head? with
  | some "remove" =>
    let incl := kvBool toks "incl"
    let dataDir := sandbox ++ strBytes "/outer/data"
    match decodeDict true (kvStr toks "d") with
    | .ok ib =>
      match newInfo { utf8 := true, pad := true, hashHex := strBytes (kvStr toks "hash") } ib with
      | .error _ => ("reject", [], ["branch:reject"])
      | .ok o =>
        let own := if incl then fpJoin [dataDir, strBytes "tid"] else fpJoin [dataDir, cleanName o.name]
        let surv := sentinels.filter fun s => !removedBy own (sandbox ++ [SLASH] ++ s)
        let implSurv := (commaList (kvStr (words implObs) "survivors")).map unhexE
        -- oracle: independent of the model's idea of what is removed — only the torrent's own
        -- directory (DataDir/id, or DataDir/<cleaned name>) may disappear
        let viol := (sentinels.filter fun s => !implSurv.contains s && !removedBy own (sandbox ++ [SLASH] ++ s)).map
          fun s => s!"C07 removed-outside-own-directory sentinel={hexE s}"
        (s!"removed survivors={if surv.isEmpty then "-" else ",".intercalate (surv.map hexE)}",
         (if implObs.startsWith "removed " then viol else []),
         ["branch:removed", "nontrivial"] ++ (if incl then ["branch:with-id"] else ["branch:by-name"]) ++
         (if surv.length < sentinels.length then ["branch:sentinel-legitimately-removed"] else []))
    | _ => ("reject", [], ["branch:reject"])
  | _ => ("unknown-op", [], [])

def suite : Suite where
  name := "remove"
  runCase ops :=
    let rs := ops.map fun (op, obs) => step op obs
    (rs.map fun (o, v, _) => (o, v), (rs.flatMap fun (_, _, t) => t).eraseDups)

end Driver.Suites.Remove
