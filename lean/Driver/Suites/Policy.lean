import Driver.Util
import Driver.Suites.MSE
import RainModel.Model.MSE
/-!
Suite `policy` (C12): real `btconn.Accept` / `btconn.Dial` against scripted remotes, replayed on
`Rain.MSE.accept` / `Rain.MSE.dial`.  See `suite_policy.go` for the op and observation formats.

Oracle (on the implementation's observation only): with the force flag set (and, for `Dial`,
encryption not disabled) a returned connection must not be plaintext on the wire, must report
RC4, and `Dial` must not have used a second connection.
-/
namespace Driver.Suites.Policy
open Driver Rain.MSE Driver.Suites.MSE

def bErrStr : BErr → String
  | .mse .eof => "eof"
  | .mse e => s!"mse:{e.toString}"
  | .eof => "eof"
  | .invalidProtocol => "badproto"
  | .notEncrypted => "notencrypted"
  | .invalidInfoHash => "badinfohash"
  | .ownConnection => "own"
  | .dialFailed => "dialfailed"

/-- Everything still readable from the connection. -/
def connReadAll : Conn → Bytes
  | .plain rest => rest
  | .mse d => (d.recv []).1

def connReadUpTo (conn : Conn) (n : Nat) : Bytes := (connReadAll conn).take n

def runAccept (p : Params) (t : List String) (implObs : String) : String × List String × List String :=
  let c := p.crypto
  let io := words implObs
  let frb := kvNat io "frb"
  let ih := unhex! (kvStr t "ih")
  let w1 := unhex! (kvStr t "w1")
  let w2 := unhex! (kvStr t "w2")
  let probe := unhex! (kvStr t "probe")
  let force := kvBool t "force"
  let known := kvBool t "known"
  let a : AcceptCfg := { force := force, hasGetSKey := kvBool t "haskey",
                         hasInfoHash := fun h => known && h == ih,
                         ourExt := unhex! (kvStr t "ourext"), ourId := unhex! (kvStr t "ourid") }
  let i : InCfg := { x := p.xb, padB := unhex! (kvStr t "padb"), padDLen := kvNat t "padd",
                     getSKey := getSKeyOf c [ih] false, select := fun _ => 0 }
  let r := accept c a i frb (w1 ++ w2)
  let modelObs :=
    match r.2 with
    | .panic => s!"res=panic frb={frb} wrote={hex r.1}"
    | .err e => s!"res=err:{bErrStr e} frb={frb} wrote={hex r.1}"
    | .ok k =>
      let wr := k.conn.write probe
      let wire := if wr.1 = probe then "plain" else "enc"
      s!"res=ok cipher={k.cipher} ext={hex k.peerExt} id={hex k.peerId} ih={hex k.infoHash} frb={frb} wrote={hex (r.1 ++ wr.1)} got={hex (connReadAll wr.2)} wire={wire}"
  let viol :=
    if kvStr io "res" = "ok" ∧ force then
      (if kvStr io "wire" ≠ "enc" then ["C12 forced-incoming-plaintext-connection"] else []) ++
      (if kvNat io "cipher" ≠ 2 then [s!"C12 forced-incoming-cipher-not-rc4 cipher={kvNat io "cipher"}"] else [])
    else []
  let tags :=
    [s!"branch:accept-{(kvStr (words modelObs) "res")}"] ++
    (if force then ["branch:accept-forced"] else []) ++
    (match r.2 with | .ok k => [s!"branch:accept-ok-cipher-{k.cipher}", "nontrivial"] | _ => [])
  (modelObs, viol, tags)

def runDial (p : Params) (t : List String) (implObs : String) : String × List String × List String :=
  let c := p.crypto
  let io := words implObs
  let in1 := unhex! (kvStr io "in1")
  let in2 := unhex! (kvStr io "in2")
  let probe := unhex! (kvStr t "probe")
  let enable := kvBool t "enable"
  let force := kvBool t "force"
  let g : DialCfg := { enable := enable, force := force, ext := unhex! (kvStr t "ourext"),
                       ih := unhex! (kvStr t "ih"), ourId := unhex! (kvStr t "ourid") }
  let e : DialEnv := { dial1 := true, stopped := false, dial2 := kvStr t "c2" ≠ "refuse", fr := 96,
                       inp1 := in1, inp2 := in2, x := p.xa, padA := unhex! (kvStr t "pada"),
                       padCLen := kvNat t "padc" }
  let r := dial c g e
  let w1 := r.1
  let w2 := r.2.1
  let conns := if w2.isEmpty then 1 else 2
  let inEcho := s!"in1={hex in1} in2={hex in2}"
  let modelObs :=
    match r.2.2 with
    | .panic => "res=panic"
    | .err er => s!"res=err:{bErrStr er} conns={conns} {inEcho} out1={hex w1} out2={hex w2} left=0"
    | .ok k =>
      let wr := k.conn.write probe
      let wire := if wr.1 = probe then "plain" else "enc"
      let o1 := if k.retried then w1 else w1 ++ wr.1
      let o2 := if k.retried then w2 ++ wr.1 else w2
      s!"res=ok cipher={k.cipher} retried={boolStr k.retried} conns={conns} ext={hex k.peerExt} id={hex k.peerId} {inEcho} out1={hex o1} out2={hex o2} got={hex (connReadUpTo wr.2 probe.length)} wire={wire}"
  -- C17: a connection whose handshake failed is closed, not kept (also the second socket of the plaintext retry)
  let leftViol := if kvStr io "left" = "1" then
      ["C17 failed-handshake-socket-left-open where=dial", "C12 failed-handshake-socket-left-open where=dial"] else []
  let viol := leftViol ++
    if force ∧ enable then
      (if kvStr io "res" = "ok" then
        (if kvStr io "wire" ≠ "enc" then ["C12 forced-outgoing-plaintext-connection"] else []) ++
        (if kvNat io "cipher" ≠ 2 then [s!"C12 forced-outgoing-cipher-not-rc4 cipher={kvNat io "cipher"}"] else []) ++
        (if kvNat io "retried" ≠ 0 then ["C12 forced-outgoing-retry-used"] else [])
       else []) ++
      (if kvNat io "conns" > 1 ∨ kvStr io "out2" ≠ "-" then ["C12 forced-outgoing-plaintext-retry-dialled"] else [])
    else []
  let tags :=
    [s!"branch:dial-{(kvStr (words modelObs) "res")}"] ++
    (if force ∧ enable then ["branch:dial-forced"] else []) ++
    (if force ∧ ¬ enable then ["branch:dial-inconsistent-setting"] else []) ++
    (match r.2.2 with
     | .ok k => [s!"branch:dial-ok-cipher-{k.cipher}-retried-{boolStr k.retried}", "nontrivial"]
     | _ => [])
  (modelObs, viol, tags)

/-- What the policy model assumes about package `torrent`: `Accept` gets
`Config.ForceIncomingEncryption`; the outgoing handshaker gets `Config.DisableOutgoingEncryption`
(negated into `enableEncryption` by the handshaker, checked by the `via=hs` cases) and
`Config.ForceOutgoingEncryption`. -/
def wiringExpected : String :=
  "incoming.force=ForceIncomingEncryption outgoing.disable,force=DisableOutgoingEncryption,ForceOutgoingEncryption"

/-- Oracle of the `wiring` case.  When the call sites pass recognisable configuration fields but
the wrong ones, a consistent configuration with a force flag set reaches `Accept` / `Dial` with the
flag cleared (or with encryption disabled): the forced setting is not honoured.  Unrecognised
expressions (a refactoring) only show up as a correspondence difference. -/
def wiringViolations (implObs : String) : List String :=
  let fields := ["ForceIncomingEncryption", "DisableOutgoingEncryption", "ForceOutgoingEncryption"]
  let t := words implObs
  let inc := kvStr t "incoming.force"
  let out := (kvStr t "outgoing.disable,force").splitOn ","
  (if fields.contains inc ∧ inc ≠ "ForceIncomingEncryption" then
     [s!"C12 forced-config-not-honoured site=torrent_connection.go force-param={inc}"] else []) ++
  (match out with
   | [d, f] =>
     if fields.contains d ∧ fields.contains f ∧ (d ≠ "DisableOutgoingEncryption" ∨ f ≠ "ForceOutgoingEncryption") then
       [s!"C12 forced-config-not-honoured site=torrent_peer.go disable-param={d} force-param={f}"] else []
   | _ => [])

def suite : Suite where
  name := "policy"
  runCase ops :=
    let (_, acc, tags) := ops.foldl
      (fun (st : Params × List (String × List String) × List String) (o : String × String) =>
        let (p, acc, tags) := st
        let t := words o.1
        match t.head? with
        | some "params" => (parseParams o.1 o.2, (o.2, []) :: acc, tags)
        | some "accept" => let (m, v, tg) := runAccept p t o.2; (p, (m, v) :: acc, tags ++ tg)
        | some "dial" => let (m, v, tg) := runDial p t o.2; (p, (m, v) :: acc, tags ++ tg)
        | some "wiring" => (p, (wiringExpected, wiringViolations o.2) :: acc, tags ++ ["branch:wiring"])
        | _ => (p, ("unknown-op", []) :: acc, tags))
      (({} : Params), [], [])
    (acc.reverse, tags.eraseDups)

end Driver.Suites.Policy
