import Driver.Util
/-!
Suite `movecrash` (C05): the receiving side of a torrent move is fed the sender's resume record (full bitfield)
and only a prefix of the data, then the sender dies.  Oracle only: while the data is incomplete and after the
failed transfer the receiver's resume database holds no record that claims pieces (`during`/`after` = -1, or a
record with an empty bitfield).  The observation is echoed.
-/
namespace Driver.Suites.MoveCrash
open Driver

def step (op implObs : String) : String × List String × List String :=
  let it := words implObs
  let viol :=
    (if kvInt it "during" > 0 then [s!"C05 resume-record-claims-pieces-before-data-arrived bitfield-bytes={kvInt it "during"}"] else []) ++
    (if kvInt it "after" > 0 then [s!"C05 resume-record-claims-pieces-after-failed-move bitfield-bytes={kvInt it "after"}"] else [])
  let toks := words op
  (implObs, viol, (if kvNat toks "cut" > 512 then ["nontrivial", "branch:cut-inside-data"] else ["branch:cut-before-data"]))

def suite : Suite where
  name := "movecrash"
  runCase ops :=
    let rs := ops.map fun (op, obs) => step op obs
    (rs.map fun (o, v, _) => (o, v), (rs.flatMap fun (_, _, t) => t).eraseDups)

end Driver.Suites.MoveCrash
