/-
Shared helpers for the line-protocol driver: tokenising op lines, parsing numbers / hex,
printing canonical observations.  Core Lean only.
-/
namespace Driver

/-- One suite of the correspondence check.  `runCase` receives, for one case, the list of
`(op, implObs)` pairs from the harness transcript and returns, per op, the model's
observation plus any oracle violations found on the *implementation's* observation, and
finally a list of statistic tags for the whole case (`nontrivial`, `branch:…`). -/
structure Suite where
  name : String
  runCase : List (String × String) → List (String × List String) × List String

def words (s : String) : List String :=
  (s.splitOn " ").filter (· ≠ "")

def parseNat! (s : String) : Nat := s.toNat?.getD 0

def parseInt! (s : String) : Int := s.toInt?.getD 0

/-- `a,b,c` → `[a,b,c]`; the empty string and `-` give `[]`. -/
def commaList (s : String) : List String :=
  if s = "" ∨ s = "-" then [] else s.splitOn ","

def natList (s : String) : List Nat := (commaList s).map parseNat!

def intList (s : String) : List Int := (commaList s).map parseInt!

def showNatList (l : List Nat) : String :=
  if l.isEmpty then "-" else ",".intercalate (l.map toString)

def showIntList (l : List Int) : String :=
  if l.isEmpty then "-" else ",".intercalate (l.map toString)

def hexDigit (c : Char) : Option Nat :=
  if '0' ≤ c ∧ c ≤ '9' then some (c.toNat - '0'.toNat)
  else if 'a' ≤ c ∧ c ≤ 'f' then some (c.toNat - 'a'.toNat + 10)
  else if 'A' ≤ c ∧ c ≤ 'F' then some (c.toNat - 'A'.toNat + 10)
  else none

/-- Hex string → bytes (as `Nat`s < 256).  `-` or empty → `[]`. Bad digits → `none`. -/
def unhex? (s : String) : Option (List Nat) :=
  if s = "-" then some [] else
  let rec go : List Char → List Nat → Option (List Nat)
    | [], acc => some acc.reverse
    | [_], _ => none
    | a :: b :: rest, acc =>
      match hexDigit a, hexDigit b with
      | some x, some y => go rest ((x * 16 + y) :: acc)
      | _, _ => none
  go s.toList []

def unhex! (s : String) : List Nat := (unhex? s).getD []

def hexNibble (n : Nat) : Char :=
  if n < 10 then Char.ofNat ('0'.toNat + n) else Char.ofNat ('a'.toNat + n - 10)

def hex (bs : List Nat) : String :=
  if bs.isEmpty then "-" else
  String.ofList (bs.flatMap fun b => [hexNibble ((b / 16) % 16), hexNibble (b % 16)])

/-- Look up `key=value` among tokens. -/
def kv? (toks : List String) (key : String) : Option String :=
  toks.findSome? fun t =>
    match t.splitOn "=" with
    | k :: rest => if k = key ∧ ¬ rest.isEmpty then some ("=".intercalate rest) else none
    | _ => none

def kvNat (toks : List String) (key : String) : Nat := ((kv? toks key).bind (·.toNat?)).getD 0
def kvInt (toks : List String) (key : String) : Int := ((kv? toks key).bind (·.toInt?)).getD 0
def kvStr (toks : List String) (key : String) : String := (kv? toks key).getD ""
def kvBool (toks : List String) (key : String) : Bool :=
  match kv? toks key with
  | some "1" | some "true" | some "t" => true
  | _ => false

def boolStr (b : Bool) : String := if b then "1" else "0"

/-- Generic fold helper for suites whose model is a state machine: `step st op implObs`
returns the new state, the model observation and oracle violations. -/
def foldCase {σ : Type} (init : σ) (step : σ → String → String → σ × String × List String)
    (ops : List (String × String)) : σ × List (String × List String) :=
  let (st, acc) := ops.foldl
    (fun (p : σ × List (String × List String)) (o : String × String) =>
      let (s, acc) := p
      let (s', obs, vs) := step s o.1 o.2
      (s', (obs, vs) :: acc)) (init, [])
  (st, acc.reverse)

end Driver
