#!/usr/bin/env python3
"""Regenerates MANIFEST.json from props/*.json + manifest_meta.json (so it is always valid)."""
import json, os, glob
V = os.path.dirname(os.path.abspath(__file__))
meta = json.load(open(os.path.join(V, "manifest_meta.json")))
props = [json.loads(l) for l in open(os.path.join(V, "properties.jsonl"))]
checks, na = [], []
for p in props:
    pid = p["id"]
    cf = os.path.join(V, "props", pid + ".json")
    c = json.load(open(cf)) if os.path.exists(cf) else {}
    m = c.get("manifest", {})
    if m.get("claimed", False):
        checks.append({
            "property_id": pid,
            "quick_cmd": f"./check {pid} quick",
            "thorough_cmd": f"./check {pid} thorough",
            "evidence_file": f"/verif/evidence/{pid}.json",
            "replay_cmd_template": f"./check {pid} --replay {{path}}",
            "engine": "lean4-proof+correspondence",
            "level_claimed": {"category": c.get("level", "proof"), "text": m["text"], "design_ref": m.get("design_ref", "DESIGN.md section 7")},
            "level_note": m["note"],
            "technique": m.get("technique", "Lean 4 theorems over an executable model; model tied to the Go code by differential correspondence"),
        })
    else:
        na.append({"property_id": pid, "reason": m.get("na_reason", "machinery for this property is not built yet; not claimed")})
man = {
    "version": 1,
    "setup_cmd": "./setup.sh",
    "hooks": meta["hooks"],
    "engines": meta["engines"],
    "checks": checks,
    "notes": meta["notes"],
    "not_applicable": na,
}
json.dump(man, open(os.path.join(V, "MANIFEST.json"), "w"), indent=1)
# known_findings.json is assembled from findings/*.json (one file per property, merge friendly)
fl = []
for f in sorted(glob.glob(os.path.join(V, "findings", "*.json"))):
    fl.extend(json.load(open(f)))
json.dump({"_comment": "Committed list of genuine defects of cenkalti/rain found by the checks (assembled from findings/*.json by tools_manifest.py; never written at run time). status=known entries are matched against the oracle's violation text and printed as KNOWN-FINDING; status=fixed entries suppress nothing.",
           "findings": fl}, open(os.path.join(V, "known_findings.json"), "w"), indent=1)
for e in meta["engines"]:
    e["serves_properties"] = [c["property_id"] for c in checks]
json.dump(man, open(os.path.join(V, "MANIFEST.json"), "w"), indent=1)
print(f"{len(checks)} checks, {len(na)} not claimed, {len(fl)} findings")
