#!/usr/bin/env python3
"""Regenerates MANIFEST.json from props/*.json + manifest_meta.json (so it is always valid)."""
import json, os, glob
V = os.path.dirname(os.path.abspath(__file__))
meta = json.load(open(os.path.join(V, "manifest_meta.json")))
props = [json.loads(l) for l in open(os.path.join(V, "properties.jsonl"))]
checks, na = [], []
for p in props:
    pid = p["id"]
    cf = os.path.join(V, "props", pid + ".json")
    m = meta["properties"].get(pid, {})
    if os.path.exists(cf) and m.get("claimed", False):
        c = json.load(open(cf))
        checks.append({
            "property_id": pid,
            "quick_cmd": f"./check {pid} quick",
            "thorough_cmd": f"./check {pid} thorough",
            "evidence_file": f"/verif/evidence/{pid}.json",
            "replay_cmd_template": f"./check {pid} --replay {{path}}",
            "engine": "lean4-proof+correspondence",
            "level_claimed": {"category": c.get("level", "proof"), "text": m["text"], "design_ref": m.get("design_ref", "DESIGN.md section 7")},
            "level_note": m["note"],
            "technique": m.get("technique", "Lean 4 theorems over an executable model; model tied to the Go code by differential correspondence"),
        })
    else:
        na.append({"property_id": pid, "reason": m.get("na_reason", "machinery for this property is not built yet; not claimed")})
man = {
    "version": 1,
    "setup_cmd": "./setup.sh",
    "hooks": meta["hooks"],
    "engines": meta["engines"],
    "checks": checks,
    "notes": meta["notes"],
    "not_applicable": na,
}
json.dump(man, open(os.path.join(V, "MANIFEST.json"), "w"), indent=1)
print(f"{len(checks)} checks, {len(na)} not claimed")
