import json, os, re, sys, time, subprocess, hashlib, shutil, tempfile, fcntl, concurrent.futures

VERIF = os.path.dirname(os.path.dirname(os.path.abspath(__file__)))
REPO = os.environ.get("VERIF_REPO", "/repo")
LEAN = os.path.join(VERIF, "lean")
WORK = os.path.join(VERIF, ".work")
REPLAYS = os.path.join(VERIF, "replays")
EVIDENCE = os.path.join(VERIF, "evidence")
ALLOWED_AXIOMS = {"propext", "Classical.choice", "Quot.sound"}
FORBIDDEN = re.compile(r"\bsorry\b|\badmit\b|^axiom\s|native_decide|bv_decide|implemented_by|\bunsafe\s|maxHeartbeats\s+0\b|\bsorryAx\b")

GOENV = dict(os.environ)
GOENV.update({"GOFLAGS": "-mod=mod", "GOPROXY": "off", "CGO_ENABLED": GOENV.get("CGO_ENABLED", "0")})
# GOSUMDB / GOTOOLCHAIN deliberately left alone (see DESIGN 2).


def log(*a):
    print(*a, file=sys.stderr, flush=True)


def sh(cmd, cwd=None, env=None, timeout=None, stdin=None, stdout=subprocess.PIPE):
    t0 = time.time()
    try:
        p = subprocess.run(cmd, cwd=cwd, env=env, timeout=timeout, stdin=stdin, stdout=stdout,
                           stderr=subprocess.STDOUT if stdout == subprocess.PIPE else subprocess.PIPE, text=True)
        return p.returncode, (p.stdout if stdout == subprocess.PIPE else (p.stderr or "")), time.time() - t0
    except subprocess.TimeoutExpired as e:
        out = e.stdout if isinstance(e.stdout, str) else (e.stdout.decode(errors="replace") if e.stdout else "")
        return -9, out + "\n[timeout]", time.time() - t0


class Lock:
    """flock-based lock so concurrent ./check runs do not run lake / overlay generation at once."""
    def __init__(self, name):
        os.makedirs(WORK, exist_ok=True)
        self.path = os.path.join(WORK, name + ".lock")
    def __enter__(self):
        self.f = open(self.path, "w")
        fcntl.flock(self.f, fcntl.LOCK_EX)
        return self
    def __exit__(self, *a):
        fcntl.flock(self.f, fcntl.LOCK_UN)
        self.f.close()


# ----------------------------------------------------------------------------------------------
# Lean side
# ----------------------------------------------------------------------------------------------

def strip_comments(src):
    # remove /- … -/ (nested) and -- … comments, keep line structure
    out, i, depth, n = [], 0, 0, len(src)
    while i < n:
        if src.startswith("/-", i):
            depth += 1; i += 2; continue
        if depth and src.startswith("-/", i):
            depth -= 1; i += 2; continue
        if depth:
            if src[i] == "\n": out.append("\n")
            i += 1; continue
        if src.startswith("--", i):
            while i < n and src[i] != "\n": i += 1
            continue
        out.append(src[i]); i += 1
    return "".join(out)


def grep_forbidden():
    hits = []
    for root in ("RainModel", "Driver"):
        for dp, _, fs in os.walk(os.path.join(LEAN, root)):
            for f in fs:
                if not f.endswith(".lean"): continue
                p = os.path.join(dp, f)
                body = strip_comments(open(p, encoding="utf-8").read())
                # string literals may legitimately mention words; drop them
                body = re.sub(r'"(\\.|[^"\\])*"', '""', body)
                for ln, line in enumerate(body.split("\n"), 1):
                    if FORBIDDEN.search(line):
                        hits.append(f"{os.path.relpath(p, LEAN)}:{ln}: {line.strip()[:120]}")
    return hits


def run_extractor(rundir):
    """Regenerate RainModel/Generated/*.lean from /repo's current source (translator tie)."""
    ex = os.path.join(VERIF, "extract", "extract.go")
    if not os.path.exists(ex):
        return True, "no extractor"
    gen = os.path.join(LEAN, "RainModel", "Generated")
    os.makedirs(gen, exist_ok=True)
    tmp = os.path.join(rundir, "gen")
    os.makedirs(tmp, exist_ok=True)
    srcs = sorted(f for f in os.listdir(os.path.dirname(ex)) if f.endswith(".go") and not f.endswith("_test.go"))
    rc, out, _ = sh(["go", "run"] + srcs + ["-repo", REPO, "-out", tmp], cwd=os.path.join(VERIF, "extract"), env=GOENV, timeout=300)
    if rc != 0:
        return False, out
    # only touch files whose content changed, so lake does not rebuild needlessly
    for f in os.listdir(tmp):
        src, dst = os.path.join(tmp, f), os.path.join(gen, f)
        new = open(src).read()
        if not os.path.exists(dst) or open(dst).read() != new:
            with open(dst, "w") as h: h.write(new)
    return True, out


def lean_obligations(cfg, rundir, tier):
    """Returns dict(obligations, discharged, failures[list of str], checker_cmd)."""
    theorems = cfg.get("theorems", [])
    modules = cfg.get("lean_modules", [])
    res = {"obligations": len(theorems), "discharged": 0, "failures": [], "axioms": {},
           "checker_cmd": "cd /verif/lean && lake build " + " ".join(modules) + " && lake env lean <#print axioms of every listed theorem>"}
    with Lock("lake"):
        ok, out = run_extractor(rundir)
        if not ok:
            res["failures"].append("extractor failed: " + out[-2000:])
            return res
        rc, out, dt = sh(["lake", "build"] + modules + ["driver"], cwd=LEAN, timeout=3000)
        res["build_s"] = round(dt, 1)
        if rc != 0:
            errs = [l for l in out.split("\n") if "error" in l.lower()][:20]
            res["failures"].append("lake build failed: " + " | ".join(errs))
            res["build_log"] = out[-6000:]
            # which modules still build? (so that only theorems of broken modules count as undischarged)
            good = []
            for m in modules:
                rc2, _, _ = sh(["lake", "build", m], cwd=LEAN, timeout=3000)
                if rc2 == 0: good.append(m)
            modules_ok = good
        else:
            modules_ok = list(modules)
        hits = grep_forbidden()
        if hits:
            res["failures"].append("forbidden tokens: " + "; ".join(hits[:10]))
        # axioms audit
        if modules_ok and theorems:
            ax = os.path.join(rundir, "Axioms.lean")
            with open(ax, "w") as h:
                for m in modules_ok: h.write(f"import {m}\n")
                for t in theorems: h.write(f"#print axioms {t}\n")
            rc, out, _ = sh(["lake", "env", "lean", ax], cwd=LEAN, timeout=1800)
            text = out.replace("\n  ", " ").replace("\n ", " ")
            for t in theorems:
                m = re.search(r"'" + re.escape(t) + r"' depends on axioms: \[([^\]]*)\]", text)
                if m:
                    axs = [a.strip() for a in m.group(1).split(",") if a.strip()]
                elif re.search(r"'" + re.escape(t) + r"' does not depend on any axioms", text):
                    axs = []
                else:
                    res["failures"].append(f"theorem {t}: not found / does not check")
                    continue
                res["axioms"][t] = axs
                bad = [a for a in axs if a not in ALLOWED_AXIOMS]
                if bad:
                    res["failures"].append(f"theorem {t}: disallowed axioms {bad}")
                elif not hits:
                    res["discharged"] += 1
        if tier == "thorough" and modules_ok and os.environ.get("VERIF_SKIP_LEANCHECKER") != "1":
            for m in modules_ok:
                rc, out, dt = sh(["lake", "env", "leanchecker", m], cwd=LEAN, timeout=3000)
                res.setdefault("leanchecker", {})[m] = {"rc": rc, "s": round(dt, 1)}
                if rc != 0:
                    res["failures"].append(f"leanchecker {m} failed: {out[-500:]}")
                    res["discharged"] = 0
    return res


# ----------------------------------------------------------------------------------------------
# Go side
# ----------------------------------------------------------------------------------------------

def build_harness(rundir, extra_flags=None):
    ov_root = os.path.join(VERIF, "harness", "overlay")
    repl = {}
    for dp, _, fs in os.walk(ov_root):
        for f in fs:
            src = os.path.join(dp, f)
            rel = os.path.relpath(src, ov_root)
            repl[os.path.join(REPO, rel)] = src
    ovj = os.path.join(rundir, "overlay.json")
    with open(ovj, "w") as h: json.dump({"Replace": repl}, h)
    binp = os.path.join(rundir, "verifharness")
    env = dict(GOENV)
    if extra_flags and "-race" in extra_flags:
        env["CGO_ENABLED"] = "1"
    rc, out, dt = sh(["go", "build"] + list(extra_flags or []) + ["-tags", "verif", "-overlay", ovj, "-o", binp, "./internal/verifharness"],
                     cwd=REPO, env=env, timeout=2400)
    return rc == 0, binp, out, dt


def parse_transcript(text):
    """-> list of dict(id, ops[], obs[], viol[[...]], tags[])"""
    cases, cur = [], None
    for line in text.split("\n"):
        if line.startswith("case "):
            cur = {"id": line[5:], "ops": [], "obs": [], "viol": [], "tags": []}
            cases.append(cur)
        elif cur is None:
            continue
        elif line.startswith("> "):
            cur["ops"].append(line[2:])
        elif line.startswith("< ") or line == "<":
            cur["obs"].append(line[2:])
            cur["viol"].append([])
        elif line.startswith("! "):
            if cur["viol"]: cur["viol"][-1].append(line[2:])
            else: cur.setdefault("caseviol", []).append(line[2:])
        elif line.startswith("# "):
            cur["tags"].append(line[2:])
    return cases


def run_harness(binp, suite, mode_args, out_path, timeout):
    env = dict(os.environ)
    env.setdefault("GOMEMLIMIT", "3GiB")
    os.makedirs(REPLAYS, exist_ok=True)
    env.setdefault("VERIF_DUMP_DIR", REPLAYS)
    env.setdefault("GORACE", "log_path=%s halt_on_error=0 exitcode=0" % os.path.join(os.path.dirname(out_path), "racelog"))
    cmd = [binp] + mode_args + ["-out", out_path]
    rc, out, dt = sh(cmd, cwd=os.path.dirname(binp), env=env, timeout=timeout)
    return rc, out, dt


def run_driver(suite, transcript_path, out_path, timeout=1800):
    drv = os.path.join(LEAN, ".lake", "build", "bin", "driver")
    with open(transcript_path) as fin, open(out_path, "w") as fout:
        try:
            p = subprocess.run([drv, suite], stdin=fin, stdout=fout, stderr=subprocess.PIPE, text=True, timeout=timeout)
            return p.returncode, p.stderr
        except subprocess.TimeoutExpired:
            return -9, "driver timeout"


class SuiteResult:
    def __init__(self, name):
        self.name = name
        self.cases = 0
        self.ops = 0
        self.distinct = set()
        self.nontrivial = set()
        self.tags = {}
        self.diffs = []        # (case dict impl, case dict model, index)
        self.violations = []   # (case impl, text)
        self.crashes = []      # (case impl-ish, text)
        self.samples = []
        self.errors = []
        self.wall = 0.0


def compare(name, impl_text, model_text, res, prop):
    impl = parse_transcript(impl_text)
    model = {c["id"]: c for c in parse_transcript(model_text)}
    for c in impl:
        res.cases += 1
        res.ops += len(c["ops"])
        h = hashlib.sha1("\n".join(c["ops"]).encode()).hexdigest()
        res.distinct.add(h)
        m = model.get(c["id"])
        if m is None:
            res.diffs.append((c, None, 0))
            continue
        for t in m["tags"]:
            res.tags[t] = res.tags.get(t, 0) + 1
        if "nontrivial" in m["tags"]:
            res.nontrivial.add(h)
        if len(res.samples) < 3 and ("nontrivial" in m["tags"] or res.cases <= 1):
            res.samples.append({"suite": name, "case": c["id"], "ops": c["ops"][:12], "impl_obs": [o[:300] for o in c["obs"][:12]]})
        # oracle violations on implementation output
        for i, vs in enumerate(m["viol"]):
            for v in vs:
                res.violations.append((c, m, i, v))
        for v in m.get("caseviol", []):
            res.violations.append((c, m, 0, v))
        # correspondence
        if len(m["obs"]) != len(c["obs"]):
            res.diffs.append((c, m, min(len(m["obs"]), len(c["obs"]))))
        else:
            for i, (a, b) in enumerate(zip(c["obs"], m["obs"])):
                if a != b:
                    res.diffs.append((c, m, i))
                    break


def exec_suite(binp, rundir, sname, scfg, tier, seed, prop, extra_seed_offset=0, budget_cases=None):
    res = SuiteResult(sname)
    t0 = time.time()
    tcfg = scfg.get(tier, scfg.get("quick", {}))
    n = budget_cases if budget_cases is not None else tcfg.get("n", 100)
    timeout = tcfg.get("timeout", 600)
    sdir = os.path.join(rundir, sname + (f"-s{extra_seed_offset}" if extra_seed_offset else ""))
    os.makedirs(sdir, exist_ok=True)
    runs = []
    corpus = os.path.join(VERIF, "corpus", sname)
    if os.path.isdir(corpus) and not extra_seed_offset:
        for f in sorted(os.listdir(corpus)):
            if f.endswith(".case"):
                runs.append(("corpus:" + f, ["replay", sname, "-in", os.path.join(corpus, f)]))
    runs.append(("gen", ["gen", sname, "-seed", str(seed + extra_seed_offset), "-n", str(n), "-tier", tier]))
    for k, (label, args) in enumerate(runs):
        start = 0
        restarts = 0
        while True:
            tp = os.path.join(sdir, f"impl-{k}-{restarts}.txt")
            a = list(args)
            if start: a += ["-from", str(start)]
            rc, out, dt = run_harness(binp, sname, a, tp, timeout)
            text = open(tp, errors="replace").read() if os.path.exists(tp) else ""
            if rc != 0:
                # crash / hang: last case is the culprit
                cs = parse_transcript(text)
                culprit = cs[-1] if cs else {"id": "?", "ops": [], "obs": []}
                kind = "hang" if rc == -9 else "crash"
                tail = " ".join(out.strip().split("\n")[-30:])[:1500]
                first = ""
                mm = re.search(r"(panic: [^\n]*|fatal error: [^\n]*)", out)
                if mm: first = mm.group(1)
                res.crashes.append((culprit, f"{kind} rc={rc} {first}", tail))
                # truncate the culprit case from the text used for comparison
                idx = text.rfind("case " + culprit["id"])
                if idx >= 0: text = text[:idx]
                done_cases = len(cs) - 1
                start += done_cases + 1
                restarts += 1
                with open(tp, "w") as h: h.write(text)
            mp = os.path.join(sdir, f"model-{k}-{restarts}.txt")
            if text.strip():
                drc, derr = run_driver(sname, tp, mp)
                if drc != 0:
                    res.errors.append(f"driver failed on {label}: rc={drc} {derr[-500:]}")
                else:
                    compare(sname, text, open(mp).read(), res, prop)
            # a timeout is not retried (a hanging implementation would cost the full budget again and again);
            # crashes are skipped over at most three times
            if rc == 0 or rc == -9 or restarts > 3 or (time.time() - t0) > 2 * timeout:
                break
    res.wall = time.time() - t0
    return res


# ----------------------------------------------------------------------------------------------
# Replays, shrinking, known findings
# ----------------------------------------------------------------------------------------------

def load_known():
    p = os.path.join(VERIF, "known_findings.json")
    if not os.path.exists(p): return []
    return json.load(open(p)).get("findings", [])


def match_known(prop, suite, text, known):
    for k in known:
        if k.get("status") != "known" or k.get("property") != prop: continue
        m = k.get("match", {})
        if m.get("suite") not in (None, suite): continue
        pat = m.get("regex")
        if pat and re.search(pat, text): return k
        sub = m.get("contains")
        if sub and sub in text: return k
    return None


def viol_key(text):
    """Violation class: text with numbers / hex removed (used to report one replay per class)."""
    t = re.sub(r"=[^ ]*", "=", text)
    return re.sub(r"[0-9]+", "N", t)[:160]


def write_replay(prop, suite, case, model, note, kind):
    os.makedirs(REPLAYS, exist_ok=True)
    body = [f"# property={prop} suite={suite} kind={kind}", f"# {note}", f"case {case['id']}"]
    for i, op in enumerate(case["ops"]):
        body.append("> " + op)
        if i < len(case["obs"]): body.append("< " + case["obs"][i])
        if model and i < len(model["obs"]): body.append("# model: " + model["obs"][i])
        if model and i < len(model["viol"]):
            for v in model["viol"][i]: body.append("# oracle: " + v)
    text = "\n".join(body) + "\n"
    h = hashlib.sha1(text.encode()).hexdigest()[:10]
    p = os.path.join(REPLAYS, f"{prop}-{suite}-{h}.case")
    with open(p, "w") as f: f.write(text)
    return p


def replay_case(binp, rundir, suite, ops, cid="shrink", timeout=120):
    d = tempfile.mkdtemp(dir=rundir)
    cf = os.path.join(d, "in.case")
    with open(cf, "w") as h:
        h.write(f"case {cid}\n" + "".join("> " + o + "\n" for o in ops))
    tp = os.path.join(d, "impl.txt")
    rc, out, _ = run_harness(binp, suite, ["replay", suite, "-in", cf], tp, timeout)
    text = open(tp, errors="replace").read() if os.path.exists(tp) else ""
    if rc != 0:
        return None, None, f"{'hang' if rc == -9 else 'crash'}"
    mp = os.path.join(d, "model.txt")
    drc, _ = run_driver(suite, tp, mp)
    if drc != 0: return None, None, "driver"
    ic = parse_transcript(text)
    mc = parse_transcript(open(mp).read())
    if not ic or not mc: return None, None, "empty"
    return ic[0], mc[0], None


def shrink(binp, rundir, suite, case, pred, max_runs=60):
    """Greedy op-deletion (ddmin-lite).  pred(impl_case, model_case, err) -> bool 'still fails the same way'."""
    ops = list(case["ops"])
    runs = 0
    if len(ops) <= 1: return ops
    chunk = max(1, len(ops) // 2)
    while chunk >= 1 and runs < max_runs:
        i = 0
        changed = False
        while i < len(ops) and runs < max_runs:
            cand = ops[:i] + ops[i + chunk:]
            if not cand:
                i += chunk; continue
            ic, mc, err = replay_case(binp, rundir, suite, cand)
            runs += 1
            if pred(ic, mc, err):
                ops = cand; changed = True
            else:
                i += chunk
        if chunk == 1 and not changed: break
        chunk = max(1, chunk // 2) if chunk > 1 else (1 if changed else 0)
    return ops


# ----------------------------------------------------------------------------------------------
# Main
# ----------------------------------------------------------------------------------------------

def load_cfg(prop):
    p = os.path.join(VERIF, "props", prop + ".json")
    if not os.path.exists(p):
        log(f"no configuration for {prop} ({p})")
        sys.exit(2)
    return json.load(open(p))


def write_evidence(prop, tier, seed, cfg, lean, sres, nviol, wall, extra=None):
    os.makedirs(EVIDENCE, exist_ok=True)
    evaluations = sum(r.cases for r in sres)
    distinct_nt = sum(len(r.nontrivial) for r in sres)
    samples = []
    for r in sres: samples.extend(r.samples[:2])
    for t in list(lean.get("axioms", {}).items())[:3]:
        samples.append({"obligation": t[0], "axioms": t[1]})
    cov = {
        "obligations": lean["obligations"], "discharged": lean["discharged"],
        "checker_cmd": lean["checker_cmd"],
        "trusted_base": cfg.get("trusted_base", []) + [
            "Lean 4.33.0 kernel; axioms limited to propext, Classical.choice, Quot.sound (audited per theorem by #print axioms)",
            "correspondence harness (/verif/harness, built into /repo by go build -tags verif -overlay), Lean driver (/verif/lean/Driver), ./check",
        ],
        "theorems": lean.get("axioms", {}),
        "proof_failures": lean["failures"],
        "evaluations": evaluations, "distinct_nontrivial": distinct_nt,
        "rule": cfg.get("rule", ""),
        "samples": samples or [{"note": "no cases run"}],
        "suites": {r.name: {"cases": r.cases, "ops": r.ops, "distinct": len(r.distinct), "nontrivial": len(r.nontrivial),
                            "tags": r.tags, "correspondence_diffs": len(r.diffs), "oracle_violations": len(r.violations),
                            "crashes": len(r.crashes), "wall_s": round(r.wall, 1), "errors": r.errors[:3]} for r in sres},
        "traces_validated_against_impl": evaluations,
        "exhaustive": bool(cfg.get("exhaustive_note")),
        "explanation": cfg.get("explanation", ""),
    }
    if cfg.get("exhaustive_note"): cov["exhaustive_note"] = cfg["exhaustive_note"]
    if extra: cov.update(extra)
    ev = {"property_id": prop, "tier": tier, "seed": seed, "level": cfg.get("level", "proof"), "coverage": cov,
          "assumptions": cfg.get("assumptions", []), "wall_s": round(wall, 1), "violations": nviol}
    with open(os.path.join(EVIDENCE, prop + ".json"), "w") as h:
        json.dump(ev, h, indent=1)


def main(argv):
    if len(argv) < 2:
        print(__doc__ or "usage: check <Cxx> <quick|thorough> [--replay FILE]")
        return 2
    prop = argv[0]
    replay_file = None
    if argv[1] == "--replay":
        replay_file = argv[2]; tier = "quick"
    else:
        tier = argv[1]
        if len(argv) >= 4 and argv[2] == "--replay": replay_file = argv[3]
    tier = os.environ.get("VERIF_TIER", tier) if tier not in ("quick", "thorough") else tier
    seed = int(os.environ.get("VERIF_SEED", "1") or "1")
    cfg = load_cfg(prop)
    t0 = time.time()
    os.makedirs(WORK, exist_ok=True)
    rundir = tempfile.mkdtemp(prefix=f"{prop}-{tier}-", dir=WORK)
    try:
        return run_check(prop, tier, seed, cfg, rundir, t0, replay_file)
    finally:
        if os.environ.get("VERIF_KEEP") != "1":
            shutil.rmtree(rundir, ignore_errors=True)


def run_check(prop, tier, seed, cfg, rundir, t0, replay_file):
    known = load_known()
    out_lines = []
    nviol = 0

    # 1. proof obligations
    lean = lean_obligations(cfg, rundir, tier)
    proof_ok = lean["discharged"] == lean["obligations"] and not lean["failures"]
    log(f"[{prop}] proof obligations: {lean['discharged']}/{lean['obligations']} discharged" +
        ("" if proof_ok else f"  FAILURES: {lean['failures'][:3]}"))

    # 2. harness
    ok, binp, bout, bdt = build_harness(rundir, cfg.get("go_build_flags"))
    sres = []
    harness_ok = ok
    if not ok:
        log(f"[{prop}] harness does not build against the current tree:\n{bout[-3000:]}")

    driver_ok = os.path.exists(os.path.join(LEAN, ".lake", "build", "bin", "driver"))

    if replay_file:
        if not (ok and driver_ok): return 2
        text = open(replay_file).read()
        suite = re.search(r"suite=(\S+)", text).group(1)
        cs = parse_transcript(text)
        for c in cs:
            ic, mc, err = replay_case(binp, rundir, suite, c["ops"], c["id"])
            print(f"case {c['id']}  ({err or 'ran'})")
            if ic:
                for i, op in enumerate(ic["ops"]):
                    print("> " + op); print("< impl : " + (ic["obs"][i] if i < len(ic["obs"]) else "?"))
                    print("< model: " + (mc["obs"][i] if i < len(mc["obs"]) else "?"))
                    for v in (mc["viol"][i] if i < len(mc["viol"]) else []): print("! " + v)
        return 0

    suites = cfg.get("suites", [])
    if ok and driver_ok:
        with concurrent.futures.ThreadPoolExecutor(max_workers=min(8, max(1, len(suites)))) as ex:
            futs = [ex.submit(exec_suite, binp, rundir, s["name"], s, tier, seed, prop) for s in suites]
            for f in futs: sres.append(f.result())

    # 3/4. decide
    reported = {}      # class -> replay path
    known_lines = {}
    corr_broken = []

    def report_violation(suite, case, model, text, kind):
        nonlocal nviol
        k = match_known(prop, suite, text, known)
        if k:
            known_lines[k["id"]] = f"KNOWN-FINDING: property={prop} {k['what']}"
            return
        key = (suite, viol_key(text))
        if key in reported: return
        # shrink multi-op cases
        if len(case["ops"]) > 1 and kind == "oracle" and harness_ok:
            want = viol_key(text)
            def pred(ic, mc, err):
                if mc is None: return False
                return any(viol_key(v) == want for vs in mc["viol"] for v in vs)
            ops = shrink(binp, rundir, suite, case, pred)
            if len(ops) < len(case["ops"]):
                ic, mc, err = replay_case(binp, rundir, suite, ops, case["id"] + "-min")
                if ic is not None: case, model = ic, mc
        p = write_replay(prop, suite, case, model, text, kind)
        reported[key] = p
        nviol += 1
        out_lines.append(f"VIOLATION property={prop} replay={p}")
        log(f"[{prop}] {kind} violation in suite {suite}: {text[:300]}")

    for r in sres:
        for (c, m, i, v) in r.violations:
            if v.split(" ")[0] != prop and v.split(" ")[0] not in cfg.get("alias_props", []): continue   # another property's oracle; its own check reports it
            report_violation(r.name, c, m, v, "oracle")
        for (c, what, tail) in r.crashes:
            scfg = next(s for s in suites if s["name"] == r.name)
            if scfg.get("crash_is_violation", True):
                report_violation(r.name, c, None, f"{prop} process-{what}", "crash")
        for e in r.errors:
            corr_broken.append(f"suite {r.name}: {e}")
        if r.diffs:
            c, m, i = r.diffs[0]
            # a diff on a case whose oracle already failed (and is reported / known) is the same event
            mine = [prop] + cfg.get("alias_props", [])
            unexplained = [(c, m, i) for (c, m, i) in r.diffs
                           if not (m and any(v.split(" ")[0] in mine for j in range(len(m["viol"])) for v in m["viol"][j]))]
            if unexplained:
                c, m, i = unexplained[0]
                corr_broken.append(f"suite {r.name}: {len(unexplained)} case(s) differ; first: case {c['id']} op#{i} "
                                   f"op={c['ops'][i] if i < len(c['ops']) else '?'} impl={c['obs'][i][:200] if i < len(c['obs']) else '?'} "
                                   f"model={(m['obs'][i][:200] if m and i < len(m['obs']) else '?')}")
                r._first_diff = (c, m, i)

    # static oracle of C20: (function, field) pairs that break the ownership discipline, recomputed by the
    # extractor from the current source, minus the pairs recorded in the Lean known list
    if cfg.get("access_known_file"):
        try:
            facts = json.load(open(os.path.join(rundir, "gen", "facts.json")))
            ktext = open(os.path.join(VERIF, cfg["access_known_file"])).read()
            def known_block(name):
                m = re.search(r"def " + name + r"\b[^\[]*:= \[(.*?)\n\]", ktext, re.S)
                return set(a + "|" + b for a, b in re.findall(r'\("([^"]+)",\s*"([^"]+)"\)', m.group(1))) if m else set()
            kpairs = known_block("knownPairs")
            for v in facts.get("violations", []):
                if v not in kpairs:
                    c = {"id": "access-table", "ops": ["extract /repo/torrent"], "obs": [v]}
                    report_violation("access", c, None, f"{prop} unsynchronised-access pair={v}", "oracle")
            fixed_pairs = sorted(kpairs - set(facts.get("violations", [])))
            if fixed_pairs: log(f"[{prop}] known pairs no longer present: {fixed_pairs[:5]}")
            # guarded fields of Session touched without their mutex: sites not in the Lean known list are violations,
            # recorded ones must be covered by a known finding
            for v in facts.get("session_field_violations", []):
                sites = [x for x in facts.get("session_field_violation_sites", []) if x.startswith(v + "|")]
                c = {"id": "session-fields", "ops": ["extract guarded fields of Session (theorem Rain.Props.C20.session_fields_guarded_except_known)"] + ["site " + x for x in sites],
                     "obs": [v] + ["guard not held (or only shared for a write)"] * len(sites)}
                report_violation("session-fields", c, None, f"{prop} unguarded-session-field:{v.replace('|', ':')}", "static")
            # lock-nesting graph: every cycle found by the extractor is a counterexample to lock_nesting_acyclic;
            # the replay lists the nestings (function, file:line, call chain) that close the cycle
            for cyc in facts.get("lock_cycles", []):
                name = ">".join(cyc["locks"] + cyc["locks"][:1])
                c = {"id": "lock-nesting", "ops": ["extract lock nesting of /repo/torrent and /repo/internal (theorem Rain.Props.C20.lock_nesting_acyclic fails)"] + ["edge " + e for e in cyc["edges"]],
                     "obs": ["cycle " + name] + ["potential deadlock: one goroutine per edge, each holding the first lock and waiting for the second"] * len(cyc["edges"])}
                report_violation("lock-nesting", c, None, f"{prop} lock-nesting-cycle:{name} theorem=Rain.Props.C20.lock_nesting_acyclic", "static")
            for le in facts.get("lock_loop_carried", []):
                if not le.get("gate"):
                    c = {"id": "lock-nesting", "ops": [f"extract lock nesting (theorem Rain.Props.C20.loop_carried_locks_gated fails)"],
                         "obs": [f"{le['fn']} at {le['pos']} takes {le['lock']} of one element after the other without an exclusive lock around the sequence"]}
                    report_violation("lock-nesting", c, None, f"{prop} loop-carried-lock-ungated:{le['fn']}:{le['lock']} theorem=Rain.Props.C20.loop_carried_locks_gated", "static")
        except Exception as e:
            corr_broken.append("access table: " + str(e))

    broken = []
    if not proof_ok:
        broken.append("proof: " + "; ".join(lean["failures"][:4]))
    if not harness_ok:
        broken.append("harness does not compile against the current tree: " + " ".join(bout.strip().split("\n")[-6:])[:600])
    if not driver_ok:
        broken.append("lean driver missing (lake build failed)")
    broken.extend(corr_broken)

    if broken and nviol == 0:
        # search for a failing input on the implementation with the oracle (other seeds)
        found = False
        budget = cfg.get("search_s", {"quick": 20, "thorough": 240}).get(tier, 20)
        ts = time.time()
        off = 1000
        if harness_ok and driver_ok:
            while time.time() - ts < budget and not found:
                for s in suites:
                    r2 = exec_suite(binp, rundir, s["name"], s, tier, seed, prop, extra_seed_offset=off)
                    for (c, m, i, v) in r2.violations:
                        if v.split(" ")[0] != prop and v.split(" ")[0] not in cfg.get("alias_props", []): continue
                        before = nviol
                        report_violation(r2.name, c, m, v, "oracle")
                        if nviol > before: found = True
                    if time.time() - ts > budget: break
                off += 1000
        if not found:
            os.makedirs(REPLAYS, exist_ok=True)
            body = [f"# property={prop} kind=unproved", "# The property is no longer shown to hold: the following obligation(s) / correspondence(s) do not check.",
                    "# No failing input was found on the implementation within the search budget."]
            body += ["# " + b for b in broken]
            for r in sres:
                fd = getattr(r, "_first_diff", None)
                if fd:
                    c, m, i = fd
                    body.append(f"# suite={r.name}")
                    body.append(f"case {c['id']}")
                    for j, op in enumerate(c["ops"]):
                        body.append("> " + op)
                        if j < len(c["obs"]): body.append("< " + c["obs"][j])
                        if m and j < len(m["obs"]): body.append("# model: " + m["obs"][j])
            if lean.get("build_log"): body += ["# lake build log tail:"] + ["#   " + l for l in lean["build_log"].split("\n")[-40:]]
            text = "\n".join(body) + "\n"
            p = os.path.join(REPLAYS, f"{prop}-unproved-{hashlib.sha1(text.encode()).hexdigest()[:10]}.txt")
            with open(p, "w") as h: h.write(text)
            nviol += 1
            out_lines.append(f"VIOLATION property={prop} replay={p} no-failing-input-found")
            for b in broken: log(f"[{prop}] broken: {b[:600]}")

    for l in known_lines.values(): print(l)
    for l in out_lines: print(l)
    wall = time.time() - t0
    write_evidence(prop, tier, seed, cfg, lean, sres, nviol, wall,
                   extra={"known_findings_seen": sorted(known_lines.keys()), "harness_build_s": round(bdt, 1)})
    tot = sum(r.cases for r in sres)
    log(f"[{prop}] {tier}: {tot} cases in {len(sres)} suite(s), {nviol} violation(s), {wall:.1f}s")
    return 1 if nviol else 0
