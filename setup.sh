#!/bin/sh
# MANIFEST.setup_cmd: build the Lean models, theorems and driver; warm the Go build cache. Offline.
set -e
cd "$(dirname "$0")"
mkdir -p .work evidence replays
(cd lean && lake build)
# warm the harness build (the checks rebuild it from /repo's working tree on every run)
python3 - <<'PY'
import sys, os, tempfile, shutil
sys.path.insert(0, "checklib")
import checkmain
d = tempfile.mkdtemp(dir=checkmain.WORK)
ok, binp, out, dt = checkmain.build_harness(d)
print("harness build:", "ok" if ok else out[-2000:], round(dt, 1), "s")
shutil.rmtree(d, ignore_errors=True)
sys.exit(0 if ok else 1)
PY
