//go:build verif

package peerwriter

import (
	"fmt"

	"github.com/cenkalti/rain/v2/internal/peerprotocol"
)

// VerifQueue renders the Run loop's writeQueue and currentQueuedRequests. It must only be called
// while the loop is parked in its select (the harness guarantees that: the writer goroutine is
// blocked in conn.Write and the previous API call has been followed by a barrier).
func (p *PeerWriter) VerifQueue() (items []string, queued int) {
	for e := p.writeQueue.Front(); e != nil; e = e.Next() {
		switch m := e.Value.(type) {
		case Piece:
			items = append(items, fmt.Sprintf("P:%d:%d:%d", m.Index, m.Begin, m.Length))
		case peerprotocol.RejectMessage:
			items = append(items, fmt.Sprintf("R:%d:%d:%d", m.Index, m.Begin, m.Length))
		case peerprotocol.ChokeMessage:
			items = append(items, "C")
		case peerprotocol.Message:
			items = append(items, fmt.Sprintf("M%d", m.ID()))
		default:
			items = append(items, "?")
		}
	}
	return items, p.currentQueuedRequests
}
