//go:build verif

package peerreader

import "github.com/cenkalti/rain/v2/internal/bufferpool"

// VerifBlockBuffer returns a block buffer from the reader's own pool, as readPiece does.
func VerifBlockBuffer(n int) bufferpool.Buffer { return blockPool.Get(n) }
