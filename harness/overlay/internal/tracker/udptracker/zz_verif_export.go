//go:build verif

package udptracker

import (
	"bytes"
	"context"

	"github.com/cenkalti/rain/v2/internal/tracker"
)

// VerifBuildAnnounce runs the real request builder (newTransportRequest) and serialiser (WriteTo) the
// way Transport.Run does (connection id and transaction id filled in) and returns the datagram.
func VerifBuildAnnounce(req tracker.AnnounceRequest, urlData string, connID int64, txID int32) []byte {
	r := newTransportRequest(context.Background(), req, "verif", urlData)
	r.ConnectionID = connID
	r.SetTransactionID(txID)
	var b bytes.Buffer
	_, _ = r.WriteTo(&b)
	return b.Bytes()
}

// VerifBuildConnect returns the connect datagram for a transaction id.
func VerifBuildConnect(txID int32) []byte {
	r := newConnectRequest()
	r.SetTransactionID(txID)
	var b bytes.Buffer
	_, _ = r.WriteTo(&b)
	return b.Bytes()
}

// VerifParseAnnounceResponse exposes UDPTracker.parseAnnounceResponse.
func VerifParseAnnounceResponse(t *UDPTracker, data []byte) (interval, leechers, seeders int32, peers []string, err error) {
	resp, addrs, err := t.parseAnnounceResponse(data)
	if err != nil {
		return 0, 0, 0, nil, err
	}
	for _, a := range addrs {
		peers = append(peers, a.String())
	}
	return resp.Interval, resp.Leechers, resp.Seeders, peers, nil
}
