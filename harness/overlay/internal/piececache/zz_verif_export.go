//go:build verif

package piececache

import (
	"sort"
	"time"
)

// VerifItem is one entry of the access list as seen by the harness.
type VerifItem struct {
	Key string
	Len int
}

// VerifState returns the key set of the items map (sorted), the access list (sorted by key), size and maxSize.
func (c *Cache) VerifState() (mapKeys []string, heap []VerifItem, size, maxSize int64) {
	c.m.RLock()
	defer c.m.RUnlock()
	for k := range c.items {
		mapKeys = append(mapKeys, k)
	}
	sort.Strings(mapKeys)
	for _, i := range c.accessList {
		heap = append(heap, VerifItem{Key: i.key, Len: len(i.value)})
	}
	sort.Slice(heap, func(a, b int) bool { return heap[a].Key < heap[b].Key })
	return mapKeys, heap, c.size, c.maxSize
}

// VerifFire makes the expiry timer of the item stored under key fire now (the real
// time.AfterFunc callback runs) and waits until it has run. Reports whether there was such an item.
func (c *Cache) VerifFire(key string) bool {
	c.m.RLock()
	i, ok := c.items[key]
	var t *time.Timer
	if ok {
		t = i.timer
	}
	c.m.RUnlock()
	if !ok || t == nil {
		return false
	}
	t.Reset(0)
	deadline := time.Now().Add(10 * time.Second)
	for time.Now().Before(deadline) {
		c.m.RLock()
		gone := i.index == -1
		c.m.RUnlock()
		if gone {
			return true
		}
		time.Sleep(20 * time.Microsecond)
	}
	panic("verif: expiry timer did not run")
}

// VerifClearThenFire emulates an expiry timer that has already fired when Clear runs and is waiting for the
// cache lock: the cache is cleared, then the timer callback of the item that was stored under key runs.
func (c *Cache) VerifClearThenFire(key string) bool {
	c.m.RLock()
	i, ok := c.items[key]
	c.m.RUnlock()
	c.Clear()
	if !ok || i.timer == nil {
		return false
	}
	i.timer.Reset(0)
	time.Sleep(3 * time.Millisecond) // the callback runs on the timer goroutine
	return true
}

// VerifStaleGet emulates two concurrent readers: one has looked up the item stored under key (first half of Get),
// then another Get loads evictKey (a value of n bytes) and may evict that item, then the first reader goes on
// (second half of Get). Returns what the first reader gets.
func (c *Cache) VerifStaleGet(key, evictKey string, n int) ([]byte, error) {
	i := c.getItem(key)
	_, _ = c.Get(evictKey, func() ([]byte, error) { return make([]byte, n), nil })
	return c.getValue(i, func() ([]byte, error) { return []byte{0xEE}, nil })
}
