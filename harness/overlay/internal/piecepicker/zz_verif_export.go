//go:build verif

package piecepicker

import (
	"fmt"
	"sort"
	"strings"

	"github.com/cenkalti/rain/v2/internal/peer"
)

// VerifPeerID recovers the small integer a harness stored in the first two bytes of a peer id.
func VerifPeerID(pe *peer.Peer) int { return int(pe.ID[0])<<8 | int(pe.ID[1]) }

func verifSet(items []*peer.Peer) string {
	if len(items) == 0 {
		return "-"
	}
	ids := make([]int, len(items))
	for i, pe := range items {
		ids[i] = VerifPeerID(pe)
	}
	sort.Ints(ids)
	parts := make([]string, len(ids))
	for i, id := range ids {
		parts[i] = fmt.Sprint(id)
	}
	return strings.Join(parts, ".")
}

func verifB(b bool) byte {
	if b {
		return '1'
	}
	return '0'
}

// VerifDump prints the six per-piece indexes and the derived summaries in a canonical form:
//
//	av=<available> eg=<endgame> mw=<maxWebseedPieces> P=<piece>|<piece>|…
//
// with <piece> = having;requested;snubbed;choked;webseed;<writing><done><head><tail>, sets as
// sorted peer numbers joined by '.', webseed as the index of the source in webseedSources.
func (p *PiecePicker) VerifDump() string {
	var sb strings.Builder
	fmt.Fprintf(&sb, "av=%d eg=%c mw=%d P=", p.available, verifB(p.endgame), p.maxWebseedPieces)
	for i := range p.pieces {
		mp := &p.pieces[i]
		if i > 0 {
			sb.WriteByte('|')
		}
		ws := "-"
		if mp.RequestedWebseed != nil {
			ws = "?"
			for k, src := range p.webseedSources {
				if src == mp.RequestedWebseed {
					ws = fmt.Sprint(k)
				}
			}
		}
		fmt.Fprintf(&sb, "%s;%s;%s;%s;%s;%c%c%c%c", verifSet(mp.Having.Items), verifSet(mp.Requested.Items),
			verifSet(mp.Snubbed.Items), verifSet(mp.Choked.Items), ws,
			verifB(mp.Writing), verifB(mp.Done), verifB(mp.FileHead), verifB(mp.FileTail))
	}
	return sb.String()
}
