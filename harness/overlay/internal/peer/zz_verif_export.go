//go:build verif

package peer

// VerifFireSnubTimer makes the peer's snub timer fire now (as if RequestTimeout had passed without a block from it).
func (p *Peer) VerifFireSnubTimer() { p.snubTimer.Reset(0) }
