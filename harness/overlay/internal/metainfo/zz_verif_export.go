//go:build verif

package metainfo

// VerifNewInfo builds an Info value the way NewInfo fills it (geometry fields only) without
// going through bencode, so that the harness can also feed NewPieces values that NewInfo
// would reject.  The unexported hash table is sized for numPieces so that PieceHash works.
func VerifNewInfo(pieceLength uint32, numPieces uint32, length int64, files []File) *Info {
	return &Info{
		PieceLength: pieceLength,
		NumPieces:   numPieces,
		Length:      length,
		Files:       files,
		pieces:      make([]byte, 20*int(numPieces)),
	}
}
