//go:build verif

package metainfo

import (
	"errors"
	"strings"
)

// VerifErrClass maps an error of New/NewInfo to a small enum (suites parse, paths).
// Errors that are not produced by the validation in NewInfo come from the bencode decoder.
func VerifErrClass(err error) string {
	switch {
	case err == nil:
		return "ok"
	case errors.Is(err, errZeroPieceLength):
		return "zero-piece-length"
	case errors.Is(err, errInvalidPieceData):
		return "piece-data"
	case errors.Is(err, errZeroPieces):
		return "zero-pieces"
	}
	msg := err.Error()
	switch {
	case strings.HasPrefix(msg, "invalid file name"), strings.HasPrefix(msg, "invalid torrent name"):
		return "dotdot"
	case strings.HasPrefix(msg, "duplicate file name"):
		return "duplicate"
	case strings.Contains(msg, "negative file length"):
		return "negative-length"
	case strings.Contains(msg, "file lengths overflow"):
		return "length-overflow"
	case strings.Contains(msg, "nested too deep"):
		return "too-deep"
	}
	return "decode"
}

// VerifCleanName exposes cleanName.
func VerifCleanName(s string) string { return cleanName(s) }

// VerifTrimName exposes trimName.
func VerifTrimName(s string, max int) string { return trimName(s, max) }

// VerifParsePrivate exposes parsePrivateField.
func VerifParsePrivate(raw []byte) bool { return parsePrivateField(raw) }

// VerifNewInfo builds an Info value the way NewInfo fills it (geometry fields only) without
// going through bencode, so that the harness can also feed NewPieces values that NewInfo
// would reject.  The unexported hash table is sized for numPieces so that PieceHash works.
func VerifNewInfo(pieceLength uint32, numPieces uint32, length int64, files []File) *Info {
	return &Info{
		PieceLength: pieceLength,
		NumPieces:   numPieces,
		Length:      length,
		Files:       files,
		pieces:      make([]byte, 20*int(numPieces)),
	}
}
