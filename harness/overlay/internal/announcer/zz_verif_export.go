//go:build verif

package announcer

import (
	"time"

	"github.com/cenkalti/backoff/v7"
)

// VerifSetBackoff replaces the retry back-off by one with the same shape (factor 2, randomisation 0.5)
// and millisecond-scale intervals, so that retry behaviour can be observed quickly. Call before Run.
func (a *PeriodicalAnnouncer) VerifSetBackoff(initial, max time.Duration) {
	a.backoff = &backoff.ExponentialBackOff{
		InitialInterval:     initial,
		RandomizationFactor: 0.5,
		Multiplier:          2,
		MaxInterval:         max,
	}
}

// VerifNeedSignalPending reports whether a NeedMorePeers signal is still queued for the run loop.
func (a *PeriodicalAnnouncer) VerifNeedSignalPending() bool { return len(a.needMorePeersC) > 0 }

// VerifTrackerURLs returns the trackers the stopped event is announced to.
func (a *StopAnnouncer) VerifTrackerURLs() []string {
	var out []string
	for _, t := range a.trackers {
		out = append(out, t.URL())
	}
	return out
}
