//go:build verif

package suspendchan

// VerifSuspended reports whether the channel is suspended (harness only; read at loop quiescence).
func (c *Chan[T]) VerifSuspended() bool { return c.suspended }
