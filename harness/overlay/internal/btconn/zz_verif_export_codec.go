//go:build verif

package btconn

import "io"

// VerifWriteHandshake exposes writeHandshake.
func VerifWriteHandshake(w io.Writer, ih [20]byte, id [20]byte, extensions [8]byte) error {
	return writeHandshake(w, ih, id, extensions)
}

// VerifReadHandshake runs readHandshake1 followed by readHandshake2.
// class: "ok", "invalid" (errInvalidProtocol) or "short" (any other error).
func VerifReadHandshake(r io.Reader) (extensions [8]byte, ih [20]byte, id [20]byte, class string) {
	extensions, ih, err := readHandshake1(r)
	if err == errInvalidProtocol {
		return extensions, ih, id, "invalid"
	}
	if err != nil {
		return extensions, ih, id, "short"
	}
	id, err = readHandshake2(r)
	if err != nil {
		return extensions, ih, id, "short"
	}
	return extensions, ih, id, "ok"
}
