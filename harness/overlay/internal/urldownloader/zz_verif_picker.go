//go:build verif

package urldownloader

// VerifNewIdle returns a downloader that was never started: Close returns at once (doneC is closed).
// The piece picker only reads Begin/End/current of a downloader and calls UpdateEnd/Close.
func VerifNewIdle(begin, end uint32) *URLDownloader {
	d := New("verif", begin, end, nil)
	close(d.doneC)
	return d
}

// VerifIncrCurrent is incrCurrent: the downloader goroutine moved on to its next piece.
func (d *URLDownloader) VerifIncrCurrent() uint32 { return d.incrCurrent() }
