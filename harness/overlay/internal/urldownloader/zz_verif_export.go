//go:build verif

package urldownloader

import "github.com/cenkalti/rain/v2/internal/piece"

// VerifJob mirrors the unexported downloadJob.
type VerifJob struct {
	Filename   string
	RangeBegin int64
	Length     int64
	Padding    bool
}

// VerifCreateJobs exposes createJobs.
func VerifCreateJobs(pieces []piece.Piece, begin, end uint32) []VerifJob {
	jobs := createJobs(pieces, begin, end)
	out := make([]VerifJob, len(jobs))
	for i, j := range jobs {
		out[i] = VerifJob{Filename: j.Filename, RangeBegin: j.RangeBegin, Length: j.Length, Padding: j.Padding}
	}
	return out
}
