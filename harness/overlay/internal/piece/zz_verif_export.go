//go:build verif

package piece

// VerifCalculateBlocks exposes calculateBlocks with a parametric block size.
func (p *Piece) VerifCalculateBlocks(blockSize uint32) []Block { return p.calculateBlocks(blockSize) }
