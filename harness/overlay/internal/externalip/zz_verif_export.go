//go:build verif

package externalip

import "net"

// VerifIPs exposes the interface addresses IsExternal compares with.
func VerifIPs() []net.IP { return ips }
