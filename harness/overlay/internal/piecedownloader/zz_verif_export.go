//go:build verif

package piecedownloader

import (
	"sort"

	"github.com/cenkalti/rain/v2/internal/bufferpool"
	"github.com/cenkalti/rain/v2/internal/piece"
)

// VerifNewWithBlockSize is the real New followed by a replacement of the block table with the one
// for a small block size, built by the package's own makeBlocks/makeRemaining.  It exists so that
// thousands of block-boundary coincidences fit into tiny pieces; the suite also drives plain New.
func VerifNewWithBlockSize(pi *piece.Piece, pe Peer, allowedFast bool, buf bufferpool.Buffer, blockSize uint32) *PieceDownloader {
	d := New(pi, pe, allowedFast, buf)
	blocks := pi.VerifCalculateBlocks(blockSize)
	d.blocks = makeBlocks(blocks)
	d.remaining = makeRemaining(blocks)
	return d
}

func sortedKeys(m map[uint32]struct{}) []uint32 {
	ks := make([]uint32, 0, len(m))
	for k := range m {
		ks = append(ks, k)
	}
	sort.Slice(ks, func(i, j int) bool { return ks[i] < ks[j] })
	return ks
}

// VerifState exposes the bookkeeping: block table (sorted by begin, as begin/length pairs),
// remaining (in order), pending and done (sorted).
func (d *PieceDownloader) VerifState() (blocks [][2]uint32, remaining, pending, done []uint32) {
	for b, l := range d.blocks {
		blocks = append(blocks, [2]uint32{b, l})
	}
	sort.Slice(blocks, func(i, j int) bool { return blocks[i][0] < blocks[j][0] })
	remaining = append(remaining, d.remaining...)
	return blocks, remaining, sortedKeys(d.pending), sortedKeys(d.done)
}
