//go:build verif

package bufferpool

// VerifNewBuffer calls the unexported newBuffer on a caller-supplied (possibly dirty) backing
// array, i.e. exactly what Pool.Get does with whatever sync.Pool hands back.
func VerifNewBuffer(backing *[]byte, length int, p *Pool) Buffer { return newBuffer(backing, length, p) }
