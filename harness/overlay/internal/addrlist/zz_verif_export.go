//go:build verif

package addrlist

import (
	"net"

	"github.com/google/btree"
)

// VerifSnapshot exposes the two index structures for the correspondence check:
// priorities in peerByTime order (nil slots reported in nils), whether every object's index
// field equals its position, and the priorities held by the btree in ascending order.
func (d *AddrList) VerifSnapshot() (byTime []uint32, nils int, indexOK bool, tree []uint32) {
	indexOK = true
	for i, p := range d.peerByTime {
		if p == nil {
			nils++
			continue
		}
		byTime = append(byTime, p.priority)
		if p.index != i {
			indexOK = false
		}
	}
	d.peerByPriority.Ascend(func(it btree.Item) bool {
		tree = append(tree, it.(*peerAddr).priority)
		return true
	})
	return
}

// VerifClientAddr exposes clientAddr (the second argument of peerpriority.Calculate).
func (d *AddrList) VerifClientAddr() *net.TCPAddr { return d.clientAddr() }
