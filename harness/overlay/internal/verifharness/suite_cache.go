//go:build verif

package main

import (
	"errors"
	"fmt"
	"strings"
	"time"

	"github.com/cenkalti/rain/v2/internal/piececache"
)

// Suite cache (C03 transparency; C17 size bound): operation sequences on the real piececache.Cache.
//   op: open max=<maxSize> ttl=<ms, 0 = one hour>
//   op: get k=<key> v=<len>|err s=<first byte>   loader returns len bytes s,s+1,… (or an error) if it is called
//        obs: hit:<hex> | miss:<hex> | err   + state
//   op: fire k=<key>        the item's real expiry timer fires now
//   op: sleep ms=<n>        real time passes (only with ttl > 0)
//   op: clear
//   state: size=<n> keys=<sorted map keys> heap=<key:len,… sorted>

func init() {
	register(&Suite{Name: "cache", Gen: genCache, Exec: execCache})
}

func cacheState(c *piececache.Cache) string {
	keys, heap, size, _ := c.VerifState()
	var hs []string
	for _, h := range heap {
		hs = append(hs, fmt.Sprintf("%s:%d", h.Key, h.Len))
	}
	return fmt.Sprintf("size=%d keys=%s heap=%s", size, joinOrDash(keys), joinOrDash(hs))
}

func execCacheOnce(ops []string) (obs []string, late bool) {
	var c *piececache.Cache
	defer func() {
		if c != nil {
			c.Close()
		}
	}()
	var start time.Time
	var planned time.Duration
	for _, op := range ops {
		m := kv(op)
		if m["_"] == "open" {
			if c != nil {
				c.Close()
			}
			ttl := time.Hour
			if ms := atoi(m["ttl"]); ms > 0 {
				ttl = time.Duration(ms) * time.Millisecond
			}
			c = piececache.New(atoi64(m["max"]), ttl, 1)
			start, planned = time.Now(), 0
			obs = append(obs, cacheState(c))
			continue
		}
		if c == nil {
			obs = append(obs, "not-open")
			continue
		}
		switch m["_"] {
		case "get":
			called := false
			v, err := c.Get(m["k"], func() ([]byte, error) {
				called = true
				if m["v"] == "err" {
					return []byte{1, 2, 3}, errors.New("disk")
				}
				b := make([]byte, atoi(m["v"]))
				for i := range b {
					b[i] = byte(atoi(m["s"]) + i)
				}
				return b, nil
			})
			var o string
			switch {
			case err != nil:
				o = "err"
			case called:
				o = "miss:" + hexs(v)
			default:
				o = "hit:" + hexs(v)
			}
			obs = append(obs, o+" "+cacheState(c))
		case "fire":
			c.VerifFire(m["k"])
			obs = append(obs, cacheState(c))
		case "sleep":
			d := time.Duration(atoi(m["ms"])) * time.Millisecond
			planned += d
			time.Sleep(time.Until(start.Add(planned)))
			if over := time.Since(start) - planned; over > 12*time.Millisecond {
				late = true
			}
			time.Sleep(2 * time.Millisecond) // let due timer callbacks run
			obs = append(obs, cacheState(c))
		case "clear":
			c.Clear()
			obs = append(obs, cacheState(c))
		case "clearfire":
			// Clear while an expiry timer has already fired and waits for the lock
			c.VerifClearThenFire(m["k"])
			obs = append(obs, cacheState(c))
		case "staleget":
			// a reader that looked the item up before another reader's load evicted it
			v, err := c.VerifStaleGet(m["k"], m["e"], atoi(m["n"]))
			o := "val:" + hexs(v)
			if err != nil {
				o = "err"
			}
			obs = append(obs, o+" "+cacheState(c))
		default:
			obs = append(obs, "unknown-op")
		}
		if planned > 0 && time.Since(start)-planned > 12*time.Millisecond {
			late = true
		}
	}
	return obs, late
}

// execCache re-runs a real-time case when the machine was too slow for its timing margins.
func execCache(ops []string) []string {
	var obs []string
	for try := 0; try < 4; try++ {
		var late bool
		obs, late = execCacheOnce(ops)
		if !late {
			break
		}
	}
	return obs
}

func genCache(r *Rng, n int, tier string) []Case {
	var cases []Case
	keys := []string{"a", "b", "c", "d", "e"}
	for i := 0; i < n; i++ {
		mx := r.Pick(0, 1, 4, 5, 8, 12, 20, 1<<20, -3)
		ops := []string{fmt.Sprintf("open max=%d ttl=0", mx)}
		k := r.Range(4, 40)
		for j := 0; j < k; j++ {
			key := keys[r.Intn(len(keys))]
			switch x := r.Intn(100); {
			case x < 70:
				v := fmt.Sprint(r.Pick(0, 1, 2, 3, 4, 5, 8, mx, mx+1, mx-1, r.Range(0, 9)))
				if strings.HasPrefix(v, "-") || len(v) > 3 {
					v = "3"
				}
				if r.Chance(7) {
					v = "err"
				}
				ops = append(ops, fmt.Sprintf("get k=%s v=%s s=%d", key, v, r.Intn(250)))
			case x < 88:
				ops = append(ops, "fire k="+key)
			case x < 93:
				ops = append(ops, "clear")
			default:
				ops = append(ops, fmt.Sprintf("get k=%s v=%d s=%d", key, r.Range(1, 4), r.Intn(250)))
			}
		}
		cases = append(cases, Case{ID: fmt.Sprintf("cache-%d", i+1), Ops: ops})
	}
	// Interleavings of concurrent users, emulated step by step: a timer that fires across a Clear, a reader
	// whose item is evicted between its lookup and its read.
	for i := 0; i < n/10+4; i++ {
		mx := r.Pick(4, 6, 8, 1<<20)
		ops := []string{fmt.Sprintf("open max=%d ttl=0", mx)}
		for j := r.Range(1, 3); j > 0; j-- {
			ops = append(ops, fmt.Sprintf("get k=%s v=%d s=%d", keys[r.Intn(3)], r.Range(1, 3), r.Intn(250)))
		}
		if r.Chance(30) {
			// two readers of one block; the block may be larger than the whole cache (a cache configured smaller than its block size)
			k := keys[r.Intn(5)]
			ops = append(ops, fmt.Sprintf("staleget k=%s e=%s n=%d", k, k, r.Pick(1, mx, mx+1, mx+1, 3)))
		} else if r.Chance(50) {
			ops = append(ops, "clearfire k="+keys[r.Intn(3)])
		} else {
			ops = append(ops, fmt.Sprintf("staleget k=%s e=%s n=%d", keys[r.Intn(3)], keys[3+r.Intn(2)], r.Pick(1, mx, mx-1, 3)))
		}
		ops = append(ops, fmt.Sprintf("get k=%s v=2 s=7", keys[r.Intn(5)]))
		cases = append(cases, Case{ID: fmt.Sprintf("cache-race-%d", i+1), Ops: ops})
	}
	// Real TTL: 125 ms, steps of 50 ms, so every expiry decision has a 25 ms margin (a run that is late by more than 12 ms is repeated).
	nt := 4
	if tier == "thorough" {
		nt = 40
	}
	for i := 0; i < nt; i++ {
		ops := []string{fmt.Sprintf("open max=%d ttl=125", r.Pick(6, 1<<20))}
		t := 0
		for t < 400 {
			for j := r.Range(0, 2); j > 0; j-- {
				ops = append(ops, fmt.Sprintf("get k=%s v=%d s=%d", keys[r.Intn(3)], r.Range(1, 3), r.Intn(250)))
			}
			step := r.Pick(50, 50, 100, 150)
			ops = append(ops, fmt.Sprintf("sleep ms=%d", step))
			t += step
		}
		ops = append(ops, "get k=a v=1 s=1")
		cases = append(cases, Case{ID: fmt.Sprintf("cache-ttl-%d", i+1), Ops: ops})
	}
	return cases
}
