//go:build verif

package main

import (
	"fmt"
	"runtime"
	"sort"
	"strconv"
	"time"

	"github.com/cenkalti/rain/v2/internal/semaphore"
)

// Suite sem (C17 semaphore_bound): the real internal/semaphore under scripted goroutines.
//
// ops:
//   new n=<N>        -> ok | refused (N < 1: every Wait would block for ever)
//   wait id=<I>      -> acq=<0|1> len=<L> waiting=<W>   (a goroutine calls Wait; observed after the counters settled)
//   signal id=<I>    -> woke=<J|-> len=<L> waiting=<W> | refused (I does not hold)
//   stats            -> len=<L> waiting=<W>

func init() {
	register(&Suite{Name: "sem", Gen: genSem, Exec: execSem})
}

type semCase struct {
	unsettled bool // a settle timed out: the counters do not behave; stop waiting for them in this case
	s       *semaphore.Semaphore
	n       int
	done    map[int]chan struct{}
	holding map[int]bool
	waiting map[int]bool
}

func (c *semCase) settle(want int) {
	if c.unsettled {
		time.Sleep(2 * time.Millisecond)
		return
	}
	deadline := time.Now().Add(300 * time.Millisecond)
	defer func() {
		if !time.Now().Before(deadline) {
			c.unsettled = true
		}
	}()
	for time.Now().Before(deadline) {
		if c.s.Len()+c.s.Waiting() == want {
			l := c.s.Len()
			exp := want
			if exp > c.n {
				exp = c.n
			}
			if l == exp {
				return
			}
		}
		runtime.Gosched()
	}
}

func (c *semCase) stats() string {
	return fmt.Sprintf("len=%d waiting=%d", c.s.Len(), c.s.Waiting())
}

func (c *semCase) collect() []int {
	var woke []int
	for id := range c.waiting {
		select {
		case <-c.done[id]:
			woke = append(woke, id)
		case <-time.After(0):
		}
	}
	sort.Ints(woke)
	for _, id := range woke {
		delete(c.waiting, id)
		c.holding[id] = true
	}
	return woke
}

func execSem(ops []string) []string {
	c := &semCase{done: map[int]chan struct{}{}, holding: map[int]bool{}, waiting: map[int]bool{}}
	defer func() { // drain: let every goroutine finish
		if c.s == nil {
			return
		}
		stop := time.Now().Add(2 * time.Second)
		for len(c.holding)+len(c.waiting) > 0 && time.Now().Before(stop) {
			for id := range c.holding {
				c.s.Signal()
				delete(c.holding, id)
			}
			c.settle(len(c.waiting))
			time.Sleep(time.Millisecond)
			c.collect()
		}
	}()
	var obs []string
	for _, op := range ops {
		m := kv(op)
		if m["_"] == "new" {
			n := atoi(m["n"])
			if c.s != nil || n < 1 {
				obs = append(obs, "refused")
				continue
			}
			c.s, c.n = semaphore.New(n), n
			obs = append(obs, "ok")
			continue
		}
		if c.s == nil {
			obs = append(obs, "nosem")
			continue
		}
		switch m["_"] {
		case "wait":
			id := atoi(m["id"])
			if _, dup := c.done[id]; dup {
				obs = append(obs, "refused")
				continue
			}
			ch := make(chan struct{})
			c.done[id] = ch
			go func() { c.s.Wait(); close(ch) }()
			c.waiting[id] = true
			c.settle(len(c.holding) + len(c.waiting))
			acq := false
			select {
			case <-ch:
				acq = true
			case <-time.After(3 * time.Millisecond):
			}
			if !acq && len(c.holding) < c.n && !c.unsettled { // it should have acquired: give it time
				select {
				case <-ch:
					acq = true
				case <-time.After(300 * time.Millisecond):
					c.unsettled = true
				}
			}
			if acq {
				delete(c.waiting, id)
				c.holding[id] = true
			}
			obs = append(obs, "acq="+b01(acq)+" "+c.stats())
		case "signal":
			id := atoi(m["id"])
			if !c.holding[id] {
				obs = append(obs, "refused")
				continue
			}
			delete(c.holding, id)
			hadWaiters := len(c.waiting) > 0
			c.s.Signal()
			c.settle(len(c.holding) + len(c.waiting))
			var woke []int
			if hadWaiters {
				deadline := time.Now().Add(300 * time.Millisecond)
				if c.unsettled {
					deadline = time.Now().Add(3 * time.Millisecond)
				}
				for len(woke) == 0 && time.Now().Before(deadline) {
					woke = c.collect()
					if len(woke) == 0 {
						time.Sleep(200 * time.Microsecond)
					}
				}
			}
			var parts []string
			for _, w := range woke {
				parts = append(parts, strconv.Itoa(w))
			}
			obs = append(obs, "woke="+joinOrDash(parts)+" "+c.stats())
		case "stats":
			obs = append(obs, c.stats())
		default:
			obs = append(obs, "badop")
		}
	}
	return obs
}

func genSem(r *Rng, n int, tier string) []Case {
	var cases []Case
	for ci := 0; ci < n; ci++ {
		size := r.Pick(1, 1, 2, 3, 4, 10)
		ops := []string{fmt.Sprintf("new n=%d", size)}
		if r.Chance(3) {
			ops = []string{"new n=0", fmt.Sprintf("new n=%d", size)}
		}
		next := 1
		var live []int
		steps := r.Range(4, 30)
		for s := 0; s < steps; s++ {
			switch k := r.Intn(100); {
			case k < 50 && len(live) < size+4:
				ops = append(ops, fmt.Sprintf("wait id=%d", next))
				live = append(live, next)
				next++
			case k < 90 && len(live) > 0:
				i := r.Intn(len(live))
				if r.Chance(70) { // the oldest live one certainly holds
					i = 0
				}
				ops = append(ops, fmt.Sprintf("signal id=%d", live[i]))
				live = append(live[:i], live[i+1:]...)
			default:
				ops = append(ops, "stats")
			}
		}
		cases = append(cases, Case{ID: fmt.Sprintf("sem-%d", ci+1), Ops: ops})
	}
	return cases
}
