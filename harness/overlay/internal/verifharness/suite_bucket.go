//go:build verif

package main

import (
	"fmt"
	"reflect"
	"strings"
	"time"

	"github.com/juju/ratelimit"
)

// Suite bucket (C17 bucket_bound): the real github.com/juju/ratelimit Bucket (the version pinned in
// rain's go.mod) driven with an injected clock.
//
// ops:
//   new rate=<tokens/s> cap=<C>        -> q=<quantum> fi=<fillInterval ns> | panic   (NewBucketWithRateAndClock, as session.go does)
//   newq fi=<ns> cap=<C> q=<Q>         -> q=<Q> fi=<ns> | panic                       (NewBucketWithQuantumAndClock)
//   take now=<ns since start> n=<N>    -> d=<wait ns>                                 (Take with the clock set to `now`)
//   avail now=<ns>                     -> a=<tokens>

func init() {
	register(&Suite{Name: "bucket", Gen: genBucket, Exec: execBucket})
}

type fakeClock struct {
	base time.Time
	off  time.Duration
}

func (c *fakeClock) Now() time.Time        { return c.base.Add(c.off) }
func (c *fakeClock) Sleep(d time.Duration) { c.off += d }

func bucketParams(b *ratelimit.Bucket) string {
	v := reflect.ValueOf(b).Elem()
	return fmt.Sprintf("q=%d fi=%d", v.FieldByName("quantum").Int(), v.FieldByName("fillInterval").Int())
}

func execBucket(ops []string) []string {
	clk := &fakeClock{base: time.Unix(1700000000, 0)}
	var b *ratelimit.Bucket
	mk := func(f func() *ratelimit.Bucket) (out string) {
		defer func() {
			if r := recover(); r != nil {
				out = "panic"
			}
		}()
		clk.off = 0
		nb := f()
		b = nb
		return bucketParams(nb)
	}
	var obs []string
	for _, op := range ops {
		m := kv(op)
		switch m["_"] {
		case "new":
			obs = append(obs, mk(func() *ratelimit.Bucket {
				return ratelimit.NewBucketWithRateAndClock(float64(atoi64(m["rate"])), atoi64(m["cap"]), clk)
			}))
		case "newq":
			obs = append(obs, mk(func() *ratelimit.Bucket {
				return ratelimit.NewBucketWithQuantumAndClock(time.Duration(atoi64(m["fi"])), atoi64(m["cap"]), atoi64(m["q"]), clk)
			}))
		case "take":
			if b == nil {
				obs = append(obs, "nobucket")
				continue
			}
			clk.off = time.Duration(atoi64(m["now"]))
			obs = append(obs, fmt.Sprintf("d=%d", int64(b.Take(atoi64(m["n"])))))
		case "avail":
			if b == nil {
				obs = append(obs, "nobucket")
				continue
			}
			clk.off = time.Duration(atoi64(m["now"]))
			obs = append(obs, fmt.Sprintf("a=%d", b.Available()))
		default:
			obs = append(obs, "badop")
		}
	}
	return obs
}

func genBucket(r *Rng, n int, tier string) []Case {
	var cases []Case
	for ci := 0; ci < n; ci++ {
		var ops []string
		var fi, capa, q int64
		if r.Chance(50) {
			// as in session.go: rate = KiB/s * 1024, capacity = one second of it
			kb := int64(r.Pick(1, 1, 2, 5, 50, 100, 1000, 12345, r.Range(1, 100000)))
			ops = append(ops, fmt.Sprintf("new rate=%d cap=%d", kb*1024, kb*1024))
			capa, q = kb*1024, 1
			fi = 1000000000 / (kb * 1024)
			if fi == 0 {
				fi = 1
			}
		} else {
			fi = int64(r.Pick(1, 2, 3, 10, 1000, 976562))
			capa = int64(r.Pick(1, 2, 3, 8, 20, 100))
			q = int64(r.Pick(1, 1, 2, 4, 7))
			if r.Chance(4) {
				switch r.Intn(3) {
				case 0:
					fi = 0
				case 1:
					capa = 0
				default:
					q = 0
				}
			}
			ops = append(ops, fmt.Sprintf("newq fi=%d cap=%d q=%d", fi, capa, q))
			if fi == 0 {
				fi = 1
			}
		}
		now := int64(0)
		steps := r.Range(4, 30)
		for s := 0; s < steps; s++ {
			k := int64(r.Range(0, 5))
			inc := []int64{0, 0, 1, fi - 1, fi, fi + 1, k * fi, k*fi + 1, capa * fi / (q + 1), int64(r.Range(0, 3)) * 1000000000}[r.Intn(10)]
			if inc < 0 {
				inc = 0
			}
			now += inc
			if r.Chance(15) {
				ops = append(ops, fmt.Sprintf("avail now=%d", now))
				continue
			}
			cnt := []int64{0, 1, 1, capa - 1, capa, capa + 1, 2 * capa, 16384, 16397, q, q + 1, int64(r.Range(0, int(2*capa+2)))}[r.Intn(12)]
			if r.Chance(3) {
				cnt = -cnt
			}
			ops = append(ops, fmt.Sprintf("take now=%d n=%d", now, cnt))
		}
		cases = append(cases, Case{ID: fmt.Sprintf("bucket-%d", ci+1), Ops: ops})
	}
	_ = strings.Join
	return cases
}
