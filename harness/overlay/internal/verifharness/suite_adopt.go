//go:build verif

package main

import (
	"bytes"
	"fmt"
	"go/ast"
	"go/parser"
	"go/printer"
	"go/token"
	"math"
	"runtime/debug"
	"strings"

	"github.com/cenkalti/rain/v2/internal/peerprotocol"
	"github.com/cenkalti/rain/v2/torrent"
	"github.com/zeebo/bencode"
)

// Suite adopt (C13), package-level part: which peer may be asked for metadata.
//
//	next max=<uint> peers=<raw>:<meta>:<hs>:<busy>,…
//	    raw  = metadata_size as written on the wire (any int64), meta = "ut_metadata" in m,
//	    hs   = an extension handshake was received at all, busy = already has an info downloader
//	    Exec: every handshake is bencoded and decoded by the real
//	    peerprotocol.ExtensionMessage.UnmarshalBinary (negative-size clamp), then the real
//	    (*torrent).nextInfoDownload runs (shim VerifNextInfoDownload in package torrent).
//	    obs: pick=<index|none> buf=<len(Bytes)> sizes=<decoded MetadataSize per peer, x = no handshake>
//	gate
//	    Exec: guard skeleton of the `Data` case of (*torrent).handleMetadataMessage read from the
//	    source the binary was built from (go/ast): the ordered `if … break` guards before
//	    `t.info = info`, what is hashed, what is parsed, what is assigned.
//	    obs: guards=<cond=>break;…> hashed=<expr> parsed=<expr> assigned=<expr>
//
// Running the hash gate of handleMetadataMessage needs peers with live connections and the event
// loop; that dynamic tie is left to the loop harness (see notes/C13.md).  `gate` is the
// translator-style tie of DESIGN 1 for the same statement.

func init() {
	register(&Suite{Name: "adopt", Gen: genAdopt, Exec: execAdopt})
}

func execAdopt(ops []string) []string {
	// A broken cap / clamp makes the real code allocate (never touch) a buffer of up to 4 GiB per
	// call.  Under the GOMEMLIMIT the check sets, that turns every later case into a 30 s collector
	// thrash and the run into a hang; without the limit the violation is reported in seconds.
	debug.SetMemoryLimit(math.MaxInt64)
	var obs []string
	for _, op := range ops {
		m := kv(op)
		if m["_"] == "gate" {
			obs = append(obs, adoptGateSkeleton())
			continue
		}
		if m["_"] != "next" {
			obs = append(obs, "unknown-op")
			continue
		}
		var peers []torrent.VerifMetaPeer
		var sizes []string
		bad := false
		for _, ps := range commaList(m["peers"]) {
			f := strings.Split(ps, ":")
			if len(f) != 4 {
				bad = true
				break
			}
			var p torrent.VerifMetaPeer
			p.Busy = f[3] == "1"
			if f[2] == "1" {
				mm := map[string]int64{}
				if f[1] == "1" {
					mm["ut_metadata"] = 1
				}
				mm["ut_pex"] = 2
				payload, err := bencode.EncodeBytes(map[string]any{"m": mm, "metadata_size": atoi64(f[0]), "v": "x", "reqq": 10})
				if err != nil {
					bad = true
					break
				}
				var em peerprotocol.ExtensionMessage
				if err := em.UnmarshalBinary(append([]byte{peerprotocol.ExtensionIDHandshake}, payload...)); err != nil {
					bad = true
					break
				}
				hs := em.Payload.(peerprotocol.ExtensionHandshakeMessage)
				p.Handshake = &hs
				sizes = append(sizes, fmt.Sprint(hs.MetadataSize))
			} else {
				sizes = append(sizes, "x")
			}
			peers = append(peers, p)
		}
		if bad {
			obs = append(obs, "bad-op")
			continue
		}
		pick, buf := torrent.VerifNextInfoDownload(uint(atou(m["max"])), peers)
		ps := "none"
		if pick >= 0 {
			ps = fmt.Sprint(pick)
		}
		obs = append(obs, fmt.Sprintf("pick=%s buf=%d sizes=%s", ps, buf, joinOrDash(sizes)))
	}
	return obs
}

// adoptGateSkeleton is the translator-style tie for the hash gate: it reads the source of
// (*torrent).handleMetadataMessage the binary was built from and prints, for the `Data` case, the
// ordered guards (top-level `if … { …; break }` conditions) that precede the statement
// `t.info = info`, what is hashed, what is parsed and what is assigned.
func adoptGateSkeleton() string {
	path := torrent.VerifMetadataHandlerSource()
	fset := token.NewFileSet()
	f, err := parser.ParseFile(fset, path, nil, 0)
	if err != nil {
		return "gate-error:parse"
	}
	show := func(n ast.Node) string {
		var b bytes.Buffer
		_ = printer.Fprint(&b, fset, n)
		return strings.Join(strings.Fields(b.String()), "")
	}
	var body []ast.Stmt
	for _, d := range f.Decls {
		fd, ok := d.(*ast.FuncDecl)
		if !ok || fd.Name.Name != "handleMetadataMessage" {
			continue
		}
		ast.Inspect(fd, func(n ast.Node) bool {
			cc, ok := n.(*ast.CaseClause)
			if ok && len(cc.List) == 1 && strings.HasSuffix(show(cc.List[0]), "ExtensionMetadataMessageTypeData") {
				body = cc.Body
				return false
			}
			return true
		})
	}
	if body == nil {
		return "gate-error:no-data-case"
	}
	var guards, hashed, parsed []string
	assigned := "-"
	for _, st := range body {
		if as, ok := st.(*ast.AssignStmt); ok && len(as.Lhs) == 1 && show(as.Lhs[0]) == "t.info" {
			assigned = show(as.Rhs[0])
			break
		}
		if is, ok := st.(*ast.IfStmt); ok {
			term := "fall"
			if n := len(is.Body.List); n > 0 {
				if br, ok := is.Body.List[n-1].(*ast.BranchStmt); ok && br.Tok == token.BREAK {
					term = "break"
				}
			}
			if is.Else != nil {
				term += "+else"
			}
			guards = append(guards, show(is.Cond)+"=>"+term)
		}
		ast.Inspect(st, func(n ast.Node) bool {
			if _, isIf := n.(*ast.IfStmt); isIf && n != st {
				return true
			}
			ce, ok := n.(*ast.CallExpr)
			if !ok {
				return true
			}
			switch fn := show(ce.Fun); {
			case strings.HasSuffix(fn, ".Write") && strings.HasPrefix(fn, "hash"):
				hashed = append(hashed, show(ce.Args[0]))
			case strings.HasSuffix(fn, ".parseInfo"):
				parsed = append(parsed, show(ce.Args[0]))
			}
			return true
		})
	}
	semi := func(xs []string) string {
		if len(xs) == 0 {
			return "-"
		}
		return strings.Join(xs, ";")
	}
	return fmt.Sprintf("guards=%s hashed=%s parsed=%s assigned=%s", semi(guards), semi(hashed), semi(parsed), assigned)
}

func genAdopt(r *Rng, n int, tier string) []Case {
	var cases []Case
	cases = append(cases, Case{ID: "adopt-gate", Ops: []string{"gate"}})
	for c := 0; c < n; c++ {
		max := r.Pick(1, 16, 100, 16384, 16385, 100000, 1<<20)
		np := r.Range(0, 5)
		var ps []string
		for i := 0; i < np; i++ {
			raw := int64(r.Pick(0, 1, -1, -5, max-1, max, max+1, 2*max, 16384, 16385, r.Range(1, max), r.Range(1, max)))
			switch r.Intn(30) {
			case 0:
				raw = 1<<32 + int64(r.Range(1, max)) // truncates to a small uint32
			case 1:
				raw = 1<<62 + 77 // truncates to 77 as uint32
			case 2:
				raw = -1 << 63
			case 3:
				raw = 1 << 24
			}
			ps = append(ps, fmt.Sprintf("%d:%s:%s:%s", raw, b01(r.Chance(80)), b01(r.Chance(85)), b01(r.Chance(15))))
		}
		cases = append(cases, Case{ID: fmt.Sprintf("adopt-%d", c+1), Ops: []string{fmt.Sprintf("next max=%d peers=%s", max, joinOrDash(ps))}})
	}
	return cases
}
