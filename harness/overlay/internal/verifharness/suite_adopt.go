//go:build verif

package main

import (
	"fmt"
	"strings"

	"github.com/cenkalti/rain/v2/internal/peerprotocol"
	"github.com/cenkalti/rain/v2/torrent"
	"github.com/zeebo/bencode"
)

// Suite adopt (C13), package-level part: which peer may be asked for metadata.
//
//	next max=<uint> peers=<raw>:<meta>:<hs>:<busy>,…
//	    raw  = metadata_size as written on the wire (any int64), meta = "ut_metadata" in m,
//	    hs   = an extension handshake was received at all, busy = already has an info downloader
//	    Exec: every handshake is bencoded and decoded by the real
//	    peerprotocol.ExtensionMessage.UnmarshalBinary (negative-size clamp), then the real
//	    (*torrent).nextInfoDownload runs (shim VerifNextInfoDownload in package torrent).
//	    obs: pick=<index|none> buf=<len(Bytes)> sizes=<decoded MetadataSize per peer, x = no handshake>
//
// The hash gate of handleMetadataMessage itself needs peers with running connections and the
// event loop; it is left to the loop harness (see notes/C13.md).

func init() {
	register(&Suite{Name: "adopt", Gen: genAdopt, Exec: execAdopt})
}

func execAdopt(ops []string) []string {
	var obs []string
	for _, op := range ops {
		m := kv(op)
		if m["_"] != "next" {
			obs = append(obs, "unknown-op")
			continue
		}
		var peers []torrent.VerifMetaPeer
		var sizes []string
		bad := false
		for _, ps := range commaList(m["peers"]) {
			f := strings.Split(ps, ":")
			if len(f) != 4 {
				bad = true
				break
			}
			var p torrent.VerifMetaPeer
			p.Busy = f[3] == "1"
			if f[2] == "1" {
				mm := map[string]int64{}
				if f[1] == "1" {
					mm["ut_metadata"] = 1
				}
				mm["ut_pex"] = 2
				payload, err := bencode.EncodeBytes(map[string]any{"m": mm, "metadata_size": atoi64(f[0]), "v": "x", "reqq": 10})
				if err != nil {
					bad = true
					break
				}
				var em peerprotocol.ExtensionMessage
				if err := em.UnmarshalBinary(append([]byte{peerprotocol.ExtensionIDHandshake}, payload...)); err != nil {
					bad = true
					break
				}
				hs := em.Payload.(peerprotocol.ExtensionHandshakeMessage)
				p.Handshake = &hs
				sizes = append(sizes, fmt.Sprint(hs.MetadataSize))
			} else {
				sizes = append(sizes, "x")
			}
			peers = append(peers, p)
		}
		if bad {
			obs = append(obs, "bad-op")
			continue
		}
		pick, buf := torrent.VerifNextInfoDownload(uint(atou(m["max"])), peers)
		ps := "none"
		if pick >= 0 {
			ps = fmt.Sprint(pick)
		}
		obs = append(obs, fmt.Sprintf("pick=%s buf=%d sizes=%s", ps, buf, joinOrDash(sizes)))
	}
	return obs
}

func genAdopt(r *Rng, n int, tier string) []Case {
	var cases []Case
	for c := 0; c < n; c++ {
		max := r.Pick(1, 16, 100, 16384, 16385, 100000, 1<<20)
		np := r.Range(0, 5)
		var ps []string
		for i := 0; i < np; i++ {
			raw := int64(r.Pick(0, 1, -1, -5, max-1, max, max+1, 2*max, 16384, 16385, r.Range(1, max), r.Range(1, max)))
			switch r.Intn(30) {
			case 0:
				raw = 1<<32 + int64(r.Range(1, max)) // truncates to a small uint32
			case 1:
				raw = 1<<62 + 77 // truncates to 77 as uint32
			case 2:
				raw = -1 << 63
			case 3:
				raw = 1 << 24
			}
			ps = append(ps, fmt.Sprintf("%d:%s:%s:%s", raw, b01(r.Chance(80)), b01(r.Chance(85)), b01(r.Chance(15))))
		}
		cases = append(cases, Case{ID: fmt.Sprintf("adopt-%d", c+1), Ops: []string{fmt.Sprintf("next max=%d peers=%s", max, joinOrDash(ps))}})
	}
	return cases
}
