//go:build verif

package main

// Shared by suites parse (C06), paths (C07) and limits (C06): the textual description of a
// bencoded info dictionary used in op lines, and its rendering to bytes by the harness's OWN
// encoder (the library under test only ever sees the bytes).
//
//   info mode=<info|meta> utf8=<0|1> pad=<0|1> hash=<40 hex|-> d=<entries|->
//   entries := entry (';' entry)*
//   entry   := key ':' fv          key := pl|pieces|name|nameu|private|length|files|u<hex>
//   fv      := i<text> | s<hex> | n<count> | l | d | D<depth> | r<hex> | F<files>
//   files   := '' | file ('|' file)*        file := 'e' | fentry (',' fentry)*
//   fentry  := fkey '=' ffv        fkey := len|path|pathu|attr|u<hex>
//   ffv     := i<text> | s<hex> | n<count> | l | d | D<depth> | P<comps>
//   comps   := '' | comp ('+' comp)*        comp := s<hex> | i<text> | l
//
// i<text> is emitted as 'i' text 'e' verbatim (so "-0", "007", "+1", "" and non-digits can be
// expressed), s<hex> as a byte string, n<count> as a string of <count> 'x', D<k> as k nested
// lists, r<hex> as raw bytes.

import (
	"bytes"
	"crypto/sha1"
	"encoding/hex"
	"fmt"
	"strconv"
	"strings"
)

var infoKeyNames = map[string]string{
	"pl": "piece length", "pieces": "pieces", "name": "name", "nameu": "name.utf-8",
	"private": "private", "length": "length", "files": "files",
}

var fileKeyNames = map[string]string{"len": "length", "path": "path", "pathu": "path.utf-8", "attr": "attr"}

func bstr(buf *bytes.Buffer, s []byte) {
	buf.WriteString(strconv.Itoa(len(s)))
	buf.WriteByte(':')
	buf.Write(s)
}

func keyBytes(k string, names map[string]string) []byte {
	if n, ok := names[k]; ok {
		return []byte(n)
	}
	if strings.HasPrefix(k, "u") {
		return unhex(k[1:])
	}
	return []byte(k)
}

func renderScalar(buf *bytes.Buffer, fv string) bool {
	if fv == "" {
		return false
	}
	switch fv[0] {
	case 'i':
		buf.WriteByte('i')
		buf.WriteString(fv[1:])
		buf.WriteByte('e')
	case 's':
		bstr(buf, unhex(fv[1:]))
	case 'n':
		n := atoi(fv[1:])
		buf.WriteString(strconv.Itoa(n))
		buf.WriteByte(':')
		buf.Write(bytes.Repeat([]byte{'x'}, n))
	case 'l':
		buf.WriteString("le")
	case 'd':
		buf.WriteString("de")
	case 'D':
		n := atoi(fv[1:])
		buf.Write(bytes.Repeat([]byte{'l'}, n))
		buf.Write(bytes.Repeat([]byte{'e'}, n))
	case 'r':
		buf.Write(unhex(fv[1:]))
	default:
		return false
	}
	return true
}

func renderFile(buf *bytes.Buffer, f string) {
	buf.WriteByte('d')
	if f != "e" && f != "" {
		for _, fe := range strings.Split(f, ",") {
			k, v, _ := strings.Cut(fe, "=")
			bstr(buf, keyBytes(k, fileKeyNames))
			if strings.HasPrefix(v, "P") {
				buf.WriteByte('l')
				if v != "P" {
					for _, c := range strings.Split(v[1:], "+") {
						renderScalar(buf, c)
					}
				}
				buf.WriteByte('e')
			} else {
				renderScalar(buf, v)
			}
		}
	}
	buf.WriteByte('e')
}

// renderInfoDict renders the `d=` value of an op to bencode bytes.
func renderInfoDict(d string) []byte {
	var buf bytes.Buffer
	buf.WriteByte('d')
	if d != "-" && d != "" {
		for _, e := range strings.Split(d, ";") {
			k, v, _ := strings.Cut(e, ":")
			bstr(&buf, keyBytes(k, infoKeyNames))
			if strings.HasPrefix(v, "F") {
				buf.WriteByte('l')
				if v != "F" {
					for _, f := range strings.Split(v[1:], "|") {
						renderFile(&buf, f)
					}
				}
				buf.WriteByte('e')
			} else {
				renderScalar(&buf, v)
			}
		}
	}
	buf.WriteByte('e')
	return buf.Bytes()
}

// renderMeta wraps an info dictionary into a metainfo file.
func renderMeta(info []byte) []byte {
	var buf bytes.Buffer
	buf.WriteByte('d')
	bstr(&buf, []byte("announce"))
	bstr(&buf, []byte("http://tr.example/announce"))
	bstr(&buf, []byte("info"))
	buf.Write(info)
	bstr(&buf, []byte("url-list"))
	buf.WriteByte('l')
	bstr(&buf, []byte("http://ws.example/a/"))
	buf.WriteByte('e')
	buf.WriteByte('e')
	return buf.Bytes()
}

func sha1hex(b []byte) string {
	h := sha1.Sum(b)
	return hex.EncodeToString(h[:])
}

// ---- generator side: a structured description rendered to the op text ----

type gFile struct {
	Len   string   // fv
	Path  []string // comps (each an fv) ; nil + PathRaw=="" => key omitted
	PathU []string
	HasPU bool
	Attr  string // fv or ""
	Extra []string // extra fentries verbatim
	NoLen, NoPath bool
	PathRaw string // when set, used as the ffv of path verbatim
}

type gInfo struct {
	Mode      string
	UTF8, Pad bool
	Entries   []string // rendered entries in order
}

func (f gFile) String() string {
	var es []string
	if !f.NoLen {
		es = append(es, "len="+f.Len)
	}
	if f.PathRaw != "" {
		es = append(es, "path="+f.PathRaw)
	} else if !f.NoPath {
		es = append(es, "path=P"+strings.Join(f.Path, "+"))
	}
	if f.HasPU {
		es = append(es, "pathu=P"+strings.Join(f.PathU, "+"))
	}
	if f.Attr != "" {
		es = append(es, "attr="+f.Attr)
	}
	es = append(es, f.Extra...)
	if len(es) == 0 {
		return "e"
	}
	return strings.Join(es, ",")
}

func filesFV(fs []gFile) string {
	var parts []string
	for _, f := range fs {
		parts = append(parts, f.String())
	}
	return "F" + strings.Join(parts, "|")
}

func (g gInfo) Op() string {
	d := "-"
	if len(g.Entries) > 0 {
		d = strings.Join(g.Entries, ";")
	}
	info := renderInfoDict(d)
	mode := g.Mode
	if mode == "" {
		mode = "info"
	}
	return fmt.Sprintf("info mode=%s utf8=%s pad=%s hash=%s d=%s", mode, b01(g.UTF8), b01(g.Pad), sha1hex(info), d)
}

func sfv(s string) string { return "s" + hex.EncodeToString([]byte(s)) }
func ifv(n int64) string  { return "i" + strconv.FormatInt(n, 10) }
