//go:build verif

package main

// Suite mse (C12): the real mse.Stream handshake and stream.
//
// A case is `params` followed by one run op:
//
//	params xa=<hex20> xb=<hex20> skeys=<hex>,… ksn=<n>
//	   obs: ya= yb= s= req1= req3= hsk=<skey>:<hash>;… ks=<a|b>:<skey>:<keystream 0..n)>;…
//	   (computed with math/big, crypto/sha1, crypto/rc4 — not with package mse; the model treats
//	   them as its cryptographic parameters)
//	hs  skey= keysb= liar= provide= sel= ia= pada= padb= padc= padd= ca= cb= pa= pb= rb=
//	   two real Streams over the scripted pipe (initiator A with private key xa, receiver B with xb)
//	   obs: a=ok:<sel>|err:<e> b=… fra= frb= a2b=<hex> b2a=<hex> gota=<hex> gotb=<hex>
//	in  keysb= liar= sel= padb= padd= cb= pb= rb= w1=<hex> n2=<n> w2=<hex>
//	   real HandshakeIncoming against a byte script: write w1, wait for n2 bytes, write w2, close
//	   obs: b=… frb= b2a= gotb=
//	out skey= provide= ia= pada= padc= ca= pa= rb= n1=<n> w1=<hex> n2=<n> w2=<hex>
//	   real HandshakeOutgoing against a byte script: wait n1, write w1, wait n2, write w2, close
//	   obs: a=… fra= a2b= gota=

import (
	"fmt"
	"io"
	"strings"
	"sync"
	"time"

	"github.com/cenkalti/rain/v2/internal/mse"
)

func init() {
	register(&Suite{Name: "mse", Gen: genMSE, Exec: execMSE})
}

// ---------------------------------------------------------------------------------------------
// executor
// ---------------------------------------------------------------------------------------------

type mseParams struct {
	xa, xb []byte
	skeys  [][]byte // keys whose HashSKey the model needs
	kskeys [][]byte // keys whose RC4 key-streams the model needs (default: skeys)
	ksn    int
}

func parseMSEParams(m map[string]string) mseParams {
	p := mseParams{xa: unhex(m["xa"]), xb: unhex(m["xb"]), skeys: mseHexList(m["skeys"]), ksn: atoi(m["ksn"])}
	if _, ok := m["kskeys"]; ok {
		p.kskeys = mseHexList(m["kskeys"])
	} else {
		p.kskeys = p.skeys
	}
	return p
}

func mseParseChunks(s string) []int {
	var out []int
	for _, t := range commaList(s) {
		out = append(out, atoi(t))
	}
	return out
}

func mseHexList(s string) [][]byte {
	var out [][]byte
	for _, t := range commaList(s) {
		out = append(out, unhex(t))
	}
	return out
}

func execMSE(ops []string) []string {
	var obs []string
	var p mseParams
	for _, op := range ops {
		m := kv(op)
		switch m["_"] {
		case "params":
			p = parseMSEParams(m)
			obs = append(obs, paramsObs(p))
		case "hs":
			obs = append(obs, execHS(p, m))
		case "in":
			obs = append(obs, execIn(p, m))
		case "out":
			obs = append(obs, execOut(p, m))
		default:
			obs = append(obs, "unknown-op")
		}
	}
	return obs
}

func paramsObs(p mseParams) string {
	ya, yb := refPub(p.xa), refPub(p.xb)
	s := refDH(yb, p.xa)
	var hsk, ks []string
	for _, k := range p.skeys {
		hsk = append(hsk, hx(k)+":"+hx(refHashSKey(k)))
	}
	for _, k := range p.kskeys {
		ks = append(ks, "a:"+hx(k)+":"+hx(refKS(true, s, k, p.ksn)))
		ks = append(ks, "b:"+hx(k)+":"+hx(refKS(false, s, k, p.ksn)))
	}
	return fmt.Sprintf("ya=%s yb=%s s=%s req1=%s req3=%s hsk=%s ks=%s", hx(ya), hx(yb), hx(s), hx(refReq1(s)), hx(refReq3(s)),
		strings.Join(hsk, ";"), strings.Join(ks, ";"))
}

// selectFunc builds B's cryptoSelect from the mode string; *seen receives the value it returned.
func selectFunc(mode string, seen *uint32) func(mse.CryptoMethod) mse.CryptoMethod {
	return func(provided mse.CryptoMethod) mse.CryptoMethod {
		pr := uint32(provided)
		var sel uint32
		switch {
		case mode == "rc4first":
			if pr&2 != 0 {
				sel = 2
			} else if pr&1 != 0 {
				sel = 1
			}
		case mode == "force":
			if pr&2 != 0 {
				sel = 2
			}
		case mode == "plainfirst":
			if pr&1 != 0 {
				sel = 1
			} else if pr&2 != 0 {
				sel = 2
			}
		case mode == "low":
			sel = pr & -pr
		case mode == "high":
			for b := uint32(1 << 31); b != 0; b >>= 1 {
				if pr&b != 0 {
					sel = b
					break
				}
			}
		case strings.HasPrefix(mode, "const:"):
			sel = uint32(atou(mode[6:]))
		}
		*seen = sel
		return mse.CryptoMethod(sel)
	}
}

// getSKeyFunc: lookup by hash among keys (like torrent.getSKey); a liar returns keys[0] whatever
// the hash is.
func getSKeyFunc(keys [][]byte, liar bool) func([20]byte) []byte {
	return func(h [20]byte) []byte {
		if liar && len(keys) > 0 {
			return keys[0]
		}
		for _, k := range keys {
			if arr20(refHashSKey(k)) == h {
				return k
			}
		}
		return nil
	}
}

// readAllStream drains a Stream with the scripted buffer sizes until EOF.
func readAllStream(r io.Reader, sizes []int) []byte {
	var out []byte
	i := 0
	for {
		n := 4096
		if len(sizes) > 0 {
			n = sizes[i%len(sizes)]
			i++
			if n < 1 {
				n = 1
			}
		}
		buf := make([]byte, n)
		k, err := r.Read(buf)
		out = append(out, buf[:k]...)
		if err != nil {
			return out
		}
	}
}

func resStr(err error, sel uint32) string {
	if err != nil {
		return "err:" + mseErrEnum(err)
	}
	return fmt.Sprintf("ok:%d", sel)
}

func execHS(p mseParams, m map[string]string) string {
	padA, padB := unhex(m["pada"]), unhex(m["padb"])
	ea, eb, a2b, b2a := newDuplex(mseParseChunks(m["ca"]), mseParseChunks(m["cb"]))
	sr, restore := installRand()
	defer restore()
	cancel := watchdog(5*time.Second, ea, eb)
	defer cancel()
	rb := mseParseChunks(m["rb"])

	var wg sync.WaitGroup
	var resA, resB string
	var gotA, gotB []byte
	wg.Add(2)
	go func() {
		defer wg.Done()
		sr.setScript(randScriptOutgoing(p.xa, padA, atoi(m["padc"])))
		s := mse.NewStream(ea)
		sel, err := s.HandshakeOutgoing(unhex(m["skey"]), mse.CryptoMethod(atou(m["provide"])), unhex(m["ia"]))
		resA = resStr(err, uint32(sel))
		if err != nil {
			ea.Close()
			return
		}
		s.Write(unhex(m["pa"]))
		ea.CloseWrite()
		gotA = readAllStream(s, rb)
	}()
	go func() {
		defer wg.Done()
		sr.setScript(randScriptIncoming(p.xb, padB, atoi(m["padd"])))
		s := mse.NewStream(eb)
		var seen uint32
		err := s.HandshakeIncoming(getSKeyFunc(mseHexList(m["keysb"]), m["liar"] == "1"), selectFunc(m["sel"], &seen))
		resB = resStr(err, seen)
		if err != nil {
			eb.Close()
			return
		}
		s.Write(unhex(m["pb"]))
		eb.CloseWrite()
		gotB = readAllStream(s, rb)
	}()
	wg.Wait()
	tapAB, readsB := a2b.snapshot()
	tapBA, readsA := b2a.snapshot()
	return fmt.Sprintf("a=%s b=%s fra=%d frb=%d a2b=%s b2a=%s gota=%s gotb=%s", resA, resB,
		firstReadOf(readsA), firstReadOf(readsB), hx(tapAB), hx(tapBA), hx(gotA), hx(gotB))
}

// runScript plays the remote side: optional wait for n bytes from the real side before each write.
func runScript(e *pipeEnd, in *halfPipe, steps []scriptStep) {
	for _, st := range steps {
		if st.wait > 0 && !in.waitTotal(st.wait) {
			break
		}
		if _, err := e.Write(st.data); err != nil {
			break
		}
	}
	e.CloseWrite()
}

type scriptStep struct {
	wait int
	data []byte
}

func execIn(p mseParams, m map[string]string) string {
	padB := unhex(m["padb"])
	ea, eb, a2b, b2a := newDuplex(nil, mseParseChunks(m["cb"]))
	sr, restore := installRand()
	defer restore()
	cancel := watchdog(5*time.Second, ea, eb)
	defer cancel()
	var wg sync.WaitGroup
	var resB string
	var gotB []byte
	wg.Add(2)
	go func() {
		defer wg.Done()
		runScript(ea, b2a, []scriptStep{{0, unhex(m["w1"])}, {atoi(m["n2"]), unhex(m["w2"])}})
	}()
	go func() {
		defer wg.Done()
		sr.setScript(randScriptIncoming(p.xb, padB, atoi(m["padd"])))
		s := mse.NewStream(eb)
		var seen uint32
		err := s.HandshakeIncoming(getSKeyFunc(mseHexList(m["keysb"]), m["liar"] == "1"), selectFunc(m["sel"], &seen))
		resB = resStr(err, seen)
		if err != nil {
			eb.Close()
			return
		}
		s.Write(unhex(m["pb"]))
		eb.CloseWrite()
		gotB = readAllStream(s, mseParseChunks(m["rb"]))
	}()
	wg.Wait()
	_, readsB := a2b.snapshot()
	tapBA, _ := b2a.snapshot()
	return fmt.Sprintf("b=%s frb=%d b2a=%s gotb=%s", resB, firstReadOf(readsB), hx(tapBA), hx(gotB))
}

func execOut(p mseParams, m map[string]string) string {
	padA := unhex(m["pada"])
	ea, eb, a2b, b2a := newDuplex(mseParseChunks(m["ca"]), nil)
	sr, restore := installRand()
	defer restore()
	cancel := watchdog(5*time.Second, ea, eb)
	defer cancel()
	var wg sync.WaitGroup
	var resA string
	var gotA []byte
	wg.Add(2)
	go func() {
		defer wg.Done()
		runScript(eb, a2b, []scriptStep{{atoi(m["n1"]), unhex(m["w1"])}, {atoi(m["n2"]), unhex(m["w2"])}})
	}()
	go func() {
		defer wg.Done()
		sr.setScript(randScriptOutgoing(p.xa, padA, atoi(m["padc"])))
		s := mse.NewStream(ea)
		sel, err := s.HandshakeOutgoing(unhex(m["skey"]), mse.CryptoMethod(atou(m["provide"])), unhex(m["ia"]))
		resA = resStr(err, uint32(sel))
		if err != nil {
			ea.Close()
			return
		}
		s.Write(unhex(m["pa"]))
		ea.CloseWrite()
		gotA = readAllStream(s, mseParseChunks(m["rb"]))
	}()
	wg.Wait()
	tapAB, _ := a2b.snapshot()
	_, readsA := b2a.snapshot()
	return fmt.Sprintf("a=%s fra=%d a2b=%s gota=%s", resA, firstReadOf(readsA), hx(tapAB), hx(gotA))
}

// ---------------------------------------------------------------------------------------------
// generator
// ---------------------------------------------------------------------------------------------

var mseReadSizes = []int{1, 2, 19, 20, 95, 96, 97, 607, 608, 609}

func genChunks(r *Rng) string {
	switch r.Intn(5) {
	case 0:
		return "-" // unfragmented
	case 1:
		return fmt.Sprint(r.Pick(mseReadSizes...))
	default:
		n := r.Range(1, 6)
		var parts []string
		for i := 0; i < n; i++ {
			if r.Chance(70) {
				parts = append(parts, fmt.Sprint(r.Pick(mseReadSizes...)))
			} else {
				parts = append(parts, fmt.Sprint(r.Range(1, 700)))
			}
		}
		return strings.Join(parts, ",")
	}
}

func genPadLen(r *Rng) int {
	return r.Pick(0, 0, 1, 2, 7, 8, 19, 20, 21, 95, 96, 255, 256, 257, 500, 510, 511, 511, r.Range(0, 511), r.Range(0, 511), r.Range(0, 40))
}

func genPayload(r *Rng, big bool) []byte {
	n := r.Pick(0, 0, 1, 2, 20, 67, 68, 69, r.Range(0, 300))
	if big {
		n = r.Pick(65535, 65535, 65534, 40000)
	}
	return r.Bytes(n)
}

func genKey(r *Rng) []byte {
	return r.Bytes(r.Pick(20, 20, 20, 20, 4, 1, 33))
}

type mseCase struct {
	xa, xb []byte
	skeys  [][]byte
	kskeys [][]byte
	run    string
	need   int // key-stream bytes beyond the 1024 discarded ones
}

func (c mseCase) ops() []string {
	kk := c.kskeys
	if kk == nil {
		kk = c.skeys
	}
	return []string{
		fmt.Sprintf("params xa=%s xb=%s skeys=%s kskeys=%s ksn=%d", hx(c.xa), hx(c.xb), hexJoin(c.skeys), hexJoin(kk), 1024+c.need+8),
		c.run,
	}
}

func hexJoin(bs [][]byte) string {
	var parts []string
	for _, b := range bs {
		parts = append(parts, hx(b))
	}
	return joinOrDash(parts)
}

// genHonest: two real endpoints. pads may be pinned (>=0) by the caller.
func genHonest(r *Rng, padA, padB, padC, padD int, ca, cb string, big bool) mseCase {
	c := mseCase{xa: r.Bytes(20), xb: r.Bytes(20)}
	skey := genKey(r)
	keysb := [][]byte{skey}
	liar := false
	switch r.Intn(20) {
	case 0: // receiver does not know the key
		keysb = [][]byte{genKey(r)}
	case 1:
		keysb = nil
	case 2, 3: // several keys, the right one last
		keysb = [][]byte{genKey(r), genKey(r), skey}
	case 4: // receiver answers with a different key whatever the hash is
		keysb = [][]byte{genKey(r), skey}
		liar = true
	}
	c.skeys = append([][]byte{skey}, keysb...)
	c.kskeys = [][]byte{skey}
	if liar {
		c.kskeys = append(c.kskeys, keysb[0])
	}
	// mostly valid offers and selection functions; ~25 % malformed (empty offer, a selection that
	// is zero / not a single bit / not offered)
	provide := r.PickU(1, 2, 3, 3, 3, 3, 2, 6, 7, 0x80000002, 0x80000003, 0xFFFFFFFF, uint64(1+r.Intn(15)))
	sel := []string{"rc4first", "rc4first", "rc4first", "plainfirst", "plainfirst", "low", "high"}[r.Intn(7)]
	if r.Chance(25) {
		provide = r.PickU(0, 4, 0x80000000, provide, provide, provide)
		sel = []string{"force", "const:0", "const:1", "const:2", "const:3", "const:4", "rc4first",
			fmt.Sprintf("const:%d", r.PickU(8, 5, 0x80000000, 0xFFFFFFFF))}[r.Intn(8)]
	}
	if padA < 0 {
		padA = genPadLen(r)
	}
	if padB < 0 {
		padB = genPadLen(r)
	}
	if padC < 0 {
		padC = genPadLen(r)
	}
	if padD < 0 {
		padD = genPadLen(r)
	}
	ia := genPayload(r, big)
	if !big && r.Chance(2) {
		ia = r.Bytes(65536) // "initial payload is too big"
	}
	pa, pb := genPayload(r, false), genPayload(r, false)
	if ca == "" {
		ca = genChunks(r)
	}
	if cb == "" {
		cb = genChunks(r)
	}
	c.need = 14 + padC + padD + 2 + len(ia) + len(pa) + len(pb)
	c.run = fmt.Sprintf("hs skey=%s keysb=%s liar=%s provide=%d sel=%s ia=%s pada=%s padb=%s padc=%d padd=%d ca=%s cb=%s pa=%s pb=%s rb=%s",
		hx(skey), hexJoin(keysb), b01(liar), provide, sel, hx(ia), hx(r.Bytes(padA)), hx(r.Bytes(padB)), padC, padD, ca, cb, hx(pa), hx(pb), genChunks(r))
	return c
}

// genIn: real receiver against a scripted initiator (pads up to and beyond 512, long PadC,
// malformed step 3).
func genIn(r *Rng) mseCase {
	c := mseCase{xa: r.Bytes(20), xb: r.Bytes(20)}
	skey := genKey(r)
	c.skeys = [][]byte{skey}
	s := refDH(refPub(c.xb), c.xa)
	padALen := r.Pick(512, 512, 513, 511, 0, 1, 600, r.Range(0, 520))
	padA := r.Bytes(padALen)
	padB := r.Bytes(genPadLen(r))
	padD := genPadLen(r)
	provide := uint32(r.PickU(1, 2, 3, 3, 3, 0, 6, 0x80000001))
	padC := r.Pick(0, 1, 511, 512, 513, 1000, 65535, r.Range(0, 700))
	ia := genPayload(r, false)
	lenIA := len(ia)
	vcb := make([]byte, 8)
	after := genPayload(r, false)
	kind := "ok"
	switch r.Intn(12) {
	case 0:
		vcb[r.Intn(8)] = byte(r.Range(1, 255))
		kind = "badvc"
	case 1:
		lenIA = len(ia) + r.Range(1, 5) // IA shorter than announced, nothing follows
		after = nil
		kind = "shortia"
	case 2: // req1 planted inside PadA: the scan locks on too early
		if padALen >= 20 {
			off := r.Range(0, padALen-20)
			copy(padA[off:], refReq1(s))
			kind = "earlymatch"
		}
	}
	w1 := append(append([]byte{}, refPub(c.xa)...), padA...)
	w2 := refStep3(s, skey, vcb, provide, padC, lenIA, ia, after)
	if kind == "ok" && r.Chance(8) { // truncated step 3
		w2 = w2[:r.Intn(len(w2))]
	}
	sel := []string{"rc4first", "rc4first", "force", "plainfirst", "low", "const:2", "const:1"}[r.Intn(7)]
	pb := genPayload(r, false)
	c.need = 14 + padC + 2 + len(ia) + len(after) + len(pb) + 512
	c.run = fmt.Sprintf("in keysb=%s liar=0 sel=%s padb=%s padd=%d cb=%s pb=%s rb=%s w1=%s n2=%d w2=%s",
		hx(skey), sel, hx(padB), padD, genChunks(r), hx(pb), genChunks(r), hx(w1), 96+len(padB), hx(w2))
	return c
}

// genOut: real initiator against a scripted receiver (PadB up to and beyond 512, long PadD,
// invalid selections, malformed step 4).
func genOut(r *Rng) mseCase {
	c := mseCase{xa: r.Bytes(20), xb: r.Bytes(20)}
	skey := genKey(r)
	c.skeys = [][]byte{skey}
	s := refDH(refPub(c.xa), c.xb)
	padA := r.Bytes(genPadLen(r))
	padC := genPadLen(r)
	padBLen := r.Pick(512, 512, 513, 511, 0, 1, 600, r.Range(0, 520))
	padB := r.Bytes(padBLen)
	provide := uint32(r.PickU(1, 2, 3, 3, 3, 6, 0x80000002))
	selected := uint32(r.PickU(1, 2, 2, 2, 0, 3, 4, 8, 0x80000000, uint64(provide&-provide)))
	padD := r.Pick(0, 1, 511, 512, 513, 1000, 65535, r.Range(0, 700))
	padDField := padD
	vcb := make([]byte, 8)
	after := genPayload(r, false)
	switch r.Intn(12) {
	case 0:
		vcb[r.Intn(8)] = byte(r.Range(1, 255)) // the encrypted VC never shows up
	case 1:
		padDField = padD + r.Range(1, 4) // PadD shorter than announced, nothing follows
		after = nil
	case 2: // the encrypted VC planted inside PadB
		if padBLen >= 8 {
			ks := refKS(false, s, skey, 1032)
			copy(padB[r.Range(0, padBLen-8):], ks[1024:1032])
		}
	case 3, 4:
		// a sync marker that overlaps itself, behind a pad that ends like the marker begins: the receiver's key is
		// searched until ENCRYPT(VC) starts with two equal bytes (1 in 256 keys), and PadB ends with 1..3 copies of
		// that byte. A scan that does not fall back correctly after a partial match steps over the true marker.
		for try := 0; try < 4000; try++ {
			xb := r.Bytes(20)
			s2 := refDH(refPub(c.xa), xb)
			ks := refKS(false, s2, skey, 1032)
			if ks[1024] == ks[1025] && ks[1026] != ks[1024] {
				c.xb, s = xb, s2
				if padBLen == 0 {
					padBLen = r.Range(1, 100)
					padB = r.Bytes(padBLen)
				}
				for k := 1; k <= r.Range(1, 3) && k <= padBLen; k++ {
					padB[padBLen-k] = ks[1024]
				}
				break
			}
		}
	}
	ia := genPayload(r, false)
	pa := genPayload(r, false)
	w1 := append(append([]byte{}, refPub(c.xb)...), padB...)
	w2 := refStep4(s, skey, vcb, selected, padDField, padD, after)
	if r.Chance(8) {
		w2 = w2[:r.Intn(len(w2)+1)]
	}
	c.need = 14 + 512 + 2 + len(ia) + len(pa) + padD + len(after) + 64
	c.run = fmt.Sprintf("out skey=%s provide=%d ia=%s pada=%s padc=%d ca=%s pa=%s rb=%s n1=%d w1=%s n2=%d w2=%s",
		hx(skey), provide, hx(ia), hx(padA), padC, genChunks(r), hx(pa), genChunks(r), 96+len(padA), hx(w1),
		96+len(padA)+40+14+padC+2+len(ia), hx(w2))
	return c
}

func genMSE(r *Rng, n int, tier string) []Case {
	var cases []Case
	id := 0
	add := func(c mseCase) {
		id++
		cases = append(cases, Case{ID: fmt.Sprintf("mse-%d", id), Ops: c.ops()})
	}
	// Every pad value 0..511 on each of the four pads (thorough: all; quick: a stride that still
	// hits 0, 511 and the byte boundary 255/256), read sizes cycling through the coincidence set.
	stride := 37
	if tier == "thorough" {
		stride = 1
	}
	k := 0
	for which := 0; which < 4; which++ {
		for v := 0; v < 512; v++ {
			if !(v%stride == 0 || v == 511 || v == 255 || v == 256 || v == 1) {
				continue
			}
			pads := [4]int{-1, -1, -1, -1}
			pads[which] = v
			sz := fmt.Sprint(mseReadSizes[k%len(mseReadSizes)])
			k++
			add(genHonest(r, pads[0], pads[1], pads[2], pads[3], sz, sz, false))
		}
	}
	// big initial payloads (16-bit length field)
	nbig := 3
	if tier == "thorough" {
		nbig = 12
	}
	for i := 0; i < nbig; i++ {
		add(genHonest(r, -1, -1, -1, -1, "", "", true))
	}
	for i := 0; i < n; i++ {
		switch r.Intn(10) {
		case 0, 1:
			add(genIn(r))
		case 2, 3:
			add(genOut(r))
		default:
			add(genHonest(r, -1, -1, -1, -1, "", "", false))
		}
	}
	return cases
}
