//go:build verif

package main

// Reference pieces for the C12 suites, written against the MSE specification with the Go standard
// library only (math/big, crypto/sha1, crypto/rc4) and deliberately NOT importing
// internal/mse: the values computed here (S, the hashes, the RC4 key-streams) are what the Lean
// model treats as parameters, and the scripted remote endpoints are built from them.

import (
	"crypto/rc4"
	"crypto/sha1"
	"encoding/binary"
	"encoding/hex"
	"math/big"
)

var refPrime, _ = new(big.Int).SetString(
	"FFFFFFFFFFFFFFFFC90FDAA22168C234C4C6628B80DC1CD129024E088A67CC74020BBEA63B139B22514A08798E3404DD"+
		"EF9519B3CD3A431B302B0A6DF25F14374FE1356D6D51C245E485B576625E7EC6F44C42E9A63A36210000000000090563", 16)

func refPad96(n *big.Int) []byte {
	b := n.Bytes()
	out := make([]byte, 96)
	copy(out[96-len(b):], b)
	return out
}

// refPub: Y = 2^x mod P as 96 bytes.
func refPub(x []byte) []byte {
	return refPad96(new(big.Int).Exp(big.NewInt(2), new(big.Int).SetBytes(x), refPrime))
}

// refDH: S = Y^x mod P as 96 bytes.
func refDH(y, x []byte) []byte {
	return refPad96(new(big.Int).Exp(new(big.Int).SetBytes(y), new(big.Int).SetBytes(x), refPrime))
}

func refHash(parts ...[]byte) []byte {
	h := sha1.New()
	for _, p := range parts {
		h.Write(p)
	}
	return h.Sum(nil)
}

func refReq1(s []byte) []byte     { return refHash([]byte("req1"), s) }
func refReq3(s []byte) []byte     { return refHash([]byte("req3"), s) }
func refHashSKey(k []byte) []byte { return refHash([]byte("req2"), k) }

// refKS: first n bytes of the RC4 key-stream for key SHA1(prefix ‖ S ‖ sKey) (position 0 = first
// byte RC4 produces; the protocol discards 1024).
func refKS(keyA bool, s, skey []byte, n int) []byte {
	prefix := "keyB"
	if keyA {
		prefix = "keyA"
	}
	c, _ := rc4.NewCipher(refHash([]byte(prefix), s, skey))
	out := make([]byte, n)
	c.XORKeyStream(out, out)
	return out
}

func refXor(a, b []byte) []byte {
	out := make([]byte, len(a))
	for i := range a {
		out[i] = a[i] ^ b[i%len(b)]
	}
	return out
}

// refCipher is an RC4 stream positioned after the 1024 discarded bytes.
type refCipher struct{ c *rc4.Cipher }

func newRefCipher(keyA bool, s, skey []byte) *refCipher {
	prefix := "keyB"
	if keyA {
		prefix = "keyA"
	}
	c, _ := rc4.NewCipher(refHash([]byte(prefix), s, skey))
	d := make([]byte, 1024)
	c.XORKeyStream(d, d)
	return &refCipher{c}
}

func (r *refCipher) x(b []byte) []byte {
	out := make([]byte, len(b))
	r.c.XORKeyStream(out, b)
	return out
}

func be16(n int) []byte { b := make([]byte, 2); binary.BigEndian.PutUint16(b, uint16(n)); return b }
func mseBe32(n uint32) []byte {
	b := make([]byte, 4)
	binary.BigEndian.PutUint32(b, n)
	return b
}

// refStep3 builds what an initiator writes in step 3 (plus `after`, encrypted with the same
// stream, e.g. the first payload bytes).  vcBytes lets a malformed stream carry a wrong VC.
func refStep3(s, skey []byte, vcBytes []byte, provide uint32, padC int, lenIAField int, ia []byte, after []byte) []byte {
	w := newRefCipher(true, s, skey)
	var plain []byte
	plain = append(plain, vcBytes...)
	plain = append(plain, mseBe32(provide)...)
	plain = append(plain, be16(padC)...)
	plain = append(plain, make([]byte, padC)...)
	plain = append(plain, be16(lenIAField)...)
	plain = append(plain, ia...)
	plain = append(plain, after...)
	var out []byte
	out = append(out, refReq1(s)...)
	out = append(out, refXor(refHashSKey(skey), refReq3(s))...)
	out = append(out, w.x(plain)...)
	return out
}

// refStep4 builds what a receiver writes in step 4 plus `after` under the negotiated method.
func refStep4(s, skey []byte, vcBytes []byte, selected uint32, padDField int, padD int, after []byte) []byte {
	w := newRefCipher(false, s, skey)
	var plain []byte
	plain = append(plain, vcBytes...)
	plain = append(plain, mseBe32(selected)...)
	plain = append(plain, be16(padDField)...)
	plain = append(plain, make([]byte, padD)...)
	out := w.x(plain)
	if selected == 1 {
		out = append(out, after...)
	} else {
		out = append(out, w.x(after)...)
	}
	return out
}

func hx(b []byte) string {
	if len(b) == 0 {
		return "-"
	}
	return hex.EncodeToString(b)
}
